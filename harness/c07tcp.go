package main

import (
	"bufio"
	"fmt"
	"net"
	"strings"
	"sync/atomic"
	"time"

	"github.com/lrstanley/girc"
)

// C07 on a real TCP socket (loopback): the server aborts the connection (RST) right after registration; Connect returns a
// non-nil I/O error AND has closed its socket — on a transport where shutting down the write side can fail.
type tcpRecorder struct {
	*net.TCPConn
	closed int32
}

func (t *tcpRecorder) Close() error {
	atomic.AddInt32(&t.closed, 1)
	return t.TCPConn.Close()
}

type tcpDialer struct {
	addr string
	conn *tcpRecorder
}

func (d *tcpDialer) Dial(network, address string) (net.Conn, error) {
	c, err := net.DialTimeout("tcp", d.addr, 2*time.Second)
	if err != nil {
		return nil, err
	}
	d.conn = &tcpRecorder{TCPConn: c.(*net.TCPConn)}
	return d.conn, nil
}

func init() {
	runners["tcprst"] = func(c *Ctx, in map[string]string) {
		hin := hexIn(in)
		l, err := net.Listen("tcp", "127.0.0.1:0")
		if err != nil {
			c.R.Note("tcprst: no loopback listener available in this sandbox (" + err.Error() + "): scenario skipped")
			return
		}
		defer l.Close()
		go func() {
			sc, err := l.Accept()
			if err != nil {
				return
			}
			rd := bufio.NewReader(sc)
			for {
				sc.SetReadDeadline(time.Now().Add(3 * time.Second))
				line, err := rd.ReadString('\n')
				if err != nil || strings.HasPrefix(line, "USER") {
					break
				}
			}
			if in["how"] == "rst" {
				sc.(*net.TCPConn).SetLinger(0) // abortive close: the client's next socket operation sees a reset
			}
			sc.Close()
		}()
		cl := girc.New(girc.Config{Server: "irc.example.org", Port: 6667, Nick: "me", User: "me", Name: "me", AllowFlood: true})
		d := &tcpDialer{addr: l.Addr().String()}
		ret := make(chan error, 1)
		go func() { ret <- cl.DialerConnect(d) }()
		var cerr error
		select {
		case cerr = <-ret:
		case <-time.After(10 * time.Second):
			c.R.Violation("life.no_return", hin, "Connect did not return within 10 s of the server aborting the TCP connection", "", "a connection ends in bounded time after the peer closes")
			go cl.Close()
			return
		}
		if cerr == nil {
			c.R.Violation("life.eof_not_ioerr", hin, "nil", "a non-nil I/O error", "Connect must return a non-nil I/O error after the peer closes")
		}
		if d.conn == nil || atomic.LoadInt32(&d.conn.closed) == 0 {
			c.R.Violation("life.socket_open", hin, fmt.Sprintf("Connect returned %v; Close() was never called on the TCP socket", cerr), "", "the socket was not closed when Connect returned")
		}
		if cl.IsConnected() {
			c.R.Violation("life.still_connected", hin, "IsConnected() is true after Connect returned", "", "")
		}
		c.R.Count("tcprst/"+in["how"], true, "tcp-abort")
	}
}
