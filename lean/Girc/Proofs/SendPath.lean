import Girc.Model.SendPath
import Girc.Proofs.Pure
/- Proofs about the outgoing path (C16): FIFO order, AllowFlood, keep-alive bypass, per-piece charging,
   and the link between the queue machine and the serial trace of `Proofs.Pure.leaky_bucket`. -/
namespace Girc.Proofs.SendPath
open Girc Girc.Model Girc.Proofs.Pure

variable {α : Type}

theorem stepSend_fifo (flood : Bool) (s : SendSt α) (op : SendOp α) :
    (stepSend flood s op).1.wire ++ (stepSend flood s op).1.queue = s.wire ++ s.queue ++ handedOver [op] := by
  cases op with
  | send now e len =>
    simp only [stepSend, sendPiece, handedOver]
    split <;> simp
  | write e => simp [stepSend, writeDirect, handedOver]
  | flush now =>
    simp only [stepSend, flushOne, handedOver]
    split
    · simp
    · rename_i e rest h; simp [h]

theorem handedOver_cons (op : SendOp α) (rest : List (SendOp α)) :
    handedOver (op :: rest) = handedOver [op] ++ handedOver rest := by
  cases op <;> simp [handedOver]

/-- Nothing is lost, duplicated or reordered between the helpers and the socket: what has been written
    followed by what is still queued is exactly what was handed over, in call order. -/
theorem fifo (flood : Bool) (ops : List (SendOp α)) : ∀ s : SendSt α,
    (runSend flood s ops).1.wire ++ (runSend flood s ops).1.queue = s.wire ++ s.queue ++ handedOver ops := by
  induction ops with
  | nil => intro s; simp [runSend, handedOver]
  | cons op rest ih =>
    intro s
    simp only [runSend]
    rw [ih, stepSend_fifo, handedOver_cons op rest]
    simp [List.append_assoc]

/-- From a fresh connection the wire is a prefix of the call order. -/
theorem wire_prefix (flood : Bool) (ops : List (SendOp α)) :
    (runSend flood ({} : SendSt α) ops).1.wire <+: handedOver ops := by
  have h := fifo flood ops ({} : SendSt α)
  simp at h
  exact ⟨_, h⟩

theorem runSend_delays_length (flood : Bool) (ops : List (SendOp α)) : ∀ s : SendSt α,
    (runSend flood s ops).2.length = ops.length := by
  induction ops with
  | nil => intro s; simp [runSend]
  | cons op rest ih => intro s; simp [runSend, ih]

/-- `AllowFlood`: no delay is ever inserted and the limiter state never moves. -/
theorem allow_flood_no_delay (ops : List (SendOp α)) : ∀ s : SendSt α,
    (∀ d ∈ (runSend true s ops).2, d = 0) ∧ (runSend true s ops).1.writeDelay = s.writeDelay := by
  induction ops with
  | nil => intro s; simp [runSend]
  | cons op rest ih =>
    intro s
    simp only [runSend]
    have h1 : (stepSend true s op).2 = 0 ∧ (stepSend true s op).1.writeDelay = s.writeDelay := by
      cases op with
      | send now e len => simp [stepSend, sendPiece]
      | write e => simp [stepSend, writeDirect]
      | flush now => simp only [stepSend, flushOne]; split <;> simp
    have h2 := ih (stepSend true s op).1
    refine ⟨?_, by rw [h2.2, h1.2]⟩
    intro d hd
    rcases List.mem_cons.mp hd with h | h
    · rw [h, h1.1]
    · exact h2.1 d h

/-- Keep-alives (`write`) are never delayed and never charged, whatever the limiter state. -/
theorem keepalive_bypass (flood : Bool) (s : SendSt α) (e : α) :
    (stepSend flood s (.write e)).2 = 0 ∧
    (stepSend flood s (.write e)).1.writeDelay = s.writeDelay ∧
    (stepSend flood s (.write e)).1.lastWrite = s.lastWrite ∧
    (stepSend flood s (.write e)).1.queue = s.queue ++ [e] := by
  simp [stepSend, writeDirect]

/-- With flood protection on, every piece handed to `Send` is charged, and once the outstanding cost
    exceeds the allowance it is held for exactly its own cost (one second plus 10 ms per byte). -/
theorem piece_held (s : SendSt α) (now : Int) (e : α) (len : Nat) :
    let r := stepSend false s (.send now e len)
    (r.2 = 0 ∨ r.2 = cost len) ∧ (r.2 = cost len ↔ r.1.writeDelay > 8 * second) ∧ 0 ≤ r.1.writeDelay ∧
    r.1.queue = s.queue ++ [e] := by
  have h := delay_exact s.writeDelay (sinceOf s now) len
  simp only [stepSend, sendPiece]
  simp
  exact h

/-- A serial sender (one goroutine calling `Send` in a loop; `sendLoop` writes each event before the next
    call observes `lastWrite`): call k happens `since` after the previous write and the event is written
    `extra ≥ 0` after the sleep. -/
def serialRun (s : SendSt Unit) : List Step → SendSt Unit
  | [] => s
  | st :: rest =>
    let now := s.lastWrite + st.since
    let r := sendPiece false s now () st.chars
    serialRun (flushOne r.1 (now + r.2 + st.extra)) rest

/-- The queue machine run by a serial sender IS the trace of `leaky_bucket`: same final outstanding cost,
    and the time between the first and last write is the trace's elapsed time. -/
theorem serialRun_trace (tr : List Step) : ∀ s : SendSt Unit, s.queue = [] → s.lastDue ≤ s.lastWrite →
    (∀ st ∈ tr, 0 ≤ st.since ∧ 0 ≤ st.extra) →
    (serialRun s tr).writeDelay = (runTrace s.writeDelay tr).1 ∧
    (serialRun s tr).lastWrite = s.lastWrite + (runTrace s.writeDelay tr).2.1 ∧
    (serialRun s tr).queue = [] := by
  induction tr with
  | nil => intro s h _ _; simp [serialRun, runTrace, h]
  | cons st rest ih =>
    intro s hq hdue hpos
    rw [runTrace_cons]
    have hst := hpos st (List.mem_cons_self)
    have hsince : sinceOf s (s.lastWrite + st.since) = st.since := by
      unfold sinceOf SendSt.ref
      split <;> split <;> omega
    have hstep : flushOne (sendPiece false s (s.lastWrite + st.since) () st.chars).1
          (s.lastWrite + st.since + (sendPiece false s (s.lastWrite + st.since) () st.chars).2 + st.extra) =
        { writeDelay := (rate s.writeDelay st.since st.chars).1,
          lastWrite := s.lastWrite + st.since + (rate s.writeDelay st.since st.chars).2 + st.extra,
          lastDue := s.lastWrite + st.since + (rate s.writeDelay st.since st.chars).2,
          queue := [], wire := s.wire ++ [()] } := by
      simp [sendPiece, flushOne, hq, hsince]
    simp only [serialRun]
    rw [hstep]
    have := ih { writeDelay := (rate s.writeDelay st.since st.chars).1,
                 lastWrite := s.lastWrite + st.since + (rate s.writeDelay st.since st.chars).2 + st.extra,
                 lastDue := s.lastWrite + st.since + (rate s.writeDelay st.since st.chars).2,
                 queue := [], wire := s.wire ++ [()] } rfl (by simp only; omega)
                 (fun x hx => hpos x (List.mem_cons_of_mem _ hx))
    simp only at this
    refine ⟨this.1, ?_, this.2.2⟩
    rw [this.2.1]; omega

/-- Hence the leaky-bucket bound holds for the queue machine: the total cost of what a serial sender got
    onto the wire is at most the 8-second allowance plus the wall-clock time it took. -/
theorem serial_leaky_bucket (s : SendSt Unit) (tr : List Step) (hq : s.queue = []) (hdue : s.lastDue ≤ s.lastWrite)
    (hwd : 0 ≤ s.writeDelay) (h : ∀ st ∈ tr, 0 ≤ st.since ∧ 0 ≤ st.extra) :
    (runTrace s.writeDelay tr).2.2 ≤ 8 * second + ((serialRun s tr).lastWrite - s.lastWrite) := by
  have h1 := leaky_bucket s.writeDelay tr hwd h
  have h2 := (serialRun_trace tr s hq hdue h).2.1
  omega

/-! ### the bound without any assumption on `sendLoop` keeping up -/

def capped (wd : Int) : Int := if wd < 8 * second then wd else 8 * second

/-- One rated call: its cost is covered by the growth of the capped outstanding cost, the credited time and the hold. -/
theorem rate_step (wd since : Int) (n : Nat) (_hwd : 0 ≤ wd) (hs : 0 ≤ since) :
    cost n ≤ capped (rate wd since n).1 - capped wd + since + (rate wd since n).2 ∧ 0 ≤ (rate wd since n).1 := by
  have hsec : second = 1000000000 := rfl
  have hc : 0 ≤ cost n := by have := cost_exact n; omega
  unfold rate capped
  simp only
  split <;> split <;> split <;> (try split) <;> (refine ⟨?_, ?_⟩) <;> omega

theorem step_ref_mono {α : Type} (s : SendSt α) (op : SendOp α) (h : Disciplined s [op]) :
    s.ref ≤ (stepSend false s op).1.ref := by
  cases op with
  | send now e len =>
    have h1 : s.ref ≤ now := h.1
    have hd : 0 ≤ (rate s.writeDelay (sinceOf s now) len).2 := by
      have := (delay_exact s.writeDelay (sinceOf s now) len).1
      have hsec : second = 1000000000 := rfl
      have hc : 0 ≤ cost len := by have := cost_exact len; omega
      omega
    simp only [stepSend, sendPiece, SendSt.ref] at *
    simp
    split <;> split at h1 <;> omega
  | write e => simp [stepSend, writeDirect, SendSt.ref]
  | flush now =>
    have h1 : s.lastWrite ≤ now := h.1
    simp only [stepSend, flushOne]
    cases hq : s.queue with
    | nil => simp
    | cons e rest =>
      simp only [SendSt.ref]
      split <;> split <;> omega

/-- For ANY history — `sendLoop` arbitrarily late, keep-alives in between — that respects the clock discipline: the total cost of everything passed through `Send` is at most the 8-second allowance plus the wall-clock
    time between the reference point at the start and the moment the last rated event is due. -/
theorem limiter_bound {α : Type} (ops : List (SendOp α)) : ∀ s : SendSt α, 0 ≤ s.writeDelay → Disciplined s ops →
    sentCost ops + capped s.writeDelay ≤
      capped (runSend false s ops).1.writeDelay + ((runSend false s ops).1.ref - s.ref) ∧
    0 ≤ (runSend false s ops).1.writeDelay := by
  induction ops with
  | nil => intro s h _; simp [runSend, sentCost, h]
  | cons op rest ih =>
    intro s hwd hd
    simp only [runSend]
    cases op with
    | send now e len =>
      have h1 : s.ref ≤ now := hd.1
      have hrest : Disciplined (sendPiece false s now e len).1 rest := hd.2
      have hsince : sinceOf s now = now - s.ref := by unfold sinceOf; split <;> omega
      have hr := rate_step s.writeDelay (sinceOf s now) len hwd (by rw [hsince]; omega)
      have hs' : (stepSend false s (.send now e len)).1 = (sendPiece false s now e len).1 := rfl
      have hwd' : (sendPiece false s now e len).1.writeDelay = (rate s.writeDelay (sinceOf s now) len).1 := by
        simp [sendPiece]
      have href' : now + (rate s.writeDelay (sinceOf s now) len).2 ≤ (sendPiece false s now e len).1.ref := by
        simp only [sendPiece, SendSt.ref]; simp; split <;> omega
      have := ih (sendPiece false s now e len).1 (by rw [hwd']; exact hr.2) hrest
      rw [hs']
      simp only [sentCost]
      rw [hwd'] at this
      refine ⟨?_, this.2⟩
      have h3 := this.1
      have h4 := hr.1
      omega
    | write e =>
      have := ih (writeDirect s e) (by simpa [writeDirect] using hwd) hd
      simp only [stepSend, sentCost]
      have hw : (writeDirect s e).writeDelay = s.writeDelay := rfl
      have hrf : (writeDirect s e).ref = s.ref := rfl
      rw [hw, hrf] at this
      exact this
    | flush now =>
      have h1 : s.lastWrite ≤ now := hd.1
      have hmono := step_ref_mono s (.flush now) ⟨h1, trivial⟩
      have hwdf : (flushOne s now).writeDelay = s.writeDelay := by
        simp only [flushOne]; split <;> rfl
      have := ih (flushOne s now) (by rw [hwdf]; exact hwd) hd.2
      simp only [stepSend, sentCost] at *
      rw [hwdf] at this
      refine ⟨?_, this.2⟩
      omega

/-- The statement people read: cost passed through `Send` ≤ 8 s + elapsed. -/
theorem limiter_bound' {α : Type} (ops : List (SendOp α)) (s : SendSt α) (hwd : 0 ≤ s.writeDelay) (hd : Disciplined s ops) :
    sentCost ops ≤ 8 * second + ((runSend false s ops).1.ref - s.ref) := by
  have h := (limiter_bound ops s hwd hd).1
  have hsec : second = 1000000000 := rfl
  have h1 : capped (runSend false s ops).1.writeDelay ≤ 8 * second := by unfold capped; split <;> omega
  have h2 : 0 ≤ capped s.writeDelay := by unfold capped; split <;> omega
  omega

end Girc.Proofs.SendPath
