package main

import (
	"encoding/json"
	"fmt"
	"os"
	"sort"
)

// Issue is one correspondence mismatch or one property violation on the implementation.
type Issue struct {
	Kind   string            `json:"kind"` // "mismatch" | "violation"
	Name   string            `json:"name"` // which op / which clause of the property
	Input  map[string]string `json:"input"`
	Impl   string            `json:"impl"`
	Model  string            `json:"model,omitempty"`
	Spec   string            `json:"spec,omitempty"`
	Detail string            `json:"detail,omitempty"`
	Known  string            `json:"known,omitempty"`  // id in known_findings.json this matches
	Runner string            `json:"runner,omitempty"` // the runner that re-executes Input (replay)
}

type Result struct {
	Property    string         `json:"property"`
	Tier        string         `json:"tier"`
	Seed        uint64         `json:"seed"`
	Evaluations int            `json:"evaluations"`
	Distinct    int            `json:"distinct_nontrivial"`
	Rule        string         `json:"rule"`
	Exhaustive  bool           `json:"exhaustive"`
	Samples     []interface{}  `json:"samples"`
	Dist        map[string]int `json:"distribution"`
	Traces      int            `json:"traces_validated_against_impl"`
	Mismatches  []Issue        `json:"mismatches"`
	Violations  []Issue        `json:"violations"`
	KnownHits   []string       `json:"known_hits"`
	Notes       []string       `json:"notes"`
	SeenKeys    []string       `json:"seen_keys,omitempty"` // only in the result of an isolated child run

	seen map[string]struct{}
	cur  string // the runner executing now
}

func NewResult(prop, tier string, seed uint64) *Result {
	return &Result{Property: prop, Tier: tier, Seed: seed, Dist: map[string]int{}, seen: map[string]struct{}{},
		Mismatches: []Issue{}, Violations: []Issue{}, KnownHits: []string{}, Notes: []string{}, Samples: []interface{}{}}
}

// Count records one evaluated case. key identifies the case for distinctness; nontrivial per the rule.
func (r *Result) Count(key string, nontrivial bool, classes ...string) {
	r.Evaluations++
	for _, c := range classes {
		r.Dist[c]++
	}
	if !nontrivial {
		return
	}
	if _, ok := r.seen[key]; !ok {
		r.seen[key] = struct{}{}
		r.Distinct++
	}
}

func (r *Result) Sample(s interface{}) {
	if len(r.Samples) < 12 {
		r.Samples = append(r.Samples, s)
	}
}

const maxIssues = 25

func (r *Result) Mismatch(name string, input map[string]string, impl, model string) {
	if len(r.Mismatches) < maxIssues {
		r.Mismatches = append(r.Mismatches, Issue{Kind: "mismatch", Name: name, Input: input, Impl: impl, Model: model, Runner: r.cur})
	}
	r.Dist["MISMATCH:"+name]++
}

func (r *Result) Violation(name string, input map[string]string, impl, spec, detail string) {
	if len(r.Violations) < maxIssues {
		r.Violations = append(r.Violations, Issue{Kind: "violation", Name: name, Input: input, Impl: impl, Spec: spec, Detail: detail, Runner: r.cur})
	}
	r.Dist["VIOLATION:"+name]++
}

func (r *Result) Note(f string, a ...interface{}) { r.Notes = append(r.Notes, fmt.Sprintf(f, a...)) }

func (r *Result) Write(path string) {
	// stable key order for the distribution is given by encoding/json (sorted map keys)
	sort.Strings(r.KnownHits)
	b, _ := json.MarshalIndent(r, "", " ")
	if path == "" || path == "-" {
		os.Stdout.Write(b)
		return
	}
	if err := os.WriteFile(path, b, 0o644); err != nil {
		fatal("write result: %v", err)
	}
}

// q renders a byte string readably for issue reports (Go-quoted).
func q(s string) string { return fmt.Sprintf("%q", s) }
