import Girc.Model.Glob
import Girc.Spec.GlobSpec
import Girc.Proofs.Glob
/-
  C19 — Glob implements exact '*' wildcard matching.
  Property theorems only; helper lemmas live in Proofs/Glob.lean.
-/
namespace Girc.Props.C19
open Girc Girc.Model

/-- Main theorem: for all inputs and patterns (arbitrary bytes, any number of stars,
    consecutive stars, empty pieces) the model of `Glob` decides the specification. -/
theorem glob_correct (input pat : Bytes) : glob input pat = true ↔ Spec.Matches input pat :=
  Proofs.Glob.glob_correct input pat

/-- The executable reference matcher used by the driver decides the same relation. -/
theorem wmatch_correct (input pat : Bytes) : Spec.wmatch pat input = true ↔ Spec.Matches input pat :=
  Proofs.Glob.wmatch_correct input pat

/-- Hence model and reference matcher agree everywhere. -/
theorem glob_eq_wmatch (input pat : Bytes) : glob input pat = Spec.wmatch pat input := by
  have h1 := glob_correct input pat
  have h2 := wmatch_correct input pat
  cases hg : glob input pat <;> cases hw : Spec.wmatch pat input <;> simp_all

/-- Regression witnesses of the repaired defect (prefix piece must not overlap the suffix piece). -/
example : glob [0x61] [0x61, 0x2A, 0x61] = false := by decide
example : glob [0x61, 0x62] [0x61, 0x62, 0x2A, 0x62] = false := by decide
example : ¬ Spec.Matches [0x61] [0x61, 0x2A, 0x61] := by
  rw [← glob_correct]; decide
/-- Non-vacuity: a non-trivial positive instance with two stars and a repeated substring. -/
example : Spec.Matches [0x61, 0x62, 0x61, 0x62, 0x63] [0x61, 0x2A, 0x62, 0x2A, 0x63] := by
  rw [← glob_correct]; decide

end Girc.Props.C19
