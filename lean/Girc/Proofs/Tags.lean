import Girc.Model.Tags
import Girc.Spec.EventSpec
import Girc.Spec.Grammar
namespace Girc.Proofs.Tags
open Girc Girc.Model Girc.Spec

theorem tagDecode_tagEncode (v : Bytes) : tagDecode (tagEncode v) = v := by
  sorry

theorem tagsSet_get (t t' : Tags) (k v : Bytes) (h : tagsSet t k v = some t') :
    tagsGet (some t') k = some v := by
  sorry

theorem validTagValue_wireSafe (v : Bytes) (h : validTagValue v = true) : wireSafeValue v = true := by
  sorry

theorem wfTags_nil : wfTags [] = true := by
  sorry

/-- Everything the tag API builds is well-formed. -/
theorem tagsSet_wf (t t' : Tags) (k v : Bytes) (hw : wfTags t = true) (h : tagsSet t k v = some t') :
    wfTags t' = true := by
  sorry

/-- A well-formed map is never truncated by `Tags.Bytes`. -/
theorem tagsBytes_full (t : Tags) (hw : wfTags t = true) (hne : t ≠ []) :
    tagsBytes (some t) = tagsBytesFull t := by
  sorry

/-- Parsing the serialised tag section gives back every stored value. -/
theorem parseTags_full (t : Tags) (hw : wfTags t = true) (hne : t ≠ []) (k : Bytes) :
    AMap.get? (parseTags ((tagsBytesFull t).drop 1)) k = AMap.get? t k := by
  sorry

theorem tagsBytesFull_noSpace (t : Tags) (hw : wfTags t = true) : SP ∉ tagsBytesFull t := by
  sorry

theorem tagsBytesFull_length (t : Tags) (hw : wfTags t = true) (hne : t ≠ []) : 2 ≤ (tagsBytesFull t).length := by
  sorry

/-- On values whose backslashes all start a defined escape, girc's decoder is the IRCv3 unescaping. -/
theorem tagDecode_unescape (v : Bytes) (h : escapesDefined v = true) : tagDecode v = unescape v := by
  sorry

/-- Last duplicate wins. -/
theorem meaningTags_get (ts : List (Bytes × Option Bytes)) (k : Bytes) :
    AMap.get? (meaningTags ts) k = (ts.reverse.find? (fun t => t.1 == k)).map (fun t => t.2.getD []) := by
  sorry

end Girc.Proofs.Tags
