import Girc.Proofs.TransBase
import Girc.Model.Modes
/-
  Translator equivalence, modes.go: IsValidChannelMode, isValidUserPrefix, parsePrefixes.
-/
set_option linter.unusedSimpArgs false
namespace Girc.Proofs.Trans
open Girc Girc.Model Girc.Go Girc.Gen

/-! ### IsValidChannelMode -/

theorem chanMode_cond : ∀ c : UInt8,
    ((c != 0x2C) && (decide (c < 0x41) || decide (c > 0x5A)) && (decide (c < 0x61) || decide (c > 0x7A))) = !chanModeByte c := by
  decide +kernel

theorem IsValidChannelMode_loop1_eq (s : Bytes) : ∀ (fuel n : Nat), n ≤ s.length → s.length - n < fuel →
    Fn.IsValidChannelMode_loop1 s fuel (n : Int) = .ok (if (s.drop n).all chanModeByte then .done () else .ret false)
  | 0, _, _, h => by omega
  | fuel + 1, n, hn, hf => by
    unfold Fn.IsValidChannelMode_loop1
    by_cases hlt : n < s.length
    · obtain ⟨c, hd, hc, _⟩ := atI_step s n hlt
      have e1 : ((n : Int) + 1) = ((n + 1 : Nat) : Int) := by omega
      have hl : decide ((n : Int) < len s) = true := by dec_tac
      simp only [hl, hc, bind, Except.bind, pure, Except.pure, andE_ok_ok, orE_ok_ok, e1, chanMode_cond]
      rw [hd, IsValidChannelMode_loop1_eq s fuel (n+1) (by omega) (by omega)]
      cases hnr : chanModeByte c <;> simp [hnr]
    · have hl : decide ((n : Int) < len s) = false := by dec_tac
      have : s.drop n = [] := by simp; omega
      simp [hl, this, pure, Except.pure]

theorem IsValidChannelMode_eq (raw : Bytes) : Fn.IsValidChannelMode raw = .ok (isValidChannelMode raw) := by
  unfold Fn.IsValidChannelMode isValidChannelMode
  cases raw with
  | nil => simp [len, pure, Except.pure]
  | cons c r =>
    have hl := IsValidChannelMode_loop1_eq (c :: r) (fuelTo 0 (len (c :: r))) 0 (by omega) (by fuel_tac)
    simp only [Int.natCast_zero, List.drop_zero] at hl
    have e1 : decide (len (c :: r) < 1) = false := by dec_tac
    simp only [e1, hl, bind, Except.bind, pure, Except.pure]
    cases h2 : (c :: r).all chanModeByte <;> simp [h2]

/-! ### isValidUserPrefix -/

theorem upc_close (l : Bytes) (p : Bool) (k r : Nat) :
    userPrefixCount (0x29 :: l) p k r = userPrefixCount l true k r := by simp [userPrefixCount]
theorem upc_key (c : Byte) (l : Bytes) (k r : Nat) (h : c ≠ 0x29) :
    userPrefixCount (c :: l) false k r = userPrefixCount l false (k + 1) r := by simp [userPrefixCount, h]
theorem upc_rep (c : Byte) (l : Bytes) (k r : Nat) (h : c ≠ 0x29) :
    userPrefixCount (c :: l) true k r = userPrefixCount l true k (r + 1) := by simp [userPrefixCount, h]

theorem isValidUserPrefix_loop1_eq (raw : Bytes) : ∀ (fuel n k r : Nat) (passed : Bool),
    n ≤ raw.length → raw.length - n < fuel →
    ∃ p', Fn.isValidUserPrefix_loop1 raw fuel (k : Int) (r : Int) passed (n : Int) =
      .ok (.done (((userPrefixCount (raw.drop n) passed k r).1 : Int), ((userPrefixCount (raw.drop n) passed k r).2 : Int), p'))
  | 0, _, _, _, _, _, h => by omega
  | fuel + 1, n, k, r, passed, hn, hf => by
    unfold Fn.isValidUserPrefix_loop1
    by_cases hlt : n < raw.length
    · obtain ⟨c, hd, hc, _⟩ := atI_step raw n hlt
      have e1 : ((n : Int) + 1) = ((n + 1 : Nat) : Int) := by omega
      have ek : ((k : Int) + 1) = ((k + 1 : Nat) : Int) := by omega
      have er : ((r : Int) + 1) = ((r + 1 : Nat) : Int) := by omega
      have hl : decide ((n : Int) < len raw) = true := by dec_tac
      simp only [hl, hc, bind, Except.bind, pure, Except.pure, e1, ek, er]
      rw [hd]
      by_cases h29 : c = 0x29
      · subst h29
        obtain ⟨p', ih⟩ := isValidUserPrefix_loop1_eq raw fuel (n+1) k r true (by omega) (by omega)
        refine ⟨p', ?_⟩
        rw [upc_close]
        simpa using ih
      · have hb : (c == 0x29) = false := by simp [h29]
        cases passed
        · obtain ⟨p', ih⟩ := isValidUserPrefix_loop1_eq raw fuel (n+1) (k+1) r false (by omega) (by omega)
          refine ⟨p', ?_⟩
          rw [upc_key c _ k r h29]
          simpa [hb] using ih
        · obtain ⟨p', ih⟩ := isValidUserPrefix_loop1_eq raw fuel (n+1) k (r+1) true (by omega) (by omega)
          refine ⟨p', ?_⟩
          rw [upc_rep c _ k r h29]
          simpa [hb] using ih
    · have hl : decide ((n : Int) < len raw) = false := by dec_tac
      have : raw.drop n = [] := by simp; omega
      exact ⟨passed, by simp [hl, this, pure, Except.pure, userPrefixCount]⟩

theorem isValidUserPrefix_eq (raw : Bytes) : Fn.isValidUserPrefix raw = .ok (isValidUserPrefix raw) := by
  unfold Fn.isValidUserPrefix isValidUserPrefix
  cases raw with
  | nil => simp [len, pure, Except.pure]
  | cons c rest =>
    have h1 : decide (len (c :: rest) < 1) = false := by dec_tac
    obtain ⟨p', hl⟩ := isValidUserPrefix_loop1_eq (c :: rest) (fuelTo 1 (len (c :: rest))) 1 0 0 false (by simp) (by fuel_tac)
    simp only [Int.natCast_one, Int.natCast_zero, List.drop_succ_cons, List.drop_zero] at hl
    simp only [h1, atI_cons_zero, hl, bind, Except.bind, pure, Except.pure]
    by_cases hc : c = 0x28
    · subst hc
      simp [int_beq_nat]
    · simp [hc]

/-! ### parsePrefixes -/

theorem findSub_single (b : Byte) : ∀ s : Bytes, findSub [b] s = indexOf b s
  | [] => by simp [findSub, indexOf]
  | x :: xs => by
    unfold findSub indexOf
    rw [findSub_single b xs]
    by_cases h : x = b
    · subst h; simp [List.isPrefixOf]
    · have : ¬ b = x := fun e => h e.symm
      simp [List.isPrefixOf, h, this]

theorem indexI_single (s : Bytes) (b : Byte) : indexI s [b] = indexByteI s b := by
  unfold indexI indexByteI
  rw [findSub_single]

theorem parsePrefixes_eq (raw : Bytes) : Fn.parsePrefixes raw = .ok (parsePrefixes raw) := by
  unfold Fn.parsePrefixes parsePrefixes
  simp only [isValidUserPrefix_eq, indexI_single, bind, Except.bind, pure, Except.pure]
  cases hv : isValidUserPrefix raw
  · simp
  · simp only [Bool.not_true, Bool.false_eq_true, if_false]
    unfold indexByteI
    cases hi : indexOf 0x29 raw with
    | none => simp
    | some i =>
      have hlt := ParseTotal.indexOf_lt hi
      cases i with
      | zero => simp
      | succ j =>
        have h1 : decide (((j + 1 : Nat) : Int) < 1) = false := by dec_tac
        have e2 : ((j + 1 : Nat) : Int) + 1 = ((j + 2 : Nat) : Int) := by omega
        have s1 : sliceI raw 1 ((j + 1 : Nat) : Int) = .ok ((raw.drop 1).take j) := by
          have := ParseTotal.sliceI_nat raw 1 (j + 1) (by omega) (by omega)
          simpa using this
        simp only [h1, s1, e2, sliceI_from raw (j + 2) (by omega), Bool.false_eq_true, if_false]
        simp [List.drop_take]

end Girc.Proofs.Trans
