import Girc.Proofs.TransModes
import Girc.Proofs.TransSlices
import Girc.Proofs.InvAMap
import Girc.Model.Cap
/-
  Translator equivalence, cap.go `parseCap`: a `map[string]map[string]string` built by nested map assignments
  (`out[a][b] = v`), a `range` over `strings.Split(…)`.
-/
set_option linter.unusedSimpArgs false
namespace Girc.Proofs.Trans
open Girc Girc.Model Girc.Go Girc.Gen

theorem amap_set_set_self {β : Type} (m : AMap β) (k : Bytes) (v v' : β) :
    AMap.set (AMap.set m k v) k v' = AMap.set m k v' := by
  have key : ∀ (w : β) (p : Bytes × β), ((if (p.1 == k) = true then (k, w) else p).1 == k) = (p.1 == k) := by
    intro w p
    cases hp : (p.1 == k) with
    | true => simp
    | false => simp [hp]
  have comp : ∀ p : Bytes × β, (if ((if (p.1 == k) = true then (k, v) else p).1 == k) = true then (k, v')
      else (if (p.1 == k) = true then (k, v) else p)) = (if (p.1 == k) = true then (k, v') else p) := by
    intro p
    cases hp : (p.1 == k) with
    | true => simp
    | false => simp [hp]
  unfold AMap.set
  cases h : m.any (fun p => p.1 == k) with
  | true =>
    have h2 : (m.map (fun p => if (p.1 == k) = true then (k, v) else p)).any (fun p => p.1 == k) = true := by
      rw [List.any_map]
      have : ((fun p : Bytes × β => p.1 == k) ∘ fun p => if (p.1 == k) = true then (k, v) else p) = fun p => p.1 == k := by
        funext p; exact key v p
      rw [this]; exact h
    simp only [if_true, h2, List.map_map]
    apply List.map_congr_left
    intro p _
    exact comp p
  | false =>
    have hall : ∀ p ∈ m, (p.1 == k) = false := by
      intro p hp
      have := List.any_eq_false.mp h p hp
      cases hb : (p.1 == k) with
      | true => exact absurd hb this
      | false => rfl
    have hm : m.map (fun p => if (p.1 == k) = true then (k, v') else p) = m := by
      conv => rhs; rw [← List.map_id m]
      apply List.map_congr_left
      intro p hp
      simp [hall p hp]
    have h3 : (m ++ [(k, v)]).any (fun p => p.1 == k) = true := by simp
    simp only [Bool.false_eq_true, if_false, h3, if_true, List.map_append, hm, List.map_cons, List.map_nil,
      beq_self_eq_true]

theorem parseCap_loop2_eq (parts : List Bytes) (val i : Int) (part key : Bytes) (hp : atL parts i = .ok part)
    (hk : sliceI part 0 val = .ok key) (m : AMap CapVal) :
    ∀ (fuel : Nat) (opts : List Bytes) (inner : AMap Bytes), opts.length < fuel →
    Fn.parseCap_loop2 parts val i fuel opts (some (AMap.set m key (some inner))) =
      .ok (.done (some (AMap.set m key (some (opts.foldl parseCapOption inner)))))
  | 0, _, _, h => by omega
  | fuel + 1, [], inner, _ => by
    unfold Fn.parseCap_loop2
    simp [pure, Except.pure]
  | fuel + 1, opt :: rest, inner, hf => by
    unfold Fn.parseCap_loop2
    have hget : mapGet2 (some (AMap.set m key (some inner))) key = some inner := by
      simp [mapGet2, InvBase.get?_set_self]
    have ih := fun inner' => parseCap_loop2_eq parts val i part key hp hk m fuel rest inner'
      (by simp at hf; omega)
    simp only [indexI_single, hp, hk, hget, bind, Except.bind, pure, Except.pure, List.foldl_cons]
    unfold indexByteI
    cases hi : indexOf 0x3D opt with
    | none =>
      have hv : parseCapOption inner opt = AMap.set inner opt [] := by simp [parseCapOption, hi]
      simp only [show decide ((-1 : Int) < 0) = true from rfl, if_true, mapSet, mapSet2, amap_set_set_self, ih, hv]
    | some n =>
      have hn := ParseTotal.indexOf_lt hi
      have hv : parseCapOption inner opt = AMap.set inner (opt.take n) (opt.drop (n + 1)) := by simp [parseCapOption, hi]
      have hc : decide ((n : Int) < 0) = false := by dec_tac
      have e1 : ((n : Int) + 1) = ((n + 1 : Nat) : Int) := by omega
      simp only [hc, Bool.false_eq_true, if_false, sliceI_to opt n (by omega), e1, sliceI_from opt (n + 1) (by omega),
        mapSet, mapSet2, amap_set_set_self, ih, hv]

theorem parseCap_loop1_eq (parts : List Bytes) : ∀ (fuel n : Nat) (m : AMap CapVal) (val : Int),
    n ≤ parts.length → parts.length - n < fuel →
    ∃ val', Fn.parseCap_loop1 parts fuel (some m) val (n : Int) =
      .ok (.done (some ((parts.drop n).foldl parseCapItem m), val'))
  | 0, _, _, _, _, h => by omega
  | fuel + 1, n, m, val, hn, hf => by
    unfold Fn.parseCap_loop1
    by_cases hlt : n < parts.length
    · obtain ⟨part, hd, hat, _⟩ := atL_step parts n hlt
      have hc : decide ((n : Int) < len parts) = true := by dec_tac
      have e1 : ((n : Int) + 1) = ((n + 1 : Nat) : Int) := by omega
      simp only [hc, hat, bind, Except.bind, pure, Except.pure, Bool.not_true, Bool.false_eq_true, if_false, orE_ok_ok]
      rw [hd, List.foldl_cons]
      have hptv : Fn.prefixTagValue = 0x3D := rfl
      rw [hptv]
      unfold indexByteI
      cases hi : indexOf 0x3D part with
      | none =>
        have hv : parseCapItem m part = AMap.set m part none := by simp [parseCapItem, hi]
        obtain ⟨v', ih⟩ := parseCap_loop1_eq parts fuel (n + 1) (AMap.set m part none) (-1) (by omega) (by omega)
        refine ⟨v', ?_⟩
        simp only [show decide ((-1 : Int) < 1) = true from rfl, Bool.true_or, if_true, mapSet2, e1, ih, hv]
      | some k =>
        cases k with
        | zero =>
          have hv : parseCapItem m part = AMap.set m part none := by simp [parseCapItem, hi]
          obtain ⟨v', ih⟩ := parseCap_loop1_eq parts fuel (n + 1) (AMap.set m part none) ((0 : Nat) : Int) (by omega) (by omega)
          refine ⟨v', ?_⟩
          simp only [show decide (((0 : Nat) : Int) < 1) = true from rfl, Bool.true_or, if_true, mapSet2, e1, ih, hv]
        | succ v =>
          have hk := ParseTotal.indexOf_lt hi
          have hv : parseCapItem m part = AMap.set m (part.take (v + 1))
              (some ((splitOnByte 0x2C (part.drop (v + 2))).foldl parseCapOption [])) := by simp [parseCapItem, hi]
          have c1 : decide (((v + 1 : Nat) : Int) < 1) = false := by dec_tac
          have c2 : decide (len part < ((v + 2 : Nat) : Int)) = false := by dec_tac
          have e2 : (((v + 1 : Nat) : Int) + 1) = ((v + 2 : Nat) : Int) := by omega
          have s1 : sliceI part 0 ((v + 1 : Nat) : Int) = .ok (part.take (v + 1)) := sliceI_to part (v + 1) (by omega)
          have s2 : sliceI part ((v + 2 : Nat) : Int) (len part) = .ok (part.drop (v + 2)) := sliceI_from part (v + 2) (by omega)
          have h2 := parseCap_loop2_eq parts ((v + 1 : Nat) : Int) (n : Int) part (part.take (v + 1)) hat s1 m
            ((splitOnByte 0x2C (part.drop (v + 2))).length + 1) (splitOnByte 0x2C (part.drop (v + 2))) [] (by omega)
          obtain ⟨v', ih⟩ := parseCap_loop1_eq parts fuel (n + 1) (parseCapItem m part) ((v + 1 : Nat) : Int)
            (by omega) (by omega)
          refine ⟨v', ?_⟩
          simp only [e2, c1, c2, Bool.or_self, Bool.false_eq_true, if_false, s1, s2, mapSet2, split_one, h2, e1, ih, hv]
          rw [hv] at ih
          simp only [ih]
    · have hc : decide ((n : Int) < len parts) = false := by dec_tac
      have : parts.drop n = [] := by simp; omega
      refine ⟨val, ?_⟩
      simp [hc, this, pure, Except.pure]

theorem parseCap_eq (raw : Bytes) : Fn.parseCap raw = .ok (some (parseCap raw)) := by
  unfold Fn.parseCap parseCap
  have hs : split raw [0x20] = .ok (splitOnByte SP raw) := rfl
  obtain ⟨v', hl⟩ := parseCap_loop1_eq (splitOnByte SP raw) (fuelTo 0 (len (splitOnByte SP raw))) 0 [] 0 (by omega) (by fuel_tac)
  simp only [Int.natCast_zero, List.drop_zero] at hl
  simp only [hs, hl, bind, Except.bind, pure, Except.pure]

end Girc.Proofs.Trans
