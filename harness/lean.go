package main

import (
	"bufio"
	"encoding/hex"
	"fmt"
	"io"
	"os"
	"os/exec"
	"strings"
)

// Lean wraps the compiled Lean driver (line protocol, one request -> one response).
type Lean struct {
	cmd *exec.Cmd
	in  *bufio.Writer
	out *bufio.Reader
	w   io.WriteCloser
	n   int
}

func StartLean(path string) (*Lean, error) {
	cmd := exec.Command(path)
	w, err := cmd.StdinPipe()
	if err != nil {
		return nil, err
	}
	r, err := cmd.StdoutPipe()
	if err != nil {
		return nil, err
	}
	cmd.Stderr = os.Stderr
	if err := cmd.Start(); err != nil {
		return nil, err
	}
	l := &Lean{cmd: cmd, in: bufio.NewWriterSize(w, 1<<16), out: bufio.NewReaderSize(r, 1<<16), w: w}
	if got := l.Call("ping"); got != "pong" {
		return nil, fmt.Errorf("driver handshake failed: %q", got)
	}
	return l, nil
}

func hx(s string) string {
	if s == "" {
		return "_"
	}
	return hex.EncodeToString([]byte(s))
}

func hxList(l []string) string {
	parts := make([]string, len(l))
	for i, s := range l {
		parts[i] = hx(s)
	}
	return "[" + strings.Join(parts, ",") + "]"
}

func unhx(s string) string {
	if s == "_" {
		return ""
	}
	b, err := hex.DecodeString(s)
	if err != nil {
		return "<<bad hex " + s + ">>"
	}
	return string(b)
}

func bl(b bool) string {
	if b {
		return "1"
	}
	return "0"
}

// Call sends one request. Arguments are already protocol-encoded (hx/hxList/plain ints).
func (l *Lean) Call(op string, args ...string) string {
	l.n++
	l.in.WriteString(op)
	for _, a := range args {
		l.in.WriteByte('\t')
		l.in.WriteString(a)
	}
	l.in.WriteByte('\n')
	if err := l.in.Flush(); err != nil {
		fatal("driver write: %v", err)
	}
	line, err := l.out.ReadString('\n')
	if err != nil {
		fatal("driver read (op %s): %v", op, err)
	}
	return strings.TrimRight(line, "\r\n")
}

func (l *Lean) Close() {
	l.w.Close()
	l.cmd.Wait()
}

func fatal(f string, a ...interface{}) {
	fmt.Fprintf(os.Stderr, "HARNESS-ERROR: "+f+"\n", a...)
	os.Exit(3)
}
