package main

import (
	"github.com/lrstanley/girc"
)

func init() {
	props["C15"] = runC15
	runners["validnick"] = func(c *Ctx, in map[string]string) {
		c.compare("validnick", in, c.twice("validnick", in, func() string { return bl(girc.IsValidNick(in["s"])) }), "validnick", "spec.validnick", hx(in["s"]))
	}
	runners["validuser"] = func(c *Ctx, in map[string]string) {
		c.compare("validuser", in, c.twice("validuser", in, func() string { return bl(girc.IsValidUser(in["s"])) }), "validuser", "spec.validuser", hx(in["s"]))
	}
	runners["validchan"] = func(c *Ctx, in map[string]string) {
		c.compare("validchan", in, c.twice("validchan", in, func() string { return bl(girc.IsValidChannel(in["s"])) }), "validchan", "spec.validchan", hx(in["s"]))
	}
	runners["fold"] = func(c *Ctx, in map[string]string) {
		s := in["s"]
		out := unhx(c.twice("fold", in, func() string { return hx(girc.ToRFC1459(s)) }))
		c.compare("fold", in, hx(out), "fold", "spec.fold", hx(s))
		// the laws themselves, on the implementation
		if len(out) != len(s) {
			c.R.Violation("fold.length", hexIn(in), hx(out), "", "fold is not length preserving")
		}
		if girc.ToRFC1459(out) != out {
			c.R.Violation("fold.idempotent", hexIn(in), hx(out), "", "fold is not idempotent")
		}
	}
}

const nameAlphabet = "aAzZ09[]{}|\\^~_-`?.!#&*+,: \x00\x07\r\n@\x7f\x80\xe9\xff/'"

func runC15(c *Ctx) {
	r := c.R
	r.Rule = "validators and fold: EXHAUSTIVE over (byte value x position class) — every single byte, every byte after a valid first byte, " +
		"after '~', as channel id byte 1..5 and as channel body byte — plus boundary lengths (1,2,49,50,51; '!' with 4/5/6 id bytes) and random strings " +
		"over a name-biased alphabet; name-keyed queries (Source.Equals, Event.Equals, LookupUser/LookupChannel/IsInChannel/UserIn/InChannel/Perms.Lookup in a real session) under case-variant pairs incl. [\\]^ vs {|}~ and non-ASCII; " +
		"a case is non-trivial when the string is non-empty; distinct = distinct (runner,string)"
	one := func(runner, s string, cls string) {
		c.run(runner, map[string]string{"s": s})
		r.Count(runner+"\x00"+s, s != "", runner, cls)
	}
	all := []string{"validnick", "validuser", "validchan", "fold"}
	// exhaustive byte x position class
	for b := 0; b < 256; b++ {
		ch := string([]byte{byte(b)})
		for _, rn := range all {
			one(rn, ch, "pos:first")
			one(rn, "a"+ch, "pos:rest")
			one(rn, "a"+ch+"b", "pos:middle")
			one(rn, "~"+ch, "pos:after-tilde")
			one(rn, "~a"+ch, "pos:tilde-rest")
			one(rn, "#"+ch, "pos:chan-body")
			one(rn, "#a"+ch+"c", "pos:chan-body")
			one(rn, ch+"abcdefg", "pos:prefix")
			for k := 0; k < 5; k++ {
				id := []byte("AB1C2")
				id[k] = byte(b)
				one(rn, "!"+string(id)+"x", "pos:chan-id")
			}
			one(rn, "!AB1C2"+ch, "pos:chan-after-id")
		}
	}
	// every two-byte character (U+0080..U+07FF) and a spread of three- and four-byte ones, validly encoded, in the positions above:
	// the grammar is over BYTES, a character outside ASCII is never a name character whatever its code point's low bits are
	for cp := 0x80; cp <= 0x7FF; cp++ {
		ch := string(rune(cp))
		for _, rn := range []string{"validnick", "validuser", "validchan"} {
			one(rn, "a"+ch+"b", "pos:utf8-2")
			one(rn, "~a"+ch, "pos:utf8-2")
		}
	}
	for _, cp := range []int{0x800, 0x2041, 0x2030, 0x205F, 0x20AC, 0x3041, 0xFF41, 0xFFFD, 0x10041, 0x1F430, 0x1F600, 0x10FF5A} {
		ch := string(rune(cp))
		for _, rn := range all {
			one(rn, "a"+ch+"b", "pos:utf8-3-4")
			one(rn, "~a"+ch, "pos:utf8-3-4")
			one(rn, "#"+ch, "pos:utf8-3-4")
			one(rn, ch+"a", "pos:utf8-3-4")
		}
	}
	r.Exhaustive = true
	// boundary lengths
	for _, n := range []int{0, 1, 2, 3, 6, 7, 8, 49, 50, 51, 52, 200} {
		for _, p := range []string{"#", "&", "!", "+", "~", "*", "a", "!ABCDE", "!ABCD", "!ABCDEF"} {
			s := p
			for len(s) < n {
				s += "x"
			}
			if len(s) > n && n >= len(p) {
				s = s[:n]
			}
			for _, rn := range all {
				one(rn, s, "boundary")
			}
		}
	}
	// the same boundary lengths with multi-byte fill (the bound is in BYTES): 1-, 2-, 3- and 4-byte runes, Latin-1 bytes
	for _, fill := range []string{"é", "€", "\U0001F600", "\xe9", "xé"} {
		for _, p := range []string{"#", "&", "!ABCDE", "a", "~a"} {
			for n := 44; n <= 56; n++ {
				s := p
				for len(s)+len(fill) <= n {
					s += fill
				}
				for len(s) < n {
					s += "x"
				}
				for _, rn := range all {
					one(rn, s, "boundary-multibyte")
				}
			}
		}
	}
	for _, s := range []string{"", "~", "~~", "~a", "a~", "?", "?a", "a?", "-a", "a-", "9a", "a9", ".a", "a.", "~.a", "~9", "!", "#", "##", "# ", "#,", "#:", "#\x07"} {
		for _, rn := range all {
			one(rn, s, "edge")
		}
	}
	// random
	n := 4000 * c.Scale
	for i := 0; i < n; i++ {
		var s string
		switch c.Rng.Intn(4) {
		case 0:
			s = c.Rng.From(nameAlphabet, c.Rng.Intn(12))
		case 1:
			s = c.Rng.From("abcXYZ019[]{}|\\^-_", 1+c.Rng.Intn(20))
		case 2:
			s = c.Rng.Pick([]string{"#", "&", "!", "+", "~", "*"}) + c.Rng.From("ABZ09az,: \x07x", c.Rng.Intn(60))
		default:
			s = c.Rng.RawBytes(c.Rng.Intn(8))
		}
		rn := all[c.Rng.Intn(len(all))]
		one(rn, s, "random")
		if i < 3 {
			r.Sample(map[string]string{"runner": rn, "s": q(s)})
		}
	}
	r.Sample(map[string]string{"runner": "validchan", "s": q("!AB1C2x")})
	runC15Lookups(c)
}
