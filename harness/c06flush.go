package main

import (
	"fmt"
	"strings"
	"sync/atomic"
	"time"

	"github.com/lrstanley/girc"
)

// C06, events still queued when the connection is shut down: a foreground handler is busy, K events (echoes of the
// client's own messages among them) pile up in the receive queue, then Close() — execLoop's flush path hands them to
// the handlers. Routing, exactly-once and order must be the same as on the normal path.
func init() {
	runners["dispflush"] = func(c *Ctx, in map[string]string) {
		hin := hexIn(in)
		viol := func(name, got, detail string) { c.R.Violation("dispflush."+name, hin, got, "", detail) }
		d, err := newDispClient(true)
		if err != nil {
			c.R.Mismatch("dispflush.setup", hin, err.Error(), "")
			return
		}
		var blocked int32
		release := make(chan struct{})
		d.c.Handlers.Add(girc.PRIVMSG, func(cl *girc.Client, e girc.Event) {
			if e.Last() == "block" {
				atomic.StoreInt32(&blocked, 1)
				<-release
			}
		})
		wild := d.register("add", girc.ALL_EVENTS, "normal")
		priv := d.register("add", "PRIVMSG", "normal")
		notc := d.register("addbg", "notice", "normal")
		d.send(":x!u@h PRIVMSG me :block")
		for i := 0; i < 2000 && atomic.LoadInt32(&blocked) == 0; i++ {
			time.Sleep(time.Millisecond)
		}
		kinds := strings.Split(in["events"], ",") // e.g. P0 (PRIVMSG), P1 (echo PRIVMSG), N0, N1
		for n, k := range kinds {
			src := ":x!u@h "
			if k[1] == '1' {
				src = ":" + in["self"] + "!u@h "
			}
			cmd := "PRIVMSG"
			if k[0] == 'N' {
				cmd = "NOTICE"
			}
			if !d.send(fmt.Sprintf("%s%s #c :q n=%d", src, cmd, n)) {
				c.R.Mismatch("dispflush.peer_write", hin, "peer could not write", "")
			}
		}
		time.Sleep(5 * time.Millisecond) // readLoop queues the last line
		go func() { time.Sleep(10 * time.Millisecond); close(release) }()
		d.c.Close() // cancels while the handler is still busy: everything queued goes through the flush path
		select {
		case <-d.ret:
		case <-time.After(6 * time.Second):
			viol("no_return", "timeout", "Connect did not return after Close() with events queued")
		}
		d.srv.Close()
		d.settle()
		d.mu.Lock()
		invs := append([]invRec{}, d.invs...)
		d.mu.Unlock()
		per := map[int]map[int]int{} // handler -> seq -> count
		var wildOrder []int
		for _, r := range invs {
			if per[r.H] == nil {
				per[r.H] = map[int]int{}
			}
			per[r.H][r.Seq]++
			if r.H == wild.idx {
				wildOrder = append(wildOrder, r.Seq)
			}
		}
		for n, k := range kinds {
			echo := k[1] == '1'
			if per[wild.idx][n] != 1 {
				viol("wildcard_once", fmt.Sprintf("event %d (%s): %d invocations", n, k, per[wild.idx][n]), "every event received (queued ones included) reaches each wildcard handler exactly once")
			}
			wantP, wantN := 0, 0
			if !echo && k[0] == 'P' {
				wantP = 1
			}
			if !echo && k[0] == 'N' {
				wantN = 1
			}
			if per[priv.idx][n] != wantP {
				viol("routing", fmt.Sprintf("event %d (%s): PRIVMSG handler invoked %d times, want %d", n, k, per[priv.idx][n], wantP), "an echo of the client's own message goes to wildcard handlers only; other events to the handlers of their command exactly once")
			}
			if per[notc.idx][n] != wantN {
				viol("routing", fmt.Sprintf("event %d (%s): NOTICE handler invoked %d times, want %d", n, k, per[notc.idx][n], wantN), "an echo of the client's own message goes to wildcard handlers only; other events to the handlers of their command exactly once")
			}
		}
		for i := 1; i < len(wildOrder); i++ {
			if wildOrder[i] < wildOrder[i-1] {
				viol("order", fmt.Sprint(wildOrder), "handlers observe the server's order")
				break
			}
		}
		c.R.Count("dispflush/"+in["events"]+"/"+in["self"], true, "flush-on-close")
	}
}
