import Girc.Spec.SplitSpec
/-
  C11: `Event.split` — header preservation, CTCP wrapping, and the length bound given the bound on
  the text pieces.
-/
namespace Girc.Proofs.SplitEvent
open Girc Girc.Model Girc.Spec

theorem getLastD_concat (l : List Bytes) (x d : Bytes) : (l ++ [x]).getLastD d = x := by
  rw [List.getLastD_eq_getLast?]; simp

theorem evsplit_header (isURL : Bytes → Bool) (e : Event) (maxLength : Int) :
    ∀ p ∈ eventSplit isURL e maxLength, p.command = e.command ∧ p.source = e.source ∧ p.tags = e.tags ∧
      p.params.dropLast = e.params.dropLast ∧ p.params.length = e.params.length := by
  intro p hp
  unfold eventSplit at hp
  split at hp
  · simp only [List.mem_singleton] at hp; subst hp; simp
  · rename_i h0
    have hlen : 1 ≤ e.params.length := by
      simp only [Bool.or_eq_true, decide_eq_true_eq, not_or] at h0
      omega
    simp only at hp
    split at hp
    · simp only [List.mem_singleton] at hp; subst hp; simp
    · split at hp
      · split at hp
        · simp only [List.mem_singleton] at hp; subst hp; simp
        · split at hp
          · simp only [List.mem_singleton] at hp; subst hp; simp
          · obtain ⟨piece, _, rfl⟩ := List.mem_map.mp hp
            simp; omega
      · split at hp
        · simp only [List.mem_singleton] at hp; subst hp; simp
        · obtain ⟨piece, _, rfl⟩ := List.mem_map.mp hp
          simp; omega

theorem evsplit_ctcp (isURL : Bytes → Bool) (e : Event) (maxLength : Int) (c : CTCPEvent)
    (hc : decodeCTCP e = some c) (hsplit : eventSplit isURL e maxLength ≠ [e]) :
    ∀ p ∈ eventSplit isURL e maxLength, ∃ piece, p.params.getLastD [] = [ctcpDelim] ++ c.command ++ [SP] ++ piece ++ [ctcpDelim] := by
  intro p hp
  unfold eventSplit at hp hsplit
  split at hp
  · rename_i h0; simp only [h0, if_true] at hsplit; exact absurd rfl hsplit
  · rename_i h0
    simp only [h0] at hsplit
    simp only at hp hsplit
    split at hp
    · rename_i h1; simp only [h1, if_true] at hsplit; exact absurd rfl hsplit
    · rename_i h1
      simp only [h1, if_false, hc] at hsplit
      simp only [hc] at hp
      split at hp
      · rename_i h2; simp only [h2, if_true] at hsplit; exact absurd rfl hsplit
      · rename_i h2
        simp only [h2] at hsplit
        split at hp
        · rename_i h3; simp only [h3, if_true] at hsplit; exact absurd rfl hsplit
        · obtain ⟨piece, _, rfl⟩ := List.mem_map.mp hp
          exact ⟨piece, getLastD_concat _ _ _⟩

theorem paramsLen_cons_cons (a b : Bytes) (l : List Bytes) :
    paramsLen (a :: b :: l) = 1 + a.length + paramsLen (b :: l) := rfl

theorem paramsLen_concat_le (x : Bytes) : ∀ init : List Bytes,
    paramsLen (init ++ [x]) ≤ paramsLen (init ++ [[]]) + x.length
  | [] => by
    simp only [List.nil_append, paramsLen]
    have : needsColon [] = true := rfl
    rw [this]
    split <;> simp <;> omega
  | [a] => by
    simp only [List.cons_append, List.nil_append, paramsLen_cons_cons]
    have := paramsLen_concat_le x []
    simp only [List.nil_append] at this
    omega
  | a :: b :: l => by
    simp only [List.cons_append, paramsLen_cons_cons]
    have := paramsLen_concat_le x (b :: l)
    simp only [List.cons_append] at this
    omega

/-- `Event.split` keeps every piece within the limit, provided the text splitter keeps its pieces
    within the width it is given. -/
theorem evsplit_fits_of (isURL : Bytes → Bool) (e : Event) (maxLength : Int)
    (hfit : ∀ w, 4 ≤ w → ∀ p ∈ splitMessage isURL (e.params.getLastD []) w, p.length ≤ w)
    (hnc : decodeCTCP e = none)
    (hroom : (eventLen { e with source := none, params := e.params.dropLast ++ [[]] } : Int) + 4 ≤ maxLength) :
    ∀ p ∈ eventSplit isURL e maxLength, p = e ∨ (eventLen { p with source := none } : Int) ≤ maxLength := by
  intro p hp
  unfold eventSplit at hp
  split at hp
  · left; simpa using hp
  · simp only at hp
    split at hp
    · left; simpa using hp
    · simp only [hnc] at hp
      split at hp
      · left; simpa using hp
      · obtain ⟨piece, hpiece, rfl⟩ := List.mem_map.mp hp
        right
        have hw : 4 ≤ (maxLength - (eventLen { e with source := none, params := e.params.dropLast ++ [[]] } : Int)).toNat := by
          omega
        have hlen := hfit _ hw piece hpiece
        have hpl := paramsLen_concat_le piece e.params.dropLast
        simp only [eventLen] at hroom hlen hw ⊢
        omega

end Girc.Proofs.SplitEvent
