import Girc.Model.Format
import Girc.Model.Ctcp
import Girc.Base.Utf8
/-
  Model of format.go `splitMessage` and event.go `Event.split`.
  `isURL` is the oracle `url.Parse(word) == nil` (a parameter; theorems hold for every oracle).
-/
namespace Girc.Model
open Girc

/-- Length of a Unicode White_Space rune at the head (what `strings.TrimSpace` trims), else 0.
    The input is valid UTF-8 (after ToValidUTF8). -/
def spaceRuneLen : Bytes → Nat
  | 0x09 :: _ | 0x0A :: _ | 0x0B :: _ | 0x0C :: _ | 0x0D :: _ | 0x20 :: _ => 1
  | 0xC2 :: 0x85 :: _ | 0xC2 :: 0xA0 :: _ => 2
  | 0xE1 :: 0x9A :: 0x80 :: _ => 3
  | 0xE2 :: 0x80 :: c :: _ => if (0x80 ≤ c && c ≤ 0x8A) || c = 0xA8 || c = 0xA9 || c = 0xAF then 3 else 0
  | 0xE2 :: 0x81 :: 0x9F :: _ => 3
  | 0xE3 :: 0x80 :: 0x80 :: _ => 3
  | _ => 0

def trimLeftSpace : Nat → Bytes → Bytes
  | 0, s => s
  | n + 1, s => let k := spaceRuneLen s; if k = 0 then s else trimLeftSpace n (s.drop k)

/-- Does `s` END with a white-space rune? Returns its length. -/
def spaceRuneLenEnd (s : Bytes) : Nat :=
  let r := s.reverse
  match r with
  | c :: b :: a :: _ =>
    if spaceRuneLen [a, b, c] = 3 then 3
    else if spaceRuneLen [b, c] = 2 then 2
    else if spaceRuneLen [c] = 1 then 1 else 0
  | c :: b :: _ => if spaceRuneLen [b, c] = 2 then 2 else if spaceRuneLen [c] = 1 then 1 else 0
  | [c] => if spaceRuneLen [c] = 1 then 1 else 0
  | [] => 0

def trimRightSpace : Nat → Bytes → Bytes
  | 0, s => s
  | n + 1, s => let k := spaceRuneLenEnd s; if k = 0 then s else trimRightSpace n (s.take (s.length - k))

/-- `strings.TrimSpace` -/
def trimSpace (s : Bytes) : Bytes := trimRightSpace s.length (trimLeftSpace s.length s)

/-- The separator runes of the `FieldsFunc` in splitMessage: TAB VT FF SPACE U+0085 U+00A0. -/
def sepLen : Bytes → Nat
  | 0x09 :: _ | 0x0B :: _ | 0x0C :: _ | 0x20 :: _ => 1
  | 0xC2 :: 0x85 :: _ | 0xC2 :: 0xA0 :: _ => 2
  | _ => 0

/-- `strings.FieldsFunc(s, isSep)`: maximal runs of non-separator runes. `skip` = bytes of the current
    separator rune still to drop. -/
def splitWordsAux : Bytes → Nat → Bytes → List Bytes
  | [], _, cur => if cur.isEmpty then [] else [cur.reverse]
  | _ :: rest, skip + 1, cur => splitWordsAux rest skip cur
  | b :: rest, 0, cur =>
    let k := sepLen (b :: rest)
    if k = 0 then splitWordsAux rest 0 (b :: cur)
    else (if cur.isEmpty then [] else [cur.reverse]) ++ splitWordsAux rest (k - 1) []

def splitWords (s : Bytes) : List Bytes := splitWordsAux s 0 []

def isNL (b : Byte) : Bool := b = 0x0A || b = 0x0D

/-- The newline pass: a word containing CR/LF becomes head, "" (line break marker), and the rest with
    its leading CR/LFs trimmed — which is itself examined again. -/
def expandNewlines : Nat → List Bytes → List Bytes
  | 0, ws => ws
  | _, [] => []
  | fuel + 1, w :: rest =>
    if w.any isNL then
      let head := w.takeWhile (fun b => !isNL b)
      let tail := (w.dropWhile (fun b => !isNL b)).dropWhile isNL
      head :: [] :: expandNewlines fuel (tail :: rest)
    else w :: expandNewlines fuel rest

/-- `reColor.FindAllString(word, -1)`: the last colour sequence in the word, if any. -/
def lastColorIn : Nat → Bytes → Option Bytes → Option Bytes
  | 0, _, acc => acc
  | _, [], acc => acc
  | fuel + 1, b :: rest, acc =>
    if b = 0x03 then
      match colorArgs rest with
      | some k => lastColorIn fuel (rest.drop k) (some (b :: rest.take k))
      | none => lastColorIn fuel rest acc
    else lastColorIn fuel rest acc

structure FmtState where
  codes : List Byte := []          -- active single-byte codes, in order
  lastColor : Bytes := []
  deriving Repr, DecidableEq

/-- One match of `reCode` (one of the seven code bytes), as the tracking loop treats it. -/
def trackCode (s : FmtState) (m : Byte) : FmtState :=
  if m = 0x0F then { codes := [], lastColor := [] }                     -- reset
  else if s.codes.contains m then
    { codes := s.codes.erase m, lastColor := if m = 0x03 then [] else s.lastColor }
  else if s.lastColor.isEmpty || m != 0x03 then { s with codes := s.codes ++ [m] }
  else s

def trackWord (s : FmtState) (word : Bytes) : FmtState :=
  let s := match lastColorIn (word.length + 1) word none with
    | some c => { s with lastColor := c }
    | none => s
  (word.filter (fun b => Spec.codeBytes.contains b)).foldl trackCode s

def FmtState.fresh (s : FmtState) : Bytes := s.codes ++ s.lastColor

def symbolBytes : Bytes := [0x2D, 0x2B, 0x5F, 0x3D, 0x7C, 0x2F, 0x7E, 0x3A, 0x3B, 0x2C, 0x2E]   -- "-+_=|/~:;,."

/-- Number of bytes of `word` to take for a hard cut with `left` bytes of room: whole runes, at least one. -/
def cutLenAux : Nat → Bytes → Nat → Nat → Nat
  | 0, _, _, cut => cut
  | _, [], _, cut => cut
  | fuel + 1, w, left, cut =>
    let size := match utf8Width w with | some k => k | none => 1
    if cut + size > left && cut > 0 then cut
    else if cut + size ≥ left then cut + size
    else cutLenAux fuel (w.drop size) left (cut + size)

def cutLen (word : Bytes) (left : Nat) : Nat := cutLenAux (word.length + 1) word left 0

/-- The packing of one word (`checkappend`): `out` is the list of lines, newest LAST. -/
def packWord (isURL : Bytes → Bool) (maxWidth : Nat) (fresh : Bytes) : Nat → List Bytes → Bytes → List Bytes
  | 0, out, _ => out
  | fuel + 1, out, word =>
    let cur := out.getLastD []
    let front := out.dropLast
    let sep : Bytes := if cur.isEmpty then [] else [SP]
    if cur.length + sep.length + word.length ≤ maxWidth then front ++ [cur ++ sep ++ word]
    else
      let hasContent := !cur.isEmpty && cur != fresh
      if hasContent && fresh.length + 1 + word.length ≤ maxWidth && isURL word then
        packWord isURL maxWidth fresh fuel (out ++ [fresh]) word
      else
        let symSplit : Option Nat :=
          if hasContent then
            match word.findIdx? (fun b => symbolBytes.contains b) with
            | some j => if j > 3 && j + 1 < word.length && cur.length + sep.length + j + 1 ≤ maxWidth then some j else none
            | none => none
          else none
        match symSplit with
        | some j => packWord isURL maxWidth fresh fuel (front ++ [cur ++ sep ++ word.take (j + 1)]) (word.drop (j + 1))
        | none =>
          if hasContent && (1 + word.length ≤ 30 || maxWidth - cur.length ≤ 5) then
            packWord isURL maxWidth fresh fuel (out ++ [fresh]) word
          else
            let left := maxWidth - cur.length - sep.length
            let cut := cutLen word left
            let out' := front ++ [cur ++ sep ++ word.take cut]
            let rest := word.drop cut
            if rest.isEmpty then out' else packWord isURL maxWidth fresh fuel (out' ++ [fresh]) rest

/-- The main loop over the words. -/
def splitLoop (isURL : Bytes → Bool) (maxWidth : Nat) : List Bytes → FmtState → List Bytes → List Bytes
  | [], _, out => out
  | word :: rest, fs, out =>
    if word.isEmpty then
      let cur := out.getLastD []
      if cur.isEmpty || cur = fs.lastColor then splitLoop isURL maxWidth rest fs out
      else splitLoop isURL maxWidth rest fs (out ++ [fs.fresh])
    else
      let fs := trackWord fs word
      splitLoop isURL maxWidth rest fs (packWord isURL maxWidth fs.fresh (2 * word.length + 4) out word)

/-- `splitMessage(input, maxWidth)` -/
def splitMessage (isURL : Bytes → Bool) (input : Bytes) (maxWidth : Nat) : List Bytes :=
  let input := toValidUTF8 [0x3F] input
  let words := splitWords (trimSpace input)
  let words := expandNewlines (input.length + 1) words
  let out := splitLoop isURL maxWidth words {} [[]]
  (out.filter (fun l => !l.isEmpty)).map (toValidUTF8 [0x3F])

/-- `splitMessage(input, maxWidth)` with Go's `int` width: the entry point of the translator's model-callee table
    (tools/extract/translate.go `modelCalleeTable`).  A negative width is outside the modelled domain (fail-closed);
    `Event.split` never passes one. -/
def splitMessageGo (isURL : Bytes → Bool) (input : Bytes) (maxWidth : Int) : Except Fault (List Bytes) :=
  if 0 ≤ maxWidth then .ok (splitMessage isURL input maxWidth.toNat)
  else .error (.unsupported "splitMessage: negative width")

/-- `Event.split(maxLength)` -/
def eventSplit (isURL : Bytes → Bool) (e : Event) (maxLength : Int) : List Event :=
  if e.params.length < 1 || (e.command != PRIVMSG && e.command != NOTICE) then [e]
  else
    let event := { e with source := none }
    if (eventLen event : Int) < maxLength then [e]
    else
      let text := e.params.getLastD []
      let cmdLen : Int := eventLen { event with params := e.params.dropLast ++ [[]] }
      let ctcp := decodeCTCP e
      match ctcp with
      | some c =>
        if text.isEmpty then [e]
        else
          let maxLength := maxLength - (c.command.length + 4 : Nat)
          if cmdLen > maxLength then [e]
          else (splitMessage isURL c.text (maxLength - cmdLen).toNat).map fun piece =>
            { e with params := e.params.dropLast ++ [[ctcpDelim] ++ c.command ++ [SP] ++ piece ++ [ctcpDelim]] }
      | none =>
        if cmdLen > maxLength then [e]
        else (splitMessage isURL text (maxLength - cmdLen).toNat).map fun piece =>
          { e with params := e.params.dropLast ++ [piece] }

end Girc.Model
