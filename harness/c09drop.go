package main

import (
	"bufio"
	"bytes"
	"encoding/base64"
	"fmt"
	"io"
	"net"
	"strings"
	"sync"
	"sync/atomic"
	"time"

	"github.com/lrstanley/girc"
)

// C09, secrets on the DROPPED path: an event the client could not send (not connected, or the send queue
// timed out) is logged as "dropping event …"; a sensitive one must be redacted there as well.
type syncBuf struct {
	mu sync.Mutex
	b  bytes.Buffer
}

func (s *syncBuf) Write(p []byte) (int, error) { s.mu.Lock(); defer s.mu.Unlock(); return s.b.Write(p) }
func (s *syncBuf) String() string              { s.mu.Lock(); defer s.mu.Unlock(); return s.b.String() }

func init() {
	runners["sensitivedropped"] = func(c *Ctx, in map[string]string) {
		hin := hexIn(in)
		var dbg, out syncBuf
		cl := girc.New(girc.Config{Server: "irc.example.org", Port: 6667, Nick: "me", User: "me", Name: "me",
			ServerPass: in["pass"], SASL: &girc.SASLPlain{User: "acct", Pass: in["pass"]}, Debug: &dbg, Out: &out})
		// never connected: everything below is dropped
		cl.Cmd.Oper("admin", in["pass"])
		_ = cl.Cmd.SendRaw("PRIVMSG NickServ :hello") // a non-sensitive one, for contrast
		// the SASL handler answering a late "AUTHENTICATE +" after the connection has gone
		cl.RunHandlers(&girc.Event{Command: girc.AUTHENTICATE, Params: []string{"+"}})
		log := dbg.String() + "\n" + out.String()
		if !strings.Contains(log, "dropping event") {
			c.R.Mismatch("sensitivedropped.nothing_dropped", hin, "no 'dropping event' line was logged", "")
		}
		plain := "acct\x00acct\x00" + in["pass"]
		for _, sec := range []string{in["pass"], base64.StdEncoding.EncodeToString([]byte(in["pass"])), base64.StdEncoding.EncodeToString([]byte(plain))} {
			if sec != "" && strings.Contains(log, sec) {
				c.R.Violation("c09.secret_in_debug_dropped", hin, q(sec), "", "a secret (or its base64) appears in the log of a DROPPED sensitive event")
			}
		}
		c.R.Count("dropped/"+in["pass"], true, "sensitive-dropped")
	}
}

// C09, secrets on the FAILED-WRITE path: the socket write fails exactly while a credential-bearing line is being
// written (PASS, the SASL payload, OPER); whatever the client then logs about the failure must not contain the secret.
type faultConn struct {
	net.Conn
	trigger string
	fired   int32
}

func (f *faultConn) Write(p []byte) (int, error) {
	if strings.Contains(string(p), f.trigger) {
		atomic.StoreInt32(&f.fired, 1)
		f.Conn.Close()
		return 0, io.ErrClosedPipe
	}
	return f.Conn.Write(p)
}

func init() {
	runners["sensitivefault"] = func(c *Ctx, in map[string]string) {
		hin := hexIn(in)
		pass := in["pass"]
		var dbg, out syncBuf
		cfg := girc.Config{Server: "irc.example.org", Port: 6667, Nick: "me", User: "me", Name: "me", AllowFlood: true, Debug: &dbg, Out: &out}
		trigger := ""
		switch in["at"] {
		case "pass":
			cfg.ServerPass = pass
			trigger = "PASS "
		case "sasl":
			cfg.SASL = &girc.SASLPlain{User: "acct", Pass: pass}
			trigger = "AUTHENTICATE " + base64.StdEncoding.EncodeToString([]byte("acct\x00acct\x00" + pass))[:8]
		case "oper":
			trigger = "OPER "
		case "webirc":
			cfg.WebIRC = girc.WebIRC{Password: pass, Gateway: "gw", Hostname: "host", Address: "1.2.3.4"}
			trigger = "WEBIRC "
		}
		cl := girc.New(cfg)
		if in["at"] == "oper" {
			cl.Handlers.Add(girc.RPL_WELCOME, func(c *girc.Client, e girc.Event) { c.Cmd.Oper("admin", pass) })
		}
		cli, srv := net.Pipe()
		fc := &faultConn{Conn: cli, trigger: trigger}
		go func() { // scripted peer
			rd := bufio.NewReader(srv)
			for {
				l, err := rd.ReadString('\n')
				if err != nil {
					return
				}
				l = strings.TrimRight(l, "\r\n")
				srv.SetWriteDeadline(time.Now().Add(2 * time.Second))
				switch {
				case strings.HasPrefix(l, "CAP LS"):
					srv.Write([]byte(":srv CAP * LS :multi-prefix sasl=PLAIN\r\n"))
				case strings.HasPrefix(l, "CAP REQ"):
					srv.Write([]byte(":srv CAP * ACK :" + strings.TrimPrefix(l, "CAP REQ :") + "\r\n"))
				case l == "AUTHENTICATE PLAIN":
					srv.Write([]byte("AUTHENTICATE +\r\n"))
				case l == "CAP END":
					srv.Write([]byte(":srv 001 me :Welcome\r\n"))
				}
			}
		}()
		ret := make(chan error, 1)
		go func() { ret <- cl.MockConnect(fc) }()
		var err error
		select {
		case err = <-ret:
		case <-time.After(8 * time.Second):
			cl.Close()
			srv.Close()
			c.R.Mismatch("sensitivefault.no_return", hin, "Connect did not return within 8 s of the failed write", "")
			return
		}
		srv.Close()
		if atomic.LoadInt32(&fc.fired) == 0 {
			c.R.Mismatch("sensitivefault.not_fired", hin, "the credential-bearing line was never written", fmt.Sprint(err))
			return
		}
		time.Sleep(20 * time.Millisecond)
		log := dbg.String() + "\n" + out.String()
		plain := "acct\x00acct\x00" + pass
		for _, sec := range []string{pass, base64.StdEncoding.EncodeToString([]byte(pass)), base64.StdEncoding.EncodeToString([]byte(plain))} {
			if sec != "" && strings.Contains(log, sec) {
				c.R.Violation("c09.secret_in_debug_failed_write", hin, q(sec), "", "a secret (or its base64) appears in the Debug/Out writers after the write of the "+in["at"]+" line failed")
			}
		}
		c.R.Count("fault/"+in["at"]+"/"+pass, true, "sensitive-failed-write")
	}
}

// C09 across connections of one client: a connection dies in the middle of a multi-chunk SASL exchange; on the next
// connection nothing of the old exchange may be written — the AUTHENTICATE lines of a connection are the mechanism
// followed by the chunks of THIS exchange, and the first line of a connection is the start of registration.
func init() {
	runners["saslreconnect"] = func(c *Ctx, in map[string]string) {
		hin := hexIn(in)
		pass := strings.Repeat("p4ss", 200) // response of ~1100 bytes: three chunks
		var dbg, outw syncBuf
		cl := girc.New(girc.Config{Server: "irc.example.org", Port: 6667, Nick: "me", User: "me", Name: "me", AllowFlood: true, Debug: &dbg, Out: &outw,
			SASL: &girc.SASLPlain{User: "acct", Pass: pass}})
		full := base64.StdEncoding.EncodeToString([]byte("acct\x00acct\x00" + pass))
		round := func(dieAfterChunks int) (lines []string) {
			cli, srv := net.Pipe()
			ret := make(chan error, 1)
			go func() { ret <- cl.MockConnect(cli) }()
			rd := bufio.NewReader(srv)
			chunks := 0
			for {
				srv.SetReadDeadline(time.Now().Add(2 * time.Second))
				l, err := rd.ReadString('\n')
				if err != nil {
					break
				}
				l = strings.TrimRight(l, "\r\n")
				lines = append(lines, l)
				srv.SetWriteDeadline(time.Now().Add(2 * time.Second))
				switch {
				case strings.HasPrefix(l, "CAP LS"):
					srv.Write([]byte(":srv CAP * LS :sasl=PLAIN\r\n"))
				case strings.HasPrefix(l, "CAP REQ"):
					srv.Write([]byte(":srv CAP * ACK :sasl\r\n"))
				case l == "AUTHENTICATE PLAIN":
					srv.Write([]byte("AUTHENTICATE +\r\n"))
				case strings.HasPrefix(l, "AUTHENTICATE "):
					chunks++
					if dieAfterChunks > 0 && chunks >= dieAfterChunks {
						srv.Close() // the link drops while the rest of the response is still queued
						goto out
					}
					if len(l) < len("AUTHENTICATE ")+400 {
						srv.Write([]byte(":srv 903 me :SASL authentication successful\r\n"))
					}
				case l == "CAP END":
					srv.Write([]byte(":srv 001 me :Welcome\r\n"))
					goto out
				}
			}
		out:
			cl.Close()
			srv.Close()
			select {
			case <-ret:
			case <-time.After(5 * time.Second):
			}
			return lines
		}
		_ = round(1)
		second := round(0)
		if len(second) == 0 || second[0] != "CAP LS 302" {
			c.R.Violation("c09.stale_authenticate", hin, fmt.Sprintf("%.120q", second), "CAP LS 302 first",
				"the second connection does not start with registration: a chunk of the previous connection's SASL response was written on it")
		}
		var got []string
		for _, l := range second {
			if strings.HasPrefix(l, "AUTHENTICATE ") && l != "AUTHENTICATE PLAIN" {
				got = append(got, strings.TrimPrefix(l, "AUTHENTICATE "))
			}
		}
		if strings.Join(got, "") != full {
			c.R.Violation("c09.exact", hin, fmt.Sprintf("%d chunks, %d bytes", len(got), len(strings.Join(got, ""))), fmt.Sprintf("%d bytes", len(full)),
				"on the second connection the concatenated AUTHENTICATE chunks differ from base64(user NUL user NUL pass)")
		}
		// whatever happened to the chunks still queued when the first link dropped, they were never written to a log
		for name, logged := range map[string]string{"Debug": dbg.String(), "Out": outw.String()} {
			for _, frag := range []string{full[8:40], full[420:452], full[len(full)-40 : len(full)-8], pass[:24]} {
				if strings.Contains(logged, frag) {
					c.R.Violation("c09.secret_logged_reconnect", hin, name+" log contains "+frag, "", "a piece of the SASL response / password reached a log writer (events left in the queue by a dropped connection included)")
					break
				}
			}
		}
		c.R.Count("saslreconnect", true, "sasl-reconnect")
	}
	// SASL configured AFTER New (credentials obtained late, or switched on between reconnects): the capability is requested from
	// the configuration read at connect time, so the exchange must be carried through — and a refusal must end the connection
	runners["sasllate"] = func(c *Ctx, in map[string]string) {
		hin := hexIn(in)
		cl := girc.New(girc.Config{Server: "irc.example.org", Port: 6667, Nick: "me", User: "me", Name: "me", AllowFlood: true})
		if in["notrack"] == "1" {
			cl.DisableTracking()
		}
		cl.Config.SASL = &girc.SASLPlain{User: "acct", Pass: "latepass"}
		full := base64.StdEncoding.EncodeToString([]byte("acct\x00acct\x00latepass"))
		cli, srv := net.Pipe()
		ret := make(chan error, 1)
		go func() { ret <- cl.MockConnect(cli) }()
		rd := bufio.NewReader(srv)
		var lines []string
		requested, answered := false, false
		for {
			srv.SetReadDeadline(time.Now().Add(1500 * time.Millisecond))
			l, err := rd.ReadString('\n')
			if err != nil {
				break
			}
			l = strings.TrimRight(l, "\r\n")
			lines = append(lines, l)
			srv.SetWriteDeadline(time.Now().Add(2 * time.Second))
			switch {
			case strings.HasPrefix(l, "CAP LS"):
				srv.Write([]byte(":srv CAP * LS :sasl=PLAIN\r\n"))
			case strings.HasPrefix(l, "CAP REQ"):
				requested = strings.Contains(l, "sasl")
				srv.Write([]byte(":srv CAP * ACK :" + strings.TrimPrefix(l, "CAP REQ :") + "\r\n"))
			case l == "AUTHENTICATE PLAIN":
				srv.Write([]byte("AUTHENTICATE +\r\n"))
			case strings.HasPrefix(l, "AUTHENTICATE "):
				answered = l == "AUTHENTICATE "+full
				if in["outcome"] == "fail" {
					srv.Write([]byte(":srv 904 me :SASL authentication failed\r\n"))
				} else {
					srv.Write([]byte(":srv 903 me :SASL authentication successful\r\n"))
				}
			case l == "CAP END":
				srv.Write([]byte(":srv 001 me :Welcome\r\n"))
				goto out
			}
		}
	out:
		var err error
		returned := false
		if in["outcome"] == "fail" {
			select {
			case err = <-ret:
				returned = true
			case <-time.After(2 * time.Second):
			}
		}
		cl.Close()
		srv.Close()
		if !returned {
			select {
			case <-ret:
			case <-time.After(5 * time.Second):
			}
		}
		if requested && !answered {
			c.R.Violation("c09.late_config_unanswered", hin, fmt.Sprintf("%.200q", lines), "AUTHENTICATE "+full,
				"the client requested sasl and started the exchange but did not answer the server's AUTHENTICATE + with the encoded credentials")
		}
		if requested && in["outcome"] == "fail" && (!returned || err == nil) {
			c.R.Violation("c09.late_config_not_failed_closed", hin, fmt.Sprintf("returned=%v err=%v", returned, err), "Connect returns an error",
				"the server refused the credentials (904) and the connection was not ended with an error")
		}
		c.R.Count("sasllate/"+in["outcome"]+in["notrack"], true, "sasl-late-config")
	}
}
