import Girc.Proofs.Pure
import Girc.Proofs.ProtocolA
import Girc.Gen.Facts
/- C14 — CTCP encoding round-trips; reply discipline. Property theorems only. -/
namespace Girc.Props.C14
open Girc Girc.Model Girc.Spec Girc.Proofs.ProtocolA

theorem gen_tag_byte1 : ∀ b : Byte, Gen.DecodeCTCP_bp0 b = !Model.ctcpTagByte b := by decide +kernel
theorem gen_tag_byte2 : ∀ b : Byte, Gen.DecodeCTCP_bp1 b = !Model.ctcpTagByte b := by decide +kernel
theorem gen_parsecmd_byte : ∀ b : Byte, Gen.parseCMD_bp0 b = !Model.ctcpTagByte b := by decide +kernel
theorem gen_delim : Gen.const_ctcpDelim = 1 := by decide
theorem tag_byte_spec : ∀ b : Byte, Model.ctcpTagByte b = Spec.isUpperOrDigit b := by decide +kernel

/-- Decoding what the encoder produced returns the same command and text, for every command made
    of A–Z/0–9 and EVERY text (spaces, 0x01 bytes, empty), flagged as a reply exactly for NOTICE. -/
theorem decode_encode (c tgt cmd text : Bytes) (src : Option Source) (tags : Option Tags)
    (hc : c = PRIVMSG ∨ c = NOTICE) (hne : cmd ≠ []) (hcmd : Proofs.Pure.upperOrDigit cmd = true) :
    decodeCTCP { tags := tags, source := src, command := c, params := [tgt, encodeCTCPRaw cmd text] } =
      some ⟨src, cmd, text, c == NOTICE⟩ :=
  Proofs.Pure.ctcp_decode_encode c tgt cmd text src tags hc hne hcmd

theorem not_delimited (e : Event) (tgt p : Bytes) (hp : e.params = [tgt, p])
    (h : p.head? ≠ some ctcpDelim ∨ p.getLast? ≠ some ctcpDelim) : decodeCTCP e = none :=
  Proofs.Pure.ctcp_not_delimited e tgt p hp h

theorem bad_tag (e : Event) (tgt tag rest : Bytes) (hsp : SP ∉ tag)
    (hp : e.params = [tgt, ctcpDelim :: tag ++ rest ++ [ctcpDelim]]) (hrest : rest = [] ∨ rest.head? = some SP)
    (hbad : ∃ b ∈ tag, Spec.isUpperOrDigit b = false) : decodeCTCP e = none :=
  Proofs.Pure.ctcp_bad_tag e tgt tag rest hsp hp hrest hbad

theorem wrong_shape (e : Event) (h : (e.command ≠ PRIVMSG ∧ e.command ≠ NOTICE) ∨ e.params.length ≠ 2) :
    decodeCTCP e = none := Proofs.Pure.ctcp_wrong_shape e h

example : decodeCTCP { command := PRIVMSG, params := [[0x23], encodeCTCPRaw [0x50, 0x49] [0x61, 0x20, 0x01, 0x62]] }
    = some ⟨none, [0x50, 0x49], [0x61, 0x20, 0x01, 0x62], false⟩ := by decide

/-! ### Reply discipline -/

/-- Every automatic answer is a NOTICE to the (folded) requester, produced only for a request
    (not a reply) that carries a source, and never for ACTION. -/
theorem reply_discipline (cfg : Cfg) (ev : CTCPEvent) (time idle : Bytes) :
    ∀ o ∈ ctcpCall cfg ev time idle,
      ev.reply = false ∧ ev.command ≠ tACTION ∧
      ∃ src typ msg, ev.source = some src ∧ typ ≠ [] ∧
        o = Out.send { command := NOTICE, params := [fold src.name, encodeCTCPRaw typ msg] } :=
  Proofs.ProtocolA.reply_discipline cfg ev time idle

/-- At the level of received events: CTCP answers come only from PRIVMSG events. -/
theorem replies_only_to_privmsg (cfg : Cfg) (e : Event) (ev : CTCPEvent) (time idle : Bytes)
    (hd : decodeCTCP e = some ev) (hne : ctcpCall cfg ev time idle ≠ []) :
    e.command = PRIVMSG ∧ e.source.isSome :=
  Proofs.ProtocolA.replies_only_to_privmsg cfg e ev time idle hd hne

/-- No reply loop: whatever a client answers automatically, received by ANY client (any
    configuration, as a NOTICE from anyone), triggers no automatic answer. -/
theorem no_reply_loop (cfg cfg' : Cfg) (ev : CTCPEvent) (time idle time' idle' : Bytes) :
    ∀ o ∈ ctcpCall cfg ev time idle, ∀ reply, o = Out.send reply →
      ∀ (src' : Option Source) (tags' : Option Tags) (ev' : CTCPEvent),
        decodeCTCP { reply with source := src', tags := tags' } = some ev' →
        ctcpCall cfg' ev' time' idle' = [] :=
  Proofs.ProtocolA.no_reply_loop cfg cfg' ev time idle time' idle'

end Girc.Props.C14
