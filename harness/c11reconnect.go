package main

import (
	"bufio"
	"fmt"
	"net"
	"strings"
	"time"

	"github.com/lrstanley/girc"
)

// C11 across connections of ONE client: "MaxEventLength is the server's advertised line length (512 by default) …" — the
// server of THIS connection. A limit learned from an earlier server must not survive the reconnect.
func init() {
	runners["linelenreconnect"] = func(c *Ctx, in map[string]string) {
		hin := hexIn(in)
		cl := girc.New(girc.Config{Server: "irc.example.org", Port: 6667, Nick: "me", User: "me", Name: "me", AllowFlood: true})
		session := func(isupport string, msgLen int) (maxLen int, lines []string, ok bool) {
			cli, srv := net.Pipe()
			ret := make(chan error, 1)
			go func() { ret <- cl.MockConnect(cli) }()
			rd := bufio.NewReader(srv)
			got := make(chan string, 256)
			go func() {
				for {
					l, err := rd.ReadString('\n')
					if l != "" {
						got <- strings.TrimRight(l, "\r\n")
					}
					if err != nil {
						close(got)
						return
					}
				}
			}()
			write := func(l string) {
				srv.SetWriteDeadline(time.Now().Add(2 * time.Second))
				srv.Write([]byte(l + "\r\n"))
			}
			wait := func(prefix string) bool {
				t := time.After(3 * time.Second)
				for {
					select {
					case l, open := <-got:
						if !open {
							return false
						}
						if strings.HasPrefix(l, prefix) {
							return true
						}
						if strings.HasPrefix(l, "PRIVMSG #chan") {
							lines = append(lines, l)
						}
					case <-t:
						return false
					}
				}
			}
			defer func() {
				cl.Close()
				srv.Close()
				select {
				case <-ret:
				case <-time.After(5 * time.Second):
				}
			}()
			if !wait("USER") {
				return 0, nil, false
			}
			write(":srv 001 me :Welcome")
			if isupport != "" {
				write(":srv 005 me " + isupport + " :are supported by this server")
			}
			write("PING :a")
			if !wait("PONG") {
				return 0, nil, false
			}
			maxLen = cl.MaxEventLength()
			var b strings.Builder
			for b.Len() < msgLen {
				b.WriteString("word ")
			}
			cl.Cmd.Message("#chan", strings.TrimSpace(b.String()))
			write("PING :b")
			if !wait("PONG") {
				return maxLen, lines, false
			}
			return maxLen, lines, true
		}
		m1, _, ok1 := session(in["first"], 100)
		m2, lines2, ok2 := session(in["second"], 1500) // (a 005 that says nothing about lengths, or none at all)
		if !ok1 || !ok2 {
			c.R.Mismatch("linelenreconnect.session", hin, fmt.Sprintf("ok1=%v ok2=%v", ok1, ok2), "")
			return
		}
		if m2 != 510-115 {
			c.R.Violation("c11.limit_survives_reconnect", hin, fmt.Sprintf("MaxEventLength()=%d on the second connection (first: %d)", m2, m1), "395",
				"the second server advertised no line length: the limit is the default 512 minus CRLF and the prefix estimate, not what an earlier server had announced")
		}
		for _, l := range lines2 {
			if len(l) > 510-115 {
				c.R.Violation("c11.line_fits", hin, fmt.Sprintf("%d bytes", len(l)), "395", "a PRIVMSG line on the second connection exceeds the limit of that connection")
				break
			}
		}
		c.R.Count("linelenreconnect/"+in["first"]+"/"+in["second"], true, "linelen-reconnect")
	}
}
