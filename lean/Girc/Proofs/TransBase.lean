import Girc.Gen.Funcs
import Girc.Proofs.ParseTotalBasic
/-
  Lemmas about the GoSem run-time used by the translator-equivalence proofs (Proofs/Trans*.lean).
-/
namespace Girc.Proofs.Trans
open Girc Girc.Model Girc.Go

theorem len_eq {α : Type} (s : List α) : len s = (s.length : Int) := rfl

theorem fuelTo_nat (a b : Nat) : fuelTo (a : Int) (b : Int) = b - a + 1 := by
  unfold fuelTo; omega

theorem fuelTo_len {α : Type} (a : Nat) (s : List α) : fuelTo (a : Int) (len s) = s.length - a + 1 := by
  unfold fuelTo len; omega

/-- Reading the byte at an in-range position, together with the shape of the suffix there. -/
theorem atI_step (s : Bytes) (n : Nat) (h : n < s.length) :
    ∃ c, s.drop n = c :: s.drop (n + 1) ∧ atI s (n : Int) = .ok c ∧ s[n]? = some c := by
  refine ⟨s[n], ?_, ?_, ?_⟩
  · rw [List.drop_eq_getElem_cons h]
  · exact ParseTotal.atI_nat s n s[n] (by simp [h])
  · simp [h]

theorem atI_cons_zero (c : Byte) (r : Bytes) : atI (c :: r) 0 = .ok c :=
  ParseTotal.atI_nat (c :: r) 0 c (by simp)

theorem atI_cons_zero' (c : Byte) (r : Bytes) : atI (c :: r) ((0 : Nat) : Int) = .ok c :=
  ParseTotal.atI_nat (c :: r) 0 c (by simp)

theorem atI_oob (s : Bytes) (i : Int) (h : ¬ (0 ≤ i ∧ i < s.length)) : atI s i = .error .indexOutOfRange := by
  unfold atI; rw [if_neg h]

theorem atL_nat (s : List Bytes) (n : Nat) (b : Bytes) (h : s[n]? = some b) : atL s (n : Int) = .ok b := by
  unfold atL
  have hn : n < s.length := by
    rcases Nat.lt_or_ge n s.length with h' | h'
    · exact h'
    · rw [List.getElem?_eq_none h'] at h; cases h
  rw [if_pos (by omega)]
  simp [h]

theorem sliceI_from (s : Bytes) (lo : Nat) (h : lo ≤ s.length) :
    sliceI s (lo : Int) (len s) = .ok (s.drop lo) := ParseTotal.sliceI_end s lo h

theorem sliceI_to (s : Bytes) (hi : Nat) (h : hi ≤ s.length) :
    sliceI s 0 (hi : Int) = .ok (s.take hi) := by
  have := ParseTotal.sliceI_nat s 0 hi (Nat.zero_le _) h
  simpa using this

theorem setI_nat (s : Bytes) (n : Nat) (v : Byte) (h : n < s.length) : setI s (n : Int) v = .ok (s.set n v) := by
  unfold setI
  rw [if_pos (by omega)]
  simp

theorem take_succ_set {α : Type} : ∀ (l : List α) (n : Nat) (v : α), n < l.length →
    (l.set n v).take (n + 1) = l.take n ++ [v]
  | [], _, _, h => by simp at h
  | _ :: _, 0, _, _ => by simp
  | x :: xs, n + 1, v, h => by
    simp only [List.set_cons_succ, List.take_succ_cons, List.cons_append]
    rw [take_succ_set xs n v (by simpa using h)]

theorem drop_succ_set {α : Type} : ∀ (l : List α) (n : Nat) (v : α), (l.set n v).drop (n + 1) = l.drop (n + 1)
  | [], _, _ => by simp
  | _ :: _, 0, _ => by simp
  | x :: xs, n + 1, v => by
    simp only [List.set_cons_succ, List.drop_succ_cons]
    exact drop_succ_set xs n v

theorem int_beq_nat (a b : Nat) : ((a : Int) == (b : Int)) = decide (a = b) := by
  by_cases h : a = b
  · subst h; simp
  · have : ¬ ((a : Int) = (b : Int)) := by omega
    simp [h, this]

theorem decide_congr {p q : Prop} [Decidable p] [Decidable q] (h : p ↔ q) : decide p = decide q := by
  simp [h]

/-- `decide (…) = true/false` for linear facts about lengths. -/
macro "dec_tac" : tactic =>
  `(tactic| first
    | (apply decide_eq_true; (try simp only [len, List.length_cons, List.length_nil] at *); omega)
    | (apply decide_eq_false; (try simp only [len, List.length_cons, List.length_nil] at *); omega))

/-- `decide p = decide q` for linear facts about lengths. -/
macro "decc_tac" : tactic =>
  `(tactic| (apply decide_congr; (try simp only [len, List.length_cons, List.length_nil] at *); omega))

/-- Side conditions about fuel and bounds. -/
macro "fuel_tac" : tactic =>
  `(tactic| first | omega | (simp [fuelTo, len]; done) | (simp [fuelTo, len]; omega) | (simp [fuelTo, len] at *; omega))

end Girc.Proofs.Trans
