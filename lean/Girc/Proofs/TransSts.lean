import Girc.Proofs.TransBase
import Girc.Model.StsTime
/-
  Translator equivalence, phase 4: state.go `(*strictTransport).expired`, `enabled`, `reset` against the timed STS model
  (Model/StsTime.lean `expiredAt`, Model/Sts.lean `Sts.enabled`, `Sts.reset`).  `time.Now()` is the parameter `now`;
  `time.Since(t)` ↦ `timeSince now t` (saturating, = the model's `since`), `int(d.Seconds())` ↦ `durWholeSeconds d`
  (= the model's `wholeSeconds`).  The Go struct is `Go.StrictTransport` (all six fields, clock readings as integers);
  the model splits it into `Sts` (the untimed part), `received` and an optional `lastFailed` (none = the zero time).
-/
namespace Girc.Proofs.Trans
open Girc Girc.Model Girc.Go Girc.Gen

theorem timeSince_eq (now t : Int) : timeSince now t = since now t := rfl
theorem durWholeSeconds_eq (d : Int) : durWholeSeconds d = wholeSeconds d := rfl

theorem strictTransport_expired_eq (now : Int) (s : StrictTransport) (lf : Option Int) :
    Fn.strictTransport_expired now (some s) = .ok (expiredAt now (tstsOf s lf)) := rfl

theorem strictTransport_expired_nil (now : Int) : Fn.strictTransport_expired now none = .error .nilDeref := rfl

theorem strictTransport_enabled_eq (s : StrictTransport) :
    Fn.strictTransport_enabled (some s) = .ok (stsOf s).enabled := rfl

theorem strictTransport_enabled_nil : Fn.strictTransport_enabled none = .error .nilDeref := rfl

/-- `reset` writes three fields through the receiver; the clock readings and `beginUpgrade` are kept. -/
theorem strictTransport_reset_go (s : StrictTransport) :
    Fn.strictTransport_reset (some s) =
      .ok (some { s with upgradePort := -1, persistenceDuration := -1, preload := false }) := rfl

theorem strictTransport_reset_eq (s : StrictTransport) :
    ∃ s', Fn.strictTransport_reset (some s) = .ok (some s') ∧ stsOf s' = (stsOf s).reset ∧
      s'.persistenceReceived = s.persistenceReceived ∧ s'.lastFailed = s.lastFailed :=
  ⟨_, strictTransport_reset_go s, rfl, rfl, rfl⟩

theorem strictTransport_reset_nil : Fn.strictTransport_reset none = .error .nilDeref := rfl

/-- The drop of `newConn` on a failed dial (`if sts.expired() && !DisableSTSFallback { lastFailed = now; reset() }`) in
    terms of the generated predicate: the model's `tstep … (.dialFail now d)` resets exactly when the generated
    `expired` returns true and the fallback is not disabled. -/
theorem dialFail_generated (now : Int) (s : StrictTransport) (lf : Option Int) (d b : Bool)
    (hb : Fn.strictTransport_expired now (some s) = .ok b) :
    (tstep (tstsOf s lf) (.dialFail now d)).1.toSts = if b && !d then (stsOf s).reset else stsOf s := by
  rw [strictTransport_expired_eq now s lf] at hb
  injection hb with hb
  subst hb
  rfl

end Girc.Proofs.Trans
