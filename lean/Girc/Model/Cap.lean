import Girc.Model.State
import Girc.Model.Consts
import Girc.Model.Sasl
/-
  Model of cap.go: parseCap, possibleCapList, handleCAP (with the STS block), and of the
  configuration / outputs shared by all handlers.
-/
namespace Girc.Model
open Girc

inductive NickCollide where
  | none | suffix (s : Bytes) | empty | fixed (n : Bytes)
  deriving Repr

/-- A SASL mechanism: its name and its `Encode`, which may be stateful (call index). -/
structure SaslCfg where
  method : Bytes
  encode : Nat → List Bytes → Bytes

structure Cfg where
  nick : Bytes
  user : Bytes := []
  sasl : Option SaslCfg := none
  supportedCaps : AMap (List Bytes) := []
  disableSTS : Bool := false
  disableSTSFallback : Bool := false
  ssl : Bool := false                  -- Config.SSL
  tlsActive : Bool := false            -- TLSConnectionState() != nil on this connection
  stsRecentlyFailed : Bool := false    -- time.Since(sts.lastFailed) < 5 min
  version : Bytes := []
  runtimeVersion : Bytes := []         -- "go1.x (os, arch)" part of the default VERSION reply
  nickCollide : NickCollide := .none
  disableTracking : Bool := false
  clientName : Bytes := []             -- Config.Name (FINGER reply)
  globalFormat : Bool := false

-- `Out` (what a handler does to the outside world) is declared in Girc/Base/GoSem.lean.

/-- Client-side state that lives outside `state`: how often the SASL mechanism was asked. -/
structure CState where
  st : St := {}
  saslCalls : Nat := 0
  deriving Repr

def builtinCaps : List Bytes := [
  [0x61,0x63,0x63,0x6F,0x75,0x6E,0x74,0x2D,0x6E,0x6F,0x74,0x69,0x66,0x79],          -- account-notify
  [0x61,0x63,0x63,0x6F,0x75,0x6E,0x74,0x2D,0x74,0x61,0x67],                          -- account-tag
  [0x61,0x77,0x61,0x79,0x2D,0x6E,0x6F,0x74,0x69,0x66,0x79],                          -- away-notify
  [0x62,0x61,0x74,0x63,0x68],                                                          -- batch
  [0x63,0x61,0x70,0x2D,0x6E,0x6F,0x74,0x69,0x66,0x79],                               -- cap-notify
  [0x63,0x68,0x67,0x68,0x6F,0x73,0x74],                                               -- chghost
  [0x64,0x72,0x61,0x66,0x74,0x2F,0x6D,0x65,0x73,0x73,0x61,0x67,0x65,0x2D,0x74,0x61,0x67,0x73,0x2D,0x30,0x2E,0x32], -- draft/message-tags-0.2
  [0x64,0x72,0x61,0x66,0x74,0x2F,0x6D,0x73,0x67,0x69,0x64],                          -- draft/msgid
  [0x65,0x78,0x74,0x65,0x6E,0x64,0x65,0x64,0x2D,0x6A,0x6F,0x69,0x6E],                -- extended-join
  [0x69,0x6E,0x76,0x69,0x74,0x65,0x2D,0x6E,0x6F,0x74,0x69,0x66,0x79],                -- invite-notify
  [0x6D,0x65,0x73,0x73,0x61,0x67,0x65,0x2D,0x74,0x61,0x67,0x73],                     -- message-tags
  [0x6D,0x73,0x67,0x69,0x64],                                                          -- msgid
  [0x6D,0x75,0x6C,0x74,0x69,0x2D,0x70,0x72,0x65,0x66,0x69,0x78],                     -- multi-prefix
  [0x73,0x65,0x72,0x76,0x65,0x72,0x2D,0x74,0x69,0x6D,0x65],                          -- server-time
  [0x75,0x73,0x65,0x72,0x68,0x6F,0x73,0x74,0x2D,0x69,0x6E,0x2D,0x6E,0x61,0x6D,0x65,0x73]] -- userhost-in-names

/-- `possibleCapList`: capability ↦ the values we accept (`[]` = no restriction). Later
    assignments overwrite earlier ones exactly as in the Go code. -/
def possibleCaps (cfg : Cfg) : AMap (List Bytes) :=
  let out : AMap (List Bytes) := []
  let out := if cfg.sasl.isSome then AMap.set out sSasl [] else out
  let out := if !cfg.disableSTS && !cfg.ssl then
      (if cfg.stsRecentlyFailed && !cfg.disableSTSFallback then out else AMap.set out sSts [])
    else out
  let out := cfg.supportedCaps.foldl (fun o p => AMap.set o p.1 p.2) out
  builtinCaps.foldl (fun o k => AMap.set o k []) out

/-- One option `k[=v]` of a capability value. -/
def parseCapOption (m : AMap Bytes) (opt : Bytes) : AMap Bytes :=
  match indexOf 0x3D opt with
  | none => AMap.set m opt []
  | some j => AMap.set m (opt.take j) (opt.drop (j + 1))

def parseCapItem (out : AMap CapVal) (part : Bytes) : AMap CapVal :=
  match indexOf 0x3D part with
  | some (v + 1) =>
    AMap.set out (part.take (v + 1)) (some ((splitOnByte 0x2C (part.drop (v + 2))).foldl parseCapOption []))
  | _ => AMap.set out part none

/-- `parseCap` -/
def parseCap (raw : Bytes) : AMap CapVal := (splitOnByte SP raw).foldl parseCapItem []

def capLen : CapVal → Nat
  | none => 0
  | some m => m.length

/-- The LS/NEW loop: every advertised capability we could enable goes into `tmpCap`.
    (The attribute test in the Go code is vacuous: it checks membership of a key of the map it is
    ranging over, so any non-empty value passes.) -/
def capCollect (possible : AMap (List Bytes)) (tmp : AMap CapVal) (caps : AMap CapVal) : AMap CapVal :=
  caps.foldl (fun t p => if AMap.contains possible p.1 then AMap.set t p.1 p.2 else t) tmp

def capEnd : Event := { command := cCAP, params := [cEND] }

/-- The ACK loop. -/
def capAck (tmp enabled : AMap CapVal) (acked : List Bytes) : AMap CapVal :=
  acked.foldl (fun en c => AMap.set en c ((AMap.get? tmp c).getD none)) enabled

def capValGet (v : CapVal) (k : Bytes) : Option Bytes := v.bind (fun m => AMap.get? m k)

def parseBool (s : Bytes) : Option Bool :=
  if s = [0x31] || s = [0x74] || s = [0x54] || s = [0x54,0x52,0x55,0x45] || s = [0x74,0x72,0x75,0x65] || s = [0x54,0x72,0x75,0x65] then some true
  else if s = [0x30] || s = [0x66] || s = [0x46] || s = [0x46,0x41,0x4C,0x53,0x45] || s = [0x66,0x61,0x6C,0x73,0x65] || s = [0x46,0x61,0x6C,0x73,0x65] then some false
  else none

inductive StsAction where
  | continue_ | abort | upgrade
  deriving DecidableEq, Repr

/-- The STS block of `handleCAP` after an ACK that enabled `sts` (and `!DisableSTS`). -/
def stsOnAck (cfg : Cfg) (sts : Sts) (v : CapVal) : Sts × StsAction :=
  let tls := cfg.tlsActive
  -- port (plaintext only)
  let (sts, err) :=
    if !tls then
      match capValGet v sPort with
      | some port =>
        match atoi port with
        | some p => if p < 21 || p > 65535 then (sts, true) else ({ sts with upgradePort := p }, false)
        | none => (sts, true)
      | none => (sts, true)
    else (sts, false)
  -- duration (TLS only)
  let (sts, err) :=
    if tls then
      match capValGet v sDuration with
      | some d => ({ sts with persistenceDuration := (atoi d).getD 0 }, err)
      | none => (sts, true)
    else (sts, err)
  -- preload (TLS only)
  let sts :=
    if tls then
      match capValGet v sPreload with
      | some p => { sts with preload := (parseBool p).getD false }
      | none => sts
    else sts
  if err then (sts, .abort)
  else if !tls then ({ sts with beginUpgrade := true }, .upgrade)
  else (sts, .continue_)

/-- `handleCAP` -/
def handleCAP (cfg : Cfg) (st : St) (e : Event) : St × List Out :=
  let ps := e.params
  let last := ps.getLastD []
  if ps.length ≥ 2 && ps[1]? = some cDEL then
    ({ st with enabledCap := (parseCap last).foldl (fun en p => AMap.erase en p.1) st.enabledCap }, [])
  else if ps.length ≥ 2 && ps[1]? = some cNAK then (st, [.write capEnd])
  else
    let possible := possibleCaps cfg
    -- LS / NEW
    let (st, outs, done) :=
      if ps.length ≥ 3 && (ps[1]? = some cLS || ps[1]? = some cNEW) then
        let st := { st with tmpCap := capCollect possible st.tmpCap (parseCap last) }
        if ps.length = 3 then
          if st.tmpCap.isEmpty then (st, [Out.write capEnd], true)
          else
            let keys := sortBytes (AMap.keys st.tmpCap)       -- Go: map order; compared as a set
            (st, [Out.write { command := cCAP, params := [cREQ, joinWith [SP] keys] }], false)
        else (st, [], false)
      else (st, [], false)
    if done then (st, outs)
    else if ps.length = 3 && ps[1]? = some cACK then
      let st := { st with enabledCap := capAck st.tmpCap st.enabledCap (splitOnByte SP last) }
      let stsCase : Option (St × List Out) :=
        match AMap.get? st.enabledCap sSts with
        | some v =>
          if cfg.disableSTS then none
          else
            let (sts', act) := stsOnAck cfg st.sts v
            let st := { st with sts := sts' }
            match act with
            | .abort => some (st, outs ++ [.inject { command := cERROR, params := [sStsInvalid] }])
            | .upgrade => some (st, outs ++ [.close])
            | .continue_ => none
        | none => none
      match stsCase with
      | some r =>
        -- on TLS `continue_` falls through with the updated policy: recompute below
        r
      | none =>
        let st := match AMap.get? st.enabledCap sSts with
          | some v => if cfg.disableSTS then st else { st with sts := (stsOnAck cfg st.sts v).1 }
          | none => st
        let st := { st with tmpCap := [] }
        match AMap.get? st.enabledCap sSasl, cfg.sasl with
        | some _, some m => (st, outs ++ [.write { command := cAUTHENTICATE, params := [m.method] }])
        | _, _ => (st, outs ++ [.write capEnd])
    else (st, outs)

end Girc.Model
