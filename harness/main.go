package main

import (
	"encoding/json"
	"flag"
	"fmt"
	"os"
	"sort"
	"strings"
)

type Ctx struct {
	L    *Lean
	R    *Result
	Rng  *RNG
	Tier string
	// Scale multiplies case counts (quick=1, thorough=20 by default).
	Scale int
	W     *Worker
	// Wedges counts sessions in which the client stopped responding (worker timeouts)
	Wedges int
}

type propFn func(*Ctx)

var props = map[string]propFn{}

var repoDir, verifDir string

var (
	driverPath    string
	seedArg       uint64
	tierArg       string
	isolatedChild bool
)

func main() {
	prop := flag.String("prop", "", "property id (C01..C20) or 'stdlib'")
	tier := flag.String("tier", "quick", "quick|thorough")
	seed := flag.Uint64("seed", 1, "PRNG seed")
	driver := flag.String("driver", "/verif/lean/.lake/build/bin/driver", "path to the compiled Lean driver")
	out := flag.String("out", "-", "result JSON path")
	replay := flag.String("replay", "", "replay file (re-run one recorded case)")
	flag.StringVar(&repoDir, "repo", "/repo", "repository root")
	flag.StringVar(&verifDir, "verif", "/verif", "verif root")
	worker := flag.Bool("worker", false, "internal: run as session worker")
	stress12 := flag.String("stress12", "", "internal: run one C12 stress scenario (seed,procs,lines,mode)")
	runone := flag.String("runone", "", "internal: run ONE runner on the input in -runin (a process of its own: a panic in a library goroutine is an observation, not the end of the run)")
	runin := flag.String("runin", "", "internal: JSON file with the input of -runone")
	flag.Parse()
	driverPath, seedArg, tierArg = *driver, *seed, *tier
	if *stress12 != "" {
		stressWorkerMain(strings.Split(*stress12, ","))
		return
	}
	if *worker {
		workerMain()
		return
	}

	if *runone != "" {
		isolatedChild = true
		l, err := StartLean(*driver)
		if err != nil {
			fatal("%v", err)
		}
		defer l.Close()
		ctx := &Ctx{L: l, R: NewResult(*prop, *tier, *seed), Rng: NewRNG(*seed), Tier: *tier, Scale: 1}
		if *tier == "thorough" {
			ctx.Scale = 20
		}
		b, err := os.ReadFile(*runin)
		if err != nil {
			fatal("%v", err)
		}
		in := map[string]string{}
		if err := json.Unmarshal(b, &in); err != nil {
			fatal("runin: %v", err)
		}
		ctx.run(*runone, in)
		for k := range ctx.R.seen {
			ctx.R.SeenKeys = append(ctx.R.SeenKeys, k)
		}
		ctx.R.Write(*out)
		return
	}
	fn, ok := props[*prop]
	if !ok {
		names := []string{}
		for k := range props {
			names = append(names, k)
		}
		sort.Strings(names)
		fmt.Fprintf(os.Stderr, "unknown property %q; have %v\n", *prop, names)
		os.Exit(2)
	}
	l, err := StartLean(*driver)
	if err != nil {
		fatal("%v", err)
	}
	defer l.Close()
	ctx := &Ctx{L: l, R: NewResult(*prop, *tier, *seed), Rng: NewRNG(*seed), Tier: *tier, Scale: 1}
	if *tier == "thorough" {
		ctx.Scale = 20
	}
	if *replay != "" {
		runReplay(ctx, *replay)
	} else {
		fn(ctx)
	}
	ctx.R.Write(*out)
}
