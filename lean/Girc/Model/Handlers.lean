import Girc.Model.Cap
import Girc.Model.Ctcp
/-
  Model of builtin.go, cap.go (CHGHOST/AWAY/ACCOUNT), cap_tags.go (handleTags), cap_sasl.go
  (handleSASL/handleSASLError), ctcp.go (CTCP.call with the default handlers) and the dispatch of one
  received event to the built-in handlers (`RunHandlers`' internal part). Every Go index expression
  and pointer dereference is a checked operation in `M = Except Fault`.
-/
namespace Girc.Model
open Girc

def Event.last (e : Event) : Bytes := e.params.getLastD []

/-- `GetNick()` -/
def getNick (cfg : Cfg) (st : St) : Bytes := if st.nick.isEmpty then cfg.nick else st.nick
/-- `GetID()` -/
def getID (cfg : Cfg) (st : St) : Bytes := fold (getNick cfg st)

def whoEvent (target : Bytes) : Event := { command := cWHO, params := [target, sWhoFmt] }

def setUser (st : St) (key : Bytes) (u : User) : St := { st with users := AMap.set st.users key u }
def setChannel (st : St) (key : Bytes) (c : Channel) : St := { st with channels := AMap.set st.channels key c }

/-- `handleConnect` (the part before the 2 s sleep). -/
def handleConnect (st : St) (e : Event) : St :=
  match e.params with
  | p :: _ => { st with nick := p }
  | [] => st

/-- `handleJOIN` -/
def handleJOIN (cfg : Cfg) (st : St) (e : Event) : M (St × List Out) :=
  match e.source, e.params with
  | some src, channelName :: _ => do
    let st := if (st.lookupChannel channelName).isNone then (st.createChannel channelName).1 else st
    let channel ← deref (st.lookupChannel channelName)
    let st := if (st.lookupUser src.name).isNone then (st.createUser src).1 else st
    let user ← deref (st.lookupUser src.name)
    let channel := channel.addUser user.nick
    let user := user.addChannel channel.name
    let user := match e.params with
      | _ :: acct :: rest =>
        let user := if acct ≠ sStar then { user with account := acct } else user
        (match rest with
         | nm :: _ => { user with name := nm }
         | [] => user)
      | _ => user
    let st := setChannel st (fold channelName) channel
    let st := setUser st (fold src.name) user
    if fold src.name = getID cfg st then
      .ok ({ st with ident := src.ident, host := src.host },
           [.send (whoEvent channelName), .send { command := cMODE, params := [channelName] }])
    else .ok (st, [.send (whoEvent src.name)])
  | _, _ => .ok (st, [])

/-- `handlePART` -/
def handlePART (cfg : Cfg) (st : St) (e : Event) : M St :=
  match e.source, e.params with
  | some src, channel :: _ =>
    if channel = [] then .ok st
    else if fold src.name = getID cfg st then st.deleteChannel channel
    else st.deleteUser channel (fold src.name)
  | _, _ => .ok st

/-- `handleTOPIC` -/
def handleTOPIC (st : St) (e : Event) : M St := do
  let (name, topic) ← match e.params with
    | [] => return st
    | [n] => pure (n, ([] : Bytes))
    | [n, _] => pure (n, e.last)
    | _ :: n :: _ => pure (n, e.last)
  match st.lookupChannel name with
  | none => .ok st
  | some ch => .ok (setChannel st (fold name) { ch with topic := topic })

/-- The "<hopcount> <realname>" stripping loop of `handleWHO`, as written (note `i > 0x39`
    compares the INDEX): cut at the first byte < '0' (or index > 57), trimming SPACEs after it. -/
def stripHopcount : Bytes → Nat → Bytes → Bytes
  | [], _, whole => whole                       -- loop ran off the end without `break`: unchanged …
  | b :: rest, i, whole =>
    if b < 0x30 || i > 0x39 then rest.dropWhile (· = SP)
    else if rest.isEmpty then []                -- … except: last index reached, "assume only numbers"
    else stripHopcount rest (i + 1) whole

/-- `handleWHO` -/
def handleWHO (st : St) (e : Event) : M St := do
  let (ident, host, nick, account, realname, whox) ←
    if e.command = c354 then
      if e.params.length ≠ 8 then return st
      else if (← idx e.params 1) ≠ sOne then return st
      else pure ((← idx e.params 3), (← idx e.params 4), (← idx e.params 5), (← idx e.params 6), e.last, true)
    else
      if e.params.length < 8 then return st
      else
        let rn := e.last
        pure ((← idx e.params 2), (← idx e.params 3), (← idx e.params 5), ([] : Bytes), stripHopcount rn 0 rn, false)
  match st.lookupUser nick with
  | none => .ok st
  | some user =>
    let user := { user with host := host, ident := ident, name := realname }
    let user := if whox && account ≠ sZero then { user with account := account } else user
    .ok (setUser st (fold nick) user)

/-- `handleKICK` -/
def handleKICK (cfg : Cfg) (st : St) (e : Event) : M St := do
  if e.params.length < 2 then return st
  let chan ← idx e.params 0
  let victim ← idx e.params 1
  if fold victim = getID cfg st then st.deleteChannel chan
  else st.deleteUser chan victim

/-- `handleNICK` -/
def handleNICK (st : St) (e : Event) : M St :=
  match e.source with
  | none => .ok st
  | some src => if e.params.length ≥ 1 then st.renameUser (fold src.name) e.last else .ok st

/-- `handleQUIT` -/
def handleQUIT (cfg : Cfg) (st : St) (e : Event) : M St :=
  match e.source with
  | none => .ok st
  | some src => if fold src.name = getID cfg st then .ok st else st.deleteUser [] (fold src.name)

/-- `handleMYINFO` -/
def handleMYINFO (st : St) (e : Event) : M St := do
  if e.params.length < 3 then return st
  let a ← idx e.params 1
  let b ← idx e.params 2
  .ok { st with serverOptions := AMap.set (AMap.set st.serverOptions sSERVER a) sVERSION b }

def optInt (st : St) (key : Bytes) : Option Int := (AMap.get? st.serverOptions key).bind atoi

def isupportItem (opts : AMap Bytes) (p : Bytes) : AMap Bytes :=
  match indexOf 0x3D p with
  | some (j + 1) => if j + 2 = p.length then AMap.set opts p [] else AMap.set opts (p.take (j + 1)) (p.drop (j + 2))
  | _ => AMap.set opts p []

/-- `handleISUPPORT` -/
def handleISUPPORT (st : St) (e : Event) : St :=
  if !isSuffixOfB sThisServer e.last then st
  else if e.params.length < 2 then st
  else
    let items := (e.params.drop 1).dropLast
    let st := { st with serverOptions := items.foldl isupportItem st.serverOptions }
    let maxLine := st.maxLineLength
    let (st, maxLine) := match optInt st sLINELEN with
      | some t => ({ st with maxLineLength := t - 2 }, t)
      | none => (st, maxLine)
    let maxNick : Int := match optInt st sNICKLEN with | some t => t | none => 30
    let maxNick := match optInt st sMAXNICKLEN with | some t => if t > maxNick then t else maxNick | none => maxNick
    let maxUser : Int := match optInt st sUSERLEN with | some t => if t > 18 then t else 18 | none => 18
    let maxHost : Int := match optInt st sHOSTLEN with | some t => if t > 63 then t else 63 | none => 63
    let prefixLen := 4 + maxNick + maxUser + maxHost
    if prefixLen ≥ maxLine then st else { st with maxPrefixLength := prefixLen }

/-- `handleMOTD` -/
def handleMOTD (st : St) (e : Event) : St :=
  if e.command = c375 then { st with motd := [] }
  else { st with motd := (if st.motd.isEmpty then [] else st.motd ++ [LF]) ++ e.last }

/-- One entry of a NAMES reply. -/
def namesEntry (channelKey : Bytes) (st : St) (part : Bytes) : M St := do
  let (modes, nick, ok) := parseUserPrefix part
  if !ok then return st
  let src : Source ← if nick.contains AT then pure (parseSource nick)
    else if !isValidNick nick then return st else pure ⟨nick, [], []⟩
  let st := (st.createUser src).1
  match st.lookupUser src.name with
  | none => .ok st
  | some user =>
    let channel ← deref (AMap.get? st.channels channelKey)
    let user := user.addChannel channel.name
    let channel := channel.addUser (fold src.name)
    let user := { user with perms := AMap.set user.perms (fold channel.name) (permsFromPrefix modes) }
    .ok (setChannel (setUser st (fold src.name) user) channelKey channel)

/-- `handleNAMES` -/
def handleNAMES (st : St) (e : Event) : M St := do
  if e.params.length < 3 then return st
  let chan ← idx e.params 2
  match st.lookupChannel chan with
  | none => .ok st
  | some _ => (splitOnByte SP e.last).foldlM (namesEntry (fold chan)) st

/-- The permission loop of `handleMODE`. -/
def modePerms (channelName listArgs : Bytes) (st : St) (m : CMode) : St :=
  if m.setting || m.args.isEmpty then st
  else if listArgs.contains m.name then st
  else match st.lookupUser m.args with
    | none => st
    | some user =>
      let p := (AMap.get? user.perms (fold channelName)).getD {}
      setUser st (fold m.args) { user with perms := AMap.set user.perms (fold channelName) (p.setFromMode m) }

/-- `handleMODE` -/
def handleMODE (st : St) (e : Event) : M St := do
  let ps := if e.command = c324 && e.params.length > 2 then e.params.drop 1 else e.params
  if ps.length < 2 then return st
  let target ← idx ps 0
  if !isValidChannel target then return st
  match st.lookupChannel target with
  | none => .ok st
  | some channel =>
    let flags ← idx ps 1
    let changes := channel.modes.parse flags (ps.drop 2)
    let channel := { channel with modes := channel.modes.apply changes }
    let st := setChannel st (fold target) channel
    .ok (changes.foldl (modePerms channel.name channel.modes.listArgs) st)

def updUser (st : St) (name : Bytes) (f : User → User) : St :=
  match st.lookupUser name with
  | some u => setUser st (fold name) (f u)
  | none => st

/-- `handleCHGHOST` -/
def handleCHGHOST (st : St) (e : Event) : St :=
  match e.source, e.params with
  | some src, [i, h] => updUser st src.name (fun u => { u with ident := i, host := h })
  | _, _ => st

/-- `handleAWAY` -/
def handleAWAY (st : St) (e : Event) : St :=
  match e.source with
  | some src => updUser st src.name (fun u => { u with away := e.last })
  | none => st

/-- `handleACCOUNT` -/
def handleACCOUNT (st : St) (e : Event) : St :=
  match e.source, e.params with
  | some src, [a] => updUser st src.name (fun u => { u with account := if a = sStar then [] else a })
  | _, _ => st

/-- `handleTags` -/
def handleTags (st : St) (e : Event) : St :=
  match e.tags, e.source with
  | some t, some src =>
    if t.isEmpty then st
    else match tagsGet (some t) sAccount with
      | some acct => updUser st (fold src.name) (fun u => { u with account := acct })
      | none => st
  | _, _ => st

def errorEvent (text : Bytes) : Event := { command := cERROR, params := [text] }

/-- `handleSASL` -/
def handleSASL (cfg : Cfg) (cs : CState) (e : Event) : CState × List Out :=
  if e.command = c903 || e.command = c907 then (cs, [.write capEnd])
  else match cfg.sasl with
    | none => (cs, [])
    | some m =>
      let auth := m.encode cs.saslCalls e.params
      let cs := { cs with saslCalls := cs.saslCalls + 1 }
      if auth.isEmpty then
        (cs, [.inject (errorEvent (sClosingSasl ++ m.method ++ sFailed ++ e.last))])
      else (cs, (saslChunks auth).map fun c => Out.write { command := cAUTHENTICATE, params := [c] })

/-- `handleSASLError` -/
def handleSASLError (cfg : Cfg) (e : Event) : List Out :=
  if cfg.sasl.isNone then [.write capEnd] else [.inject (errorEvent (sClosing ++ e.last))]

/-- `nickCollisionHandler` -/
def collisionBase (cfg : Cfg) (st : St) : Bytes := if cfg.disableTracking then cfg.nick else getNick cfg st

def nickCollision (cfg : Cfg) (st : St) (e : Event) : List Out :=
  let rejected := match e.params with
    | _ :: n :: _ => if isValidNick n then n else collisionBase cfg st
    | _ => collisionBase cfg st
  let nickEv (n : Bytes) : Event := { command := cNICK, params := [n] }
  match cfg.nickCollide with
  | .none => [.send (nickEv (rejected ++ [0x5F]))]
  | .suffix s => if (rejected ++ s).isEmpty then [] else [.send (nickEv (rejected ++ s))]
  | .empty => []
  | .fixed n => if n.isEmpty then [] else [.send (nickEv n)]

/-! ### CTCP auto replies (`CTCP.call` with the default handler table) -/

def ctcpReply (target typ msg : Bytes) : Out :=
  .send { command := NOTICE, params := [target, encodeCTCPRaw typ msg] }

/-- `time` and `idle` are environment observations (the formatted clock / idle duration). -/
def ctcpCall (cfg : Cfg) (ev : CTCPEvent) (time idle : Bytes) : List Out :=
  let known := [tPING, tPONG, tVERSION, tSOURCE, tTIME, tFINGER]
  if !known.contains ev.command then
    if ev.command = tACTION then []
    else match ev.source with
      | some src => if !ev.reply && isValidNick (fold src.name) then [ctcpReply (fold src.name) tERRMSG sUnknownCtcp] else []
      | none => []
  else if ev.reply then []
  else match ev.source with
    | none => []
    | some src =>
      let to := fold src.name
      if ev.command = tPING then [ctcpReply to tPING ev.text]
      else if ev.command = tPONG then [ctcpReply to tPONG []]
      else if ev.command = tVERSION then
        [ctcpReply to tVERSION (if cfg.version.isEmpty then sGircVersion ++ cfg.runtimeVersion else cfg.version)]
      else if ev.command = tSOURCE then [ctcpReply to tSOURCE sSourceUrl]
      else if ev.command = tTIME then [ctcpReply to tTIME (COLON :: time)]
      else [ctcpReply to tFINGER (cfg.clientName ++ sIdle ++ idle)]

/-! ### Dispatch of one received event -/

/-- The echo rule of `readLoop`. -/
def isEcho (cfg : Cfg) (st : St) (e : Event) : Bool :=
  !cfg.disableTracking && (e.command = PRIVMSG || e.command = NOTICE) &&
    (match e.source with | some s => fold s.name = getID cfg st | none => false)

/-- The built-in handlers registered for the event's command (tracking enabled). -/
def handleCommand (cfg : Cfg) (cs : CState) (e : Event) : M (CState × List Out) :=
  let st := cs.st
  let ret (st : St) (o : List Out := []) : M (CState × List Out) := .ok ({ cs with st := st }, o)
  let c := e.command
  if c = cPING then ret st [.write { command := cPONG, params := [e.last] }]
  else if c = c001 then ret (handleConnect st e)
  else if c = c433 || c = c436 || c = c437 then ret st (nickCollision cfg st e)
  else if cfg.disableTracking then ret st
  else if c = cJOIN then do let (s, o) ← handleJOIN cfg st e; ret s o
  else if c = cPART then do ret (← handlePART cfg st e)
  else if c = cKICK then do ret (← handleKICK cfg st e)
  else if c = cQUIT then do ret (← handleQUIT cfg st e)
  else if c = cNICK then do ret (← handleNICK st e)
  else if c = c353 then do ret (← handleNAMES st e)
  else if c = cMODE || c = c324 then do ret (← handleMODE st e)
  else if c = c352 || c = c354 then do ret (← handleWHO st e)
  else if c = cTOPIC || c = c332 then do ret (← handleTOPIC st e)
  else if c = c004 then do ret (← handleMYINFO st e)
  else if c = c005 then ret (handleISUPPORT st e)
  else if c = c375 || c = c372 then ret (handleMOTD st e)
  else if c = cCAP then let (s, o) := handleCAP cfg st e; ret s o
  else if c = cCHGHOST then ret (handleCHGHOST st e)
  else if c = cAWAY then ret (handleAWAY st e)
  else if c = cACCOUNT then ret (handleACCOUNT st e)
  else if c = cAUTHENTICATE || c = c903 then
    let (cs', o) := handleSASL cfg cs e
    .ok (cs', o)
  else if c = c902 || c = c904 || c = c905 || c = c906 || c = c908 then ret st (handleSASLError cfg e)
  else ret st

/-- Everything the library itself does for one received event: handleTags, the command's
    handlers (skipped for an echo), then the CTCP auto reply. -/
def handleEvent (cfg : Cfg) (cs : CState) (e : Event) (time idle : Bytes := []) : M (CState × List Out) := do
  let echo := isEcho cfg cs.st e
  let cs := if cfg.disableTracking then cs else { cs with st := handleTags cs.st e }
  let (cs, outs) ← if echo then pure (cs, []) else handleCommand cfg cs e
  let ctcp := match decodeCTCP e with
    | some ev => ctcpCall cfg ev time idle
    | none => []
  .ok (cs, outs ++ ctcp)

end Girc.Model
