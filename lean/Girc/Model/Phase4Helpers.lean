import Girc.Model.EventHelpers
import Girc.Model.Event
import Girc.Model.Tags
/-
  Models of the phase-4 helpers of cap_tags.go, event.go and ctcp.go: Tags.Count, Tags.Equals, Tags.Remove,
  (*Event).Equals, (*CTCP).parseCMD.  List-functional definitions (`Tags.Keys` is `mapKeys` of GoSem, `(*Event).String`
  is `eventBytes`, `EncodeCTCP` is `encodeCTCPRaw` on the two fields).
-/
namespace Girc.Model
open Girc

/-- `Tags.Count()`: the number of tags; 0 for the nil map. -/
def tagsCount : Option Tags → Int
  | none => 0
  | some m => m.length

/-- "account" -/
def ACCOUNT_TAG : Bytes := [0x61, 0x63, 0x63, 0x6F, 0x75, 0x6E, 0x74]

/-- The (decoded) value of the `account` tag, "" when the tag is absent or the map is nil. -/
def accountOf (t : Option Tags) : Bytes := (tagsGet t ACCOUNT_TAG).getD []

/-- `Tags.Equals(tt)`: girc compares the `account` tag ONLY (every other tag is ignored; an absent tag and an empty one
    are the same). -/
def tagsEquals (t tt : Option Tags) : Bool := decide (accountOf t = accountOf tt)

/-- `Tags.Remove(key)`: whether the key was there, and the map afterwards (the nil map stays nil). -/
def tagsRemove (t : Option Tags) (key : Bytes) : Bool × Option Tags :=
  match t with
  | none => (false, none)
  | some m => (AMap.contains m key, some (if AMap.contains m key then AMap.erase m key else m))

/-- `(*Event).Equals(ev)` on two non-nil events: same command, same parameters, equal sources (`sourceEq`: nick folded
    under RFC 1459, ident and host byte for byte) and the same `account` tag. -/
def eventEquals (e ev : Event) : Bool :=
  decide (e.command = ev.command ∧ e.params = ev.params) && sourceEq e.source ev.source && tagsEquals e.tags ev.tags

/-- `(*CTCP).parseCMD(cmd)`: the wildcard `*` is kept; anything else is upper-cased and must consist of `A`–`Z` and
    `0`–`9` only, otherwise the result is "". -/
def ctcpParseCmd (cmd : Bytes) : Bytes :=
  if cmd = [0x2A] then [0x2A]
  else
    let u := toUpperAscii cmd
    if u.all ctcpTagByte then u else []

/-- format.go `sliceInsert(input, i, v...)`: `v` inserted before position `i`; Go panics (slice bounds) unless
    `0 ≤ i ≤ len(input)`.  (Value of the RESULT only: when the capacity suffices the Go function shifts the tail inside
    the caller's backing array, so the caller's `input` must be dead afterwards — `words = sliceInsert(words, …)`.) -/
def sliceInsert (l : List Bytes) (i : Int) (v : List Bytes) : Except Fault (List Bytes) :=
  if 0 ≤ i ∧ i ≤ l.length then .ok (l.take i.toNat ++ v ++ l.drop i.toNat) else .error .sliceBounds

end Girc.Model
