#!/bin/sh
# Runs every claimed check (tier $1, default quick) on the current /repo; prints one line each.
cd "$(dirname "$0")"
tier=${1:-quick}
for p in $(python3 -c "import json;print(' '.join(c['property_id'] for c in json.load(open('MANIFEST.json'))['checks']))"); do
  ./check $p $tier | tail -3
done
