package main

// splitmix64: every random choice of the harness derives from one state.
type RNG struct{ s uint64 }

func NewRNG(seed uint64) *RNG { return &RNG{s: seed*0x9E3779B97F4A7C15 + 0x1234567} }

func (r *RNG) Next() uint64 {
	r.s += 0x9E3779B97F4A7C15
	z := r.s
	z = (z ^ (z >> 30)) * 0xBF58476D1CE4E5B9
	z = (z ^ (z >> 27)) * 0x94D049BB133111EB
	return z ^ (z >> 31)
}

// Intn returns a value in [0,n).
func (r *RNG) Intn(n int) int {
	if n <= 0 {
		return 0
	}
	return int(r.Next() % uint64(n))
}

func (r *RNG) Bool() bool        { return r.Next()&1 == 1 }
func (r *RNG) Chance(p int) bool { return r.Intn(100) < p } // p percent

func (r *RNG) Pick(xs []string) string { return xs[r.Intn(len(xs))] }

// Bytes draws n bytes from alphabet.
func (r *RNG) From(alphabet string, n int) string {
	b := make([]byte, n)
	for i := range b {
		b[i] = alphabet[r.Intn(len(alphabet))]
	}
	return string(b)
}

func (r *RNG) RawBytes(n int) string {
	b := make([]byte, n)
	for i := range b {
		b[i] = byte(r.Next())
	}
	return string(b)
}
