import Girc.Proofs.TransModes2
import Girc.Proofs.TransSlices
/-
  Translator equivalence, modes.go (third part, value level of the stateful code): (*CModes).HasMode / Get / String /
  Parse / Apply / Copy, NewCModes, (*Perms).reset / set / setFromMode, Perms.IsAdmin / IsTrusted.
-/
set_option linter.unusedSimpArgs false
namespace Girc.Proofs.Trans
open Girc Girc.Model Girc.Go Girc.Gen

/-- Mode names are ASCII (every mode letter a server can put into CHANMODES / PREFIX is): then Go's `string(name)`
    is the one-byte string `[name]` (the `_ascii` corollaries below; the equivalences themselves need no such hypothesis,
    the models spell a letter with `Go.strOfByte` as the code does). -/
def asciiModes (ms : List CMode) : Prop := ∀ m ∈ ms, m.name < 0x80

theorem strOfByte_ascii (b : Byte) (h : b < 0x80) : strOfByte b = [b] := by
  unfold strOfByte; simp [h]

/-! ### (*CModes).HasMode -/

theorem CModes_HasMode_loop1_eq (c : CModes) (mode : Bytes) : ∀ (fuel n : Nat),
    n ≤ c.modes.length → c.modes.length - n < fuel →
    Fn.CModes_HasMode_loop1 (some c) mode fuel (n : Int) = .ok
      (if (c.modes.drop n).any (fun m => strOfByte m.name == mode) then .ret true else .done ())
  | 0, _, _, h => by omega
  | fuel + 1, n, hn, hf => by
    unfold Fn.CModes_HasMode_loop1
    by_cases hlt : n < c.modes.length
    · obtain ⟨m, hd, hat, _⟩ := atA_step c.modes n hlt
      have hc : decide ((n : Int) < len c.modes) = true := by dec_tac
      have e1 : ((n : Int) + 1) = ((n + 1 : Nat) : Int) := by omega
      simp only [deref_some, hc, hat, bind, Except.bind, pure, Except.pure, Bool.not_true, Bool.false_eq_true, if_false, e1]
      rw [hd, List.any_cons]
      cases hs : (strOfByte m.name == mode) with
      | true => simp
      | false =>
        simp only [Bool.false_eq_true, if_false, Bool.false_or]
        exact CModes_HasMode_loop1_eq c mode fuel (n + 1) (by omega) (by omega)
    · have hc : decide ((n : Int) < len c.modes) = false := by dec_tac
      have : c.modes.drop n = [] := by simp; omega
      simp [deref_some, bind, Except.bind, hc, this, pure, Except.pure]

/-- `HasMode`, for ALL mode bytes: `string(name)` is the UTF-8 encoding of the code point `name`, in the code and in the
    model. -/
theorem CModes_HasMode_eq (c : CModes) (mode : Bytes) :
    Fn.CModes_HasMode (some c) mode = .ok (c.hasMode mode) := by
  unfold Fn.CModes_HasMode CModes.hasMode
  have hl := CModes_HasMode_loop1_eq c mode (fuelTo 0 (len c.modes)) 0 (by omega) (by fuel_tac)
  simp only [Int.natCast_zero, List.drop_zero] at hl
  simp only [deref_some, hl, bind, Except.bind, pure, Except.pure]
  cases (c.modes.any (fun m => strOfByte m.name == mode)) <;> rfl

theorem any_strOfByte (ms : List CMode) (mode : Bytes) (h : asciiModes ms) :
    ms.any (fun m => strOfByte m.name == mode) = ms.any (fun m => [m.name] = mode) := by
  induction ms with
  | nil => rfl
  | cons m ms ih =>
    have hm := h m (by simp)
    have ih' := ih (fun x hx => h x (by simp [hx]))
    simp only [List.any_cons, strOfByte_ascii m.name hm, ih']
    congr 1
    by_cases e : [m.name] = mode <;> simp [e]

/-- On ASCII letters `HasMode` is the comparison with the one-byte string. -/
theorem hasMode_ascii (c : CModes) (mode : Bytes) (h : asciiModes c.modes) :
    c.hasMode mode = c.modes.any (fun m => [m.name] = mode) := any_strOfByte c.modes mode h

theorem CModes_HasMode_nil (mode : Bytes) : Fn.CModes_HasMode none mode = .error .nilDeref := rfl

/-! ### (*CModes).Get -/

theorem CModes_Get_loop1_eq (c : CModes) (mode : Bytes) : ∀ (fuel n : Nat),
    n ≤ c.modes.length → c.modes.length - n < fuel →
    Fn.CModes_Get_loop1 (some c) mode fuel (n : Int) = .ok
      (match (c.modes.drop n).find? (fun m => strOfByte m.name == mode) with
       | some m => .ret (if m.args == [] then ([], false) else (m.args, true))
       | none => .done ())
  | 0, _, _, h => by omega
  | fuel + 1, n, hn, hf => by
    unfold Fn.CModes_Get_loop1
    by_cases hlt : n < c.modes.length
    · obtain ⟨m, hd, hat, _⟩ := atA_step c.modes n hlt
      have hc : decide ((n : Int) < len c.modes) = true := by dec_tac
      have e1 : ((n : Int) + 1) = ((n + 1 : Nat) : Int) := by omega
      simp only [deref_some, hc, hat, bind, Except.bind, pure, Except.pure, Bool.not_true, Bool.false_eq_true, if_false, e1]
      rw [hd, List.find?_cons]
      cases hs : (strOfByte m.name == mode) with
      | true =>
        simp only [if_true]
        cases ha : (m.args == ([] : Bytes)) <;> simp [ha]
      | false =>
        simp only [Bool.false_eq_true, if_false]
        exact CModes_Get_loop1_eq c mode fuel (n + 1) (by omega) (by omega)
    · have hc : decide ((n : Int) < len c.modes) = false := by dec_tac
      have : c.modes.drop n = [] := by simp; omega
      simp [deref_some, bind, Except.bind, hc, this, pure, Except.pure]

/-- `Get`, for ALL mode bytes (the pair `(args, ok)` of the code is the model's option). -/
theorem CModes_Get_eq (c : CModes) (mode : Bytes) :
    Fn.CModes_Get (some c) mode = .ok (match c.get mode with | some a => (a, true) | none => ([], false)) := by
  unfold Fn.CModes_Get CModes.get
  have hl := CModes_Get_loop1_eq c mode (fuelTo 0 (len c.modes)) 0 (by omega) (by fuel_tac)
  simp only [Int.natCast_zero, List.drop_zero] at hl
  simp only [deref_some, hl, bind, Except.bind, pure, Except.pure]
  cases (c.modes.find? (fun m => strOfByte m.name == mode)) with
  | none => rfl
  | some m =>
    cases ha : m.args with
    | nil => simp [ha]
    | cons a as => simp [ha]

theorem find_strOfByte (ms : List CMode) (mode : Bytes) (h : asciiModes ms) :
    ms.find? (fun m => strOfByte m.name == mode) = ms.find? (fun m => [m.name] = mode) := by
  induction ms with
  | nil => rfl
  | cons m ms ih =>
    have hm := h m (by simp)
    have ih' := ih (fun x hx => h x (by simp [hx]))
    simp only [List.find?_cons, strOfByte_ascii m.name hm, ih']
    cases hb : ([m.name] == mode) with
    | true => have e : [m.name] = mode := by simpa using hb
              simp [e]
    | false => have e : ¬ [m.name] = mode := by simpa using hb
               simp [e]

/-- On ASCII letters `Get` looks the one-byte string up. -/
theorem get_ascii (c : CModes) (mode : Bytes) (h : asciiModes c.modes) :
    c.get mode = (match c.modes.find? (fun m => [m.name] = mode) with
      | some m => if m.args.isEmpty then none else some m.args
      | none => none) := by
  unfold CModes.get
  rw [find_strOfByte c.modes mode h]
  cases (c.modes.find? (fun m => [m.name] = mode)) <;> rfl

theorem CModes_Get_nil (mode : Bytes) : Fn.CModes_Get none mode = .error .nilDeref := rfl

/-! ### (*CModes).String -/

theorem CModes_String_loop1_eq (c : CModes) : ∀ (fuel n : Nat) (out args : Bytes),
    n ≤ c.modes.length → c.modes.length - n < fuel →
    Fn.CModes_String_loop1 (some c) fuel out args (n : Int) = .ok (.done
      (out ++ (c.modes.drop n).flatMap (fun m => strOfByte m.name),
       args ++ (c.modes.drop n).flatMap (fun m => if m.args.length > 0 then SP :: m.args else [])))
  | 0, _, _, _, _, h => by omega
  | fuel + 1, n, out, args, hn, hf => by
    unfold Fn.CModes_String_loop1
    by_cases hlt : n < c.modes.length
    · obtain ⟨m, hd, hat, _⟩ := atA_step c.modes n hlt
      have hc : decide ((n : Int) < len c.modes) = true := by dec_tac
      have e1 : ((n : Int) + 1) = ((n + 1 : Nat) : Int) := by omega
      have hlen : decide (len m.args > 0) = decide (m.args.length > 0) := by decc_tac
      simp only [deref_some, hc, hat, bind, Except.bind, pure, Except.pure, Bool.not_true, Bool.false_eq_true, if_false, e1,
        hlen]
      rw [hd]
      by_cases ha : m.args.length > 0
      · simp only [ha, decide_true, if_true]
        rw [CModes_String_loop1_eq c fuel (n + 1) _ _ (by omega) (by omega)]
        simp [List.flatMap_cons, ha, SP]
      · simp only [ha, decide_false, Bool.false_eq_true, if_false]
        rw [CModes_String_loop1_eq c fuel (n + 1) _ _ (by omega) (by omega)]
        simp [List.flatMap_cons, ha]
    · have hc : decide ((n : Int) < len c.modes) = false := by dec_tac
      have : c.modes.drop n = [] := by simp; omega
      simp [deref_some, bind, Except.bind, hc, this, pure, Except.pure]

/-- `String()`, for ALL mode bytes. -/
theorem CModes_String_eq (c : CModes) : Fn.CModes_String (some c) = .ok c.toBytes := by
  unfold Fn.CModes_String CModes.toBytes
  have hlen : decide (len c.modes > 0) = decide (c.modes.length > 0) := by decc_tac
  simp only [deref_some, bind, Except.bind, pure, Except.pure, hlen]
  by_cases h0 : c.modes.length > 0
  · have hl := CModes_String_loop1_eq c (fuelTo 0 (len c.modes)) 0 ([] ++ [0x2B]) [] (by omega) (by fuel_tac)
    simp only [Int.natCast_zero, List.drop_zero, List.nil_append] at hl
    simp [h0, hl]
  · have hl := CModes_String_loop1_eq c (fuelTo 0 (len c.modes)) 0 [] [] (by omega) (by fuel_tac)
    simp only [Int.natCast_zero, List.drop_zero] at hl
    simp [h0, hl]

theorem flatMap_strOfByte (ms : List CMode) (h : asciiModes ms) :
    ms.flatMap (fun m => strOfByte m.name) = ms.map (·.name) := by
  induction ms with
  | nil => rfl
  | cons m ms ih =>
    have hm := h m (by simp)
    have ih' := ih (fun x hx => h x (by simp [hx]))
    simp [List.flatMap_cons, strOfByte_ascii m.name hm, ih']

/-- On ASCII letters `String()` prints the letters themselves. -/
theorem toBytes_ascii (c : CModes) (h : asciiModes c.modes) :
    c.toBytes = (if c.modes.length > 0 then [0x2B] else []) ++ c.modes.map (·.name) ++
      c.modes.flatMap (fun m => if m.args.length > 0 then SP :: m.args else []) := by
  unfold CModes.toBytes
  rw [flatMap_strOfByte c.modes h]

theorem CModes_String_nil : Fn.CModes_String none = .error .nilDeref := rfl

end Girc.Proofs.Trans
