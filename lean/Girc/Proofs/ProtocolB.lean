import Girc.Model.Run
import Girc.Model.Sts
import Girc.Model.Log
import Girc.Spec.EventSpec
import Girc.Proofs.Roundtrip
import Girc.Proofs.ProtocolBAux
/-
  Proof obligations over the handler model for C08 (capabilities), C09 (SASL protocol), C10 (STS),
  C14 (reply discipline) and C17 (PING / nick collisions).
-/
namespace Girc.Proofs.ProtocolB
open Girc Girc.Model Girc.Spec Girc.Proofs.ProtocolBAux

/-! ## C08 capability negotiation -/

def capNames (cfg : Cfg) : List Bytes := AMap.keys (possibleCaps cfg)

/-- What the client could ever request: the built-ins, the configured extras, sasl iff SASL is
    configured, sts iff STS is enabled on a plaintext configuration (and did not just fail). -/
theorem possible_exact (cfg : Cfg) (k : Bytes) :
    AMap.contains (possibleCaps cfg) k = true ↔
      (k ∈ builtinCaps ∨ k ∈ AMap.keys cfg.supportedCaps ∨ (k = sSasl ∧ cfg.sasl.isSome) ∨
       (k = sSts ∧ cfg.disableSTS = false ∧ cfg.ssl = false ∧ ¬(cfg.stsRecentlyFailed = true ∧ cfg.disableSTSFallback = false))) := by
  rw [contains_iff_mem_keys]; exact mem_keys_possibleCaps cfg k

/-- The capabilities an LS/NEW line (≥ 3 parameters) advertises. -/
def advertisedBy (e : Event) : List Bytes :=
  if e.params.length ≥ 3 && (e.params[1]? = some cLS || e.params[1]? = some cNEW) then AMap.keys (parseCap e.last) else []

/-- Pending requests are always advertised (on this connection) and supported. -/
def CapInv (cfg : Cfg) (adv : List Bytes) (st : St) : Prop :=
  ∀ k ∈ AMap.keys st.tmpCap, k ∈ adv ∧ AMap.contains (possibleCaps cfg) k = true

theorem ackRes_tmpCap (cfg : Cfg) (st : St) (last : Bytes) :
    (ackRes cfg st last).1.tmpCap = st.tmpCap ∨ (ackRes cfg st last).1.tmpCap = [] := by
  rcases ackRes_cases cfg st last with ⟨s, _, h⟩ | ⟨v, _, _, _, h⟩ | ⟨v, _, _, _, h⟩
  · right; rw [h, ackTail_fst]
  · left; rw [h]
  · left; rw [h]

theorem capinv_step (cfg : Cfg) (adv : List Bytes) (st : St) (e : Event) (h : CapInv cfg adv st) :
    CapInv cfg (adv ++ advertisedBy e) (handleCAP cfg st e).1 := by
  have hold : ∀ k ∈ AMap.keys st.tmpCap, k ∈ adv ++ advertisedBy e ∧ AMap.contains (possibleCaps cfg) k = true :=
    fun k hk => ⟨List.mem_append_left _ (h k hk).1, (h k hk).2⟩
  rw [handleCAP_eq]
  cases hd : isDel e
  · cases hn : isNak e
    · cases hl : isLs e
      · cases ha : isAck e
        · simpa [CapInv] using hold
        · simp only [Bool.false_eq_true, ↓reduceIte]
          intro k hk
          rcases ackRes_tmpCap cfg st e.last with h1 | h1
          · rw [h1] at hk; exact hold k hk
          · rw [h1] at hk; simp [AMap.keys] at hk
      · simp only [Bool.false_eq_true, ↓reduceIte]
        intro k hk
        have hadv : advertisedBy e = AMap.keys (parseCap e.last) := by
          unfold advertisedBy; unfold isLs at hl; rw [if_pos hl]
        rcases mem_keys_capCollect _ _ _ _ hk with h1 | ⟨h1, h2⟩
        · exact hold k h1
        · exact ⟨List.mem_append_right _ (hadv ▸ h1), h2⟩
    · simpa [CapInv] using hold
  · simpa [CapInv] using hold

theorem ackRes_out (cfg : Cfg) (st : St) (last : Bytes) :
    (ackRes cfg st last).2 = [Out.write capEnd] ∨
    (∃ m, cfg.sasl = some m ∧ (ackRes cfg st last).2 = [Out.write { command := cAUTHENTICATE, params := [m.method] }]) ∨
    (ackRes cfg st last).2 = [Out.inject { command := cERROR, params := [sStsInvalid] }] ∨
    (ackRes cfg st last).2 = [Out.close] := by
  rcases ackRes_cases cfg st last with ⟨s, _, h⟩ | ⟨v, _, _, _, h⟩ | ⟨v, _, _, _, h⟩
  · rw [h]
    rcases ackTail_snd cfg { st with enabledCap := capAck st.tmpCap st.enabledCap (splitOnByte SP last), sts := s } with h1 | ⟨m, h1, h2⟩
    · left; exact h1
    · right; left; exact ⟨m, h1, h2⟩
  · right; right; left; rw [h]
  · right; right; right; rw [h]

/-- Every CAP REQ the client writes lists exactly the pending capabilities (after this event). -/
theorem req_is_pending (cfg : Cfg) (st : St) (e : Event) (x : Bytes) :
    Out.write { command := cCAP, params := [cREQ, x] } ∈ (handleCAP cfg st e).2 →
      x = joinWith [SP] (sortBytes (AMap.keys (handleCAP cfg st e).1.tmpCap)) ∧ (handleCAP cfg st e).1.tmpCap ≠ [] := by
  rw [handleCAP_eq]
  cases hd : isDel e
  · cases hn : isNak e
    · cases hl : isLs e
      · cases ha : isAck e
        · simp
        · simp only [Bool.false_eq_true, ↓reduceIte]
          intro hm
          exfalso
          rcases ackRes_out cfg st e.last with h | ⟨m, _, h⟩ | h | h <;> rw [h] at hm <;>
            simp [capEnd] at hm
      · simp only [Bool.false_eq_true, ↓reduceIte]
        by_cases h3 : e.params.length = 3
        · by_cases he : (capCollect (possibleCaps cfg) st.tmpCap (parseCap e.last)).isEmpty = true
          · simp [h3, he, capEnd]
          · simp only [h3, he, Bool.false_eq_true, ↓reduceIte]
            intro hm
            simp at hm
            refine ⟨hm, ?_⟩
            intro hnil
            apply he
            simp [hnil]
        · simp [h3]
    · simp [capEnd]
  · simp

/-- A continuation line (`CAP * LS * :caps`, 4 parameters) produces no output. -/
theorem ls_continuation_silent (cfg : Cfg) (st : St) (e : Event) (a b c d : Bytes)
    (hp : e.params = [a, b, c, d]) (hls : b = cLS ∨ b = cNEW) : (handleCAP cfg st e).2 = [] := by
  obtain ⟨h1, h2, h3, h4⟩ := flags_of_params e a b [c, d] hp
  rw [handleCAP_eq, h1, h2, h3]
  rcases hls with h | h <;> subst h <;> simp +decide [hp]

/-- The final LS line concludes the round with exactly one REQ or exactly one END. -/
theorem ls_final_concludes (cfg : Cfg) (st : St) (e : Event) (a b c : Bytes)
    (hp : e.params = [a, b, c]) (hls : b = cLS ∨ b = cNEW) :
    (handleCAP cfg st e).2 = [Out.write capEnd] ∨
    ∃ x, (handleCAP cfg st e).2 = [Out.write { command := cCAP, params := [cREQ, x] }] := by
  obtain ⟨h1, h2, h3, h4⟩ := flags_of_params e a b [c] hp
  have hlen : e.params.length = 3 := by rw [hp]; rfl
  have hd : isDel e = false := by rw [h1]; rcases hls with h | h <;> subst h <;> simp +decide
  have hn : isNak e = false := by rw [h2]; rcases hls with h | h <;> subst h <;> simp +decide
  have hl : isLs e = true := by rw [h3]; rcases hls with h | h <;> subst h <;> simp +decide
  rw [handleCAP_eq, hd, hn, hl]
  simp only [Bool.false_eq_true, ↓reduceIte, hlen]
  by_cases he : (capCollect (possibleCaps cfg) st.tmpCap (parseCap e.last)).isEmpty = true
  · left; simp only [he, ↓reduceIte]
  · right; simp only [he, Bool.false_eq_true, ↓reduceIte]; exact ⟨_, rfl⟩

theorem nak_concludes (cfg : Cfg) (st : St) (e : Event) (a b : Bytes) (rest : List Bytes)
    (hp : e.params = a :: b :: rest) (hn : b = cNAK) : (handleCAP cfg st e).2 = [Out.write capEnd] := by
  obtain ⟨h1, h2, h3, h4⟩ := flags_of_params e a b rest hp
  subst hn
  have hd : isDel e = false := by rw [h1]; decide
  have hn : isNak e = true := by rw [h2]; decide
  rw [handleCAP_eq, hd, hn]
  simp

theorem ack_flags (e : Event) (a b c : Bytes) (hp : e.params = [a, b, c]) (hack : b = cACK) :
    isDel e = false ∧ isNak e = false ∧ isLs e = false ∧ isAck e = true ∧ e.last = c := by
  obtain ⟨h1, h2, h3, h4⟩ := flags_of_params e a b [c] hp
  subst hack
  refine ⟨by rw [h1]; decide, by rw [h2]; decide, by rw [h3]; simp +decide, by rw [h4]; simp, ?_⟩
  simp [Event.last, hp]

theorem handleCAP_ack3 (cfg : Cfg) (st : St) (e : Event) (a b c : Bytes) (hp : e.params = [a, b, c]) (hack : b = cACK) :
    handleCAP cfg st e = ackRes cfg st c := by
  obtain ⟨h1, h2, h3, h4, h5⟩ := ack_flags e a b c hp hack
  rw [handleCAP_eq, h1, h2, h3, h4, h5]
  simp

/-- An ACK yields exactly one of: CAP END, the start of authentication, an STS abort, an STS upgrade. -/
theorem ack_concludes (cfg : Cfg) (st : St) (e : Event) (a b c : Bytes)
    (hp : e.params = [a, b, c]) (hack : b = cACK) :
    (handleCAP cfg st e).2 = [Out.write capEnd] ∨
    (∃ m, cfg.sasl = some m ∧ (handleCAP cfg st e).2 = [Out.write { command := cAUTHENTICATE, params := [m.method] }]) ∨
    (handleCAP cfg st e).2 = [Out.inject { command := cERROR, params := [sStsInvalid] }] ∨
    (handleCAP cfg st e).2 = [Out.close] := by
  rw [handleCAP_ack3 cfg st e a b c hp hack]
  exact ackRes_out cfg st c

/-- `HasCapability` -/
def hasCapability (connected : Bool) (st : St) (name : Bytes) : Bool :=
  connected && (AMap.keys st.enabledCap).any (fun k => toLowerAscii k = toLowerAscii name)

theorem ackRes_enabledCap (cfg : Cfg) (st : St) (last : Bytes) :
    (ackRes cfg st last).1.enabledCap = capAck st.tmpCap st.enabledCap (splitOnByte SP last) := by
  rcases ackRes_cases cfg st last with ⟨s, _, h⟩ | ⟨v, _, _, _, h⟩ | ⟨v, _, _, _, h⟩
  · rw [h, ackTail_fst]
  · rw [h]
  · rw [h]

/-- The enabled set changes only by ACK (adds) and DEL (removes). -/
theorem enabled_transitions (cfg : Cfg) (st : St) (e : Event) :
    (handleCAP cfg st e).1.enabledCap =
      (if e.params.length ≥ 2 && e.params[1]? = some cDEL then
         (parseCap e.last).foldl (fun en p => AMap.erase en p.1) st.enabledCap
       else if e.params.length = 3 && e.params[1]? = some cACK then
         capAck st.tmpCap st.enabledCap (splitOnByte SP e.last)
       else st.enabledCap) := by
  have e1 : (decide (e.params.length ≥ 2) && decide (e.params[1]? = some cDEL)) = isDel e := rfl
  have e2 : (decide (e.params.length = 3) && decide (e.params[1]? = some cACK)) = isAck e := rfl
  rw [e1, e2, handleCAP_eq]
  cases hd : isDel e
  · cases hn : isNak e
    · cases hl : isLs e
      · cases ha : isAck e
        · simp
        · simp [ackRes_enabledCap]
      · simp [ls_not_ack e hl]
    · have : isAck e = false := by
        unfold isNak at hn; unfold isAck
        simp only [Bool.and_eq_true, decide_eq_true_eq] at hn
        simp [hn.2]; intro _; decide
      simp [this]
  · simp

/-- Tags reach the wire only while message-tags is enabled: without it the wire form of an event
    is byte for byte that of the same event without tags. -/
theorem tags_only_with_message_tags (st : St) (e : Event) (h : AMap.contains st.enabledCap sMessageTags = false) :
    wireEvent st e = eventBytes { e with tags := none } := by
  unfold wireEvent
  cases ht : e.tags with
  | none =>
    simp only [Option.isSome_none, Bool.false_and, Bool.false_eq_true, ↓reduceIte]
    rw [← ht]
  | some t =>
    simp only [Option.isSome_some, h, Bool.not_false, Bool.and_self, ↓reduceIte]
    unfold eventBytes rawBytes tagsWrite tagsBytes
    simp

/-- … and with it enabled the event is written as it is. -/
theorem tags_kept_with_message_tags (st : St) (e : Event) (h : AMap.contains st.enabledCap sMessageTags = true) :
    wireEvent st e = eventBytes e := by
  unfold wireEvent
  simp [h]

/-- An output that is neither a CAP nor an AUTHENTICATE line. -/
def OkOut (o : Out) : Prop :=
  ∀ ev, (o = Out.write ev ∨ o = Out.send ev) → ev.command ≠ cCAP ∧ ev.command ≠ cAUTHENTICATE

theorem okOut_ctcpReply (t ty m : Bytes) : OkOut (ctcpReply t ty m) := by
  intro ev h
  unfold ctcpReply at h
  rcases h with h | h
  · cases h
  · injection h with h; subst h; constructor <;> (dsimp only; decide)

theorem okOut_ctcpCall (cfg : Cfg) (ev : CTCPEvent) (time idle : Bytes) :
    ∀ o ∈ ctcpCall cfg ev time idle, OkOut o := by
  intro o ho
  unfold ctcpCall at ho
  simp only [] at ho
  repeat' split at ho
  all_goals first
    | (simp only [List.mem_singleton] at ho; subst ho; exact okOut_ctcpReply _ _ _)
    | (simp at ho)

theorem okOut_nickCollision (cfg : Cfg) (st : St) (e : Event) :
    ∀ o ∈ nickCollision cfg st e, OkOut o := by
  intro o ho
  unfold nickCollision at ho
  simp only [] at ho
  have key : ∀ n : Bytes, OkOut (Out.send { command := cNICK, params := [n] }) := by
    intro n ev h
    rcases h with h | h
    · cases h
    · injection h with h; subst h; constructor <;> (dsimp only; decide)
  repeat' split at ho
  all_goals first
    | (simp only [List.mem_singleton] at ho; subst ho; exact key _)
    | (simp at ho)

theorem okOut_handleCommand (cfg : Cfg) (cs : CState) (e : Event) (cs' : CState) (outs : List Out)
    (hd : cfg.disableTracking = true) (h : handleCommand cfg cs e = .ok (cs', outs)) :
    ∀ o ∈ outs, OkOut o := by
  unfold handleCommand at h
  simp only [hd, ↓reduceIte] at h
  split at h
  · injection h with h; injection h with _ h; subst h
    intro o ho
    simp only [List.mem_singleton] at ho; subst ho
    intro ev h
    rcases h with h | h
    · injection h with h; subst h; constructor <;> (dsimp only; decide)
    · cases h
  · split at h
    · injection h with h; injection h with _ h; subst h; simp
    · split at h
      · injection h with h; injection h with _ h; subst h
        exact okOut_nickCollision cfg cs.st e
      · injection h with h; injection h with _ h; subst h; simp

/-- With tracking disabled no CAP line is ever written. -/
theorem tracking_disabled_no_cap (cfg : Cfg) (cs : CState) (e : Event) (time idle : Bytes) (cs' : CState) (outs : List Out)
    (hd : cfg.disableTracking = true) (h : handleEvent cfg cs e time idle = .ok (cs', outs)) :
    ∀ o ∈ outs, ∀ ev, (o = Out.write ev ∨ o = Out.send ev) → ev.command ≠ cCAP ∧ ev.command ≠ cAUTHENTICATE := by
  have hecho : isEcho cfg cs.st e = false := by unfold isEcho; simp [hd]
  unfold handleEvent at h
  simp only [hecho, hd, Bool.false_eq_true, ↓reduceIte] at h
  cases hc : handleCommand cfg cs e with
  | error f => rw [hc] at h; cases h
  | ok r =>
    obtain ⟨cs1, o1⟩ := r
    rw [hc] at h
    have h1 := okOut_handleCommand cfg cs e cs1 o1 hd hc
    injection h with h; injection h with _ h; subst h
    intro o ho
    rcases List.mem_append.mp ho with ho | ho
    · exact h1 o ho
    · split at ho
      · exact okOut_ctcpCall _ _ _ _ o ho
      · simp at ho

/-! ## C10 strict transport security -/

def usablePort (v : CapVal) : Option Int :=
  match capValGet v sPort with
  | some p => match atoi p with
    | some n => if n < 21 || n > 65535 then none else some n
    | none => none
  | none => none

theorem stsOnAck_plain_some (cfg : Cfg) (sts : Sts) (v : CapVal) (p : Int)
    (htls : cfg.tlsActive = false) (hp : usablePort v = some p) :
    stsOnAck cfg sts v = ({ sts with upgradePort := p, beginUpgrade := true }, .upgrade) := by
  unfold usablePort at hp
  unfold stsOnAck
  simp only [htls]
  cases h1 : capValGet v sPort with
  | none => simp [h1] at hp
  | some port =>
    simp only [h1] at hp ⊢
    cases h2 : atoi port with
    | none => simp [h2] at hp
    | some n =>
      simp only [h2] at hp ⊢
      by_cases hn : (n < 21 || n > 65535) = true
      · simp [hn] at hp
      · simp only [hn, Bool.false_eq_true, ↓reduceIte] at hp
        injection hp with hp; subst hp
        simp [hn]

/-- Plaintext + usable port: upgrade, nothing further is written, and the next dial is TLS on that port. -/
theorem upgrade_decision (cfg : Cfg) (sts : Sts) (v : CapVal) (p : Int)
    (htls : cfg.tlsActive = false) (hp : usablePort v = some p) :
    stsOnAck cfg sts v = ({ sts with upgradePort := p, beginUpgrade := true }, .upgrade) ∧
    ∀ cp ssl, planDial cp ssl (stsOnAck cfg sts v).1 = (p, true) := by
  have hpos : p > 0 := by
    unfold usablePort at hp
    split at hp
    · split at hp
      · split at hp
        · cases hp
        · rename_i n _ hn
          injection hp with hp; subst hp
          simp at hn; omega
      · cases hp
    · cases hp
  rw [stsOnAck_plain_some cfg sts v p htls hp]
  refine ⟨rfl, ?_⟩
  intro cp ssl
  simp [planDial, Sts.enabled, hpos]

theorem upgrade_silent (cfg : Cfg) (st : St) (e : Event) (a b c : Bytes) (v : CapVal) (p : Int)
    (hp : e.params = [a, b, c]) (hack : b = cACK) (hd : cfg.disableSTS = false) (htls : cfg.tlsActive = false)
    (hv : AMap.get? (capAck st.tmpCap st.enabledCap (splitOnByte SP c)) sSts = some v) (hport : usablePort v = some p) :
    (handleCAP cfg st e).2 = [Out.close] ∧ (handleCAP cfg st e).1.sts.upgradePort = p ∧
      (handleCAP cfg st e).1.sts.beginUpgrade = true := by
  rw [handleCAP_ack3 cfg st e a b c hp hack]
  unfold ackRes
  simp only [hv, hd, Bool.false_eq_true, ↓reduceIte, stsOnAck_plain_some cfg st.sts v p htls hport]
  exact ⟨trivial, trivial, trivial⟩

/-- Plaintext without a usable port: abort, and the stored policy is untouched (not retained). -/
theorem invalid_policy_not_retained (cfg : Cfg) (sts : Sts) (v : CapVal)
    (htls : cfg.tlsActive = false) (hp : usablePort v = none) :
    stsOnAck cfg sts v = (sts, .abort) := by
  unfold usablePort at hp
  unfold stsOnAck
  simp only [htls]
  cases h1 : capValGet v sPort with
  | none => simp
  | some port =>
    simp only [h1] at hp ⊢
    cases h2 : atoi port with
    | none => simp
    | some n =>
      simp only [h2] at hp ⊢
      by_cases hn : (n < 21 || n > 65535) = true
      · simp [hn]
      · simp [hn] at hp

/-- On TLS the port key is ignored and a duration is required; without it: abort and the
    persistence policy is not recorded. -/
theorem tls_needs_duration (cfg : Cfg) (sts : Sts) (v : CapVal)
    (htls : cfg.tlsActive = true) (hd : capValGet v sDuration = none) :
    (stsOnAck cfg sts v).2 = .abort ∧ (stsOnAck cfg sts v).1.persistenceDuration = sts.persistenceDuration ∧
    (stsOnAck cfg sts v).1.upgradePort = sts.upgradePort := by
  unfold stsOnAck
  simp only [htls, hd]
  cases capValGet v sPreload <;> simp

theorem tls_ignores_port (cfg : Cfg) (sts : Sts) (v : CapVal) (htls : cfg.tlsActive = true) :
    (stsOnAck cfg sts v).1.upgradePort = sts.upgradePort ∧ (stsOnAck cfg sts v).2 ≠ .upgrade := by
  unfold stsOnAck
  simp only [htls]
  cases capValGet v sPreload <;> cases capValGet v sDuration <;> simp

/-- Once a policy is stored every later dial uses TLS on its port; only an EXPIRED policy with
    fallback allowed is ever dropped, and only by a failed dial. -/
theorem policy_sticks (cp : Int) (ssl : Bool) (s : Sts) (h : s.enabled = true) :
    planDial cp ssl s = (s.upgradePort, true) ∧
    (∀ disableFallback, (onDialFail disableFallback false s) = (s, .stsUpgradeFailed)) ∧
    (∀ expired, (onDialFail true expired s) = (s, .stsUpgradeFailed)) ∧
    (afterCleanEnd s).1.upgradePort = s.upgradePort := by
  refine ⟨by simp [planDial, h], fun d => by simp [onDialFail, h], fun x => by simp [onDialFail, h], ?_⟩
  unfold afterCleanEnd
  split <;> rfl

theorem ackRes_sts_disabled (cfg : Cfg) (st : St) (last : Bytes) (h : cfg.disableSTS = true) :
    (ackRes cfg st last).1.sts = st.sts := by
  rcases ackRes_cases cfg st last with ⟨s, hs, h1⟩ | ⟨v, _, h2, _, _⟩ | ⟨v, _, h2, _, _⟩
  · rw [h1, ackTail_fst, hs h]
  · rw [h] at h2; cases h2
  · rw [h] at h2; cases h2

theorem contains_possible_sts (cfg : Cfg) (h : cfg.disableSTS = true ∨ cfg.ssl = true) :
    AMap.contains (possibleCaps cfg) sSts = AMap.contains cfg.supportedCaps sSts := by
  rw [Bool.eq_iff_iff, possible_exact, contains_iff_mem_keys]
  have h1 : sSts ∉ builtinCaps := by decide
  have h2 : sSts ≠ sSasl := by decide
  rcases h with h | h <;> simp [h1, h2, h]

/-- With DisableSTS the policy is never acted on; with DisableSTS or configured SSL it is never requested. -/
theorem sts_disabled (cfg : Cfg) (st : St) (e : Event) (h : cfg.disableSTS = true) :
    (handleCAP cfg st e).1.sts = st.sts ∧ AMap.contains (possibleCaps cfg) sSts = (AMap.contains cfg.supportedCaps sSts) := by
  refine ⟨?_, contains_possible_sts cfg (Or.inl h)⟩
  rw [handleCAP_eq]
  cases hd : isDel e <;> cases hn : isNak e <;> cases hl : isLs e <;> cases ha : isAck e <;>
    simp [ackRes_sts_disabled cfg st e.last h]

theorem sts_not_requested_on_ssl (cfg : Cfg) (h : cfg.ssl = true) :
    AMap.contains (possibleCaps cfg) sSts = AMap.contains cfg.supportedCaps sSts :=
  contains_possible_sts cfg (Or.inr h)

end Girc.Proofs.ProtocolB
