import Girc.Base.AMap
import Girc.Proofs.TagsAux
/-
  Association-list map library: `get?` / `set` / `erase` / `keys` / `contains`, and the
  membership <-> lookup correspondence for maps with duplicate-free keys.
  Namespace `Girc.Proofs.InvBase` (shared with InvSort.lean / InvBase.lean).
-/
namespace Girc.Proofs.InvBase
open Girc

variable {β : Type}

/-! ### `get?` -/

theorem get?_nil (k : Bytes) : AMap.get? ([] : AMap β) k = none := rfl

theorem get?_cons (m : AMap β) (a k : Bytes) (b : β) :
    AMap.get? ((a, b) :: m) k = if k = a then some b else AMap.get? m k := by
  unfold AMap.get?
  by_cases h : k = a
  · subst h; rw [TagsAux.lookup_cons_eq, if_pos rfl]
  · rw [TagsAux.lookup_cons_ne _ _ _ _ h, if_neg h]

theorem get?_set (m : AMap β) (k k' : Bytes) (v : β) :
    AMap.get? (AMap.set m k v) k' = if k' = k then some v else AMap.get? m k' :=
  TagsAux.get?_set m k k' v

theorem get?_set_self (m : AMap β) (k : Bytes) (v : β) : AMap.get? (AMap.set m k v) k = some v := by
  rw [get?_set, if_pos rfl]

theorem get?_set_ne (m : AMap β) {k k' : Bytes} (v : β) (h : k' ≠ k) :
    AMap.get? (AMap.set m k v) k' = AMap.get? m k' := by
  rw [get?_set, if_neg h]

theorem erase_nil (k : Bytes) : AMap.erase ([] : AMap β) k = [] := rfl

theorem erase_cons (m : AMap β) (a k : Bytes) (b : β) :
    AMap.erase ((a, b) :: m) k = if a = k then AMap.erase m k else (a, b) :: AMap.erase m k := by
  unfold AMap.erase
  by_cases h : a = k
  · subst h; simp
  · simp [h]

theorem get?_erase (m : AMap β) (k k' : Bytes) :
    AMap.get? (AMap.erase m k) k' = if k' = k then none else AMap.get? m k' := by
  induction m with
  | nil => simp [erase_nil, get?_nil]
  | cons p m ih =>
    obtain ⟨a, b⟩ := p
    rw [erase_cons]
    by_cases hak : a = k
    · subst hak
      rw [if_pos rfl, ih, get?_cons]
      by_cases h : k' = a
      · simp [h]
      · simp [h]
    · rw [if_neg hak, get?_cons, get?_cons, ih]
      by_cases h : k' = a
      · subst h; simp [hak]
      · simp [h]

theorem get?_erase_self (m : AMap β) (k : Bytes) : AMap.get? (AMap.erase m k) k = none := by
  rw [get?_erase, if_pos rfl]

theorem get?_erase_ne (m : AMap β) {k k' : Bytes} (h : k' ≠ k) :
    AMap.get? (AMap.erase m k) k' = AMap.get? m k' := by
  rw [get?_erase, if_neg h]

/-! ### `keys` -/

theorem keys_nil : AMap.keys ([] : AMap β) = [] := rfl
theorem keys_cons (m : AMap β) (a : Bytes) (b : β) : AMap.keys ((a, b) :: m) = a :: AMap.keys m := rfl

theorem mem_keys_of_mem {m : AMap β} {k : Bytes} {v : β} (h : (k, v) ∈ m) : k ∈ AMap.keys m :=
  List.mem_map.mpr ⟨(k, v), h, rfl⟩

theorem mem_keys_iff (m : AMap β) (k : Bytes) : k ∈ AMap.keys m ↔ ∃ v, (k, v) ∈ m := by
  constructor
  · intro h
    obtain ⟨⟨a, b⟩, hp, rfl⟩ := List.mem_map.mp h
    exact ⟨b, hp⟩
  · rintro ⟨v, hv⟩; exact mem_keys_of_mem hv

/-- No `Nodup` needed: a successful lookup returns a member. -/
theorem get?_some_mem {m : AMap β} {k : Bytes} {v : β} (h : AMap.get? m k = some v) : (k, v) ∈ m :=
  TagsAux.lookup_mem m k v h

theorem get?_some_mem_keys {m : AMap β} {k : Bytes} {v : β} (h : AMap.get? m k = some v) :
    k ∈ AMap.keys m := mem_keys_of_mem (get?_some_mem h)

theorem get?_eq_none_iff (m : AMap β) (k : Bytes) : AMap.get? m k = none ↔ k ∉ AMap.keys m := by
  constructor
  · intro h hk
    obtain ⟨v, hv⟩ := TagsAux.mem_keys_lookup m k hk
    unfold AMap.get? at h
    rw [h] at hv; cases hv
  · exact TagsAux.not_mem_keys_lookup m k

theorem mem_keys_iff_get? (m : AMap β) (k : Bytes) : k ∈ AMap.keys m ↔ ∃ v, AMap.get? m k = some v := by
  constructor
  · exact TagsAux.mem_keys_lookup m k
  · rintro ⟨v, hv⟩; exact get?_some_mem_keys hv

theorem get?_isSome_iff (m : AMap β) (k : Bytes) : (AMap.get? m k).isSome = true ↔ k ∈ AMap.keys m := by
  rw [mem_keys_iff_get?, Option.isSome_iff_exists]

/-- With duplicate-free keys, membership and lookup coincide. -/
theorem mem_iff_get? {m : AMap β} (hnd : (AMap.keys m).Nodup) (k : Bytes) (v : β) :
    (k, v) ∈ m ↔ AMap.get? m k = some v := by
  constructor
  · intro h
    induction m with
    | nil => cases h
    | cons p m ih =>
      obtain ⟨a, b⟩ := p
      rw [keys_cons, List.nodup_cons] at hnd
      rw [get?_cons]
      rcases List.mem_cons.mp h with e | hm
      · cases e; rw [if_pos rfl]
      · have hk : k ≠ a := fun e => hnd.1 (e ▸ mem_keys_of_mem hm)
        rw [if_neg hk]; exact ih hnd.2 hm
  · exact get?_some_mem

theorem mem_get? {m : AMap β} (hnd : (AMap.keys m).Nodup) {k : Bytes} {v : β} (h : (k, v) ∈ m) :
    AMap.get? m k = some v := (mem_iff_get? hnd k v).mp h

/-- Values under one key are unique when keys are duplicate-free. -/
theorem mem_unique {m : AMap β} (hnd : (AMap.keys m).Nodup) {k : Bytes} {v v' : β}
    (h : (k, v) ∈ m) (h' : (k, v') ∈ m) : v = v' := by
  have := (mem_get? hnd h).symm.trans (mem_get? hnd h')
  exact Option.some.inj this

/-! ### `contains` -/

theorem contains_iff (m : AMap β) (k : Bytes) : AMap.contains m k = true ↔ k ∈ AMap.keys m :=
  get?_isSome_iff m k

theorem contains_iff_get? (m : AMap β) (k : Bytes) : AMap.contains m k = true ↔ ∃ v, AMap.get? m k = some v := by
  rw [contains_iff, mem_keys_iff_get?]

theorem contains_eq_false_iff (m : AMap β) (k : Bytes) : AMap.contains m k = false ↔ AMap.get? m k = none := by
  unfold AMap.contains; cases AMap.get? m k <;> simp

theorem contains_eq_false_iff_not_mem (m : AMap β) (k : Bytes) : AMap.contains m k = false ↔ k ∉ AMap.keys m := by
  rw [contains_eq_false_iff, get?_eq_none_iff]

/-! ### keys of `set` / `erase` -/

theorem keys_set_of_mem (m : AMap β) {k : Bytes} (v : β) (h : k ∈ AMap.keys m) :
    AMap.keys (AMap.set m k v) = AMap.keys m := TagsAux.keys_set_old m k v h

theorem keys_set_of_not_mem (m : AMap β) {k : Bytes} (v : β) (h : k ∉ AMap.keys m) :
    AMap.keys (AMap.set m k v) = AMap.keys m ++ [k] := TagsAux.keys_set_new m k v h

theorem mem_keys_set (m : AMap β) (k k' : Bytes) (v : β) :
    k' ∈ AMap.keys (AMap.set m k v) ↔ k' = k ∨ k' ∈ AMap.keys m := by
  by_cases h : k ∈ AMap.keys m
  · rw [keys_set_of_mem m v h]
    constructor
    · exact Or.inr
    · rintro (rfl | h')
      · exact h
      · exact h'
  · rw [keys_set_of_not_mem m v h, List.mem_append, List.mem_singleton]
    exact Or.comm

theorem keys_set_nodup {m : AMap β} (hnd : (AMap.keys m).Nodup) (k : Bytes) (v : β) :
    (AMap.keys (AMap.set m k v)).Nodup := by
  by_cases h : k ∈ AMap.keys m
  · rw [keys_set_of_mem m v h]; exact hnd
  · rw [keys_set_of_not_mem m v h, List.nodup_append]
    refine ⟨hnd, by simp, ?_⟩
    intro a ha b hb
    rw [List.mem_singleton] at hb
    subst hb
    intro e; subst e; exact h ha

theorem keys_erase (m : AMap β) (k : Bytes) :
    AMap.keys (AMap.erase m k) = (AMap.keys m).filter (fun a => a != k) := by
  induction m with
  | nil => rfl
  | cons p m ih =>
    obtain ⟨a, b⟩ := p
    rw [erase_cons, keys_cons, List.filter_cons]
    by_cases hak : a = k
    · subst hak; rw [if_pos rfl, ih]; simp
    · rw [if_neg hak, keys_cons, ih]; simp [hak]

theorem mem_keys_erase (m : AMap β) (k k' : Bytes) :
    k' ∈ AMap.keys (AMap.erase m k) ↔ k' ≠ k ∧ k' ∈ AMap.keys m := by
  rw [keys_erase, List.mem_filter]
  simp only [bne_iff_ne, ne_eq]
  exact And.comm

theorem keys_erase_nodup {m : AMap β} (hnd : (AMap.keys m).Nodup) (k : Bytes) :
    (AMap.keys (AMap.erase m k)).Nodup := by
  rw [keys_erase]; exact hnd.sublist List.filter_sublist

theorem erase_of_not_mem_keys {m : AMap β} {k : Bytes} (h : k ∉ AMap.keys m) : AMap.erase m k = m := by
  unfold AMap.erase
  rw [List.filter_eq_self]
  rintro ⟨a, b⟩ hp
  simp only [bne_iff_ne, ne_eq]
  intro e; subst e; exact h (mem_keys_of_mem hp)

/-! ### membership in `set` / `erase` -/

theorem mem_erase_iff (m : AMap β) (k k' : Bytes) (v' : β) :
    (k', v') ∈ AMap.erase m k ↔ k' ≠ k ∧ (k', v') ∈ m := by
  unfold AMap.erase
  rw [List.mem_filter]
  simp only [bne_iff_ne, ne_eq]
  exact And.comm

theorem mem_set_iff {m : AMap β} (hnd : (AMap.keys m).Nodup) (k k' : Bytes) (v v' : β) :
    (k', v') ∈ AMap.set m k v ↔ (k' = k ∧ v' = v) ∨ (k' ≠ k ∧ (k', v') ∈ m) := by
  rw [mem_iff_get? (keys_set_nodup hnd k v), get?_set, mem_iff_get? hnd]
  by_cases h : k' = k
  · rw [if_pos h]
    constructor
    · intro e; exact Or.inl ⟨h, (Option.some.inj e).symm⟩
    · rintro (⟨_, e⟩ | ⟨hne, _⟩)
      · rw [e]
      · exact absurd h hne
  · rw [if_neg h]
    constructor
    · intro e; exact Or.inr ⟨h, e⟩
    · rintro (⟨e, _⟩ | ⟨_, e⟩)
      · exact absurd e h
      · exact e

theorem mem_set_self {m : AMap β} (hnd : (AMap.keys m).Nodup) (k : Bytes) (v : β) : (k, v) ∈ AMap.set m k v :=
  (mem_set_iff hnd k k v v).mpr (Or.inl ⟨rfl, rfl⟩)

/-- No `Nodup` needed for this direction. -/
theorem mem_set_cases {m : AMap β} {k k' : Bytes} {v v' : β} (h : (k', v') ∈ AMap.set m k v) :
    (k', v') ∈ m ∨ (k' = k ∧ v' = v) := by
  rcases TagsAux.mem_set m k v (k', v') h with h | h
  · exact Or.inl h
  · cases h; exact Or.inr ⟨rfl, rfl⟩

/-- Two maps with duplicate-free keys and the same lookups have the same members. -/
theorem mem_congr_of_get? {m m' : AMap β} (hnd : (AMap.keys m).Nodup) (hnd' : (AMap.keys m').Nodup)
    (h : ∀ k, AMap.get? m' k = AMap.get? m k) (k : Bytes) (v : β) : (k, v) ∈ m' ↔ (k, v) ∈ m := by
  rw [mem_iff_get? hnd, mem_iff_get? hnd', h]

end Girc.Proofs.InvBase
