import Girc.Model.Event
namespace Girc.Proofs.ParseTotal
open Girc Girc.Model

/-- The index-faithful model (every Go slice/index expression checked) never faults, and computes
    exactly the list-functional parser. -/
theorem parseEventGo_eq (raw : Bytes) : parseEventGo raw = .ok (parseEvent raw) := by
  sorry

end Girc.Proofs.ParseTotal
