package main

import (
	"fmt"
	"strings"
	"time"

	"github.com/lrstanley/girc"
)

// C02, server-time: "a valid server-time tag becomes the event timestamp".
// The implementation (ParseEvent -> time.Parse with the library's layout) against the Lean model of that
// one layout (`stime`): same instant for everything the model accepts, the local receive time otherwise.
func init() {
	runners["servertime"] = func(c *Ctx, in map[string]string) {
		hin := hexIn(in)
		v := in["value"]
		before := time.Now()
		// (the value travels as a tag value: escape what the tag grammar reserves)
		esc := strings.NewReplacer("\\", "\\\\", " ", "\\s", ";", "\\:", "\r", "\\r", "\n", "\\n").Replace(v)
		e := girc.ParseEvent("@time=" + esc + " :srv PING x")
		after := time.Now()
		model := c.L.Call("stime", hx(v))
		if e == nil {
			c.R.Mismatch("servertime.nil", hin, "ParseEvent returned nil", model)
			return
		}
		ts := e.Timestamp
		local := !ts.Before(before.Add(-time.Second)) && !ts.After(after.Add(time.Second))
		impl := fmt.Sprintf("%d %d", ts.Unix(), ts.Nanosecond())
		switch {
		case model == "none":
			if !local {
				c.R.Mismatch("servertime.accepted", hin, "implementation took "+impl+" from a value the model rejects", model)
			}
		case impl != model:
			if in["wellformed"] == "1" {
				c.R.Violation("servertime.value", hin, impl, model, "a valid server-time tag (YYYY-MM-DDThh:mm:ss.sssZ) must become the event timestamp")
			} else {
				c.R.Mismatch("servertime.value", hin, impl, model)
			}
		}
	}
}

func (r *RNG) civilTime() (string, bool) {
	y := r.Pick([]string{"0000", "0001", "1582", "1600", "1699", "1900", "1969", "1970", "1999", "2000", "2001", "2004", "2023", "2024", "2038", "2100", "2400", "9999"})
	if r.Chance(40) {
		y = fmt.Sprintf("%04d", r.Intn(10000))
	}
	if y == fmt.Sprint(time.Now().Year()) {
		y = "2019" // keep clear of "now": a rejected value is recognised by the local receive time
	}
	mo := 1 + r.Intn(12)
	d := 1 + r.Intn(31)
	if r.Chance(30) {
		d = []int{28, 29, 30, 31}[r.Intn(4)]
	}
	h, mi, s, ms := r.Intn(24), r.Intn(60), r.Intn(60), r.Intn(1000)
	if r.Chance(10) {
		h, mi, s, ms = 23, 59, 59, 999
	}
	return fmt.Sprintf("%s-%02d-%02dT%02d:%02d:%02d.%03dZ", y, mo, d, h, mi, s, ms), true
}

func runServerTime(c *Ctx) {
	n := 3000 * c.Scale
	for i := 0; i < n; i++ {
		v, _ := c.Rng.civilTime()
		wf := "1" // grammatical; the calendar may still reject it (Feb 30): the model decides, both sides must agree
		if c.Rng.Chance(35) {
			wf = "0"
			b := []byte(v)
			switch c.Rng.Intn(12) {
			case 0:
				v = strings.Replace(v, ".", ",", 1)
			case 1:
				v = v[:len(v)-5] + "Z" // no fraction
			case 2:
				v = v[:len(v)-1] + fmt.Sprint(c.Rng.Intn(1000000)) + "Z" // longer fraction
			case 3:
				v = strings.Replace(v, "T0", "T", 1) // one-digit hour
			case 4:
				v = strings.ToLower(v)
			case 5:
				v = v[:len(v)-1] // no Z
			case 6:
				v = v + c.Rng.Pick([]string{" ", "Z", "+00:00", "x"})
			case 7:
				b[c.Rng.Intn(len(b))] = byte(c.Rng.Pick([]string{"-", ":", "T", ".", "9", "a", " ", "0"})[0])
				v = string(b)
			case 8:
				v = strings.Replace(v, "-", "-1", 1) // three-digit month
			case 9:
				v = v[:17] + "60" + v[19:] // leap second
			case 10:
				v = v[:11] + "24" + v[13:] // hour 24
			default:
				v = c.Rng.Pick([]string{"", "Z", "T", "2024", "2024-01-01", "2024-01-01T00:00:00", "2024-1-1T0:0:0Z", "20240101T000000Z", "2024-01-01t00:00:00z", "2024-01-01T00:00:00.Z", "2024-01-01T00:00:00.1234567891Z"})
			}
		}
		c.run("servertime", map[string]string{"value": v, "wellformed": wf})
		c.R.Count("time:"+v, true, "servertime:wf="+wf)
	}
}
