import Girc.Proofs.SimMain
import Girc.Proofs.ProtocolBAux
/-
  Auxiliary lemmas for SimWire: what the handlers inject, and how `ended` evolves.
-/
namespace Girc.Proofs.SimWireAux
open Girc Girc.Model Girc.Spec
open Girc.Proofs.InvHandlers Girc.Proofs.ProtocolBAux

/-! ### Only ERROR events are injected -/

/-- Every injected event of the output list is an ERROR. -/
def InjErr (outs : List Out) : Prop := ∀ x, Out.inject x ∈ outs → x.command = cERROR

theorem injErr_nil : InjErr [] := fun _ h => absurd h List.not_mem_nil

theorem injErr_cons {o : Out} {outs : List Out} (ho : ∀ x, o = Out.inject x → x.command = cERROR)
    (h : InjErr outs) : InjErr (o :: outs) := by
  intro x hx
  rcases List.mem_cons.mp hx with hx | hx
  · exact ho x hx.symm
  · exact h x hx

theorem injErr_write (e : Event) {outs : List Out} (h : InjErr outs) : InjErr (Out.write e :: outs) :=
  injErr_cons (fun _ hx => Out.noConfusion hx) h

theorem injErr_send (e : Event) {outs : List Out} (h : InjErr outs) : InjErr (Out.send e :: outs) :=
  injErr_cons (fun _ hx => Out.noConfusion hx) h

theorem injErr_close {outs : List Out} (h : InjErr outs) : InjErr (Out.close :: outs) :=
  injErr_cons (fun _ hx => Out.noConfusion hx) h

theorem injErr_inject (e : Event) (he : e.command = cERROR) {outs : List Out} (h : InjErr outs) :
    InjErr (Out.inject e :: outs) :=
  injErr_cons (fun x hx => by injection hx with hx; rw [← hx]; exact he) h

theorem injErr_append {a b : List Out} (ha : InjErr a) (hb : InjErr b) : InjErr (a ++ b) := by
  intro x hx
  rcases List.mem_append.mp hx with hx | hx
  · exact ha x hx
  · exact hb x hx

theorem injErr_ite {c : Prop} [Decidable c] {a b : List Out} (ha : InjErr a) (hb : InjErr b) :
    InjErr (if c then a else b) := by
  split
  · exact ha
  · exact hb

theorem ctcpCall_injErr (cfg : Cfg) (ev : CTCPEvent) (time idle : Bytes) : InjErr (ctcpCall cfg ev time idle) := by
  unfold ctcpCall ctcpReply
  extract_lets known
  refine injErr_ite (injErr_ite injErr_nil ?_) (injErr_ite injErr_nil ?_)
  · split
    · exact injErr_ite (injErr_send _ injErr_nil) injErr_nil
    · exact injErr_nil
  · split
    · exact injErr_nil
    · extract_lets to
      refine injErr_ite (injErr_send _ injErr_nil) ?_
      refine injErr_ite (injErr_send _ injErr_nil) ?_
      refine injErr_ite (injErr_send _ injErr_nil) ?_
      refine injErr_ite (injErr_send _ injErr_nil) ?_
      exact injErr_ite (injErr_send _ injErr_nil) (injErr_send _ injErr_nil)

theorem nickCollision_injErr (cfg : Cfg) (st : St) (e : Event) : InjErr (nickCollision cfg st e) := by
  unfold nickCollision
  extract_lets rejected nickEv
  split
  · exact injErr_send _ injErr_nil
  · exact injErr_ite injErr_nil (injErr_send _ injErr_nil)
  · exact injErr_nil
  · exact injErr_ite injErr_nil (injErr_send _ injErr_nil)

theorem handleSASL_injErr (cfg : Cfg) (cs : CState) (e : Event) : InjErr (handleSASL cfg cs e).2 := by
  unfold handleSASL
  split
  · exact injErr_write _ injErr_nil
  · split
    · exact injErr_nil
    · extract_lets auth cs1
      split
      · exact injErr_inject _ rfl injErr_nil
      · intro x hx
        obtain ⟨c, _, hc⟩ := List.mem_map.mp hx
        exact Out.noConfusion hc

theorem handleSASLError_injErr (cfg : Cfg) (e : Event) : InjErr (handleSASLError cfg e) := by
  unfold handleSASLError
  exact injErr_ite (injErr_write _ injErr_nil) (injErr_inject _ rfl injErr_nil)

theorem ackRes_injErr (cfg : Cfg) (st : St) (last : Bytes) : InjErr (ackRes cfg st last).2 := by
  rcases ackRes_cases cfg st last with ⟨s, _, h⟩ | ⟨v, _, _, _, h⟩ | ⟨v, _, _, _, h⟩
  · rw [h]
    rcases ackTail_snd cfg { st with enabledCap := capAck st.tmpCap st.enabledCap (splitOnByte SP last), sts := s } with h1 | ⟨m, _, h1⟩
    · rw [h1]; exact injErr_write _ injErr_nil
    · rw [h1]; exact injErr_write _ injErr_nil
  · rw [h]; exact injErr_inject _ rfl injErr_nil
  · rw [h]; exact injErr_close injErr_nil

theorem handleCAP_injErr (cfg : Cfg) (st : St) (e : Event) : InjErr (handleCAP cfg st e).2 := by
  rw [handleCAP_eq]
  split
  · exact injErr_nil
  · split
    · exact injErr_write _ injErr_nil
    · split
      · exact injErr_ite (injErr_ite (injErr_write _ injErr_nil) (injErr_write _ injErr_nil)) injErr_nil
      · split
        · exact ackRes_injErr cfg st e.last
        · exact injErr_nil

theorem bind_ok_inv {α β : Type} {m : M α} {f : α → M β} {b : β} (h : (m >>= f) = .ok b) :
    ∃ a, m = .ok a ∧ f a = .ok b := by
  cases m with
  | error e => cases h
  | ok a => exact ⟨a, rfl, h⟩

theorem joinC_injErr (cfg : Cfg) (params : List Bytes) (src : Source) (channelName : Bytes)
    (channel : Channel) (user : User) (st : St) (s : St) (o : List Out) :
    InvJoin.joinC cfg params src channelName channel user st = .ok (s, o) → InjErr o := by
  unfold InvJoin.joinC
  extract_lets channel1 user1 user2 st1 st2
  split
  · intro h
    injection h with h; injection h with _ h
    rw [← h]
    exact injErr_send _ (injErr_send _ injErr_nil)
  · intro h
    injection h with h; injection h with _ h
    rw [← h]
    exact injErr_send _ injErr_nil

theorem handleJOIN_injErr (cfg : Cfg) (st : St) (e : Event) (s : St) (o : List Out)
    (h : handleJOIN cfg st e = .ok (s, o)) : InjErr o := by
  unfold handleJOIN at h
  split at h
  · rename_i src channelName tail hsrc hparams
    change InvJoin.joinA cfg e.params src channelName (InvJoin.ensureChannel st channelName) = .ok (s, o) at h
    unfold InvJoin.joinA at h
    obtain ⟨channel, _, h⟩ := bind_ok_inv h
    unfold InvJoin.joinB at h
    obtain ⟨user, _, h⟩ := bind_ok_inv h
    exact joinC_injErr _ _ _ _ _ _ _ _ _ h
  · injection h with h; injection h with _ h
    rw [← h]
    exact injErr_nil

/-- "whatever it returns, only ERROR events are injected" for the dispatcher's result type. -/
def InjC (m : M (CState × List Out)) : Prop := ∀ cs' outs, m = .ok (cs', outs) → InjErr outs

theorem injC_ite {c : Prop} [Decidable c] {a b : M (CState × List Out)}
    (ha : c → InjC a) (hb : ¬c → InjC b) : InjC (if c then a else b) := by
  by_cases hc : c
  · rw [if_pos hc]; exact ha hc
  · rw [if_neg hc]; exact hb hc

theorem handleCommand_injErr (cfg : Cfg) (cs : CState) (e : Event) : InjC (handleCommand cfg cs e) := by
  unfold handleCommand
  extract_lets st ret c
  have hret : ∀ (s : St) (o : List Out), InjErr o → InjC (ret s o) := by
    intro s o ho cs' outs h
    injection h with h; injection h with _ h
    rw [← h]; exact ho
  have hbind : ∀ (m : M St), InjC (m >>= fun x => ret x []) := by
    intro m
    cases m with
    | error f => intro cs' outs h; cases h
    | ok s => exact hret s [] injErr_nil
  clear_value ret
  refine injC_ite (fun _ => hret _ _ (injErr_write _ injErr_nil)) fun _ => ?_
  refine injC_ite (fun _ => hret _ _ injErr_nil) fun _ => ?_
  refine injC_ite (fun _ => hret _ _ (nickCollision_injErr cfg st e)) fun _ => ?_
  refine injC_ite (fun _ => hret _ _ injErr_nil) fun _ => ?_
  refine injC_ite (fun _ => ?_) fun _ => ?_
  · cases hj : handleJOIN cfg st e with
    | error f => intro cs' outs h; cases h
    | ok so =>
      obtain ⟨s, o⟩ := so
      exact hret s o (handleJOIN_injErr cfg st e s o hj)
  refine injC_ite (fun _ => hbind _) fun _ => ?_
  refine injC_ite (fun _ => hbind _) fun _ => ?_
  refine injC_ite (fun _ => hbind _) fun _ => ?_
  refine injC_ite (fun _ => hbind _) fun _ => ?_
  refine injC_ite (fun _ => hbind _) fun _ => ?_
  refine injC_ite (fun _ => hbind _) fun _ => ?_
  refine injC_ite (fun _ => hbind _) fun _ => ?_
  refine injC_ite (fun _ => hbind _) fun _ => ?_
  refine injC_ite (fun _ => hbind _) fun _ => ?_
  refine injC_ite (fun _ => hret _ _ injErr_nil) fun _ => ?_
  refine injC_ite (fun _ => hret _ _ injErr_nil) fun _ => ?_
  refine injC_ite (fun _ => ?_) fun _ => ?_
  · have hc := handleCAP_injErr cfg st e
    rcases hr : handleCAP cfg st e with ⟨s, o⟩
    rw [hr] at hc
    exact hret s o hc
  refine injC_ite (fun _ => hret _ _ injErr_nil) fun _ => ?_
  refine injC_ite (fun _ => hret _ _ injErr_nil) fun _ => ?_
  refine injC_ite (fun _ => hret _ _ injErr_nil) fun _ => ?_
  refine injC_ite (fun _ => ?_) fun _ => ?_
  · have hc := handleSASL_injErr cfg cs e
    rcases hr : handleSASL cfg cs e with ⟨cs1, o⟩
    rw [hr] at hc
    intro cs' outs h
    injection h with h; injection h with _ h
    rw [← h]; exact hc
  exact injC_ite (fun _ => hret _ _ (handleSASLError_injErr cfg e)) fun _ => hret _ _ injErr_nil

theorem handleEvent_injErr (cfg : Cfg) (cs : CState) (e : Event) (time idle : Bytes) (cs' : CState) (outs : List Out)
    (h : handleEvent cfg cs e time idle = .ok (cs', outs)) : InjErr outs := by
  unfold handleEvent at h
  extract_lets echo cs1 ctcp jp at h
  have hctcp : InjErr ctcp := by
    unfold ctcp
    split
    · exact ctcpCall_injErr cfg _ time idle
    · exact injErr_nil
  have hjp : ∀ x : CState × List Out, InjErr x.2 → jp x = .ok (cs', outs) → InjErr outs := by
    intro ⟨c1, o1⟩ hx hj
    injection hj with hj; injection hj with _ hj
    rw [← hj]
    exact injErr_append hx hctcp
  clear_value jp cs1 ctcp
  split at h
  · exact hjp _ injErr_nil h
  · cases hc : handleCommand cfg cs1 e with
    | error f => rw [hc] at h; cases h
    | ok co =>
      rw [hc] at h
      exact hjp co (handleCommand_injErr cfg cs1 e co.1 co.2 hc) h

/-! ### `ended` only moves away from `.running` -/

theorem applyOuts_running (cfg : Cfg) (isURL : Bytes → Bool) : ∀ (outs : List Out) (r : Run),
    (applyOuts cfg isURL r outs).1.ended = .running → r.ended = .running
  | [], _, h => h
  | o :: rest, r, h => by
    cases o with
    | write e =>
      simp only [applyOuts] at h
      exact applyOuts_running cfg isURL rest { r with written := r.written ++ [e] } h
    | send e =>
      simp only [applyOuts] at h
      exact applyOuts_running cfg isURL rest { r with written := r.written ++ sendPieces cfg isURL r.cs.st e } h
    | inject e =>
      simp only [applyOuts] at h
      exact applyOuts_running cfg isURL rest r h
    | close =>
      simp only [applyOuts] at h
      exfalso
      split at h
      · cases h
      · next hn => exact hn h

/-- Everything `applyOuts` hands back for the receive queue was injected by the handlers. -/
theorem applyOuts_inj (cfg : Cfg) (isURL : Bytes → Bool) : ∀ (outs : List Out) (r : Run),
    ∀ x ∈ (applyOuts cfg isURL r outs).2, Out.inject x ∈ outs
  | [], _, x, h => absurd h List.not_mem_nil
  | o :: rest, r, x, h => by
    cases o with
    | write e =>
      simp only [applyOuts] at h
      exact List.mem_cons_of_mem _ (applyOuts_inj cfg isURL rest _ x h)
    | send e =>
      simp only [applyOuts] at h
      exact List.mem_cons_of_mem _ (applyOuts_inj cfg isURL rest _ x h)
    | inject e =>
      simp only [applyOuts] at h
      rcases List.mem_cons.mp h with h | h
      · rw [h]; exact List.mem_cons_self
      · exact List.mem_cons_of_mem _ (applyOuts_inj cfg isURL rest _ x h)
    | close =>
      simp only [applyOuts] at h
      exact List.mem_cons_of_mem _ (applyOuts_inj cfg isURL rest _ x h)

/-- One event that leaves the run running: the run was running, the event is no ERROR, the client state
    is the handlers' result, and everything injected is an ERROR. -/
theorem stepEvent_running (cfg : Cfg) (r : Run) (e : Event) (time idle : Bytes) (isURL : Bytes → Bool)
    (r' : Run) (inj : List Event) (h : stepEvent cfg r e time idle isURL = .ok (r', inj))
    (hr : r'.ended = .running) :
    r.ended = .running ∧ e.command ≠ cERROR ∧ (∃ outs, handleEvent cfg r.cs e time idle = .ok (r'.cs, outs)) ∧
      ∀ x ∈ inj, x.command = cERROR := by
  unfold stepEvent at h
  cases hc : handleEvent cfg r.cs e time idle with
  | error f => rw [hc] at h; cases h
  | ok co =>
    obtain ⟨cs', outs⟩ := co
    rw [hc, ok_bind] at h
    dsimp only at h
    have ha : (applyOuts cfg isURL { r with cs := cs' } outs).1.cs = cs' := applyOuts_cs cfg isURL outs _
    have hm := applyOuts_running cfg isURL outs { r with cs := cs' }
    have hi := applyOuts_inj cfg isURL outs { r with cs := cs' }
    have hie := handleEvent_injErr cfg r.cs e time idle cs' outs hc
    injection h with h
    injection h with h1 h2
    subst h2
    split at h1
    · next hcond =>
      subst h1
      cases hr
    · next hcond =>
      subst h1
      have hrun := hm hr
      refine ⟨hrun, ?_, ⟨outs, by rw [ha]⟩, fun x hx => hie x (hi x hx)⟩
      intro hce
      apply hcond
      simp [hce, hr]

theorem stepAll_running (cfg : Cfg) (isURL : Bytes → Bool) : ∀ (fuel : Nat) (r : Run) (queue : List Event) (r' : Run),
    stepAll cfg isURL fuel r queue = .ok r' → r'.ended = .running → r.ended = .running
  | 0, r, [], r', h, hr => by injection h with h; rw [h]; exact hr
  | 0, r, _ :: _, r', h, hr => by injection h with h; rw [h]; exact hr
  | _ + 1, r, [], r', h, hr => by injection h with h; rw [h]; exact hr
  | fuel + 1, r, e :: queue, r', h, hr => by
    unfold stepAll at h
    split at h
    · injection h with h; rw [h]; exact hr
    · cases hs : stepEvent cfg r e [] [] isURL with
      | error f => rw [hs] at h; cases h
      | ok ri =>
        obtain ⟨r1, inj⟩ := ri
        rw [hs, ok_bind] at h
        have h1 := stepAll_running cfg isURL fuel r1 (queue ++ inj) r' h hr
        exact (stepEvent_running cfg r e [] [] isURL r1 inj hs h1).1

/-- With fuel left, an ERROR at the head of the queue ends the run (if it has not ended before). -/
theorem stepAll_error_head (cfg : Cfg) (isURL : Bytes → Bool) (fuel : Nat) (r : Run) (x : Event) (queue : List Event)
    (r' : Run) (h : stepAll cfg isURL (fuel + 1) r (x :: queue) = .ok r') (hx : x.command = cERROR) :
    r'.ended ≠ .running := by
  intro hr
  unfold stepAll at h
  split at h
  · next hne => injection h with h; rw [h] at hne; exact hne hr
  · cases hs : stepEvent cfg r x [] [] isURL with
    | error f => rw [hs] at h; cases h
    | ok ri =>
      obtain ⟨r1, inj⟩ := ri
      rw [hs, ok_bind] at h
      have h1 := stepAll_running cfg isURL fuel r1 (queue ++ inj) r' h hr
      exact (stepEvent_running cfg r x [] [] isURL r1 inj hs h1).2.1 hx

/-- One event and its injection chain, leaving the run running: nothing was injected, and the client
    state is the handlers' result for that event. -/
theorem stepAll_single (cfg : Cfg) (isURL : Bytes → Bool) (fuel : Nat) (r r' : Run) (e : Event)
    (h : stepAll cfg isURL (fuel + 2) r [e] = .ok r') (hr : r'.ended = .running) :
    r.ended = .running ∧ ∃ outs, handleEvent cfg r.cs e [] [] = .ok (r'.cs, outs) := by
  have hrun := stepAll_running cfg isURL (fuel + 2) r [e] r' h hr
  refine ⟨hrun, ?_⟩
  unfold stepAll at h
  rw [if_neg (by simp [hrun])] at h
  cases hs : stepEvent cfg r e [] [] isURL with
  | error f => rw [hs] at h; cases h
  | ok ri =>
    obtain ⟨r1, inj⟩ := ri
    rw [hs, ok_bind] at h
    have h1 := stepAll_running cfg isURL (fuel + 1) r1 ([] ++ inj) r' h hr
    obtain ⟨_, _, hout, hinj⟩ := stepEvent_running cfg r e [] [] isURL r1 inj hs h1
    cases inj with
    | nil =>
      have : r' = r1 := by
        unfold stepAll at h
        injection h with h
        exact h.symm
      rw [this]
      exact hout
    | cons x q =>
      exact absurd hr (stepAll_error_head cfg isURL fuel r1 x q r' h (hinj x List.mem_cons_self))

end Girc.Proofs.SimWireAux
