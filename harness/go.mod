module verifharness

go 1.18

require github.com/lrstanley/girc v0.0.0

replace github.com/lrstanley/girc => /repo
