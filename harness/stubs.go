package main

// replaced as the session harness (shape 2/3) grows
func runC14Replies(c *Ctx)  {}
func runC09Protocol(c *Ctx) {}
func runC16Timing(c *Ctx)   {}
