import Girc.Proofs.InvDelete
/-
  Auxiliary lemmas for `renameUser_inv`: `replaceFirst` on duplicate-free lists, the loop of
  `renameUser` over the channel list, what `deleteUser "" nick` does to the users map, and the
  preservation of the lookup-form invariant by the "move user to a new key" step.
-/
namespace Girc.Proofs.InvRename
open Girc Girc.Model Girc.Spec Girc.Proofs.InvBase

/-! ### `replaceFirst` -/

theorem replaceFirst_nil (a b : Bytes) : replaceFirst [] a b = [] := rfl

theorem replaceFirst_cons (x : Bytes) (xs : List Bytes) (a b : Bytes) :
    replaceFirst (x :: xs) a b = if x = a then b :: xs else x :: replaceFirst xs a b := rfl

/-- Membership after the replacement (no assumption on the list). -/
theorem mem_replaceFirst_imp {l : List Bytes} {a b x : Bytes} (h : x ∈ replaceFirst l a b) :
    x = b ∨ x ∈ l := by
  induction l with
  | nil => cases h
  | cons y ys ih =>
    rw [replaceFirst_cons] at h
    by_cases hy : y = a
    · rw [if_pos hy] at h
      rcases List.mem_cons.mp h with e | hm
      · exact Or.inl e
      · exact Or.inr (List.mem_cons_of_mem _ hm)
    · rw [if_neg hy] at h
      rcases List.mem_cons.mp h with e | hm
      · exact Or.inr (e ▸ List.mem_cons_self)
      · rcases ih hm with e | hm'
        · exact Or.inl e
        · exact Or.inr (List.mem_cons_of_mem _ hm')

/-- Exact membership on a duplicate-free list containing the replaced element. -/
theorem mem_replaceFirst {l : List Bytes} (hnd : l.Nodup) {a : Bytes} (ha : a ∈ l) (b x : Bytes) :
    x ∈ replaceFirst l a b ↔ x = b ∨ (x ≠ a ∧ x ∈ l) := by
  induction l with
  | nil => cases ha
  | cons y ys ih =>
    obtain ⟨hy, hys⟩ := List.nodup_cons.mp hnd
    rw [replaceFirst_cons]
    by_cases hya : y = a
    · subst hya
      rw [if_pos rfl, List.mem_cons, List.mem_cons]
      constructor
      · rintro (e | hm)
        · exact Or.inl e
        · exact Or.inr ⟨fun e => hy (e ▸ hm), Or.inr hm⟩
      · rintro (e | ⟨hne, e | hm⟩)
        · exact Or.inl e
        · exact absurd e hne
        · exact Or.inr hm
    · rw [if_neg hya]
      have ha' : a ∈ ys := by
        rcases List.mem_cons.mp ha with e | hm
        · exact absurd e.symm hya
        · exact hm
      rw [List.mem_cons, ih hys ha', List.mem_cons]
      constructor
      · rintro (e | e | ⟨hne, hm⟩)
        · exact Or.inr ⟨e ▸ hya, Or.inl e⟩
        · exact Or.inl e
        · exact Or.inr ⟨hne, Or.inr hm⟩
      · rintro (e | ⟨hne, e | hm⟩)
        · exact Or.inr (Or.inl e)
        · exact Or.inl e
        · exact Or.inr (Or.inr ⟨hne, hm⟩)

/-- The replacement keeps the list duplicate-free when the new element is the old one or fresh. -/
theorem nodup_replaceFirst {l : List Bytes} (hnd : l.Nodup) {a b : Bytes} (hb : b = a ∨ b ∉ l) :
    (replaceFirst l a b).Nodup := by
  induction l with
  | nil => exact List.nodup_nil
  | cons y ys ih =>
    obtain ⟨hy, hys⟩ := List.nodup_cons.mp hnd
    rw [replaceFirst_cons]
    by_cases hya : y = a
    · subst hya
      rw [if_pos rfl, List.nodup_cons]
      refine ⟨?_, hys⟩
      rcases hb with e | hb
      · rw [e]; exact hy
      · exact fun hm => hb (List.mem_cons_of_mem _ hm)
    · rw [if_neg hya, List.nodup_cons]
      have hb' : b = a ∨ b ∉ ys := by
        rcases hb with e | hb
        · exact Or.inl e
        · exact Or.inr (fun hm => hb (List.mem_cons_of_mem _ hm))
      refine ⟨?_, ih hys hb'⟩
      intro hm
      rcases mem_replaceFirst_imp hm with e | hm'
      · rcases hb with e' | hb
        · exact hya (e.trans e')
        · exact hb (e ▸ List.mem_cons_self)
      · exact hy hm'

/-! ### The renamed user list of one channel -/

/-- What one iteration of the `renameUser` loop does to a channel. -/
def renameChan (from_ to : Bytes) (ch : Channel) : Channel :=
  if ch.users.contains from_ then { ch with users := sortBytes (replaceFirst ch.users from_ (fold to)) } else ch

theorem renameChan_name (from_ to : Bytes) (ch : Channel) : (renameChan from_ to ch).name = ch.name := by
  unfold renameChan; split <;> rfl

theorem renameChan_users_of_mem {from_ : Bytes} (to : Bytes) {ch : Channel} (h : from_ ∈ ch.users) :
    (renameChan from_ to ch).users = sortBytes (replaceFirst ch.users from_ (fold to)) := by
  unfold renameChan
  rw [if_pos ((list_contains_iff_mem _ _).mpr h)]

theorem renameChan_of_not_mem {from_ : Bytes} (to : Bytes) {ch : Channel} (h : from_ ∉ ch.users) :
    renameChan from_ to ch = ch := by
  unfold renameChan
  rw [if_neg (by rw [list_contains_iff_mem]; exact h)]

/-! ### The loop of `renameUser` -/

theorem renameLoop_nil (from_ to : Bytes) (cs : AMap Channel) : renameLoop from_ to [] cs = .ok cs := rfl

theorem renameLoop_cons_some (from_ to c : Bytes) (rest : List Bytes) (cs : AMap Channel) (ch : Channel)
    (h : AMap.get? cs c = some ch) :
    renameLoop from_ to (c :: rest) cs = renameLoop from_ to rest (AMap.set cs c (renameChan from_ to ch)) := by
  rw [renameLoop, h]
  rfl

/-- The loop never faults when every listed channel exists, keeps the key list, and applies
    `renameChan` exactly to the listed channels. -/
theorem renameLoop_spec (from_ to : Bytes) (l : List Bytes) :
    ∀ cs : AMap Channel, l.Nodup → (∀ c ∈ l, ∃ ch, AMap.get? cs c = some ch) →
      ∃ cs', renameLoop from_ to l cs = .ok cs' ∧ AMap.keys cs' = AMap.keys cs ∧
        ∀ k, AMap.get? cs' k = if k ∈ l then (AMap.get? cs k).map (renameChan from_ to) else AMap.get? cs k := by
  induction l with
  | nil =>
    intro cs _ _
    exact ⟨cs, rfl, rfl, fun k => by simp⟩
  | cons c rest ih =>
    intro cs hnd hex
    obtain ⟨hc, hrest⟩ := List.nodup_cons.mp hnd
    obtain ⟨ch, hch⟩ := hex c List.mem_cons_self
    have hex' : ∀ c' ∈ rest, ∃ ch', AMap.get? (AMap.set cs c (renameChan from_ to ch)) c' = some ch' := by
      intro c' hc'
      have hne : c' ≠ c := fun e => hc (e ▸ hc')
      rw [get?_set_ne _ _ hne]
      exact hex c' (List.mem_cons_of_mem _ hc')
    obtain ⟨cs', hrun, hkeys, hget⟩ := ih (AMap.set cs c (renameChan from_ to ch)) hrest hex'
    refine ⟨cs', ?_, ?_, ?_⟩
    · rw [renameLoop_cons_some _ _ _ _ _ _ hch]; exact hrun
    · rw [hkeys]; exact keys_set_of_mem cs _ (get?_some_mem_keys hch)
    · intro k
      rw [hget k]
      by_cases hkc : k = c
      · subst hkc
        rw [if_neg hc, if_pos List.mem_cons_self, get?_set_self, hch]; rfl
      · rw [get?_set_ne _ _ hkc]
        by_cases hk : k ∈ rest
        · rw [if_pos hk, if_pos (List.mem_cons_of_mem _ hk)]
        · rw [if_neg hk, if_neg (by intro hm; rcases List.mem_cons.mp hm with e | hm; exact hkc e; exact hk hm)]

/-! ### What `deleteUser "" nick` does to the users map -/

/-- Whenever `deleteUser "" nick` succeeds, the resulting users map is the old one without the key
    `fold nick` (stated on lookups, which also covers the "unknown nick" case). -/
theorem deleteUser_nil_users {st st' : St} {nick : Bytes} (h : st.deleteUser [] nick = .ok st') :
    ∀ n, AMap.get? st'.users n = if n = fold nick then none else AMap.get? st.users n := by
  intro n
  unfold St.deleteUser at h
  cases hl : st.lookupUser nick with
  | none =>
    rw [hl] at h
    cases h
    by_cases hn : n = fold nick
    · rw [if_pos hn, hn]; exact hl
    · rw [if_neg hn]
  | some user =>
    rw [hl] at h
    simp only [if_true] at h
    cases hloop : deleteUserLoop nick user.chans st.channels with
    | error e => rw [hloop] at h; cases h
    | ok cs =>
      rw [hloop] at h
      cases h
      exact get?_erase st.users (fold nick) n

/-! ### Moving a user to a new key -/

/-- The core step of `renameUser` in lookup form: the user stored under `from_` moves to the key
    `fold to` (which is either the same key or unused), and `renameChan` is applied to exactly the
    channels the user lists. -/
theorem invL_rename {cs cs' : AMap Channel} {us : AMap User} (h : InvL cs us) {from_ to : Bytes} {user : User}
    (hu : AMap.get? us from_ = some user)
    (ht : fold to = from_ ∨ AMap.get? us (fold to) = none)
    (hkeys : AMap.keys cs' = AMap.keys cs)
    (hget : ∀ k, AMap.get? cs' k =
      if k ∈ user.chans then (AMap.get? cs k).map (renameChan from_ to) else AMap.get? cs k) :
    InvL cs' (AMap.set (AMap.erase us from_) (fold to) { user with nick := to }) := by
  -- lookups in the new users map
  have hus : ∀ n, AMap.get? (AMap.set (AMap.erase us from_) (fold to) { user with nick := to }) n =
      if n = fold to then some { user with nick := to } else if n = from_ then none else AMap.get? us n := by
    intro n; rw [get?_set, get?_erase]
  -- the new key is unused by anybody else
  have hfree : ∀ n u, AMap.get? us n = some u → n = fold to → n = from_ := by
    intro n u hn e
    rcases ht with ht | ht
    · exact e.trans ht
    · rw [e, ht] at hn; cases hn
  -- characterisation of the new channels in terms of the old ones
  have hchan : ∀ k ch, AMap.get? cs k = some ch →
      ∃ ch', AMap.get? cs' k = some ch' ∧ ch'.name = ch.name ∧ sortedStrict ch'.users = true ∧
        ∀ x, x ∈ ch'.users ↔ (x = fold to ∧ k ∈ user.chans) ∨ (x ≠ from_ ∧ x ∈ ch.users) := by
    intro k ch hk
    have hmem : from_ ∈ ch.users ↔ k ∈ user.chans := h.mem_users_iff_mem_chans hk hu
    have hsorted := (h.chanSorted k ch hk).1
    by_cases hkc : k ∈ user.chans
    · have hfrom : from_ ∈ ch.users := hmem.mpr hkc
      refine ⟨renameChan from_ to ch, ?_, renameChan_name _ _ _, ?_, ?_⟩
      · rw [hget k, if_pos hkc, hk]; rfl
      · rw [renameChan_users_of_mem to hfrom]
        apply sortedStrict_sortBytes
        apply nodup_replaceFirst (sortedStrict_nodup hsorted)
        rcases ht with ht | ht
        · exact Or.inl ht
        · refine Or.inr (fun hm => ?_)
          obtain ⟨u, hu', _⟩ := h.chanToUser k ch hk _ hm
          rw [ht] at hu'; cases hu'
      · intro x
        rw [renameChan_users_of_mem to hfrom, mem_sortBytes,
          mem_replaceFirst (sortedStrict_nodup hsorted) hfrom]
        constructor
        · rintro (e | hx)
          · exact Or.inl ⟨e, hkc⟩
          · exact Or.inr hx
        · rintro (⟨e, _⟩ | hx)
          · exact Or.inl e
          · exact Or.inr hx
    · have hfrom : from_ ∉ ch.users := fun hm => hkc (hmem.mp hm)
      refine ⟨ch, ?_, rfl, hsorted, ?_⟩
      · rw [hget k, if_neg hkc, hk]
      · intro x
        constructor
        · intro hx; exact Or.inr ⟨fun e => hfrom (e ▸ hx), hx⟩
        · rintro (⟨_, hk'⟩ | ⟨_, hx⟩)
          · exact absurd hk' hkc
          · exact hx
  have hchan' : ∀ k ch', AMap.get? cs' k = some ch' →
      ∃ ch, AMap.get? cs k = some ch ∧ ch'.name = ch.name ∧ sortedStrict ch'.users = true ∧
        ∀ x, x ∈ ch'.users ↔ (x = fold to ∧ k ∈ user.chans) ∨ (x ≠ from_ ∧ x ∈ ch.users) := by
    intro k ch' hk'
    have hkmem : k ∈ AMap.keys cs := hkeys ▸ get?_some_mem_keys hk'
    obtain ⟨ch, hch⟩ := (mem_keys_iff_get? cs k).mp hkmem
    obtain ⟨ch'', hch'', hrest⟩ := hchan k ch hch
    rw [hk'] at hch''; cases hch''
    exact ⟨ch, hch, hrest⟩
  have huser : ∀ n u, AMap.get? (AMap.set (AMap.erase us from_) (fold to) { user with nick := to }) n = some u →
      (n = fold to ∧ u = { user with nick := to }) ∨ (n ≠ fold to ∧ n ≠ from_ ∧ AMap.get? us n = some u) := by
    intro n u hn
    rw [hus] at hn
    by_cases e1 : n = fold to
    · rw [if_pos e1] at hn; cases hn; exact Or.inl ⟨e1, rfl⟩
    · rw [if_neg e1] at hn
      by_cases e2 : n = from_
      · rw [if_pos e2] at hn; cases hn
      · rw [if_neg e2] at hn; exact Or.inr ⟨e1, e2, hn⟩
  exact {
    chanKeys := hkeys ▸ h.chanKeys
    userKeys := keys_set_nodup (keys_erase_nodup h.userKeys from_) _ _
    chanKey := fun k ch' hk' => by
      obtain ⟨ch, hch, hname, _⟩ := hchan' k ch' hk'
      rw [hname]; exact h.chanKey k ch hch
    userKey := fun n u hn => by
      rcases huser n u hn with ⟨e, rfl⟩ | ⟨_, _, hn'⟩
      · exact e
      · exact h.userKey n u hn'
    chanToUser := fun k ch' hk' x hx => by
      obtain ⟨ch, hch, _, _, hmem⟩ := hchan' k ch' hk'
      rcases (hmem x).mp hx with ⟨e, hkc⟩ | ⟨hne, hx'⟩
      · refine ⟨{ user with nick := to }, ?_, hkc⟩
        rw [hus, if_pos e]
      · obtain ⟨u, hu', hku⟩ := h.chanToUser k ch hch x hx'
        refine ⟨u, ?_, hku⟩
        have hxt : x ≠ fold to := fun e => hne (hfree x u hu' e)
        rw [hus, if_neg hxt, if_neg hne]; exact hu'
    userToChan := fun n u hn k hk => by
      rcases huser n u hn with ⟨e, rfl⟩ | ⟨_, hnf, hn'⟩
      · obtain ⟨ch, hch, _⟩ := h.userToChan from_ user hu k hk
        obtain ⟨ch', hch', _, _, hmem⟩ := hchan k ch hch
        exact ⟨ch', hch', (hmem n).mpr (Or.inl ⟨e, hk⟩)⟩
      · obtain ⟨ch, hch, hnc⟩ := h.userToChan n u hn' k hk
        obtain ⟨ch', hch', _, _, hmem⟩ := hchan k ch hch
        exact ⟨ch', hch', (hmem n).mpr (Or.inr ⟨hnf, hnc⟩)⟩
    chanSorted := fun k ch' hk' => by
      obtain ⟨ch, hch, _, hs, hmem⟩ := hchan' k ch' hk'
      refine ⟨hs, (folded_iff _).mpr ?_⟩
      intro x hx
      rcases (hmem x).mp hx with ⟨e, _⟩ | ⟨_, hx'⟩
      · rw [e]; exact fold_idem to
      · exact folded_mem (h.chanSorted k ch hch).2 hx'
    userSorted := fun n u hn => by
      rcases huser n u hn with ⟨_, rfl⟩ | ⟨_, _, hn'⟩
      · exact h.userSorted from_ user hu
      · exact h.userSorted n u hn'
    userHasChan := fun n u hn => by
      rcases huser n u hn with ⟨_, rfl⟩ | ⟨_, _, hn'⟩
      · exact h.userHasChan from_ user hu
      · exact h.userHasChan n u hn' }

/-- The tail of `renameUser` (after the stale-user removal) on a consistent state. -/
theorem rename_tail {s : St} (h : Inv s) {from_ to : Bytes} {user : User}
    (hu : AMap.get? s.users from_ = some user)
    (ht : fold to = from_ ∨ AMap.get? s.users (fold to) = none) :
    ∃ cs', renameLoop from_ to user.chans s.channels = .ok cs' ∧
      InvL cs' (AMap.set (AMap.erase s.users from_) (fold to) { user with nick := to }) := by
  have hL := h.toInvL
  have hex : ∀ c ∈ user.chans, ∃ ch, AMap.get? s.channels c = some ch := by
    intro c hc
    obtain ⟨ch, hch, _⟩ := hL.userToChan from_ user hu c hc
    exact ⟨ch, hch⟩
  obtain ⟨cs', hrun, hkeys, hget⟩ := renameLoop_spec from_ to user.chans s.channels (hL.chans_nodup hu) hex
  exact ⟨cs', hrun, invL_rename hL hu ht hkeys hget⟩

end Girc.Proofs.InvRename
