import Girc.Spec.Conformant
import Girc.Spec.Inv
/-
  C04: the simulation relation between the implementation model's state and the reference tracker,
  stated extensionally (same keys, same attributes, same membership), and the event-level run.
-/
namespace Girc.Spec
open Girc Girc.Model

/-- A channel's attributes as the reference model keeps them. -/
def chanView (ch : Channel) : RChan :=
  { name := ch.name, topic := ch.topic, chanmodes := ch.modes.raw, prefixModes := ch.modes.prefixes,
    modes := ch.modes.modes.map fun m => (m.name, m.args) }

def userView (u : User) : RUser :=
  { nick := u.nick, ident := u.ident, host := u.host, realname := u.name, account := u.account, away := u.away }

/-- Well-formedness of the mode list the implementation keeps: entries are settings that are on, and
    the four class strings are the split of the raw CHANMODES string. -/
def modesWF (m : CModes) : Prop :=
  (∀ x ∈ m.modes, x.add = true ∧ x.setting = true) ∧
  (m.listArgs, m.argsM, m.setArgs, m.noArgs) = splitN4 m.raw

structure Sim (st : St) (r : Ref) : Prop where
  inv : Inv st
  nick : st.nick = r.me
  ident : st.ident = r.myIdent
  host : st.host = r.myHost
  motd : st.motd = r.motd
  maxLine : st.maxLineLength = r.maxLine
  maxPrefix : st.maxPrefixLength = r.maxPrefix
  opts : ∀ k, AMap.get? st.serverOptions k = AMap.get? r.options k
  chans : ∀ k, (AMap.get? st.channels k).map chanView = AMap.get? r.chans k
  chanModesWF : ∀ k ch, AMap.get? st.channels k = some ch → modesWF ch.modes
  users : ∀ n, (AMap.get? st.users n).map userView = AMap.get? r.users n
  /-- membership agrees, in both directions -/
  members : ∀ k ch, AMap.get? st.channels k = some ch → ∀ n, n ∈ ch.users ↔ (k, n) ∈ r.members
  membersKnown : ∀ k n, (k, n) ∈ r.members → AMap.contains r.chans k = true ∧ AMap.contains r.users n = true
  membersNodup : r.members.Nodup
  /-- privileges agree for every membership -/
  perms : ∀ k n u, (k, n) ∈ r.members → AMap.get? st.users n = some u →
            (AMap.get? u.perms k).getD {} = r.getPerms k n
  /-- privilege records exist only for known users -/
  permsKnown : ∀ p, p ∈ r.perms → AMap.contains r.users p.1.2 = true
  chanKeysNodup : (AMap.keys r.chans).Nodup
  userKeysNodup : (AMap.keys r.users).Nodup
  /-- no channel is tracked under the empty name (KICK with an empty channel would mean QUIT) -/
  chanKeysNonempty : ∀ k, AMap.contains r.chans k = true → k ≠ []

/-- Executable version of `Sim`, used by the correspondence check to test the relation on real histories
    (quantifiers range over the keys present on either side). Returns the first clause that fails. -/
def simWhy (st : St) (r : Ref) : Option String :=
  let ck := AMap.keys st.channels ++ AMap.keys r.chans
  let uk := AMap.keys st.users ++ AMap.keys r.users
  let ok := AMap.keys st.serverOptions ++ AMap.keys r.options
  if !invB st then some "inv"
  else if st.nick ≠ r.me || st.ident ≠ r.myIdent || st.host ≠ r.myHost then some "me"
  else if st.motd ≠ r.motd || st.maxLineLength ≠ r.maxLine || st.maxPrefixLength ≠ r.maxPrefix then some "scalars"
  else if !ok.all (fun k => AMap.get? st.serverOptions k == AMap.get? r.options k) then some "opts"
  else if !ck.all (fun k => decide ((AMap.get? st.channels k).map chanView = AMap.get? r.chans k)) then some "chans"
  else if !st.channels.all (fun p => p.2.modes.modes.all (fun x => x.add && x.setting) &&
      decide ((p.2.modes.listArgs, p.2.modes.argsM, p.2.modes.setArgs, p.2.modes.noArgs) = splitN4 p.2.modes.raw)) then some "modesWF"
  else if !uk.all (fun n => decide ((AMap.get? st.users n).map userView = AMap.get? r.users n)) then some "users"
  else if !st.channels.all (fun p => (p.2.users ++ r.usersOf p.1).all (fun n => p.2.users.contains n == r.members.contains (p.1, n))) then some "members"
  else if !r.members.all (fun m => AMap.contains r.chans m.1 && AMap.contains r.users m.2) then some "membersKnown"
  else if !nodupKeys (r.members.map (fun m => m.1 ++ [0] ++ m.2)) then some "membersNodup"
  else if !r.members.all (fun m => match AMap.get? st.users m.2 with
      | some u => decide ((AMap.get? u.perms m.1).getD {} = r.getPerms m.1 m.2) | none => true) then some "perms"
  else if !r.perms.all (fun p => AMap.contains r.users p.1.2) then some "permsKnown"
  else if !nodupKeys (AMap.keys r.chans) || !nodupKeys (AMap.keys r.users) then some "refKeys"
  else if (AMap.keys r.chans).any (·.isEmpty) then some "chanKeysNonempty"
  else none

/-- The event-level run of the implementation model (outputs dropped). -/
def runEvents (cfg : Cfg) (cs : CState) (es : List Event) : M CState :=
  es.foldlM (fun cs e => (handleEvent cfg cs e).map (·.1)) cs

end Girc.Spec
