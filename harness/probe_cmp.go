package main

import (
	"bufio"
	"fmt"
	"os"
)

// `corr -prop cmp < lines.txt` : each stdin line is a step ("R..." or "D"); prints the comparison.
func init() {
	props["cmp"] = func(c *Ctx) {
		var steps []string
		sc := bufio.NewScanner(os.Stdin)
		for sc.Scan() {
			if sc.Text() != "" {
				steps = append(steps, sc.Text())
			}
		}
		cmp := c.CompareSession(SessCfg{Nick: "me", User: "me", AllowFlood: true}, steps, false, false)
		fmt.Fprintf(os.Stderr, "implW=%q\nmodelW=%q\nimplEnd=%s modelEnd=%s fault=%s panics=%v wedged=%v\n", cmp.ImplW, cmp.ModelW, cmp.ImplEnd, cmp.ModelEnd, cmp.ModelF, cmp.Res.Panics, cmp.Res.Wedged)
		for i := range cmp.ImplDump {
			fmt.Fprintf(os.Stderr, "implDump%d=%q\n", i, cmp.ImplDump[i])
			if i < len(cmp.ModelDump) {
				fmt.Fprintf(os.Stderr, "modlDump%d=%q\n", i, cmp.ModelDump[i])
			}
		}
		fmt.Fprintf(os.Stderr, "diffs=%q\n", cmp.Diffs)
	}
}
