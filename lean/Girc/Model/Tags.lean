import Girc.Base.AMap
import Girc.Base.GoLib
import Girc.Base.GoSem
/-
  Model of cap_tags.go: tag escaping, validTag, validTagValue, Tags.Set/Get/Bytes/writeTo, ParseTags.
-/
namespace Girc.Model

def maxTagLength : Nat := 4094

-- `Tags` (Go map; `none` models the nil map) is declared in Girc/Base/GoSem.lean.

/-- `tagEncoder.Replace`: a byte-wise replacer (all five old strings are single bytes). -/
def tagEnc1 (b : Byte) : Bytes :=
  if b = 0x3B then [0x5C, 0x3A]        -- ';'  → `\:`
  else if b = 0x20 then [0x5C, 0x73]   -- ' '  → `\s`
  else if b = 0x5C then [0x5C, 0x5C]   -- '\'  → `\\`
  else if b = 0x0D then [0x5C, 0x72]   -- CR   → `\r`
  else if b = 0x0A then [0x5C, 0x6E]   -- LF   → `\n`
  else [b]

def tagEncode (v : Bytes) : Bytes := v.flatMap tagEnc1

/-- The byte an escape code stands for. -/
def tagUnesc (c : Byte) : Option Byte :=
  if c = 0x3A then some 0x3B
  else if c = 0x73 then some 0x20
  else if c = 0x5C then some 0x5C
  else if c = 0x72 then some 0x0D
  else if c = 0x6E then some 0x0A
  else none

/-- `tagDecoder.Replace`: left-to-right, non-overlapping two-byte escapes; an unknown escape or a
    trailing backslash is kept as is. -/
def tagDecode : Bytes → Bytes
  | [] => []
  | [b] => [b]
  | b :: c :: rest =>
    if b = 0x5C then
      match tagUnesc c with
      | some d => d :: tagDecode rest
      | none => b :: tagDecode (c :: rest)
    else b :: tagDecode (c :: rest)

/-- `(c < 'A' || c > 'Z') && (c < 'a' || c > 'z') && (c < '-' || c > '9') && c != '_'` negated. -/
def tagKeyByte (c : Byte) : Bool :=
  !((c < 0x41 || c > 0x5A) && (c < 0x61 || c > 0x7A) && (c < 0x2D || c > 0x39) && c != 0x5F)

def validTag (name : Bytes) : Bool :=
  if name.length < 1 then false
  else
    let name := if name.length ≥ 2 && name.head? = some 0x2B then name.drop 1 else name
    name.all tagKeyByte

/-- `c < '!' || c > '~' || c == ';'` negated. -/
def tagValByte (c : Byte) : Bool := !(c < 0x21 || c > 0x7E || c = 0x3B)

def validTagValue (v : Bytes) : Bool := v.all tagValByte

/-- The loop of `Tags.Bytes` over the sorted keys. `cur` = bytes written so far (incl. '@'),
    `isLast` is decided by position. Returns the bytes appended. -/
def tagsBytesLoop (t : Tags) : List Bytes → Nat → Bytes
  | [], _ => []
  | k :: ks, cur =>
    let v := (AMap.get? t k).getD []
    let need := k.length + (if v.length > 0 then 1 + v.length else 0) + (if ks.isEmpty then 0 else 1)
    if cur + need > maxTagLength then []
    else
      let item := k ++ (if v.length > 0 then 0x3D :: v else []) ++ (if ks.isEmpty then [] else [0x3B])
      item ++ tagsBytesLoop t ks (cur + item.length)

/-- `Tags.Bytes()` (for a nil or empty map: nothing). -/
def tagsBytes : Option Tags → Bytes
  | none => []
  | some t => if t.isEmpty then [] else 0x40 :: tagsBytesLoop t (sortBytes (AMap.keys t)) 1

/-- `Tags.Len()`. -/
def tagsLen (t : Option Tags) : Nat := (tagsBytes t).length

/-- `Tags.writeTo`: the bytes plus a trailing SPACE, or nothing. -/
def tagsWrite (t : Option Tags) : Bytes :=
  let b := tagsBytes t
  if b.isEmpty then [] else b ++ [SP]

/-- `Tags.Set` on a non-nil map: `none` = an error was returned (map unchanged). -/
def tagsSet (t : Tags) (key value : Bytes) : Option Tags :=
  if !validTag key then none
  else
    let v := tagEncode value
    if v.length > 0 && !validTagValue v then none
    else if tagsLen (some t) + key.length + v.length + 2 > maxTagLength then none
    else some (AMap.set t key v)

/-- `Tags.Get`. -/
def tagsGet (t : Option Tags) (key : Bytes) : Option Bytes :=
  match t with
  | none => none
  | some m => (AMap.get? m key).map tagDecode

/-- One `;`-separated item of `ParseTags`. -/
def parseTagItem (t : Tags) (part : Bytes) : Tags :=
  match indexOf 0x3D part with
  | some (n + 1) => AMap.set t (part.take (n + 1)) (part.drop (n + 2))
  | _ => if validTag part then AMap.set t part [] else t     -- no '=' or '=' at index 0

/-- `ParseTags(raw)`. -/
def parseTags (raw : Bytes) : Tags :=
  let raw := if raw.head? = some 0x40 then raw.drop 1 else raw
  (splitOnByte 0x3B raw).foldl parseTagItem []

end Girc.Model
