import Girc.Proofs.SimMain
/-
  C04 proofs, part 8: consequences spelled out in the property — users are forgotten exactly when
  they share no tracked channel, a mode set by '+x' is reported until '-x', and mode arguments follow
  the CHANMODES classes.
-/
namespace Girc.Proofs.SimCor
open Girc Girc.Model Girc.Spec
open Girc.Proofs.InvBase Girc.Proofs.SimBase Girc.Proofs.SimMode

/-- In related states a user is known exactly while it shares a tracked channel. -/
theorem known_iff_shares {st : St} {r : Ref} (h : Sim st r) (n : Bytes) :
    AMap.contains r.users n = true ↔ ∃ c, (c, n) ∈ r.members := by
  constructor
  · intro hn
    obtain ⟨u, hu⟩ := h.user_of_ref hn
    have hne := h.inv.userHasChan n u (get?_some_mem hu)
    cases hc : u.chans with
    | nil => exact absurd hc hne
    | cons k ks =>
      exact ⟨k, (h.mem_user_chans hu k).mp (by rw [hc]; exact List.mem_cons_self ..)⟩
  · rintro ⟨c, hc⟩
    exact (h.membersKnown c n hc).2

/-- The same, through the implementation's state API: `LookupUser` succeeds exactly for the members of
    some tracked channel. -/
theorem lookupUser_iff_shares {st : St} {r : Ref} (h : Sim st r) (n : Bytes) :
    (AMap.get? st.users n).isSome = true ↔ ∃ k ch, AMap.get? st.channels k = some ch ∧ n ∈ ch.users := by
  constructor
  · intro hn
    obtain ⟨u, hu⟩ := Option.isSome_iff_exists.mp hn
    have hmu : (n, u) ∈ st.users := get?_some_mem hu
    have hne := h.inv.userHasChan n u hmu
    cases hc : u.chans with
    | nil => exact absurd hc hne
    | cons k ks =>
      obtain ⟨ch, hch, hnu⟩ := h.inv.userToChan n u hmu k (by rw [hc]; exact List.mem_cons_self ..)
      exact ⟨k, ch, mem_get? h.inv.chanKeys hch, hnu⟩
  · rintro ⟨k, ch, hch, hn⟩
    obtain ⟨u, hu, _⟩ := h.inv.chanToUser k ch (get?_some_mem hch) n hn
    rw [mem_get? h.inv.userKeys hu]
    rfl

/-- The four CHANMODES classes and PREFIX of a channel, as the reference model reads them. -/
def isListMode (ch : RChan) (f : Byte) : Bool := !ch.chanmodes.isEmpty && (splitN4 ch.chanmodes).1.contains f
def isArgMode (ch : RChan) (f : Byte) : Bool :=
  !ch.chanmodes.isEmpty && !(splitN4 ch.chanmodes).1.contains f && (splitN4 ch.chanmodes).2.1.contains f
def isSetArgMode (ch : RChan) (f : Byte) : Bool :=
  !ch.chanmodes.isEmpty && !(splitN4 ch.chanmodes).1.contains f && !(splitN4 ch.chanmodes).2.1.contains f &&
    (splitN4 ch.chanmodes).2.2.1.contains f
def isPrivMode (ch : RChan) (f : Byte) : Bool :=
  !ch.chanmodes.isEmpty && !(splitN4 ch.chanmodes).1.contains f && !(splitN4 ch.chanmodes).2.1.contains f &&
    !(splitN4 ch.chanmodes).2.2.1.contains f && ch.prefixModes.contains f
/-- Everything else is a plain setting (class D, or any letter when the server announced no classes). -/
def isPlainMode (ch : RChan) (f : Byte) : Bool :=
  !isListMode ch f && !isArgMode ch f && !isSetArgMode ch f && !isPrivMode ch f

theorem mem_rset (f : Byte) (ms : List (Byte × Bytes)) (a : Bytes) : (f, a) ∈ rset f ms a := by
  unfold rset
  split
  · next hany =>
    obtain ⟨m, hm, hmf⟩ := List.any_eq_true.mp hany
    exact List.mem_map.mpr ⟨m, hm, by rw [if_pos (by simpa using hmf)]⟩
  · exact List.mem_append_right _ (List.mem_singleton.mpr rfl)

theorem mem_rset_other {f g : Byte} (hfg : g ≠ f) {ms : List (Byte × Bytes)} {a : Bytes} (b : Bytes)
    (hm : (f, a) ∈ ms) : (f, a) ∈ rset g ms b := by
  unfold rset
  split
  · exact List.mem_map.mpr ⟨(f, a), hm, by rw [if_neg (fun h : f = g => hfg h.symm)]⟩
  · exact List.mem_append_left _ hm

theorem mem_runset_other {f g : Byte} (hfg : g ≠ f) {ms : List (Byte × Bytes)} {a : Bytes}
    (hm : (f, a) ∈ ms) : (f, a) ∈ runset g ms := by
  unfold runset
  exact List.mem_filter.mpr ⟨hm, by simpa using fun h : f = g => hfg h.symm⟩

theorem not_mem_runset (f : Byte) (ms : List (Byte × Bytes)) (a : Bytes) : (f, a) ∉ runset f ms := by
  unfold runset
  intro h
  simpa using (List.mem_filter.mp h).2

theorem takeArg_fst (args : List Bytes) : (takeArg args).1 = args.headD [] := by cases args <;> rfl
theorem takeArg_snd (args : List Bytes) : (takeArg args).2 = args.tail := by cases args <;> rfl

/-- '+x' (a setting, i.e. not a list or privilege mode) is reported afterwards, with the argument its
    class prescribes: class B and C take the next argument, a plain mode takes none. -/
theorem plus_reported (ch : RChan) (f : Byte) (args : List Bytes)
    (hs : isListMode ch f = false ∧ isPrivMode ch f = false) :
    (f, if isPlainMode ch f then [] else args.headD []) ∈ (Ref.modeFlag ch true f args).1 := by
  rw [modeFlag_def]
  unfold isPlainMode isListMode isArgMode isSetArgMode isPrivMode at *
  revert hs
  generalize ch.chanmodes.isEmpty = e
  generalize (splitN4 ch.chanmodes).1.contains f = a
  generalize (splitN4 ch.chanmodes).2.1.contains f = b
  generalize (splitN4 ch.chanmodes).2.2.1.contains f = c
  generalize ch.prefixModes.contains f = p
  cases e <;> cases a <;> cases b <;> cases c <;> cases p <;> simp [mem_rset, takeArg_fst]

/-- A later flag for a DIFFERENT letter leaves the report alone. -/
theorem other_flag_keeps (ch : RChan) (add : Bool) (f g : Byte) (a : Bytes) (args : List Bytes)
    (hfg : g ≠ f) (hm : (f, a) ∈ ch.modes) :
    (f, a) ∈ (Ref.modeFlag ch add g args).1 := by
  rw [modeFlag_def]
  have h1 := fun b => mem_rset_other hfg b hm
  have h2 := mem_runset_other hfg hm
  repeat' split
  all_goals first | exact hm | exact h1 _ | exact h2

/-- '-x' (a setting) removes the report, whatever arguments follow. -/
theorem minus_removes (ch : RChan) (f : Byte) (args : List Bytes)
    (hs : isListMode ch f = false ∧ isPrivMode ch f = false) (a : Bytes) :
    (f, a) ∉ (Ref.modeFlag ch false f args).1 := by
  rw [modeFlag_def]
  unfold isListMode isPrivMode at *
  revert hs
  generalize ch.chanmodes.isEmpty = e
  generalize (splitN4 ch.chanmodes).1.contains f = a
  generalize (splitN4 ch.chanmodes).2.1.contains f = b
  generalize (splitN4 ch.chanmodes).2.2.1.contains f = c
  generalize ch.prefixModes.contains f = p
  cases e <;> cases a <;> cases b <;> cases c <;> cases p <;> simp [not_mem_runset]

/-- Argument consumption follows the classes: A, B and privilege modes always take one, C only when
    set, plain modes never. -/
theorem args_consumed (ch : RChan) (add : Bool) (f : Byte) (args : List Bytes) :
    (Ref.modeFlag ch add f args).2.1 =
      if isListMode ch f || isArgMode ch f || isPrivMode ch f || (isSetArgMode ch f && add) then args.tail else args := by
  rw [modeFlag_def]
  unfold isListMode isArgMode isSetArgMode isPrivMode
  generalize ch.chanmodes.isEmpty = e
  generalize (splitN4 ch.chanmodes).1.contains f = a
  generalize (splitN4 ch.chanmodes).2.1.contains f = b
  generalize (splitN4 ch.chanmodes).2.2.1.contains f = c
  generalize ch.prefixModes.contains f = p
  cases e <;> cases a <;> cases b <;> cases c <;> cases p <;> cases add <;> simp [takeArg_snd]

/-- List modes and privilege modes never appear among the reported settings. -/
theorem list_and_priv_not_stored (ch : RChan) (add : Bool) (f : Byte) (args : List Bytes)
    (hs : isListMode ch f = true ∨ isPrivMode ch f = true) :
    (Ref.modeFlag ch add f args).1 = ch.modes := by
  rw [modeFlag_def]
  unfold isListMode isPrivMode at *
  revert hs
  generalize ch.chanmodes.isEmpty = e
  generalize (splitN4 ch.chanmodes).1.contains f = a
  generalize (splitN4 ch.chanmodes).2.1.contains f = b
  generalize (splitN4 ch.chanmodes).2.2.1.contains f = c
  generalize ch.prefixModes.contains f = p
  cases e <;> cases a <;> cases b <;> cases c <;> cases p <;> simp

/-- The mode string the state API shows lists exactly the reported settings: after the "+" come the letters, each in
    the spelling of the API's `string` type (`Go.strOfByte`). -/
theorem modesString_letters (ms : List (Byte × Bytes)) (hne : ms ≠ []) :
    (modesString ms).take ((ms.flatMap fun m => Go.strOfByte m.1).length + 1) =
      0x2B :: ms.flatMap (fun m => Go.strOfByte m.1) := by
  unfold modesString
  have hpos : ms.length > 0 := List.length_pos_iff.mpr hne
  rw [if_pos hpos, List.append_assoc, List.singleton_append, List.take_succ_cons]
  rw [List.take_append_of_le_length (Nat.le_refl _), List.take_of_length_le (Nat.le_refl _)]

/-- … which for ASCII letters (all a server can announce in CHANMODES) is the letters themselves. -/
theorem modesString_letters_ascii (ms : List (Byte × Bytes)) (hne : ms ≠ []) (ha : ∀ m ∈ ms, m.1 < 0x80) :
    (modesString ms).take (ms.length + 1) = 0x2B :: ms.map (·.1) := by
  have e : ms.flatMap (fun m => Go.strOfByte m.1) = ms.map (·.1) := by
    clear hne
    induction ms with
    | nil => rfl
    | cons m ms ih =>
      have hm : m.1 < 0x80 := ha m (by simp)
      rw [List.flatMap_cons, List.map_cons, ih (fun x hx => ha x (by simp [hx]))]
      unfold Go.strOfByte
      simp [hm]
  have h := modesString_letters ms hne
  rw [e, List.length_map] at h
  exact h

end Girc.Proofs.SimCor
