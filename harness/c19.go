package main

import (
	"strings"

	"github.com/lrstanley/girc"
)

func init() {
	props["C19"] = runC19
	runners["glob"] = func(c *Ctx, in map[string]string) {
		c.compare("glob", in, c.twice("glob", in, func() string { return bl(girc.Glob(in["input"], in["pattern"])) }), "glob", "spec.glob", hx(in["input"]), hx(in["pattern"]))
	}
}

func runC19(c *Ctx) {
	r := c.R
	maxLen := 4
	if c.Tier == "thorough" {
		maxLen = 5
	}
	r.Rule = "EXHAUSTIVE over all (input, pattern) pairs with input over {a,b} and pattern over {a,b,*} up to length " +
		string(rune('0'+maxLen)) + " (thorough: 5), then random longer pairs with repeated substrings, consecutive stars and multi-byte runes; " +
		"non-trivial = pattern contains '*' and at least one literal byte and input non-empty; distinct = distinct pair"
	one := func(input, pat, cls string) {
		c.run("glob", map[string]string{"input": input, "pattern": pat})
		nt := strings.Contains(pat, "*") && strings.Trim(pat, "*") != "" && input != ""
		r.Count(input+"\x00"+pat, nt, cls)
	}
	var words func(alpha string, n int) []string
	words = func(alpha string, n int) []string {
		out := []string{""}
		cur := []string{""}
		for i := 0; i < n; i++ {
			var next []string
			for _, w := range cur {
				for j := 0; j < len(alpha); j++ {
					next = append(next, w+string(alpha[j]))
				}
			}
			out = append(out, next...)
			cur = next
		}
		return out
	}
	inputs := words("ab", maxLen)
	pats := words("ab*", maxLen)
	for _, in := range inputs {
		for _, p := range pats {
			one(in, p, "exhaustive")
		}
	}
	// the same over units with a multi-byte rune (pieces that are not single bytes) and over raw bytes of one
	units := func(alpha []string, n int) []string {
		out := []string{""}
		cur := []string{""}
		for i := 0; i < n; i++ {
			var next []string
			for _, w := range cur {
				for _, a := range alpha {
					next = append(next, w+a)
				}
			}
			out = append(out, next...)
			cur = next
		}
		return out
	}
	ulen := 4
	if c.Tier == "thorough" {
		ulen = 5
	}
	for _, in := range units([]string{"a", "Ѿ"}, ulen) {
		for _, p := range units([]string{"a", "Ѿ", "*"}, ulen+1) {
			one(in, p, "exhaustive-multibyte")
		}
	}
	for _, in := range units([]string{"\xd1", "\xbe"}, 4) {
		for _, p := range units([]string{"\xd1", "\xbe", "*"}, 4) {
			one(in, p, "exhaustive-rawbytes")
		}
	}
	r.Exhaustive = true
	// known regression witnesses
	one("a", "a*a", "witness")
	one("ab", "ab*b", "witness")
	// random: build a pattern from an input by replacing chunks with stars (mostly matching), then perturb
	n := 3000 * c.Scale
	for i := 0; i < n; i++ {
		alpha := c.Rng.Pick([]string{"ab", "abc", "ab*", "aé*", "xyϗѾ "})
		input := c.Rng.From(alpha, c.Rng.Intn(24))
		input = strings.ReplaceAll(input, "*", "a")
		var pat string
		switch c.Rng.Intn(3) {
		case 0: // derive from input
			pos := 0
			for pos < len(input) {
				k := 1 + c.Rng.Intn(4)
				if pos+k > len(input) {
					k = len(input) - pos
				}
				if c.Rng.Chance(40) {
					pat += "*"
					if c.Rng.Chance(20) {
						pat += "*"
					}
				} else {
					pat += input[pos : pos+k]
				}
				pos += k
			}
			if c.Rng.Chance(15) && len(pat) > 0 { // perturb
				j := c.Rng.Intn(len(pat))
				pat = pat[:j] + c.Rng.From("ab*", 1) + pat[j+1:]
			}
		case 1:
			pat = c.Rng.From("ab*", c.Rng.Intn(8))
		default:
			pat = c.Rng.From(alpha+"**", c.Rng.Intn(10))
		}
		one(input, pat, "random")
		if i < 4 {
			r.Sample(map[string]string{"input": q(input), "pattern": q(pat), "impl": bl(girc.Glob(input, pat))})
		}
	}
}
