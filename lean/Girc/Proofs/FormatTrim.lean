import Girc.Proofs.FormatFmt
/-
  C20 proofs, part 3: `TrimFmt` removes exactly the lower-case `{name}` tokens, for every iteration
  order of the token maps.
-/
namespace Girc.Proofs.Format
open Girc Girc.Model Girc.Spec

/-! ### fuel independence and unfolding of `removeAll` -/

theorem removeAllFuel_indep (old : Bytes) (hold : old ≠ []) : ∀ (n m : Nat) (s : Bytes),
    s.length < n → s.length < m → removeAllFuel old n s = removeAllFuel old m s := by
  have hlen : 0 < old.length := List.length_pos_iff.mpr hold
  intro n
  induction n with
  | zero => intro m s h; omega
  | succ n ih =>
    intro m s hn hm
    cases m with
    | zero => omega
    | succ m =>
      cases s with
      | nil => simp [removeAllFuel]
      | cons b rest =>
        simp only [List.length_cons] at hn hm
        simp only [removeAllFuel]
        by_cases hp : old.isPrefixOf (b :: rest) = true
        · simp only [hp, if_true]
          have : ((b :: rest).drop old.length).length < (b :: rest).length := by
            simp only [List.length_drop, List.length_cons]; omega
          simp only [List.length_cons] at this
          exact ih m _ (by omega) (by omega)
        · rw [ih m rest (by omega) (by omega), if_neg hp, if_neg hp]

theorem removeAll_nil (old : Bytes) : removeAll old [] = [] := by
  simp [removeAll, removeAllFuel]

theorem removeAll_cons (old : Bytes) (hold : old ≠ []) (b : Byte) (rest : Bytes) :
    removeAll old (b :: rest) =
      if old.isPrefixOf (b :: rest) then removeAll old ((b :: rest).drop old.length)
      else b :: removeAll old rest := by
  have hlen : 0 < old.length := List.length_pos_iff.mpr hold
  have he : old.isEmpty = false := by simpa using hold
  simp only [removeAll, he, List.length_cons, removeAllFuel]
  by_cases hp : old.isPrefixOf (b :: rest) = true
  · simp only [hp, if_true]
    have : ((b :: rest).drop old.length).length < (b :: rest).length := by
      simp only [List.length_drop, List.length_cons]; omega
    simp only [List.length_cons] at this
    exact removeAllFuel_indep old hold _ _ _ (by omega) (by omega)
  · simp [hp]

/-! ### stepping `removeAll (token name)` over pieces of a source text -/

theorem token_ne_nil (name : Bytes) : token name ≠ [] := by simp [token]

theorem removeAll_skip (name s rest : Bytes) (h : ∀ b ∈ s, b ≠ LBRACE) :
    removeAll (token name) (s ++ rest) = s ++ removeAll (token name) rest := by
  induction s with
  | nil => rfl
  | cons b s ih =>
    simp only [List.mem_cons, forall_eq_or_imp] at h
    have hb : (LBRACE == b) = false := by
      simp only [beq_eq_false_iff_ne]; exact fun e => h.1 e.symm
    rw [List.cons_append, removeAll_cons _ (token_ne_nil name)]
    have : (token name).isPrefixOf (b :: (s ++ rest)) = false := by
      simp [token, List.isPrefixOf, hb]
    rw [this, ih h.2]
    simp

theorem removeAll_match (name rest : Bytes) :
    removeAll (token name) (token name ++ rest) = removeAll (token name) rest := by
  have hp : (token name).isPrefixOf (token name ++ rest) = true := by
    rw [List.isPrefixOf_iff_prefix]; exact List.prefix_append _ _
  have : token name ++ rest = LBRACE :: (name ++ [RBRACE] ++ rest) := by simp [token]
  have hd : (token name ++ rest).drop (token name).length = rest := List.drop_left
  rw [this] at hp hd ⊢
  rw [removeAll_cons _ (token_ne_nil name), hp, if_pos rfl, hd]

theorem prefix_inner : ∀ (name inner rest : Bytes), (∀ x ∈ name, x ≠ RBRACE) → (∀ x ∈ inner, x ≠ RBRACE) →
    (name ++ [RBRACE]).isPrefixOf (inner ++ RBRACE :: rest) = true → name = inner := by
  intro name
  induction name with
  | nil =>
    intro inner rest _ hi hp
    cases inner with
    | nil => rfl
    | cons y inner =>
      simp only [List.mem_cons, forall_eq_or_imp] at hi
      simp [List.isPrefixOf] at hp
      exact absurd hp.symm hi.1
  | cons x name ih =>
    intro inner rest hn hi hp
    simp only [List.mem_cons, forall_eq_or_imp] at hn
    cases inner with
    | nil =>
      simp [List.isPrefixOf] at hp
      exact absurd hp.1 hn.1
    | cons y inner =>
      simp only [List.mem_cons, forall_eq_or_imp] at hi
      simp only [List.cons_append, List.isPrefixOf, Bool.and_eq_true, beq_iff_eq] at hp
      rw [hp.1, ih inner rest hn.2 hi.2 hp.2]

theorem removeAll_nomatch (name inner rest : Bytes) (hn : ∀ x ∈ name, x ≠ RBRACE)
    (hi : ∀ x ∈ inner, x ≠ RBRACE) (hl : ∀ x ∈ inner, x ≠ LBRACE) (hne : name ≠ inner) :
    removeAll (token name) (LBRACE :: inner ++ RBRACE :: rest) =
      LBRACE :: inner ++ RBRACE :: removeAll (token name) rest := by
  have hp : (token name).isPrefixOf (LBRACE :: (inner ++ RBRACE :: rest)) = false := by
    cases hc : (token name).isPrefixOf (LBRACE :: (inner ++ RBRACE :: rest)) with
    | false => rfl
    | true =>
      simp only [token, List.cons_append, List.isPrefixOf, Bool.and_eq_true] at hc
      exact absurd (prefix_inner name inner rest hn hi hc.2) hne
  rw [List.cons_append, removeAll_cons _ (token_ne_nil name), hp]
  have hs : ∀ b ∈ inner ++ [RBRACE], b ≠ LBRACE := by
    intro b hb
    simp only [List.mem_append, List.mem_singleton] at hb
    cases hb with
    | inl h => exact hl b h
    | inr h => rw [h]; decide
  have := removeAll_skip name (inner ++ [RBRACE]) rest hs
  simp only [List.append_assoc, List.singleton_append] at this
  simp [this]

/-! ### one pass over a well-formed source text -/

/-- the structural part of `wfItem`: where braces and commas may occur -/
def swf : Item → Bool
  | .lit s => braceFree s
  | .name n => lettersOnly n
  | .pair fg bg => lettersOnly fg && lettersOnly bg

def isNameItem (name : Bytes) : Item → Bool
  | .name n => n == name
  | _ => false

theorem swf_of_wf (it : Item) (h : wfItem it = true) : swf it = true := by
  cases it with
  | lit s => exact h
  | name n => simp only [wfItem, Bool.and_eq_true] at h; exact h.1
  | pair fg bg =>
    simp only [wfItem, Bool.and_eq_true] at h
    simp only [swf, Bool.and_eq_true]; exact ⟨h.1.1.1, h.1.1.2⟩

theorem letters_mem (n : Bytes) (h : lettersOnly n = true) : ∀ x ∈ n, isLetter x = true := by
  rw [lettersOnly_eq] at h
  exact List.all_eq_true.mp h

theorem removeAll_src (name : Bytes) (hn : lettersOnly name = true) (items : List Item)
    (h : items.all swf = true) :
    removeAll (token name) (src items) = src (items.filter (fun it => !isNameItem name it)) := by
  have hnm := letters_mem name hn
  induction items with
  | nil => simp [src, removeAll_nil]
  | cons it items ih =>
    simp only [List.all_cons, Bool.and_eq_true] at h
    have ih := ih h.2
    have hw := h.1
    rw [src_cons]
    cases it with
    | lit s =>
      have hs : ∀ b ∈ s, b ≠ LBRACE := by
        intro b hb
        have := List.all_eq_true.mp hw b hb
        simp only [Bool.and_eq_true, bne_iff_ne] at this
        exact this.1
      have hf : (!isNameItem name (.lit s)) = true := rfl
      rw [List.filter_cons_of_pos (p := fun it => !isNameItem name it) hf, src_cons]
      simp only [srcItem]
      rw [removeAll_skip name s _ hs, ih]
    | name n =>
      have hlm := letters_mem n hw
      by_cases he : n = name
      · subst he
        have hf : ¬ (!isNameItem n (.name n)) = true := by simp [isNameItem]
        rw [List.filter_cons_of_neg (p := fun it => !isNameItem n it) hf]
        simp only [srcItem]
        rw [removeAll_match, ih]
      · have hf : (!isNameItem name (.name n)) = true := by simp [isNameItem, he]
        rw [List.filter_cons_of_pos (p := fun it => !isNameItem name it) hf, src_cons]
        simp only [srcItem]
        rw [show token n = LBRACE :: n ++ [RBRACE] from rfl]
        have := removeAll_nomatch name n (src items)
          (fun x hx => letter_notR x (hnm x hx)) (fun x hx => letter_notR x (hlm x hx))
          (fun x hx => letter_notL x (hlm x hx)) (fun e => he e.symm)
        simp only [List.cons_append, List.append_assoc, List.nil_append] at this ⊢
        rw [this, ih]
    | pair fg bg =>
      simp only [swf, Bool.and_eq_true] at hw
      have hfg := letters_mem fg hw.1
      have hbg := letters_mem bg hw.2
      have hf : (!isNameItem name (.pair fg bg)) = true := rfl
      rw [List.filter_cons_of_pos (p := fun it => !isNameItem name it) hf, src_cons]
      simp only [srcItem]
      have hR : ∀ x ∈ fg ++ COMMA :: bg, x ≠ RBRACE := by
        intro x hx
        simp only [List.mem_append, List.mem_cons] at hx
        rcases hx with hx | hx | hx
        · exact letter_notR x (hfg x hx)
        · rw [hx]; decide
        · exact letter_notR x (hbg x hx)
      have hL : ∀ x ∈ fg ++ COMMA :: bg, x ≠ LBRACE := by
        intro x hx
        simp only [List.mem_append, List.mem_cons] at hx
        rcases hx with hx | hx | hx
        · exact letter_notL x (hfg x hx)
        · rw [hx]; decide
        · exact letter_notL x (hbg x hx)
      have hne : name ≠ fg ++ COMMA :: bg := by
        intro e
        have : COMMA ∈ name := by rw [e]; simp
        exact letter_notC _ (hnm _ this) rfl
      have := removeAll_nomatch name (fg ++ COMMA :: bg) (src items)
        (fun x hx => letter_notR x (hnm x hx)) hR hL hne
      simp only [List.cons_append, List.append_assoc, List.nil_append] at this ⊢
      rw [this, ih]

theorem all_swf_filter (p : Item → Bool) (items : List Item) (h : items.all swf = true) :
    (items.filter p).all swf = true := by
  simp only [List.all_eq_true, List.mem_filter] at h ⊢
  exact fun x hx => h x hx.1

/-! ### all passes, in any order -/

theorem trimFmt_cons (n : Bytes) (order : List Bytes) (t : Bytes) :
    trimFmt (n :: order) t = trimFmt order (removeAll (token n) t) := rfl

theorem trimFmt_src (order : List Bytes) (ho : ∀ n ∈ order, lettersOnly n = true) :
    ∀ (items : List Item), items.all swf = true →
    trimFmt order (src items) = src (items.filter (fun it => order.all (fun n => !isNameItem n it))) := by
  induction order with
  | nil =>
    intro items _
    have : items.filter (fun _ => true) = items := List.filter_eq_self.mpr (fun _ _ => rfl)
    simp [trimFmt, this]
  | cons n order ih =>
    intro items h
    simp only [List.mem_cons, forall_eq_or_imp] at ho
    rw [trimFmt_cons, removeAll_src n ho.1 items h, ih ho.2 _ (all_swf_filter _ items h),
      List.filter_filter]
    congr 1
    apply List.filter_congr
    intro it _
    simp [Bool.and_comm]

theorem tokenNames_letters : tokenNames.all lettersOnly = true := by decide

theorem order_pred (order : List Bytes) (hperm : order.Perm tokenNames) (it : Item) :
    order.all (fun n => !isNameItem n it) = !isLowerToken it := by
  cases it with
  | lit s => simp [isNameItem, isLowerToken]
  | pair fg bg => simp [isNameItem, isLowerToken]
  | name m =>
    simp only [isNameItem, isLowerToken]
    rw [Bool.eq_iff_iff]
    simp only [List.all_eq_true, Bool.not_eq_true', beq_eq_false_iff_ne, List.contains_eq_mem,
      decide_eq_false_iff_not]
    constructor
    · intro h hm
      exact h m (hperm.mem_iff.mpr hm) rfl
    · intro h n hn e
      exact h (hperm.mem_iff.mp (e ▸ hn))

theorem trimfmt_exact_aux (order : List Bytes) (hperm : order.Perm tokenNames) (items : List Item)
    (h : items.all wfItem = true) :
    trimFmt order (src items) = src (items.filter (fun it => !isLowerToken it)) := by
  have ho : ∀ n ∈ order, lettersOnly n = true := fun n hn =>
    List.all_eq_true.mp tokenNames_letters n (hperm.mem_iff.mp hn)
  have hs : items.all swf = true := by
    simp only [List.all_eq_true] at h ⊢
    exact fun x hx => swf_of_wf x (h x hx)
  rw [trimFmt_src order ho items hs]
  congr 1
  apply List.filter_congr
  intro it _
  exact order_pred order hperm it

end Girc.Proofs.Format
