import Girc.Proofs.SimBase
import Girc.Proofs.SimAttr
import Girc.Proofs.SimJoin
import Girc.Proofs.SimLeave
import Girc.Proofs.SimNick
import Girc.Proofs.SimMode
/-
  C04 proofs, part 7: the dispatcher, one event, whole histories.
-/
namespace Girc.Proofs.SimMain
open Girc Girc.Model Girc.Spec

/-- One event: the implementation model returns without a fault and stays related to the reference. -/
theorem sim_handleEvent {cs : CState} {r : Ref} (cfg : Cfg) (hT : cfg.disableTracking = false) (e : Event)
    (time idle : Bytes) (h : Sim cs.st r) (hc : r.conformant cfg e = true) :
    ∃ cs' outs, handleEvent cfg cs e time idle = .ok (cs', outs) ∧ Sim cs'.st (r.step cfg e) := by sorry

theorem sim_runEvents (cfg : Cfg) (hT : cfg.disableTracking = false) (es : List Event) :
    ∀ (cs : CState) (r : Ref), Sim cs.st r → conformantHistory cfg r es = true →
      ∃ cs', runEvents cfg cs es = .ok cs' ∧ Sim cs'.st (es.foldl (Ref.step cfg) r) := by sorry

/-- C04: after any conformant history, everything the state API shows equals the reference model. -/
theorem refinement (cfg : Cfg) (hT : cfg.disableTracking = false) (es : List Event)
    (hc : conformantHistory cfg {} es = true) :
    ∃ cs, runEvents cfg {} es = .ok cs ∧ observe cs.st = (Ref.run cfg es).observe := by sorry

end Girc.Proofs.SimMain
