import Girc.Spec.Sim
import Girc.Proofs.InvHandlers
import Girc.Proofs.SimNickAux
/-
  C04 proofs, part 5: NICK (the same user under a new key, including case-only changes and the
  client's own nick). `st`/`r` are the states AFTER the account-tag step.
-/
namespace Girc.Proofs.SimNick
open Girc Girc.Model Girc.Spec Girc.Proofs.InvBase Girc.Proofs.InvRename

/-- The client's own nick is not part of anything else the relation talks about. -/
theorem sim_setNick {st : St} {r : Ref} (h : Sim st r) (n : Bytes) :
    Sim { st with nick := n } { r with me := n } :=
  { inv := inv_of_maps_eq st _ h.inv rfl rfl
    nick := rfl
    ident := h.ident
    host := h.host
    motd := h.motd
    maxLine := h.maxLine
    maxPrefix := h.maxPrefix
    opts := h.opts
    chans := h.chans
    chanModesWF := h.chanModesWF
    users := h.users
    members := h.members
    membersKnown := h.membersKnown
    membersNodup := h.membersNodup
    perms := h.perms
    permsKnown := h.permsKnown
    chanKeysNodup := h.chanKeysNodup
    userKeysNodup := h.userKeysNodup
    chanKeysNonempty := h.chanKeysNonempty }

theorem userView_setNick (u : User) (n : Bytes) : userView { u with nick := n } = { userView u with nick := n } := rfl

/-- The tail of `renameUser` on a tracked user, against `rekey`. -/
theorem sim_renameTail_some {s : St} {r : Ref} (h : Sim s r) {old to : Bytes} {user : User}
    (hu : AMap.get? s.users old = some user)
    (ht : fold to = old ∨ AMap.get? s.users (fold to) = none) :
    ∃ st', renameTail s old to = .ok st' ∧ Sim st' (r.rekey old (fold to) to) := by
  obtain ⟨cs', hrun, hkeys, hget⟩ := renameTail_some h.inv hu ht
  refine ⟨_, hrun, ?_⟩
  have hL := h.inv.toInvL
  have hL' := invL_rename hL hu ht hkeys hget
  have hru : AMap.get? r.users old = some (userView user) := by
    rw [← h.users old, hu]; rfl
  rw [rekey_some hru]
  -- the new key is the old one, or unused on the reference side
  have hnewR : fold to = old ∨ AMap.get? r.users (fold to) = none := by
    rcases ht with e | hn
    · exact Or.inl e
    · refine Or.inr ?_
      rw [← h.users (fold to), hn]; rfl
  have hnoMem : fold to = old ∨ ∀ c, (c, fold to) ∉ r.members := by
    rcases hnewR with e | hn
    · exact Or.inl e
    · refine Or.inr (fun c hm => ?_)
      have := (h.membersKnown c (fold to) hm).2
      rw [(contains_eq_false_iff _ _).mpr hn] at this
      cases this
  have hnoPerm : fold to = old ∨ ∀ p ∈ r.perms, p.1.2 ≠ fold to := by
    rcases hnewR with e | hn
    · exact Or.inl e
    · refine Or.inr (fun p hp e => ?_)
      have := h.permsKnown p hp
      rw [e, (contains_eq_false_iff _ _).mpr hn] at this
      cases this
  -- lookups in the two new users maps
  have hus : ∀ n, AMap.get? (AMap.set (AMap.erase s.users old) (fold to) { user with nick := to }) n =
      if n = fold to then some { user with nick := to } else if n = old then none else AMap.get? s.users n := by
    intro n; rw [get?_set, get?_erase]
  have hrs : ∀ n, AMap.get? (AMap.set (AMap.erase r.users old) (fold to) { userView user with nick := to }) n =
      if n = fold to then some { userView user with nick := to } else if n = old then none else AMap.get? r.users n := by
    intro n; rw [get?_set, get?_erase]
  have hknown : ∀ n, (n = fold to ∨ (n ≠ old ∧ AMap.contains r.users n = true)) →
      AMap.contains (AMap.set (AMap.erase r.users old) (fold to) { userView user with nick := to }) n = true := by
    intro n hn
    rw [contains_iff_get?, hrs]
    by_cases e1 : n = fold to
    · rw [if_pos e1]; exact ⟨_, rfl⟩
    · rw [if_neg e1]
      rcases hn with e | ⟨hne, hc⟩
      · exact absurd e e1
      · rw [if_neg hne]; exact (contains_iff_get? _ _).mp hc
  -- membership in the new channels
  have hmem : ∀ k ch', AMap.get? cs' k = some ch' → ∀ n,
      n ∈ ch'.users ↔ ((k, old) ∈ r.members ∧ n = fold to) ∨ ((k, n) ∈ r.members ∧ n ≠ old) := by
    intro k ch' hk' n
    obtain ⟨ch, hch, _, hx⟩ := renamed_chan hL hu hget hk'
    have hm := h.members k ch hch
    rw [hx n, hm old, hm n]
    constructor
    · rintro (⟨a, b⟩ | ⟨a, b⟩)
      · exact Or.inl ⟨b, a⟩
      · exact Or.inr ⟨b, a⟩
    · rintro (⟨a, b⟩ | ⟨a, b⟩)
      · exact Or.inl ⟨b, a⟩
      · exact Or.inr ⟨b, a⟩
  exact {
    inv := inv_with_maps s hL'
    nick := h.nick
    ident := h.ident
    host := h.host
    motd := h.motd
    maxLine := h.maxLine
    maxPrefix := h.maxPrefix
    opts := h.opts
    chans := fun k => by
      show (AMap.get? cs' k).map chanView = AMap.get? r.chans k
      rw [hget k, ← h.chans k]
      split
      · cases AMap.get? s.channels k with
        | none => rfl
        | some ch => show some _ = some _; rw [chanView_renameChan]
      · rfl
    chanModesWF := fun k ch' hk' => by
      obtain ⟨ch, hch, hmodes, _⟩ := renamed_chan hL hu hget hk'
      rw [hmodes]; exact h.chanModesWF k ch hch
    users := fun n => by
      show (AMap.get? (AMap.set (AMap.erase s.users old) (fold to) { user with nick := to }) n).map userView =
        AMap.get? (AMap.set (AMap.erase r.users old) (fold to) { userView user with nick := to }) n
      rw [hus, hrs]
      by_cases e1 : n = fold to
      · rw [if_pos e1, if_pos e1]; rfl
      · rw [if_neg e1, if_neg e1]
        by_cases e2 : n = old
        · rw [if_pos e2, if_pos e2]; rfl
        · rw [if_neg e2, if_neg e2]; exact h.users n
    members := fun k ch' hk' n => by
      show n ∈ ch'.users ↔ (k, n) ∈ r.members.map (rekeyM old (fold to))
      rw [mem_map_rekeyM]; exact hmem k ch' hk' n
    membersKnown := fun k n hkn => by
      have hkn' : (k, n) ∈ r.members.map (rekeyM old (fold to)) := hkn
      rw [mem_map_rekeyM] at hkn'
      rcases hkn' with ⟨hm, e⟩ | ⟨hm, hne⟩
      · exact ⟨(h.membersKnown k old hm).1, hknown n (Or.inl e)⟩
      · exact ⟨(h.membersKnown k n hm).1, hknown n (Or.inr ⟨hne, (h.membersKnown k n hm).2⟩)⟩
    membersNodup := nodup_map_rekeyM h.membersNodup hnoMem
    perms := fun k n u' hkn hn => by
      have hkn' : (k, n) ∈ r.members.map (rekeyM old (fold to)) := hkn
      have hn' : AMap.get? (AMap.set (AMap.erase s.users old) (fold to) { user with nick := to }) n = some u' := hn
      rw [mem_map_rekeyM] at hkn'
      rw [hus] at hn'
      by_cases e1 : n = fold to
      · -- the renamed user
        rw [if_pos e1] at hn'
        cases hn'
        have hold : (k, old) ∈ r.members := by
          rcases hkn' with ⟨hm, _⟩ | ⟨hm, hne⟩
          · exact hm
          · rcases hnoMem with e | hf
            · exact absurd (e1.trans e) hne
            · exact absurd (e1 ▸ hm) (hf k)
        rw [e1, getPerms_rekey_new k hnoPerm _ rfl]
        exact h.perms k old user hold hu
      · rw [if_neg e1] at hn'
        rcases hkn' with ⟨_, e⟩ | ⟨hm, hne⟩
        · exact absurd e e1
        · rw [if_neg hne] at hn'
          rw [getPerms_rekey_other k hne e1 _ rfl]
          exact h.perms k n u' hm hn'
    permsKnown := fun p hp => by
      have hp' : p ∈ r.perms.map (rekeyP old (fold to)) := hp
      obtain ⟨⟨⟨c, u⟩, pv⟩, hq, rfl⟩ := List.mem_map.mp hp'
      by_cases e : u = old
      · subst e
        rw [rekeyP_of_eq]
        exact hknown _ (Or.inl rfl)
      · rw [rekeyP_of_ne _ _ _ e]
        exact hknown _ (Or.inr ⟨e, h.permsKnown _ hq⟩)
    chanKeysNodup := h.chanKeysNodup
    userKeysNodup := keys_set_nodup (keys_erase_nodup h.userKeysNodup old) _ _
    chanKeysNonempty := h.chanKeysNonempty }

/-- The tail of `renameUser`, tracked user or not. -/
theorem sim_renameTail {s : St} {r : Ref} (h : Sim s r) {old to : Bytes}
    (ht : fold to = old ∨ AMap.get? s.users (fold to) = none) :
    ∃ st', renameTail s old to = .ok st' ∧ Sim st' (r.rekey old (fold to) to) := by
  cases hu : AMap.get? s.users old with
  | none =>
    refine ⟨s, renameTail_none to hu, ?_⟩
    have hru : AMap.get? r.users old = none := by rw [← h.users old, hu]; rfl
    rw [rekey_none hru]
    exact h
  | some user => exact sim_renameTail_some h hu ht

/-- What conformance of a NICK message provides. -/
theorem conformant_NICK {cfg : Cfg} {r : Ref} {e : Event} (hc : r.conformant cfg e = true) (hcmd : e.command = cNICK) :
    ∃ src p ps, e.source = some src ∧ e.params = p :: ps ∧
      (fold e.last = fold src.name ∨ r.knownUser e.last = false) := by
  unfold Ref.conformant at hc
  simp only [hcmd] at hc
  rw [if_neg (by decide), if_neg (by decide), if_neg (by decide), if_neg (by decide), if_pos True.intro] at hc
  rw [Bool.and_eq_true, Bool.and_eq_true] at hc
  obtain ⟨_, _, hm⟩ := hc
  cases hs : e.source with
  | none => rw [hs] at hm; cases hm
  | some src =>
    cases hp : e.params with
    | nil => rw [hs, hp] at hm; cases hm
    | cons p ps =>
      refine ⟨src, p, ps, rfl, rfl, ?_⟩
      rw [hs, hp] at hm
      simp only [Bool.and_eq_true, Bool.or_eq_true, decide_eq_true_eq, Bool.not_eq_true'] at hm
      unfold Event.last
      rw [hp]
      rcases hm.2 with e | ⟨hk, _⟩
      · exact Or.inl e
      · exact Or.inr hk

/-- What a NICK message means. -/
theorem cmdStep_NICK (cfg : Cfg) (r : Ref) {e : Event} (hcmd : e.command = cNICK) {src : Source} {p : Bytes}
    {ps : List Bytes} (hs : e.source = some src) (hp : e.params = p :: ps) :
    r.cmdStep cfg e =
      (if fold src.name = fold r.me then { r with me := e.last } else r).rekey (fold src.name) (fold e.last) e.last := by
  unfold Ref.cmdStep
  simp only [hcmd]
  rw [if_neg (by decide), if_neg (by decide), if_neg (by decide), if_neg (by decide), if_neg (by decide), if_pos True.intro]
  rw [hs, hp]
  unfold Event.last
  rw [hp]

theorem sim_NICK {st : St} {r : Ref} (cfg : Cfg) (e : Event) (h : Sim st r)
    (hc : r.conformant cfg e = true) (hcmd : e.command = cNICK) :
    ∃ st', handleNICK st e = .ok st' ∧ Sim st' (r.cmdStep cfg e) := by
  obtain ⟨src, p, ps, hs, hp, hnew⟩ := conformant_NICK hc hcmd
  rw [cmdStep_NICK cfg r hcmd hs hp]
  have hlen : e.params.length ≥ 1 := by rw [hp]; exact Nat.succ_le_succ (Nat.zero_le _)
  unfold handleNICK
  rw [hs]
  simp only []
  rw [if_pos hlen, renameUser_eq_tail, fold_idem, h.nick]
  -- the own-nick update, on both sides
  have h0 : Sim (if fold src.name = fold r.me then { st with nick := e.last } else st)
      (if fold src.name = fold r.me then { r with me := e.last } else r) := by
    split
    · exact sim_setNick h e.last
    · exact h
  apply sim_renameTail h0
  rcases hnew with e1 | hk
  · exact Or.inl e1
  · refine Or.inr ?_
    have hr : AMap.get? r.users (fold e.last) = none := (contains_eq_false_iff _ _).mp hk
    have hu : AMap.get? st.users (fold e.last) = none := by
      have := h.users (fold e.last)
      rw [hr] at this
      exact Option.map_eq_none_iff.mp this
    split
    · exact hu
    · exact hu

end Girc.Proofs.SimNick
