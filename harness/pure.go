package main

import (
	"bytes"
	"encoding/json"
	"fmt"
	"os"
	"os/exec"
	"path/filepath"
	"strings"
	"time"
)

// A pure case: named runner + string inputs. Runners compare impl vs model (mismatch)
// and impl vs spec (violation). Replay files store exactly (runner, input).
type runner func(c *Ctx, in map[string]string)

var runners = map[string]runner{}

func (c *Ctx) run(name string, in map[string]string) {
	r, ok := runners[name]
	if !ok {
		fatal("no runner %q", name)
	}
	if isolatedRunners[name] && !isolatedChild {
		c.runIsolated(name, in)
		return
	}
	prev := c.R.cur
	c.R.cur = name
	defer func() { c.R.cur = prev }()
	r(c, in)
}

// isolatedRunners drive a real client inside this process (MockConnect over net.Pipe, scripted dialers): a panic in one of
// the library's goroutines would end the whole run without naming the input.  They are executed in a child process each;
// the child's result is merged, and a child that dies is reported as a violation with the input that killed it.
var isolatedRunners = map[string]bool{"wireparse": true, "sendwire": true, "slowpeer": true, "capreconnect": true, "tagsqueue": true, "capsharedconfig": true,
	"sensitivedropped": true, "sensitivefault": true, "saslreconnect": true, "sasllate": true, "stsupgrade": true, "stsdialfail": true, "ststls": true, "ststlsclose": true, "pingrepeat": true, "preamblewire": true, "stsshared": true, "ratereconnect": true,
	"stsrebase": true, "stsfailedthenclose": true, "linelenreconnect": true, "idreconnect": true, "cmdwire": true, "globalformat": true}

func (c *Ctx) runIsolated(name string, in map[string]string) {
	dir, err := os.MkdirTemp("", "corr-iso")
	if err != nil {
		fatal("%v", err)
	}
	defer os.RemoveAll(dir)
	b, _ := json.Marshal(in)
	inPath, outPath := filepath.Join(dir, "in.json"), filepath.Join(dir, "out.json")
	if err := os.WriteFile(inPath, b, 0o644); err != nil {
		fatal("%v", err)
	}
	cmd := exec.Command(os.Args[0], "-prop", c.R.Property, "-tier", tierArg, "-seed", fmt.Sprint(seedArg), "-driver", driverPath,
		"-repo", repoDir, "-verif", verifDir, "-runone", name, "-runin", inPath, "-out", outPath)
	var buf bytes.Buffer
	cmd.Stdout, cmd.Stderr = &buf, &buf
	done := make(chan error, 1)
	if err := cmd.Start(); err != nil {
		fatal("%v", err)
	}
	go func() { done <- cmd.Wait() }()
	timedOut := false
	select {
	case <-done:
	case <-time.After(180 * time.Second):
		cmd.Process.Kill()
		<-done
		timedOut = true
	}
	var res Result
	rb, rerr := os.ReadFile(outPath)
	if rerr != nil || json.Unmarshal(rb, &res) != nil {
		what := "the process running this case died"
		if timedOut {
			what = "the process running this case did not finish within 180 s"
		}
		out := buf.String()
		if i := strings.Index(out, "panic:"); i >= 0 {
			out = out[i:]
		}
		if len(out) > 700 {
			out = out[:700]
		}
		c.R.Violations = append(c.R.Violations, Issue{Kind: "violation", Name: name + ".crash", Input: hexIn(in), Impl: out, Runner: name,
			Detail: what + " (a panic in one of the library's goroutines, or a deadlock): the case is its own replay"})
		c.R.Dist["VIOLATION:"+name+".crash"]++
		c.R.Evaluations++
		return
	}
	c.R.Evaluations += res.Evaluations
	c.R.Traces += res.Traces
	for k, v := range res.Dist {
		c.R.Dist[k] += v
	}
	for _, k := range res.SeenKeys {
		if _, ok := c.R.seen[k]; !ok {
			c.R.seen[k] = struct{}{}
			c.R.Distinct++
		}
	}
	for _, m := range res.Mismatches {
		if len(c.R.Mismatches) < maxIssues {
			c.R.Mismatches = append(c.R.Mismatches, m)
		}
	}
	for _, v := range res.Violations {
		if len(c.R.Violations) < maxIssues {
			c.R.Violations = append(c.R.Violations, v)
		}
	}
	c.R.KnownHits = append(c.R.KnownHits, res.KnownHits...)
	c.R.Notes = append(c.R.Notes, res.Notes...)
}

type replayFile struct {
	Property string            `json:"property"`
	Kind     string            `json:"kind"`
	Runner   string            `json:"runner"`
	Input    map[string]string `json:"input_hex"`
}

func runReplay(c *Ctx, path string) {
	b, err := os.ReadFile(path)
	if err != nil {
		fatal("%v", err)
	}
	var rf replayFile
	if err := json.Unmarshal(b, &rf); err != nil {
		fatal("replay: %v", err)
	}
	if rf.Runner == "" {
		c.R.Note("replay file has no concrete runner (no-failing-input-found); nothing to re-run")
		return
	}
	in := map[string]string{}
	for k, v := range rf.Input {
		in[k] = unhx(v)
	}
	c.run(rf.Runner, in)
}

// genOps: model op -> the driver op that evaluates the function body REGENERATED from the Go source (Gen/Funcs.lean).
var genOps = map[string]string{"fold": "gen.ToRFC1459", "validnick": "gen.IsValidNick", "validuser": "gen.IsValidUser", "validchan": "gen.IsValidChannel",
	"glob": "gen.Glob", "validtag": "gen.validTag", "validtagvalue": "gen.validTagValue", "tagget": "gen.Tags.Get", "ctcpenc": "gen.EncodeCTCPRaw",
	"ctcpdec": "gen.DecodeCTCP", "parse": "gen.ParseEvent", "parsesource": "gen.ParseSource", "parsetags": "gen.ParseTags",
	"bytes": "gen.Event.Bytes", "len": "gen.Event.Len", "tagsbytes": "gen.Tags.Bytes", "tagset": "gen.Tags.Set", "fmt": "gen.Fmt", "stripraw": "gen.StripRaw",
	"plain": "gen.SASLPlain.Encode", "external": "gen.SASLExternal.Encode", "chunks": "gen.handleSASL.chunks"}

// genCheck compares the real function with its regenerated translation on the same input: this validates the translator
// and its run-time model (the tie theorems then carry the model's properties over to what the code says now).
func (c *Ctx) genCheck(modelOp string, hin map[string]string, impl string, args ...string) {
	op, ok := genOps[modelOp]
	if !ok {
		return
	}
	if g := c.L.Call(op, args...); g != impl {
		c.R.Mismatch("translated."+op[4:], hin, impl, g)
	}
	c.R.Dist["translated."+op[4:]]++
}

// compare is the common shape: impl output vs model op and vs spec op.
func (c *Ctx) compare(name string, in map[string]string, impl string, modelOp, specOp string, args ...string) {
	model := c.L.Call(modelOp, args...)
	if model != impl {
		c.R.Mismatch(name, hexIn(in), impl, model)
	}
	c.genCheck(modelOp, hexIn(in), impl, args...)
	if specOp != "" {
		spec := c.L.Call(specOp, args...)
		if spec != impl {
			c.R.Violation(name, hexIn(in), impl, spec, "implementation output differs from the specification's")
		}
	}
}

// twice evaluates a function of the implementation two times in a row on the same arguments: these are functions of their
// arguments, so the second answer is the first (a remembered "last pattern", a memo, a reused buffer would show here); the
// SECOND answer is the one compared with the model and the specification.
func (c *Ctx) twice(name string, in map[string]string, f func() string) string {
	a := safely(f)
	b := safely(f)
	if strings.HasPrefix(a, "panic") || strings.HasPrefix(b, "panic") {
		c.R.Violation(name+".panic", hexIn(in), "first call: "+a+", second call: "+b, "", "the function panicked")
		return b
	}
	if a != b {
		c.R.Violation(name+".stateful", hexIn(in), "first call: "+a+", second call: "+b, a, "the same call made twice in a row gave two different answers")
	}
	return b
}

func hexIn(in map[string]string) map[string]string {
	o := map[string]string{}
	for k, v := range in {
		o[k] = hx(v)
	}
	return o
}
