import Girc.Proofs.SimMain
import Girc.Proofs.SimWireAux
/-
  C04 at the wire level: the received LINES are parsed (the parser of C02), handled one at a time,
  locally injected events are processed after the event that injected them (Model/Run.lean), and as long
  as nothing has ended the connection the tracked state is what the event-level refinement says.
-/
namespace Girc.Proofs.SimWire
open Girc Girc.Model Girc.Spec
open Girc.Proofs.InvHandlers Girc.Proofs.SimWireAux

/-- Everything the library injects into its own receive queue is a local ERROR. -/
theorem injects_are_errors (cfg : Cfg) (cs : CState) (e : Event) (time idle : Bytes) (cs' : CState) (outs : List Out)
    (h : handleEvent cfg cs e time idle = .ok (cs', outs)) :
    ∀ x, Out.inject x ∈ outs → x.command = cERROR :=
  handleEvent_injErr cfg cs e time idle cs' outs h

/-- Once a run has ended it stays ended. -/
theorem stepLine_ended (cfg : Cfg) (r r' : Run) (line : Bytes) (h : stepLine cfg r line = .ok r')
    (he : r.ended ≠ .running) : r' = r := by
  unfold stepLine at h
  rw [if_pos he] at h
  injection h with h
  exact h.symm

/-- An ended run is returned unchanged by the rest of the history. -/
theorem runLines_ended (cfg : Cfg) (lines : List Bytes) : ∀ (r r' : Run), runLines cfg r lines = .ok r' →
    r.ended ≠ .running → r' = r := by
  induction lines with
  | nil =>
    intro r r' h _
    injection h with h
    exact h.symm
  | cons line rest ih =>
    intro r r' h he
    unfold runLines at h
    rw [List.foldlM_cons] at h
    obtain ⟨r1, h1, h2⟩ := bind_ok_inv h
    have e1 : r1 = r := stepLine_ended cfg r r1 line h1 he
    rw [e1] at h2
    exact ih r r' h2 he

/-- One parsed, conformant line that leaves the run running keeps the simulation relation. -/
theorem stepLine_sim (cfg : Cfg) (hT : cfg.disableTracking = false) (r0 r1 : Run) (ref : Ref) (line : Bytes) (e : Event)
    (hpe : parseEvent line = some e) (hs : Sim r0.cs.st ref) (hc : ref.conformant cfg e = true)
    (h : stepLine cfg r0 line = .ok r1) (hr : r1.ended = .running) : Sim r1.cs.st (ref.step cfg e) := by
  unfold stepLine at h
  split at h
  · next he =>
    injection h with h
    rw [h] at he
    exact absurd hr he
  · rw [hpe] at h
    obtain ⟨_, outs, ho⟩ := stepAll_single cfg (fun _ => true) 6 r0 r1 e h hr
    obtain ⟨cs', outs', ho', hsim⟩ := SimMain.sim_handleEvent cfg hT e [] [] hs hc
    rw [ho] at ho'
    injection ho' with ho'
    injection ho' with h1 _
    rw [h1]
    exact hsim

theorem runLines_sim (cfg : Cfg) (hT : cfg.disableTracking = false) (lines : List Bytes) :
    ∀ (es : List Event) (r0 : Run) (ref : Ref), lines.map parseEvent = es.map some → Sim r0.cs.st ref →
      conformantHistory cfg ref es = true → ∀ r, runLines cfg r0 lines = .ok r → r.ended = .running →
      Sim r.cs.st (es.foldl (Ref.step cfg) ref) := by
  induction lines with
  | nil =>
    intro es r0 ref hp hs _ r hr _
    cases es with
    | nil =>
      injection hr with hr
      rw [← hr]
      exact hs
    | cons e es' => cases hp
  | cons line rest ih =>
    intro es r0 ref hp hs hc r hr hrun
    cases es with
    | nil => cases hp
    | cons e es' =>
      rw [List.map_cons, List.map_cons] at hp
      injection hp with hpe hp'
      unfold conformantHistory at hc
      rw [Bool.and_eq_true] at hc
      unfold runLines at hr
      rw [List.foldlM_cons] at hr
      obtain ⟨r1, h1, hr2⟩ := bind_ok_inv hr
      have hr1 : r1.ended = .running := by
        apply Classical.byContradiction
        intro hne
        have := runLines_ended cfg rest r1 r hr2 hne
        rw [this] at hrun
        exact hne hrun
      have hs1 := stepLine_sim cfg hT r0 r1 ref line e hpe hs hc.1 h1 hr1
      rw [List.foldl_cons]
      exact ih es' r1 (ref.step cfg e) hp' hs1 hc.2 r hr2 hrun


/-- Wire-level refinement: for every history of lines that parse to a conformant history of events, if
    the run has not been ended by anything (no ERROR, no parse error, no requested close), what the
    state API shows equals the reference model's observation. -/
theorem refinement_wire (cfg : Cfg) (hT : cfg.disableTracking = false) (lines : List Bytes) (es : List Event)
    (hp : lines.map parseEvent = es.map some) (hc : conformantHistory cfg {} es = true)
    (r : Run) (hr : runLines cfg {} lines = .ok r) (hrun : r.ended = .running) :
    observe r.cs.st = (Ref.run cfg es).observe :=
  SimBase.observe_eq (runLines_sim cfg hT lines es {} {} hp SimBase.sim_init hc r hr hrun)

end Girc.Proofs.SimWire
