import Girc.Proofs.InvBase
import Girc.Proofs.InvJoinCore
namespace Girc.Proofs.InvJoin
open Girc Girc.Model Girc.Spec Girc.Proofs.InvBase

/-! ### Lookup-congruence of `InvL` in the user map -/

/-- `InvL` only looks at the user map through `get?` and the duplicate-freeness of its keys. -/
theorem invL_congr_users {cs : AMap Channel} {us us' : AMap User} (h : InvL cs us)
    (hnd : (AMap.keys us').Nodup) (hg : ∀ x, AMap.get? us' x = AMap.get? us x) : InvL cs us' := by
  refine ⟨h.chanKeys, hnd, h.chanKey, ?_, ?_, ?_, h.chanSorted, ?_, ?_⟩
  · intro n u hn; rw [hg] at hn; exact h.userKey n u hn
  · intro k ch hk n hn
    obtain ⟨u, hu, hku⟩ := h.chanToUser k ch hk n hn
    exact ⟨u, by rw [hg]; exact hu, hku⟩
  · intro n u hn; rw [hg] at hn; exact h.userToChan n u hn
  · intro n u hn; rw [hg] at hn; exact h.userSorted n u hn
  · intro n u hn; rw [hg] at hn; exact h.userHasChan n u hn

/-! ### "Ensure the channel / the user exists" -/

def ensureChannel (st : St) (name : Bytes) : St :=
  if (st.lookupChannel name).isNone then (st.createChannel name).1 else st

def ensureUser (st : St) (src : Source) : St :=
  if (st.lookupUser src.name).isNone then (st.createUser src).1 else st

theorem ensureChannel_of_none {st : St} {name : Bytes} (hl : st.lookupChannel name = none) :
    ensureChannel st name = (st.createChannel name).1 := by
  unfold ensureChannel; rw [hl]; rfl

theorem ensureChannel_of_some {st : St} {name : Bytes} {ch : Channel} (hl : st.lookupChannel name = some ch) :
    ensureChannel st name = st := by
  unfold ensureChannel; rw [hl]; rfl

theorem ensureUser_of_none {st : St} {src : Source} (hl : st.lookupUser src.name = none) :
    ensureUser st src = (st.createUser src).1 := by
  unfold ensureUser; rw [hl]; rfl

theorem ensureUser_of_some {st : St} {src : Source} {u : User} (hl : st.lookupUser src.name = some u) :
    ensureUser st src = st := by
  unfold ensureUser; rw [hl]; rfl

theorem ensureChannel_spec (st : St) (name : Bytes) (h : InvL st.channels st.users) :
    InvL (ensureChannel st name).channels (ensureChannel st name).users ∧
      ∃ ch, (ensureChannel st name).lookupChannel name = some ch := by
  cases hl : st.lookupChannel name with
  | some ch => rw [ensureChannel_of_some hl]; exact ⟨h, ch, hl⟩
  | none =>
    obtain ⟨c, hcn, hcu, hcs⟩ := createChannel_channels_of_none st name hl
    rw [ensureChannel_of_none hl, createChannel_users, hcs]
    refine ⟨invL_newChannel h hl (by rw [hcn]) hcu, c, ?_⟩
    rw [lookupChannel_eq, hcs]; exact get?_set_self _ _ _

/-- The state after `ensureUser`: channels untouched; the user found afterwards is either the
    stored one (users untouched) or a fresh one with no channels, stored under `fold src.name`. -/
theorem ensureUser_spec (st : St) (src : Source) (h : InvL st.channels st.users) :
    (ensureUser st src).channels = st.channels ∧
    ∃ u, (ensureUser st src).lookupUser src.name = some u ∧ fold src.name = fold u.nick ∧
      ((AMap.get? st.users (fold src.name) = some u ∧ (ensureUser st src).users = st.users) ∨
       (AMap.get? st.users (fold src.name) = none ∧ u.chans = [] ∧
          (ensureUser st src).users = AMap.set st.users (fold src.name) u)) := by
  cases hl : st.lookupUser src.name with
  | some u =>
    rw [ensureUser_of_some hl]
    refine ⟨rfl, u, hl, h.userKey _ u hl, Or.inl ⟨hl, rfl⟩⟩
  | none =>
    obtain ⟨u, hun, huc, hus⟩ := createUser_users_of_none st src hl
    rw [ensureUser_of_none hl]
    refine ⟨createUser_channels st src, u, ?_, by rw [hun], Or.inr ⟨hl, huc, hus⟩⟩
    rw [lookupUser_eq, hus]; exact get?_set_self _ _ _

/-- `createUser` (unconditional, as in NAMES) behaves like `ensureUser`. -/
theorem createUser_eq_ensureUser (st : St) (src : Source) : (st.createUser src).1 = ensureUser st src := by
  cases hl : st.lookupUser src.name with
  | some u => rw [createUser_of_some st src hl, ensureUser_of_some hl]
  | none => rw [ensureUser_of_none hl]

/-- The joint update of both maps after `ensureUser`, for both handlers. -/
theorem invL_join_ensured {st : St} (h : InvL st.channels st.users) (src : Source)
    {k a b : Bytes} {ch : Channel} {u u' : User}
    (hc : AMap.get? st.channels k = some ch)
    (hu : (ensureUser st src).lookupUser src.name = some u)
    (ha : fold a = fold src.name) (hb : fold b = k)
    (hnick : u'.nick = (u.addChannel b).nick) (hchans : u'.chans = (u.addChannel b).chans) :
    InvL (AMap.set (ensureUser st src).channels k (ch.addUser a))
         (AMap.set (ensureUser st src).users (fold src.name) u') := by
  obtain ⟨hcs, w, hw, hwn, hcase⟩ := ensureUser_spec st src h
  rw [hu] at hw; cases hw
  rw [hcs]
  rcases hcase with ⟨hget, hus⟩ | ⟨hget, hnil, hus⟩
  · rw [hus]
    exact invL_join_add h hc (Or.inl hget) hwn ha hb hnick hchans
  · rw [hus]
    have key := invL_join_add (u' := u') h hc (Or.inr ⟨hget, hnil⟩) hwn ha hb hnick hchans
    refine invL_congr_users key ?_ (fun x => get?_set_set _ _ _ _ x)
    exact keys_set_nodup (keys_set_nodup h.userKeys _ _) _ _

/-! ### `handleJOIN` -/

def joinAttrs (params : List Bytes) (user : User) : User :=
  match params with
  | _ :: acct :: rest =>
    let user := if acct ≠ sStar then { user with account := acct } else user
    (match rest with
     | nm :: _ => { user with name := nm }
     | [] => user)
  | _ => user

theorem joinAttrs_nick (params : List Bytes) (u : User) : (joinAttrs params u).nick = u.nick := by
  unfold joinAttrs
  split
  · split <;> (dsimp only; split <;> rfl)
  · rfl

theorem joinAttrs_chans (params : List Bytes) (u : User) : (joinAttrs params u).chans = u.chans := by
  unfold joinAttrs
  split
  · split <;> (dsimp only; split <;> rfl)
  · rfl

def joinC (cfg : Cfg) (params : List Bytes) (src : Source) (channelName : Bytes)
    (channel : Channel) (user : User) (st : St) : M (St × List Out) :=
  let channel := channel.addUser user.nick
  let user := user.addChannel channel.name
  let user := joinAttrs params user
  let st := setChannel st (fold channelName) channel
  let st := setUser st (fold src.name) user
  if fold src.name = getID cfg st then
    .ok ({ st with ident := src.ident, host := src.host },
         [.send (whoEvent channelName), .send { command := cMODE, params := [channelName] }])
  else .ok (st, [.send (whoEvent src.name)])

def joinB (cfg : Cfg) (params : List Bytes) (src : Source) (channelName : Bytes)
    (channel : Channel) (st : St) : M (St × List Out) := do
  let user ← deref (st.lookupUser src.name)
  joinC cfg params src channelName channel user st

def joinA (cfg : Cfg) (params : List Bytes) (src : Source) (channelName : Bytes) (st : St) :
    M (St × List Out) := do
  let channel ← deref (st.lookupChannel channelName)
  joinB cfg params src channelName channel (ensureUser st src)

theorem joinA_inv (cfg : Cfg) (params : List Bytes) (src : Source) (channelName : Bytes) (st : St)
    (h : InvL st.channels st.users) {ch : Channel} (hch : st.lookupChannel channelName = some ch) :
    ∃ st' outs, joinA cfg params src channelName st = .ok (st', outs) ∧ Inv st' := by
  obtain ⟨_, u, hu, hun, _⟩ := ensureUser_spec st src h
  have hk : fold channelName = fold ch.name := h.chanKey _ ch hch
  have hfinal : InvL
      (AMap.set (ensureUser st src).channels (fold channelName) (ch.addUser u.nick))
      (AMap.set (ensureUser st src).users (fold src.name)
        (joinAttrs params (u.addChannel (ch.addUser u.nick).name))) := by
    refine invL_join_ensured h src hch hu hun.symm (b := (ch.addUser u.nick).name) ?_ ?_ ?_
    · rw [addUser_name]; exact hk.symm
    · rw [joinAttrs_nick]
    · rw [joinAttrs_chans]
  unfold joinA
  rw [hch]
  show ∃ st' outs, joinB cfg params src channelName ch (ensureUser st src) = .ok (st', outs) ∧ Inv st'
  unfold joinB
  rw [hu]
  show ∃ st' outs, joinC cfg params src channelName ch u (ensureUser st src) = .ok (st', outs) ∧ Inv st'
  unfold joinC
  dsimp only
  split
  · exact ⟨_, _, rfl, inv_of_invL (st := { setUser (setChannel (ensureUser st src) (fold channelName) (ch.addUser u.nick))
        (fold src.name) (joinAttrs params (u.addChannel (ch.addUser u.nick).name)) with
        ident := src.ident, host := src.host }) hfinal⟩
  · exact ⟨_, _, rfl, inv_of_invL (st := setUser (setChannel (ensureUser st src) (fold channelName) (ch.addUser u.nick))
        (fold src.name) (joinAttrs params (u.addChannel (ch.addUser u.nick).name))) hfinal⟩

theorem handleJOIN_inv (cfg : Cfg) (st : St) (e : Event) (h : Inv st) :
    ∃ st' outs, handleJOIN cfg st e = .ok (st', outs) ∧ Inv st' := by
  unfold handleJOIN
  split
  · rename_i src channelName tail hsrc hparams
    show ∃ st' outs, joinA cfg e.params src channelName (ensureChannel st channelName) = .ok (st', outs) ∧ Inv st'
    obtain ⟨h1, ch, hch⟩ := ensureChannel_spec st channelName h.toInvL
    exact joinA_inv cfg e.params src channelName _ h1 hch
  · exact ⟨st, [], rfl, h⟩

/-! ### `handleNAMES` -/

/-- The part of `namesEntry` after the source has been determined. -/
def namesBody (channelKey : Bytes) (st : St) (modes : Bytes) (src : Source) : M St :=
  let st := (st.createUser src).1
  match st.lookupUser src.name with
  | none => .ok st
  | some user => do
    let channel ← deref (AMap.get? st.channels channelKey)
    let user := user.addChannel channel.name
    let channel := channel.addUser (fold src.name)
    let user := { user with perms := AMap.set user.perms (fold channel.name) (permsFromPrefix modes) }
    .ok (setChannel (setUser st (fold src.name) user) channelKey channel)

/-- Every entry either leaves the state alone or runs `namesBody` for some source. -/
theorem namesEntry_cases (channelKey : Bytes) (st : St) (part : Bytes) :
    namesEntry channelKey st part = .ok st ∨
      ∃ modes src, namesEntry channelKey st part = namesBody channelKey st modes src := by
  unfold namesEntry
  split
  rename_i modes nick ok _
  split
  · exact Or.inl rfl
  · dsimp only
    split
    · exact Or.inr ⟨modes, parseSource nick, rfl⟩
    · split
      · exact Or.inl rfl
      · exact Or.inr ⟨modes, ⟨nick, [], []⟩, rfl⟩

/-- The loop invariant of `handleNAMES`: the invariant, and the channel is still there. -/
def NamesInv (channelKey : Bytes) (st : St) : Prop :=
  Inv st ∧ ∃ ch, AMap.get? st.channels channelKey = some ch

theorem namesBody_inv (channelKey : Bytes) (st : St) (modes : Bytes) (src : Source)
    (h : NamesInv channelKey st) :
    ∃ st', namesBody channelKey st modes src = .ok st' ∧ NamesInv channelKey st' := by
  obtain ⟨hinv, ch, hch⟩ := h
  have hL := hinv.toInvL
  obtain ⟨hcs, u, hu, _, _⟩ := ensureUser_spec st src hL
  have hk : channelKey = fold ch.name := hL.chanKey _ ch hch
  have hfinal := invL_join_ensured (u' := { u.addChannel ch.name with
      perms := AMap.set (u.addChannel ch.name).perms (fold (ch.addUser (fold src.name)).name) (permsFromPrefix modes) })
    hL src hch hu (fold_idem src.name) hk.symm rfl rfl
  unfold namesBody
  dsimp only
  rw [createUser_eq_ensureUser, hu]
  dsimp only
  rw [hcs, hch]
  refine ⟨_, rfl, ?_, ch.addUser (fold src.name), ?_⟩
  · exact inv_of_invL (st := setChannel (setUser (ensureUser st src) (fold src.name) _) channelKey _) hfinal
  · show AMap.get? (AMap.set (ensureUser st src).channels channelKey _) channelKey = _
    exact get?_set_self _ _ _

theorem namesEntry_inv (channelKey : Bytes) (st : St) (part : Bytes) (h : NamesInv channelKey st) :
    ∃ st', namesEntry channelKey st part = .ok st' ∧ NamesInv channelKey st' := by
  rcases namesEntry_cases channelKey st part with he | ⟨modes, src, he⟩
  · exact ⟨st, he, h⟩
  · rw [he]; exact namesBody_inv channelKey st modes src h

theorem names_foldlM_inv (channelKey : Bytes) (parts : List Bytes) (st : St) (h : NamesInv channelKey st) :
    ∃ st', parts.foldlM (namesEntry channelKey) st = .ok st' ∧ NamesInv channelKey st' := by
  induction parts generalizing st with
  | nil => exact ⟨st, rfl, h⟩
  | cons p ps ih =>
    obtain ⟨st1, he, h1⟩ := namesEntry_inv channelKey st p h
    rw [List.foldlM_cons, he]
    exact ih st1 h1

theorem handleNAMES_inv (st : St) (e : Event) (h : Inv st) :
    ∃ st', handleNAMES st e = .ok st' ∧ Inv st' := by
  unfold handleNAMES
  split
  · exact ⟨st, rfl, h⟩
  · rename_i hlen
    have hlt : 2 < e.params.length := by omega
    have hidx : idx e.params 2 = .ok e.params[2] := by
      unfold idx
      rw [List.getElem?_eq_getElem hlt]
    rw [hidx]
    show ∃ st', (match st.lookupChannel e.params[2] with
      | none => Except.ok st
      | some _ => List.foldlM (namesEntry (fold e.params[2])) st (splitOnByte SP e.last)) = .ok st' ∧ Inv st'
    cases hl : st.lookupChannel e.params[2] with
    | none => exact ⟨st, rfl, h⟩
    | some ch =>
      obtain ⟨st', he, hi, _⟩ := names_foldlM_inv (fold e.params[2]) (splitOnByte SP e.last) st ⟨h, ch, hl⟩
      exact ⟨st', he, hi⟩

end Girc.Proofs.InvJoin
