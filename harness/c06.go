package main

import (
	"bufio"
	"fmt"
	"net"
	"sort"
	"strconv"
	"strings"
	"sync"
	"sync/atomic"
	"time"

	"github.com/lrstanley/girc"
)

// ---- C06: handler dispatch on a real client (in process, net.Pipe peer), recording handlers ----
//
// Sequential mode: registrar operations happen only between events (after a PING/PONG barrier and after
// background invocations have settled), so the exact set of invocations per event is determined; it is
// compared with the Lean dispatch model (`disp.seq`) and judged by the property's predicates.
// Concurrent mode: registrars run while events stream; the window predicates are judged.

type invRec struct {
	H          int // handler index
	Seq        int // event sequence number (from the event text)
	Start, End int64
}

type dispHandler struct {
	idx      int
	kind     string // add | addbg | addhandler | tmp | tmpdl
	cmd      string // as registered (any case)
	behave   string // normal | panic | trueat1 | trueat2
	cuid     string
	done     chan struct{}
	removed  bool  // the harness (or the handler itself) has removed it
	regStamp int64 // stamp when registration returned
	remStamp int64 // stamp when removal returned (0 = still registered)
	calls    int32
}

type dispClient struct {
	c        *girc.Client
	srv      net.Conn
	rd       *bufio.Reader
	clock    int64
	mu       sync.Mutex
	invs     []invRec
	hs       []*dispHandler
	ret      chan error
	pongs    chan string
	recoverN int32
}

func (d *dispClient) stamp() int64 { return atomic.AddInt64(&d.clock, 1) }

func seqOf(e girc.Event) int {
	l := e.Last()
	i := strings.LastIndex(l, "n=")
	if i < 0 {
		return -1
	}
	n, err := strconv.Atoi(l[i+2:])
	if err != nil {
		return -1
	}
	return n
}

func newDispClient(withRecover bool) (*dispClient, error) {
	cfg := girc.Config{Server: "irc.example.org", Port: 6667, Nick: "me", User: "me", Name: "me", AllowFlood: true}
	if withRecover {
		cfg.RecoverFunc = func(c *girc.Client, e *girc.HandlerError) {}
	}
	return newDispClientFor(girc.New(cfg))
}

// newDispClientFor connects an existing client to a scripted peer and registers it.
func newDispClientFor(cl *girc.Client) (*dispClient, error) {
	d := &dispClient{ret: make(chan error, 1), pongs: make(chan string, 64)}
	d.c = cl
	cli, srv := net.Pipe()
	d.srv = srv
	d.rd = bufio.NewReader(srv)
	go func() { d.ret <- d.c.MockConnect(cli) }()
	go func() {
		for {
			l, err := d.rd.ReadString('\n')
			if strings.HasPrefix(l, "PONG") {
				d.pongs <- strings.TrimRight(l, "\r\n")
			}
			if err != nil {
				close(d.pongs)
				return
			}
		}
	}()
	if !d.send(":srv 001 me :Welcome") || !d.barrier("init") {
		return nil, fmt.Errorf("client did not register")
	}
	// 001's background handler sets the nick; wait for it (echo detection compares with it)
	for i := 0; i < 200 && d.c.GetNick() != "me"; i++ {
		time.Sleep(time.Millisecond)
	}
	return d, nil
}

func (d *dispClient) send(l string) bool {
	d.srv.SetWriteDeadline(time.Now().Add(3 * time.Second))
	_, err := d.srv.Write([]byte(l + "\r\n"))
	return err == nil
}

func (d *dispClient) barrier(tok string) bool {
	if !d.send("PING :" + tok) {
		return false
	}
	t := time.After(5 * time.Second)
	for {
		select {
		case p, ok := <-d.pongs:
			if !ok {
				return false
			}
			if strings.HasSuffix(p, tok) {
				return true
			}
		case <-t:
			return false
		}
	}
}

// settle waits until no recorded invocation is still running and the count is stable (background handlers).
func (d *dispClient) settle() {
	last := -1
	for i := 0; i < 400; i++ {
		d.mu.Lock()
		n := len(d.invs)
		open := 0
		for _, r := range d.invs {
			if r.End == 0 {
				open++
			}
		}
		d.mu.Unlock()
		if open == 0 && n == last {
			return
		}
		last = n
		time.Sleep(2 * time.Millisecond)
	}
}

func (d *dispClient) close() {
	d.c.Close()
	select {
	case <-d.ret:
	case <-time.After(5 * time.Second):
	}
	d.srv.Close()
}

func (d *dispClient) register(kind, cmd, behave string) *dispHandler {
	h := &dispHandler{idx: len(d.hs), kind: kind, cmd: cmd, behave: behave}
	body := func(c *girc.Client, e girc.Event) bool {
		seq := seqOf(e)
		if seq < 0 {
			return false // registration traffic, barriers
		}
		n := atomic.AddInt32(&h.calls, 1)
		d.mu.Lock()
		d.invs = append(d.invs, invRec{H: h.idx, Seq: seq, Start: d.stamp()})
		k := len(d.invs) - 1
		d.mu.Unlock()
		defer func() {
			d.mu.Lock()
			d.invs[k].End = d.stamp()
			d.mu.Unlock()
		}()
		if h.kind == "add" || h.kind == "addhandler" {
			time.Sleep(200 * time.Microsecond) // foreground handlers take a little time: ordering violations become visible
		}
		switch h.behave {
		case "panic":
			panic("handler " + fmt.Sprint(h.idx) + " panics")
		case "trueat1":
			return n >= 1
		case "trueat2":
			return n >= 2
		}
		return false
	}
	switch kind {
	case "add":
		h.cuid = d.c.Handlers.Add(cmd, func(c *girc.Client, e girc.Event) { body(c, e) })
	case "addbg":
		h.cuid = d.c.Handlers.AddBg(cmd, func(c *girc.Client, e girc.Event) { body(c, e) })
	case "addhandler":
		h.cuid = d.c.Handlers.AddHandler(cmd, girc.HandlerFunc(func(c *girc.Client, e girc.Event) { body(c, e) }))
	case "tmp":
		h.cuid, h.done = d.c.Handlers.AddTmp(cmd, 0, body)
	case "tmpdl":
		h.cuid, h.done = d.c.Handlers.AddTmp(cmd, 25*time.Millisecond, body)
	}
	h.regStamp = d.stamp()
	d.hs = append(d.hs, h)
	return h
}

func isBg(kind string) bool { return kind == "addbg" || kind == "tmp" || kind == "tmpdl" }

func doneClosed(h *dispHandler, wait time.Duration) bool {
	if h.done == nil {
		return false
	}
	select {
	case <-h.done:
		return true
	default:
	}
	if wait <= 0 {
		return false
	}
	select {
	case <-h.done:
		return true
	case <-time.After(wait):
		return false
	}
}

var dispCmds = []string{"PRIVMSG", "privmsg", "PrivMsg", "NOTICE", "notice", "301", "INVITE", "invite", "PONG", "pong", girc.ALL_EVENTS}

// runDispSeq: one sequential script. in["script"] = comma separated steps:
//
//	reg:<kind>:<cmd>:<behave> | rm:<h> | clear:<cmd> | clearall | ev:<cmd>:<echo 0/1> | sleep (40 ms: deadlines pass)
func runDispSeq(c *Ctx, in map[string]string) {
	hin := hexIn(in)
	steps := strings.Split(in["script"], ",")
	d, err := newDispClient(in["recover"] != "0")
	if err != nil {
		c.R.Mismatch("disp.setup", hin, err.Error(), "")
		return
	}
	defer d.close()
	var model []string // the same script for the Lean model
	evCmd := map[int]string{}
	evEcho := map[int]bool{}
	loose := map[int]bool{}        // events inside a burst: self-removing temporary handlers may or may not still be there
	loosePair := map[[2]int]bool{} // (handler, event): a deadline handler whose deadline may have passed around this event
	regAt := map[int]time.Time{}
	markDeadline := func(n int, sent time.Time) {
		// a handler with a 25 ms deadline is certainly registered for an event handled within 15 ms of its
		// registration, certainly gone once its done channel was seen closed (the model is told); in between, either
		for _, h := range d.hs {
			if h.kind == "tmpdl" && !h.removed && time.Since(regAt[h.idx]) > 15*time.Millisecond {
				loosePair[[2]int{h.idx, n}] = true
			}
		}
		_ = sent
	}
	nev := 0
	viol := func(name, impl, detail string) { c.R.Violation("dispseq."+name, hin, impl, "", detail) }
	// waitExpected: background handlers run asynchronously, so before anything else happens wait until every
	// invocation the model expects for the events sent so far has been recorded and has returned
	waitExpected := func(from, to int) {
		resp := c.L.Call("disp.seq", strings.Join(model, ","))
		parts := strings.SplitN(resp, " table=", 2)
		if len(parts) != 2 {
			return
		}
		exp := map[[2]int]bool{}
		for _, p := range strings.Split(parts[0], ";") {
			kv := strings.SplitN(p, "=", 2)
			if len(kv) != 2 {
				continue
			}
			n, _ := strconv.Atoi(kv[0])
			if n < from || n >= to {
				continue
			}
			for _, x := range strings.Split(kv[1], ",") {
				if hi, err := strconv.Atoi(x); err == nil {
					if loosePair[[2]int{hi, n}] || loose[n] && d.hs[hi].done != nil && (d.hs[hi].behave != "normal" || d.hs[hi].kind == "tmpdl") {
						continue
					}
					exp[[2]int{hi, n}] = true
				}
			}
		}
		for i := 0; i < 1000; i++ {
			d.mu.Lock()
			missing := len(exp)
			for _, r := range d.invs {
				if exp[[2]int{r.H, r.Seq}] && r.End != 0 {
					missing--
				}
			}
			d.mu.Unlock()
			if missing <= 0 {
				break
			}
			time.Sleep(2 * time.Millisecond)
		}
		d.settle()
	}
	syncTmp := func() {
		// temporary handlers that returned true (or whose deadline passed) remove themselves: tell the model
		for _, h := range d.hs {
			if h.done != nil && !h.removed && doneClosed(h, 0) {
				h.removed = true
				model = append(model, fmt.Sprintf("d%d", h.idx))
			}
		}
	}
	for _, st := range steps {
		f := strings.Split(st, ":")
		switch f[0] {
		case "reg":
			h := d.register(f[1], f[2], f[3])
			regAt[h.idx] = time.Now()
			bg, tmp := "0", ""
			if isBg(h.kind) {
				bg = "1"
			}
			if h.done != nil {
				tmp = "1"
			}
			model = append(model, "a"+bg+tmp+":"+hx(f[2]))
		case "rm":
			i, _ := strconv.Atoi(f[1])
			if i < len(d.hs) {
				h := d.hs[i]
				ok := d.c.Handlers.Remove(h.cuid)
				if ok == h.removed {
					viol("remove_result", fmt.Sprintf("Remove(handler %d) = %v, removed before = %v", i, ok, h.removed), "Remove reports success exactly for a handler that is still registered")
				}
				h.removed = true
				model = append(model, fmt.Sprintf("r%d", i))
			}
		case "clear":
			d.c.Handlers.Clear(f[1])
			for _, h := range d.hs {
				if strings.EqualFold(h.cmd, f[1]) {
					h.removed = true
				}
			}
			model = append(model, "c"+hx(f[1]))
		case "clearall":
			d.c.Handlers.ClearAll()
			for _, h := range d.hs {
				h.removed = true
			}
			model = append(model, "C")
		case "sleep":
			time.Sleep(40 * time.Millisecond)
			syncTmp()
		case "nickecho":
			// the client's nick changes and the echo of one of its own messages follows in the same segment:
			// the PRIVMSG must be recognised as an echo (wildcard handlers only)
			evCmd[nev], evEcho[nev] = "PRIVMSG", true
			model = append(model, "e1:"+hx("PRIVMSG"))
			d.srv.SetWriteDeadline(time.Now().Add(3 * time.Second))
			if _, err := d.srv.Write([]byte(fmt.Sprintf(":me!me@my.host NICK newme\r\n:newme!me@my.host PRIVMSG #c :text n=%d\r\n", nev))); err != nil || !d.barrier(fmt.Sprintf("ne%d", nev)) {
				c.R.Violation("dispseq.stalled", hin, fmt.Sprintf("no PONG after event %d: the client stopped dispatching events", nev), "", "every event is delivered; with a recover function a panicking handler does not stop later events from being delivered")
				return
			}
			markDeadline(nev, time.Now())
			nev++
			waitExpected(nev-1, nev)
			if !d.send(":newme!me@my.host NICK me") || !d.barrier("back") {
				c.R.Mismatch("disp.stalled", hin, "no PONG after the nick change back", "")
				return
			}
			syncTmp()
		case "collideecho":
			// the application asks for a nickname that is taken; the server refuses it (433) and the client proposes another one.
			// Until the SERVER says so (a NICK message) the client is who it was: the echo of one of its own messages is still an
			// echo, and a message from the real holder of the proposed nickname is not
			d.c.Cmd.Nick("alice")
			time.Sleep(5 * time.Millisecond)
			if !d.send(":srv 433 me alice :Nickname is already in use") || !d.barrier(fmt.Sprintf("ce%d", nev)) {
				c.R.Violation("dispseq.stalled", hin, fmt.Sprintf("no PONG after the nickname refusal before event %d", nev), "", "every event is delivered")
				return
			}
			for _, ev := range []struct {
				src  string
				echo bool
			}{{":me!me@my.host", true}, {":alice_!a@other.host", false}} {
				evCmd[nev], evEcho[nev] = "PRIVMSG", ev.echo
				model = append(model, "e"+map[bool]string{true: "1", false: "0"}[ev.echo]+":"+hx("PRIVMSG"))
				if !d.send(fmt.Sprintf("%s PRIVMSG #c :text n=%d", ev.src, nev)) || !d.barrier(fmt.Sprintf("cf%d", nev)) {
					c.R.Violation("dispseq.stalled", hin, fmt.Sprintf("no PONG after event %d: the client stopped dispatching events", nev), "", "every event is delivered")
					return
				}
				markDeadline(nev, time.Now())
				nev++
				waitExpected(nev-1, nev)
			}
			syncTmp()
		case "ownping":
			// the answer to a PING the CLIENT sent is an event like any other: it reaches the PONG handlers and the wildcard ones
			id := fmt.Sprintf("lag n=%d", nev)
			d.c.Cmd.Ping(id)
			time.Sleep(5 * time.Millisecond)
			evCmd[nev], evEcho[nev] = "PONG", false
			model = append(model, "e0:"+hx("PONG"))
			if !d.send(":srv PONG srv :"+id) || !d.barrier(fmt.Sprintf("op%d", nev)) {
				c.R.Violation("dispseq.stalled", hin, fmt.Sprintf("no PONG after event %d: the client stopped dispatching events", nev), "", "every event is delivered")
				return
			}
			markDeadline(nev, time.Now())
			nev++
			waitExpected(nev-1, nev)
			syncTmp()
		case "burst":
			// several events back to back (no barrier in between): ordering across events is at stake
			k, _ := strconv.Atoi(f[1])
			first := nev
			for j := 0; j < k; j++ {
				cmd := []string{"PRIVMSG", "NOTICE", "INVITE"}[(nev+j)%3]
				evCmd[nev], evEcho[nev] = cmd, false
				loose[nev] = true
				model = append(model, "e0:"+hx(cmd))
				if !d.send(fmt.Sprintf(":bob!b@h %s me :text n=%d", cmd, nev)) {
					c.R.Mismatch("disp.stalled", hin, fmt.Sprintf("write of event %d failed", nev), "")
					return
				}
				nev++
			}
			if !d.barrier(fmt.Sprintf("bb%d", first)) {
				c.R.Violation("dispseq.stalled", hin, fmt.Sprintf("no PONG after the burst starting at event %d: the client stopped dispatching events", first), "", "every event is delivered; with a recover function a panicking handler does not stop later events from being delivered")
				return
			}
			for n := first; n < nev; n++ {
				markDeadline(n, time.Now())
			}
			waitExpected(first, nev)
			// self-removing temporary handlers may have gone during the burst
			time.Sleep(2 * time.Millisecond)
			syncTmp()
		case "ev":
			src := ":bob!b@h"
			if f[2] == "1" {
				src = ":me!me@my.host"
			}
			target := "me"
			if f[1] == "301" {
				target = "me bob"
			}
			evCmd[nev], evEcho[nev] = f[1], f[2] == "1" && (f[1] == "PRIVMSG" || f[1] == "NOTICE")
			echoFlag := "0"
			if evEcho[nev] {
				echoFlag = "1"
			}
			model = append(model, "e"+echoFlag+":"+hx(f[1]))
			if !d.send(fmt.Sprintf("%s %s %s :text n=%d", src, f[1], target, nev)) || !d.barrier(fmt.Sprintf("b%d", nev)) {
				c.R.Violation("dispseq.stalled", hin, fmt.Sprintf("no PONG after event %d: the client stopped dispatching events", nev), "", "every event is delivered; with a recover function a panicking handler does not stop later events from being delivered")
				return
			}
			markDeadline(nev, time.Now())
			nev++
			waitExpected(nev-1, nev)
			// a temporary handler that has just returned true closes done right after its Remove
			for _, h := range d.hs {
				if h.done != nil && !h.removed && (h.behave == "trueat1" && h.calls >= 1 || h.behave == "trueat2" && h.calls >= 2) {
					if !doneClosed(h, 500*time.Millisecond) {
						viol("tmp_done", fmt.Sprintf("handler %d returned true, done not closed", h.idx), "a temporary handler that returned true is removed and its done channel closed")
					}
				}
			}
			syncTmp()
		}
	}
	d.settle()
	// --- the model's answer
	resp := c.L.Call("disp.seq", strings.Join(model, ","))
	want := map[int]string{}
	parts := strings.SplitN(resp, " table=", 2)
	if len(parts) != 2 {
		c.R.Mismatch("disp.model", hin, strings.Join(model, ","), resp)
		return
	}
	for _, p := range strings.Split(parts[0], ";") {
		kv := strings.SplitN(p, "=", 2)
		if len(kv) == 2 {
			n, _ := strconv.Atoi(kv[0])
			want[n] = kv[1]
		}
	}
	// --- the implementation's invocations per event
	d.mu.Lock()
	invs := append([]invRec(nil), d.invs...)
	d.mu.Unlock()
	got := map[int][]int{}
	for _, r := range invs {
		got[r.Seq] = append(got[r.Seq], r.H)
	}
	volatile := func(h, n int) bool {
		hd := d.hs[h]
		return loosePair[[2]int{h, n}] || loose[n] && hd.done != nil && (hd.behave != "normal" || hd.kind == "tmpdl")
	}
	for n := 0; n < nev; n++ {
		sort.Ints(got[n])
		var ss []string
		for _, h := range got[n] {
			if volatile(h, n) {
				continue
			}
			ss = append(ss, strconv.Itoa(h))
		}
		g := strings.Join(ss, ",")
		{
			var ws []string
			for _, x := range strings.Split(want[n], ",") {
				if hi, err := strconv.Atoi(x); err == nil && !volatile(hi, n) {
					ws = append(ws, x)
				}
			}
			want[n] = strings.Join(ws, ",")
		}
		// predicates first (they name the violated clause), then the model comparison
		seen := map[int]int{}
		for _, h := range got[n] {
			seen[h]++
			hd := d.hs[h]
			wild := hd.cmd == girc.ALL_EVENTS
			if !wild && (!strings.EqualFold(hd.cmd, evCmd[n]) || evEcho[n]) {
				viol("routing", fmt.Sprintf("event %d (%s echo=%v) reached handler %d registered for %q", n, evCmd[n], evEcho[n], h, hd.cmd), "an event goes to the handlers of its command and to wildcard handlers; an echo to wildcard handlers only")
			}
		}
		for h, k := range seen {
			if k > 1 {
				viol("more_than_once", fmt.Sprintf("event %d reached handler %d %d times", n, h, k), "exactly once")
			}
		}
		if g != want[n] {
			// which clause? a handler registered throughout that was not invoked = exactly-once; otherwise model mismatch
			wantSet := map[string]bool{}
			for _, x := range strings.Split(want[n], ",") {
				wantSet[x] = true
			}
			gotSet := map[string]bool{}
			for _, x := range ss {
				gotSet[x] = true
			}
			reported := false
			for x := range wantSet {
				if x != "" && !gotSet[x] {
					viol("missed", fmt.Sprintf("event %d (%s echo=%v): handler %s is registered for it and was not invoked (invoked: [%s])", n, evCmd[n], evEcho[n], x, g), "every registered handler for the command and every wildcard handler is invoked exactly once")
					reported = true
				}
			}
			for x := range gotSet {
				if !wantSet[x] {
					hi, _ := strconv.Atoi(x)
					if d.hs[hi].removed || d.hs[hi].done != nil {
						viol("invoked_after_removal", fmt.Sprintf("event %d reached handler %s after its removal", n, x), "a removed handler, a temporary handler that returned true or whose deadline passed, is never invoked again")
						reported = true
					}
				}
			}
			if !reported {
				c.R.Mismatch("disp.seq", hin, fmt.Sprintf("event %d: [%s]", n, g), "["+want[n]+"]")
			}
		}
	}
	// ordering: every foreground invocation of event n has returned before any invocation of event n+1 starts
	maxFgEnd := map[int]int64{}
	minStart := map[int]int64{}
	for _, r := range invs {
		if !isBg(d.hs[r.H].kind) && r.End > maxFgEnd[r.Seq] {
			maxFgEnd[r.Seq] = r.End
		}
		if s, ok := minStart[r.Seq]; !ok || r.Start < s {
			minStart[r.Seq] = r.Start
		}
	}
	for n := 0; n+1 < nev; n++ {
		if s, ok := minStart[n+1]; ok && maxFgEnd[n] > s {
			viol("order", fmt.Sprintf("a handler saw event %d (stamp %d) before a foreground handler of event %d returned (stamp %d)", n+1, s, n, maxFgEnd[n]), "foreground handlers for event N have all returned before any handler sees event N+1")
		}
	}
	// panics are contained: with a recover function every panic was reported and the connection is still alive
	if in["recover"] != "0" {
		select {
		case err := <-d.ret:
			viol("connection_died", fmt.Sprintf("Connect returned %v", err), "a panicking handler must not stop the client when a recover function is installed")
		default:
		}
	}
	// deadlines: a tmpdl handler still registered at the end has its done channel closed once its deadline passed
	for _, h := range d.hs {
		if h.kind == "tmpdl" && !h.removed {
			if !doneClosed(h, 300*time.Millisecond) {
				viol("deadline", fmt.Sprintf("handler %d: deadline passed, done not closed", h.idx), "a temporary handler whose deadline passed is removed and its done channel closed")
			}
		}
	}
	c.R.Count(in["script"], nev >= 3 && len(d.hs) >= 2, fmt.Sprintf("events=%d", nev/4*4), fmt.Sprintf("handlers=%d", len(d.hs)/3*3))
}

func genDispScript(r *RNG, n int) string {
	var steps []string
	nh := 0
	behaves := []string{"normal", "normal", "normal", "panic"}
	for i := 0; i < n; i++ {
		switch k := r.Intn(20); {
		case k < 6 || nh == 0:
			kind := r.Pick([]string{"add", "add", "addbg", "addhandler", "tmp", "tmpdl"})
			b := r.Pick(behaves)
			if kind == "tmp" || kind == "tmpdl" {
				b = r.Pick([]string{"normal", "trueat1", "trueat2"})
			}
			steps = append(steps, "reg:"+kind+":"+r.Pick(dispCmds)+":"+b)
			nh++
		case k < 8:
			steps = append(steps, fmt.Sprintf("rm:%d", r.Intn(nh)))
		case k == 8:
			steps = append(steps, "clear:"+r.Pick(dispCmds[:8]))
		case k == 9 && r.Chance(30):
			steps = append(steps, "clearall")
		case k == 10:
			steps = append(steps, "sleep")
		case k == 13 && r.Chance(50):
			steps = append(steps, r.Pick([]string{"nickecho", "nickecho", "collideecho"}))
		case k == 11 || k == 12:
			steps = append(steps, fmt.Sprintf("burst:%d", 2+r.Intn(6)))
		default:
			cmd := r.Pick([]string{"PRIVMSG", "PRIVMSG", "NOTICE", "301", "INVITE"})
			echo := "0"
			if (cmd == "PRIVMSG" || cmd == "NOTICE") && r.Chance(30) {
				echo = "1"
			}
			steps = append(steps, "ev:"+cmd+":"+echo)
		}
	}
	steps = append(steps, "ev:PRIVMSG:0", "ev:NOTICE:1")
	return strings.Join(steps, ",")
}

func init() {
	props["C06"] = runC06
	runners["dispseq"] = runDispSeq
}

func runC06(c *Ctx) {
	c.R.Rule = "real client over net.Pipe with recording handlers registered through the public API (Add, AddBg, AddHandler, AddTmp with and without deadline; commands in varying case and the wildcard; handlers that panic or return true); " +
		"concurrent mode: a registrar goroutine adds/removes/clears while 30-90 events stream, judged by window predicates bracketed by a foreground wildcard recorder; sequential scripts of registration/removal/Clear/ClearAll/sleep interleaved with events (incl. echoes): invocations per event compared with the Lean dispatch model and judged for routing, exactly-once, ordering, removal, done channels, deadlines, panic containment; " +
		"non-trivial = >= 3 events and >= 2 handlers"
	corpus := []string{
		"reg:add:PRIVMSG:normal,reg:add:*:normal,reg:addbg:privmsg:normal,ev:PRIVMSG:1,nickecho,ev:PRIVMSG:0,nickecho",
		"reg:add:PRIVMSG:normal,reg:add:*:normal,reg:addhandler:notice:normal,reg:addbg:*:normal,burst:9,burst:6",
		"reg:add:privmsg:normal,reg:addbg:PRIVMSG:normal,reg:add:*:normal,ev:PRIVMSG:0,ev:PRIVMSG:1,ev:NOTICE:0,rm:0,ev:PRIVMSG:0,clear:PrivMsg,ev:PRIVMSG:0,clearall,ev:PRIVMSG:0",
		"reg:tmp:PRIVMSG:trueat1,ev:PRIVMSG:0,ev:PRIVMSG:0,reg:tmp:NOTICE:trueat2,ev:NOTICE:0,ev:NOTICE:0,ev:NOTICE:0,reg:tmpdl:301:normal,ev:301:0,sleep,ev:301:0",
		"reg:add:PRIVMSG:panic,reg:add:PRIVMSG:normal,reg:addbg:*:panic,ev:PRIVMSG:0,ev:PRIVMSG:0,ev:NOTICE:0",
		"reg:add:PONG:normal,reg:add:*:normal,reg:addbg:pong:normal,ownping,ev:PONG:0,ownping,ev:PRIVMSG:0,ownping",
		"reg:add:PRIVMSG:normal,reg:add:*:normal,reg:addbg:privmsg:normal,ev:PRIVMSG:1,collideecho,ev:PRIVMSG:0,collideecho,ev:PRIVMSG:1",
	}
	for _, s := range corpus {
		c.run("dispseq", map[string]string{"script": s, "recover": "1"})
	}
	for i := 0; i < 25*c.Scale; i++ {
		c.run("dispseq", map[string]string{"script": genDispScript(c.Rng, 8+c.Rng.Intn(25)), "recover": "1"})
		c.R.Traces++
	}
	// events (echoes among them) queued behind a busy foreground handler when Close() is called: the flush path
	for i := 0; i < 3+c.Scale; i++ {
		var ks []string
		for k := 4 + c.Rng.Intn(14); k > 0; k-- {
			ks = append(ks, c.Rng.Pick([]string{"P0", "P1", "P1", "N0", "N1"}))
		}
		c.run("dispflush", map[string]string{"events": strings.Join(ks, ","), "self": c.Rng.Pick([]string{"me", "ME", "Me"})})
		c.R.Traces++
	}
	// registrars acting while events stream
	for i := 0; i < 6*c.Scale; i++ {
		c.run("dispconc", map[string]string{"events": fmt.Sprint(30 + c.Rng.Intn(60)), "ops": fmt.Sprint(10 + c.Rng.Intn(40)), "seed": fmt.Sprint(c.Rng.Intn(1 << 30))})
		c.R.Traces++
	}
}

// ---- concurrent mode: registrars act while a burst of events streams ----
//
// A foreground wildcard recorder (registered throughout) brackets every event: dispatch of event n starts
// after the recorder returned for n-1. So a registration that returned before the recorder returned for
// n-1 is in force for all of n's snapshots, and a removal that returned before then is too.
func runDispConc(c *Ctx, in map[string]string) {
	hin := hexIn(in)
	nEvents, _ := strconv.Atoi(in["events"])
	nOps, _ := strconv.Atoi(in["ops"])
	seed, _ := strconv.Atoi(in["seed"])
	r := NewRNG(uint64(seed))
	d, err := newDispClient(true)
	if err != nil {
		c.R.Mismatch("disp.setup", hin, err.Error(), "")
		return
	}
	defer d.close()
	viol := func(name, impl, detail string) { c.R.Violation("dispconc."+name, hin, impl, "", detail) }
	rec := d.register("add", girc.ALL_EVENTS, "normal") // the bracket
	stable := []*dispHandler{d.register("add", "privmsg", "normal"), d.register("addbg", "PRIVMSG", "normal"), d.register("addhandler", "*", "panic"), d.register("tmp", "PRIVMSG", "normal")}
	var regMu sync.Mutex
	var wg sync.WaitGroup
	wg.Add(1)
	go func() { // the registrar
		defer wg.Done()
		rr := NewRNG(uint64(seed) + 77)
		var mine []*dispHandler
		for i := 0; i < nOps; i++ {
			time.Sleep(time.Duration(rr.Intn(300)) * time.Microsecond)
			regMu.Lock()
			if len(mine) == 0 || rr.Chance(55) {
				mine = append(mine, d.register(rr.Pick([]string{"add", "addbg", "addhandler", "tmp"}), rr.Pick([]string{"PRIVMSG", "privmsg", "*", "NOTICE"}), "normal"))
			} else {
				h := mine[rr.Intn(len(mine))]
				if h.remStamp == 0 {
					switch rr.Intn(3) {
					case 0, 1:
						d.c.Handlers.Remove(h.cuid)
						h.remStamp = d.stamp()
					default:
						if strings.EqualFold(h.cmd, "NOTICE") {
							d.c.Handlers.Clear("notice")
							st := d.stamp()
							for _, x := range d.hs {
								if strings.EqualFold(x.cmd, "NOTICE") && x.remStamp == 0 {
									x.remStamp = st
								}
							}
						}
					}
				}
			}
			regMu.Unlock()
		}
	}()
	cmds := make([]string, nEvents)
	for n := 0; n < nEvents; n++ {
		cmds[n] = r.Pick([]string{"PRIVMSG", "PRIVMSG", "NOTICE"})
		if !d.send(fmt.Sprintf(":bob!b@h %s me :text n=%d", cmds[n], n)) {
			c.R.Mismatch("disp.stalled", hin, fmt.Sprintf("write of event %d failed", n), "")
			return
		}
		if r.Chance(20) {
			time.Sleep(time.Duration(r.Intn(200)) * time.Microsecond)
		}
	}
	wg.Wait()
	if !d.barrier("end") {
		c.R.Violation("dispconc.stalled", hin, "no PONG after the stream: the client stopped dispatching events", "", "every event is delivered")
		return
	}
	for i := 0; i < 500; i++ { // background invocations of the stable handlers
		if int(atomic.LoadInt32(&stable[1].calls)) >= countCmd(cmds, "PRIVMSG") {
			break
		}
		time.Sleep(2 * time.Millisecond)
	}
	d.settle()
	d.mu.Lock()
	invs := append([]invRec(nil), d.invs...)
	d.mu.Unlock()
	recEnd := map[int]int64{}
	per := map[[2]int]int{}
	for _, v := range invs {
		per[[2]int{v.H, v.Seq}]++
		if v.H == rec.idx {
			recEnd[v.Seq] = v.End
		}
	}
	for n := 0; n < nEvents; n++ {
		if per[[2]int{rec.idx, n}] != 1 {
			viol("exactly_once", fmt.Sprintf("wildcard handler saw event %d %d times", n, per[[2]int{rec.idx, n}]), "exactly once")
		}
	}
	regMu.Lock()
	defer regMu.Unlock()
	for _, h := range d.hs {
		wild := h.cmd == girc.ALL_EVENTS
		for n := 0; n < nEvents; n++ {
			k := per[[2]int{h.idx, n}]
			matches := wild || strings.EqualFold(h.cmd, cmds[n])
			if k > 1 {
				viol("more_than_once", fmt.Sprintf("event %d reached handler %d %d times", n, h.idx, k), "exactly once")
			}
			if k > 0 && !matches {
				viol("routing", fmt.Sprintf("event %d (%s) reached handler %d registered for %q", n, cmds[n], h.idx, h.cmd), "routing")
			}
			if n == 0 || !matches {
				continue
			}
			before := recEnd[n-1] // dispatch of n starts after this stamp
			if h.regStamp < before && (h.remStamp == 0) && k != 1 {
				viol("missed", fmt.Sprintf("handler %d (registered at %d, never removed) saw event %d (dispatched after %d) %d times", h.idx, h.regStamp, n, before, k), "a handler registered before an event's dispatch starts and not removed is invoked exactly once")
			}
			if h.remStamp != 0 && h.remStamp < before && k != 0 {
				viol("invoked_after_removal", fmt.Sprintf("handler %d (removed at %d) saw event %d (dispatched after %d)", h.idx, h.remStamp, n, before), "a removed handler is never invoked for an event whose dispatch starts after the removal returned")
			}
		}
	}
	// ordering across events, foreground handlers
	maxFgEnd := map[int]int64{}
	minStart := map[int]int64{}
	for _, v := range invs {
		if !isBg(d.hs[v.H].kind) && v.End > maxFgEnd[v.Seq] {
			maxFgEnd[v.Seq] = v.End
		}
		if s, ok := minStart[v.Seq]; !ok || v.Start < s {
			minStart[v.Seq] = v.Start
		}
	}
	for n := 0; n+1 < nEvents; n++ {
		if s, ok := minStart[n+1]; ok && maxFgEnd[n] > s {
			viol("order", fmt.Sprintf("a handler saw event %d (stamp %d) before a foreground handler of event %d returned (stamp %d)", n+1, s, n, maxFgEnd[n]), "ordering")
		}
	}
	select {
	case err := <-d.ret:
		viol("connection_died", fmt.Sprintf("Connect returned %v", err), "panic containment")
	default:
	}
	c.R.Count(fmt.Sprintf("conc/%s/%s/%s", in["events"], in["ops"], in["seed"]), true, "concurrent")
}

func countCmd(cmds []string, c string) int {
	n := 0
	for _, x := range cmds {
		if x == c {
			n++
		}
	}
	return n
}

func init() { runners["dispconc"] = runDispConc }
