/-
  C12 specification: the lock policy of the client, against which the regenerated lock facts
  (Gen/LockFacts.lean) are checked, and the justified exceptions.

  Guards (fixed in tools/extract/lockfacts.go, from the comments in the source): the `state` RWMutex
  guards every field of `state` and every User/Channel it owns; `Client.mu` guards `conn` and `stop`;
  `ircConn.mu` the timing fields; `Caller.mu` the handler tables; `CTCP.mu` the CTCP table;
  `UserPerms.mu` the permission map.
-/
namespace Girc.Spec.LockPolicy

/-- Lock ranks: a lock may only be acquired while holding locks of strictly smaller rank. -/
def rank (l : String) : Nat :=
  if l = "state" then 1
  else if l = "Client.mu" then 2
  else if l = "ircConn.mu" then 3
  else if l = "UserPerms.mu" then 3
  else if l = "Caller.mu" then 4
  else if l = "CTCP.mu" then 4
  else 0

/-- Accesses that are ordered by goroutine creation and `group.Wait()` rather than by their lock
    (root, resource, isWrite):
    * the four loops and the foreground PONG handler read `c.conn`: it is assigned before `group.Go`
      starts them and cleared only after `group.Wait()` has seen them end;
    * `internalConnect` (and the exported Connect variants, which only call it) reads and updates the
      STS policy in `c.state.sts` holding `Client.mu` exclusively: at connection setup, before any
      loop or handler of this connection exists, and at teardown, after `group.Wait()`. (Residual, named
      in DESIGN.md: a user goroutine calling `Server()` exactly then reads the policy under the state
      lock only.) -/
def allowUnguarded : List (String × String × Bool) := [
  ("Client.pingLoop", "Client.conn", false), ("Client.readLoop", "Client.conn", false),
  ("Client.sendLoop", "Client.conn", false), ("handlePONG", "Client.conn", false),
  ("Client.internalConnect", "state", false), ("Client.internalConnect", "state", true),
  ("Client.Connect", "state", false), ("Client.Connect", "state", true),
  ("Client.DialerConnect", "state", false), ("Client.DialerConnect", "state", true),
  ("Client.MockConnect", "state", false), ("Client.MockConnect", "state", true)]

/-- Lock-order edges exempt from the rank rule (held, acquired):
    `internalConnect` resets the tracked state while holding `Client.mu` exclusively — at connection
    setup, when no handler (the only code that takes `Client.mu` while holding `state`) can run. -/
def allowEdges : List (String × String) := [("Client.mu", "state")]

/-- … which is only sound if the OPPOSITE order (`Client.mu` taken while the state lock is held) occurs nowhere but in
    code that cannot run during connection setup and teardown. These are all the functions allowed to hold the state lock
    while `Client.mu` is acquired (by themselves or by a callee): the internal CAP handler (it asks for the TLS state of
    the connection it is running on). A getter that did the same — callable by any goroutine at any time — would deadlock
    against `internalConnect` (state-then-mu against mu-then-state). -/
def reverseHolders : List String := ["handleCAP"]

/-- Blocking operations that are allowed while a lock is held (function, kind, lock), each bounded:
    * `write` waits (≤ 30 s) for room in `tx` holding `Client.mu` shared;
    * `internalConnect` dials holding `Client.mu` exclusively (bounded by the dialer's timeout);
    * `handleCAP` queues its answers (`write`, ≤ 30 s) and an injected ERROR (`receive`, ≤ 30 s) and
      asks the configured SASL mechanism for its name (`Method()`, which takes no client) under the
      state lock. -/
def allowCallouts : List (String × String × String) := [
  ("Client.write", "chan-send", "Client.mu"), ("Client.write", "chan-recv", "Client.mu"),
  ("Client.internalConnect", "netio", "Client.mu"),
  ("handleCAP", "chan-send", "state"), ("handleCAP", "chan-recv", "state"), ("handleCAP", "user-code", "state")]

/-- The extractor still sees the locks and resources (a refactor that hides them from it must not
    pass silently): minimum numbers of lock sites and of (reads, writes). -/
def minLockSites : List (String × Nat) :=
  [("CTCP.mu", 4), ("Caller.mu", 10), ("Client.mu", 10), ("UserPerms.mu", 5), ("ircConn.mu", 10), ("state", 40)]
def minAccessSites : List (String × Nat × Nat) :=
  [("CTCP.handlers", 2, 3), ("Caller.tables", 10, 6), ("Client.conn", 30, 3), ("Client.stop", 2, 1),
   ("UserPerms.channels", 3, 2), ("ircConn.timing", 10, 6), ("state", 120, 60)]

end Girc.Spec.LockPolicy
