import Girc.Spec.Sim
import Girc.Proofs.InvHandlers
/-
  C04 proofs, helpers for part 2: what `Ref.cmdStep` does for each attribute-only command, and the
  generic preservation lemmas of the simulation relation (scalar fields, one user's attributes, one
  channel's topic).
-/
namespace Girc.Proofs.SimAttr
open Girc Girc.Model Girc.Spec
open Girc.Proofs.InvBase Girc.Proofs.InvHandlers

/-! ### `Ref.cmdStep`, one command at a time -/

/-- Discharge the leading (false) tests of the `if`-chain once the command is a literal. -/
macro "cmd_chain" : tactic => `(tactic| (repeat rw [if_neg (by decide)]))

theorem cmdStep_c001 (cfg : Cfg) (r : Ref) (e : Event) (h : e.command = c001) :
    r.cmdStep cfg e = (match e.params with | p :: _ => { r with me := p } | [] => r) := by
  unfold Ref.cmdStep
  extract_lets c last
  have hc : c = c001 := h
  clear_value c last
  subst hc
  rw [if_pos rfl]
  rfl

theorem cmdStep_c354 (cfg : Cfg) (r : Ref) (e : Event) (h : e.command = c354) :
    r.cmdStep cfg e = (match e.params with
      | [_, tok, _, ident, host, nick, acct, rn] =>
        if tok ≠ sOne then r
        else r.updUser (fold nick) (fun u =>
          { u with ident := ident, host := host, realname := rn, account := if acct ≠ sZero then acct else u.account })
      | _ => r) := by
  unfold Ref.cmdStep
  extract_lets c last
  have hc : c = c354 := h
  clear_value c last
  subst hc
  cmd_chain
  rw [if_pos rfl]
  rfl

theorem cmdStep_c352 (cfg : Cfg) (r : Ref) (e : Event) (h : e.command = c352) :
    r.cmdStep cfg e = (if e.params.length < 8 then r
      else match e.params with
        | _ :: _ :: ident :: host :: _ :: nick :: _ =>
          r.updUser (fold nick) (fun u => { u with ident := ident, host := host, realname := stripHopcount (e.params.getLastD []) 0 (e.params.getLastD []) })
        | _ => r) := by
  unfold Ref.cmdStep
  extract_lets c last
  have hc : c = c352 := h
  clear_value c
  subst hc
  cmd_chain
  rw [if_pos rfl]
  rfl

theorem cmdStep_TOPIC (cfg : Cfg) (r : Ref) (e : Event) (h : e.command = cTOPIC ∨ e.command = c332) :
    r.cmdStep cfg e =
      (let nt : Option (Bytes × Bytes) := match e.params with
        | [] => none
        | [n] => some (n, [])
        | [n, t] => some (n, t)
        | _ :: n :: _ => some (n, e.params.getLastD [])
      match nt with
      | some (n, t) => (match AMap.get? r.chans (fold n) with
          | some ch => { r with chans := AMap.set r.chans (fold n) { ch with topic := t } }
          | none => r)
      | none => r) := by
  unfold Ref.cmdStep
  extract_lets c last
  rcases h with h | h
  · have hc : c = cTOPIC := h
    clear_value c
    subst hc
    cmd_chain
    rw [if_pos (by decide)]
    rfl
  · have hc : c = c332 := h
    clear_value c
    subst hc
    cmd_chain
    rw [if_pos (by decide)]
    rfl

theorem cmdStep_AWAY (cfg : Cfg) (r : Ref) (e : Event) (h : e.command = cAWAY) :
    r.cmdStep cfg e = (match e.source with
      | some src => r.updUser (fold src.name) (fun u => { u with away := e.params.getLastD [] })
      | none => r) := by
  unfold Ref.cmdStep
  extract_lets c last
  have hc : c = cAWAY := h
  clear_value c
  subst hc
  cmd_chain
  rw [if_pos rfl]
  rfl

theorem cmdStep_ACCOUNT (cfg : Cfg) (r : Ref) (e : Event) (h : e.command = cACCOUNT) :
    r.cmdStep cfg e = (match e.source, e.params with
      | some src, [a] => r.updUser (fold src.name) (fun u => { u with account := if a = sStar then [] else a })
      | _, _ => r) := by
  unfold Ref.cmdStep
  extract_lets c last
  have hc : c = cACCOUNT := h
  clear_value c last
  subst hc
  cmd_chain
  rw [if_pos rfl]
  rfl

theorem cmdStep_CHGHOST (cfg : Cfg) (r : Ref) (e : Event) (h : e.command = cCHGHOST) :
    r.cmdStep cfg e = (match e.source, e.params with
      | some src, [i, h] => r.updUser (fold src.name) (fun u => { u with ident := i, host := h })
      | _, _ => r) := by
  unfold Ref.cmdStep
  extract_lets c last
  have hc : c = cCHGHOST := h
  clear_value c last
  subst hc
  cmd_chain
  rw [if_pos rfl]
  rfl

theorem cmdStep_c004 (cfg : Cfg) (r : Ref) (e : Event) (h : e.command = c004) :
    r.cmdStep cfg e = (match e.params with
      | _ :: a :: b :: _ => { r with options := AMap.set (AMap.set r.options sSERVER a) sVERSION b }
      | _ => r) := by
  unfold Ref.cmdStep
  extract_lets c last
  have hc : c = c004 := h
  clear_value c last
  subst hc
  cmd_chain
  rw [if_pos rfl]
  rfl

theorem cmdStep_c005 (cfg : Cfg) (r : Ref) (e : Event) (h : e.command = c005) :
    r.cmdStep cfg e =
      (let st' := handleISUPPORT { serverOptions := r.options, maxLineLength := r.maxLine, maxPrefixLength := r.maxPrefix } e
       { r with options := st'.serverOptions, maxLine := st'.maxLineLength, maxPrefix := st'.maxPrefixLength }) := by
  unfold Ref.cmdStep
  extract_lets c last
  have hc : c = c005 := h
  clear_value c last
  subst hc
  cmd_chain
  rw [if_pos rfl]

theorem cmdStep_c375 (cfg : Cfg) (r : Ref) (e : Event) (h : e.command = c375) :
    r.cmdStep cfg e = { r with motd := [] } := by
  unfold Ref.cmdStep
  extract_lets c last
  have hc : c = c375 := h
  clear_value c last
  subst hc
  cmd_chain
  rw [if_pos rfl]

theorem cmdStep_c372 (cfg : Cfg) (r : Ref) (e : Event) (h : e.command = c372) :
    r.cmdStep cfg e = { r with motd := (if r.motd.isEmpty then [] else r.motd ++ [LF]) ++ e.params.getLastD [] } := by
  unfold Ref.cmdStep
  extract_lets c last
  have hc : c = c372 := h
  clear_value c
  subst hc
  cmd_chain
  rw [if_pos rfl]


/-! ### Generic preservation lemmas -/

/-- Only fields outside the tracked maps / the membership relation change, and they change alike. -/
theorem sim_scalars {st st' : St} {r r' : Ref} (h : Sim st r)
    (hch : st'.channels = st.channels) (hus : st'.users = st.users)
    (rch : r'.chans = r.chans) (rus : r'.users = r.users) (rme : r'.members = r.members) (rpe : r'.perms = r.perms)
    (hnick : st'.nick = r'.me) (hident : st'.ident = r'.myIdent) (hhost : st'.host = r'.myHost)
    (hmotd : st'.motd = r'.motd) (hml : st'.maxLineLength = r'.maxLine) (hmp : st'.maxPrefixLength = r'.maxPrefix)
    (hopts : ∀ k, AMap.get? st'.serverOptions k = AMap.get? r'.options k) : Sim st' r' := by
  have hgp : ∀ k n, r'.getPerms k n = r.getPerms k n := by
    intro k n; unfold Ref.getPerms; rw [rpe]
  exact {
    inv := inv_of_maps_eq st st' h.inv hch hus
    nick := hnick
    ident := hident
    host := hhost
    motd := hmotd
    maxLine := hml
    maxPrefix := hmp
    opts := hopts
    chans := by rw [hch, rch]; exact h.chans
    chanModesWF := by rw [hch]; exact h.chanModesWF
    users := by rw [hus, rus]; exact h.users
    members := by rw [hch, rme]; exact h.members
    membersKnown := by rw [rme, rch, rus]; exact h.membersKnown
    membersNodup := by rw [rme]; exact h.membersNodup
    perms := by
      intro k n u hm hu
      rw [rme] at hm; rw [hus] at hu
      rw [hgp]; exact h.perms k n u hm hu
    permsKnown := by rw [rpe, rus]; exact h.permsKnown
    chanKeysNodup := by rw [rch]; exact h.chanKeysNodup
    userKeysNodup := by rw [rus]; exact h.userKeysNodup
    chanKeysNonempty := by rw [rch]; exact h.chanKeysNonempty }

/-- Only the implementation state changes, and only in fields the relation does not mention
    (capabilities, STS policy). -/
theorem sim_frame {st st' : St} {r : Ref} (h : Sim st r)
    (hch : st'.channels = st.channels) (hus : st'.users = st.users)
    (hnick : st'.nick = st.nick) (hident : st'.ident = st.ident) (hhost : st'.host = st.host)
    (hmotd : st'.motd = st.motd) (hml : st'.maxLineLength = st.maxLineLength)
    (hmp : st'.maxPrefixLength = st.maxPrefixLength) (hopts : st'.serverOptions = st.serverOptions) : Sim st' r :=
  sim_scalars h hch hus rfl rfl rfl rfl (hnick.trans h.nick) (hident.trans h.ident) (hhost.trans h.host)
    (hmotd.trans h.motd) (hml.trans h.maxLine) (hmp.trans h.maxPrefix) (fun k => by rw [hopts]; exact h.opts k)

theorem contains_set_of_contains {β : Type} (m : AMap β) (k k' : Bytes) (v : β) (h : AMap.contains m k' = true) :
    AMap.contains (AMap.set m k v) k' = true := by
  rw [contains_iff] at *
  exact (mem_keys_set m k k' v).mpr (Or.inr h)

/-- One user's attributes change, alike on both sides; nick, channel list and privileges stay. -/
theorem sim_updUser {st : St} {r : Ref} (name : Bytes) (f : User → User) (g : RUser → RUser) (h : Sim st r)
    (hv : ∀ u, userView (f u) = g (userView u))
    (hf : ∀ u, (f u).nick = u.nick ∧ (f u).chans = u.chans ∧ (f u).perms = u.perms) :
    Sim (Model.updUser st name f) (r.updUser (fold name) g) := by
  have hinv := updUser_inv st name f h.inv (fun u => ⟨(hf u).1, (hf u).2.1⟩)
  have hu := h.users (fold name)
  unfold Model.updUser at hinv ⊢
  unfold Ref.updUser
  rw [lookupUser_eq] at hinv ⊢
  cases hl : AMap.get? st.users (fold name) with
  | none =>
    rw [hl] at hu
    rw [← hu]
    exact h
  | some u =>
    rw [hl] at hu hinv
    rw [← hu]
    dsimp only [Option.map] at hinv ⊢
    have hgp : ∀ k n, Ref.getPerms { r with users := AMap.set r.users (fold name) (g (userView u)) } k n = r.getPerms k n :=
      fun _ _ => rfl
    exact {
      inv := hinv
      nick := h.nick
      ident := h.ident
      host := h.host
      motd := h.motd
      maxLine := h.maxLine
      maxPrefix := h.maxPrefix
      opts := h.opts
      chans := h.chans
      chanModesWF := h.chanModesWF
      users := by
        intro n
        show (AMap.get? (AMap.set st.users (fold name) (f u)) n).map userView
          = AMap.get? (AMap.set r.users (fold name) (g (userView u))) n
        rw [get?_set, get?_set]
        by_cases e : n = fold name
        · rw [if_pos e, if_pos e]; exact congrArg some (hv u)
        · rw [if_neg e, if_neg e]; exact h.users n
      members := h.members
      membersKnown := fun k n hm =>
        ⟨(h.membersKnown k n hm).1, contains_set_of_contains _ _ _ _ (h.membersKnown k n hm).2⟩
      membersNodup := h.membersNodup
      perms := by
        intro k n u' hm hu'
        rw [hgp]
        have hu'' : AMap.get? (AMap.set st.users (fold name) (f u)) n = some u' := hu'
        rw [get?_set] at hu''
        by_cases e : n = fold name
        · rw [if_pos e] at hu''
          cases hu''
          rw [(hf u).2.2]
          exact h.perms k n u hm (e ▸ hl)
        · rw [if_neg e] at hu''
          exact h.perms k n u' hm hu''
      permsKnown := fun p hp => contains_set_of_contains _ _ _ _ (h.permsKnown p hp)
      chanKeysNodup := h.chanKeysNodup
      userKeysNodup := keys_set_nodup h.userKeysNodup _ _
      chanKeysNonempty := h.chanKeysNonempty }

/-- One channel's topic changes, alike on both sides. -/
theorem sim_setTopic {st : St} {r : Ref} (n t : Bytes) (h : Sim st r) :
    Sim (match st.lookupChannel n with
          | none => st
          | some ch => setChannel st (fold n) { ch with topic := t })
        (match AMap.get? r.chans (fold n) with
          | some ch => { r with chans := AMap.set r.chans (fold n) { ch with topic := t } }
          | none => r) := by
  have hc := h.chans (fold n)
  rw [lookupChannel_eq]
  cases hl : AMap.get? st.channels (fold n) with
  | none =>
    rw [hl] at hc
    rw [← hc]
    exact h
  | some ch =>
    rw [hl] at hc
    rw [← hc]
    dsimp only [Option.map]
    have hinv : Inv (setChannel st (fold n) { ch with topic := t }) :=
      inv_setChannel_lookup h.inv hl rfl rfl
    have hgp : ∀ k m, Ref.getPerms { r with chans := AMap.set r.chans (fold n) { chanView ch with topic := t } } k m
        = r.getPerms k m := fun _ _ => rfl
    have hget : ∀ k c, AMap.get? (AMap.set st.channels (fold n) { ch with topic := t }) k = some c →
        ∃ c0, AMap.get? st.channels k = some c0 ∧ c.users = c0.users ∧ c.modes = c0.modes := by
      intro k c hk
      rw [get?_set] at hk
      by_cases e : k = fold n
      · rw [if_pos e] at hk; cases hk; exact ⟨ch, e ▸ hl, rfl, rfl⟩
      · rw [if_neg e] at hk; exact ⟨c, hk, rfl, rfl⟩
    exact {
      inv := hinv
      nick := h.nick
      ident := h.ident
      host := h.host
      motd := h.motd
      maxLine := h.maxLine
      maxPrefix := h.maxPrefix
      opts := h.opts
      chans := by
        intro k
        show (AMap.get? (AMap.set st.channels (fold n) { ch with topic := t }) k).map chanView
          = AMap.get? (AMap.set r.chans (fold n) { chanView ch with topic := t }) k
        rw [get?_set, get?_set]
        by_cases e : k = fold n
        · rw [if_pos e, if_pos e]; rfl
        · rw [if_neg e, if_neg e]; exact h.chans k
      chanModesWF := by
        intro k c hk
        obtain ⟨c0, h0, _, hm⟩ := hget k c hk
        rw [hm]; exact h.chanModesWF k c0 h0
      users := h.users
      members := by
        intro k c hk m
        obtain ⟨c0, h0, hu, _⟩ := hget k c hk
        rw [hu]; exact h.members k c0 h0 m
      membersKnown := fun k m hm =>
        ⟨contains_set_of_contains _ _ _ _ (h.membersKnown k m hm).1, (h.membersKnown k m hm).2⟩
      membersNodup := h.membersNodup
      perms := by
        intro k m u hm hu
        rw [hgp]; exact h.perms k m u hm hu
      permsKnown := h.permsKnown
      chanKeysNodup := keys_set_nodup h.chanKeysNodup _ _
      userKeysNodup := h.userKeysNodup
      chanKeysNonempty := by
        intro k hk
        have hk' : AMap.contains (AMap.set r.chans (fold n) { chanView ch with topic := t }) k = true := hk
        rw [contains_iff, mem_keys_set] at hk'
        rcases hk' with e | hk'
        · subst e
          exact h.chanKeysNonempty _ ((contains_iff_get? _ _).mpr ⟨_, hc.symm⟩)
        · exact h.chanKeysNonempty k ((contains_iff _ _).mpr hk') }


/-! ### `handleCAP` only touches the capability / STS fields -/

/-- `st'` agrees with `st` on every field the simulation relation mentions. -/
def Frame (st st' : St) : Prop :=
  st'.channels = st.channels ∧ st'.users = st.users ∧ st'.nick = st.nick ∧ st'.ident = st.ident ∧
  st'.host = st.host ∧ st'.motd = st.motd ∧ st'.maxLineLength = st.maxLineLength ∧
  st'.maxPrefixLength = st.maxPrefixLength ∧ st'.serverOptions = st.serverOptions

macro "frame_rfl" : tactic => `(tactic| exact ⟨rfl, rfl, rfl, rfl, rfl, rfl, rfl, rfl, rfl⟩)

theorem Frame.sim {st st' : St} {r : Ref} (f : Frame st st') (h : Sim st r) : Sim st' r := by
  obtain ⟨a, b, c, d, e, f, g, i, j⟩ := f
  exact sim_frame h a b c d e f g i j

theorem handleCAP_frame (cfg : Cfg) (st : St) (e : Event) : Frame st (handleCAP cfg st e).1 := by
  unfold handleCAP
  extract_lets ps last possible st1 keys
  split
  · frame_rfl
  split
  · frame_rfl
  split
  next st2 outs done heq =>
  have hs : Frame st st2 := by
    have h1 : Frame st st1 := by frame_rfl
    repeat' split at heq
    all_goals (cases heq; first | exact h1 | frame_rfl)
  clear heq
  split
  · exact hs
  split
  · extract_lets st3 stsCase st4 st5
    have h3 : Frame st st3 := hs
    have h4 : Frame st st4 := by
      unfold st4
      split
      · split
        · exact h3
        · exact h3
      · exact h3
    have h5 : Frame st st5 := h4
    have hsts : ∀ r, stsCase = some r → Frame st r.1 := by
      intro r hr
      unfold stsCase at hr
      split at hr
      · split at hr
        · cases hr
        · split at hr
          extract_lets st6 at hr
          have h6 : Frame st st6 := h3
          split at hr
          · cases hr; exact h6
          · cases hr; exact h6
          · cases hr
      · cases hr
    clear_value stsCase
    cases stsCase with
    | some r => exact hsts r rfl
    | none =>
      dsimp only
      split <;> exact h5
  · exact hs

/-! ### `handleISUPPORT` as a function of the three fields it reads and writes -/

/-- The limits `handleISUPPORT` derives from the numeric options. -/
def isupLimits (line nick maxnick user host : Option Int) (ml mp : Int) : Int × Int :=
  let r1 : Int × Int := match line with
    | some t => (t - 2, t)
    | none => (ml, ml)
  let maxNick : Int := match nick with | some t => t | none => 30
  let maxNick := match maxnick with | some t => if t > maxNick then t else maxNick | none => maxNick
  let maxUser : Int := match user with | some t => if t > 18 then t else 18 | none => 18
  let maxHost : Int := match host with | some t => if t > 63 then t else 63 | none => 63
  let prefixLen := 4 + maxNick + maxUser + maxHost
  (r1.1, if prefixLen ≥ r1.2 then mp else prefixLen)

def isupOpts (opts : AMap Bytes) (e : Event) : AMap Bytes := ((e.params.drop 1).dropLast).foldl isupportItem opts

def optI (o : AMap Bytes) (k : Bytes) : Option Int := (AMap.get? o k).bind atoi

theorem ite_push {α β : Type} {c : Prop} {inst : Decidable c} (a b : α) (f : β → α) (x y : β)
    (ha : a = f x) (hb : b = f y) : @ite α c inst a b = f (@ite β c inst x y) := by
  cases inst with
  | isTrue h => exact ha
  | isFalse h => exact hb

theorem handleISUPPORT_eq (st : St) (e : Event) :
    handleISUPPORT st e =
      if !isSuffixOfB sThisServer e.last then st
      else if e.params.length < 2 then st
      else
        let o := isupOpts st.serverOptions e
        let l := isupLimits (optI o sLINELEN) (optI o sNICKLEN) (optI o sMAXNICKLEN) (optI o sUSERLEN) (optI o sHOSTLEN)
          st.maxLineLength st.maxPrefixLength
        { st with serverOptions := o, maxLineLength := l.1, maxPrefixLength := l.2 } := by
  unfold handleISUPPORT
  split
  · rfl
  split
  · rfl
  extract_lets items st1 maxLine o l
  have hoi : ∀ k, optInt st1 k = optI o k := fun _ => rfl
  have hml : maxLine = st.maxLineLength := rfl
  unfold l isupLimits
  rw [hoi sLINELEN]
  cases optI o sLINELEN with
  | none =>
    dsimp only
    simp only [hoi, hml]
    exact ite_push _ _ (fun p => { st with serverOptions := o, maxLineLength := st.maxLineLength, maxPrefixLength := p })
      _ _ rfl rfl
  | some t =>
    dsimp only
    have hoi' : ∀ k, optInt { st1 with maxLineLength := t - 2 } k = optI o k := fun _ => rfl
    simp only [hoi']
    exact ite_push _ _ (fun p => { st with serverOptions := o, maxLineLength := t - 2, maxPrefixLength := p })
      _ _ rfl rfl

theorem isupportItem_congr {a b : AMap Bytes} (h : ∀ k, AMap.get? a k = AMap.get? b k) (p : Bytes) :
    ∀ k, AMap.get? (isupportItem a p) k = AMap.get? (isupportItem b p) k := by
  intro k
  unfold isupportItem
  split
  · split <;> simp only [get?_set, h]
  · simp only [get?_set, h]

theorem foldl_isupportItem_congr (items : List Bytes) : ∀ {a b : AMap Bytes}, (∀ k, AMap.get? a k = AMap.get? b k) →
    ∀ k, AMap.get? (items.foldl isupportItem a) k = AMap.get? (items.foldl isupportItem b) k := by
  induction items with
  | nil => intro a b h; exact h
  | cons p items ih => intro a b h; exact ih (isupportItem_congr h p)

/-- `handleISUPPORT` respects extensional equality of the option maps. -/
theorem isupOpts_congr {a b : AMap Bytes} (h : ∀ k, AMap.get? a k = AMap.get? b k) (e : Event) :
    ∀ k, AMap.get? (isupOpts a e) k = AMap.get? (isupOpts b e) k :=
  foldl_isupportItem_congr _ h

theorem optI_congr {a b : AMap Bytes} (h : ∀ k, AMap.get? a k = AMap.get? b k) (k : Bytes) : optI a k = optI b k := by
  unfold optI; rw [h]

/-! ### The tails of `handleTOPIC` / `handleWHO`, and uninterpreted commands -/

/-- The tail of `handleTOPIC`: it replaces one channel's topic. -/
theorem sim_topic_ok {st : St} {r : Ref} (n t : Bytes) (h : Sim st r) :
    ∃ st', (match st.lookupChannel n with
            | none => (Except.ok st : M St)
            | some ch => .ok (setChannel st (fold n) { ch with topic := t })) = .ok st' ∧
      Sim st' (match AMap.get? r.chans (fold n) with
          | some ch => { r with chans := AMap.set r.chans (fold n) { ch with topic := t } }
          | none => r) := by
  have hs := sim_setTopic n t h
  cases hl : st.lookupChannel n with
  | none => rw [hl] at hs; exact ⟨_, rfl, hs⟩
  | some ch => rw [hl] at hs; exact ⟨_, rfl, hs⟩

/-- The tail of `handleWHO`: it is an attribute update of one user. -/
theorem sim_who_ok {st : St} {r : Ref} (ident host nick account realname : Bytes) (whox : Bool)
    (c : Prop) [Decidable c] (hcb : (whox && decide (account ≠ sZero)) = true ↔ c) (h : Sim st r) :
    ∃ st', (match st.lookupUser nick with
            | none => (Except.ok st : M St)
            | some user =>
              let user := { user with host := host, ident := ident, name := realname }
              let user := if whox && account ≠ sZero then { user with account := account } else user
              .ok (setUser st (fold nick) user)) = .ok st' ∧
      Sim st' (r.updUser (fold nick) (fun u =>
        { u with ident := ident, host := host, realname := realname,
                 account := if c then account else u.account })) := by
  have hs := sim_updUser nick
    (fun user => if whox && account ≠ sZero then { user with host := host, ident := ident, name := realname, account := account }
      else { user with host := host, ident := ident, name := realname })
    (fun u => { u with ident := ident, host := host, realname := realname, account := if c then account else u.account }) h
    (fun u => by
      by_cases hc : c
      · rw [if_pos (hcb.mpr hc)]; simp only [if_pos hc]; rfl
      · rw [if_neg (fun hb => hc (hcb.mp hb))]; simp only [if_neg hc]; rfl)
    (fun u => by split <;> exact ⟨rfl, rfl, rfl⟩)
  unfold Model.updUser at hs
  cases hl : st.lookupUser nick with
  | none => rw [hl] at hs; exact ⟨_, rfl, hs⟩
  | some u =>
    rw [hl] at hs
    refine ⟨_, rfl, ?_⟩
    dsimp only at hs ⊢
    by_cases hc : (whox && decide (account ≠ sZero)) = true
    · simp only [if_pos hc] at hs ⊢; exact hs
    · simp only [if_neg hc] at hs ⊢; exact hs

theorem length_eq_8 (l : List Bytes) (h : l.length = 8) : ∃ a b c d e f g i, l = [a, b, c, d, e, f, g, i] := by
  rcases l with _ | ⟨a, _ | ⟨b, _ | ⟨c, _ | ⟨d, _ | ⟨e, _ | ⟨f, _ | ⟨g, _ | ⟨i, _ | ⟨j, t⟩⟩⟩⟩⟩⟩⟩⟩⟩
  all_goals first
    | exact ⟨_, _, _, _, _, _, _, _, rfl⟩
    | (simp only [List.length_cons, List.length_nil] at h; omega)

/-- Any command the tracker does not interpret means nothing to the reference model either. -/
theorem cmdStep_other' (cfg : Cfg) (r : Ref) (e : Event)
    (h : e.command ∉ [c001, cJOIN, cPART, cKICK, cQUIT, cNICK, c353, cMODE, c324, c354, c352, cTOPIC, c332,
      cAWAY, cACCOUNT, cCHGHOST, c004, c005, c375, c372]) :
    r.cmdStep cfg e = r := by
  simp only [List.mem_cons, List.not_mem_nil, or_false, not_or] at h
  obtain ⟨h1, h2, h3, h4, h5, h6, h7, h8, h9, h10, h11, h12, h13, h14, h15, h16, h17, h18, h19, h20⟩ := h
  unfold Ref.cmdStep
  extract_lets c last
  have hc : c = e.command := rfl
  clear_value c
  subst hc
  rw [if_neg h1, if_neg h2, if_neg h3, if_neg h4, if_neg h5, if_neg h6, if_neg h7,
    if_neg (by simp [h8, h9]), if_neg h10, if_neg h11, if_neg (by simp [h12, h13]), if_neg h14, if_neg h15,
    if_neg h16, if_neg h17, if_neg h18, if_neg h19, if_neg h20]

end Girc.Proofs.SimAttr
