#!/usr/bin/env python3
"""Maintainer tool (never run by a check): record the CURRENT function skeletons as the expected ones
(lean/Girc/Spec/Skeletons.lean). Run only after re-validating the concurrency models (Model/Lifecycle.lean,
Model/Dispatch.lean, Spec/LockFacts) against the changed functions; review the diff before committing."""
import os, re, subprocess
V = os.path.dirname(os.path.dirname(os.path.abspath(__file__)))
subprocess.check_call([os.path.join(V, ".bin/extract"), "-repo", "/repo", "-out", os.path.join(V, "lean/Girc/Gen/Facts.lean")])
src = open(os.path.join(V, "lean/Girc/Gen/Skel.lean")).read()
src = src.replace("namespace Girc.Gen", "namespace Girc.Spec.Skel").replace("end Girc.Gen", "end Girc.Spec.Skel")
src = re.sub(r"/- GENERATED.*?-/", "/- EXPECTED statement skeletons: the code the concurrency models were written against and validated on.\n   Recorded by tools/update_skeletons.py (maintainer tool); compared with the regenerated Gen/Skel.lean on every run. -/", src, flags=re.S)
open(os.path.join(V, "lean/Girc/Spec/Skeletons.lean"), "w").write(src)
names = re.findall(r"def (skel_\w+)", src)
print(len(names), "skeletons recorded")
