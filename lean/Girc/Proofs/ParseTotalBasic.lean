import Girc.Model.Event
namespace Girc.Proofs.ParseTotal
open Girc Girc.Model

theorem indexOf_lt {b : Byte} : ∀ {s : Bytes} {n : Nat}, indexOf b s = some n → n < s.length
  | [], _, h => by simp [indexOf] at h
  | x :: xs, n, h => by
    unfold indexOf at h
    split at h
    · cases h; simp
    · cases h' : indexOf b xs with
      | none => simp [h'] at h
      | some m =>
        simp [h'] at h
        have := indexOf_lt h'
        simp; omega

theorem indexOf_get {b : Byte} : ∀ {s : Bytes} {n : Nat}, indexOf b s = some n → s[n]? = some b
  | [], _, h => by simp [indexOf] at h
  | x :: xs, n, h => by
    unfold indexOf at h
    split at h
    · cases h; simp [*]
    · cases h' : indexOf b xs with
      | none => simp [h'] at h
      | some m =>
        simp [h'] at h
        have := indexOf_get h'
        subst h; simpa using this

theorem sliceI_nat (s : Bytes) (lo hi : Nat) (h1 : lo ≤ hi) (h2 : hi ≤ s.length) :
    sliceI s (lo : Int) (hi : Int) = .ok ((s.drop lo).take (hi - lo)) := by
  unfold sliceI
  rw [if_pos (by omega)]
  congr 2
  omega

theorem sliceI_end (s : Bytes) (lo : Nat) (h : lo ≤ s.length) :
    sliceI s (lo : Int) (s.length : Int) = .ok (s.drop lo) := by
  rw [sliceI_nat s lo s.length h (Nat.le_refl _)]
  congr 1
  apply List.take_of_length_le
  simp

theorem atI_nat (s : Bytes) (n : Nat) (b : Byte) (h : s[n]? = some b) : atI s (n : Int) = .ok b := by
  unfold atI
  have hn : n < s.length := by
    rcases Nat.lt_or_ge n s.length with h' | h'
    · exact h'
    · rw [List.getElem?_eq_none h'] at h; cases h
  rw [if_pos (by omega)]
  simp [h]

theorem findTrailerAux_cons (x : Byte) (xs : Bytes) (p : Bool) (pos : Nat) :
    findTrailerAux (x :: xs) p pos =
      if (x = COLON && p) then some pos else findTrailerAux xs (x = SP) (pos + 1) := rfl

theorem findTrailerAux_skip : ∀ (s : Bytes) (c : Byte) (pos t : Nat), indexOf COLON s = some t →
    findTrailerAux s (decide (c = SP)) pos =
      if (c :: s)[t]? = some SP then some (pos + t)
      else findTrailerAux (s.drop (t + 1)) false (pos + t + 1)
  | [], _, _, _, h => by simp [indexOf] at h
  | x :: xs, c, pos, t, h => by
    unfold indexOf at h
    split at h
    · cases h
      subst x
      simp [findTrailerAux]
      have : ¬ (COLON = SP) := by decide
      simp [this]
    · rename_i hx
      cases h' : indexOf COLON xs with
      | none => simp [h'] at h
      | some m =>
        simp [h'] at h
        subst h
        have ih := findTrailerAux_skip xs x (pos + 1) m h'
        rw [findTrailerAux_cons]
        simp [hx]
        rw [ih]
        simp [Nat.add_assoc, Nat.add_comm 1 m]

theorem findTrailerAux_none : ∀ (s : Bytes) (p : Bool) (pos : Nat), indexOf COLON s = none →
    findTrailerAux s p pos = none
  | [], _, _, _ => by simp [findTrailerAux]
  | x :: xs, p, pos, h => by
    unfold indexOf at h
    split at h
    · cases h
    · rename_i hx
      cases h' : indexOf COLON xs with
      | none => unfold findTrailerAux; simp [hx]; exact findTrailerAux_none xs _ _ h'
      | some m => simp [h'] at h

theorem findTrailerAux_bound : ∀ (s : Bytes) (p : Bool) (pos n : Nat), findTrailerAux s p pos = some n →
    pos ≤ n ∧ n < pos + s.length
  | [], _, _, _, h => by simp [findTrailerAux] at h
  | x :: xs, p, pos, n, h => by
    unfold findTrailerAux at h
    split at h
    · cases h; simp
    · have := findTrailerAux_bound xs _ _ _ h
      simp; omega

theorem prev_cons (raw : Bytes) (m : Nat) (c : Byte) (hm : 1 ≤ m) (hc : raw[m - 1]? = some c) :
    raw.drop (m - 1) = c :: raw.drop m := by
  obtain ⟨h, e⟩ := List.getElem?_eq_some_iff.mp hc
  rw [List.drop_eq_getElem_cons h, e]
  congr 2
  omega

theorem loop_eq (raw : Bytes) (j : Nat) (hj : 1 ≤ j) :
    ∀ (fuel T : Nat) (c : Byte), j + T ≤ raw.length → raw[j + T - 1]? = some c →
      raw.length - (j + T) < fuel →
      trailerLoopGo raw (j : Int) fuel (T : Int) =
        .ok ((findTrailerAux (raw.drop (j + T)) (decide (c = SP)) T).map Int.ofNat)
  | 0, _, _, _, _, h => by omega
  | fuel + 1, T, c, hT, hc, hf => by
    unfold trailerLoopGo
    have e1 : (j : Int) + (T : Int) = ((j + T : Nat) : Int) := by omega
    simp only [e1]
    rw [sliceI_end raw (j+T) hT]
    simp only [bind, Except.bind]
    cases h : indexOf COLON (raw.drop (j+T)) with
    | none => simp [indexByteI, h, findTrailerAux_none _ _ _ h, pure, Except.pure]
    | some t =>
      have ht := indexOf_lt h
      simp at ht
      have e2 : ((j+T : Nat) : Int) + (t : Int) - 1 = ((j + T + t - 1 : Nat) : Int) := by omega
      have hdrop := prev_cons raw (j+T) c (by omega) hc
      have hget : (c :: raw.drop (j+T))[t]? = raw[j+T+t-1]? := by
        rw [← hdrop, List.getElem?_drop]
        congr 1; omega
      rw [findTrailerAux_skip _ c T t h, hget]
      have hin : j + T + t - 1 < raw.length := by omega
      obtain ⟨c', hc'⟩ : ∃ c', raw[j+T+t-1]? = some c' := ⟨raw[j+T+t-1], by simp [hin]⟩
      simp only [indexByteI, h, e2]
      rw [atI_nat raw _ c' hc']
      have hne : ¬ ((t : Int) = -1) := by omega
      simp only [hne, if_false, hc']
      by_cases hsp : c' = SP
      · simp [hsp, pure, Except.pure]
      · simp only [hsp, if_false, Option.some.injEq]
        have e3 : (t : Int) + (T : Int) + 1 = ((T + t + 1 : Nat) : Int) := by omega
        rw [e3]
        have hcol : raw[j + (T + t + 1) - 1]? = some COLON := by
          have := indexOf_get h
          rw [List.getElem?_drop] at this
          rw [← this]; congr 1; omega
        rw [loop_eq raw j hj fuel (T+t+1) COLON (by omega) hcol (by omega)]
        have : ¬ (COLON = SP) := by decide
        simp [this, Nat.add_assoc]


end Girc.Proofs.ParseTotal
