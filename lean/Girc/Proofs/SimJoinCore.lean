import Girc.Spec.Sim
import Girc.Proofs.InvHandlers
/-
  C04 proofs, part 3 (core): the relation `SimW` (= `Sim` without the structural invariant, plus the
  user-side membership clause that the invariant provides), its invariance under lookup-equal states,
  facts about the reference operations, and one "commuting" lemma per reference operation.
-/
namespace Girc.Proofs.SimJoin
open Girc Girc.Model Girc.Spec Girc.Proofs.InvBase

/-! ### The weak relation -/

/-- `Sim` without `inv`, plus `umembers` (membership seen from the user's channel list). Every clause
    looks at the maps of `st` through `AMap.get?` only. Intermediate states of JOIN / NAMES satisfy it. -/
structure SimW (st : St) (r : Ref) : Prop where
  nick : st.nick = r.me
  ident : st.ident = r.myIdent
  host : st.host = r.myHost
  motd : st.motd = r.motd
  maxLine : st.maxLineLength = r.maxLine
  maxPrefix : st.maxPrefixLength = r.maxPrefix
  opts : ∀ k, AMap.get? st.serverOptions k = AMap.get? r.options k
  chans : ∀ k, (AMap.get? st.channels k).map chanView = AMap.get? r.chans k
  chanModesWF : ∀ k ch, AMap.get? st.channels k = some ch → modesWF ch.modes
  users : ∀ n, (AMap.get? st.users n).map userView = AMap.get? r.users n
  members : ∀ k ch, AMap.get? st.channels k = some ch → ∀ n, n ∈ ch.users ↔ (k, n) ∈ r.members
  umembers : ∀ n u, AMap.get? st.users n = some u → ∀ k, k ∈ u.chans ↔ (k, n) ∈ r.members
  membersKnown : ∀ k n, (k, n) ∈ r.members → AMap.contains r.chans k = true ∧ AMap.contains r.users n = true
  membersNodup : r.members.Nodup
  perms : ∀ k n u, (k, n) ∈ r.members → AMap.get? st.users n = some u →
            (AMap.get? u.perms k).getD {} = r.getPerms k n
  permsKnown : ∀ p, p ∈ r.perms → AMap.contains r.users p.1.2 = true
  chanKeysNodup : (AMap.keys r.chans).Nodup
  userKeysNodup : (AMap.keys r.users).Nodup
  chanKeysNonempty : ∀ k, AMap.contains r.chans k = true → k ≠ []

/-- A key known on the reference side is present on the implementation side (maps related by a view). -/
theorem get?_of_known {α β : Type} {f : α → β} {m : AMap α} {m' : AMap β}
    (h : ∀ k, (AMap.get? m k).map f = AMap.get? m' k) {k : Bytes} (hk : AMap.contains m' k = true) :
    ∃ v, AMap.get? m k = some v := by
  obtain ⟨v, hv⟩ := (contains_iff_get? _ _).mp hk
  have := h k
  rw [hv] at this
  cases hc : AMap.get? m k with
  | none => rw [hc] at this; cases this
  | some c => exact ⟨c, rfl⟩

theorem known_of_get? {α β : Type} {f : α → β} {m : AMap α} {m' : AMap β}
    (h : ∀ k, (AMap.get? m k).map f = AMap.get? m' k) {k : Bytes} {v : α} (hk : AMap.get? m k = some v) :
    AMap.get? m' k = some (f v) := by
  have := h k
  rw [hk] at this
  exact this.symm

theorem contains_of_get? {α β : Type} {f : α → β} {m : AMap α} {m' : AMap β}
    (h : ∀ k, (AMap.get? m k).map f = AMap.get? m' k) {k : Bytes} {v : α} (hk : AMap.get? m k = some v) :
    AMap.contains m' k = true := (contains_iff_get? _ _).mpr ⟨_, known_of_get? h hk⟩

theorem contains_eq_of_view {α β : Type} {f : α → β} {m : AMap α} {m' : AMap β}
    (h : ∀ k, (AMap.get? m k).map f = AMap.get? m' k) (k : Bytes) :
    AMap.contains m' k = AMap.contains m k := by
  unfold AMap.contains
  rw [← h k]
  cases AMap.get? m k <;> rfl

theorem SimW.of_sim {st : St} {r : Ref} (h : Sim st r) : SimW st r := by
  have hL := h.inv.toInvL
  refine { nick := h.nick, ident := h.ident, host := h.host, motd := h.motd, maxLine := h.maxLine,
           maxPrefix := h.maxPrefix, opts := h.opts, chans := h.chans, chanModesWF := h.chanModesWF,
           users := h.users, members := h.members, umembers := ?_, membersKnown := h.membersKnown,
           membersNodup := h.membersNodup, perms := h.perms, permsKnown := h.permsKnown,
           chanKeysNodup := h.chanKeysNodup, userKeysNodup := h.userKeysNodup,
           chanKeysNonempty := h.chanKeysNonempty }
  intro n u hu k
  constructor
  · intro hk
    obtain ⟨ch, hch, hn⟩ := hL.userToChan n u hu k hk
    exact (h.members k ch hch n).mp hn
  · intro hm
    obtain ⟨ch, hch⟩ := get?_of_known h.chans (h.membersKnown k n hm).1
    have hn : n ∈ ch.users := (h.members k ch hch n).mpr hm
    obtain ⟨u', hu', hk⟩ := hL.chanToUser k ch hch n hn
    rw [hu] at hu'; cases hu'; exact hk

theorem SimW.to_sim {st : St} {r : Ref} (h : SimW st r) (hi : Inv st) : Sim st r :=
  { inv := hi, nick := h.nick, ident := h.ident, host := h.host, motd := h.motd, maxLine := h.maxLine,
    maxPrefix := h.maxPrefix, opts := h.opts, chans := h.chans, chanModesWF := h.chanModesWF,
    users := h.users, members := h.members, membersKnown := h.membersKnown,
    membersNodup := h.membersNodup, perms := h.perms, permsKnown := h.permsKnown,
    chanKeysNodup := h.chanKeysNodup, userKeysNodup := h.userKeysNodup,
    chanKeysNonempty := h.chanKeysNonempty }

/-- Two implementation states that agree on everything `SimW` can see. -/
structure StEq (a b : St) : Prop where
  nick : a.nick = b.nick
  ident : a.ident = b.ident
  host : a.host = b.host
  motd : a.motd = b.motd
  maxLine : a.maxLineLength = b.maxLineLength
  maxPrefix : a.maxPrefixLength = b.maxPrefixLength
  opts : ∀ k, AMap.get? a.serverOptions k = AMap.get? b.serverOptions k
  chans : ∀ k, AMap.get? a.channels k = AMap.get? b.channels k
  users : ∀ k, AMap.get? a.users k = AMap.get? b.users k

theorem StEq.refl (a : St) : StEq a a :=
  ⟨rfl, rfl, rfl, rfl, rfl, rfl, fun _ => rfl, fun _ => rfl, fun _ => rfl⟩

theorem SimW.congr {a b : St} {r : Ref} (h : SimW a r) (e : StEq a b) : SimW b r :=
  { nick := e.nick.symm.trans h.nick
    ident := e.ident.symm.trans h.ident
    host := e.host.symm.trans h.host
    motd := e.motd.symm.trans h.motd
    maxLine := e.maxLine.symm.trans h.maxLine
    maxPrefix := e.maxPrefix.symm.trans h.maxPrefix
    opts := fun k => (e.opts k).symm.trans (h.opts k)
    chans := fun k => by rw [← e.chans k]; exact h.chans k
    chanModesWF := fun k ch hk => h.chanModesWF k ch (by rw [e.chans k]; exact hk)
    users := fun n => by rw [← e.users n]; exact h.users n
    members := fun k ch hk => h.members k ch (by rw [e.chans k]; exact hk)
    umembers := fun n u hu => h.umembers n u (by rw [e.users n]; exact hu)
    membersKnown := h.membersKnown
    membersNodup := h.membersNodup
    perms := fun k n u hm hu => h.perms k n u hm (by rw [e.users n]; exact hu)
    permsKnown := h.permsKnown
    chanKeysNodup := h.chanKeysNodup
    userKeysNodup := h.userKeysNodup
    chanKeysNonempty := h.chanKeysNonempty }

/-! ### Facts about the reference operations -/

theorem contains_set_of_contains {β : Type} (m : AMap β) (k k' : Bytes) (v : β)
    (h : AMap.contains m k' = true) : AMap.contains (AMap.set m k v) k' = true := by
  rw [contains_iff] at h ⊢
  exact (mem_keys_set m k k' v).mpr (Or.inr h)

theorem contains_set_self {β : Type} (m : AMap β) (k : Bytes) (v : β) :
    AMap.contains (AMap.set m k v) k = true := by
  rw [contains_iff]
  exact (mem_keys_set m k k v).mpr (Or.inl rfl)

theorem mem_addMember (r : Ref) (c u : Bytes) (m : Bytes × Bytes) :
    m ∈ (r.addMember c u).members ↔ m = (c, u) ∨ m ∈ r.members := by
  unfold Ref.addMember Ref.isMember
  split
  · rename_i h
    have hm : (c, u) ∈ r.members := List.contains_iff_mem.mp h
    constructor
    · exact Or.inr
    · rintro (rfl | h')
      · exact hm
      · exact h'
  · show m ∈ r.members ++ [(c, u)] ↔ _
    rw [List.mem_append, List.mem_singleton]
    exact Or.comm

theorem addMember_nodup (r : Ref) (c u : Bytes) (h : r.members.Nodup) : (r.addMember c u).members.Nodup := by
  unfold Ref.addMember Ref.isMember
  split
  · exact h
  · rename_i hc
    have hm : (c, u) ∉ r.members := fun hm => hc (List.contains_iff_mem.mpr hm)
    show (r.members ++ [(c, u)]).Nodup
    rw [List.nodup_append]
    refine ⟨h, by simp, ?_⟩
    intro a ha b hb
    rw [List.mem_singleton] at hb
    subst hb
    intro e; subst e; exact hm ha

theorem addMember_users (r : Ref) (c u : Bytes) : (r.addMember c u).users = r.users := by
  unfold Ref.addMember; split <;> rfl
theorem addMember_chans (r : Ref) (c u : Bytes) : (r.addMember c u).chans = r.chans := by
  unfold Ref.addMember; split <;> rfl
theorem addMember_options (r : Ref) (c u : Bytes) : (r.addMember c u).options = r.options := by
  unfold Ref.addMember; split <;> rfl
theorem addMember_me (r : Ref) (c u : Bytes) : (r.addMember c u).me = r.me := by
  unfold Ref.addMember; split <;> rfl
theorem addMember_myIdent (r : Ref) (c u : Bytes) : (r.addMember c u).myIdent = r.myIdent := by
  unfold Ref.addMember; split <;> rfl
theorem addMember_myHost (r : Ref) (c u : Bytes) : (r.addMember c u).myHost = r.myHost := by
  unfold Ref.addMember; split <;> rfl
theorem addMember_motd (r : Ref) (c u : Bytes) : (r.addMember c u).motd = r.motd := by
  unfold Ref.addMember; split <;> rfl
theorem addMember_maxLine (r : Ref) (c u : Bytes) : (r.addMember c u).maxLine = r.maxLine := by
  unfold Ref.addMember; split <;> rfl
theorem addMember_maxPrefix (r : Ref) (c u : Bytes) : (r.addMember c u).maxPrefix = r.maxPrefix := by
  unfold Ref.addMember; split <;> rfl

/-- Lookup in a privilege list after replacing the record of one membership. -/
theorem find?_replace (l : List ((Bytes × Bytes) × Perms)) (q x : Bytes × Bytes) (p : Perms) :
    (l.filter (·.1 != q) ++ [(q, p)]).find? (·.1 == x) =
      if x = q then some (q, p) else l.find? (·.1 == x) := by
  induction l with
  | nil =>
    by_cases h : x = q
    · subst h; simp
    · have h' : ¬ q = x := fun e => h e.symm
      simp [h, h']
  | cons a l ih =>
    by_cases ha : a.1 = q
    · have : (a :: l).filter (·.1 != q) = l.filter (·.1 != q) := by
        rw [List.filter_cons]; simp [ha]
      rw [this, ih]
      by_cases h : x = q
      · rw [if_pos h, if_pos h]
      · rw [if_neg h, if_neg h]
        have hax : (a.1 == x) = false := beq_eq_false_iff_ne.mpr fun e => h (e.symm.trans ha)
        rw [List.find?_cons, hax]
    · have : (a :: l).filter (·.1 != q) = a :: l.filter (·.1 != q) := by
        rw [List.filter_cons]; simp [ha]
      rw [this, List.cons_append, List.find?_cons, List.find?_cons]
      by_cases hax : a.1 = x
      · have hxq : ¬ x = q := fun e => ha (hax.trans e)
        simp [hax, hxq]
      · have hb : (a.1 == x) = false := beq_eq_false_iff_ne.mpr hax
        rw [hb]
        exact ih

theorem getPerms_setPerms (r : Ref) (c u x y : Bytes) (p : Perms) :
    (r.setPerms c u p).getPerms x y = if (x, y) = (c, u) then p else r.getPerms x y := by
  unfold Ref.getPerms Ref.setPerms
  dsimp only
  rw [find?_replace]
  by_cases h : (x, y) = (c, u)
  · rw [if_pos h, if_pos h]; rfl
  · rw [if_neg h, if_neg h]

theorem getPerms_addMember (r : Ref) (c u x y : Bytes) :
    (r.addMember c u).getPerms x y =
      if (c, u) ∈ r.members then r.getPerms x y
      else if (x, y) = (c, u) then {} else r.getPerms x y := by
  unfold Ref.addMember Ref.isMember
  split
  · rename_i h
    rw [if_pos (List.contains_iff_mem.mp h)]
  · rename_i h
    have hm : (c, u) ∉ r.members := fun hm => h (List.contains_iff_mem.mpr hm)
    rw [if_neg hm]
    exact getPerms_setPerms r c u x y {}

theorem mem_perms_addMember (r : Ref) (c u : Bytes) (p : (Bytes × Bytes) × Perms)
    (h : p ∈ (r.addMember c u).perms) : p ∈ r.perms ∨ p.1 = (c, u) := by
  unfold Ref.addMember at h
  split at h
  · exact Or.inl h
  · rcases List.mem_append.mp h with h | h
    · exact Or.inl (List.mem_filter.mp h).1
    · rw [List.mem_singleton] at h; subst h; exact Or.inr rfl

theorem mem_perms_setPerms (r : Ref) (c u : Bytes) (q : Perms) (p : (Bytes × Bytes) × Perms)
    (h : p ∈ (r.setPerms c u q).perms) : p ∈ r.perms ∨ p.1 = (c, u) := by
  unfold Ref.setPerms at h
  rcases List.mem_append.mp h with h | h
  · exact Or.inl (List.mem_filter.mp h).1
  · rw [List.mem_singleton] at h; subst h; exact Or.inr rfl

end Girc.Proofs.SimJoin
