import Girc.Proofs.Pure
import Girc.Proofs.SendPath
import Girc.Gen.Skel
import Girc.Spec.Skeletons
/- C16 — flood protection bounds the send rate. Property theorems only (arithmetic and trace inequality). -/
namespace Girc.Props.C16
open Girc Girc.Model Girc.Proofs.Pure

/-- The cost of an event: one second plus ten milliseconds per byte, exactly. -/
theorem cost_exact (n : Nat) : cost n = second + (n : Int) * 10000000 := Proofs.Pure.cost_exact n

theorem delay_exact (wd since : Int) (n : Nat) :
    ((rate wd since n).2 = 0 ∨ (rate wd since n).2 = cost n) ∧
    ((rate wd since n).2 = cost n ↔ (rate wd since n).1 > 8 * second) ∧ 0 ≤ (rate wd since n).1 :=
  Proofs.Pure.delay_exact wd since n

theorem leaky_bucket (wd : Int) (tr : List Step) (hwd : 0 ≤ wd)
    (h : ∀ s ∈ tr, 0 ≤ s.since ∧ 0 ≤ s.extra) :
    (runTrace wd tr).2.2 ≤ 8 * second + (runTrace wd tr).2.1 := Proofs.Pure.leaky_bucket wd tr hwd h

theorem message_rate (wd : Int) (tr : List Step) (hwd : 0 ≤ wd)
    (h : ∀ s ∈ tr, 0 ≤ s.since ∧ 0 ≤ s.extra) :
    (tr.length : Int) * second ≤ 8 * second + (runTrace wd tr).2.1 := Proofs.Pure.message_rate wd tr hwd h

/-! ### the outgoing path: `Send` (limiter per piece unless AllowFlood), `write` (keep-alives), the `tx` queue, `sendLoop` -/

/-- The code the path model (Model/SendPath.lean) was written against is the code in the tree (regenerated on every run). -/
theorem skel_sendpath : Gen.skel_Send = Spec.Skel.skel_Send ∧ Gen.skel_write = Spec.Skel.skel_write ∧
    Gen.skel_sendLoop = Spec.Skel.skel_sendLoop ∧ Gen.skel_ircConn_rate = Spec.Skel.skel_ircConn_rate ∧
    Gen.skel_Cmd_Ping = Spec.Skel.skel_Cmd_Ping ∧ Gen.skel_Cmd_Pong = Spec.Skel.skel_Cmd_Pong := by decide +kernel

/-- Every piece handed to `Send` with flood protection on is charged; once the outstanding cost exceeds the
    allowance it is held for exactly its own cost, and it is queued behind everything handed over before. -/
theorem piece_held {α : Type} (s : SendSt α) (now : Int) (e : α) (len : Nat) :
    let r := stepSend false s (.send now e len)
    (r.2 = 0 ∨ r.2 = cost len) ∧ (r.2 = cost len ↔ r.1.writeDelay > 8 * second) ∧ 0 ≤ r.1.writeDelay ∧
    r.1.queue = s.queue ++ [e] := Proofs.SendPath.piece_held s now e len

/-- With AllowFlood no delay is ever inserted, for any history of sends, keep-alives and socket writes. -/
theorem allow_flood_no_delay {α : Type} (ops : List (SendOp α)) (s : SendSt α) :
    (∀ d ∈ (runSend true s ops).2, d = 0) ∧ (runSend true s ops).1.writeDelay = s.writeDelay :=
  Proofs.SendPath.allow_flood_no_delay ops s

/-- PING/PONG (everything sent through `write`) is never delayed and never charged, however much the limiter owes. -/
theorem keepalive_bypass {α : Type} (flood : Bool) (s : SendSt α) (e : α) :
    (stepSend flood s (.write e)).2 = 0 ∧ (stepSend flood s (.write e)).1.writeDelay = s.writeDelay ∧
    (stepSend flood s (.write e)).1.lastWrite = s.lastWrite ∧ (stepSend flood s (.write e)).1.queue = s.queue ++ [e] :=
  Proofs.SendPath.keepalive_bypass flood s e

/-- Order: what has been written followed by what is still queued is exactly what was handed over, in call order —
    for every interleaving of sends, keep-alives and socket writes. -/
theorem order_kept {α : Type} (flood : Bool) (ops : List (SendOp α)) (s : SendSt α) :
    (runSend flood s ops).1.wire ++ (runSend flood s ops).1.queue = s.wire ++ s.queue ++ handedOver ops :=
  Proofs.SendPath.fifo flood ops s

theorem wire_is_prefix_of_calls {α : Type} (flood : Bool) (ops : List (SendOp α)) :
    (runSend flood ({} : SendSt α) ops).1.wire <+: handedOver ops := Proofs.SendPath.wire_prefix flood ops

/-- The queue machine driven by a serial sender is the trace `leaky_bucket` speaks about, so the bound holds for it:
    total cost written ≤ 8 s allowance + elapsed wall-clock time between the first and the last write. -/
theorem serial_leaky_bucket (s : SendSt Unit) (tr : List Step) (hq : s.queue = []) (hdue : s.lastDue ≤ s.lastWrite)
    (hwd : 0 ≤ s.writeDelay) (h : ∀ st ∈ tr, 0 ≤ st.since ∧ 0 ≤ st.extra) :
    (runTrace s.writeDelay tr).2.2 ≤ 8 * second + ((Proofs.SendPath.serialRun s tr).lastWrite - s.lastWrite) :=
  Proofs.SendPath.serial_leaky_bucket s tr hq hdue hwd h

/-- "No matter how fast the application calls the send helpers": NOTHING is assumed about `sendLoop` keeping up. For every
    history of sends, keep-alives and (arbitrarily late) socket writes that respects the clock discipline (a call happens no
    earlier than the last write and than the moment the previously rated event was due — the caller sleeps the delay), the
    total cost passed through `Send` is at most the 8-second allowance plus the wall-clock time from the reference point at
    the start to the moment the last event is due. (Before repair F46 elapsed time was credited from `lastWrite` alone, which
    lags while events are queued: the same idle period was credited on every call and this bound was false.) -/
theorem limiter_bound {α : Type} (ops : List (SendOp α)) (s : SendSt α) (hwd : 0 ≤ s.writeDelay) (hd : Disciplined s ops) :
    sentCost ops ≤ 8 * second + ((runSend false s ops).1.ref - s.ref) := Proofs.SendPath.limiter_bound' ops s hwd hd

/-- F46 regression witness: twelve 50-byte messages (18 s of cost) handed over within the same instant after five idle
    seconds, no socket write in between: the first six pass, every further one is held for its cost. -/
example : (runSend false ({ lastWrite := 0 } : SendSt Nat) (List.replicate 12 (.send (5 * second) 0 50))).2 =
    [0, 0, 0, 0, 0, 0] ++ List.replicate 6 1500000000 := by decide

/-- Non-vacuity: a saturated limiter, a message, a PONG, two socket writes — the message is held 1.5 s, the PONG is not,
    and both reach the wire in call order. -/
example : (runSend false ({ writeDelay := 9 * second } : SendSt Nat) [.send 0 7 50, .write 8, .flush 1, .flush 2]).2 =
    [1500000000, 0, 0, 0] ∧
    (runSend false ({ writeDelay := 9 * second } : SendSt Nat) [.send 0 7 50, .write 8, .flush 1, .flush 2]).1.wire = [7, 8] := by
  decide

/-- Ten 50-byte messages back to back from an idle connection: the 6th onwards are each held 1.5 s. -/
example : (runTrace 0 (List.replicate 10 ⟨0, 50, 0⟩)).2.1 = 5 * 1500000000 := by decide

end Girc.Props.C16
