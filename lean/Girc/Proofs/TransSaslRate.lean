import Girc.Proofs.TransSlices
import Girc.Model.Sasl
import Girc.Model.Consts
import Girc.Model.SendPath
/-
  Translator equivalence: cap_sasl.go (*SASLPlain).Encode / (*SASLExternal).Encode, conn.go (*ircConn).rate.
-/
set_option linter.unusedSimpArgs false
namespace Girc.Proofs.Trans
open Girc Girc.Model Girc.Go Girc.Gen

/-! ### SASL encoders -/

theorem sasl_guard (params : List Bytes) :
    orE (pure (len params != 1)) (do pure ((← atL params 0) != [0x2B])) = .ok (decide (params ≠ [PLUS])) := by
  cases params with
  | nil => simp [len, pure, Except.pure, PLUS]
  | cons a rest =>
    cases rest with
    | nil =>
      have h0 : atL [a] 0 = .ok a := atL_nat [a] 0 a rfl
      by_cases ha : a = [0x2B]
      · subst ha; simp [len, pure, Except.pure, h0, bind, Except.bind, PLUS, bne]
      · simp [len, pure, Except.pure, h0, bind, Except.bind, PLUS, bne, ha]
    | cons b r =>
      have : (len (a :: b :: r) != 1) = true := by
        simp only [len, List.length_cons, bne_iff_ne, ne_eq]; omega
      simp [this, pure, Except.pure, PLUS]

theorem SASLPlain_Encode_eq (s : SASLPlain) (params : List Bytes) :
    Fn.SASLPlain_Encode (some s) params = .ok (saslPlainEncode s.user s.pass params) := by
  unfold Fn.SASLPlain_Encode saslPlainEncode
  rw [sasl_guard]
  by_cases h : params = [PLUS] <;> simp [h, bind, Except.bind, pure, Except.pure]

theorem SASLExternal_Encode_eq (s : SASLExternal) (params : List Bytes) :
    Fn.SASLExternal_Encode (some s) params = .ok (saslExternalEncode s.identity params) := by
  unfold Fn.SASLExternal_Encode saslExternalEncode
  rw [sasl_guard]
  by_cases h : params = [PLUS]
  · by_cases hi : s.identity = []
    · simp [h, hi, bind, Except.bind, pure, Except.pure, PLUS]
    · simp [h, hi, bind, Except.bind, pure, Except.pure, bne]
  · simp [h, bind, Except.bind, pure, Except.pure]

/-! ### the AUTHENTICATE chunk loop of `handleSASL` (suffix target `handleSASL_chunks`) -/

/-- One AUTHENTICATE line handed to `c.write`. -/
def authWrite (c : Bytes) : Out := Out.write { command := Fn.AUTHENTICATE, params := [c] }

theorem cAUTHENTICATE_eq : cAUTHENTICATE = Fn.AUTHENTICATE := by decide +kernel

theorem handleSASL_chunks_loop1_eq : ∀ (fuel : Nat) (auth : Bytes) (outs : List Out), auth.length < fuel →
    ∃ a, Fn.handleSASL_chunks_loop1 fuel auth outs = .ok (.done (a, outs ++ (saslChunksFuel fuel auth).map authWrite))
  | 0, _, _, h => by omega
  | fuel + 1, auth, outs, hf => by
    unfold Fn.handleSASL_chunks_loop1 saslChunksFuel
    by_cases hgt : auth.length > 400
    · have hc : decide (len auth > 400) = true := by dec_tac
      have s1 : sliceI auth 0 400 = .ok (auth.take 400) := sliceI_to auth 400 (by omega)
      have s2 : sliceI auth 400 (len auth) = .ok (auth.drop 400) := sliceI_from auth 400 (by omega)
      obtain ⟨a, ih⟩ := handleSASL_chunks_loop1_eq fuel (auth.drop 400)
        (outs ++ [authWrite (auth.take 400)]) (by simp; omega)
      refine ⟨a, ?_⟩
      have hg : auth.length > saslChunkSize := hgt
      simp only [hc, if_true, s1, s2, bind, Except.bind, pure, Except.pure, hg]
      simp only [authWrite] at ih ⊢
      rw [ih]
      simp [saslChunkSize, authWrite]
    · have hc : decide (len auth > 400) = false := by dec_tac
      have hc2 : decide (len auth ≤ 400) = true := by dec_tac
      have hg : ¬ auth.length > saslChunkSize := hgt
      refine ⟨auth, ?_⟩
      by_cases h4 : auth.length = 400
      · have hb : (len auth == 400) = true := by simp [len, h4]
        simp [hc, hc2, hb, h4, hg, authWrite, PLUS, bind, Except.bind, pure, Except.pure, saslChunkSize]
      · have hb : (len auth == 400) = false := by
          have : ¬ (len auth = 400) := by simp only [len]; omega
          simp [this]
        simp [hc, hc2, hb, h4, hg, authWrite, bind, Except.bind, pure, Except.pure]

/-- The tail of `handleSASL` after `auth` has been computed: the AUTHENTICATE lines written, in order. -/
theorem handleSASL_chunks_eq (auth : Bytes) :
    Fn.handleSASL_chunks auth = .ok ((saslChunks auth).map authWrite) := by
  unfold Fn.handleSASL_chunks saslChunks
  obtain ⟨a, hl⟩ := handleSASL_chunks_loop1_eq (auth.length + 1) auth [] (by omega)
  have hfu : (len auth).toNat + 1 = auth.length + 1 := by simp [len]
  simp only [hfu, hl, bind, Except.bind, pure, Except.pure, List.nil_append]

/-- … in the form the model's `handleSASL` (Model/Handlers.lean) states its last branch. -/
theorem handleSASL_chunks_model (auth : Bytes) :
    Fn.handleSASL_chunks auth =
      .ok ((saslChunks auth).map fun c => Out.write { command := cAUTHENTICATE, params := [c] }) := by
  rw [handleSASL_chunks_eq, cAUTHENTICATE_eq]; rfl

/-! ### (*ircConn).rate -/

theorem cost_tdiv (n : Nat) :
    ((1000000000 : Int) + Int.tdiv ((n : Int) * (1000000000 : Int)) 100) = cost n := by
  unfold cost second
  rw [Int.tdiv_eq_ediv_of_nonneg (by omega)]

/-- The reference point and the elapsed time `rate` credits, as functions of the limiter fields. -/
def connSince (c : IrcConn) (now : Int) : Int :=
  let ref := if c.lastDue > c.lastWrite then c.lastDue else c.lastWrite
  if now - ref < 0 then 0 else now - ref

theorem ircConn_rate_eq (c : IrcConn) (now : Int) (n : Nat) :
    Fn.ircConn_rate now (some c) (n : Int) = .ok
      ((rate c.writeDelay (connSince c now) n).2,
       some { c with writeDelay := (rate c.writeDelay (connSince c now) n).1,
                     lastDue := now + (rate c.writeDelay (connSince c now) n).2 }) := by
  unfold Fn.ircConn_rate
  simp only [cost_tdiv, deref_some, bind, Except.bind, pure, Except.pure]
  unfold rate connSince
  have h8 : (8 * (1000000000 : Int)) = 8 * second := by simp [second]
  simp only [h8]
  by_cases h1 : c.lastDue > c.lastWrite
  · simp only [h1, decide_true, if_true]
    by_cases h2 : now - c.lastDue < 0
    · simp only [h2, decide_true, if_true]
      by_cases h3 : c.writeDelay + (cost n - 0) < 0
      · simp only [h3, decide_true, if_true]
        by_cases h4 : (0 : Int) > 8 * second <;> simp only [h4, decide_true, decide_false, if_true, if_false, Bool.false_eq_true, Int.add_zero]
      · simp only [h3, decide_false, Bool.false_eq_true, if_false]
        by_cases h4 : c.writeDelay + (cost n - 0) > 8 * second <;> simp only [h4, decide_true, decide_false, if_true, if_false, Bool.false_eq_true, Int.add_zero]
    · simp only [h2, decide_false, Bool.false_eq_true, if_false]
      by_cases h3 : c.writeDelay + (cost n - (now - c.lastDue)) < 0
      · simp only [h3, decide_true, if_true]
        by_cases h4 : (0 : Int) > 8 * second <;> simp only [h4, decide_true, decide_false, if_true, if_false, Bool.false_eq_true, Int.add_zero]
      · simp only [h3, decide_false, Bool.false_eq_true, if_false]
        by_cases h4 : c.writeDelay + (cost n - (now - c.lastDue)) > 8 * second <;> simp only [h4, decide_true, decide_false, if_true, if_false, Bool.false_eq_true, Int.add_zero]
  · simp only [h1, decide_false, Bool.false_eq_true, if_false]
    by_cases h2 : now - c.lastWrite < 0
    · simp only [h2, decide_true, if_true]
      by_cases h3 : c.writeDelay + (cost n - 0) < 0
      · simp only [h3, decide_true, if_true]
        by_cases h4 : (0 : Int) > 8 * second <;> simp only [h4, decide_true, decide_false, if_true, if_false, Bool.false_eq_true, Int.add_zero]
      · simp only [h3, decide_false, Bool.false_eq_true, if_false]
        by_cases h4 : c.writeDelay + (cost n - 0) > 8 * second <;> simp only [h4, decide_true, decide_false, if_true, if_false, Bool.false_eq_true, Int.add_zero]
    · simp only [h2, decide_false, Bool.false_eq_true, if_false]
      by_cases h3 : c.writeDelay + (cost n - (now - c.lastWrite)) < 0
      · simp only [h3, decide_true, if_true]
        by_cases h4 : (0 : Int) > 8 * second <;> simp only [h4, decide_true, decide_false, if_true, if_false, Bool.false_eq_true, Int.add_zero]
      · simp only [h3, decide_false, Bool.false_eq_true, if_false]
        by_cases h4 : c.writeDelay + (cost n - (now - c.lastWrite)) > 8 * second <;> simp only [h4, decide_true, decide_false, if_true, if_false, Bool.false_eq_true, Int.add_zero]

theorem ircConn_rate_nil (now chars : Int) : Fn.ircConn_rate now none chars = .error .nilDeref := rfl

/-- The limiter fields of the outgoing-path model's state, as an `ircConn`. -/
def connOf {α : Type} (s : SendSt α) : IrcConn :=
  { lastWrite := s.lastWrite, lastDue := s.lastDue, writeDelay := s.writeDelay }

/-- The regenerated `rate` computes exactly the limiter part of `sendPiece false` (C16): the returned delay, the new
    `writeDelay` and the new `lastDue`; `lastWrite` is untouched. -/
theorem ircConn_rate_sendPiece {α : Type} (s : SendSt α) (now : Int) (e : α) (n : Nat) :
    Fn.ircConn_rate now (some (connOf s)) (n : Int) = .ok
      ((sendPiece false s now e n).2, some (connOf (sendPiece false s now e n).1)) := by
  rw [ircConn_rate_eq]
  have hs : connSince (connOf s) now = sinceOf s now := by
    unfold connSince sinceOf SendSt.ref connOf; rfl
  rw [hs]
  simp [sendPiece, connOf]

end Girc.Proofs.Trans
