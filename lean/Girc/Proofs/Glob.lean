import Girc.Model.Glob
import Girc.Spec.GlobSpec
namespace Girc.Proofs.Glob
open Girc Girc.Model

/-! ### `findSub`: leftmost occurrence -/

theorem findSub_some {p : Bytes} : ∀ {s : Bytes} {i : Nat}, findSub p s = some i →
    ∃ a b, s = a ++ p ++ b ∧ a.length = i
  | [], i, h => by
    unfold findSub at h
    by_cases hp : p = []
    · subst hp
      simp at h
      exact ⟨[], [], by simp, by simpa using h⟩
    · simp [hp] at h
  | x :: xs, i, h => by
    unfold findSub at h
    by_cases hpre : p.isPrefixOf (x :: xs) = true
    · simp [hpre] at h
      have := List.isPrefixOf_iff_prefix.mp hpre
      obtain ⟨b, hb⟩ := this
      exact ⟨[], b, by simpa using hb.symm, by simpa using h⟩
    · simp [hpre] at h
      obtain ⟨j, hj, hji⟩ := h
      obtain ⟨a, b, hs, ha⟩ := findSub_some hj
      refine ⟨x :: a, b, by simp [hs], by simp [ha, hji]⟩

theorem findSub_of_occ {p : Bytes} : ∀ (a : Bytes) {s b : Bytes}, s = a ++ p ++ b →
    ∃ i, findSub p s = some i ∧ i ≤ a.length
  | [], s, b, h => by
    cases s with
    | nil =>
      have hp : p = [] := by
        have : ([] : Bytes).length = ([] ++ p ++ b).length := by rw [← h]
        simp at this
        exact List.eq_nil_of_length_eq_zero (by omega)
      exact ⟨0, by simp [findSub, hp], by simp⟩
    | cons x xs =>
      have hpre : p.isPrefixOf (x :: xs) = true := by
        rw [List.isPrefixOf_iff_prefix]
        exact ⟨b, by simpa using h.symm⟩
      exact ⟨0, by simp [findSub, hpre], by simp⟩
  | y :: a, s, b, h => by
    subst h
    have e : (y :: a ++ p ++ b) = y :: (a ++ p ++ b) := rfl
    rw [e]
    by_cases hpre : p.isPrefixOf (y :: (a ++ p ++ b)) = true
    · exact ⟨0, by rw [findSub, if_pos hpre], by simp⟩
    · obtain ⟨i, hi, hle⟩ := findSub_of_occ a (s := a ++ p ++ b) (b := b) rfl
      refine ⟨i + 1, ?_, by simp [hle]⟩
      rw [findSub, if_neg hpre, hi]
      rfl

/-- The remainder after the leftmost occurrence has every other remainder as a suffix. -/
theorem findSub_leftmost {p s a b : Bytes} (h : s = a ++ p ++ b) :
    ∃ i x, findSub p s = some i ∧ s.drop (i + p.length) = x ++ b := by
  obtain ⟨i, hi, hle⟩ := findSub_of_occ a h
  refine ⟨i, (s.drop (i + p.length)).take (a.length - i), hi, ?_⟩
  have hb : b = (s.drop (i + p.length)).drop (a.length - i) := by
    rw [List.drop_drop]
    have : i + p.length + (a.length - i) = (a ++ p).length := by simp; omega
    rw [this, h, List.drop_left]
  conv => rhs; rw [hb]
  exact (List.take_append_drop _ _).symm

/-! ### Specification side -/

/-- `s` matches the pieces after an arbitrary leading gap. -/
def GapMatch (l : List Bytes) (s : Bytes) : Prop :=
  ∃ g rest, s = g ++ rest ∧ Spec.MatchesPieces l rest

theorem GapMatch.mono {l : List Bytes} {t : Bytes} (x : Bytes) (h : GapMatch l t) :
    GapMatch l (x ++ t) := by
  obtain ⟨g, rest, ht, hm⟩ := h
  exact ⟨x ++ g, rest, by simp [ht], hm⟩

theorem matchesPieces_cons2 (p q : Bytes) (ps : List Bytes) (s : Bytes) :
    Spec.MatchesPieces (p :: q :: ps) s ↔
      ∃ g rest, s = p ++ g ++ rest ∧ Spec.MatchesPieces (q :: ps) rest := Iff.rfl

theorem isSuffixOfB_iff (p s : Bytes) : isSuffixOfB p s = true ↔ ∃ g, s = g ++ p := by
  unfold isSuffixOfB
  rw [List.isPrefixOf_iff_prefix, List.reverse_prefix]
  constructor
  · rintro ⟨g, hg⟩; exact ⟨g, hg.symm⟩
  · rintro ⟨g, hg⟩; exact ⟨g, hg.symm⟩

/-! ### Greedy matcher = tail of `glob` -/

def greedy (more : List Bytes) (s : Bytes) : Bool :=
  match globMiddle more.dropLast s with
  | none => false
  | some rest => isSuffixOfB (more.getLastD []) rest

theorem greedy_single (p s : Bytes) : greedy [p] s = isSuffixOfB p s := by
  simp [greedy, globMiddle]

theorem greedy_cons2 (p q : Bytes) (ps : List Bytes) (s : Bytes) :
    greedy (p :: q :: ps) s =
      match findSub p s with
      | none => false
      | some i => greedy (q :: ps) (s.drop (i + p.length)) := by
  simp only [greedy, List.dropLast_cons_cons, globMiddle]
  cases findSub p s with
  | none => rfl
  | some i => simp [List.getLastD]

theorem greedy_iff : ∀ (q : Bytes) (ps : List Bytes) (s : Bytes),
    greedy (q :: ps) s = true ↔ GapMatch (q :: ps) s
  | p, [], s => by
    rw [greedy_single, isSuffixOfB_iff]
    constructor
    · rintro ⟨g, hg⟩; exact ⟨g, p, hg, rfl⟩
    · rintro ⟨g, rest, hs, hm⟩
      have : rest = p := hm
      exact ⟨g, by rw [hs, this]⟩
  | p, q :: ps, s => by
    rw [greedy_cons2]
    constructor
    · intro h
      cases hf : findSub p s with
      | none => simp [hf] at h
      | some i =>
        simp only [hf] at h
        obtain ⟨a, b, hs, ha⟩ := findSub_some hf
        have hb : s.drop (i + p.length) = b := by
          have : i + p.length = (a ++ p).length := by simp [ha]
          rw [this, hs, List.drop_left]
        rw [hb] at h
        obtain ⟨g', rest', hb', hm⟩ := (greedy_iff q ps b).mp h
        refine ⟨a, p ++ g' ++ rest', ?_, ?_⟩
        · simp [hs, hb']
        · exact ⟨g', rest', rfl, hm⟩
    · rintro ⟨g, rest, hs, g', rest', hrest, hm⟩
      have hocc : s = g ++ p ++ (g' ++ rest') := by simp [hs, hrest]
      obtain ⟨i, x, hi, hx⟩ := findSub_leftmost hocc
      simp only [hi]
      rw [greedy_iff q ps, hx]
      exact GapMatch.mono x ⟨g', rest', rfl, hm⟩

/-! ### `splitOnByte` glue -/

theorem splitOnByte_ne_nil (sep : Byte) : ∀ s : Bytes, splitOnByte sep s ≠ []
  | [] => by simp [splitOnByte]
  | x :: xs => by
    unfold splitOnByte
    by_cases hx : x = sep
    · simp [hx]
    · simp only [hx, if_false]
      split <;> simp

theorem splitOnByte_cons_sep (sep : Byte) (xs : Bytes) :
    splitOnByte sep (sep :: xs) = [] :: splitOnByte sep xs := by
  simp [splitOnByte]

theorem splitOnByte_cons_ne {sep x : Byte} (hx : x ≠ sep) {xs p : Bytes} {ps : List Bytes}
    (h : splitOnByte sep xs = p :: ps) :
    splitOnByte sep (x :: xs) = (x :: p) :: ps := by
  simp [splitOnByte, hx, h]

theorem splitOnByte_single (sep : Byte) : ∀ (s p : Bytes), splitOnByte sep s = [p] → p = s
  | [], p, h => by simpa [splitOnByte] using h.symm
  | x :: xs, p, h => by
    by_cases hx : x = sep
    · subst hx
      rw [splitOnByte_cons_sep] at h
      have := splitOnByte_ne_nil x xs
      simp at h
      exact absurd h.2 this
    · cases hsp : splitOnByte sep xs with
      | nil => exact absurd hsp (splitOnByte_ne_nil sep xs)
      | cons q qs =>
        rw [splitOnByte_cons_ne hx hsp] at h
        simp at h
        obtain ⟨h1, h2⟩ := h
        subst h2
        have := splitOnByte_single sep xs q hsp
        rw [← h1, this]

theorem splitOnByte_getLast (sep : Byte) : ∀ (s : Bytes), s.getLast? = some sep →
    ∃ p init, splitOnByte sep s = (p :: init) ++ [[]]
  | [], h => by simp at h
  | [x], h => by
    simp at h
    subst h
    exact ⟨[], [], by simp [splitOnByte]⟩
  | x :: y :: ys, h => by
    have h' : (y :: ys).getLast? = some sep := by simpa [List.getLast?_cons_cons] using h
    obtain ⟨p, init, hsp⟩ := splitOnByte_getLast sep (y :: ys) h'
    by_cases hx : x = sep
    · subst hx
      rw [splitOnByte_cons_sep, hsp]
      exact ⟨[], p :: init, rfl⟩
    · rw [splitOnByte_cons_ne hx hsp]
      exact ⟨x :: p, init, rfl⟩

theorem getLastD_append_single (l : List Bytes) (z d : Bytes) :
    (l ++ [z]).getLastD d = z := by
  simp [List.getLastD_eq_getLast?]

/-! ### Main theorem -/

theorem matches_cons2_iff (first q : Bytes) (ps : List Bytes) (s : Bytes) :
    Spec.MatchesPieces (first :: q :: ps) s ↔
      (first.isPrefixOf s = true ∧ greedy (q :: ps) (s.drop first.length) = true) := by
  rw [matchesPieces_cons2, greedy_iff, List.isPrefixOf_iff_prefix]
  constructor
  · rintro ⟨g, rest, hs, hm⟩
    refine ⟨⟨g ++ rest, by simp [hs]⟩, g, rest, ?_, hm⟩
    rw [hs, List.append_assoc, List.drop_left]
  · rintro ⟨⟨t, ht⟩, g, rest, hd, hm⟩
    refine ⟨g, rest, ?_, hm⟩
    rw [← ht, List.drop_left] at hd
    rw [← ht, hd, List.append_assoc]

theorem tail_eq_greedy (more : List Bytes) (s : Bytes) (trailing : Bool)
    (h : trailing = true → more.getLastD [] = []) :
    (match globMiddle more.dropLast s with
      | none => false
      | some rest => trailing || isSuffixOfB (more.getLastD []) rest) = greedy more s := by
  unfold greedy
  cases globMiddle more.dropLast s with
  | none => rfl
  | some rest =>
    cases trailing with
    | false => simp
    | true =>
      simp only [Bool.true_or]
      rw [h rfl]
      exact ((isSuffixOfB_iff [] rest).mpr ⟨rest, by simp⟩).symm

theorem glob_correct (input pat : Bytes) : glob input pat = true ↔ Spec.Matches input pat := by
  unfold glob Spec.Matches Spec.pieces
  have hstar : Spec.star = star := rfl
  rw [hstar]
  by_cases h0 : pat = []
  · subst h0
    simp [splitOnByte, Spec.MatchesPieces]
  rw [if_neg h0]
  by_cases h1 : pat = [star]
  · subst h1
    simp only [if_true, true_iff]
    have : splitOnByte star [star] = [[], []] := by simp [splitOnByte]
    rw [this]
    exact ⟨input, [], by simp, rfl⟩
  rw [if_neg h1]
  cases hsp : splitOnByte star pat with
  | nil => exact absurd hsp (splitOnByte_ne_nil _ _)
  | cons first more =>
    cases more with
    | nil =>
      have := splitOnByte_single _ _ _ hsp
      subst this
      simp [Spec.MatchesPieces]
    | cons q ps =>
      simp only
      have hlead : pat.head? = some star → first = [] := by
        intro hh
        cases pat with
        | nil => simp at hh
        | cons x xs =>
          simp at hh
          subst hh
          rw [splitOnByte_cons_sep] at hsp
          simp at hsp
          exact hsp.1
      have htrail : pat.getLast? = some star → (q :: ps).getLastD [] = [] := by
        intro hh
        obtain ⟨p, init, hi⟩ := splitOnByte_getLast star pat hh
        rw [hsp] at hi
        have hi' : first :: q :: ps = p :: (init ++ [[]]) := hi
        injection hi' with _ h2
        rw [h2]
        exact getLastD_append_single _ _ _
      rw [matches_cons2_iff]
      unfold greedy
      cases hg : globMiddle (q :: ps).dropLast (input.drop first.length) with
      | none => simp
      | some rest =>
        simp only
        have hsuf : pat.getLast? = some star →
            isSuffixOfB ((q :: ps).getLastD []) rest = true := fun hh => by
          rw [htrail hh]; exact (isSuffixOfB_iff [] rest).mpr ⟨rest, by simp⟩
        have hpre0 : pat.head? = some star → first.isPrefixOf input = true := fun hh => by
          rw [hlead hh]; rfl
        generalize isSuffixOfB ((q :: ps).getLastD []) rest = S at hsuf ⊢
        generalize first.isPrefixOf input = P at hpre0 ⊢
        by_cases hl : pat.head? = some star
        · have hP := hpre0 hl
          subst hP
          by_cases ht : pat.getLast? = some star
          · have hS := hsuf ht
            subst hS
            simp [hl, ht]
          · simp [hl, ht]
        · by_cases ht : pat.getLast? = some star
          · have hS := hsuf ht
            subst hS
            cases P <;> simp [hl, ht]
          · cases P <;> simp [hl, ht]

/-! ### Reference matcher -/

theorem anySuffix_iff (f : Bytes → Bool) : ∀ s : Bytes,
    Spec.anySuffix f s = true ↔ ∃ g t, s = g ++ t ∧ f t = true
  | [] => by
    simp only [Spec.anySuffix]
    constructor
    · intro h; exact ⟨[], [], rfl, h⟩
    · rintro ⟨g, t, hs, hf⟩
      have : t = [] := by
        have := congrArg List.length hs
        simp at this
        exact List.eq_nil_of_length_eq_zero (by omega)
      rw [← this]; exact hf
  | c :: cs => by
    simp only [Spec.anySuffix, Bool.or_eq_true, anySuffix_iff f cs]
    constructor
    · rintro (h | ⟨g, t, hs, hf⟩)
      · exact ⟨[], c :: cs, rfl, h⟩
      · exact ⟨c :: g, t, by simp [hs], hf⟩
    · rintro ⟨g, t, hs, hf⟩
      cases g with
      | nil => left; rw [hs]; exact hf
      | cons x g =>
        right
        simp at hs
        exact ⟨g, t, hs.2, hf⟩

theorem matchesPieces_cons_byte (c : Byte) (p : Bytes) (ps : List Bytes) (s : Bytes) :
    Spec.MatchesPieces ((c :: p) :: ps) s ↔ ∃ cs, s = c :: cs ∧ Spec.MatchesPieces (p :: ps) cs := by
  cases ps with
  | nil =>
    simp only [Spec.MatchesPieces]
    constructor
    · intro h; exact ⟨p, h, rfl⟩
    · rintro ⟨cs, hs, hc⟩; rw [hs, hc]
  | cons q ps =>
    simp only [matchesPieces_cons2]
    constructor
    · rintro ⟨g, rest, hs, hm⟩
      exact ⟨p ++ g ++ rest, by simp [hs], g, rest, rfl, hm⟩
    · rintro ⟨cs, hs, g, rest, hcs, hm⟩
      exact ⟨g, rest, by simp [hs, hcs], hm⟩

theorem wmatch_iff : ∀ (pat s : Bytes),
    Spec.wmatch pat s = true ↔ Spec.MatchesPieces (splitOnByte star pat) s
  | [], s => by
    simp [Spec.wmatch, splitOnByte, Spec.MatchesPieces]
  | c :: pat, s => by
    have hstar : Spec.star = star := rfl
    by_cases hc : c = star
    · subst hc
      rw [splitOnByte_cons_sep]
      simp only [Spec.wmatch, hstar, if_true]
      rw [anySuffix_iff]
      cases hsp : splitOnByte star pat with
      | nil => exact absurd hsp (splitOnByte_ne_nil _ _)
      | cons q ps =>
        rw [matchesPieces_cons2]
        simp only [wmatch_iff pat, hsp, List.nil_append]
    · cases hsp : splitOnByte star pat with
      | nil => exact absurd hsp (splitOnByte_ne_nil _ _)
      | cons q ps =>
        rw [splitOnByte_cons_ne hc hsp, matchesPieces_cons_byte]
        cases s with
        | nil => simp [Spec.wmatch, hstar, hc]
        | cons x xs =>
          simp only [Spec.wmatch, hstar, hc, if_false, Bool.and_eq_true, decide_eq_true_eq,
            wmatch_iff pat, hsp]
          constructor
          · rintro ⟨hx, hm⟩; exact ⟨xs, by rw [hx], hm⟩
          · rintro ⟨cs, hs, hm⟩
            simp at hs
            rw [← hs.2] at hm
            exact ⟨hs.1, hm⟩

theorem wmatch_correct (input pat : Bytes) : Spec.wmatch pat input = true ↔ Spec.Matches input pat := by
  unfold Spec.Matches Spec.pieces
  exact wmatch_iff pat input

end Girc.Proofs.Glob
