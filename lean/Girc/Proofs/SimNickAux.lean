import Girc.Spec.Sim
import Girc.Proofs.InvRename
/-
  C04 proofs, part 5 (auxiliary): what `rekey` does to the reference relations, and an extensional
  description of the tail of `renameUser` (everything after the own-nick update).
-/
namespace Girc.Proofs.SimNick
open Girc Girc.Model Girc.Spec Girc.Proofs.InvBase Girc.Proofs.InvRename

/-! ### Reference side: `rekey` -/

/-- What `rekey` does to one membership. -/
def rekeyM (old new_ : Bytes) (m : Bytes × Bytes) : Bytes × Bytes := if m.2 = old then (m.1, new_) else m

/-- What `rekey` does to one privilege record. -/
def rekeyP (old new_ : Bytes) (p : (Bytes × Bytes) × Perms) : (Bytes × Bytes) × Perms :=
  if p.1.2 = old then ((p.1.1, new_), p.2) else p

theorem rekey_some {r : Ref} {old new_ nick : Bytes} {u : RUser} (h : AMap.get? r.users old = some u) :
    r.rekey old new_ nick =
      { r with users := AMap.set (AMap.erase r.users old) new_ { u with nick := nick },
               members := r.members.map (rekeyM old new_),
               perms := r.perms.map (rekeyP old new_) } := by
  unfold Ref.rekey
  rw [h]
  rfl

theorem rekey_none {r : Ref} {old new_ nick : Bytes} (h : AMap.get? r.users old = none) :
    r.rekey old new_ nick = r := by
  unfold Ref.rekey
  rw [h]

theorem rekeyM_of_eq (old new_ c : Bytes) : rekeyM old new_ (c, old) = (c, new_) := by
  unfold rekeyM; rw [if_pos rfl]

theorem rekeyM_of_ne {old u : Bytes} (new_ c : Bytes) (h : u ≠ old) : rekeyM old new_ (c, u) = (c, u) := by
  unfold rekeyM; rw [if_neg h]

theorem rekeyP_of_eq (old new_ c : Bytes) (p : Perms) : rekeyP old new_ ((c, old), p) = ((c, new_), p) := by
  unfold rekeyP; rw [if_pos rfl]

theorem rekeyP_of_ne {old u : Bytes} (new_ c : Bytes) (p : Perms) (h : u ≠ old) :
    rekeyP old new_ ((c, u), p) = ((c, u), p) := by
  unfold rekeyP; rw [if_neg h]

theorem rekeyP_snd (old new_ : Bytes) (p : (Bytes × Bytes) × Perms) : (rekeyP old new_ p).2 = p.2 := by
  unfold rekeyP; split <;> rfl

/-- Memberships after a re-keying. -/
theorem mem_map_rekeyM (M : List (Bytes × Bytes)) (old new_ k n : Bytes) :
    (k, n) ∈ M.map (rekeyM old new_) ↔ ((k, old) ∈ M ∧ n = new_) ∨ ((k, n) ∈ M ∧ n ≠ old) := by
  rw [List.mem_map]
  constructor
  · rintro ⟨⟨c, u⟩, hm, he⟩
    by_cases hu : u = old
    · subst hu
      rw [rekeyM_of_eq] at he
      cases he
      exact Or.inl ⟨hm, rfl⟩
    · rw [rekeyM_of_ne _ _ hu] at he
      cases he
      exact Or.inr ⟨hm, hu⟩
  · rintro (⟨hm, e⟩ | ⟨hm, hne⟩)
    · exact ⟨(k, old), hm, by rw [rekeyM_of_eq, e]⟩
    · exact ⟨(k, n), hm, rekeyM_of_ne _ _ hne⟩

/-- Re-keying keeps the membership list duplicate-free when the new key is the old one or unused. -/
theorem nodup_map_rekeyM {M : List (Bytes × Bytes)} (hnd : M.Nodup) {old new_ : Bytes}
    (hnew : new_ = old ∨ ∀ c, (c, new_) ∉ M) : (M.map (rekeyM old new_)).Nodup := by
  unfold List.Nodup
  rw [List.pairwise_map]
  refine List.Pairwise.imp_of_mem ?_ hnd
  rintro ⟨c1, u1⟩ ⟨c2, u2⟩ h1 h2 hne heq
  apply hne
  by_cases e1 : u1 = old
  · subst e1
    rw [rekeyM_of_eq] at heq
    by_cases e2 : u2 = u1
    · subst e2
      rw [rekeyM_of_eq] at heq
      cases heq; rfl
    · rw [rekeyM_of_ne _ _ e2] at heq
      cases heq
      rcases hnew with e | hf
      · exact absurd e e2
      · exact absurd h2 (hf _)
  · rw [rekeyM_of_ne _ _ e1] at heq
    by_cases e2 : u2 = old
    · subst e2
      rw [rekeyM_of_eq] at heq
      cases heq
      rcases hnew with e | hf
      · exact absurd e e1
      · exact absurd h1 (hf _)
    · rw [rekeyM_of_ne _ _ e2] at heq
      exact heq

theorem pair_beq_congr {a b c d a' b' c' d' : Bytes} (h : (a = c ∧ b = d) ↔ (a' = c' ∧ b' = d')) :
    ((a, b) == (c, d)) = ((a', b') == (c', d')) := by
  rw [Bool.eq_iff_iff, beq_iff_eq, beq_iff_eq, Prod.mk.injEq, Prod.mk.injEq]
  exact h

/-- Looking up a privilege record through a key-translating, value-preserving map. -/
theorem find?_map_perms (P : List ((Bytes × Bytes) × Perms)) (f : (Bytes × Bytes) × Perms → (Bytes × Bytes) × Perms)
    (q q' : Bytes × Bytes) (hf2 : ∀ p, (f p).2 = p.2) (hq : ∀ p ∈ P, ((f p).1 == q') = (p.1 == q)) :
    ((P.map f).find? (·.1 == q')).map (·.2) = (P.find? (·.1 == q)).map (·.2) := by
  induction P with
  | nil => rfl
  | cons p P ih =>
    have hp := hq p List.mem_cons_self
    have ih' := ih (fun x hx => hq x (List.mem_cons_of_mem _ hx))
    rw [List.map_cons, List.find?_cons, List.find?_cons]
    show Option.map (fun x : (Bytes × Bytes) × Perms => x.2) (match (f p).1 == q' with
      | true => some (f p)
      | false => (P.map f).find? (fun x => x.1 == q')) = _
    rw [hp]
    cases hpq : (p.1 == q) with
    | true => show some (f p).2 = some p.2; rw [hf2]
    | false => exact ih'

/-- The renamed user's privileges are the ones recorded under the old key. -/
theorem getPerms_rekey_new {r : Ref} {old new_ : Bytes} (k : Bytes)
    (hnew : new_ = old ∨ ∀ p ∈ r.perms, p.1.2 ≠ new_) (r' : Ref) (hr' : r'.perms = r.perms.map (rekeyP old new_)) :
    r'.getPerms k new_ = r.getPerms k old := by
  unfold Ref.getPerms
  rw [hr', find?_map_perms r.perms (rekeyP old new_) (k, old) (k, new_) (rekeyP_snd old new_)]
  rintro ⟨⟨c, u⟩, pv⟩ hp
  by_cases hu : u = old
  · subst hu
    rw [rekeyP_of_eq]
    show ((c, new_) == (k, new_)) = ((c, u) == (k, u))
    exact pair_beq_congr ⟨fun h => ⟨h.1, rfl⟩, fun h => ⟨h.1, rfl⟩⟩
  · rw [rekeyP_of_ne _ _ _ hu]
    show ((c, u) == (k, new_)) = ((c, u) == (k, old))
    rcases hnew with e | hf
    · rw [e]
    · have hun : u ≠ new_ := hf _ hp
      exact pair_beq_congr ⟨fun h => absurd h.2 hun, fun h => absurd h.2 hu⟩

/-- Everybody else's privileges are untouched. -/
theorem getPerms_rekey_other {r : Ref} {old new_ : Bytes} (k : Bytes) {n : Bytes} (hn1 : n ≠ old) (hn2 : n ≠ new_)
    (r' : Ref) (hr' : r'.perms = r.perms.map (rekeyP old new_)) :
    r'.getPerms k n = r.getPerms k n := by
  unfold Ref.getPerms
  rw [hr', find?_map_perms r.perms (rekeyP old new_) (k, n) (k, n) (rekeyP_snd old new_)]
  rintro ⟨⟨c, u⟩, pv⟩ _
  by_cases hu : u = old
  · subst hu
    rw [rekeyP_of_eq]
    show ((c, new_) == (k, n)) = ((c, u) == (k, n))
    have h1 : new_ ≠ n := fun e => hn2 e.symm
    have h2 : u ≠ n := fun e => hn1 e.symm
    exact pair_beq_congr ⟨fun h => absurd h.2 h1, fun h => absurd h.2 h2⟩
  · rw [rekeyP_of_ne _ _ _ hu]

/-! ### Model side: views are insensitive to the rename of list entries -/

theorem chanView_renameChan (from_ to : Bytes) (ch : Channel) : chanView (renameChan from_ to ch) = chanView ch := by
  unfold renameChan
  split <;> rfl

theorem renameChan_modes (from_ to : Bytes) (ch : Channel) : (renameChan from_ to ch).modes = ch.modes := by
  unfold renameChan
  split <;> rfl

/-- The part of `renameUser` after the own-nick update. -/
def renameTail (s : St) (from_ to : Bytes) : M St :=
  match AMap.get? s.users from_ with
  | none => .ok s
  | some user => do
    let s ← if fold to ≠ from_ then s.deleteUser [] to else .ok s
    let cs ← renameLoop from_ to user.chans s.channels
    .ok { s with users := AMap.set (AMap.erase s.users from_) (fold to) { user with nick := to }, channels := cs }

theorem renameUser_eq_tail (s : St) (from_ to : Bytes) :
    s.renameUser from_ to =
      renameTail (if fold from_ = fold s.nick then { s with nick := to } else s) (fold from_) to := by
  unfold St.renameUser renameTail St.lookupUser
  simp only [fold_idem]
  rfl

theorem renameTail_none {s : St} {from_ : Bytes} (to : Bytes) (h : AMap.get? s.users from_ = none) :
    renameTail s from_ to = .ok s := by
  unfold renameTail
  rw [h]

/-- The tail of `renameUser` for a tracked user whose new key is the old one or unused: no fault, and
    the resulting maps described by lookups. -/
theorem renameTail_some {s : St} (h : Inv s) {from_ to : Bytes} {user : User}
    (hu : AMap.get? s.users from_ = some user)
    (ht : fold to = from_ ∨ AMap.get? s.users (fold to) = none) :
    ∃ cs', renameTail s from_ to =
        .ok { s with users := AMap.set (AMap.erase s.users from_) (fold to) { user with nick := to }, channels := cs' } ∧
      AMap.keys cs' = AMap.keys s.channels ∧
      (∀ k, AMap.get? cs' k =
        if k ∈ user.chans then (AMap.get? s.channels k).map (renameChan from_ to) else AMap.get? s.channels k) := by
  have hL := h.toInvL
  have hex : ∀ c ∈ user.chans, ∃ ch, AMap.get? s.channels c = some ch := by
    intro c hc
    obtain ⟨ch, hch, _⟩ := hL.userToChan from_ user hu c hc
    exact ⟨ch, hch⟩
  obtain ⟨cs', hrun, hkeys, hget⟩ := renameLoop_spec from_ to user.chans s.channels (hL.chans_nodup hu) hex
  refine ⟨cs', ?_, hkeys, hget⟩
  unfold renameTail
  rw [hu]
  simp only []
  by_cases hne : fold to ≠ from_
  · have hdel : s.deleteUser [] to = .ok s := by
      rcases ht with e | hnone
      · exact absurd e hne
      · unfold St.deleteUser
        rw [lookupUser_eq, hnone]
    rw [if_pos hne, hdel]
    show (renameLoop from_ to user.chans s.channels >>= _) = _
    rw [hrun]
    rfl
  · rw [if_neg hne]
    show (renameLoop from_ to user.chans s.channels >>= _) = _
    rw [hrun]
    rfl

/-- The channels after the loop, in terms of the channels before: same settings, and the user list has
    the old key replaced by the new one exactly in the channels the user lists. -/
theorem renamed_chan {cs cs' : AMap Channel} {us : AMap User} (h : InvL cs us) {from_ to : Bytes} {user : User}
    (hu : AMap.get? us from_ = some user)
    (hget : ∀ k, AMap.get? cs' k =
      if k ∈ user.chans then (AMap.get? cs k).map (renameChan from_ to) else AMap.get? cs k)
    {k : Bytes} {ch' : Channel} (hk' : AMap.get? cs' k = some ch') :
    ∃ ch, AMap.get? cs k = some ch ∧ ch'.modes = ch.modes ∧
      ∀ x, x ∈ ch'.users ↔ (x = fold to ∧ from_ ∈ ch.users) ∨ (x ≠ from_ ∧ x ∈ ch.users) := by
  rw [hget k] at hk'
  by_cases hkc : k ∈ user.chans
  · rw [if_pos hkc] at hk'
    obtain ⟨ch, hch, he⟩ := Option.map_eq_some_iff.mp hk'
    have hfrom : from_ ∈ ch.users := (h.mem_users_iff_mem_chans hch hu).mpr hkc
    refine ⟨ch, hch, ?_, ?_⟩
    · rw [← he]; exact renameChan_modes _ _ _
    · intro x
      rw [← he, renameChan_users_of_mem to hfrom, mem_sortBytes, mem_replaceFirst (h.users_nodup hch) hfrom]
      constructor
      · rintro (e | hx)
        · exact Or.inl ⟨e, hfrom⟩
        · exact Or.inr hx
      · rintro (⟨e, _⟩ | hx)
        · exact Or.inl e
        · exact Or.inr hx
  · rw [if_neg hkc] at hk'
    have hfrom : from_ ∉ ch'.users := fun hm => hkc ((h.mem_users_iff_mem_chans hk' hu).mp hm)
    refine ⟨ch', hk', rfl, ?_⟩
    intro x
    constructor
    · intro hx; exact Or.inr ⟨fun e => hfrom (e ▸ hx), hx⟩
    · rintro (⟨_, hf⟩ | ⟨_, hx⟩)
      · exact absurd hf hfrom
      · exact hx

end Girc.Proofs.SimNick
