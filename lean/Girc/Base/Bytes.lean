/-
  Bytes: Go strings are arbitrary byte sequences; everything on the wire is `List UInt8`.
  Core Lean only (this file is imported by the compiled driver).
-/
namespace Girc

abbrev Byte := UInt8
abbrev Bytes := List UInt8

/-- `∀ b : UInt8, P b` is decidable by enumeration over `Fin 256`
    (lets `decide +kernel` close complete byte-table facts, axiom-free). -/
instance decForallUInt8 (P : UInt8 → Prop) [DecidablePred P] : Decidable (∀ b : UInt8, P b) :=
  if h : ∀ i : Fin 256, P (UInt8.ofNat i.val) then
    isTrue (by
      intro b
      have hb : b.toNat < 256 := UInt8.toNat_lt b
      have := h ⟨b.toNat, hb⟩
      simpa using this)
  else
    isFalse (fun hall => h (fun i => hall _))

namespace Bytes

def ofString (s : String) : Bytes := s.toUTF8.toList

def hexDigit (n : Nat) : Char :=
  if n < 10 then Char.ofNat (48 + n) else Char.ofNat (87 + n)

def toHex (bs : Bytes) : String :=
  String.ofList (bs.flatMap fun b => [hexDigit (b.toNat / 16), hexDigit (b.toNat % 16)])

def hexVal (c : Char) : Option Nat :=
  if '0' ≤ c ∧ c ≤ '9' then some (c.toNat - 48)
  else if 'a' ≤ c ∧ c ≤ 'f' then some (c.toNat - 87)
  else if 'A' ≤ c ∧ c ≤ 'F' then some (c.toNat - 55)
  else none

def ofHexChars : List Char → Option Bytes
  | [] => some []
  | [_] => none
  | a :: b :: rest => do
    let x ← hexVal a
    let y ← hexVal b
    let r ← ofHexChars rest
    pure (UInt8.ofNat (x * 16 + y) :: r)

def ofHex (s : String) : Option Bytes := ofHexChars s.toList

/-- Best effort rendering for diagnostics (non-UTF8 shown as hex). -/
def render (bs : Bytes) : String :=
  match String.fromUTF8? (ByteArray.mk bs.toArray) with
  | some s => s
  | none => "0x" ++ toHex bs

end Bytes

/-- `strings.IndexByte`: index of the first occurrence. -/
def indexOf (b : Byte) : Bytes → Option Nat
  | [] => none
  | x :: xs => if x = b then some 0 else (indexOf b xs).map (· + 1)

/-- `strings.Index` restricted to "does `p` occur, and where first": leftmost occurrence. -/
def findSub (p : Bytes) : Bytes → Option Nat
  | [] => if p = [] then some 0 else none
  | x :: xs => if p.isPrefixOf (x :: xs) then some 0 else (findSub p xs).map (· + 1)

/-- `strings.Split(s, string(sep))` for a one-byte separator: always at least one piece. -/
def splitOnByte (sep : Byte) : Bytes → List Bytes
  | [] => [[]]
  | x :: xs =>
    if x = sep then [] :: splitOnByte sep xs
    else match splitOnByte sep xs with
      | [] => [[x]]          -- unreachable
      | p :: ps => (x :: p) :: ps

/-- `strings.Join(parts, string(sep))`. -/
def joinWith (sep : Bytes) : List Bytes → Bytes
  | [] => []
  | [p] => p
  | p :: ps => p ++ sep ++ joinWith sep ps

def isSuffixOfB (s t : Bytes) : Bool := s.reverse.isPrefixOf t.reverse

/-- Lexicographic byte order = Go string `<`. -/
def bytesLt : Bytes → Bytes → Bool
  | [], [] => false
  | [], _ :: _ => true
  | _ :: _, [] => false
  | a :: as, b :: bs => if a < b then true else if b < a then false else bytesLt as bs

def bytesLe (a b : Bytes) : Bool := !bytesLt b a

/-- Insertion into a sorted list (models `append` + `sort.Strings` on an already sorted list;
    for unsorted input we sort outright with `sortBytes`). -/
def insertSorted (x : Bytes) : List Bytes → List Bytes
  | [] => [x]
  | y :: ys => if bytesLe x y then x :: y :: ys else y :: insertSorted x ys

def sortBytes (l : List Bytes) : List Bytes := l.foldr insertSorted []

end Girc
