import Girc.Base.Bytes
/-
  Model of format.go: IsValidNick, IsValidUser, IsValidChannel, ToRFC1459.
  Each function mirrors the Go control flow; byte-class conditions are the Go
  conditions transcribed (they are also regenerated from source into Gen/Facts.lean
  and proved equal to these in Props/C15.lean).
-/
namespace Girc.Model

/-- `(c < 'A' || c > '}') && c != '?'` negated: allowed first byte of a nick. -/
def nickFirst (c : Byte) : Bool := !((c < 0x41 || c > 0x7D) && c != 0x3F)

/-- `(c < 'A' || c > '}') && (c < '0' || c > '9') && c != '-'` negated. -/
def nickRest (c : Byte) : Bool := !((c < 0x41 || c > 0x7D) && (c < 0x30 || c > 0x39) && c != 0x2D)

def isValidNick : Bytes → Bool
  | [] => false
  | c :: rest => nickFirst c && rest.all nickRest

/-- first byte of the (tilde-stripped) user name: alphanumeric. -/
def userFirst (c : Byte) : Bool :=
  !((c < 0x41 || c > 0x5A) && (c < 0x61 || c > 0x7A) && (c < 0x30 || c > 0x39))

def userRest (c : Byte) : Bool :=
  !((c < 0x41 || c > 0x7D) && (c < 0x30 || c > 0x39) && c != 0x2D && c != 0x2E)

def isValidUserBody : Bytes → Bool
  | [] => false          -- unreachable from isValidUser (guarded), kept total
  | c :: rest => userFirst c && rest.all userRest

def isValidUser : Bytes → Bool
  | [] => false
  | c :: rest =>
    if c = 0x7E then
      if rest.length < 1 then false else isValidUserBody rest
    else isValidUserBody (c :: rest)

def chanPrefix (c : Byte) : Bool :=
  c = 0x21 || c = 0x23 || c = 0x26 || c = 0x2A || c = 0x7E || c = 0x2B

def chanIdByte (c : Byte) : Bool := !((c < 0x30 || c > 0x39) && (c < 0x41 || c > 0x5A))

def chanBad (c : Byte) : Bool :=
  c = 0x00 || c = 0x07 || c = 0x0D || c = 0x0A || c = 0x20 || c = 0x2C || c = 0x3A

/-- Each early `return false` of the Go function is one conjunct. -/
def isValidChannel (s : Bytes) : Bool :=
  !(decide (s.length ≤ 1) || decide (s.length > 50)) &&
  match s with
  | [] => false
  | c :: rest =>
    chanPrefix c &&
    !(c == 0x21 && (decide (s.length < 7) || !(rest.take 5).all chanIdByte)) &&
    !rest.any chanBad

/-- One byte of the RFC 1459 fold: 65..94 ↦ +32. -/
def fold1 (c : Byte) : Byte := if c ≥ 65 && c ≤ 94 then c + 32 else c

/-- `ToRFC1459`. -/
def fold (s : Bytes) : Bytes := s.map fold1

end Girc.Model
