import Girc.Spec.FormatSpec
/-
  C20 proofs, part 1: `Fmt` is compositional over literal pieces and tokens.
-/
namespace Girc.Proofs.Format
open Girc Girc.Model Girc.Spec

/-! ### byte facts -/
def isLetter (b : Byte) : Bool := (0x41 ≤ b && b ≤ 0x5A) || (0x61 ≤ b && b ≤ 0x7A)

theorem lettersOnly_eq (n : Bytes) : lettersOnly n = n.all isLetter := rfl

theorem letter_inner : ∀ b : Byte, isLetter b = true → fmtInner b = true := by decide +kernel
theorem letter_notL : ∀ b : Byte, isLetter b = true → b ≠ LBRACE := by decide +kernel
theorem letter_notR : ∀ b : Byte, isLetter b = true → b ≠ RBRACE := by decide +kernel
theorem letter_notC : ∀ b : Byte, isLetter b = true → b ≠ COMMA := by decide +kernel
theorem letter_lower_notC : ∀ b : Byte, isLetter b = true → lower1 b ≠ COMMA := by decide +kernel

theorem fmtScan_lit (s rest : Bytes) (h : braceFree s = true) :
    fmtScan (s ++ rest) none = s ++ fmtScan rest none := by
  induction s with
  | nil => rfl
  | cons b s ih =>
    simp [braceFree] at h
    have : braceFree s = true := by simp [braceFree]; exact h.2
    simp [fmtScan, h.1.1, ih this]

theorem fmt_id_aux (t : Bytes) (h : braceFree t = true) : fmt t = t := by
  have := fmtScan_lit t [] h
  simpa [fmt, fmtScan] using this

/-- bytes allowed inside a token: keeps the brace open, is no brace -/
def innerOk (b : Byte) : Bool := fmtInner b && b != LBRACE && b != RBRACE

theorem letter_innerOk : ∀ b : Byte, isLetter b = true → innerOk b = true := by decide +kernel
theorem comma_innerOk : innerOk COMMA = true := by decide

theorem fmtScan_pending (n rest p : Bytes) (h : n.all innerOk = true) :
    fmtScan (n ++ RBRACE :: rest) (some p) = fmtRepl (p ++ n) ++ fmtScan rest none := by
  induction n generalizing p with
  | nil => simp [fmtScan, show RBRACE ≠ LBRACE by decide]
  | cons b n ih =>
    simp [innerOk] at h
    obtain ⟨⟨⟨h1, h2⟩, h3⟩, h4⟩ := h
    have : n.all innerOk = true := by simp [innerOk]; exact h4
    simp [fmtScan, h1, h2, h3, ih _ this]

theorem fmtScan_token (n rest : Bytes) (h : n.all innerOk = true) :
    fmtScan (LBRACE :: n ++ RBRACE :: rest) none = fmtRepl n ++ fmtScan rest none := by
  have := fmtScan_pending n rest [] h
  simp [fmtScan] 
  simpa using this

theorem all_letter_innerOk (n : Bytes) (h : lettersOnly n = true) : n.all innerOk = true := by
  rw [lettersOnly_eq] at h
  simp only [List.all_eq_true] at h ⊢
  exact fun b hb => letter_innerOk b (h b hb)

theorem indexOf_none (b : Byte) (s : Bytes) (h : ∀ x ∈ s, x ≠ b) : indexOf b s = none := by
  induction s with
  | nil => rfl
  | cons x s ih =>
    simp at h
    simp [indexOf, h.1, ih h.2]

theorem indexOf_append (b : Byte) (s t : Bytes) (h : ∀ x ∈ s, x ≠ b) :
    indexOf b (s ++ b :: t) = some s.length := by
  induction s with
  | nil => simp [indexOf]
  | cons x s ih =>
    simp at h
    simp [indexOf, h.1, ih h.2]

theorem lower_noComma (n : Bytes) (h : lettersOnly n = true) : ∀ x ∈ toLowerAscii n, x ≠ COMMA := by
  rw [lettersOnly_eq] at h
  simp only [List.all_eq_true] at h
  intro x hx
  simp [toLowerAscii] at hx
  obtain ⟨a, ha, rfl⟩ := hx
  exact letter_lower_notC a (h a ha)

theorem fmtRepl_name (n : Bytes) (h : lettersOnly n = true) : fmtRepl n = outItem (.name n) := by
  simp only [fmtRepl, outItem]
  rw [indexOf_none _ _ (lower_noComma n h)]
  cases hc : colorOf (toLowerAscii n) <;> simp

theorem colorOf_nil : colorOf [] = none := by decide

theorem fmtRepl_pair (fg bg : Bytes) (h1 : lettersOnly fg = true)
    (h3 : isColorName fg = true) (h4 : isColorName bg = true) :
    fmtRepl (fg ++ COMMA :: bg) = outItem (.pair fg bg) := by
  simp only [fmtRepl, outItem]
  have hl : toLowerAscii (fg ++ COMMA :: bg) = toLowerAscii fg ++ COMMA :: toLowerAscii bg := by
    simp [toLowerAscii, show lower1 COMMA = COMMA by decide]
  have hlen : (toLowerAscii fg).length = fg.length := by simp [toLowerAscii]
  rw [hl, indexOf_append _ _ _ (lower_noComma fg h1)]
  simp only [isColorName] at h3 h4
  obtain ⟨c1, hc1⟩ := Option.isSome_iff_exists.mp h3
  obtain ⟨c2, hc2⟩ := Option.isSome_iff_exists.mp h4
  have hne : toLowerAscii bg ≠ [] := by
    intro he; rw [he, colorOf_nil] at hc2; cases hc2
  simp [hc1, hc2, hne, twoDigits]


theorem src_cons (it : Item) (items : List Item) : src (it :: items) = srcItem it ++ src items := by
  simp [src]
theorem out_cons (it : Item) (items : List Item) : out (it :: items) = outItem it ++ out items := by
  simp [out]

theorem fmtScan_src (items : List Item) (h : items.all wfItem = true) :
    fmtScan (src items) none = out items := by
  induction items with
  | nil => simp [src, out, fmtScan]
  | cons it items ih =>
    simp only [List.all_cons, Bool.and_eq_true] at h
    rw [src_cons, out_cons, ← ih h.2]
    have hw := h.1
    cases it with
    | lit s => exact fmtScan_lit s _ hw
    | name n =>
      simp only [wfItem, Bool.and_eq_true] at hw
      simp only [srcItem, token]
      rw [← fmtRepl_name n hw.1]
      have := fmtScan_token n (src items) (all_letter_innerOk n hw.1)
      simpa using this
    | pair fg bg =>
      simp only [wfItem, Bool.and_eq_true] at hw
      obtain ⟨⟨⟨h1, h2⟩, h3⟩, h4⟩ := hw
      rw [← fmtRepl_pair fg bg h1 h3 h4]
      have hin : (fg ++ COMMA :: bg).all innerOk = true := by
        simp only [List.all_append, List.all_cons, Bool.and_eq_true]
        exact ⟨all_letter_innerOk fg h1, comma_innerOk, all_letter_innerOk bg h2⟩
      have := fmtScan_token (fg ++ COMMA :: bg) (src items) hin
      simpa [srcItem] using this

end Girc.Proofs.Format
