import Girc.Proofs.TransFormat
import Girc.Proofs.TransSlices
import Girc.Model.State
/-
  Translator equivalence, state.go list helpers: (*User).InChannel / addChannel / deleteChannel and
  (*Channel).UserIn / addUser / deleteUser.  Pointer receivers: the generated functions return the new pointee.
  `u.Perms.set(name, Perms{})` / `u.Perms.remove(name)` are method calls on the unmodelled `*UserPerms` field and are
  ERASED by the translator (TRANSLATOR_NOTES §2.6 rule 2): the theorems about addChannel / deleteChannel are about every
  field except `perms`.
-/
set_option linter.unusedSimpArgs false
namespace Girc.Proofs.Trans
open Girc Girc.Model Girc.Go Girc.Gen

/-- Position of the first element equal to `x` (the search loops of deleteChannel / deleteUser). -/
def firstIdxS (x : Bytes) : List Bytes → Option Nat
  | [] => none
  | y :: ys => if y == x then some 0 else (firstIdxS x ys).map (· + 1)

theorem firstIdxS_some (x : Bytes) : ∀ (l : List Bytes) (d : Nat), firstIdxS x l = some d →
    l[d]? = some x ∧ (∀ k, k < d → l[k]? ≠ some x)
  | [], _, h => by simp [firstIdxS] at h
  | y :: ys, d, h => by
    unfold firstIdxS at h
    by_cases hy : (y == x) = true
    · simp [hy] at h; subst h
      have : y = x := by simpa using hy
      simp [this]
    · simp only [hy, Bool.false_eq_true, if_false] at h
      cases hr : firstIdxS x ys with
      | none => simp [hr] at h
      | some r =>
        simp [hr] at h; subst h
        obtain ⟨h1, h2⟩ := firstIdxS_some x ys r hr
        refine ⟨by simpa using h1, ?_⟩
        intro k hk
        cases k with
        | zero => simpa using hy
        | succ k => simpa using h2 k (by omega)

theorem firstIdxS_none (x : Bytes) : ∀ l : List Bytes, firstIdxS x l = none → x ∉ l
  | [], _ => by simp
  | y :: ys, h => by
    unfold firstIdxS at h
    by_cases hy : (y == x) = true
    · simp [hy] at h
    · simp only [hy, Bool.false_eq_true, if_false] at h
      have hr : firstIdxS x ys = none := by
        cases hr : firstIdxS x ys with
        | none => rfl
        | some r => simp [hr] at h
      have := firstIdxS_none x ys hr
      have hne : ¬ (y = x) := by simpa using hy
      simp only [List.mem_cons, not_or]
      exact ⟨fun e => hne e.symm, this⟩

/-- `append(l[:j], l[j+1:]...)` at the first position of `x`, or `l` untouched when `x` is absent: `List.erase`. -/
theorem erase_firstIdxS (x : Bytes) (l : List Bytes) :
    (match firstIdxS x l with | some d => l.take d ++ l.drop (d + 1) | none => l) = l.erase x := by
  cases h : firstIdxS x l with
  | none => simp only []; exact (List.erase_of_not_mem (firstIdxS_none x l h)).symm
  | some d =>
    obtain ⟨h1, h2⟩ := firstIdxS_some x l d h
    exact take_drop_erase l d x h1 h2

theorem firstIdxS_lt (x : Bytes) (l : List Bytes) (d : Nat) (h : firstIdxS x l = some d) : d < l.length := by
  have := (firstIdxS_some x l d h).1
  rcases Nat.lt_or_ge d l.length with h' | h'
  · exact h'
  · rw [List.getElem?_eq_none h'] at this; cases this

/-! ### (*User).InChannel, (*Channel).UserIn -/

theorem User_InChannel_loop1_eq (u : User) (x : Bytes) : ∀ (fuel n : Nat),
    n ≤ u.chans.length → u.chans.length - n < fuel →
    Fn.User_InChannel_loop1 (some u) x fuel (n : Int) = .ok
      (if (u.chans.drop n).contains x then .ret true else .done ())
  | 0, _, _, h => by omega
  | fuel + 1, n, hn, hf => by
    unfold Fn.User_InChannel_loop1
    by_cases hlt : n < u.chans.length
    · obtain ⟨y, hd, hat, _⟩ := atL_step u.chans n hlt
      have hc : decide ((n : Int) < len u.chans) = true := by dec_tac
      have e1 : ((n : Int) + 1) = ((n + 1 : Nat) : Int) := by omega
      simp only [deref_some, hc, hat, bind, Except.bind, pure, Except.pure, Bool.not_true, Bool.false_eq_true, if_false, e1]
      rw [hd, List.contains_cons]
      cases hs : (y == x) with
      | true =>
        have hyx : y = x := by simpa using hs
        subst hyx
        simp
      | false =>
        have : (x == y) = false := by
          have hne : ¬ (y = x) := by simpa using hs
          exact beq_false_of_ne (fun e : x = y => hne e.symm)
        simp only [Bool.false_eq_true, if_false, this, Bool.false_or]
        exact User_InChannel_loop1_eq u x fuel (n + 1) (by omega) (by omega)
    · have hc : decide ((n : Int) < len u.chans) = false := by dec_tac
      have : u.chans.drop n = [] := by simp; omega
      simp [deref_some, bind, Except.bind, hc, this, pure, Except.pure]

theorem User_InChannel_eq (u : User) (name : Bytes) : Fn.User_InChannel (some u) name = .ok (u.inChannel name) := by
  unfold Fn.User_InChannel User.inChannel
  have hl := User_InChannel_loop1_eq u (fold name) (fuelTo 0 (len u.chans)) 0 (by omega) (by fuel_tac)
  simp only [Int.natCast_zero, List.drop_zero] at hl
  simp only [deref_some, ToRFC1459_eq, hl, bind, Except.bind, pure, Except.pure]
  cases (u.chans.contains (fold name)) <;> rfl

theorem Channel_UserIn_loop1_eq (c : Channel) (x : Bytes) : ∀ (fuel n : Nat),
    n ≤ c.users.length → c.users.length - n < fuel →
    Fn.Channel_UserIn_loop1 (some c) x fuel (n : Int) = .ok
      (if (c.users.drop n).contains x then .ret true else .done ())
  | 0, _, _, h => by omega
  | fuel + 1, n, hn, hf => by
    unfold Fn.Channel_UserIn_loop1
    by_cases hlt : n < c.users.length
    · obtain ⟨y, hd, hat, _⟩ := atL_step c.users n hlt
      have hc : decide ((n : Int) < len c.users) = true := by dec_tac
      have e1 : ((n : Int) + 1) = ((n + 1 : Nat) : Int) := by omega
      simp only [deref_some, hc, hat, bind, Except.bind, pure, Except.pure, Bool.not_true, Bool.false_eq_true, if_false, e1]
      rw [hd, List.contains_cons]
      cases hs : (y == x) with
      | true =>
        have hyx : y = x := by simpa using hs
        subst hyx
        simp
      | false =>
        have : (x == y) = false := by
          have hne : ¬ (y = x) := by simpa using hs
          exact beq_false_of_ne (fun e : x = y => hne e.symm)
        simp only [Bool.false_eq_true, if_false, this, Bool.false_or]
        exact Channel_UserIn_loop1_eq c x fuel (n + 1) (by omega) (by omega)
    · have hc : decide ((n : Int) < len c.users) = false := by dec_tac
      have : c.users.drop n = [] := by simp; omega
      simp [deref_some, bind, Except.bind, hc, this, pure, Except.pure]

theorem Channel_UserIn_eq (c : Channel) (nick : Bytes) : Fn.Channel_UserIn (some c) nick = .ok (c.userIn nick) := by
  unfold Fn.Channel_UserIn Channel.userIn
  have hl := Channel_UserIn_loop1_eq c (fold nick) (fuelTo 0 (len c.users)) 0 (by omega) (by fuel_tac)
  simp only [Int.natCast_zero, List.drop_zero] at hl
  simp only [deref_some, ToRFC1459_eq, hl, bind, Except.bind, pure, Except.pure]
  cases (c.users.contains (fold nick)) <;> rfl

/-! ### addChannel / addUser -/

/-- Everything `addChannel` does except the `u.Perms.set(name, Perms{})` call (erased: `*UserPerms` is outside the
    translator's model): the result is the model's `User.addChannel` with the `perms` field left as it was. -/
theorem User_addChannel_eq (u : User) (name : Bytes) :
    Fn.User_addChannel (some u) name = .ok (some { u.addChannel name with perms := u.perms }) := by
  unfold Fn.User_addChannel User.addChannel
  simp only [User_InChannel_eq, ToRFC1459_eq, deref_some, bind, Except.bind, pure, Except.pure]
  cases h : u.inChannel name with
  | true => cases u; simp
  | false => simp [appendSort, sortStrings]

theorem Channel_addUser_eq (c : Channel) (nick : Bytes) :
    Fn.Channel_addUser (some c) nick = .ok (some (c.addUser nick)) := by
  unfold Fn.Channel_addUser Channel.addUser
  simp only [Channel_UserIn_eq, ToRFC1459_eq, deref_some, bind, Except.bind, pure, Except.pure]
  cases h : c.userIn nick with
  | true => simp
  | false => simp [appendSort, sortStrings]

/-! ### deleteChannel / deleteUser -/

theorem User_deleteChannel_loop1_eq (u : User) (x : Bytes) : ∀ (fuel n : Nat) (j : Int),
    n ≤ u.chans.length → u.chans.length - n < fuel →
    Fn.User_deleteChannel_loop1 (some u) x fuel j (n : Int) = .ok (.done
      (match firstIdxS x (u.chans.drop n) with
       | some d => ((n + d : Nat) : Int)
       | none => j))
  | 0, _, _, _, h => by omega
  | fuel + 1, n, j, hn, hf => by
    unfold Fn.User_deleteChannel_loop1
    by_cases hlt : n < u.chans.length
    · obtain ⟨y, hd, hat, _⟩ := atL_step u.chans n hlt
      have hc : decide ((n : Int) < len u.chans) = true := by dec_tac
      have e1 : ((n : Int) + 1) = ((n + 1 : Nat) : Int) := by omega
      simp only [deref_some, hc, hat, bind, Except.bind, pure, Except.pure, Bool.not_true, Bool.false_eq_true, if_false, e1]
      rw [hd, firstIdxS]
      cases hs : (y == x) with
      | true => simp
      | false =>
        simp only [Bool.false_eq_true, if_false]
        rw [User_deleteChannel_loop1_eq u x fuel (n + 1) j (by omega) (by omega)]
        cases firstIdxS x (u.chans.drop (n + 1)) with
        | none => rfl
        | some d => simp; omega
    · have hc : decide ((n : Int) < len u.chans) = false := by dec_tac
      have : u.chans.drop n = [] := by simp; omega
      simp [deref_some, bind, Except.bind, hc, this, pure, Except.pure, firstIdxS]

/-- Everything `deleteChannel` does except `u.Perms.remove(name)` (erased). -/
theorem User_deleteChannel_eq (u : User) (name : Bytes) :
    Fn.User_deleteChannel (some u) name = .ok (some { u.deleteChannel name with perms := u.perms }) := by
  unfold Fn.User_deleteChannel User.deleteChannel eraseFirst
  have hl := User_deleteChannel_loop1_eq u (fold name) (fuelTo 0 (len u.chans)) 0 (-1) (by omega) (by fuel_tac)
  simp only [Int.natCast_zero, List.drop_zero, Nat.zero_add] at hl
  simp only [deref_some, ToRFC1459_eq, hl, bind, Except.bind, pure, Except.pure]
  rw [← erase_firstIdxS (fold name) u.chans]
  cases hj : firstIdxS (fold name) u.chans with
  | none => cases u; simp
  | some d =>
    have hdl := firstIdxS_lt (fold name) u.chans d hj
    have hne : ((d : Int) != -1) = true := by
      have : ¬ ((d : Int) = -1) := by omega
      simp [bne_iff_ne, this]
    have e2 : ((d : Int) + 1) = ((d + 1 : Nat) : Int) := by omega
    simp only [hne, if_true, sliceL_to u.chans d (by omega), e2, sliceL_from u.chans (d + 1) (by omega)]

theorem Channel_deleteUser_loop1_eq (c : Channel) (x : Bytes) : ∀ (fuel n : Nat) (j : Int),
    n ≤ c.users.length → c.users.length - n < fuel →
    Fn.Channel_deleteUser_loop1 (some c) x fuel j (n : Int) = .ok (.done
      (match firstIdxS x (c.users.drop n) with
       | some d => ((n + d : Nat) : Int)
       | none => j))
  | 0, _, _, _, h => by omega
  | fuel + 1, n, j, hn, hf => by
    unfold Fn.Channel_deleteUser_loop1
    by_cases hlt : n < c.users.length
    · obtain ⟨y, hd, hat, _⟩ := atL_step c.users n hlt
      have hc : decide ((n : Int) < len c.users) = true := by dec_tac
      have e1 : ((n : Int) + 1) = ((n + 1 : Nat) : Int) := by omega
      simp only [deref_some, hc, hat, bind, Except.bind, pure, Except.pure, Bool.not_true, Bool.false_eq_true, if_false, e1]
      rw [hd, firstIdxS]
      cases hs : (y == x) with
      | true => simp
      | false =>
        simp only [Bool.false_eq_true, if_false]
        rw [Channel_deleteUser_loop1_eq c x fuel (n + 1) j (by omega) (by omega)]
        cases firstIdxS x (c.users.drop (n + 1)) with
        | none => rfl
        | some d => simp; omega
    · have hc : decide ((n : Int) < len c.users) = false := by dec_tac
      have : c.users.drop n = [] := by simp; omega
      simp [deref_some, bind, Except.bind, hc, this, pure, Except.pure, firstIdxS]

theorem Channel_deleteUser_eq (c : Channel) (nick : Bytes) :
    Fn.Channel_deleteUser (some c) nick = .ok (some (c.deleteUser nick)) := by
  unfold Fn.Channel_deleteUser Channel.deleteUser eraseFirst
  have hl := Channel_deleteUser_loop1_eq c (fold nick) (fuelTo 0 (len c.users)) 0 (-1) (by omega) (by fuel_tac)
  simp only [Int.natCast_zero, List.drop_zero, Nat.zero_add] at hl
  simp only [deref_some, ToRFC1459_eq, hl, bind, Except.bind, pure, Except.pure]
  rw [← erase_firstIdxS (fold nick) c.users]
  cases hj : firstIdxS (fold nick) c.users with
  | none => cases c; simp
  | some d =>
    have hdl := firstIdxS_lt (fold nick) c.users d hj
    have hne : ((d : Int) != -1) = true := by
      have : ¬ ((d : Int) = -1) := by omega
      simp [bne_iff_ne, this]
    have e2 : ((d : Int) + 1) = ((d + 1 : Nat) : Int) := by omega
    simp only [hne, if_true, sliceL_to c.users d (by omega), e2, sliceL_from c.users (d + 1) (by omega)]

theorem User_nil (name : Bytes) : Fn.User_InChannel none name = .error .nilDeref ∧
    Fn.User_addChannel none name = .error .nilDeref ∧ Fn.User_deleteChannel none name = .error .nilDeref := by
  refine ⟨?_, ?_, ?_⟩ <;> simp [Fn.User_InChannel, Fn.User_addChannel, Fn.User_deleteChannel, ToRFC1459_eq, bind, Except.bind]

end Girc.Proofs.Trans
