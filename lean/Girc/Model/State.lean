import Girc.Model.Modes
import Girc.Model.Event
/-
  Model of state.go: the tracked state and its mutators, as written. A Go nil-map lookup followed by
  a method call / field access (`s.users[u].deleteChannel(..)`) is an explicit `Fault.nilDeref`.
-/
namespace Girc.Model
open Girc

-- `User` and `Channel` are declared (under these same names) in Girc/Base/GoSem.lean, shared with the generated code.

/-- `strictTransport` (times abstracted: `expired`/`recentlyFailed` are observations supplied by
    the environment when they are needed). -/
structure Sts where
  beginUpgrade : Bool := false
  upgradePort : Int := -1
  persistenceDuration : Int := -1
  preload : Bool := false
  deriving DecidableEq, Repr

abbrev CapVal := Option (AMap Bytes)   -- `map[string]string`, `none` = nil map

structure St where
  nick : Bytes := []
  ident : Bytes := []
  host : Bytes := []
  channels : AMap Channel := []
  users : AMap User := []
  enabledCap : AMap CapVal := []
  tmpCap : AMap CapVal := []
  serverOptions : AMap Bytes := []
  maxLineLength : Int := 510
  maxPrefixLength : Int := 115
  motd : Bytes := []
  sts : Sts := {}
  deriving Repr

/-- `state.reset(initial)` -/
def St.reset (s : St) (initial : Bool) : St :=
  { sts := if initial then { s.sts with upgradePort := -1, persistenceDuration := -1, preload := false } else s.sts }

abbrev M := Except Fault

def deref {α : Type} : Option α → M α
  | some a => .ok a
  | none => .error .nilDeref

def idx (ps : List Bytes) (i : Nat) : M Bytes :=
  match ps[i]? with
  | some p => .ok p
  | none => .error .indexOutOfRange

/-- `append(list, x); sort.Strings(list)` -/
def appendSort (l : List Bytes) (x : Bytes) : List Bytes := sortBytes (l ++ [x])

/-- `append(l[:j], l[j+1:]...)` for the first index holding `x`. -/
def eraseFirst (l : List Bytes) (x : Bytes) : List Bytes := l.erase x

/-! ### User / Channel methods -/

def User.inChannel (u : User) (name : Bytes) : Bool := u.chans.contains (fold name)

/-- `User.addChannel` -/
def User.addChannel (u : User) (name : Bytes) : User :=
  if u.inChannel name then u
  else { u with chans := appendSort u.chans (fold name), perms := AMap.set u.perms (fold name) {} }

/-- `User.deleteChannel` -/
def User.deleteChannel (u : User) (name : Bytes) : User :=
  { u with chans := eraseFirst u.chans (fold name), perms := AMap.erase u.perms (fold name) }

def Channel.userIn (c : Channel) (nick : Bytes) : Bool := c.users.contains (fold nick)

/-- `Channel.addUser` -/
def Channel.addUser (c : Channel) (nick : Bytes) : Channel :=
  if c.userIn nick then c else { c with users := appendSort c.users (fold nick) }

/-- `Channel.deleteUser` -/
def Channel.deleteUser (c : Channel) (nick : Bytes) : Channel :=
  { c with users := eraseFirst c.users (fold nick) }

/-! ### state methods -/

def St.lookupChannel (s : St) (name : Bytes) : Option Channel := AMap.get? s.channels (fold name)
def St.lookupUser (s : St) (name : Bytes) : Option User := AMap.get? s.users (fold name)

/-- `chanModes()` -/
def St.chanModes (s : St) : Bytes :=
  match AMap.get? s.serverOptions [0x43,0x48,0x41,0x4E,0x4D,0x4F,0x44,0x45,0x53] with   -- "CHANMODES"
  | some m => if isValidChannelMode m then m else modeDefaults
  | none => modeDefaults

/-- `userPrefixes()` -/
def St.userPrefixes (s : St) : Bytes :=
  match AMap.get? s.serverOptions [0x50,0x52,0x45,0x46,0x49,0x58] with                  -- "PREFIX"
  | some p => if isValidUserPrefix p then p else defaultPrefixes
  | none => defaultPrefixes

/-- `createChannel`: (state, ok) -/
def St.createChannel (s : St) (name : Bytes) : St × Bool :=
  if AMap.contains s.channels (fold name) then (s, false)
  else
    let ch : Channel := { name := name, modes := newCModes s.chanModes (parsePrefixes s.userPrefixes).1 }
    ({ s with channels := AMap.set s.channels (fold name) ch }, true)

/-- `createUser`: (state, ok) -/
def St.createUser (s : St) (src : Source) : St × Bool :=
  if AMap.contains s.users (fold src.name) then (s, false)
  else
    let u : User := { nick := src.name, host := src.host, ident := src.ident }
    ({ s with users := AMap.set s.users (fold src.name) u }, true)

/-- The loop of `deleteChannel` over the channel's user list. -/
def deleteChannelLoop (name : Bytes) : List Bytes → AMap User → M (AMap User)
  | [], us => .ok us
  | u :: rest, us => do
    let usr ← deref (AMap.get? us u)
    let usr := usr.deleteChannel name
    -- `s.users[user].deleteChannel(name)` mutates through the pointer; then the length test
    let us := AMap.set us u usr
    let us := if usr.chans.length = 0 then AMap.erase us u else us
    deleteChannelLoop name rest us

/-- `deleteChannel` -/
def St.deleteChannel (s : St) (name : Bytes) : M St :=
  let name := fold name
  match AMap.get? s.channels name with
  | none => .ok s
  | some ch => do
    let us ← deleteChannelLoop name ch.users s.users
    .ok { s with users := us, channels := AMap.erase s.channels name }

/-- The loop of `deleteUser("", nick)` over the user's channel list. -/
def deleteUserLoop (nick : Bytes) : List Bytes → AMap Channel → M (AMap Channel)
  | [], cs => .ok cs
  | c :: rest, cs => do
    let ch ← deref (AMap.get? cs c)
    deleteUserLoop nick rest (AMap.set cs c (ch.deleteUser nick))

/-- `deleteUser(channelName, nick)` -/
def St.deleteUser (s : St) (channelName nick : Bytes) : M St :=
  match s.lookupUser nick with
  | none => .ok s
  | some user =>
    if channelName = [] then do
      let cs ← deleteUserLoop nick user.chans s.channels
      .ok { s with channels := cs, users := AMap.erase s.users (fold nick) }
    else
      match s.lookupChannel channelName with
      | none => .ok s
      | some channel =>
        let user := user.deleteChannel channelName
        let channel := channel.deleteUser nick
        let us := AMap.set s.users (fold nick) user
        let us := if user.chans.length = 0 then AMap.erase us (fold nick) else us
        .ok { s with users := us, channels := AMap.set s.channels (fold channelName) channel }

/-- Replace only the first occurrence (the Go loop `break`s). -/
def replaceFirst (l : List Bytes) (a b : Bytes) : List Bytes :=
  match l with
  | [] => []
  | x :: xs => if x = a then b :: xs else x :: replaceFirst xs a b

/-- The loop of `renameUser` over the user's channel list: replace `from` by fold(to) and re-sort. -/
def renameLoop (from_ to : Bytes) : List Bytes → AMap Channel → M (AMap Channel)
  | [], cs => .ok cs
  | c :: rest, cs => do
    let ch ← deref (AMap.get? cs c)
    let ch := if ch.users.contains from_ then { ch with users := sortBytes (replaceFirst ch.users from_ (fold to)) } else ch
    renameLoop from_ to rest (AMap.set cs c ch)

/-- `renameUser(from, to)` -/
def St.renameUser (s : St) (from_ to : Bytes) : M St := do
  let from_ := fold from_
  let s := if from_ = fold s.nick then { s with nick := to } else s
  match s.lookupUser from_ with
  | none => .ok s
  | some user =>
    let s ← if fold to ≠ from_ then s.deleteUser [] to else .ok s
    -- the stale-user removal may have edited channel lists; `user` is the pointer taken before
    let users := AMap.erase s.users from_
    let user := { user with nick := to }
    let users := AMap.set users (fold to) user
    let cs ← renameLoop from_ to user.chans s.channels
    .ok { s with users := users, channels := cs }

/-- `Source.Equals` (both non-nil): RFC 1459 case-insensitive on the name, exact on ident and host. -/
def sourceEquals (a b : Source) : Bool := fold a.name == fold b.name && a.ident == b.ident && a.host == b.host

/-- `UserPerms.Lookup(channel)` -/
def User.permsLookup (u : User) (channel : Bytes) : Option Perms := AMap.get? u.perms (fold channel)

/-- `Client.IsInChannel` -/
def St.isInChannel (s : St) (channel : Bytes) : Bool := AMap.contains s.channels (fold channel)

end Girc.Model
