import Girc.Base.Bytes
/-
  Model of format.go `Glob`, statement by statement.
-/
namespace Girc.Model

def star : Byte := 0x2A

/-- The middle-pieces loop: each piece is searched leftmost in the remaining input,
    and the input is cut after that occurrence. `none` = `return false`. -/
def globMiddle : List Bytes → Bytes → Option Bytes
  | [], s => some s
  | p :: ps, s =>
    match findSub p s with
    | none => none
    | some i => globMiddle ps (s.drop (i + p.length))

def glob (input pat : Bytes) : Bool :=
  if pat = [] then input = []
  else if pat = [star] then true
  else
    match splitOnByte star pat with
    | [] => false                       -- unreachable: Split returns ≥ 1 piece
    | [_] => input = pat
    | first :: more =>
      let leading := pat.head? = some star
      let trailing := pat.getLast? = some star
      if !leading && !first.isPrefixOf input then false
      else
        let input := input.drop first.length
        match globMiddle more.dropLast input with
        | none => false
        | some rest => trailing || isSuffixOfB (more.getLastD []) rest

end Girc.Model
