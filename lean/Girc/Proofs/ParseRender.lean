import Girc.Spec.Grammar
import Girc.Proofs.Tags
namespace Girc.Proofs.ParseRender
open Girc Girc.Model Girc.Spec

/-- Every grammatical line parses to exactly the structure the grammar assigns. -/
theorem parse_render (l : Line) (h : wfLine l = true) : parseEvent (render l) = some (meaning l) := by
  sorry

end Girc.Proofs.ParseRender
