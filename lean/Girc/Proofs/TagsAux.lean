import Girc.Model.Tags
import Girc.Spec.EventSpec
import Girc.Spec.Grammar
namespace Girc.Proofs.TagsAux
open Girc Girc.Model Girc.Spec

/-! ### tagDecode ∘ tagEncode -/

theorem tagEnc1_cases : ∀ b : UInt8,
    (tagEnc1 b = [b] ∧ b ≠ 0x5C) ∨
    (tagEnc1 b = [0x5C, (tagEnc1 b).getD 1 0] ∧ tagUnesc ((tagEnc1 b).getD 1 0) = some b) := by
  decide +kernel

theorem tagDecode_cons_ne (b : UInt8) (s : Bytes) (hb : b ≠ 0x5C) :
    tagDecode (b :: s) = b :: tagDecode s := by
  cases s with
  | nil => simp [tagDecode]
  | cons c rest => simp [tagDecode, hb]

theorem tagDecode_esc (c d : UInt8) (s : Bytes) (h : tagUnesc c = some d) :
    tagDecode (0x5C :: c :: s) = d :: tagDecode s := by
  simp [tagDecode, h]

/-! ### AMap facts -/

theorem lookup_cons_eq {β : Type} (m : AMap β) (k : Bytes) (v : β) :
    List.lookup k ((k, v) :: m) = some v := by
  simp [List.lookup]

theorem lookup_cons_ne {β : Type} (m : AMap β) (k a : Bytes) (v : β) (h : k ≠ a) :
    List.lookup k ((a, v) :: m) = List.lookup k m := by
  have : (k == a) = false := by simpa using h
  simp [List.lookup, this]

/-- The replace-in-place function of `AMap.set`. -/
def repl {β : Type} (k : Bytes) (v : β) (p : Bytes × β) : Bytes × β := if p.1 == k then (k, v) else p

theorem repl_eq {β : Type} (k : Bytes) (v b : β) : repl k v (k, b) = (k, v) := by simp [repl]
theorem repl_ne {β : Type} (k a : Bytes) (v b : β) (h : a ≠ k) : repl k v (a, b) = (a, b) := by
  simp [repl, h]

theorem set_eq {β : Type} (m : AMap β) (k : Bytes) (v : β) :
    AMap.set m k v = if m.any (fun p => p.1 == k) then m.map (repl k v) else m ++ [(k, v)] := rfl

theorem lookup_map_repl_ne {β : Type} (m : AMap β) (k k' : Bytes) (v : β) (h : k' ≠ k) :
    List.lookup k' (m.map (repl k v)) = List.lookup k' m := by
  induction m with
  | nil => rfl
  | cons p m ih =>
    obtain ⟨a, b⟩ := p
    rw [List.map_cons]
    by_cases hak : a = k
    · subst hak; rw [repl_eq, lookup_cons_ne _ _ _ _ h, lookup_cons_ne _ _ _ _ h, ih]
    · rw [repl_ne _ _ _ _ hak]
      by_cases hka : k' = a
      · subst hka; rw [lookup_cons_eq, lookup_cons_eq]
      · rw [lookup_cons_ne _ _ _ _ hka, lookup_cons_ne _ _ _ _ hka, ih]

theorem lookup_map_repl_eq {β : Type} (m : AMap β) (k : Bytes) (v : β)
    (h : m.any (fun p => p.1 == k) = true) :
    List.lookup k (m.map (repl k v)) = some v := by
  induction m with
  | nil => simp at h
  | cons p m ih =>
    obtain ⟨a, b⟩ := p
    rw [List.map_cons]
    by_cases hak : a = k
    · subst hak; rw [repl_eq, lookup_cons_eq]
    · rw [repl_ne _ _ _ _ hak, lookup_cons_ne _ _ _ _ (Ne.symm hak)]
      apply ih
      have h1 : (a == k) = false := by simpa using hak
      simpa [List.any_cons, h1] using h

theorem lookup_none_of_not_any {β : Type} (m : AMap β) (k : Bytes)
    (h : m.any (fun p => p.1 == k) = false) : List.lookup k m = none := by
  induction m with
  | nil => rfl
  | cons p m ih =>
    obtain ⟨a, b⟩ := p
    rw [List.any_cons, Bool.or_eq_false_iff] at h
    have hak : a ≠ k := by simpa using h.1
    rw [lookup_cons_ne _ _ _ _ (Ne.symm hak), ih h.2]

theorem lookup_append_single {β : Type} (m : AMap β) (k k' : Bytes) (v : β) :
    List.lookup k' (m ++ [(k, v)]) = (List.lookup k' m).or (if k' = k then some v else none) := by
  induction m with
  | nil =>
    by_cases h : k' = k
    · subst h; simp [List.lookup]
    · rw [List.nil_append, lookup_cons_ne _ _ _ _ h]; simp [h]
  | cons p m ih =>
    obtain ⟨a, b⟩ := p
    rw [List.cons_append]
    by_cases h : k' = a
    · subst h; rw [lookup_cons_eq, lookup_cons_eq]; rfl
    · rw [lookup_cons_ne _ _ _ _ h, lookup_cons_ne _ _ _ _ h, ih]

theorem get?_set {β : Type} (m : AMap β) (k k' : Bytes) (v : β) :
    AMap.get? (AMap.set m k v) k' = if k' = k then some v else AMap.get? m k' := by
  rw [set_eq]
  unfold AMap.get?
  by_cases hany : m.any (fun p => p.1 == k) = true
  · rw [if_pos hany]
    by_cases hk : k' = k
    · subst hk; rw [lookup_map_repl_eq _ _ _ hany, if_pos rfl]
    · rw [lookup_map_repl_ne _ _ _ _ hk, if_neg hk]
  · have hany' : m.any (fun p => p.1 == k) = false := Bool.eq_false_iff.mpr hany
    rw [if_neg hany, lookup_append_single]
    by_cases hk : k' = k
    · subst hk; rw [lookup_none_of_not_any _ _ hany', if_pos rfl]; rfl
    · rw [if_neg hk, if_neg hk]; cases List.lookup k' m <;> rfl

theorem tagsSet_some (t t' : Tags) (k v : Bytes) (h : tagsSet t k v = some t') :
    validTag k = true ∧ ((tagEncode v).length = 0 ∨ validTagValue (tagEncode v) = true) ∧
    tagsLen (some t) + k.length + (tagEncode v).length + 2 ≤ maxTagLength ∧
    t' = AMap.set t k (tagEncode v) := by
  unfold tagsSet at h
  by_cases h1 : validTag k = true
  · by_cases h2 : ((tagEncode v).length > 0 && !validTagValue (tagEncode v)) = true
    · simp [h1, h2] at h
    · by_cases h3 : tagsLen (some t) + k.length + (tagEncode v).length + 2 > maxTagLength
      · simp [h1, h2, h3] at h
      · simp only [h1, h2, h3] at h
        simp at h
        refine ⟨h1, ?_, by omega, h.symm⟩
        simp at h2
        by_cases h4 : (tagEncode v).length = 0
        · left; exact h4
        · right; exact h2 (by omega)
  · simp [h1] at h



/-! ### UTF-8 of ASCII -/

theorem utf8Width_ascii (b : UInt8) (rest : Bytes) (h : b < 0x80) : utf8Width (b :: rest) = some 1 := by
  simp [utf8Width, h]

theorem validUTF8Fuel_ascii (s : Bytes) (h : ∀ b ∈ s, b < 0x80) : ∀ n, s.length ≤ n → validUTF8Fuel n s = true := by
  induction s with
  | nil => intro n _; cases n <;> rfl
  | cons b s ih =>
    intro n hn
    cases n with
    | zero => simp at hn
    | succ n =>
      have hb : b < 0x80 := h b (by simp)
      have : validUTF8Fuel (n + 1) (b :: s) = validUTF8Fuel n s := by
        simp [validUTF8Fuel, utf8Width_ascii b s hb]
      rw [this]
      exact ih (fun c hc => h c (by simp [hc])) n (by simpa using hn)

theorem validUTF8_of_ascii (s : Bytes) (h : ∀ b ∈ s, b < 0x80) : validUTF8 s = true :=
  validUTF8Fuel_ascii s h _ (Nat.le_refl _)

theorem tagValByte_facts : ∀ b : UInt8, tagValByte b = true →
    b < 0x80 ∧ (b != NUL && b != CR && b != LF && b != SP && b != 0x3B) = true := by
  decide +kernel

theorem validTagValue_wireSafe' (v : Bytes) (h : validTagValue v = true) : wireSafeValue v = true := by
  unfold validTagValue at h
  rw [List.all_eq_true] at h
  unfold wireSafeValue
  rw [Bool.and_eq_true]
  constructor
  · exact validUTF8_of_ascii v (fun b hb => (tagValByte_facts b (h b hb)).1)
  · rw [List.all_eq_true]
    exact fun b hb => (tagValByte_facts b (h b hb)).2

theorem wireSafe_nil : wireSafeValue [] = true := by decide

/-! ### unescape -/


theorem unescape_ne (b : UInt8) (r : Bytes) (hb : b ≠ 0x5C) : unescape (b :: r) = b :: unescape r := by
  rw [unescape.eq_6] <;> intro _ h <;> exact absurd h hb

theorem escapesDefined_ne (b : UInt8) (r : Bytes) (hb : b ≠ 0x5C) :
    escapesDefined (b :: r) = escapesDefined r := by
  rw [escapesDefined.eq_3]
  · intro _ _ h; exact absurd h hb
  · intro h; exact absurd h hb

theorem unescape_esc (c d : UInt8) (r : Bytes) (h : tagUnesc c = some d) :
    unescape (0x5C :: c :: r) = d :: unescape r := by
  unfold tagUnesc at h
  split at h
  · next hc => subst hc; cases h; rw [unescape.eq_1]
  split at h
  · next hc => subst hc; cases h; rw [unescape.eq_2]
  split at h
  · next hc => subst hc; cases h; rw [unescape.eq_3]
  split at h
  · next hc => subst hc; cases h; rw [unescape.eq_4]
  split at h
  · next hc => subst hc; cases h; rw [unescape.eq_5]
  · cases h

theorem tagUnesc_none (c : UInt8) (h : tagUnesc c = none) :
    (decide (c = 58) || decide (c = 115) || decide (c = 92) || decide (c = 114) || decide (c = 110)) = false := by
  revert c; decide +kernel

theorem tagDecode_unescape' (v : Bytes) (h : escapesDefined v = true) : tagDecode v = unescape v := by
  fun_induction tagDecode v with
  | case1 => simp [unescape]
  | case2 b => simp [unescape]
  | case3 c rest d hd ih =>
    rw [escapesDefined.eq_1, Bool.and_eq_true] at h
    rw [unescape_esc c d rest hd, ih h.2]
  | case4 c rest hd ih =>
    rw [escapesDefined.eq_1, tagUnesc_none c hd] at h
    simp at h
  | case5 b c rest hb ih =>
    rw [escapesDefined_ne b _ hb] at h
    rw [unescape_ne b _ hb, ih h]

/-! ### meaningTags -/

theorem meaningTags_get_aux (ts : List (Bytes × Option Bytes)) (m : Tags) (k : Bytes) :
    AMap.get? (ts.foldl (fun m t => AMap.set m t.1 (t.2.getD [])) m) k =
      ((ts.reverse.find? (fun t => t.1 == k)).map (fun t => t.2.getD [])).or (AMap.get? m k) := by
  induction ts generalizing m with
  | nil => simp
  | cons t ts ih =>
    rw [List.foldl_cons, ih, get?_set, List.reverse_cons, List.find?_append]
    by_cases hk : t.1 = k
    · subst hk
      cases List.find? (fun t' => t'.1 == t.1) ts.reverse <;> simp
    · have : k ≠ t.1 := Ne.symm hk
      cases List.find? (fun t' => t'.1 == k) ts.reverse <;> simp [hk, this]


/-! ### sorting is a permutation -/

theorem insertSorted_perm (x : Bytes) (l : List Bytes) : (insertSorted x l).Perm (x :: l) := by
  induction l with
  | nil => exact List.Perm.refl _
  | cons y ys ih =>
    unfold insertSorted
    split
    · exact List.Perm.refl _
    · exact (List.Perm.cons y ih).trans (List.Perm.swap x y ys)

theorem sortBytes_perm (l : List Bytes) : (sortBytes l).Perm l := by
  induction l with
  | nil => exact List.Perm.refl _
  | cons x xs ih =>
    have : sortBytes (x :: xs) = insertSorted x (sortBytes xs) := rfl
    rw [this]
    exact (insertSorted_perm x _).trans (List.Perm.cons x ih)

/-! ### nodupB -/

theorem nodupB_iff (l : List Bytes) : nodupB l = true ↔ l.Nodup := by
  induction l with
  | nil => simp [nodupB]
  | cons x xs ih =>
    simp [nodupB, ih]

/-! ### joinWith -/

theorem joinWith_cons_cons (sep p q : Bytes) (ps : List Bytes) :
    joinWith sep (p :: q :: ps) = p ++ sep ++ joinWith sep (q :: ps) := rfl

theorem joinWith_single (sep p : Bytes) : joinWith sep [p] = p := rfl

/-- Sum of (piece length + 1). -/
def jlen (l : List Bytes) : Nat := (l.map (fun p => p.length + 1)).sum

theorem jlen_cons (p : Bytes) (l : List Bytes) : jlen (p :: l) = p.length + 1 + jlen l := by
  simp [jlen]

theorem joinWith_length (c : UInt8) (l : List Bytes) (h : l ≠ []) :
    (joinWith [c] l).length + 1 = jlen l := by
  induction l with
  | nil => exact absurd rfl h
  | cons p ps ih =>
    cases ps with
    | nil => simp [joinWith_single, jlen]
    | cons q qs =>
      have := ih (by simp)
      rw [joinWith_cons_cons, jlen_cons]
      simp only [List.length_append, List.length_cons, List.length_nil]
      omega

theorem jlen_perm (l₁ l₂ : List Bytes) (h : l₁.Perm l₂) : jlen l₁ = jlen l₂ :=
  List.Perm.sum_nat (h.map _)

theorem mem_joinWith (c b : UInt8) (l : List Bytes) (h : b ∈ joinWith [c] l) :
    b = c ∨ ∃ p ∈ l, b ∈ p := by
  induction l with
  | nil => simp [joinWith] at h
  | cons p ps ih =>
    cases ps with
    | nil => right; exact ⟨p, by simp, h⟩
    | cons q qs =>
      rw [joinWith_cons_cons] at h
      simp only [List.mem_append, List.mem_singleton] at h
      rcases h with (h | h) | h
      · right; exact ⟨p, by simp, h⟩
      · left; exact h
      · rcases ih h with h | ⟨p', hp', hb⟩
        · left; exact h
        · right; exact ⟨p', by simp [hp'], hb⟩

/-! ### splitOnByte -/

theorem splitOnByte_no (sep : UInt8) (p : Bytes) (h : sep ∉ p) : splitOnByte sep p = [p] := by
  induction p with
  | nil => rfl
  | cons x xs ih =>
    have hx : x ≠ sep := fun e => h (by simp [e])
    have hxs : sep ∉ xs := fun e => h (by simp [e])
    simp [splitOnByte, hx, ih hxs]

theorem splitOnByte_append (sep : UInt8) (p rest : Bytes) (h : sep ∉ p) :
    splitOnByte sep (p ++ sep :: rest) = p :: splitOnByte sep rest := by
  induction p with
  | nil => simp [splitOnByte]
  | cons x xs ih =>
    have hx : x ≠ sep := fun e => h (by simp [e])
    have hxs : sep ∉ xs := fun e => h (by simp [e])
    simp [splitOnByte, hx, ih hxs]

theorem splitOnByte_joinWith (sep : UInt8) (ps : List Bytes) (hne : ps ≠ [])
    (h : ∀ p ∈ ps, sep ∉ p) : splitOnByte sep (joinWith [sep] ps) = ps := by
  induction ps with
  | nil => exact absurd rfl hne
  | cons p ps ih =>
    cases ps with
    | nil => exact splitOnByte_no sep p (h p (by simp))
    | cons q qs =>
      rw [joinWith_cons_cons, List.append_assoc, List.singleton_append,
        splitOnByte_append sep p _ (h p (by simp)), ih (by simp) (fun p' hp' => h p' (by simp [hp']))]

/-! ### indexOf -/

theorem indexOf_none (c : UInt8) (p : Bytes) (h : c ∉ p) : indexOf c p = none := by
  induction p with
  | nil => rfl
  | cons x xs ih =>
    have hx : x ≠ c := fun e => h (by simp [e])
    have hxs : c ∉ xs := fun e => h (by simp [e])
    simp [indexOf, hx, ih hxs]

theorem indexOf_append (c : UInt8) (p rest : Bytes) (h : c ∉ p) :
    indexOf c (p ++ c :: rest) = some p.length := by
  induction p with
  | nil => simp [indexOf]
  | cons x xs ih =>
    have hx : x ≠ c := fun e => h (by simp [e])
    have hxs : c ∉ xs := fun e => h (by simp [e])
    simp [indexOf, hx, ih hxs]

/-! ### keys -/

def keyByteOK (b : UInt8) : Bool := tagKeyByte b || b == 0x2B

theorem keyByteOK_facts : ∀ b : UInt8, keyByteOK b = true →
    b ≠ 0x3B ∧ b ≠ 0x3D ∧ b ≠ 0x20 ∧ b ≠ 0x40 := by
  decide +kernel

theorem validTag_ne_nil (k : Bytes) (h : validTag k = true) : k ≠ [] := by
  intro e; subst e; simp [validTag] at h

theorem validTag_bytes (k : Bytes) (h : validTag k = true) : ∀ b ∈ k, keyByteOK b = true := by
  unfold validTag at h
  split at h
  · cases h
  · simp only at h
    split at h
    · next hc =>
      rw [Bool.and_eq_true] at hc
      cases k with
      | nil => simp at hc
      | cons x xs =>
        have hx : x = 0x2B := by simpa using hc.2
        rw [List.drop_one, List.tail_cons, List.all_eq_true] at h
        intro b hb
        rcases List.mem_cons.mp hb with e | hb
        · subst e; subst hx; decide
        · simp [keyByteOK, h b hb]
    · rw [List.all_eq_true] at h
      intro b hb
      simp [keyByteOK, h b hb]

theorem validTag_no (k : Bytes) (h : validTag k = true) :
    (0x3B : UInt8) ∉ k ∧ (0x3D : UInt8) ∉ k ∧ (0x20 : UInt8) ∉ k ∧ (0x40 : UInt8) ∉ k := by
  have H := fun b hb => keyByteOK_facts b (validTag_bytes k h b hb)
  refine ⟨fun hb => (H _ hb).1 rfl, fun hb => (H _ hb).2.1 rfl, fun hb => (H _ hb).2.2.1 rfl,
    fun hb => (H _ hb).2.2.2 rfl⟩

/-! ### wireSafe -/

theorem wireSafe_no (v : Bytes) (h : wireSafeValue v = true) :
    (0x3B : UInt8) ∉ v ∧ (0x20 : UInt8) ∉ v := by
  unfold wireSafeValue at h
  rw [Bool.and_eq_true, List.all_eq_true] at h
  constructor
  · intro hb; have := h.2 _ hb; revert this; decide
  · intro hb; have := h.2 _ hb; revert this; decide

/-! ### wfTags destructuring -/

theorem lookup_mem {β : Type} (m : AMap β) (k : Bytes) (v : β) (h : List.lookup k m = some v) :
    (k, v) ∈ m := by
  induction m with
  | nil => cases h
  | cons p m ih =>
    obtain ⟨a, b⟩ := p
    by_cases hk : k = a
    · subst hk; rw [lookup_cons_eq] at h; cases h; simp
    · rw [lookup_cons_ne _ _ _ _ hk] at h; exact List.mem_cons_of_mem _ (ih h)

theorem mem_keys_lookup {β : Type} (m : AMap β) (k : Bytes) (h : k ∈ AMap.keys m) :
    ∃ v, List.lookup k m = some v := by
  induction m with
  | nil => simp [AMap.keys] at h
  | cons p m ih =>
    obtain ⟨a, b⟩ := p
    by_cases hk : k = a
    · subst hk; exact ⟨b, lookup_cons_eq _ _ _⟩
    · rw [lookup_cons_ne _ _ _ _ hk]
      apply ih
      simp only [AMap.keys, List.map_cons, List.mem_cons] at h
      rcases h with h | h
      · exact absurd h hk
      · exact h

theorem not_mem_keys_lookup {β : Type} (m : AMap β) (k : Bytes) (h : k ∉ AMap.keys m) :
    List.lookup k m = none := by
  cases hl : List.lookup k m with
  | none => rfl
  | some v =>
    exfalso; apply h
    have := lookup_mem m k v hl
    exact List.mem_map.mpr ⟨(k, v), this, rfl⟩

structure WF (t : Tags) : Prop where
  nodup : (AMap.keys t).Nodup
  key : ∀ k ∈ AMap.keys t, validTag k = true
  val : ∀ k, wireSafeValue ((AMap.get? t k).getD []) = true
  len : t ≠ [] → (tagsBytesFull t).length ≤ maxTagLength

theorem wf_of_wfTags (t : Tags) (h : wfTags t = true) : WF t := by
  unfold wfTags at h
  rw [Bool.and_eq_true, Bool.and_eq_true, nodupB_iff, List.all_eq_true] at h
  obtain ⟨⟨h1, h2⟩, h3⟩ := h
  refine ⟨h1, ?_, ?_, ?_⟩
  · intro k hk
    obtain ⟨p, hp, rfl⟩ := List.mem_map.mp hk
    have := h2 p hp
    rw [Bool.and_eq_true] at this
    exact this.1
  · intro k
    unfold AMap.get?
    cases hl : List.lookup k t with
    | none => exact wireSafe_nil
    | some v =>
      have := h2 _ (lookup_mem t k v hl)
      rw [Bool.and_eq_true] at this
      exact this.2
  · intro hne
    cases t with
    | nil => exact absurd rfl hne
    | cons p t => simpa using h3

/-! ### the loop of Tags.Bytes -/

def item (t : Tags) (k : Bytes) : Bytes := tagItem k ((AMap.get? t k).getD [])

theorem tagsBytesFull_eq (t : Tags) :
    tagsBytesFull t = 0x40 :: joinWith [0x3B] ((sortBytes (AMap.keys t)).map (item t)) := rfl

theorem loop_nil (t : Tags) (cur : Nat) : tagsBytesLoop t [] cur = [] := rfl

theorem loop_single (t : Tags) (k : Bytes) (cur : Nat) (h : cur + (item t k).length ≤ maxTagLength) :
    tagsBytesLoop t [k] cur = item t k := by
  have hlen : (item t k).length = k.length + (if ((AMap.get? t k).getD []).length > 0 then 1 + ((AMap.get? t k).getD []).length else 0) := by
    unfold item tagItem
    split <;> simp <;> omega
  rw [hlen] at h
  unfold tagsBytesLoop
  simp only [List.isEmpty_nil, if_true, Nat.add_zero, List.append_nil, loop_nil]
  rw [if_neg (by omega)]
  rfl

theorem loop_cons (t : Tags) (k k' : Bytes) (ks : List Bytes) (cur : Nat)
    (h : cur + (item t k).length + 1 ≤ maxTagLength) :
    tagsBytesLoop t (k :: k' :: ks) cur =
      item t k ++ [0x3B] ++ tagsBytesLoop t (k' :: ks) (cur + ((item t k).length + 1)) := by
  have hlen : (item t k).length = k.length + (if ((AMap.get? t k).getD []).length > 0 then 1 + ((AMap.get? t k).getD []).length else 0) := by
    unfold item tagItem
    split <;> simp <;> omega
  rw [hlen] at h
  conv => lhs; unfold tagsBytesLoop
  simp only [List.isEmpty_cons, Bool.false_eq_true, if_false]
  rw [if_neg (by omega)]
  simp [item, tagItem, Nat.add_assoc]

theorem loop_full (t : Tags) (ks : List Bytes) (cur : Nat)
    (h : cur + (joinWith [0x3B] (ks.map (item t))).length ≤ maxTagLength) :
    tagsBytesLoop t ks cur = joinWith [0x3B] (ks.map (item t)) := by
  induction ks generalizing cur with
  | nil => rfl
  | cons k ks ih =>
    cases ks with
    | nil =>
      rw [List.map_cons, List.map_nil, joinWith_single] at h ⊢
      exact loop_single t k cur h
    | cons k' ks =>
      rw [List.map_cons, List.map_cons, joinWith_cons_cons] at h ⊢
      rw [← List.map_cons (f := item t)] at h ⊢
      simp only [List.length_append, List.length_cons, List.length_nil] at h
      rw [loop_cons t k k' ks cur (by omega), ih]
      omega

theorem tagsBytes_full' (t : Tags) (hw : wfTags t = true) (hne : t ≠ []) :
    tagsBytes (some t) = tagsBytesFull t := by
  have W := wf_of_wfTags t hw
  have hl := W.len hne
  rw [tagsBytesFull_eq] at hl ⊢
  unfold tagsBytes
  have : t.isEmpty = false := by cases t <;> simp_all
  simp only [this, Bool.false_eq_true, if_false]
  rw [loop_full]
  simp only [List.length_cons] at hl
  omega

theorem sorted_mem (t : Tags) (k : Bytes) : k ∈ sortBytes (AMap.keys t) ↔ k ∈ AMap.keys t :=
  (sortBytes_perm _).mem_iff

theorem mem_item (t : Tags) (k : Bytes) (b : UInt8) (h : b ∈ item t k) :
    b ∈ k ∨ b = 0x3D ∨ b ∈ (AMap.get? t k).getD [] := by
  unfold item tagItem at h
  split at h
  · simp only [List.mem_append, List.mem_cons] at h
    rcases h with h | h | h
    · exact Or.inl h
    · exact Or.inr (Or.inl h)
    · exact Or.inr (Or.inr h)
  · simp at h; exact Or.inl h

theorem item_no_semi (t : Tags) (W : WF t) (k : Bytes) (hk : k ∈ AMap.keys t) :
    (0x3B : UInt8) ∉ item t k := by
  intro h
  rcases mem_item t k _ h with h | h | h
  · exact (validTag_no k (W.key k hk)).1 h
  · revert h; decide
  · exact (wireSafe_no _ (W.val k)).1 h

theorem item_no_sp (t : Tags) (W : WF t) (k : Bytes) (hk : k ∈ AMap.keys t) :
    (0x20 : UInt8) ∉ item t k := by
  intro h
  rcases mem_item t k _ h with h | h | h
  · exact (validTag_no k (W.key k hk)).2.2.1 h
  · revert h; decide
  · exact (wireSafe_no _ (W.val k)).2 h

theorem tagsBytesFull_noSpace' (t : Tags) (hw : wfTags t = true) : SP ∉ tagsBytesFull t := by
  have W := wf_of_wfTags t hw
  rw [tagsBytesFull_eq]
  intro h
  rcases List.mem_cons.mp h with h | h
  · revert h; decide
  · rcases mem_joinWith _ _ _ h with h | ⟨p, hp, hb⟩
    · revert h; decide
    · obtain ⟨k, hk, rfl⟩ := List.mem_map.mp hp
      exact item_no_sp t W k ((sorted_mem t k).mp hk) hb

theorem item_length_ge (t : Tags) (k : Bytes) : k.length ≤ (item t k).length := by
  unfold item tagItem; simp

theorem sorted_ne_nil (t : Tags) (hne : t ≠ []) : sortBytes (AMap.keys t) ≠ [] := by
  intro e
  have := (sortBytes_perm (AMap.keys t)).length_eq
  rw [e] at this
  cases t with
  | nil => exact hne rfl
  | cons p t => simp [AMap.keys] at this

theorem joinWith_length_ge (c : UInt8) (p : Bytes) (ps : List Bytes) :
    p.length ≤ (joinWith [c] (p :: ps)).length := by
  cases ps with
  | nil => exact Nat.le_refl _
  | cons q qs => rw [joinWith_cons_cons]; simp only [List.length_append]; omega

theorem tagsBytesFull_length' (t : Tags) (hw : wfTags t = true) (hne : t ≠ []) :
    2 ≤ (tagsBytesFull t).length := by
  have W := wf_of_wfTags t hw
  rw [tagsBytesFull_eq]
  have hs := sorted_ne_nil t hne
  cases hks : sortBytes (AMap.keys t) with
  | nil => exact absurd hks hs
  | cons k ks =>
    have hk : k ∈ AMap.keys t := (sorted_mem t k).mp (by rw [hks]; simp)
    have h1 : k ≠ [] := validTag_ne_nil k (W.key k hk)
    have h2 : 1 ≤ k.length := by cases k with | nil => exact absurd rfl h1 | cons _ _ => simp
    have h3 := item_length_ge t k
    have h4 := joinWith_length_ge 0x3B (item t k) (ks.map (item t))
    rw [List.map_cons, List.length_cons]
    omega

/-! ### parseTags -/

theorem parseTagItem_item (t m : Tags) (W : WF t) (k : Bytes) (hk : k ∈ AMap.keys t) :
    parseTagItem m (item t k) = AMap.set m k ((AMap.get? t k).getD []) := by
  have hv := W.key k hk
  have hno := (validTag_no k hv).2.1
  have hne := validTag_ne_nil k hv
  unfold item tagItem
  split
  · next hlen =>
    unfold parseTagItem
    rw [indexOf_append _ _ _ hno]
    cases k with
    | nil => exact absurd rfl hne
    | cons x xs =>
      simp only [List.length_cons]
      have e1 : ((x :: xs) ++ 0x3D :: (AMap.get? t (x :: xs)).getD []).take (xs.length + 1) = x :: xs := by
        rw [List.take_append_of_le_length (by simp)]; simp
      have e2 : ((x :: xs) ++ 0x3D :: (AMap.get? t (x :: xs)).getD []).drop (xs.length + 2) =
          (AMap.get? t (x :: xs)).getD [] := by
        simp [List.drop_append]
      rw [e1, e2]
  · next hlen =>
    have e : (AMap.get? t k).getD [] = [] := by
      cases h : (AMap.get? t k).getD [] with
      | nil => rfl
      | cons _ _ => rw [h] at hlen; simp at hlen
    unfold parseTagItem
    rw [List.append_nil, indexOf_none _ _ hno, e]
    simp [hv]

theorem foldl_parse (t : Tags) (W : WF t) (ks : List Bytes) (hks : ∀ k ∈ ks, k ∈ AMap.keys t) (m : Tags) :
    (ks.map (item t)).foldl parseTagItem m =
      ks.foldl (fun m k => AMap.set m k ((AMap.get? t k).getD [])) m := by
  induction ks generalizing m with
  | nil => rfl
  | cons k ks ih =>
    rw [List.map_cons, List.foldl_cons, List.foldl_cons,
      parseTagItem_item t m W k (hks k (by simp)), ih (fun k' hk' => hks k' (by simp [hk']))]

theorem get?_foldl_set (f : Bytes → Bytes) (ks : List Bytes) (m : Tags) (k' : Bytes) :
    AMap.get? (ks.foldl (fun m k => AMap.set m k (f k)) m) k' =
      if k' ∈ ks then some (f k') else AMap.get? m k' := by
  induction ks generalizing m with
  | nil => simp
  | cons k ks ih =>
    rw [List.foldl_cons, ih, get?_set]
    by_cases h1 : k' ∈ ks
    · simp [h1]
    · by_cases h2 : k' = k
      · subst h2; simp
      · simp [h1, h2]

theorem parseTags_full' (t : Tags) (hw : wfTags t = true) (hne : t ≠ []) (k : Bytes) :
    AMap.get? (parseTags ((tagsBytesFull t).drop 1)) k = AMap.get? t k := by
  have W := wf_of_wfTags t hw
  have hs := sorted_ne_nil t hne
  rw [tagsBytesFull_eq, List.drop_one, List.tail_cons]
  unfold parseTags
  have hhead : (joinWith [0x3B] ((sortBytes (AMap.keys t)).map (item t))).head? ≠ some 0x40 := by
    cases hks : sortBytes (AMap.keys t) with
    | nil => exact absurd hks hs
    | cons k0 ks =>
      have hk0 : k0 ∈ AMap.keys t := (sorted_mem t k0).mp (by rw [hks]; simp)
      have hv := W.key k0 hk0
      have hno := (validTag_no k0 hv).2.2.2
      cases k0 with
      | nil => exact absurd rfl (validTag_ne_nil _ hv)
      | cons x xs =>
        have hx : x ≠ 0x40 := fun e => hno (by simp [e])
        cases ks with
        | nil => simp [joinWith_single, item, tagItem, hx]
        | cons q qs => simp [joinWith_cons_cons, item, tagItem, hx]
  simp only [if_neg hhead]
  rw [splitOnByte_joinWith _ _ (by simpa using hs), foldl_parse t W _ (fun k hk => (sorted_mem t k).mp hk),
    get?_foldl_set (fun k => (AMap.get? t k).getD [])]
  · by_cases hk : k ∈ AMap.keys t
    · rw [if_pos ((sorted_mem t k).mpr hk)]
      obtain ⟨v, hv⟩ := mem_keys_lookup t k hk
      simp [AMap.get?, hv]
    · rw [if_neg (fun h => hk ((sorted_mem t k).mp h))]
      simp [AMap.get?, not_mem_keys_lookup t k hk]
  · intro p hp
    obtain ⟨k', hk', rfl⟩ := List.mem_map.mp hp
    exact item_no_semi t W k' ((sorted_mem t k').mp hk')

/-! ### keys of `AMap.set` -/

theorem any_iff_mem_keys {β : Type} (m : AMap β) (k : Bytes) :
    m.any (fun p => p.1 == k) = true ↔ k ∈ AMap.keys m := by
  simp only [List.any_eq_true, AMap.keys, List.mem_map, beq_iff_eq]

theorem keys_map_repl {β : Type} (m : AMap β) (k : Bytes) (v : β) :
    AMap.keys (m.map (repl k v)) = AMap.keys m := by
  induction m with
  | nil => rfl
  | cons p m ih =>
    obtain ⟨a, b⟩ := p
    simp only [AMap.keys, List.map_cons] at ih ⊢
    rw [ih]
    by_cases hak : a = k
    · subst hak; rw [repl_eq]
    · rw [repl_ne _ _ _ _ hak]

theorem keys_set_old {β : Type} (m : AMap β) (k : Bytes) (v : β) (h : k ∈ AMap.keys m) :
    AMap.keys (AMap.set m k v) = AMap.keys m := by
  rw [set_eq, if_pos ((any_iff_mem_keys m k).mpr h), keys_map_repl]

theorem keys_set_new {β : Type} (m : AMap β) (k : Bytes) (v : β) (h : k ∉ AMap.keys m) :
    AMap.keys (AMap.set m k v) = AMap.keys m ++ [k] := by
  rw [set_eq, if_neg (fun e => h ((any_iff_mem_keys m k).mp e))]
  simp [AMap.keys]

theorem mem_set {β : Type} (m : AMap β) (k : Bytes) (v : β) (p : Bytes × β)
    (h : p ∈ AMap.set m k v) : p ∈ m ∨ p = (k, v) := by
  rw [set_eq] at h
  split at h
  · obtain ⟨q, hq, rfl⟩ := List.mem_map.mp h
    obtain ⟨a, b⟩ := q
    by_cases hak : a = k
    · subst hak; rw [repl_eq]; exact Or.inr rfl
    · rw [repl_ne _ _ _ _ hak]; exact Or.inl hq
  · simpa using h

theorem set_ne_nil {β : Type} (m : AMap β) (k : Bytes) (v : β) : AMap.set m k v ≠ [] := by
  rw [set_eq]
  split
  · next h =>
    cases m with
    | nil => simp at h
    | cons p m => simp
  · simp

/-! ### lengths -/

theorem full_length (t : Tags) (hne : t ≠ []) :
    (tagsBytesFull t).length = jlen ((AMap.keys t).map (item t)) := by
  rw [tagsBytesFull_eq, List.length_cons,
    joinWith_length 0x3B _ (by simpa using sorted_ne_nil t hne)]
  exact jlen_perm _ _ ((sortBytes_perm _).map _)

theorem item_set_eq (t : Tags) (k v : Bytes) : item (AMap.set t k v) k = tagItem k v := by
  unfold item; rw [get?_set, if_pos rfl]; rfl

theorem item_set_ne (t : Tags) (k v k' : Bytes) (h : k' ≠ k) : item (AMap.set t k v) k' = item t k' := by
  unfold item; rw [get?_set, if_neg h]

theorem jlen_set_not_mem (t : Tags) (k v : Bytes) (ks : List Bytes) (h : k ∉ ks) :
    jlen (ks.map (item (AMap.set t k v))) = jlen (ks.map (item t)) := by
  congr 1
  apply List.map_congr_left
  intro k' hk'
  exact item_set_ne t k v k' (fun e => h (e ▸ hk'))

theorem jlen_set_nodup (t : Tags) (k v : Bytes) (ks : List Bytes) (hnd : ks.Nodup) :
    jlen (ks.map (item (AMap.set t k v))) ≤ jlen (ks.map (item t)) + (tagItem k v).length := by
  induction ks with
  | nil => simp [jlen]
  | cons a ks ih =>
    rw [List.nodup_cons] at hnd
    rw [List.map_cons, List.map_cons, jlen_cons, jlen_cons]
    by_cases hak : a = k
    · subst hak
      rw [jlen_set_not_mem t a v ks hnd.1, item_set_eq]
      omega
    · rw [item_set_ne t k v a hak]
      have := ih hnd.2
      omega

theorem jlen_append_single (l : List Bytes) (p : Bytes) : jlen (l ++ [p]) = jlen l + p.length + 1 := by
  simp [jlen, List.sum_append]; omega

theorem tagItem_length_le (k v : Bytes) : (tagItem k v).length ≤ k.length + v.length + 1 := by
  unfold tagItem; split <;> simp <;> omega

theorem tagsLen_nil : tagsLen (some ([] : Tags)) = 0 := rfl

theorem tagsLen_ne_nil (t : Tags) (hw : wfTags t = true) (hne : t ≠ []) :
    tagsLen (some t) = jlen ((AMap.keys t).map (item t)) := by
  unfold tagsLen; rw [tagsBytes_full' t hw hne, full_length t hne]

theorem wfTags_of (t : Tags) (h1 : (AMap.keys t).Nodup)
    (h2 : ∀ p ∈ t, validTag p.1 = true ∧ wireSafeValue p.2 = true)
    (h3 : (tagsBytesFull t).length ≤ maxTagLength) : wfTags t = true := by
  unfold wfTags
  rw [Bool.and_eq_true, Bool.and_eq_true, nodupB_iff, List.all_eq_true]
  refine ⟨⟨h1, ?_⟩, ?_⟩
  · intro p hp; rw [Bool.and_eq_true]; exact h2 p hp
  · simp [h3]

theorem wf_mem (t : Tags) (hw : wfTags t = true) (p : Bytes × Bytes) (hp : p ∈ t) :
    validTag p.1 = true ∧ wireSafeValue p.2 = true := by
  unfold wfTags at hw
  rw [Bool.and_eq_true, Bool.and_eq_true, List.all_eq_true] at hw
  have := hw.1.2 p hp
  rw [Bool.and_eq_true] at this
  exact this

theorem tagsSet_wf' (t t' : Tags) (k v : Bytes) (hw : wfTags t = true) (h : tagsSet t k v = some t') :
    wfTags t' = true := by
  obtain ⟨hk, hv, hlen, rfl⟩ := tagsSet_some t t' k v h
  have W := wf_of_wfTags t hw
  have hitem := tagItem_length_le k (tagEncode v)
  have hsafe : wireSafeValue (tagEncode v) = true := by
    rcases hv with hv | hv
    · have : tagEncode v = [] := List.eq_nil_of_length_eq_zero hv
      rw [this]; exact wireSafe_nil
    · exact validTagValue_wireSafe' _ hv
  apply wfTags_of
  · by_cases hmem : k ∈ AMap.keys t
    · rw [keys_set_old t k _ hmem]; exact W.nodup
    · rw [keys_set_new t k _ hmem, List.nodup_append]
      refine ⟨W.nodup, by simp, ?_⟩
      intro a ha b hb
      rw [List.mem_singleton] at hb
      subst hb
      exact fun e => hmem (e ▸ ha)
  · intro p hp
    rcases mem_set t k _ p hp with hp | rfl
    · exact wf_mem t hw p hp
    · exact ⟨hk, hsafe⟩
  · rw [full_length _ (set_ne_nil t k _)]
    by_cases hmem : k ∈ AMap.keys t
    · have hne : t ≠ [] := by intro e; subst e; simp [AMap.keys] at hmem
      rw [tagsLen_ne_nil t hw hne] at hlen
      rw [keys_set_old t k _ hmem]
      have := jlen_set_nodup t k (tagEncode v) _ W.nodup
      omega
    · rw [keys_set_new t k _ hmem, List.map_append, List.map_cons, List.map_nil,
        jlen_append_single, jlen_set_not_mem t k _ _ hmem, item_set_eq]
      by_cases hne : t = []
      · subst hne
        rw [tagsLen_nil] at hlen
        simp only [AMap.keys, List.map_nil, jlen, List.sum_nil]
        omega
      · rw [tagsLen_ne_nil t hw hne] at hlen
        omega

end Girc.Proofs.TagsAux
