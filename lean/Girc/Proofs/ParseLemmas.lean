import Girc.Model.Event
/-
  General lemmas about the byte-level helpers used by `parseEvent`:
  `indexOf`, `splitOnByte`/`joinWith`, `trimCRLF`, `fieldsSp`, `findTrailer`, `parseParams`,
  `cutSection`, `parseSource`, and the section-wise parse lemma `parseEvent_sections`.
-/
namespace Girc.Proofs.ParseLemmas
open Girc Girc.Model

/-! ### `indexOf` -/

theorem indexOf_append_cons (b : Byte) (rest : Bytes) :
    ∀ (a : Bytes), b ∉ a → indexOf b (a ++ b :: rest) = some a.length
  | [], _ => by simp [indexOf]
  | x :: a, h => by
    have hx : x ≠ b := fun e => h (by simp [e])
    have ha : b ∉ a := fun e => h (by simp [e])
    simp [indexOf, hx, indexOf_append_cons b rest a ha]

theorem indexOf_none (b : Byte) : ∀ (a : Bytes), b ∉ a → indexOf b a = none
  | [], _ => by simp [indexOf]
  | x :: a, h => by
    have hx : x ≠ b := fun e => h (by simp [e])
    have ha : b ∉ a := fun e => h (by simp [e])
    simp [indexOf, hx, indexOf_none b a ha]

/-! ### `splitOnByte` / `joinWith` -/

theorem splitOnByte_ne_nil (sep : Byte) : ∀ s : Bytes, splitOnByte sep s ≠ []
  | [] => by simp [splitOnByte]
  | x :: xs => by
    unfold splitOnByte
    by_cases h : x = sep
    · simp [h]
    · simp only [h, if_false]
      split <;> simp

theorem splitOnByte_noSep (sep : Byte) : ∀ s : Bytes, sep ∉ s → splitOnByte sep s = [s]
  | [], _ => by simp [splitOnByte]
  | x :: xs, h => by
    have hx : x ≠ sep := fun e => h (by simp [e])
    have ha : sep ∉ xs := fun e => h (by simp [e])
    simp [splitOnByte, hx, splitOnByte_noSep sep xs ha]

theorem splitOnByte_append_sep (sep : Byte) (rest : Bytes) :
    ∀ s : Bytes, sep ∉ s → splitOnByte sep (s ++ sep :: rest) = s :: splitOnByte sep rest
  | [], _ => by simp [splitOnByte]
  | x :: xs, h => by
    have hx : x ≠ sep := fun e => h (by simp [e])
    have ha : sep ∉ xs := fun e => h (by simp [e])
    simp [splitOnByte, hx, splitOnByte_append_sep sep rest xs ha]

theorem splitOnByte_joinWith (sep : Byte) :
    ∀ items : List Bytes, items ≠ [] → (∀ it ∈ items, sep ∉ it) →
      splitOnByte sep (joinWith [sep] items) = items
  | [], h, _ => absurd rfl h
  | [p], _, hs => by
    simp [joinWith, splitOnByte_noSep sep p (hs p (by simp))]
  | p :: q :: ps, _, hs => by
    have hp : sep ∉ p := hs p (by simp)
    have ih := splitOnByte_joinWith sep (q :: ps) (by simp) (fun it hit => hs it (by simp [hit]))
    simp only [joinWith, List.append_assoc, List.singleton_append]
    rw [splitOnByte_append_sep sep _ p hp, ih]

theorem mem_joinWith (sep : Bytes) (b : Byte) :
    ∀ items : List Bytes, b ∈ joinWith sep items → b ∈ sep ∨ ∃ it ∈ items, b ∈ it
  | [], h => by simp [joinWith] at h
  | [p], h => by
    simp [joinWith] at h
    exact Or.inr ⟨p, by simp, h⟩
  | p :: q :: ps, h => by
    simp only [joinWith, List.mem_append] at h
    rcases h with (h | h) | h
    · exact Or.inr ⟨p, by simp, h⟩
    · exact Or.inl h
    · rcases mem_joinWith sep b (q :: ps) h with h | ⟨it, hit, hb⟩
      · exact Or.inl h
      · exact Or.inr ⟨it, by simp [hit], hb⟩

/-! ### `trimCRLF` -/

theorem dropWhile_all {α} (p : α → Bool) : ∀ (e r : List α), (∀ x ∈ e, p x = true) →
    (e ++ r).dropWhile p = r.dropWhile p
  | [], _, _ => rfl
  | x :: e, r, h => by
    have hx : p x = true := h x (by simp)
    simp [hx, dropWhile_all p e r (fun y hy => h y (by simp [hy]))]

theorem dropWhile_head_false {α} (p : α → Bool) (l : List α)
    (h : ∀ x, l.head? = some x → p x = false) : l.dropWhile p = l := by
  cases l with
  | nil => rfl
  | cons x xs => simp [List.dropWhile, h x rfl]

theorem trimCRLF_append (body ending : Bytes) (hb : ∀ b ∈ body, isCRLF b = false)
    (he : ∀ b ∈ ending, isCRLF b = true) : trimCRLF (body ++ ending) = body := by
  unfold trimCRLF
  cases body with
  | nil =>
    have : ending.dropWhile isCRLF = [] := by
      have := dropWhile_all isCRLF ending [] he
      simpa using this
    simp [this]
  | cons x xs =>
    have hx : isCRLF x = false := hb x (by simp)
    have h1 : (x :: xs ++ ending).dropWhile isCRLF = x :: xs ++ ending := by
      simp [hx]
    rw [h1, List.reverse_append, dropWhile_all isCRLF _ _ (by simpa using he)]
    rw [dropWhile_head_false, List.reverse_reverse]
    intro z hz
    apply hb
    have : z ∈ (x :: xs).reverse := List.mem_of_mem_head? hz
    simpa [or_comm] using this

theorem trimCRLF_id (body : Bytes) (hb : ∀ b ∈ body, isCRLF b = false) : trimCRLF body = body := by
  have := trimCRLF_append body [] hb (by simp)
  simpa using this

/-! ### CR/LF-free byte strings -/

/-- No CR and no LF. -/
def NoCRLF (s : Bytes) : Prop := ∀ b ∈ s, isCRLF b = false

theorem NoCRLF.nil : NoCRLF [] := by intro b hb; simp at hb

theorem NoCRLF.cons {x : Byte} {s : Bytes} (hx : isCRLF x = false) (hs : NoCRLF s) :
    NoCRLF (x :: s) := by
  intro b hb
  simp only [List.mem_cons] at hb
  rcases hb with hb | hb
  · subst hb; exact hx
  · exact hs b hb

theorem NoCRLF.append {a b : Bytes} (ha : NoCRLF a) (hb : NoCRLF b) : NoCRLF (a ++ b) := by
  intro x hx
  simp only [List.mem_append] at hx
  rcases hx with hx | hx
  · exact ha x hx
  · exact hb x hx

theorem NoCRLF.of_all {f : Byte → Bool} {s : Bytes} (h : s.all f = true)
    (hf : ∀ b, f b = true → isCRLF b = false) : NoCRLF s := by
  intro b hb
  exact hf b (List.all_eq_true.mp h b hb)

theorem NoCRLF.not_cr {s : Bytes} (h : NoCRLF s) : CR ∉ s := fun hm => by
  have := h CR hm
  simp [isCRLF] at this

theorem NoCRLF.not_lf {s : Bytes} (h : NoCRLF s) : LF ∉ s := fun hm => by
  have := h LF hm
  simp [isCRLF] at this

theorem NoCRLF.joinWith {sep : Bytes} (hsep : NoCRLF sep) :
    ∀ {items : List Bytes}, (∀ it ∈ items, NoCRLF it) → NoCRLF (joinWith sep items) := by
  intro items h b hb
  rcases mem_joinWith sep b items hb with hb | ⟨it, hit, hb⟩
  · exact hsep b hb
  · exact h it hit b hb

theorem NoCRLF.filter {s : Bytes} (h : NoCRLF s) : s.filter (fun b => !isCRLF b) = s := by
  rw [List.filter_eq_self]
  intro b hb
  simp [h b hb]

end Girc.Proofs.ParseLemmas
