import Girc.Proofs.TransTagsBytes
/-
  Translator equivalence, event.go (serialiser side): (*Event).LenOpts, (*Event).Len, (*Event).Bytes,
  (*Source).Bytes, (*Source).String.
-/
set_option linter.unusedSimpArgs false
namespace Girc.Proofs.Trans
open Girc Girc.Model Girc.Go Girc.Gen

/-! ### the trailing-parameter test -/

theorem findSub_one (b : Byte) : ∀ p : Bytes, (findSub [b] p).isSome = p.contains b
  | [] => by simp [findSub]
  | x :: xs => by
    unfold findSub
    by_cases h : x = b
    · subst h; simp [List.isPrefixOf]
    · have h' : (b == x) = false := by simp; exact fun e => h e.symm
      have h'' : (x == b) = false := by simp [h]
      simp [List.isPrefixOf, h', h'', findSub_one b xs, List.contains_cons, h]
      exact fun e => absurd e.symm h

theorem containsSub_one (p : Bytes) (b : Byte) : containsSub p [b] = p.contains b := findSub_one b p

theorem hasPrefix_one (p : Bytes) (b : Byte) : hasPrefix p [b] = decide (p.head? = some b) := by
  cases p with
  | nil => simp [hasPrefix, List.isPrefixOf]
  | cons x xs =>
    by_cases h : x = b
    · subst h; simp [hasPrefix, List.isPrefixOf]
    · have h' : (b == x) = false := by simp; exact fun e => h e.symm
      simp [hasPrefix, List.isPrefixOf, h', h]

/-- The Go condition `strings.Contains(p, " ") || p == "" || strings.HasPrefix(p, ":")`. -/
theorem needsColon_go (p : Bytes) :
    (containsSub p [0x20] || p == ([] : Bytes) || hasPrefix p [0x3A]) = needsColon p := by
  unfold needsColon
  rw [containsSub_one, hasPrefix_one]
  cases p <;> simp [SP, COLON]

/-! ### (*Event).LenOpts / Len -/

/-- What the parameter loop of `LenOpts` adds for the parameters from a position on (the one SPACE per parameter is
    added before the loop). -/
def plTail : List Bytes → Nat
  | [] => 0
  | [p] => p.length + (if needsColon p then 1 else 0)
  | p :: q :: ps => p.length + plTail (q :: ps)

theorem paramsLen_plTail : ∀ ps : List Bytes, paramsLen ps = ps.length + plTail ps
  | [] => rfl
  | [p] => by simp [paramsLen, plTail]; omega
  | p :: q :: ps => by
    have ih := paramsLen_plTail (q :: ps)
    simp only [paramsLen, plTail, List.length_cons] at ih ⊢
    omega

theorem Event_LenOpts_loop1_eq (e : Event) : ∀ (fuel n : Nat) (L : Int),
    n ≤ e.params.length → e.params.length - n < fuel →
    Fn.Event_LenOpts_loop1 (some e) fuel L (n : Int) = .ok (.done (L + (plTail (e.params.drop n) : Nat)))
  | 0, _, _, _, h => by omega
  | fuel + 1, n, L, hn, hf => by
    unfold Fn.Event_LenOpts_loop1
    by_cases hlt : n < e.params.length
    · have hx : e.params[n]? = some e.params[n] := by simp [hlt]
      have hp := atL_nat e.params n e.params[n] hx
      have hd : e.params.drop n = e.params[n] :: e.params.drop (n + 1) := List.drop_eq_getElem_cons hlt
      generalize e.params[n] = p at hx hp hd
      have hc : decide ((n : Int) < len e.params) = true := by dec_tac
      have e1 : ((n : Int) + 1) = ((n + 1 : Nat) : Int) := by omega
      have ih := Event_LenOpts_loop1_eq e fuel (n + 1)
      simp only [deref_some, hc, hp, bind, Except.bind, pure, Except.pure, Bool.not_true, Bool.false_eq_true, if_false,
        andE_ok_ok, orE_ok_ok, needsColon_go, e1]
      rw [hd]
      by_cases hl : n + 1 < e.params.length
      · have c1 : ((n : Int) == len e.params - 1) = false := by
          have : ¬ ((n : Int) = len e.params - 1) := by simp only [len]; omega
          simp [this]
        obtain ⟨q, qs, hq⟩ : ∃ q qs, e.params.drop (n + 1) = q :: qs := by
          cases h : e.params.drop (n + 1) with
          | nil => simp at h; omega
          | cons q qs => exact ⟨q, qs, rfl⟩
        simp only [c1, Bool.false_and, Bool.false_eq_true, if_false]
        rw [ih _ (by omega) (by omega), hq, plTail, ← hq]
        simp only [len, Int.natCast_add, Int.add_assoc]
      · have c1 : ((n : Int) == len e.params - 1) = true := by
          have : ((n : Int) = len e.params - 1) := by simp only [len]; omega
          simp [this]
        have hq : e.params.drop (n + 1) = [] := by simp; omega
        simp only [c1, Bool.true_and]
        rw [hq, plTail]
        cases needsColon p
        · simp only [Bool.false_eq_true, if_false]
          rw [ih _ (by omega) (by omega), hq]
          simp [len, plTail]
        · simp only [if_true]
          rw [ih _ (by omega) (by omega), hq]
          simp [len, plTail]; omega
    · have hc : decide ((n : Int) < len e.params) = false := by dec_tac
      have : e.params.drop n = [] := by simp; omega
      simp only [deref_some, hc, bind, Except.bind, pure, Except.pure, Bool.not_false, if_true, this, plTail]
      simp

theorem Event_LenOpts_eq (e : Event) (includeTags : Bool) :
    Fn.Event_LenOpts (some e) includeTags = .ok (eventLen e : Int) := by
  unfold Fn.Event_LenOpts eventLen
  have hl : ∀ L : Int, Fn.Event_LenOpts_loop1 (some e) (fuelTo 0 (len e.params)) L 0 =
      .ok (.done (L + (plTail e.params : Nat))) := by
    intro L
    have := Event_LenOpts_loop1_eq e (fuelTo 0 (len e.params)) 0 L (by omega) (by fuel_tac)
    simpa using this
  simp only [deref_some, bind, Except.bind, pure, Except.pure, Tags_Len_eq, paramsLen_plTail, hl]
  have hp : decide (len e.params > 0) = decide (e.params.length > 0) := by decc_tac
  rw [hp]
  obtain ⟨tags, source, command, params⟩ := e
  simp only []
  have hpl : params.length = 0 → plTail params = 0 := by
    intro h; cases params with
    | nil => rfl
    | cons => simp at h
  cases tags with
  | none =>
    have c1 : decide (mapLen (none : Option Tags) > 0) = false := by decide
    simp only [c1, Bool.false_eq_true, if_false]
    cases source with
    | none =>
      simp only [Option.isSome_none, Bool.false_eq_true, if_false]
      by_cases h0 : params.length > 0
      · simp [h0, len]; omega
      · have := hpl (by omega); simp [h0, len]; omega
    | some s =>
      simp only [Option.isSome_some, if_true, Source_Len_eq]
      by_cases h0 : params.length > 0
      · simp [h0, len]; omega
      · have := hpl (by omega); simp [h0, len]; omega
  | some t =>
    have c1 : decide (mapLen (some t) > 0) = decide (t.length > 0) := by
      apply decide_congr; simp only [mapLen]; omega
    rw [c1]
    by_cases ht : t.length > 0
    · simp only [ht, decide_true, if_true]
      cases source with
      | none =>
        simp only [Option.isSome_none, Bool.false_eq_true, if_false]
        by_cases h0 : params.length > 0
        · simp [h0, len]; omega
        · have := hpl (by omega); simp [h0, len]; omega
      | some s =>
        simp only [Option.isSome_some, if_true, Source_Len_eq]
        by_cases h0 : params.length > 0
        · simp [h0, len]; omega
        · have := hpl (by omega); simp [h0, len]; omega
    · simp only [ht, decide_false, Bool.false_eq_true, if_false]
      cases source with
      | none =>
        simp only [Option.isSome_none, Bool.false_eq_true, if_false]
        by_cases h0 : params.length > 0
        · simp [h0, len]; omega
        · have := hpl (by omega); simp [h0, len]; omega
      | some s =>
        simp only [Option.isSome_some, if_true, Source_Len_eq]
        by_cases h0 : params.length > 0
        · simp [h0, len]; omega
        · have := hpl (by omega); simp [h0, len]; omega

theorem Event_LenOpts_nil (b : Bool) : Fn.Event_LenOpts none b = .error .nilDeref := rfl

theorem Event_Len_eq (e : Event) : Fn.Event_Len (some e) = .ok (eventLen e : Int) := by
  unfold Fn.Event_Len
  simp [Event_LenOpts_eq, bind, Except.bind, pure, Except.pure]

theorem Event_Len_nil : Fn.Event_Len none = .error .nilDeref := rfl

/-! ### (*Event).Bytes -/

theorem paramsBytes_cons2 (p q : Bytes) (qs : List Bytes) :
    paramsBytes (p :: q :: qs) = SP :: p ++ paramsBytes (q :: qs) := by
  simp [paramsBytes]

theorem Event_Bytes_loop1_eq (e : Event) : ∀ (fuel n : Nat) (B : Bytes),
    n ≤ e.params.length → e.params.length - n < fuel →
    Fn.Event_Bytes_loop1 (some e) fuel B (n : Int) = .ok (.done (B ++ paramsBytes (e.params.drop n)))
  | 0, _, _, _, h => by omega
  | fuel + 1, n, B, hn, hf => by
    unfold Fn.Event_Bytes_loop1
    by_cases hlt : n < e.params.length
    · have hx : e.params[n]? = some e.params[n] := by simp [hlt]
      have hp := atL_nat e.params n e.params[n] hx
      have hd : e.params.drop n = e.params[n] :: e.params.drop (n + 1) := List.drop_eq_getElem_cons hlt
      generalize e.params[n] = p at hx hp hd
      have hc : decide ((n : Int) < len e.params) = true := by dec_tac
      have e1 : ((n : Int) + 1) = ((n + 1 : Nat) : Int) := by omega
      have ih := Event_Bytes_loop1_eq e fuel (n + 1)
      have hs : strOfByte Fn.eventSpace = [SP] := by decide
      have hm : strOfByte Fn.messagePrefix = [COLON] := by decide
      simp only [deref_some, hc, hp, bind, Except.bind, pure, Except.pure, Bool.not_true, Bool.false_eq_true, if_false,
        andE_ok_ok, orE_ok_ok, needsColon_go, e1, hs, hm]
      rw [hd]
      by_cases hl : n + 1 < e.params.length
      · have c1 : ((n : Int) == len e.params - 1) = false := by
          have : ¬ ((n : Int) = len e.params - 1) := by simp only [len]; omega
          simp [this]
        obtain ⟨q, qs, hq⟩ : ∃ q qs, e.params.drop (n + 1) = q :: qs := by
          cases h : e.params.drop (n + 1) with
          | nil => simp at h; omega
          | cons q qs => exact ⟨q, qs, rfl⟩
        simp only [c1, Bool.false_and, Bool.false_eq_true, if_false]
        rw [ih _ (by omega) (by omega), hq, paramsBytes_cons2]
        simp
      · have c1 : ((n : Int) == len e.params - 1) = true := by
          have : ((n : Int) = len e.params - 1) := by simp only [len]; omega
          simp [this]
        have hq : e.params.drop (n + 1) = [] := by simp; omega
        simp only [c1, Bool.true_and]
        rw [hq, paramsBytes]
        cases needsColon p
        · simp only [Bool.false_eq_true, if_false]
          rw [ih _ (by omega) (by omega), hq]
          simp [paramsBytes]
        · simp only [if_true]
          rw [ih _ (by omega) (by omega), hq]
          simp [paramsBytes]
    · have hc : decide ((n : Int) < len e.params) = false := by dec_tac
      have : e.params.drop n = [] := by simp; omega
      simp only [deref_some, hc, bind, Except.bind, pure, Except.pure, Bool.not_false, if_true, this, paramsBytes]
      simp

/-- The in-place strip loop (`out = append(out[:i], out[i+1:]...); i--`) is a filter. -/
theorem Event_Bytes_loop2_eq : ∀ (fuel n : Nat) (out : Bytes),
    n ≤ out.length → out.length - n < fuel →
    Fn.Event_Bytes_loop2 fuel (n : Int) out = .ok (.done (out.take n ++ (out.drop n).filter (fun b => !isCRLF b)))
  | 0, _, _, _, h => by omega
  | fuel + 1, n, out, hn, hf => by
    unfold Fn.Event_Bytes_loop2
    by_cases hlt : n < out.length
    · obtain ⟨c, hd, hat, hget⟩ := atI_step out n hlt
      have hc : decide ((n : Int) < len out) = true := by dec_tac
      have e1 : ((n : Int) + 1) = ((n + 1 : Nat) : Int) := by omega
      have e2 : ((n : Int) - 1 + 1) = (n : Int) := by omega
      simp only [hc, hat, bind, Except.bind, pure, Except.pure, Bool.not_true, Bool.false_eq_true, if_false, orE_ok_ok]
      rw [hd]
      by_cases hcr : (c == 0x0A || c == 0x0D) = true
      · have hk : (!isCRLF c) = false := by
          simp only [isCRLF, CR, LF]
          simp only [Bool.or_eq_true, beq_iff_eq] at hcr
          rcases hcr with h | h <;> simp [h]
        have s1 := sliceI_to out n (by omega)
        have s2 := sliceI_int_end out ((n : Int) + 1) (n + 1) (by omega) (by omega)
        simp only [hcr, if_true, s1, s2, e2, List.filter_cons, hk, Bool.false_eq_true, if_false]
        have hlen : (out.take n ++ out.drop (n + 1)).length = out.length - 1 := by simp; omega
        rw [Event_Bytes_loop2_eq fuel n _ (by omega) (by omega)]
        have hln : (out.take n).length = n := by simp; omega
        have t1 : (out.take n ++ out.drop (n + 1)).take n = out.take n := List.take_left' hln
        have t2 : (out.take n ++ out.drop (n + 1)).drop n = out.drop (n + 1) := List.drop_left' hln
        rw [t1, t2]
      · have hk : (!isCRLF c) = true := by
          simp only [isCRLF, CR, LF]
          simp only [Bool.or_eq_true, beq_iff_eq, not_or] at hcr
          simp [hcr.1, hcr.2]
        have hcr' : (c == 0x0A || c == 0x0D) = false := by simpa using hcr
        simp only [hcr', Bool.false_eq_true, if_false, e1, List.filter_cons, hk, if_true]
        rw [Event_Bytes_loop2_eq fuel (n + 1) out (by omega) (by omega)]
        have t1 : out.take (n + 1) = out.take n ++ [c] := by
          rw [List.take_add_one, hget]; rfl
        rw [t1]; simp
    · have hc : decide ((n : Int) < len out) = false := by dec_tac
      have h1 : out.drop n = [] := by simp; omega
      have h2 : out.take n = out := List.take_of_length_le (by omega)
      simp [hc, h1, h2, pure, Except.pure]

theorem Event_Bytes_eq (e : Event) : Fn.Event_Bytes (some e) = .ok (eventBytes e) := by
  unfold Fn.Event_Bytes eventBytes rawBytes
  have hl1 : ∀ B : Bytes, Fn.Event_Bytes_loop1 (some e) (fuelTo 0 (len e.params)) B 0 =
      .ok (.done (B ++ paramsBytes e.params)) := by
    intro B
    have := Event_Bytes_loop1_eq e (fuelTo 0 (len e.params)) 0 B (by omega) (by fuel_tac)
    simpa using this
  have hl2 : ∀ out : Bytes, Fn.Event_Bytes_loop2 (fuelTo 0 (len out)) 0 out =
      .ok (.done (out.filter (fun b => !isCRLF b))) := by
    intro out
    have := Event_Bytes_loop2_eq (fuelTo 0 (len out)) 0 out (by omega) (by fuel_tac)
    simpa using this
  have hm : Fn.messagePrefix = COLON := rfl
  have hs : Fn.eventSpace = SP := rfl
  simp only [deref_some, bind, Except.bind, pure, Except.pure, Tags_writeTo_eq, hl1, hl2, hm, hs]
  have hp : decide (len e.params > 0) = decide (e.params.length > 0) := by decc_tac
  rw [hp]
  obtain ⟨tags, source, command, params⟩ := e
  simp only []
  have hpb : ¬ params.length > 0 → paramsBytes params = [] := by
    intro h; cases params with
    | nil => rfl
    | cons => simp at h
  have htn : tagsWrite none = [] := rfl
  cases tags <;> cases source <;> by_cases h0 : params.length > 0 <;>
    simp [h0, hpb, htn, Source_writeTo_eq, List.append_assoc]

theorem Event_Bytes_nil : Fn.Event_Bytes none = .error .nilDeref := rfl

/-! ### (*Source).Bytes / String -/

theorem Source_Bytes_eq (s : Source) : Fn.Source_Bytes (some s) = .ok (sourceBytes s) := by
  unfold Fn.Source_Bytes
  simp [Source_writeTo_eq, bind, Except.bind, pure, Except.pure]

theorem Source_Bytes_nil : Fn.Source_Bytes none = .error .nilDeref := rfl

theorem Source_String_eq (s : Source) : Fn.Source_String (some s) = .ok (sourceBytes s) := by
  unfold Fn.Source_String sourceBytes
  simp only [deref_some, bind, Except.bind, pure, Except.pure]
  have e1 : decide (len s.ident > 0) = decide (s.ident.length > 0) := by decc_tac
  have e2 : decide (len s.host > 0) = decide (s.host.length > 0) := by decc_tac
  have hb : strOfByte Fn.prefixIdent = [BANG] := by decide
  have ha : strOfByte Fn.prefixHost = [AT] := by decide
  rw [e1, e2, hb, ha]
  by_cases hi : s.ident.length > 0 <;> by_cases hh : s.host.length > 0 <;> simp [hi, hh]

theorem Source_String_nil : Fn.Source_String none = .error .nilDeref := rfl

end Girc.Proofs.Trans
