import Girc.Base.AMap
import Girc.Base.GoLib
import Girc.Base.Utf8
/-
  GoSem: the small run-time the GENERATED code of `Girc/Gen/Funcs.lean` (written by
  tools/extract/translate.go) is expressed in.  Core Lean only; linked into the compiled driver.

  Part 1 (namespace `Girc.Model`) holds the data types and the checked index/slice primitives that
  used to be declared in Model/Tags.lean, Model/Event.lean and Model/Ctcp.lean.  They were moved
  here — with unchanged fully-qualified names — so that the generated file can import Girc/Base only
  and still talk about the very same `Event`/`Source`/`Fault` the hand-written models use.

  Part 2 (namespace `Girc.Go`) is new: short-circuit connectives over `Except Fault`, loop results,
  checked list operations, and the NAMED models of the Go standard-library calls the translator maps
  (each with the assumed Go behaviour in its doc comment).

  Representation: Go `string`/`[]byte` ↦ `Bytes`, `byte` ↦ `UInt8` (wrap-around arithmetic), `int` ↦ `Int`
  (unbounded: 64-bit overflow is NOT modelled — every int in the translated functions is bounded by
  a length), `bool` ↦ `Bool`, `[]string` ↦ `List Bytes`, `*T` ↦ `Option T`, `map[string]string` ↦
  `Option (AMap Bytes)` (nil map = `none`).  A Go run-time panic is an explicit `Except.error`.
-/
namespace Girc.Model

/-- Go map `Tags`; `none` models the nil map. Values are kept in their escaped wire form. -/
abbrev Tags := AMap Bytes

structure Source where
  name : Bytes
  ident : Bytes
  host : Bytes
  deriving DecidableEq, Repr

structure Event where
  tags : Option Tags := none
  source : Option Source := none
  command : Bytes
  params : List Bytes := []
  deriving DecidableEq, Repr

structure CTCPEvent where
  source : Option Source
  command : Bytes
  text : Bytes
  reply : Bool
  deriving DecidableEq, Repr

/-- One channel mode change / stored mode (modes.go `CMode`). -/
structure CMode where
  add : Bool
  name : Byte
  setting : Bool
  args : Bytes
  deriving DecidableEq, Repr

/-- modes.go `CModes`.  The generated code reads the string fields only (Go names `modesListArgs`, `modesArgs`,
    `modesSetArgs`, `modesNoArgs` ↦ `listArgs`, `argsM`, `setArgs`, `noArgs`). -/
structure CModes where
  raw : Bytes
  listArgs : Bytes      -- CHANMODES class A
  argsM : Bytes         -- class B
  setArgs : Bytes       -- class C
  noArgs : Bytes        -- class D
  prefixes : Bytes      -- PREFIX mode letters
  modes : List CMode
  deriving DecidableEq, Repr

/-- modes.go `Perms` (moved here from Model/Modes.lean; Go fields `Owner`, `Admin`, `Op`, `HalfOp`, `Voice`). -/
structure Perms where
  owner : Bool := false
  admin : Bool := false
  op : Bool := false
  halfop : Bool := false
  voice : Bool := false
  deriving DecidableEq, Repr, Inhabited

/-- state.go `User` (moved here from Model/State.lean).  The generated code knows `Nick`, `Ident`, `Host` and
    `ChannelList` (↦ `chans`); `perms` models the `*UserPerms` object, which translated code never touches. -/
structure User where
  nick : Bytes
  ident : Bytes := []
  host : Bytes := []
  chans : List Bytes := []          -- ChannelList: folded names, sorted
  perms : AMap Perms := []          -- Perms.channels: keyed by folded channel name
  name : Bytes := []                -- Extras.Name
  account : Bytes := []
  away : Bytes := []
  deriving DecidableEq, Repr

/-- state.go `Channel` (moved here from Model/State.lean; Go `UserList` ↦ `users`; `Joined` is outside the model). -/
structure Channel where
  name : Bytes
  topic : Bytes := []
  users : List Bytes := []          -- UserList: folded nicks, sorted
  modes : CModes
  deriving DecidableEq, Repr

/-- cap_sasl.go `SASLPlain` / `SASLExternal`. -/
structure SASLPlain where
  user : Bytes
  pass : Bytes
  deriving DecidableEq, Repr

structure SASLExternal where
  identity : Bytes
  deriving DecidableEq, Repr

/-- The limiter fields of conn.go `ircConn`.  `time.Time` and `time.Duration` are both integer nanoseconds. -/
structure IrcConn where
  lastWrite : Int := 0
  lastDue : Int := 0
  writeDelay : Int := 0
  deriving DecidableEq, Repr

/-- state.go `strictTransport` (phase 4; `time.Time` = integer nanoseconds).  The hand-written timed model is
    `Model/StsTime.lean`'s `TSts`; `Proofs/TransSts.lean` relates the two. -/
structure StrictTransport where
  beginUpgrade : Bool := false
  upgradePort : Int := 0
  persistenceDuration : Int := 0
  persistenceReceived : Int := 0
  preload : Bool := false
  lastFailed : Int := 0
  deriving DecidableEq, Repr

/-- Go run-time failures.  `nilMap`: assignment to an entry of a nil map.  `diverge`: a fuel-bounded loop ran out of fuel.  `unsupported`: emitted by
    the translator (fail-closed) for a target function that is missing or outside the Go subset, and by
    run-time models for arguments outside their modelled domain. -/
inductive Fault where
  | indexOutOfRange | sliceBounds | nilDeref | diverge
  | nilMap
  | unsupported (why : String)
  deriving DecidableEq, Repr

/-- Go `s[lo:hi]` on a string / byte slice (capacity is not modelled: `hi ≤ len`). -/
def sliceI (s : Bytes) (lo hi : Int) : Except Fault Bytes :=
  if 0 ≤ lo ∧ lo ≤ hi ∧ hi ≤ s.length then .ok ((s.drop lo.toNat).take (hi - lo).toNat)
  else .error .sliceBounds

/-- Go `s[i]` on a string / byte slice. -/
def atI (s : Bytes) (i : Int) : Except Fault Byte :=
  if 0 ≤ i ∧ i < s.length then
    match s[i.toNat]? with
    | some b => .ok b
    | none => .error .indexOutOfRange
  else .error .indexOutOfRange

/-- `strings.IndexByte(s, b)` / `bytes.IndexByte(s, b)`: index of the first `b`, or -1. -/
def indexByteI (s : Bytes) (b : Byte) : Int :=
  match indexOf b s with
  | none => -1
  | some n => n

/-! ### The regular expression `reColor` = `\x03([019]?\d(,[019]?\d)?)`, hand-matched (moved here from Model/Format.lean)

TRUSTED table entry of the translator (`regexDeleteTable`): `reColor.ReplaceAllString(s, "")` ↦ `stripColor s`. -/

def COMMA : Byte := 0x2C

def isDigitB (b : Byte) : Bool := 0x30 ≤ b && b ≤ 0x39
def is019 (b : Byte) : Bool := b = 0x30 || b = 0x31 || b = 0x39

/-- `[019]?\d` at the head (greedy with backtracking): number of bytes consumed. -/
def colorNum : Bytes → Option Nat
  | a :: b :: _ => if is019 a && isDigitB b then some 2 else if isDigitB a then some 1 else none
  | [a] => if isDigitB a then some 1 else none
  | [] => none

/-- `[019]?\d(,[019]?\d)?` at the head: number of bytes consumed. -/
def colorArgs (s : Bytes) : Option Nat :=
  match colorNum s with
  | none => none
  | some n =>
    match s.drop n with
    | c :: rest => if c = COMMA then
        match colorNum rest with
        | some m => some (n + 1 + m)
        | none => some n
      else some n
    | [] => some n

/-- `reColor.ReplaceAllString(text, "")`. -/
def stripColorFuel : Nat → Bytes → Bytes
  | 0, s => s
  | _, [] => []
  | n + 1, b :: rest =>
    if b = 0x03 then
      match colorArgs rest with
      | some k => stripColorFuel n (rest.drop k)
      | none => b :: stripColorFuel n rest
    else b :: stripColorFuel n rest

def stripColor (s : Bytes) : Bytes := stripColorFuel (s.length + 1) s

/-- What a handler / command helper does to the outside world (moved here from Model/Cap.lean): the translator turns a
    call of a designated sink (`c.write`, `c.Send`, `c.receive`) into an append to an output list of these. -/
inductive Out where
  | write (e : Event)      -- `c.write`: straight into the send queue
  | send (e : Event)       -- `c.Send`: format / split / flood control, then the send queue
  | inject (e : Event)     -- `c.receive`: back into the receive queue (local ERROR events)
  | close                  -- `c.Close()`
  deriving Repr

/-! ### `base64.StdEncoding.EncodeToString` (moved here from Model/Sasl.lean) — TRUSTED stdlib table entry. -/

def b64Char (n : Nat) : Byte :=
  if n < 26 then UInt8.ofNat (0x41 + n)
  else if n < 52 then UInt8.ofNat (0x61 + (n - 26))
  else if n < 62 then UInt8.ofNat (0x30 + (n - 52))
  else if n = 62 then 0x2B else 0x2F

/-- `base64.StdEncoding.EncodeToString` (RFC 4648 with padding). -/
def b64Encode : Bytes → Bytes
  | a :: b :: c :: rest =>
    let n := a.toNat * 65536 + b.toNat * 256 + c.toNat
    b64Char (n / 262144) :: b64Char (n / 4096 % 64) :: b64Char (n / 64 % 64) :: b64Char (n % 64) :: b64Encode rest
  | [a, b] =>
    let n := a.toNat * 65536 + b.toNat * 256
    [b64Char (n / 262144), b64Char (n / 4096 % 64), b64Char (n / 64 % 64), 0x3D]
  | [a] =>
    let n := a.toNat * 65536
    [b64Char (n / 262144), b64Char (n / 4096 % 64), 0x3D, 0x3D]
  | [] => []

end Girc.Model

namespace Girc.Go
open Girc Girc.Model

/-- Result of running a translated `for` loop: it fell out (`done`, with the values of the variables
    that are live after the loop) or the function returned from inside it (`ret`). -/
inductive LoopR (σ ρ : Type) where
  | done (s : σ)
  | ret (r : ρ)
  deriving DecidableEq, Repr

/-- Go `len(x)` as an `int`. -/
def len {α : Type} (s : List α) : Int := s.length

/-- Go `a && b` when an operand can panic: `b` is looked at only if `a` is `true`. -/
def andE (a b : Except Fault Bool) : Except Fault Bool :=
  match a with
  | .ok x => if x then b else .ok false
  | .error e => .error e

/-- Go `a || b` when an operand can panic: `b` is looked at only if `a` is `false`. -/
def orE (a b : Except Fault Bool) : Except Fault Bool :=
  match a with
  | .ok x => if x then .ok true else b
  | .error e => .error e

@[simp] theorem andE_ok_ok (x y : Bool) : andE (.ok x) (.ok y) = .ok (x && y) := by cases x <;> rfl
@[simp] theorem orE_ok_ok (x y : Bool) : orE (.ok x) (.ok y) = .ok (x || y) := by cases x <;> rfl
@[simp] theorem andE_false (b : Except Fault Bool) : andE (.ok false) b = .ok false := rfl
@[simp] theorem andE_true (b : Except Fault Bool) : andE (.ok true) b = b := rfl
@[simp] theorem orE_true (b : Except Fault Bool) : orE (.ok true) b = .ok true := rfl
@[simp] theorem orE_false (b : Except Fault Bool) : orE (.ok false) b = b := rfl

/-- Go `*p` / `p.f` on a pointer: nil dereference panics. -/
def deref {α : Type} (p : Option α) : Except Fault α :=
  match p with
  | some v => .ok v
  | none => .error .nilDeref

@[simp] theorem deref_some {α : Type} (v : α) : deref (some v) = .ok v := rfl
@[simp] theorem deref_none {α : Type} : deref (none : Option α) = .error .nilDeref := rfl

/-- Go `s[i]` on a `[]string`. -/
def atL (s : List Bytes) (i : Int) : Except Fault Bytes :=
  if 0 ≤ i ∧ i < s.length then
    match s[i.toNat]? with
    | some b => .ok b
    | none => .error .indexOutOfRange
  else .error .indexOutOfRange

/-- Go `s[lo:hi]` on a `[]string` (capacity not modelled). -/
def sliceL (s : List Bytes) (lo hi : Int) : Except Fault (List Bytes) :=
  if 0 ≤ lo ∧ lo ≤ hi ∧ hi ≤ s.length then .ok ((s.drop lo.toNat).take (hi - lo).toNat)
  else .error .sliceBounds

/-- Go `s[i] = v` on a `[]byte`. -/
def setI (s : Bytes) (i : Int) (v : Byte) : Except Fault Bytes :=
  if 0 ≤ i ∧ i < s.length then .ok (s.set i.toNat v) else .error .indexOutOfRange

/-! ### Slices of any element type (`[]CMode`, …): checked index, slice, element assignment, `make`, `copy` -/

/-- Go `s[i]` on a slice. -/
def atA {α : Type} (s : List α) (i : Int) : Except Fault α :=
  if 0 ≤ i ∧ i < s.length then
    match s[i.toNat]? with
    | some b => .ok b
    | none => .error .indexOutOfRange
  else .error .indexOutOfRange

/-- Go `s[lo:hi]` on a slice (capacity not modelled). -/
def sliceA {α : Type} (s : List α) (lo hi : Int) : Except Fault (List α) :=
  if 0 ≤ lo ∧ lo ≤ hi ∧ hi ≤ s.length then .ok ((s.drop lo.toNat).take (hi - lo).toNat)
  else .error .sliceBounds

/-- Go `s[i] = v` on a slice. -/
def setA {α : Type} (s : List α) (i : Int) (v : α) : Except Fault (List α) :=
  if 0 ≤ i ∧ i < s.length then .ok (s.set i.toNat v) else .error .indexOutOfRange

/-- Go `make([]T, n)`: `n` zero values; a negative length panics. -/
def makeA {α : Type} (zero : α) (n : Int) : Except Fault (List α) :=
  if 0 ≤ n then .ok (List.replicate n.toNat zero) else .error .sliceBounds

/-- Go `make([]T, n, c)`: `n` zero values; the capacity is not modelled, its run-time check `0 ≤ n ≤ c` is. -/
def makeCapA {α : Type} (zero : α) (n c : Int) : Except Fault (List α) :=
  if 0 ≤ n ∧ n ≤ c then .ok (List.replicate n.toNat zero) else .error .sliceBounds

/-- Go `p[lo:hi]` on a slice PARAMETER whose capacity is modelled (the translated function calls `cap(p)`): `spare` are
    the elements of the backing array between `len(p)` and `cap(p)` (arbitrary contents — the theorems quantify over
    them), so a reslice may extend up to `len p + len spare`. -/
def sliceCapA {α : Type} (s spare : List α) (lo hi : Int) : Except Fault (List α) :=
  if 0 ≤ lo ∧ lo ≤ hi ∧ hi ≤ (s.length + spare.length : Nat) then .ok (((s ++ spare).drop lo.toNat).take (hi - lo).toNat)
  else .error .sliceBounds

/-- `x == nil` for a slice.  Nil-ness of slices is NOT modelled (nil and the empty slice are both `[]`): the empty slice
    is taken to be nil.  The translator admits the test only as `if x != nil { … }` without `else` (TRUSTED: the guarded
    block has the same value-level effect on an empty non-nil slice as being skipped — `make([]T, 0)` + `copy` of nothing
    in `(*Event).Copy`). -/
def sliceIsNil {α : Type} (s : List α) : Bool := s.isEmpty

/-- Go `copy(dst, src)` (the statement form; the count is discarded): the first `min(len dst, len src)` elements of
    `dst` are overwritten.  `dst` and `src` do not overlap (values). -/
def copyA {α : Type} (dst src : List α) : List α :=
  src.take dst.length ++ dst.drop (src.take dst.length).length

/-- `strings.SplitN(s, sep, n)` for a ONE-byte separator and `n > 0`: at most `n` pieces, the last one is the
    unsplit remainder. -/
def splitNOn (b : Byte) : Nat → Bytes → List Bytes
  | 0, _ => []
  | 1, s => [s]
  | n + 2, s =>
    match indexOf b s with
    | none => [s]
    | some i => s.take i :: splitNOn b (n + 1) (s.drop (i + 1))

def splitN (s sep : Bytes) (n : Int) : Except Fault (List Bytes) :=
  match sep with
  | [b] => if 0 < n then .ok (splitNOn b n.toNat s)
           else .error (.unsupported "strings.SplitN: n ≤ 0")
  | _ => .error (.unsupported "strings.SplitN: separator is not one byte")

/-- Go integer division `a / b`: truncates towards zero; division by zero panics. -/
def divI (a b : Int) : Except Fault Int :=
  if b = 0 then .error (.unsupported "integer division by zero") else .ok (Int.tdiv a b)

/-- Go `string(b)` for a `byte` b: the UTF-8 encoding of the code point U+00bb (one byte below 0x80,
    two bytes from 0x80 on). -/
def strOfByte (b : Byte) : Bytes :=
  if b < 0x80 then [b] else [(0xC0 : UInt8) ||| (b >>> 6), (0x80 : UInt8) ||| (b &&& 0x3F)]

/-- `strings.Index(s, sub)`: byte index of the leftmost occurrence of `sub` in `s`, -1 if none;
    `strings.Index(s, "") = 0`. -/
def indexI (s sub : Bytes) : Int :=
  match findSub sub s with
  | none => -1
  | some n => n

/-- `strings.Contains(s, sub)` = `strings.Index(s, sub) >= 0`. -/
def containsSub (s sub : Bytes) : Bool := (findSub sub s).isSome

/-- `strings.HasPrefix(s, p)`. -/
def hasPrefix (s p : Bytes) : Bool := p.isPrefixOf s

/-- `strings.HasSuffix(s, p)`. -/
def hasSuffix (s p : Bytes) : Bool := isSuffixOfB p s

/-- `strings.Split(s, sep)`.  Modelled for a ONE-byte separator only (all the call sites in the
    translated functions): the pieces between the separators, always at least one piece.  Any other
    separator (in particular the empty one, which splits into UTF-8 sequences) is outside the model. -/
def split (s sep : Bytes) : Except Fault (List Bytes) :=
  match sep with
  | [b] => .ok (splitOnByte b s)
  | _ => .error (.unsupported "strings.Split: separator is not one byte")

@[simp] theorem split_one (s : Bytes) (b : Byte) : split s [b] = .ok (splitOnByte b s) := rfl

/-- `strings.NewReplacer(old₁, new₁, old₂, new₂, …).Replace(s)` for NON-EMPTY old strings: scanning left to
    right, at each position the first pair (in argument order) whose old string is a prefix of the
    remaining input is applied and the scan continues after it (matches do not overlap); otherwise one
    byte is copied.  (The translator refuses a replacer that has an empty old string.) -/
def replacerFuel (pairs : List (Bytes × Bytes)) : Nat → Bytes → Bytes
  | 0, _ => []
  | _ + 1, [] => []
  | n + 1, b :: rest =>
    match pairs.find? (fun p => p.1.isPrefixOf (b :: rest)) with
    | some p => p.2 ++ replacerFuel pairs n ((b :: rest).drop p.1.length)
    | none => b :: replacerFuel pairs n rest

def replacer (pairs : List (Bytes × Bytes)) (s : Bytes) : Bytes := replacerFuel pairs (s.length + 1) s

/-- A non-nil Go `error` VALUE.  Only nil-ness is modelled (`error` ↦ `Option GoErr`, `nil` ↦ `none`); the message
    text (`fmt.Errorf(…)`) is abstracted away. -/
inductive GoErr where
  | mk
  deriving DecidableEq, Repr

/-- `errors.New(msg)`: a non-nil error; the (already evaluated) message text is abstracted away. -/
def errOf (_msg : Bytes) : Option GoErr := some GoErr.mk

/-- `sort.Strings(x)`: `x` sorted increasingly by Go's string `<` (byte-wise lexicographic, `bytesLt`).
    TRUSTED table entry: the library sorts in place into the unique ascending arrangement; the model is
    insertion sort (`sortBytes`, Girc/Base/Bytes.lean). -/
def sortStrings (l : List Bytes) : List Bytes := sortBytes l

/-- The keys a `for k := range m` visits, in the order of the association list that represents the map.
    Go's order is unspecified: every permutation of the list represents the same map, and the theorems about a
    function that ranges over a map hold for every representation. -/
def mapKeys (t : Option Tags) : List Bytes :=
  match t with
  | none => []
  | some m => AMap.keys m

/-- `strings.ReplaceAll(s, old, new)` for a NON-EMPTY `old`: leftmost, non-overlapping occurrences, scanning left to
    right.  (An empty `old` matches before every UTF-8 sequence — outside the model, reported as `.unsupported`.) -/
def replaceAllFuel (old new : Bytes) : Nat → Bytes → Bytes
  | 0, s => s
  | _ + 1, [] => []
  | n + 1, b :: rest =>
    if old.isPrefixOf (b :: rest) then new ++ replaceAllFuel old new n ((b :: rest).drop old.length)
    else b :: replaceAllFuel old new n rest

def replaceAll (s old new : Bytes) : Except Fault Bytes :=
  if old.isEmpty then .error (.unsupported "strings.ReplaceAll: empty old string")
  else .ok (replaceAllFuel old new (s.length + 1) s)

/-- Look-ups in a package-level map literal (`var X = map[string]T{…}`, emitted as a table with unique keys):
    `_, ok := X[k]`, `X[k]` for `T = string` and `T = int` (a missing key reads as the zero value). -/
def pmHas {β : Type} (m : List (Bytes × β)) (k : Bytes) : Bool := (m.lookup k).isSome
def pmGetS (m : List (Bytes × Bytes)) (k : Bytes) : Bytes := (m.lookup k).getD []
def pmGetI (m : List (Bytes × Int)) (k : Bytes) : Int := (m.lookup k).getD 0

/-- The decimal digits of a natural number. -/
def natDigits (n : Nat) : Bytes := (Nat.toDigits 10 n).map (fun c => UInt8.ofNat c.toNat)

/-- `fmt.Sprintf("%02d", i)`: decimal, zero-padded to width 2 (a minus sign counts towards the width, so a negative
    number is never padded). -/
def fmtD2 (i : Int) : Bytes :=
  if i < 0 then 0x2D :: natDigits i.natAbs
  else if i < 10 then 0x30 :: natDigits i.toNat
  else natDigits i.toNat

/-- Go `len(m)` on a map (the association list has unique keys). -/
def mapLen (t : Option Tags) : Int :=
  match t with
  | none => 0
  | some m => m.length

/-- Go `m[k]` (a nil map reads as empty; a missing key reads as ""). -/
def mapGet (t : Option Tags) (k : Bytes) : Bytes :=
  match t with
  | none => []
  | some m => (AMap.get? m k).getD []

/-- Go `_, ok := m[k]`. -/
def mapHas (t : Option Tags) (k : Bytes) : Bool :=
  match t with
  | none => false
  | some m => AMap.contains m k

/-- Go `m[k] = v`: panics on a nil map. -/
def mapSet (t : Option Tags) (k v : Bytes) : Except Fault (Option Tags) :=
  match t with
  | none => .error .nilMap
  | some m => .ok (some (AMap.set m k v))

@[simp] theorem mapSet_some (m : Tags) (k v : Bytes) : mapSet (some m) k v = .ok (some (AMap.set m k v)) := rfl

/-- Go `delete(m, k)`: a no-op on a nil map and on a missing key. -/
def mapDelete (t : Option Tags) (k : Bytes) : Option Tags :=
  match t with
  | none => none
  | some m => some (AMap.erase m k)

/-- `time.Since(t)` read when the clock shows `now`: `now.Sub(t)`, which SATURATES at the `time.Duration` limits
    (int64 nanoseconds).  TRUSTED table entry (one integer clock, as for `time.Now()`/`Sub`). -/
def timeSince (now t : Int) : Int :=
  let d := now - t
  if d > 9223372036854775807 then 9223372036854775807 else if d < -9223372036854775808 then -9223372036854775808 else d

/-- `int(d.Seconds())` for a `time.Duration` d: whole seconds, truncated towards zero.  TRUSTED: `Seconds()` is a float64
    (`float64(d/1e9) + float64(d%1e9)/1e9`); the model is the exact quotient, which agrees with Go whenever the whole-second
    count is below 2^23 (see Model/StsTime.lean for the rounding note). -/
def durWholeSeconds (d : Int) : Int := Int.tdiv d 1000000000

/-- Go `m[k]` on a `map[string]map[string]string` (nil outer map / missing key read as the nil inner map). -/
def mapGet2 (t : Option (AMap (Option Tags))) (k : Bytes) : Option Tags :=
  match t with
  | none => none
  | some m => (AMap.get? m k).getD none

/-- Go `m[k] = v` on a `map[string]map[string]string`: panics on a nil map. -/
def mapSet2 (t : Option (AMap (Option Tags))) (k : Bytes) (v : Option Tags) : Except Fault (Option (AMap (Option Tags))) :=
  match t with
  | none => .error .nilMap
  | some m => .ok (some (AMap.set m k v))

/-- Fuel for a loop `for …; i < n; …`: the distance plus one. -/
def fuelTo (i n : Int) : Nat := (n - i).toNat + 1

end Girc.Go
