package main

import "reflect"

// JSON cannot carry arbitrary bytes: strings are mapped byte->rune (latin-1) before marshalling and back after.
func toRunes(s string) string {
	r := make([]rune, len(s))
	for i := 0; i < len(s); i++ {
		r[i] = rune(s[i])
	}
	return string(r)
}

func fromRunes(s string) string {
	b := make([]byte, 0, len(s))
	for _, r := range s {
		b = append(b, byte(r))
	}
	return string(b)
}

func mapStrings(v reflect.Value, f func(string) string) {
	switch v.Kind() {
	case reflect.Ptr, reflect.Interface:
		if !v.IsNil() {
			mapStrings(v.Elem(), f)
		}
	case reflect.String:
		if v.CanSet() {
			v.SetString(f(v.String()))
		}
	case reflect.Struct:
		for i := 0; i < v.NumField(); i++ {
			mapStrings(v.Field(i), f)
		}
	case reflect.Slice:
		for i := 0; i < v.Len(); i++ {
			mapStrings(v.Index(i), f)
		}
	case reflect.Map:
		if v.IsNil() {
			return
		}
		nm := reflect.MakeMap(v.Type())
		it := v.MapRange()
		for it.Next() {
			k := reflect.New(v.Type().Key()).Elem()
			k.Set(it.Key())
			mapStrings(k, f)
			val := reflect.New(v.Type().Elem()).Elem()
			val.Set(it.Value())
			mapStrings(val, f)
			nm.SetMapIndex(k, val)
		}
		if v.CanSet() {
			v.Set(nm)
		}
	}
}
