import Girc.Model.Lifecycle
/-
  C07 helper lemmas: termination part (no reachability needed).
-/
namespace Girc.Proofs.Life
open Girc Girc.Model.Life

@[simp] theorem mainRank_teardown (r : Option Err) : mainRank (.teardown r) = 4 := by
  cases r <;> rfl

@[simp] theorem mainRank_waiting : mainRank .waiting = 6 := rfl
@[simp] theorem mainRank_closedEv : mainRank .closedEv = 5 := rfl
@[simp] theorem mainRank_discEv (r : Option Err) : mainRank (.discEv r) = 3 := rfl
@[simp] theorem mainRank_finish (r : Option Err) : mainRank (.finish r) = 2 := rfl
@[simp] theorem mainRank_returned (r : Option Err) : mainRank (.returned r) = 0 := rfl

theorem cancelled_stays' (s s' : LState) (a : Act) (hs : step s a = some s') (hc : s.groupCancelled = true) :
    s'.groupCancelled = true := by
  cases a <;> simp only [step] at hs <;> (repeat' split at hs) <;>
    first
      | (cases hs; done)
      | (cases hs; simp_all [LState.fail]; done)

theorem lib_decreases' (s s' : LState) (a : Act) (hc : s.groupCancelled = true) (ha : a.isLib = true)
    (hs : step s a = some s') : measure s' < measure s := by
  cases a
  case userClose => simp [Act.isLib] at ha
  case userQuit => simp [Act.isLib] at ha
  case userSend => simp [Act.isLib] at ha
  case peerSend => simp [Act.isLib] at ha
  case peerClose => simp [Act.isLib] at ha
  all_goals
    simp only [step] at hs
    (repeat' split at hs)
    all_goals first
      | (cases hs; done)
      | (cases hs
         simp_all [Girc.Model.Life.measure, loopRank, LState.fail]
         try (repeat' split) <;> omega)

theorem causes_cancel' (s s' : LState) :
    (step s .userClose = some s' → s'.groupCancelled = true) ∧
    (step s .readEOF = some s' → s'.groupCancelled = true) ∧
    (step s .readParseErr = some s' → s'.groupCancelled = true) ∧
    (step s .pingTimeout = some s' → s'.groupCancelled = true) ∧
    (step s .execTake = some s' → (∃ e rest, s.rx = e :: rest ∧ e.isError = true) → s'.groupCancelled = true) ∧
    (step s .sendTake = some s' → (∃ rest, s.tx = .quit :: rest) → s'.groupCancelled = true) ∧
    (step s .sendFail = some s' → s'.groupCancelled = true) := by
  refine ⟨?_, ?_, ?_, ?_, ?_, ?_, ?_⟩
  all_goals
    intro hs
    simp only [step] at hs
    (repeat' split at hs)
    all_goals first
      | (cases hs; done)
      | (cases hs; simp_all [LState.fail]; done)
      | (cases hs; rintro ⟨e, rest, h1, h2⟩; simp_all [LState.fail]; done)
      | (cases hs; rintro ⟨rest, h1⟩; simp_all [LState.fail]; done)

theorem lib_enabled' (s : LState) (hc : s.groupCancelled = true) (hm : ∀ r, s.main ≠ .returned r) :
    ∃ a, a.isLib = true ∧ (step s a).isSome = true := by
  cases hmain : s.main with
  | waiting =>
    cases hread : s.read with
    | running => exact ⟨.readCancel, rfl, by simp [step, hread, hc]⟩
    | exited r1 =>
    cases hexec : s.exec with
    | running =>
      refine ⟨.execFlush, rfl, ?_⟩
      simp only [step, hexec, hc, if_true]
      split <;> simp
    | exited r2 =>
    cases hsend : s.send with
    | running => exact ⟨.sendCancel, rfl, by simp [step, hsend, hc]⟩
    | exited r3 =>
    cases hping : s.ping with
    | running =>
      -- pings enabled: the `<-ctx.Done()` arm; pings disabled: the early `return nil`
      cases hoff : s.pingOff with
      | false => exact ⟨.pingCancel, rfl, by simp [step, hping, hc, hoff]⟩
      | true => exact ⟨.pingDisabled, rfl, by simp [step, hping, hoff]⟩
    | exited r4 =>
      exact ⟨.mainWait, rfl, by simp [step, hmain, hread, hexec, hsend, hping, Loop.done]⟩
  | closedEv => exact ⟨.mainClosedEv, rfl, by simp [step, hmain]⟩
  | teardown r => exact ⟨.mainTeardown, rfl, by simp [step, hmain]⟩
  | discEv r => exact ⟨.mainDisc, rfl, by simp [step, hmain]⟩
  | finish r => exact ⟨.mainFinish, rfl, by simp [step, hmain]⟩
  | returned r => exact absurd hmain (hm r)

/-- With pings disabled the ping loop's exit touches nothing but the loop's own status: no error is
    recorded, nothing is cancelled, no other thread moves. -/
theorem ping_off_does_not_end' (s s' : LState) (hs : step s .pingDisabled = some s') :
    s'.groupCancelled = s.groupCancelled ∧ s'.groupErr = s.groupErr ∧ s'.parentCancelled = s.parentCancelled ∧
    s'.main = s.main ∧ s'.exec = s.exec ∧ s'.read = s.read ∧ s'.send = s.send := by
  simp only [step] at hs
  (repeat' split at hs) <;> cases hs
  exact ⟨rfl, rfl, rfl, rfl, rfl, rfl, rfl⟩

/-- … and it is possible exactly when pings are disabled and the loop has not returned yet. -/
theorem pingDisabled_enabled_iff (s : LState) :
    (step s .pingDisabled).isSome = true ↔ (s.pingOff = true ∧ s.ping = .running) := by
  simp only [step]
  cases hp : s.ping <;> cases ho : s.pingOff <;> simp

/-- A ping timeout is impossible with pings disabled. -/
theorem pingTimeout_needs_pings (s : LState) (ho : s.pingOff = true) : step s .pingTimeout = none := by
  simp only [step]
  cases hp : s.ping <;> simp [ho]

/-- The configuration is never changed by a step. -/
theorem config_fixed (s s' : LState) (a : Act) (hs : step s a = some s') :
    s'.pingOff = s.pingOff ∧ s'.cap = s.cap := by
  cases a <;> simp only [step] at hs <;> (repeat' split at hs) <;>
    first
      | (cases hs; done)
      | (cases hs; simp [LState.fail]; done)

theorem bounded_termination' (s s' : LState) (acts : List Act) (hc : s.groupCancelled = true)
    (hl : ∀ a ∈ acts, a.isLib = true) (hr : run s acts = some s') :
    acts.length + Girc.Model.Life.measure s' ≤ Girc.Model.Life.measure s := by
  induction acts generalizing s with
  | nil => simp [run] at hr; subst hr; simp
  | cons a rest ih =>
    simp only [run] at hr
    split at hr
    · rename_i s1 hs1
      have h1 := lib_decreases' s s1 a hc (hl a (by simp)) hs1
      have h2 := cancelled_stays' s s1 a hs1 hc
      have h3 := ih s1 h2 (fun b hb => hl b (by simp [hb])) hr
      simp only [List.length_cons]
      omega
    · cases hr

theorem run_cancelled (s s' : LState) (acts : List Act) (hc : s.groupCancelled = true)
    (hr : run s acts = some s') : s'.groupCancelled = true := by
  induction acts generalizing s with
  | nil => simp [run] at hr; subst hr; exact hc
  | cons a rest ih =>
    simp only [run] at hr
    split at hr
    · rename_i s1 hs1
      exact ih s1 (cancelled_stays' s s1 a hs1 hc) hr
    · cases hr

theorem maximal_run_returns' (s s' : LState) (acts : List Act) (hc : s.groupCancelled = true)
    (hr : run s acts = some s')
    (hmax : ∀ a, a.isLib = true → step s' a = none) : ∃ r, s'.main = .returned r := by
  have hc' := run_cancelled s s' acts hc hr
  apply Classical.byContradiction
  intro hn
  have hm : ∀ r, s'.main ≠ .returned r := fun r h => hn ⟨r, h⟩
  obtain ⟨a, ha, hsome⟩ := lib_enabled' s' hc' hm
  rw [hmax a ha] at hsome
  simp at hsome

end Girc.Proofs.Life
