import Girc.Proofs.ProtocolB
import Girc.Gen.Facts
/- C08 — capability negotiation is safe, complete and always concludes. Property theorems only. -/
namespace Girc.Props.C08
open Girc Girc.Model Girc.Spec Girc.Proofs.ProtocolB

/-- Tie: the built-in capability table regenerated from cap.go is the model's. -/
theorem gen_builtin_caps : Gen.map_possibleCap = builtinCaps := by decide

/-- What the client could ever request: the built-ins, the configured extras, sasl iff SASL is
    configured, sts iff STS is enabled on a plaintext configuration (and did not just fail). -/
theorem possible_exact (cfg : Cfg) (k : Bytes) :
    AMap.contains (possibleCaps cfg) k = true ↔
      (k ∈ builtinCaps ∨ k ∈ AMap.keys cfg.supportedCaps ∨ (k = sSasl ∧ cfg.sasl.isSome) ∨
       (k = sSts ∧ cfg.disableSTS = false ∧ cfg.ssl = false ∧ ¬(cfg.stsRecentlyFailed = true ∧ cfg.disableSTSFallback = false))) :=
  Proofs.ProtocolB.possible_exact cfg k

theorem capinv_step (cfg : Cfg) (adv : List Bytes) (st : St) (e : Event) (h : CapInv cfg adv st) :
    CapInv cfg (adv ++ advertisedBy e) (handleCAP cfg st e).1 :=
  Proofs.ProtocolB.capinv_step cfg adv st e h

/-- Every CAP REQ the client writes lists exactly the pending capabilities (after this event). -/
theorem req_is_pending (cfg : Cfg) (st : St) (e : Event) (x : Bytes) :
    Out.write { command := cCAP, params := [cREQ, x] } ∈ (handleCAP cfg st e).2 →
      x = joinWith [SP] (sortBytes (AMap.keys (handleCAP cfg st e).1.tmpCap)) ∧ (handleCAP cfg st e).1.tmpCap ≠ [] :=
  Proofs.ProtocolB.req_is_pending cfg st e x

/-- A continuation line (`CAP * LS * :caps`, 4 parameters) produces no output. -/
theorem ls_continuation_silent (cfg : Cfg) (st : St) (e : Event) (a b c d : Bytes)
    (hp : e.params = [a, b, c, d]) (hls : b = cLS ∨ b = cNEW) : (handleCAP cfg st e).2 = [] :=
  Proofs.ProtocolB.ls_continuation_silent cfg st e a b c d hp hls

/-- The final LS line concludes the round with exactly one REQ or exactly one END. -/
theorem ls_final_concludes (cfg : Cfg) (st : St) (e : Event) (a b c : Bytes)
    (hp : e.params = [a, b, c]) (hls : b = cLS ∨ b = cNEW) :
    (handleCAP cfg st e).2 = [Out.write capEnd] ∨
    ∃ x, (handleCAP cfg st e).2 = [Out.write { command := cCAP, params := [cREQ, x] }] :=
  Proofs.ProtocolB.ls_final_concludes cfg st e a b c hp hls

theorem nak_concludes (cfg : Cfg) (st : St) (e : Event) (a b : Bytes) (rest : List Bytes)
    (hp : e.params = a :: b :: rest) (hn : b = cNAK) : (handleCAP cfg st e).2 = [Out.write capEnd] :=
  Proofs.ProtocolB.nak_concludes cfg st e a b rest hp hn

/-- An ACK yields exactly one of: CAP END, the start of authentication, an STS abort, an STS upgrade. -/
theorem ack_concludes (cfg : Cfg) (st : St) (e : Event) (a b c : Bytes)
    (hp : e.params = [a, b, c]) (hack : b = cACK) :
    (handleCAP cfg st e).2 = [Out.write capEnd] ∨
    (∃ m, cfg.sasl = some m ∧ (handleCAP cfg st e).2 = [Out.write { command := cAUTHENTICATE, params := [m.method] }]) ∨
    (handleCAP cfg st e).2 = [Out.inject { command := cERROR, params := [sStsInvalid] }] ∨
    (handleCAP cfg st e).2 = [Out.close] :=
  Proofs.ProtocolB.ack_concludes cfg st e a b c hp hack

/-- The enabled set changes only by ACK (adds) and DEL (removes). -/
theorem enabled_transitions (cfg : Cfg) (st : St) (e : Event) :
    (handleCAP cfg st e).1.enabledCap =
      (if e.params.length ≥ 2 && e.params[1]? = some cDEL then
         (parseCap e.last).foldl (fun en p => AMap.erase en p.1) st.enabledCap
       else if e.params.length = 3 && e.params[1]? = some cACK then
         capAck st.tmpCap st.enabledCap (splitOnByte SP e.last)
       else st.enabledCap) :=
  Proofs.ProtocolB.enabled_transitions cfg st e

/-- Tags reach the wire only while message-tags is enabled: without it the wire form of an event
    is byte for byte that of the same event without tags. -/
theorem tags_only_with_message_tags (st : St) (e : Event) (h : AMap.contains st.enabledCap sMessageTags = false) :
    wireEvent st e = eventBytes { e with tags := none } :=
  Proofs.ProtocolB.tags_only_with_message_tags st e h

/-- … and with it enabled the event is written as it is. -/
theorem tags_kept_with_message_tags (st : St) (e : Event) (h : AMap.contains st.enabledCap sMessageTags = true) :
    wireEvent st e = eventBytes e :=
  Proofs.ProtocolB.tags_kept_with_message_tags st e h

/-- With tracking disabled no CAP line is ever written. -/
theorem tracking_disabled_no_cap (cfg : Cfg) (cs : CState) (e : Event) (time idle : Bytes) (cs' : CState) (outs : List Out)
    (hd : cfg.disableTracking = true) (h : handleEvent cfg cs e time idle = .ok (cs', outs)) :
    ∀ o ∈ outs, ∀ ev, (o = Out.write ev ∨ o = Out.send ev) → ev.command ≠ cCAP ∧ ev.command ≠ cAUTHENTICATE :=
  Proofs.ProtocolB.tracking_disabled_no_cap cfg cs e time idle cs' outs hd h

end Girc.Props.C08
