import Girc.Spec.SplitSpec
import Girc.Proofs.SplitUtf8
/-
  The word list of the splitter: where the bytes of the words come from.
-/
namespace Girc.Proofs.SplitWords
open Girc Girc.Model Girc.Spec Girc.Proofs.Utf8 Girc.Proofs.RoundtripUtf8 Girc.Proofs.SplitUtf8

/-! ### Trimming: a suffix of a prefix -/

theorem trimLeftSpace_eq_drop : ∀ (n : Nat) (s : Bytes), ∃ k, trimLeftSpace n s = s.drop k
  | 0, s => ⟨0, rfl⟩
  | n + 1, s => by
    simp only [trimLeftSpace]
    split
    · exact ⟨0, rfl⟩
    · obtain ⟨k, hk⟩ := trimLeftSpace_eq_drop n (s.drop (spaceRuneLen s))
      exact ⟨spaceRuneLen s + k, by rw [hk, List.drop_drop]⟩

theorem trimRightSpace_eq_take : ∀ (n : Nat) (s : Bytes), ∃ k, trimRightSpace n s = s.take k
  | 0, s => ⟨s.length, by simp [trimRightSpace]⟩
  | n + 1, s => by
    simp only [trimRightSpace]
    split
    · exact ⟨s.length, by simp⟩
    · obtain ⟨k, hk⟩ := trimRightSpace_eq_take n (s.take (s.length - spaceRuneLenEnd s))
      exact ⟨min k (s.length - spaceRuneLenEnd s), by rw [hk, List.take_take]⟩

theorem mem_trimSpace (s : Bytes) : ∀ b ∈ trimSpace s, b ∈ s := by
  intro b hb
  unfold trimSpace at hb
  obtain ⟨k, hk⟩ := trimRightSpace_eq_take s.length (trimLeftSpace s.length s)
  obtain ⟨j, hj⟩ := trimLeftSpace_eq_drop s.length s
  rw [hk, hj] at hb
  exact List.mem_of_mem_drop (List.mem_of_mem_take hb)

theorem length_trimSpace_le (s : Bytes) : (trimSpace s).length ≤ s.length := by
  unfold trimSpace
  obtain ⟨k, hk⟩ := trimRightSpace_eq_take s.length (trimLeftSpace s.length s)
  obtain ⟨j, hj⟩ := trimLeftSpace_eq_drop s.length s
  rw [hk, hj]
  simp only [List.length_take, List.length_drop]
  omega

/-! ### Bytes of the words -/

theorem mem_splitWordsAux : ∀ (s : Bytes) (skip : Nat) (cur : Bytes),
    ∀ wd ∈ splitWordsAux s skip cur, ∀ b ∈ wd, b ∈ s ∨ b ∈ cur
  | [], _, cur => by
    intro wd hwd b hb
    simp only [splitWordsAux] at hwd
    split at hwd
    · cases hwd
    · simp only [List.mem_singleton] at hwd
      subst hwd
      exact Or.inr (by simpa using hb)
  | x :: rest, skip + 1, cur => by
    intro wd hwd b hb
    simp only [splitWordsAux] at hwd
    rcases mem_splitWordsAux rest skip cur wd hwd b hb with h | h
    · exact Or.inl (List.mem_cons_of_mem _ h)
    · exact Or.inr h
  | x :: rest, 0, cur => by
    intro wd hwd b hb
    simp only [splitWordsAux] at hwd
    split at hwd
    · rcases mem_splitWordsAux rest 0 (x :: cur) wd hwd b hb with h | h
      · exact Or.inl (List.mem_cons_of_mem _ h)
      · rcases List.mem_cons.mp h with h | h
        · exact Or.inl (by simp [h])
        · exact Or.inr h
    · rcases List.mem_append.mp hwd with hwd | hwd
      · split at hwd
        · cases hwd
        · simp only [List.mem_singleton] at hwd
          subst hwd
          exact Or.inr (by simpa using hb)
      · rcases mem_splitWordsAux rest _ [] wd hwd b hb with h | h
        · exact Or.inl (List.mem_cons_of_mem _ h)
        · cases h

theorem mem_splitWords (s : Bytes) : ∀ wd ∈ splitWords s, ∀ b ∈ wd, b ∈ s := by
  intro wd hwd b hb
  rcases mem_splitWordsAux s 0 [] wd hwd b hb with h | h
  · exact h
  · cases h

theorem mem_expandNewlines : ∀ (fuel : Nat) (ws : List Bytes),
    ∀ wd ∈ expandNewlines fuel ws, ∀ b ∈ wd, ∃ w' ∈ ws, b ∈ w'
  | 0, ws => fun wd hwd b hb => ⟨wd, by simpa [expandNewlines] using hwd, hb⟩
  | _ + 1, [] => fun wd hwd => by simp [expandNewlines] at hwd
  | fuel + 1, w :: rest => by
    intro wd hwd b hb
    simp only [expandNewlines] at hwd
    split at hwd
    · rcases List.mem_cons.mp hwd with rfl | hwd
      · exact ⟨w, by simp, (List.takeWhile_sublist _).subset hb⟩
      · rcases List.mem_cons.mp hwd with rfl | hwd
        · cases hb
        · obtain ⟨w', hw', hbw⟩ := mem_expandNewlines fuel _ wd hwd b hb
          rcases List.mem_cons.mp hw' with rfl | hw'
          · exact ⟨w, by simp, (List.dropWhile_sublist _).subset ((List.dropWhile_sublist _).subset hbw)⟩
          · exact ⟨w', by simp [hw'], hbw⟩
    · rcases List.mem_cons.mp hwd with rfl | hwd
      · exact ⟨wd, by simp, hb⟩
      · obtain ⟨w', hw', hbw⟩ := mem_expandNewlines fuel _ wd hwd b hb
        exact ⟨w', by simp [hw'], hbw⟩

/-- Every byte of every word the splitter packs comes from the text, or is the '?' of the sanitiser. -/
theorem mem_words (t : Bytes) (fuel : Nat) :
    ∀ wd ∈ expandNewlines fuel (splitWords (trimSpace (toValidUTF8 [0x3F] t))), ∀ b ∈ wd, b ∈ t ∨ b = 0x3F := by
  intro wd hwd b hb
  obtain ⟨w', hw', hbw⟩ := mem_expandNewlines _ _ wd hwd b hb
  exact mem_toValidUTF8 _ _ _ (mem_trimSpace _ _ (mem_splitWords _ w' hw' b hbw))

theorem words_plain (t : Bytes) (hp : plainText t = true) (fuel : Nat) :
    ∀ wd ∈ expandNewlines fuel (splitWords (trimSpace (toValidUTF8 [0x3F] t))), hasCodeByte wd = false := by
  intro wd hwd
  cases h : hasCodeByte wd with
  | false => rfl
  | true =>
    obtain ⟨b, hb, hc⟩ := List.any_eq_true.mp h
    rcases mem_words t fuel wd hwd b hb with hm | rfl
    · have : hasCodeByte t = true := List.any_eq_true.mpr ⟨b, hm, hc⟩
      simp [plainText, this] at hp
    · revert hc; decide

end Girc.Proofs.SplitWords
