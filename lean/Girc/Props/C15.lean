import Girc.Model.Names
import Girc.Spec.NameSpec
import Girc.Gen.Facts
import Girc.Model.State
/-
  C15 — validators match their grammar; identity is RFC 1459 case-insensitive.
  (The name-keyed lookups are proved in Props/C15Lookup.lean over the state model.)
-/
namespace Girc.Props.C15
open Girc Girc.Model

/-! ### Byte classes: the Go conditions equal the documented ranges, for all 256 bytes. -/
theorem nickFirst_eq : ∀ b : Byte, Model.nickFirst b = Spec.nickFirst b := by decide +kernel
theorem nickRest_eq : ∀ b : Byte, Model.nickRest b = Spec.nickRest b := by decide +kernel
theorem userFirst_eq : ∀ b : Byte, Model.userFirst b = Spec.userFirst b := by decide +kernel
theorem userRest_eq : ∀ b : Byte, Model.userRest b = Spec.userRest b := by decide +kernel
theorem chanPrefix_eq : ∀ b : Byte, Model.chanPrefix b = Spec.chanPrefix b := by decide +kernel
theorem chanIdByte_eq : ∀ b : Byte, Model.chanIdByte b = Spec.isUpperOrDigit b := by decide +kernel
theorem chanBad_eq : ∀ b : Byte, Model.chanBad b = Spec.chanBad b := by decide +kernel
theorem fold1_eq : ∀ b : Byte, Model.fold1 b = Spec.fold1 b := by decide +kernel

/-! ### Tie to the source: the if-conditions regenerated from format.go on this run are
    the (negated) model classes, for all 256 bytes; the byte lists are the spec's sets. -/
theorem gen_nick_first : ∀ b : Byte, Gen.IsValidNick_bp0 b = !Model.nickFirst b := by decide +kernel
theorem gen_nick_rest : ∀ b : Byte, Gen.IsValidNick_bp1 b = !Model.nickRest b := by decide +kernel
theorem gen_nick_count : Gen.IsValidNick_bpCount = 2 := by decide
theorem gen_user_tilde : ∀ b : Byte, Gen.IsValidUser_bp0 b = (b == 0x7E) := by decide +kernel
theorem gen_user_first : ∀ b : Byte, Gen.IsValidUser_bp1 b = !Model.userFirst b := by decide +kernel
theorem gen_user_rest : ∀ b : Byte, Gen.IsValidUser_bp2 b = !Model.userRest b := by decide +kernel
theorem gen_user_count : Gen.IsValidUser_bpCount = 3 := by decide
theorem gen_chan_bang : ∀ b : Byte, Gen.IsValidChannel_bp0 b = (b == 0x21) := by decide +kernel
theorem gen_chan_id : ∀ b : Byte, Gen.IsValidChannel_bp1 b = !Model.chanIdByte b := by decide +kernel
theorem gen_chan_count : Gen.IsValidChannel_bpCount = 2 := by decide
theorem gen_chan_prefixes : ∀ b : Byte, Gen.IsValidChannel_bytes0.contains b = Model.chanPrefix b := by
  decide +kernel
theorem gen_chan_bad : ∀ b : Byte, Gen.IsValidChannel_bytes1.contains b = Model.chanBad b := by
  decide +kernel
theorem gen_fold_range : ∀ b : Byte, Gen.ToRFC1459_bp0 b = (Model.fold1 b != b) := by decide +kernel
theorem gen_fold_count : Gen.ToRFC1459_bpCount = 1 := by decide

/-! ### Validators accept exactly the grammar, for all byte strings. -/
theorem isValidNick_iff (s : Bytes) : isValidNick s = true ↔ Spec.ValidNick s := by
  cases s with
  | nil => simp [isValidNick, Spec.ValidNick]
  | cons c rest => simp [isValidNick, Spec.ValidNick, nickFirst_eq, nickRest_eq]

theorem isValidUserBody_iff (s : Bytes) : isValidUserBody s = true ↔ Spec.ValidUserBody s := by
  cases s with
  | nil => simp [isValidUserBody, Spec.ValidUserBody]
  | cons c rest => simp [isValidUserBody, Spec.ValidUserBody, userFirst_eq, userRest_eq]

theorem isValidUser_iff (s : Bytes) : isValidUser s = true ↔ Spec.ValidUser s := by
  unfold Spec.ValidUser
  cases s with
  | nil => simp [isValidUser, Spec.ValidUserBody]
  | cons c rest =>
    by_cases hc : c = 0x7E
    · subst hc
      have hnot : ¬ Spec.ValidUserBody (0x7E :: rest) := by
        simp only [Spec.ValidUserBody]; intro h; exact absurd h.1 (by decide)
      cases rest with
      | nil => simp [isValidUser, Spec.ValidUserBody]; decide
      | cons d r =>
        simp only [isValidUser, if_true, List.length_cons]
        rw [if_neg (by omega), isValidUserBody_iff]
        simp [hnot]
    · simp only [isValidUser, hc, if_false]
      rw [isValidUserBody_iff]
      constructor
      · intro h; exact Or.inl h
      · rintro (h | ⟨t, ht, _⟩)
        · exact h
        · injection ht with h1 _; exact absurd h1 hc

theorem isValidChannel_iff (s : Bytes) : isValidChannel s = true ↔ Spec.ValidChannel s := by
  unfold Spec.ValidChannel isValidChannel
  cases s with
  | nil => simp
  | cons c rest =>
    simp only [List.length_cons, chanPrefix_eq, Bool.and_eq_true, Bool.not_eq_true',
      Bool.or_eq_false_iff, decide_eq_false_iff_not, Bool.and_eq_false_imp, beq_iff_eq,
      Bool.or_eq_false_iff, Bool.not_eq_false', List.any_eq_false, chanBad_eq,
      List.all_eq_true, chanIdByte_eq]
    constructor
    · rintro ⟨⟨h1, h2⟩, ⟨hp, hid⟩, hbad⟩
      refine ⟨by omega, by omega, hp, ?_, ?_⟩
      · intro hc; have := hid hc; exact ⟨by omega, this.2⟩
      · intro b hb; simpa using hbad b hb
    · rintro ⟨h1, h2, hp, hid, hbad⟩
      refine ⟨⟨by omega, by omega⟩, ⟨hp, ?_⟩, ?_⟩
      · intro hc; have := hid hc; exact ⟨by omega, this.2⟩
      · intro b hb; simp [hbad b hb]

/-- The executable deciders used by the driver agree with the grammar predicates. -/
theorem validNickB_iff (s : Bytes) : Spec.validNickB s = true ↔ Spec.ValidNick s := by
  cases s <;> simp [Spec.validNickB, Spec.ValidNick]

/-! ### The fold. -/
theorem fold_bytewise (s : Bytes) : fold s = s.map Spec.fold1 := by
  simp [fold, funext fold1_eq]

theorem fold_length (s : Bytes) : (fold s).length = s.length := by simp [fold]

theorem fold1_idem : ∀ b : Byte, Model.fold1 (Model.fold1 b) = Model.fold1 b := by decide +kernel

theorem fold_idem (s : Bytes) : fold (fold s) = fold s := by
  simp [fold, List.map_map, Function.comp_def, fold1_idem]

/-- The table: exactly A–Z and `[ \ ] ^` move, to a–z and `{ | } ~`; nothing else changes. -/
theorem fold_table : ∀ b : Byte,
    (Model.fold1 b ≠ b ↔ (0x41 ≤ b ∧ b ≤ 0x5E)) ∧
    ((0x41 ≤ b ∧ b ≤ 0x5E) → Model.fold1 b = b + 0x20) := by decide +kernel

theorem fold_append (a b : Bytes) : fold (a ++ b) = fold a ++ fold b := by simp [fold]

/-- Folded names are fixed points (used by every lookup). -/
theorem fold_fixed (s : Bytes) : fold (fold s) = fold s := fold_idem s

/-! ### Every name-keyed query gives the same answer for two names with the same fold -/

theorem lookupUser_respects_fold (st : St) (a b : Bytes) (h : fold a = fold b) : st.lookupUser a = st.lookupUser b := by
  simp [St.lookupUser, h]
theorem lookupChannel_respects_fold (st : St) (a b : Bytes) (h : fold a = fold b) : st.lookupChannel a = st.lookupChannel b := by
  simp [St.lookupChannel, h]
theorem isInChannel_respects_fold (st : St) (a b : Bytes) (h : fold a = fold b) : st.isInChannel a = st.isInChannel b := by
  simp [St.isInChannel, h]
theorem userIn_respects_fold (c : Channel) (a b : Bytes) (h : fold a = fold b) : c.userIn a = c.userIn b := by
  simp [Channel.userIn, h]
theorem inChannel_respects_fold (u : User) (a b : Bytes) (h : fold a = fold b) : u.inChannel a = u.inChannel b := by
  simp [User.inChannel, h]
theorem permsLookup_respects_fold (u : User) (a b : Bytes) (h : fold a = fold b) : u.permsLookup a = u.permsLookup b := by
  simp [User.permsLookup, h]
theorem sourceEquals_respects_fold (s : Source) (a b : Bytes) (i hst : Bytes) (h : fold a = fold b) :
    sourceEquals s ⟨a, i, hst⟩ = sourceEquals s ⟨b, i, hst⟩ := by
  simp [sourceEquals, h]
/-- … and names with DIFFERENT folds are different identities for the comparison. -/
theorem sourceEquals_iff (a b : Source) :
    sourceEquals a b = true ↔ fold a.name = fold b.name ∧ a.ident = b.ident ∧ a.host = b.host := by
  simp [sourceEquals, and_assoc]

/-! ### Non-vacuity -/
example : Spec.ValidNick [0x5B, 0x61, 0x2D, 0x39] := by rw [← isValidNick_iff]; decide
example : Spec.ValidUser [0x7E, 0x61, 0x2E, 0x62] := by rw [← isValidUser_iff]; decide
example : Spec.ValidChannel [0x21, 0x41, 0x42, 0x43, 0x31, 0x32, 0x78] := by
  rw [← isValidChannel_iff]; decide
example : ¬ Spec.ValidChannel [0x21, 0x41, 0x42, 0x63, 0x31, 0x32, 0x78] := by
  rw [← isValidChannel_iff]; decide
example : fold [0x41, 0x5B, 0x5E, 0xE9, 0x5F] = [0x61, 0x7B, 0x7E, 0xE9, 0x5F] := by decide

end Girc.Props.C15
