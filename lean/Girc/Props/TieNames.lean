import Girc.Proofs.TransFormat
/-
  Tie (TieNames): the function bodies regenerated from the Go source on every run (Girc/Gen/Funcs.lean, written by
  tools/extract/translate.go) equal the hand-written models the property theorems of C15 are about, for ALL inputs.
  Only restatements of theorems proved in Girc/Proofs/Trans*.lean, each with a non-vacuity example that evaluates the
  generated function on a literal. An edit of the Go function changes Funcs.lean and the equivalence stops building.
-/
namespace Girc.Props.TieNames
open Girc Girc.Model Girc.Gen

/-! ### format.go -/

theorem tie_ToRFC1459 : ∀ s : Bytes, Fn.ToRFC1459 s = .ok (fold s) := Proofs.Trans.ToRFC1459_eq
example : Fn.ToRFC1459 [0x41, 0x5B, 0x5E, 0x5F, 0x7A] = .ok [0x61, 0x7B, 0x7E, 0x5F, 0x7A] := by rfl

theorem tie_IsValidNick : ∀ s : Bytes, Fn.IsValidNick s = .ok (isValidNick s) := Proofs.Trans.IsValidNick_eq
example : Fn.IsValidNick [0x61, 0x5B, 0x2D, 0x39] = .ok true := by rfl
example : Fn.IsValidNick [0x61, 0x20] = .ok false := by rfl

theorem tie_IsValidUser : ∀ s : Bytes, Fn.IsValidUser s = .ok (isValidUser s) := Proofs.Trans.IsValidUser_eq
example : Fn.IsValidUser [0x7E, 0x61, 0x2E, 0x62] = .ok true := by rfl
example : Fn.IsValidUser [0x7E] = .ok false := by rfl

theorem tie_IsValidChannel : ∀ s : Bytes, Fn.IsValidChannel s = .ok (isValidChannel s) := Proofs.Trans.IsValidChannel_eq
example : Fn.IsValidChannel [0x23, 0x61, 0x62] = .ok true := by rfl
example : Fn.IsValidChannel [0x21, 0x41, 0x42, 0x43, 0x31, 0x32, 0x78] = .ok true := by rfl
example : Fn.IsValidChannel [0x21, 0x41, 0x42, 0x63, 0x31, 0x32, 0x78] = .ok false := by rfl

end Girc.Props.TieNames
