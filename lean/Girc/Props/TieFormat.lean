import Girc.Proofs.TransFmt
import Girc.Proofs.Format
/-
  Tie (TieFormat): the function bodies regenerated from the Go source on every run (Girc/Gen/Funcs.lean, written by
  tools/extract/translate.go) equal the hand-written models the property theorems of C20 are about, for ALL inputs.
  Only restatements of theorems proved in Girc/Proofs/Trans*.lean, each with a non-vacuity example that evaluates the
  generated function on a literal. An edit of the Go function changes Funcs.lean and the equivalence stops building.
-/
namespace Girc.Props.TieFormat
open Girc Girc.Model Girc.Gen

/-! ### format.go -/

/-- `Fmt`: the regenerated index-based scanner (it rewrites `text` inside the loop and consults the two package-level
    tables, regenerated as `Fn.fmtColors` / `Fn.fmtCodes`) never panics and equals the list-functional `fmt`. -/
theorem tie_Fmt : ∀ text : Bytes, Fn.Fmt text = .ok (fmt text) := Proofs.Trans.Fmt_eq
-- "{RED}{b}Hi {red,blue}W{c}{x"
example : Fn.Fmt [0x7B, 0x52, 0x45, 0x44, 0x7D, 0x7B, 0x62, 0x7D, 0x48, 0x69, 0x20, 0x7B, 0x72, 0x65, 0x64, 0x2C, 0x62, 0x6C, 0x75,
    0x65, 0x7D, 0x57, 0x7B, 0x63, 0x7D, 0x7B, 0x78] =
    .ok [0x03, 0x30, 0x34, 0x02, 0x48, 0x69, 0x20, 0x03, 0x30, 0x34, 0x2C, 0x30, 0x32, 0x57, 0x03, 0x7B, 0x78] := by rfl

/-- `TrimFmt` ranges over the two PACKAGE-LEVEL maps; Go does not specify the order, so the orders are explicit
    parameters of the generated function and the theorem holds for every pair of orders. -/
theorem tie_TrimFmt : ∀ (colorsOrder codesOrder : List Bytes) (text : Bytes),
    Fn.TrimFmt colorsOrder codesOrder text = .ok (trimFmt (colorsOrder ++ codesOrder) text) := Proofs.Trans.TrimFmt_eq

/-- Every order Go can pick (a permutation of the keys of each regenerated table) is a permutation of the model's
    `tokenNames` — the hypothesis of `C20.trimfmt_exact`. -/
theorem tie_TrimFmt_orders : ∀ (o1 o2 : List Bytes), o1.Perm (Fn.fmtColors.map (·.1)) → o2.Perm (Fn.fmtCodes.map (·.1)) →
    (o1 ++ o2).Perm tokenNames := Proofs.Trans.TrimFmt_orders

/-- Hence, on well-formed input, the regenerated `TrimFmt` removes exactly the lower-case tokens whatever the order. -/
theorem tie_TrimFmt_exact (o1 o2 : List Bytes) (h1 : o1.Perm (Fn.fmtColors.map (·.1))) (h2 : o2.Perm (Fn.fmtCodes.map (·.1)))
    (items : List Spec.Item) (h : items.all Spec.wfItem = true) :
    Fn.TrimFmt o1 o2 (Spec.src items) = .ok (Spec.src (items.filter (fun it => !Spec.isLowerToken it))) := by
  rw [Proofs.Trans.TrimFmt_eq, Proofs.Format.trimfmt_exact _ (Proofs.Trans.TrimFmt_orders o1 o2 h1 h2) items h]

-- "a{red}b{b}" with the tables in source order
example : Fn.TrimFmt (Fn.fmtColors.map (·.1)) (Fn.fmtCodes.map (·.1)) [0x61, 0x7B, 0x72, 0x65, 0x64, 0x7D, 0x62, 0x7B, 0x62, 0x7D] =
    .ok [0x61, 0x62] := by rfl

/-- `StripRaw`: `reColor.ReplaceAllString(text, "")` is the TRUSTED table entry `stripColor` (the regular expression, keyed by
    its source text, ↦ the hand-written matcher); the `for _, code := range fmtCodes` loop ranges over a package-level map,
    so the order of its keys is a parameter: for every order that is a permutation of the regenerated keys the result is
    the model's `stripRaw`. -/
theorem tie_StripRaw : ∀ (order : List Bytes), order.Perm (Fn.fmtCodes.map (·.1)) → ∀ text : Bytes,
    Fn.StripRaw order text = .ok (stripRaw text) := Proofs.Trans.StripRaw_perm
-- "\x0304,02a\x02b\x0f" ↦ "ab"
example : Fn.StripRaw (Fn.fmtCodes.map (·.1)) [0x03, 0x30, 0x34, 0x2C, 0x30, 0x32, 0x61, 0x02, 0x62, 0x0F] = .ok [0x61, 0x62] := by rfl
example : Fn.StripRaw (Fn.fmtCodes.map (·.1)).reverse [0x03, 0x30, 0x34, 0x2C, 0x30, 0x32, 0x61, 0x02, 0x62, 0x0F] = .ok [0x61, 0x62] := by
  rfl

end Girc.Props.TieFormat
