import Girc.Spec.Sim
import Girc.Proofs.InvHandlers
import Girc.Proofs.SimBaseAux
/-
  C04 proofs, part 1: the relation holds initially, it determines everything observable, and the
  account-tag step preserves it.
-/
namespace Girc.Proofs.SimBase
open Girc Girc.Model Girc.Spec
open Girc.Proofs.InvBase Girc.Proofs.InvHandlers

theorem inv_init : Inv ({} : St) :=
  { chanKeys := List.nodup_nil, userKeys := List.nodup_nil
    chanKey := fun _ _ h => by cases h
    userKey := fun _ _ h => by cases h
    chanToUser := fun _ _ h => by cases h
    userToChan := fun _ _ h => by cases h
    chanSorted := fun _ _ h => by cases h
    userSorted := fun _ _ h => by cases h
    userHasChan := fun _ _ h => by cases h }

theorem sim_init : Sim ({} : St) ({} : Ref) :=
  { inv := inv_init
    nick := rfl, ident := rfl, host := rfl, motd := rfl, maxLine := rfl, maxPrefix := rfl
    opts := fun _ => rfl
    chans := fun _ => rfl
    chanModesWF := fun _ _ h => by cases h
    users := fun _ => rfl
    members := fun _ _ h => by cases h
    membersKnown := fun _ _ h => by cases h
    membersNodup := List.nodup_nil
    perms := fun _ _ _ h => by cases h
    permsKnown := fun _ h => by cases h
    chanKeysNodup := List.nodup_nil
    userKeysNodup := List.nodup_nil
    chanKeysNonempty := fun _ h => by cases h }

theorem observe_channels {st : St} {r : Ref} (h : Sim st r) :
    (observe st).channels = r.observe.channels := by
  unfold observe Ref.observe
  simp only
  rw [sortedKeys_congr h.chan_isSome]
  apply filterMap_congr_mem
  intro k _
  rw [← h.chans k]
  cases hg : AMap.get? st.channels k with
  | none => rfl
  | some ch =>
    simp only [Option.map_some]
    rw [h.chan_users hg, toBytes_eq_modesString]
    rfl

theorem observe_users {st : St} {r : Ref} (h : Sim st r) :
    (observe st).users = r.observe.users := by
  unfold observe Ref.observe
  simp only
  rw [sortedKeys_congr h.user_isSome]
  apply filterMap_congr_mem
  intro n _
  rw [← h.users n]
  cases hg : AMap.get? st.users n with
  | none => rfl
  | some u =>
    simp only [Option.map_some]
    rw [h.user_perms hg, h.user_chans hg]
    rfl

theorem observe_options {st : St} {r : Ref} (h : Sim st r) :
    (observe st).options = r.observe.options := by
  unfold observe Ref.observe
  simp only
  rw [sortedKeys_congr (m := st.serverOptions) (m' := r.options) (fun k => by rw [h.opts k])]
  apply List.map_congr_left
  intro k _
  rw [h.opts k]

/-- Related states show the same thing through the state API. -/
theorem observe_eq {st : St} {r : Ref} (h : Sim st r) : observe st = r.observe := by
  have hc := observe_channels h
  have hu := observe_users h
  have ho := observe_options h
  have e1 : (observe st).nick = r.observe.nick := h.nick
  have e2 : (observe st).ident = r.observe.ident := h.ident
  have e3 : (observe st).host = r.observe.host := h.host
  have e4 : (observe st).motd = r.observe.motd := h.motd
  have e5 : (observe st).maxEventLength = r.observe.maxEventLength := by
    show st.maxLineLength - st.maxPrefixLength = r.maxLine - r.maxPrefix
    rw [h.maxLine, h.maxPrefix]
  generalize observe st = a at *
  generalize r.observe = b at *
  cases a; cases b
  simp only at hc hu ho e1 e2 e3 e4 e5
  subst hc hu ho e1 e2 e3 e4 e5
  rfl

/-- The account-tag step. -/
theorem sim_tagStep {st : St} {r : Ref} (e : Event) (h : Sim st r) : Sim (handleTags st e) (r.tagStep e) := by
  unfold handleTags Ref.tagStep
  cases e.tags with
  | none => exact h
  | some t =>
    cases e.source with
    | none => exact h
    | some src =>
      simp only
      split
      · exact h
      · cases tagsGet (some t) sAccount with
        | none => exact h
        | some a =>
          have := sim_updUser h (fold src.name) (fun u => { u with account := a })
            (fun u => { u with account := a }) (fun _ => ⟨rfl, rfl, rfl⟩) (fun _ => rfl)
          rw [fold_idem] at this
          exact this

/-- Conformance of a message only depends on who and what is known, which the tag step leaves alone. -/
theorem conformant_tagStep (cfg : Cfg) (r : Ref) (e : Event) :
    (r.tagStep e).conformant cfg e = r.conformant cfg e := by
  unfold Ref.tagStep
  split
  · split
    · rfl
    · split
      · exact conformant_updUser cfg r _ _ e
      · rfl
  · rfl

end Girc.Proofs.SimBase
