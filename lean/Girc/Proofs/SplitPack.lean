import Girc.Spec.SplitSpec
import Girc.Proofs.SplitUtf8
/-
  The packing step of the splitter on plain text: `trackWord` is the identity, `cutLen` cuts at a rune
  boundary within the room, and a case-analysis principle for `packWord` with no pending codes.
-/
namespace Girc.Proofs.SplitPack
open Girc Girc.Model Girc.Spec Girc.Proofs.Utf8 Girc.Proofs.RoundtripUtf8 Girc.Proofs.SplitUtf8

/-! ### Formatting state on code-free words -/

theorem lastColorIn_none : ∀ (fuel : Nat) (w : Bytes), (0x03 : Byte) ∉ w → lastColorIn fuel w none = none
  | 0, _, _ => rfl
  | _ + 1, [], _ => rfl
  | fuel + 1, b :: rest, h => by
    have hb : b ≠ 0x03 := fun e => h (by simp [e])
    have hr : (0x03 : Byte) ∉ rest := fun e => h (by simp [e])
    simp only [lastColorIn, hb, if_false]
    exact lastColorIn_none fuel rest hr

theorem trackWord_plain (w : Bytes) (h : hasCodeByte w = false) : trackWord {} w = {} := by
  have hall : ∀ b ∈ w, codeBytes.contains b = false := by
    intro b hb
    cases hc : codeBytes.contains b with
    | false => rfl
    | true =>
      have : hasCodeByte w = true := List.any_eq_true.mpr ⟨b, hb, hc⟩
      rw [h] at this; cases this
  have h3 : (0x03 : Byte) ∉ w := by
    intro hm
    have := hall _ hm
    revert this; decide
  have hf : w.filter (fun b => codeBytes.contains b) = [] := by
    rw [List.filter_eq_nil_iff]
    intro b hb
    have := hall b hb
    simpa using this
  unfold trackWord
  rw [lastColorIn_none _ _ h3, hf]
  rfl

/-! ### `cutLen` -/

def runeSize (w : Bytes) : Nat := match utf8Width w with | some k => k | none => 1

theorem runeSize_bounds (w : Bytes) : 1 ≤ runeSize w ∧ runeSize w ≤ 4 := by
  unfold runeSize
  cases h : utf8Width w with
  | none => simp
  | some k => have := utf8Width_bounds h; simp; omega

theorem cutLenAux_succ (fuel : Nat) (b : Byte) (r : Bytes) (left cut : Nat) :
    cutLenAux (fuel + 1) (b :: r) left cut =
      if cut + runeSize (b :: r) > left && cut > 0 then cut
      else if cut + runeSize (b :: r) ≥ left then cut + runeSize (b :: r)
      else cutLenAux fuel ((b :: r).drop (runeSize (b :: r))) left (cut + runeSize (b :: r)) := rfl

theorem cutLenAux_le (left : Nat) (hl : 4 ≤ left) : ∀ (fuel : Nat) (w : Bytes) (cut : Nat), cut ≤ left →
    cutLenAux fuel w left cut ≤ left
  | 0, _, _, h => h
  | _ + 1, [], _, h => h
  | fuel + 1, b :: r, cut, h => by
    rw [cutLenAux_succ]
    have hs := runeSize_bounds (b :: r)
    split
    · exact h
    · rename_i h1
      split
      · simp only [Bool.and_eq_true, decide_eq_true_eq, not_and] at h1
        omega
      · exact cutLenAux_le left hl fuel _ _ (by omega)

theorem cutLen_le (word : Bytes) (left : Nat) (hl : 4 ≤ left) : cutLen word left ≤ left :=
  cutLenAux_le left hl _ _ _ (Nat.zero_le _)

/-- On a valid word the cut falls on a rune boundary. -/
theorem cutLenAux_valid (left : Nat) : ∀ (fuel : Nat) (w : Bytes) (cut : Nat), Valid w →
    ∃ k, cutLenAux fuel w left cut = cut + k ∧ k ≤ w.length ∧ Valid (w.take k) ∧ Valid (w.drop k) ∧
      (w ≠ [] → 0 < fuel → cut = 0 → 1 ≤ k)
  | 0, w, cut, hv => ⟨0, rfl, Nat.zero_le _, Valid.nil, hv, fun _ h => absurd h (Nat.lt_irrefl _)⟩
  | _ + 1, [], cut, hv => ⟨0, rfl, Nat.zero_le _, Valid.nil, hv, fun h => absurd rfl h⟩
  | fuel + 1, b :: r, cut, hv => by
    rw [cutLenAux_succ]
    obtain ⟨sz, hsz, hrest⟩ := hv.uncons (by simp)
    have hrs : runeSize (b :: r) = sz := by simp [runeSize, hsz]
    have hb := utf8Width_bounds hsz
    rw [hrs]
    split
    · rename_i h1
      refine ⟨0, rfl, Nat.zero_le _, Valid.nil, hv, ?_⟩
      intro _ _ hc
      simp only [Bool.and_eq_true, decide_eq_true_eq] at h1
      omega
    · split
      · exact ⟨sz, rfl, hb.2.2, Valid.rune hsz, hrest, fun _ _ _ => hb.1⟩
      · obtain ⟨k, hk, hkl, hkt, hkd, _⟩ := cutLenAux_valid left fuel ((b :: r).drop sz) (cut + sz) hrest
        refine ⟨sz + k, by rw [hk]; omega, ?_, ?_, ?_, fun _ _ _ => by omega⟩
        · simp only [List.length_drop] at hkl; omega
        · rw [List.take_add]
          exact (Valid.rune hsz).append hkt
        · rw [← List.drop_drop]; exact hkd

theorem cutLen_valid (word : Bytes) (left : Nat) (hv : Valid word) (hne : word ≠ []) :
    1 ≤ cutLen word left ∧ cutLen word left ≤ word.length ∧
      Valid (word.take (cutLen word left)) ∧ Valid (word.drop (cutLen word left)) := by
  obtain ⟨k, hk, hkl, hkt, hkd, hpos⟩ := cutLenAux_valid left (word.length + 1) word 0 hv
  have : cutLen word left = k := by unfold cutLen; rw [hk]; omega
  rw [this]
  exact ⟨hpos hne (by omega) rfl, hkl, hkt, hkd⟩

/-! ### Case analysis of `packWord` with no pending formatting codes -/

def sepOf (cur : Bytes) : Bytes := if cur.isEmpty then [] else [SP]

theorem packWord_cases (isURL : Bytes → Bool) (w : Nat) (hw : 4 ≤ w)
    (P : Nat → List Bytes → Bytes → Bytes → List Bytes → Prop)
    (h0 : ∀ front cur word, P 0 front cur word (front ++ [cur]))
    (hfit : ∀ fuel front cur word, cur.length + (sepOf cur).length + word.length ≤ w →
      P (fuel + 1) front cur word (front ++ [cur ++ sepOf cur ++ word]))
    (hnew : ∀ fuel front cur word r, cur ≠ [] → ¬ cur.length + (sepOf cur).length + word.length ≤ w →
      P fuel (front ++ [cur]) [] word r → P (fuel + 1) front cur word r)
    (hsym : ∀ fuel front cur word j r, cur ≠ [] → 3 < j → j + 1 < word.length → cur.length + 1 + j + 1 ≤ w →
      ¬ cur.length + (sepOf cur).length + word.length ≤ w →
      (∃ b, word[j]? = some b ∧ symbolBytes.contains b = true) →
      P fuel front (cur ++ [SP] ++ word.take (j + 1)) (word.drop (j + 1)) r → P (fuel + 1) front cur word r)
    (hcut1 : ∀ fuel front cur word left cut, ¬ cur.length + (sepOf cur).length + word.length ≤ w →
      left = w - cur.length - (sepOf cur).length → 4 ≤ left → cut = cutLen word left → word.drop cut = [] →
      P (fuel + 1) front cur word (front ++ [cur ++ sepOf cur ++ word.take cut]))
    (hcut2 : ∀ fuel front cur word left cut r, ¬ cur.length + (sepOf cur).length + word.length ≤ w →
      left = w - cur.length - (sepOf cur).length → 4 ≤ left → cut = cutLen word left → word.drop cut ≠ [] →
      P fuel (front ++ [cur ++ sepOf cur ++ word.take cut]) [] (word.drop cut) r → P (fuel + 1) front cur word r) :
    ∀ fuel front cur word, P fuel front cur word (packWord isURL w [] fuel (front ++ [cur]) word)
  | 0, front, cur, word => h0 front cur word
  | fuel + 1, front, cur, word => by
    have ih := packWord_cases isURL w hw P h0 hfit hnew hsym hcut1 hcut2 fuel
    rw [packWord]
    simp only [List.getLastD_concat, List.dropLast_concat]
    have hsep : (if cur.isEmpty = true then [] else [SP]) = sepOf cur := rfl
    simp only [hsep, List.length_nil, Nat.zero_add]
    split
    · exact hfit _ _ _ _ ‹_›
    · rename_i hnf
      have hcont : (!cur.isEmpty && cur != []) = !cur.isEmpty := by cases cur <;> simp
      simp only [hcont]
      by_cases hce : cur = []
      · subst hce
        simp only [List.isEmpty_nil, Bool.not_true, Bool.false_and, Bool.false_eq_true, if_false]
        have hl : 4 ≤ w - ([] : Bytes).length - (sepOf []).length := by simp [sepOf]; omega
        split
        · rename_i hd
          exact hcut1 _ _ _ _ _ _ hnf rfl hl rfl (by simpa using hd)
        · rename_i hd
          exact hcut2 _ _ _ _ _ _ _ hnf rfl hl rfl (by simpa using hd) (ih _ _ _)
      · have hie : cur.isEmpty = false := by cases cur <;> simp_all
        simp only [hie, Bool.not_false, Bool.true_and, if_true]
        have hs1 : (sepOf cur).length = 1 := by simp [sepOf, hie]
        have hs2 : sepOf cur = [SP] := by simp [sepOf, hie]
        split
        · exact hnew _ _ _ _ _ hce hnf (ih _ _ _)
        · split
          · rename_i j hj
            split at hj
            · rename_i j' hfind
              split at hj
              · rename_i hcond
                cases hj
                simp only [Bool.and_eq_true, decide_eq_true_eq] at hcond
                obtain ⟨hlt, hp, _⟩ := List.findIdx?_eq_some_iff_getElem.mp hfind
                rw [hs2]
                refine hsym _ _ _ _ _ _ hce hcond.1.1 hcond.1.2 (by omega) hnf ?_ (ih _ _ _)
                exact ⟨word[j], by simp [hlt], hp⟩
              · cases hj
            · cases hj
          · split
            · exact hnew _ _ _ _ _ hce hnf (ih _ _ _)
            · rename_i hshort
              simp only [Bool.or_eq_true, decide_eq_true_eq, not_or] at hshort
              have hl : 4 ≤ w - cur.length - (sepOf cur).length := by omega
              split
              · rename_i hd
                exact hcut1 _ _ _ _ _ _ hnf rfl hl rfl (by simpa using hd)
              · rename_i hd
                exact hcut2 _ _ _ _ _ _ _ hnf rfl hl rfl (by simpa using hd) (ih _ _ _)

end Girc.Proofs.SplitPack
