import Girc.Proofs.Disp
import Girc.Gen.Skel
import Girc.Spec.Skeletons
/- C06 — handler dispatch is exactly-once, ordered and correctly routed. Property theorems only.
   The model (Model/Dispatch.lean) is an interleaving transition system of the dispatcher, registrar
   goroutines, spawned handler goroutines, temporary-handler wrappers and deadline goroutines; every
   theorem quantifies over ALL reachable states, i.e. all interleavings of event streams with
   Add/AddBg/AddHandler/AddTmp/Remove/Clear/ClearAll and handlers that return, return true, or panic. -/
namespace Girc.Props.C06
open Girc Girc.Model.Disp

/-! ### the code the model was written against is the code in the tree (regenerated on every run) -/
theorem skel_RunHandlers : Gen.skel_RunHandlers = Spec.Skel.skel_RunHandlers := by decide +kernel
theorem skel_exec : Gen.skel_exec = Spec.Skel.skel_exec := by decide +kernel
theorem skel_register : Gen.skel_register = Spec.Skel.skel_register ∧ Gen.skel_sregister = Spec.Skel.skel_sregister := by decide +kernel
theorem skel_remove : Gen.skel_remove = Spec.Skel.skel_remove ∧ Gen.skel_Remove = Spec.Skel.skel_Remove ∧
    Gen.skel_cuidToID = Spec.Skel.skel_cuidToID := by decide +kernel
theorem skel_Clear : Gen.skel_Clear = Spec.Skel.skel_Clear ∧ Gen.skel_ClearAll = Spec.Skel.skel_ClearAll := by decide +kernel
theorem skel_AddTmp : Gen.skel_AddTmp = Spec.Skel.skel_AddTmp := by decide +kernel
theorem skel_Add : Gen.skel_Add = Spec.Skel.skel_Add ∧ Gen.skel_AddBg = Spec.Skel.skel_AddBg ∧
    Gen.skel_AddHandler = Spec.Skel.skel_AddHandler := by decide +kernel
theorem skel_recover : Gen.skel_recoverHandlerPanic = Spec.Skel.skel_recoverHandlerPanic := by decide +kernel
theorem skel_execLoop : Gen.skel_execLoop = Spec.Skel.skel_execLoop := by decide +kernel
theorem skel_readLoop : Gen.skel_readLoop = Spec.Skel.skel_readLoop := by decide +kernel
/-- the echo flag is decided right before dispatch, from the nick in force then -/
theorem skel_setEcho : Gen.skel_setEcho = Spec.Skel.skel_setEcho := by decide +kernel

/-! ### routing -/

/-- Whatever is invoked is a handler registered for that event's command (and the event is not an
    echo), or a wildcard handler: echoes go to wildcard handlers only, nothing goes to anyone else. -/
theorem routing (s : DState) (h : Reach s) :
    ∀ i ∈ s.spawned, ∃ e ∈ s.registry, ∃ ev ∈ s.events, e.id = i.id ∧ ev.seq = i.seq ∧ routeOK e ev = true :=
  Proofs.Disp.routing h

/-- Registration is case-insensitive. -/
theorem add_case_insensitive (s : DState) (cmd : Bytes) (bg tmp : Bool) :
    step s (.add cmd bg tmp) = step s (.add (toUpperAscii cmd) bg tmp) := Proofs.Disp.add_case_insensitive s cmd bg tmp

/-- The four phases of RunHandlers select exactly the handlers that should see an event. -/
theorem phases_cover (e : Entry) (ev : Evt) (hc : ev.cmd ≠ star) :
    routeOK e ev = true ↔ ∃ (k : Nat) (ph : Phase), phases[k]? = some ph ∧ ph.sel ev e = true ∧ (ph.skipEcho && ev.echo) = false :=
  Proofs.Disp.phases_cover e ev hc

/-! ### exactly once -/

/-- No handler is invoked twice for the same event. -/
theorem at_most_once (s : DState) (h : Reach s) : (s.spawned.map fun i => (i.id, i.seq)).Nodup := Proofs.Disp.at_most_once h

/-- A handler that is registered at every snapshot of an event's dispatch (in particular: registered
    before the dispatch starts and not removed before it ends) and should see the event has been
    invoked for it — once, by `at_most_once` — when RunHandlers returns, and has returned if it is a
    foreground handler. -/
theorem exactly_once (s : DState) (h : Reach s) (seq : Nat) (hs : seq ∈ s.ended) (ev : Evt) (hev : ev ∈ s.events)
    (hseq : ev.seq = seq) (e : Entry) (hin : ∀ k t, (seq, k, t) ∈ s.snaps → e ∈ t) (hr : routeOK e ev = true) :
    ∃ i ∈ s.spawned, i.id = e.id ∧ i.seq = seq ∧ (e.bg = false → i ∈ s.finished) :=
  Proofs.Disp.exactly_once h seq hs ev hev hseq e hin hr

theorem started_finished (s : DState) (h : Reach s) :
    (∀ i ∈ s.started, i ∈ s.spawned) ∧ (∀ i ∈ s.finished, i ∈ s.started) ∧ s.started.Nodup ∧ s.finished.Nodup ∧
    (∀ i ∈ s.spawned, i ∈ s.pending ∨ i ∈ s.running ∨ i ∈ s.finished) := Proofs.Disp.started_finished h

/-! ### ordering -/

/-- Events are dispatched in the order received. -/
theorem fifo (s : DState) (h : Reach s) :
    s.events.map (·.seq) = List.range s.nextSeq ∧
    s.ended ++ (match s.pc with | .at ev _ _ => [ev.seq] | .idle => []) ++ s.queue.map (·.seq) = s.events.map (·.seq) ∧
    (∀ ev k w, s.pc = .at ev k w → ev ∈ s.events) ∧ (∀ ev ∈ s.queue, ev ∈ s.events) := Proofs.Disp.fifo h

/-- When the dispatcher takes event N+1, every foreground handler of every earlier event has
    returned: foreground handlers for event N have all returned before any handler sees N+1. -/
theorem take_after_fg (s s' : DState) (h : Reach s) (hs : step s .take = some s') :
    ∀ i ∈ s.spawned, i.bg = false → i ∈ s.finished := Proofs.Disp.take_after_fg h hs

theorem fg_current (s : DState) (h : Reach s) :
    ∀ i, i ∈ s.pending ∨ i ∈ s.running → i.bg = false → ∃ ev k w, s.pc = .at ev k w ∧ i.seq = ev.seq ∧ i.id ∈ w :=
  Proofs.Disp.fg_current h

/-! ### removal, temporary handlers, done channels -/

/-- A handler taken out of the table never comes back (ids are never reused) … -/
theorem removed_gone (s : DState) (h : Reach s) : ∀ id ∈ s.removed, hasId s.table id = false := Proofs.Disp.removed_gone h

/-- … and a snapshot only dispatches to handlers in the table at that instant: after Remove returned,
    after Clear/ClearAll, after a temporary handler that returned true was removed, after a deadline
    passed, the handler is never dispatched to again. (A background invocation already spawned by an
    EARLIER snapshot may still start — the code's design; see DESIGN.md O4.) -/
theorem no_dispatch_after_removal (s s' : DState) (h : Reach s) (hs : step s .snap = some s') :
    ∀ i ∈ s'.spawned, i ∉ s.spawned → hasId s.table i.id = true ∧ i.id ∉ s.removed :=
  Proofs.Disp.no_spawn_after_removed h hs

theorem tmp_removed (s s' : DState) (id : Nat) (hs : step s (.tmpRemove id) = some s') : hasId s'.table id = false :=
  Proofs.Disp.tmp_removed_step s s' id hs

theorem deadline_removed (s s' : DState) (id : Nat) (hs : step s (.deadline id) = some s')
    (ht : ∃ e ∈ s.table, e.id = id ∧ e.tmp = true) : hasId s'.table id = false :=
  Proofs.Disp.deadline_removed_step s s' id hs ht

/-- done channels are closed at most once (no double-close panic whichever of the wrapper, the
    deadline goroutine and Remove wins), only for temporary handlers, and only with the removal. -/
theorem done_once (s : DState) (h : Reach s) :
    s.doneClosed.Nodup ∧ ∀ id ∈ s.doneClosed, id ∈ s.removed ∧ ∃ e ∈ s.registry, e.id = id ∧ e.tmp = true :=
  Proofs.Disp.done_once h

/-! ### panics -/

/-- With a recover function a panicking handler never takes the client down, and the dispatcher can
    always go on (the WaitGroup is released by `defer wg.Done()`), so later events are delivered. -/
theorem recover_no_crash (s : DState) (h : Reach s) (hr : s.recover = true) : s.crashed = false :=
  Proofs.Disp.recover_no_crash h hr

theorem progress (s : DState) (h : Reach s) (hc : s.crashed = false) :
    (s.pc = .idle ∧ s.queue = []) ∨
    (∃ a, (a = .take ∨ a = .snap ∨ a = .endEvent ∨ (∃ i, a = .startInv i) ∨ (∃ i, a = .finishInv i .normal)) ∧
      (step s a).isSome = true) := Proofs.Disp.progress h hc

/-! ### the sequential reading used by the correspondence check -/
theorem dispatchIds_spec (t : List Entry) (ev : Evt) (hc : ev.cmd ≠ star) (id : Nat) :
    id ∈ dispatchIds t ev ↔ ∃ e ∈ t, e.id = id ∧ routeOK e ev = true := Proofs.Disp.dispatchIds_spec t ev hc id

theorem dispatchIds_nodup (t : List Entry) (ev : Evt) (hc : ev.cmd ≠ star) (hn : (t.map (·.id)).Nodup) :
    (dispatchIds t ev).Nodup := Proofs.Disp.dispatchIds_nodup t ev hc hn

/-! ### non-vacuity -/
def P : Bytes := [0x50]  -- a command "P"
example : (run {} [.add [0x70] false false, .add star true false, .recv P false, .take, .snap,
      .startInv ⟨1, 0, 0, true⟩, .snap, .snap, .snap, .startInv ⟨0, 0, 3, false⟩, .finishInv ⟨0, 0, 3, false⟩ .panic,
      .endEvent, .remove 0, .recv P true, .take, .snap, .snap, .snap, .snap, .endEvent]).map
      (fun s => (s.spawned.map (fun i => (i.id, i.seq)), s.ended, s.crashed)) =
    some ([(1, 0), (0, 0), (1, 1)], [0, 1], false) := by decide +kernel

end Girc.Props.C06
