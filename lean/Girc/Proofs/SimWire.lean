import Girc.Proofs.SimMain
/-
  C04 at the wire level: the received LINES are parsed (the parser of C02), handled one at a time,
  locally injected events are processed after the event that injected them (Model/Run.lean), and as long
  as nothing has ended the connection the tracked state is what the event-level refinement says.
-/
namespace Girc.Proofs.SimWire
open Girc Girc.Model Girc.Spec

/-- Everything the library injects into its own receive queue is a local ERROR. -/
theorem injects_are_errors (cfg : Cfg) (cs : CState) (e : Event) (time idle : Bytes) (cs' : CState) (outs : List Out)
    (h : handleEvent cfg cs e time idle = .ok (cs', outs)) :
    ∀ x, Out.inject x ∈ outs → x.command = cERROR := by sorry

/-- Once a run has ended it stays ended. -/
theorem stepLine_ended (cfg : Cfg) (r r' : Run) (line : Bytes) (h : stepLine cfg r line = .ok r')
    (he : r.ended ≠ .running) : r' = r := by sorry

/-- Wire-level refinement: for every history of lines that parse to a conformant history of events, if
    the run has not been ended by anything (no ERROR, no parse error, no requested close), what the
    state API shows equals the reference model's observation. -/
theorem refinement_wire (cfg : Cfg) (hT : cfg.disableTracking = false) (lines : List Bytes) (es : List Event)
    (hp : lines.map parseEvent = es.map some) (hc : conformantHistory cfg {} es = true)
    (r : Run) (hr : runLines cfg {} lines = .ok r) (hrun : r.ended = .running) :
    observe r.cs.st = (Ref.run cfg es).observe := by sorry

end Girc.Proofs.SimWire
