import Girc.Model.Run
/-
  C04 specification: a straightforward reference model of "what the client has been told".
  State = finite relations keyed by FOLDED names; one transition per message kind saying what the
  message MEANS. It keeps one membership relation (no dual lists to keep in sync) and derives
  everything observable from it: a user exists exactly while it shares a channel.
-/
namespace Girc.Spec
open Girc Girc.Model

structure RUser where
  nick : Bytes
  ident : Bytes := []
  host : Bytes := []
  realname : Bytes := []
  account : Bytes := []
  away : Bytes := []
  deriving DecidableEq, Repr

structure RChan where
  name : Bytes
  topic : Bytes := []
  chanmodes : Bytes            -- CHANMODES in force when the channel was created
  prefixModes : Bytes          -- PREFIX mode letters in force when the channel was created
  modes : List (Byte × Bytes) := []   -- settings currently on, with their argument, in the order they were set
  deriving DecidableEq, Repr

structure Ref where
  me : Bytes := []
  myIdent : Bytes := []
  myHost : Bytes := []
  chans : AMap RChan := []                 -- by folded channel name
  users : AMap RUser := []                 -- by folded nick
  members : List (Bytes × Bytes) := []     -- (channel key, user key)
  perms : List ((Bytes × Bytes) × Perms) := []
  options : AMap Bytes := []
  motd : Bytes := []
  maxLine : Int := 510
  maxPrefix : Int := 115
  deriving Repr

namespace Ref

def myNick (cfg : Cfg) (r : Ref) : Bytes := if r.me.isEmpty then cfg.nick else r.me
def isMe (cfg : Cfg) (r : Ref) (nick : Bytes) : Bool := fold nick = fold (r.myNick cfg)

def isMember (r : Ref) (c u : Bytes) : Bool := r.members.contains (c, u)
def chansOf (r : Ref) (u : Bytes) : List Bytes := (r.members.filter (·.2 = u)).map (·.1)
def usersOf (r : Ref) (c : Bytes) : List Bytes := (r.members.filter (·.1 = c)).map (·.2)

/-- Forget every user that no longer shares a channel. -/
def gc (r : Ref) : Ref :=
  { r with users := r.users.filter (fun p => r.members.any (·.2 = p.1)),
           perms := r.perms.filter (fun p => r.members.contains p.1) }

def chanmodesOpt (r : Ref) : Bytes :=
  match AMap.get? r.options [0x43,0x48,0x41,0x4E,0x4D,0x4F,0x44,0x45,0x53] with
  | some m => if isValidChannelMode m then m else modeDefaults
  | none => modeDefaults

def prefixOpt (r : Ref) : Bytes :=
  match AMap.get? r.options [0x50,0x52,0x45,0x46,0x49,0x58] with
  | some p => if isValidUserPrefix p then p else defaultPrefixes
  | none => defaultPrefixes

def ensureChan (r : Ref) (name : Bytes) : Ref :=
  if AMap.contains r.chans (fold name) then r
  else
    let ch : RChan := { name := name, chanmodes := r.chanmodesOpt, prefixModes := (parsePrefixes r.prefixOpt).1 }
    { r with chans := AMap.set r.chans (fold name) ch }

def ensureUser (r : Ref) (src : Source) : Ref :=
  if AMap.contains r.users (fold src.name) then r
  else
    let u : RUser := { nick := src.name, ident := src.ident, host := src.host }
    { r with users := AMap.set r.users (fold src.name) u }

def addMember (r : Ref) (c u : Bytes) : Ref :=
  if r.isMember c u then r
  else { r with members := r.members ++ [(c, u)], perms := (r.perms.filter (·.1 != (c, u))) ++ [((c, u), {})] }

def updUser (r : Ref) (key : Bytes) (f : RUser → RUser) : Ref :=
  match AMap.get? r.users key with
  | some u => { r with users := AMap.set r.users key (f u) }
  | none => r

def setPerms (r : Ref) (c u : Bytes) (p : Perms) : Ref :=
  { r with perms := (r.perms.filter (·.1 != (c, u))) ++ [((c, u), p)] }

def getPerms (r : Ref) (c u : Bytes) : Perms := ((r.perms.find? (·.1 == (c, u))).map (·.2)).getD {}

/-- The channel is gone (we left it): all its memberships go, and with them users we no longer share a channel with. -/
def dropChan (r : Ref) (c : Bytes) : Ref :=
  gc { r with chans := AMap.erase r.chans c, members := r.members.filter (·.1 != c) }

/-- The user left one channel. -/
def dropMember (r : Ref) (c u : Bytes) : Ref := gc { r with members := r.members.filter (· != (c, u)) }

/-- The user left the network. -/
def dropUser (r : Ref) (u : Bytes) : Ref := gc { r with members := r.members.filter (·.2 != u) }

/-- A nick change: the same user under a new key. -/
def rekey (r : Ref) (old new_ : Bytes) (nick : Bytes) : Ref :=
  match AMap.get? r.users old with
  | none => r
  | some u =>
    { r with users := AMap.set (AMap.erase r.users old) new_ { u with nick := nick },
             members := r.members.map (fun m => if m.2 = old then (m.1, new_) else m),
             perms := r.perms.map (fun p => if p.1.2 = old then ((p.1.1, new_), p.2) else p) }

/-- Fold one mode flag into a channel's settings, by CHANMODES class. Returns the new settings, the
    remaining arguments, and a privilege change (mode letter, target, granted?) if it was a prefix mode. -/
def modeFlag (ch : RChan) (add : Bool) (f : Byte) (args : List Bytes) :
    List (Byte × Bytes) × List Bytes × Option (Byte × Bytes × Bool) :=
  let cls := splitN4 ch.chanmodes
  let takeArg : Bytes × List Bytes := match args with | a :: rest => (a, rest) | [] => ([], [])
  let set (ms : List (Byte × Bytes)) (a : Bytes) : List (Byte × Bytes) :=
    if ms.any (·.1 = f) then ms.map (fun m => if m.1 = f then (f, a) else m) else ms ++ [(f, a)]
  let unset (ms : List (Byte × Bytes)) : List (Byte × Bytes) := ms.filter (·.1 != f)
  if ch.chanmodes.isEmpty then ((if add then set ch.modes [] else unset ch.modes), args, none)
  else if cls.1.contains f then (ch.modes, takeArg.2, none)                                   -- A: list mode
  else if cls.2.1.contains f then ((if add then set ch.modes takeArg.1 else unset ch.modes), takeArg.2, none)   -- B
  else if cls.2.2.1.contains f then
    (if add then (set ch.modes takeArg.1, takeArg.2, none) else (unset ch.modes, args, none))  -- C
  else if ch.prefixModes.contains f then (ch.modes, takeArg.2, some (f, takeArg.1, add))       -- privilege
  else ((if add then set ch.modes [] else unset ch.modes), args, none)                         -- D

def applyPriv (r : Ref) (c : Bytes) (pr : Byte × Bytes × Bool) : Ref :=
  let (letter, target, granted) := pr
  let u := fold target
  if target.isEmpty || !(AMap.contains r.users u) then r
  else
    let p := r.getPerms c u
    let p := if letter = 0x71 then { p with owner := granted } else if letter = 0x61 then { p with admin := granted }
      else if letter = 0x6F then { p with op := granted } else if letter = 0x68 then { p with halfop := granted }
      else if letter = 0x76 then { p with voice := granted } else p
    r.setPerms c u p

def modeString : Bytes → Bool → List Bytes → Ref → Bytes → Ref
  | [], _, _, r, _ => r
  | f :: rest, add, args, r, c =>
    if f = 0x2B then modeString rest true args r c
    else if f = 0x2D then modeString rest false args r c
    else match AMap.get? r.chans c with
      | none => r
      | some ch =>
        let (ms, args', priv) := modeFlag ch add f args
        let r := { r with chans := AMap.set r.chans c { ch with modes := ms } }
        let r := match priv with | some pr => r.applyPriv c pr | none => r
        modeString rest add args' r c

/-- One NAMES entry. -/
def namesEntry (r : Ref) (c : Bytes) (part : Bytes) : Ref :=
  let (syms, nick, ok) := parseUserPrefix part
  if !ok then r
  else
    let src : Option Source := if nick.contains AT then some (parseSource nick)
      else if isValidNick nick then some ⟨nick, [], []⟩ else none
    match src with
    | none => r
    | some s =>
      let r := r.ensureUser s
      let r := r.addMember c (fold s.name)
      r.setPerms c (fold s.name) (permsFromPrefix syms)

/-- account-tag: a message from a known user carries the account it is logged in to. -/
def tagStep (r : Ref) (e : Event) : Ref :=
  match e.tags, e.source with
  | some t, some src =>
    if t.isEmpty then r else
    (match tagsGet (some t) sAccount with
     | some a => r.updUser (fold src.name) (fun u => { u with account := a })
     | none => r)
  | _, _ => r

/-- What the command of one message means. -/
def cmdStep (cfg : Cfg) (r : Ref) (e : Event) : Ref :=
  let c := e.command
  let last := e.params.getLastD []
  if c = c001 then (match e.params with | p :: _ => { r with me := p } | [] => r)
  else if c = cJOIN then
    match e.source, e.params with
    | some src, chan :: ext =>
      let r := r.ensureChan chan
      let r := r.ensureUser src
      let r := r.addMember (fold chan) (fold src.name)
      let r := match ext with
        | acct :: rest =>
          let r := if acct ≠ sStar then r.updUser (fold src.name) (fun u => { u with account := acct }) else r
          (match rest with | rn :: _ => r.updUser (fold src.name) (fun u => { u with realname := rn }) | [] => r)
        | [] => r
      if r.isMe cfg src.name then { r with myIdent := src.ident, myHost := src.host } else r
    | _, _ => r
  else if c = cPART then
    match e.source, e.params with
    | some src, chan :: _ =>
      if chan.isEmpty then r
      else if r.isMe cfg src.name then r.dropChan (fold chan)
      else if AMap.contains r.chans (fold chan) then r.dropMember (fold chan) (fold src.name) else r
    | _, _ => r
  else if c = cKICK then
    match e.params with
    | chan :: victim :: _ =>
      if r.isMe cfg victim then r.dropChan (fold chan)
      else if AMap.contains r.chans (fold chan) then r.dropMember (fold chan) (fold victim) else r
    | _ => r
  else if c = cQUIT then
    match e.source with
    | some src => if r.isMe cfg src.name then r else r.dropUser (fold src.name)
    | none => r
  else if c = cNICK then
    match e.source, e.params with
    | some src, _ :: _ =>
      let r' := if fold src.name = fold r.me then { r with me := last } else r
      r'.rekey (fold src.name) (fold last) last
    | _, _ => r
  else if c = c353 then
    match e.params with
    | _ :: _ :: chan :: _ =>
      if AMap.contains r.chans (fold chan) then (splitOnByte SP last).foldl (fun r p => r.namesEntry (fold chan) p) r else r
    | _ => r
  else if c = cMODE || c = c324 then
    let ps := if c = c324 && e.params.length > 2 then e.params.drop 1 else e.params
    match ps with
    | target :: flags :: args =>
      if isValidChannel target && AMap.contains r.chans (fold target) then modeString flags true args r (fold target) else r
    | _ => r
  else if c = c354 then
    match e.params with
    | [_, tok, _, ident, host, nick, acct, rn] =>
      if tok ≠ sOne then r
      else r.updUser (fold nick) (fun u =>
        { u with ident := ident, host := host, realname := rn, account := if acct ≠ sZero then acct else u.account })
    | _ => r
  else if c = c352 then
    if e.params.length < 8 then r
    else match e.params with
      | _ :: _ :: ident :: host :: _ :: nick :: _ =>
        r.updUser (fold nick) (fun u => { u with ident := ident, host := host, realname := stripHopcount last 0 last })
      | _ => r
  else if c = cTOPIC || c = c332 then
    let nt : Option (Bytes × Bytes) := match e.params with
      | [] => none
      | [n] => some (n, [])
      | [n, t] => some (n, t)
      | _ :: n :: _ => some (n, last)
    match nt with
    | some (n, t) => (match AMap.get? r.chans (fold n) with
        | some ch => { r with chans := AMap.set r.chans (fold n) { ch with topic := t } }
        | none => r)
    | none => r
  else if c = cAWAY then
    match e.source with | some src => r.updUser (fold src.name) (fun u => { u with away := last }) | none => r
  else if c = cACCOUNT then
    match e.source, e.params with
    | some src, [a] => r.updUser (fold src.name) (fun u => { u with account := if a = sStar then [] else a })
    | _, _ => r
  else if c = cCHGHOST then
    match e.source, e.params with
    | some src, [i, h] => r.updUser (fold src.name) (fun u => { u with ident := i, host := h })
    | _, _ => r
  else if c = c004 then
    match e.params with
    | _ :: a :: b :: _ => { r with options := AMap.set (AMap.set r.options sSERVER a) sVERSION b }
    | _ => r
  else if c = c005 then
    -- server options and the limits derived from them are told once, before any channel is joined:
    -- the same arithmetic as the property states (see Props/C11 `isupport_lengths`)
    let st' := handleISUPPORT { serverOptions := r.options, maxLineLength := r.maxLine, maxPrefixLength := r.maxPrefix } e
    { r with options := st'.serverOptions, maxLine := st'.maxLineLength, maxPrefix := st'.maxPrefixLength }
  else if c = c375 then { r with motd := [] }
  else if c = c372 then { r with motd := (if r.motd.isEmpty then [] else r.motd ++ [LF]) ++ last }
  else r

/-- What one message means. -/
def step (cfg : Cfg) (r : Ref) (e : Event) : Ref := cmdStep cfg (tagStep r e) e

def run (cfg : Cfg) (es : List Event) : Ref := es.foldl (step cfg) {}

end Ref

/-! ### What the state API shows -/

structure ObsChan where
  name : Bytes
  topic : Bytes
  users : List Bytes
  modes : Bytes             -- `Modes.String()`
  deriving DecidableEq, Repr

structure ObsUser where
  nick : Bytes
  ident : Bytes
  host : Bytes
  chans : List Bytes
  realname : Bytes
  account : Bytes
  away : Bytes
  perms : List (Bytes × Perms)   -- per channel the user is in
  deriving DecidableEq, Repr

structure Obs where
  nick : Bytes
  ident : Bytes
  host : Bytes
  channels : List (Bytes × ObsChan)   -- sorted by key
  users : List (Bytes × ObsUser)      -- sorted by key
  options : List (Bytes × Bytes)
  motd : Bytes
  maxEventLength : Int
  deriving DecidableEq, Repr

/-- The mode string the state API reports for the settings `ms` (letter, argument): "+", the letters, then the
    arguments.  A letter is reported as the API's `string` type spells a byte-valued letter (`Go.strOfByte`: the byte
    itself below 0x80, the two-byte UTF-8 encoding of U+0080‥U+00FF from 0x80 on) — `HasMode` / `Get` / `String` of the
    implementation all use that spelling, so "+x is reported" means: reported under that spelling. -/
def modesString (ms : List (Byte × Bytes)) : Bytes :=
  (if ms.length > 0 then [0x2B] else []) ++ ms.flatMap (fun m => Go.strOfByte m.1) ++
    ms.flatMap (fun m => if m.2.length > 0 then SP :: m.2 else [])

/-- Observation of the implementation model's state: exactly what the public getters return. -/
def observe (st : St) : Obs :=
  { nick := st.nick, ident := st.ident, host := st.host,
    channels := (sortedKeys st.channels).filterMap fun k => (AMap.get? st.channels k).map fun ch =>
      (k, { name := ch.name, topic := ch.topic, users := ch.users, modes := ch.modes.toBytes }),
    users := (sortedKeys st.users).filterMap fun n => (AMap.get? st.users n).map fun u =>
      (n, { nick := u.nick, ident := u.ident, host := u.host, chans := u.chans, realname := u.name, account := u.account,
            away := u.away, perms := u.chans.map fun c => (c, (AMap.get? u.perms c).getD {}) }),
    options := (sortedKeys st.serverOptions).map fun k => (k, (AMap.get? st.serverOptions k).getD []),
    motd := st.motd, maxEventLength := st.maxLineLength - st.maxPrefixLength }

/-- Observation of the reference model. -/
def Ref.observe (r : Ref) : Obs :=
  { nick := r.me, ident := r.myIdent, host := r.myHost,
    channels := (sortedKeys r.chans).filterMap fun k => (AMap.get? r.chans k).map fun ch =>
      (k, { name := ch.name, topic := ch.topic, users := sortBytes (r.usersOf k), modes := modesString ch.modes }),
    users := (sortedKeys r.users).filterMap fun n => (AMap.get? r.users n).map fun u =>
      (n, { nick := u.nick, ident := u.ident, host := u.host, chans := sortBytes (r.chansOf n), realname := u.realname,
            account := u.account, away := u.away, perms := (sortBytes (r.chansOf n)).map fun c => (c, r.getPerms c n) }),
    options := (sortedKeys r.options).map fun k => (k, (AMap.get? r.options k).getD []),
    motd := r.motd, maxEventLength := r.maxLine - r.maxPrefix }

end Girc.Spec
