import Girc.Drv.Proto
import Girc.Model.StsTime
/- Driver op for the timed STS policy model (C10): run a history of events from an initial stored policy. -/
namespace Girc.Drv
open Girc Girc.Model

def optIntArg (s : String) : Option (Option Int) := if s = "-" then some none else s.toInt?.map some

/-- `ackTls:<now>:<dur|->`, `ackPlain:<now>:<port|->`, `cleanEnd:<now>`, `errorEnd:<now>`, `dialFail:<now>:<0|1>` -/
def parseTEv (tok : String) : Option TEv :=
  match tok.splitOn ":" with
  | ["ackTls", now, d] => do pure (.ackTls (← now.toInt?) (← optIntArg d))
  | ["ackPlain", now, p] => do pure (.ackPlain (← now.toInt?) (← optIntArg p))
  | ["cleanEnd", now] => do pure (.cleanEnd (← now.toInt?))
  | ["errorEnd", now] => do pure (.errorEnd (← now.toInt?))
  | ["dialFail", now, "0"] => do pure (.dialFail (← now.toInt?) false)
  | ["dialFail", now, "1"] => do pure (.dialFail (← now.toInt?) true)
  | _ => none

def showOutcome : Outcome → String
  | .nothing => "nothing" | .upgradeInit => "upgradeInit" | .upgradeRedial => "upgradeRedial" | .abort => "abort"
  | .plainError => "plainError" | .stsUpgradeFailed => "stsUpgradeFailed" | .stsFallback => "stsFallback"

def showOptInt : Option Int → String
  | none => "-"
  | some n => toString n

/-- Per event: `<port> <duration> <expired> <outcome>` — port and duration AFTER the event, `expired` = `sts.expired()` read
    at the event's time on the policy as it was BEFORE the event (the value `newConn` consults). Events are joined by `;`,
    followed by ` | <port> <duration> <received> <lastFailed|-> <beginUpgrade>` for the final state. -/
def runTimed (rebase : Bool) (s : TSts) (es : List TEv) : String :=
  let rec go (s : TSts) : List TEv → List String → TSts × List String
    | [], acc => (s, acc.reverse)
    | e :: es, acc =>
      let (s', o) := tstepG rebase s e
      go s' es (s!"{s'.upgradePort} {s'.persistenceDuration} {bl (expiredAt e.now s)} {showOutcome o}" :: acc)
  let (f, rows) := go s es []
  ";".intercalate rows ++ s!" | {f.upgradePort} {f.persistenceDuration} {f.received} {showOptInt f.lastFailed} {bl f.beginUpgrade}"

def handleSts (op : String) (args : List String) : Option String :=
  match op, args with
  | "sts.timed", port :: dur :: recv :: toks => do
    let s : TSts := { upgradePort := ← port.toInt?, persistenceDuration := ← dur.toInt?, received := ← recv.toInt? }
    pure (runTimed true s (← toks.mapM parseTEv))
  | "sts.timed.norebase", port :: dur :: recv :: toks => do
    let s : TSts := { upgradePort := ← port.toInt?, persistenceDuration := ← dur.toInt?, received := ← recv.toInt? }
    pure (runTimed false s (← toks.mapM parseTEv))
  | "sts.expired", [now, dur, recv] => do
    pure (bl (expiredAt (← now.toInt?) { persistenceDuration := ← dur.toInt?, received := ← recv.toInt? }))
  | _, _ => none

end Girc.Drv
