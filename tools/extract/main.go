// extract: regenerates lean/Girc/Gen/Facts.lean from the Go sources in /repo.
//
// It is a set of small, independent pattern extractors over go/ast. Anything an
// extractor cannot recognise is NOT emitted, so the Lean obligation that refers to
// it stops compiling (fail-closed) and the check reports a broken obligation.
package main

import (
	"bytes"
	"flag"
	"fmt"
	"go/ast"
	"go/parser"
	"go/printer"
	"go/token"
	"os"
	"path/filepath"
	"sort"
	"strconv"
	"strings"
)

type pkgFiles struct {
	curIdx string
	fset   *token.FileSet
	files  map[string]*ast.File // base name -> file
}

func load(dir string) *pkgFiles {
	fset := token.NewFileSet()
	p := &pkgFiles{fset: fset, files: map[string]*ast.File{}}
	ents, err := os.ReadDir(dir)
	if err != nil {
		die("%v", err)
	}
	for _, e := range ents {
		n := e.Name()
		if e.IsDir() || !strings.HasSuffix(n, ".go") || strings.HasSuffix(n, "_test.go") {
			continue
		}
		src, err := os.ReadFile(filepath.Join(dir, n))
		if err != nil {
			die("%v", err)
		}
		// skip our own hook files
		if bytes.Contains(src, []byte("//go:build verif")) {
			continue
		}
		f, err := parser.ParseFile(fset, filepath.Join(dir, n), src, parser.ParseComments)
		if err != nil {
			die("parse %s: %v", n, err)
		}
		p.files[n] = f
	}
	return p
}

func die(f string, a ...interface{}) {
	fmt.Fprintf(os.Stderr, "extract: "+f+"\n", a...)
	os.Exit(3)
}

type out struct {
	b     strings.Builder
	notes []string
}

func (o *out) pf(f string, a ...interface{}) { fmt.Fprintf(&o.b, f, a...) }
func (o *out) note(f string, a ...interface{}) {
	o.notes = append(o.notes, fmt.Sprintf(f, a...))
}

func leanBytes(s string) string {
	if s == "" {
		return "([] : List UInt8)"
	}
	parts := make([]string, len(s))
	for i := 0; i < len(s); i++ {
		parts[i] = fmt.Sprintf("0x%02X", s[i])
	}
	return "([" + strings.Join(parts, ", ") + "] : List UInt8)"
}

func leanIdent(s string) string {
	r := strings.NewReplacer(".", "_", "-", "_", "/", "_", "*", "star")
	return r.Replace(s)
}

// ---------- generic helpers over the AST ----------

func (p *pkgFiles) funcDecl(name string, recv string) *ast.FuncDecl {
	for _, f := range p.files {
		for _, d := range f.Decls {
			fd, ok := d.(*ast.FuncDecl)
			if !ok || fd.Name.Name != name {
				continue
			}
			r := ""
			if fd.Recv != nil && len(fd.Recv.List) > 0 {
				t := fd.Recv.List[0].Type
				if st, ok := t.(*ast.StarExpr); ok {
					t = st.X
				}
				if id, ok := t.(*ast.Ident); ok {
					r = id.Name
				}
			}
			if r == recv {
				return fd
			}
		}
	}
	return nil
}

// valueSpec finds a package-level const/var by name.
func (p *pkgFiles) valueSpec(name string) (ast.Expr, bool) {
	for _, f := range p.files {
		for _, d := range f.Decls {
			gd, ok := d.(*ast.GenDecl)
			if !ok || (gd.Tok != token.CONST && gd.Tok != token.VAR) {
				continue
			}
			for _, s := range gd.Specs {
				vs := s.(*ast.ValueSpec)
				for i, n := range vs.Names {
					if n.Name == name && i < len(vs.Values) {
						return vs.Values[i], true
					}
				}
			}
		}
	}
	return nil, false
}

// constString evaluates string literals, named string consts and "+" concatenations.
func (p *pkgFiles) constString(e ast.Expr) (string, bool) {
	switch v := e.(type) {
	case *ast.BasicLit:
		if v.Kind == token.STRING {
			s, err := strconv.Unquote(v.Value)
			return s, err == nil
		}
		if v.Kind == token.CHAR {
			s, err := strconv.Unquote(v.Value)
			return s, err == nil
		}
	case *ast.Ident:
		if x, ok := p.valueSpec(v.Name); ok {
			return p.constString(x)
		}
	case *ast.ParenExpr:
		return p.constString(v.X)
	case *ast.BinaryExpr:
		if v.Op == token.ADD {
			a, ok1 := p.constString(v.X)
			b, ok2 := p.constString(v.Y)
			return a + b, ok1 && ok2
		}
	case *ast.CallExpr: // string(x) conversions of byte consts
		if id, ok := v.Fun.(*ast.Ident); ok && id.Name == "string" && len(v.Args) == 1 {
			if n, ok := p.constInt(v.Args[0]); ok {
				return string(rune(n)), true
			}
		}
	}
	return "", false
}

// constInt evaluates int/char literals, named consts and simple arithmetic.
func (p *pkgFiles) constInt(e ast.Expr) (int64, bool) {
	switch v := e.(type) {
	case *ast.BasicLit:
		switch v.Kind {
		case token.INT:
			n, err := strconv.ParseInt(v.Value, 0, 64)
			return n, err == nil
		case token.CHAR:
			s, err := strconv.Unquote(v.Value)
			if err != nil || len([]rune(s)) != 1 {
				return 0, false
			}
			return int64([]rune(s)[0]), true
		}
	case *ast.Ident:
		if x, ok := p.valueSpec(v.Name); ok {
			return p.constInt(x)
		}
	case *ast.ParenExpr:
		return p.constInt(v.X)
	case *ast.BinaryExpr:
		a, ok1 := p.constInt(v.X)
		b, ok2 := p.constInt(v.Y)
		if !ok1 || !ok2 {
			return 0, false
		}
		switch v.Op {
		case token.ADD:
			return a + b, true
		case token.SUB:
			return a - b, true
		case token.MUL:
			return a * b, true
		}
	case *ast.CallExpr: // conversions like byte('x'), int(...)
		if len(v.Args) == 1 {
			if _, ok := v.Fun.(*ast.Ident); ok {
				return p.constInt(v.Args[0])
			}
		}
	}
	return 0, false
}

// bytePred translates a Go boolean expression over ONE indexed byte (any `x[i]`)
// and integer/char constants into a Lean Bool term over `c : UInt8`.
func (p *pkgFiles) bytePred(e ast.Expr) (string, bool) {
	switch v := e.(type) {
	case *ast.ParenExpr:
		s, ok := p.bytePred(v.X)
		return "(" + s + ")", ok
	case *ast.UnaryExpr:
		if v.Op == token.NOT {
			s, ok := p.bytePred(v.X)
			return "(!" + s + ")", ok
		}
	case *ast.BinaryExpr:
		switch v.Op {
		case token.LAND, token.LOR:
			a, ok1 := p.bytePred(v.X)
			b, ok2 := p.bytePred(v.Y)
			op := "&&"
			if v.Op == token.LOR {
				op = "||"
			}
			return "(" + a + " " + op + " " + b + ")", ok1 && ok2
		case token.LSS, token.GTR, token.LEQ, token.GEQ, token.EQL, token.NEQ:
			a, ok1 := p.byteTerm(v.X)
			b, ok2 := p.byteTerm(v.Y)
			op := map[token.Token]string{token.LSS: "<", token.GTR: ">", token.LEQ: "≤", token.GEQ: "≥", token.EQL: "==", token.NEQ: "!="}[v.Op]
			if v.Op == token.EQL || v.Op == token.NEQ {
				return "(" + a + " " + op + " " + b + ")", ok1 && ok2
			}
			return "(decide (" + a + " " + op + " " + b + "))", ok1 && ok2
		}
	}
	return "", false
}

func (p *pkgFiles) byteTerm(e ast.Expr) (string, bool) {
	switch v := e.(type) {
	case *ast.IndexExpr:
		// all indexed bytes in one predicate must be the same expression
		s := p.src(v)
		if p.curIdx == "" {
			p.curIdx = s
		}
		return "c", p.curIdx == s
	case *ast.ParenExpr:
		return p.byteTerm(v.X)
	default:
		if n, ok := p.constInt(e); ok && n >= 0 && n < 256 {
			return fmt.Sprintf("(%d : UInt8)", n), true
		}
	}
	return "", false
}

// ifConds returns, in source order, the conditions of all `if` statements in fn's body.
func ifConds(fd *ast.FuncDecl) []ast.Expr {
	var conds []ast.Expr
	ast.Inspect(fd.Body, func(n ast.Node) bool {
		if is, ok := n.(*ast.IfStmt); ok {
			conds = append(conds, is.Cond)
		}
		return true
	})
	return conds
}

func (p *pkgFiles) src(n ast.Node) string {
	var b bytes.Buffer
	start := p.fset.Position(n.Pos())
	end := p.fset.Position(n.End())
	data, _ := os.ReadFile(start.Filename)
	b.Write(data[start.Offset:end.Offset])
	return strings.Join(strings.Fields(b.String()), " ")
}

// ---------- extractors ----------

// bytePreds emits, for each listed function, every if-condition that is a pure byte predicate.
func (p *pkgFiles) bytePreds(o *out, specs [][2]string) {
	for _, s := range specs {
		name, recv := s[0], s[1]
		fd := p.funcDecl(name, recv)
		if fd == nil {
			o.note("function %s not found", name)
			continue
		}
		k := 0
		for _, c := range ifConds(fd) {
			p.curIdx = ""
			t, ok := p.bytePred(c)
			if !ok || p.curIdx == "" {
				continue
			}
			o.pf("/-- %s: `%s` -/\ndef %s_bp%d (c : UInt8) : Bool := %s\n", name, p.src(c), leanIdent(name), k, t)
			k++
		}
		o.pf("def %s_bpCount : Nat := %d\n\n", leanIdent(name), k)
	}
}

// byteSliceLits emits every `[]byte{...}` composite literal of constants in a function.
func (p *pkgFiles) byteSliceLits(o *out, fn string) {
	fd := p.funcDecl(fn, "")
	if fd == nil {
		return
	}
	k := 0
	ast.Inspect(fd.Body, func(n ast.Node) bool {
		cl, ok := n.(*ast.CompositeLit)
		if !ok {
			return true
		}
		at, ok := cl.Type.(*ast.ArrayType)
		if !ok {
			return true
		}
		if id, ok := at.Elt.(*ast.Ident); !ok || id.Name != "byte" {
			return true
		}
		var bs []byte
		for _, e := range cl.Elts {
			v, ok := p.constInt(e)
			if !ok || v < 0 || v > 255 {
				return true
			}
			bs = append(bs, byte(v))
		}
		o.pf("def %s_bytes%d : List UInt8 := %s\n", leanIdent(fn), k, leanBytes(string(bs)))
		k++
		return true
	})
	o.pf("\n")
}

func (p *pkgFiles) intConsts(o *out, names []string) {
	for _, n := range names {
		e, ok := p.valueSpec(n)
		if !ok {
			o.note("const %s not found", n)
			continue
		}
		v, ok := p.constInt(e)
		if !ok {
			o.note("const %s not an integer constant", n)
			continue
		}
		o.pf("def const_%s : Int := %d\n", n, v)
	}
	o.pf("\n")
}

func (p *pkgFiles) strConsts(o *out, names []string) {
	for _, n := range names {
		e, ok := p.valueSpec(n)
		if !ok {
			o.note("const %s not found", n)
			continue
		}
		v, ok := p.constString(e)
		if !ok {
			// regexp.MustCompile(`...`)
			if ce, ok2 := e.(*ast.CallExpr); ok2 && len(ce.Args) == 1 {
				v, ok = p.constString(ce.Args[0])
			}
		}
		if !ok {
			o.note("const %s not a string constant", n)
			continue
		}
		o.pf("def str_%s : List UInt8 := %s\n", n, leanBytes(v))
	}
	o.pf("\n")
}

// mapLit emits a package-level map literal with string keys as a sorted association list.
func (p *pkgFiles) mapLit(o *out, name string, kind string) {
	e, ok := p.valueSpec(name)
	if !ok {
		o.note("map %s not found", name)
		return
	}
	cl, ok := e.(*ast.CompositeLit)
	if !ok {
		o.note("map %s is not a composite literal", name)
		return
	}
	type kv struct{ k, v string }
	var kvs []kv
	for _, el := range cl.Elts {
		ke, ok := el.(*ast.KeyValueExpr)
		if !ok {
			o.note("map %s: odd element", name)
			return
		}
		k, ok := p.constString(ke.Key)
		if !ok {
			o.note("map %s: non-constant key", name)
			return
		}
		var v string
		switch kind {
		case "int":
			n, ok := p.constInt(ke.Value)
			if !ok {
				o.note("map %s: non-constant value", name)
				return
			}
			v = fmt.Sprintf("%d", n)
		case "string":
			s, ok := p.constString(ke.Value)
			if !ok {
				o.note("map %s: non-constant value", name)
				return
			}
			v = leanBytes(s)
		case "keys":
			if id, ok := ke.Value.(*ast.Ident); !ok || id.Name != "nil" {
				o.note("map %s: non-nil value for %s", name, k)
				return
			}
			v = ""
		}
		kvs = append(kvs, kv{k, v})
	}
	sort.Slice(kvs, func(i, j int) bool { return kvs[i].k < kvs[j].k })
	switch kind {
	case "int":
		o.pf("def map_%s : List (List UInt8 × Nat) := [\n", name)
	case "string":
		o.pf("def map_%s : List (List UInt8 × List UInt8) := [\n", name)
	case "keys":
		o.pf("def map_%s : List (List UInt8) := [\n", name)
	}
	for i, e := range kvs {
		sep := ","
		if i == len(kvs)-1 {
			sep = ""
		}
		if kind == "keys" {
			o.pf("  %s%s -- %q\n", leanBytes(e.k), sep, e.k)
		} else {
			o.pf("  (%s, %s)%s -- %q\n", leanBytes(e.k), e.v, sep, e.k)
		}
	}
	o.pf("]\n\n")
}

// strSliceLit emits a package-level []string literal.
func (p *pkgFiles) strSliceLit(o *out, name string) {
	e, ok := p.valueSpec(name)
	if !ok {
		o.note("slice %s not found", name)
		return
	}
	cl, ok := e.(*ast.CompositeLit)
	if !ok {
		o.note("slice %s is not a composite literal", name)
		return
	}
	var items []string
	for _, el := range cl.Elts {
		s, ok := p.constString(el)
		if !ok {
			o.note("slice %s: non-constant element", name)
			return
		}
		items = append(items, leanBytes(s))
	}
	o.pf("def slice_%s : List (List UInt8) := [%s]\n\n", name, strings.Join(items, ", "))
}

// eventLiterals emits every `Event{...}` composite literal in the package: command expression, the source
// text of its Params, and whether it sets Sensitive: true.
func (p *pkgFiles) eventLiterals(o *out) {
	type lit struct {
		file, cmd, params string
		sens              bool
		line              int
	}
	var lits []lit
	var names []string
	for n := range p.files {
		names = append(names, n)
	}
	sort.Strings(names)
	for _, n := range names {
		f := p.files[n]
		ast.Inspect(f, func(nd ast.Node) bool {
			cl, ok := nd.(*ast.CompositeLit)
			if !ok {
				return true
			}
			id, ok := cl.Type.(*ast.Ident)
			if !ok || id.Name != "Event" {
				return true
			}
			l := lit{file: n, line: p.fset.Position(cl.Pos()).Line}
			for _, el := range cl.Elts {
				kv, ok := el.(*ast.KeyValueExpr)
				if !ok {
					continue
				}
				k, _ := kv.Key.(*ast.Ident)
				if k == nil {
					continue
				}
				switch k.Name {
				case "Command":
					l.cmd = p.src(kv.Value)
				case "Params":
					l.params = p.src(kv.Value)
				case "Sensitive":
					if v, ok := kv.Value.(*ast.Ident); ok && v.Name == "true" {
						l.sens = true
					}
				}
			}
			lits = append(lits, l)
			return true
		})
	}
	o.pf("/-- every `Event{…}` literal: (command expression, Params source text, Sensitive) -/\ndef eventLiterals : List (List UInt8 × List UInt8 × Bool) := [\n")
	for i, l := range lits {
		sep := ","
		if i == len(lits)-1 {
			sep = ""
		}
		o.pf("  (%s, %s, %v)%s -- %s:%d %s\n", leanBytes(l.cmd), leanBytes(l.params), l.sens, sep, l.file, l.line, l.cmd)
	}
	o.pf("]\n\n")
}

// structFields emits the fields of a struct type with a coarse kind: "value" (immutable/by-value),
// "slice", "map", "ptr", or "struct:<Name>" for a nested struct value.
func (p *pkgFiles) structFields(o *out, name string) {
	for _, f := range p.files {
		for _, d := range f.Decls {
			gd, ok := d.(*ast.GenDecl)
			if !ok || gd.Tok != token.TYPE {
				continue
			}
			for _, sp := range gd.Specs {
				ts := sp.(*ast.TypeSpec)
				st, ok := ts.Type.(*ast.StructType)
				if !ok || ts.Name.Name != name {
					continue
				}
				var items []string
				for _, fl := range st.Fields.List {
					kind := "value"
					switch t := fl.Type.(type) {
					case *ast.ArrayType:
						if t.Len == nil {
							kind = "slice"
						}
					case *ast.MapType:
						kind = "map"
					case *ast.StarExpr:
						kind = "ptr"
					case *ast.StructType:
						kind = "value" // anonymous struct of plain values (checked: no reference fields)
						for _, ff := range t.Fields.List {
							if id, ok := ff.Type.(*ast.Ident); !ok || id.Name != "string" {
								kind = "struct:anon"
							}
						}
					case *ast.Ident:
						if t.Name == "CModes" || t.Name == "UserPerms" {
							kind = "struct:" + t.Name
						}
					case *ast.SelectorExpr:
						kind = "value" // time.Time, sync.RWMutex
					}
					for _, n := range fl.Names {
						items = append(items, fmt.Sprintf("(%s, %s)", leanBytes(n.Name), leanBytes(kind)))
					}
					if len(fl.Names) == 0 {
						items = append(items, fmt.Sprintf("(%s, %s)", leanBytes("<embedded>"), leanBytes(kind)))
					}
				}
				o.pf("def fields_%s : List (List UInt8 × List UInt8) := [\n  %s]\n\n", name, strings.Join(items, ",\n  "))
				return
			}
		}
	}
	o.note("struct %s not found", name)
}

// copyFacts: in method `Copy` of recv, the fields of the new object that are assigned a freshly allocated value:
// `x.F = make(...)`, `x.F = <expr>.Copy()`, a composite literal `&T{F: make(...)}`.
func (p *pkgFiles) copyFacts(o *out, recv string) {
	fd := p.funcDecl("Copy", recv)
	if fd == nil {
		o.note("%s.Copy not found", recv)
		return
	}
	fresh := map[string]bool{}
	isFresh := func(e ast.Expr) bool {
		ce, ok := e.(*ast.CallExpr)
		if !ok {
			return false
		}
		if id, ok := ce.Fun.(*ast.Ident); ok && id.Name == "make" {
			return true
		}
		if se, ok := ce.Fun.(*ast.SelectorExpr); ok && se.Sel.Name == "Copy" {
			return true
		}
		return false
	}
	// only UNCONDITIONAL statements of the body count (a fresh allocation under an `if`, in a loop or behind an early return
	// of a branch is not taken on every path): the direct statements of the function body, and composite literals in them
	for _, st := range fd.Body.List {
		as, ok := st.(*ast.AssignStmt)
		if !ok {
			continue
		}
		for i, l := range as.Lhs {
			if se, ok := l.(*ast.SelectorExpr); ok && i < len(as.Rhs) && isFresh(as.Rhs[i]) {
				fresh[se.Sel.Name] = true
			}
		}
		for _, r := range as.Rhs {
			ast.Inspect(r, func(n ast.Node) bool {
				if _, isFn := n.(*ast.FuncLit); isFn {
					return false
				}
				if kv, ok := n.(*ast.KeyValueExpr); ok {
					if k, ok := kv.Key.(*ast.Ident); ok && isFresh(kv.Value) {
						fresh[k.Name] = true
					}
				}
				return true
			})
		}
	}
	var names []string
	for k := range fresh {
		names = append(names, k)
	}
	sort.Strings(names)
	var items []string
	for _, n := range names {
		items = append(items, leanBytes(n))
	}
	o.pf("def copyFresh_%s : List (List UInt8) := [%s]\n\n", recv, strings.Join(items, ", "))
}

// getterCopies: does the exported getter return `.Copy()` of what it looked up? True iff the body contains at
// least one expression denoting a TRACKED object (a lookupChannel/lookupUser call, an index into the state's channels
// / users maps, the value variable of a range over them) and EVERY such expression is the receiver of an immediate
// `.Copy()` call — one path handing out the live pointer makes it false.
func (p *pkgFiles) getterCopies(o *out, names []string) {
	var items []string
	for _, n := range names {
		fd := p.funcDecl(n, "Client")
		tracked, copied := 0, 0
		if fd != nil {
			var stack []ast.Node
			rangeVals := map[string]bool{}
			isStateMap := func(e ast.Expr) bool {
				se, ok := e.(*ast.SelectorExpr)
				return ok && (se.Sel.Name == "channels" || se.Sel.Name == "users")
			}
			ast.Inspect(fd.Body, func(nd ast.Node) bool {
				if nd == nil {
					stack = stack[:len(stack)-1]
					return true
				}
				isTracked := false
				switch x := nd.(type) {
				case *ast.RangeStmt:
					if isStateMap(x.X) {
						if id, ok := x.Value.(*ast.Ident); ok && id.Name != "_" {
							rangeVals[id.Name] = true
						}
					}
				case *ast.CallExpr:
					if se, ok := x.Fun.(*ast.SelectorExpr); ok && (se.Sel.Name == "lookupChannel" || se.Sel.Name == "lookupUser") {
						isTracked = true
					}
				case *ast.IndexExpr:
					if isStateMap(x.X) {
						isTracked = true
					}
				case *ast.Ident:
					if rangeVals[x.Name] {
						// uses of the range value variable (not its declaration in the RangeStmt header)
						if len(stack) > 0 {
							if rs, ok := stack[len(stack)-1].(*ast.RangeStmt); !(ok && rs.Value == ast.Expr(x)) {
								isTracked = true
							}
						}
					}
				}
				if isTracked {
					tracked++
					if len(stack) >= 2 {
						if se, ok := stack[len(stack)-1].(*ast.SelectorExpr); ok && se.Sel.Name == "Copy" && se.X == nd.(ast.Expr) {
							if ce, ok := stack[len(stack)-2].(*ast.CallExpr); ok && ce.Fun == ast.Expr(se) {
								copied++
							}
						}
					}
				}
				stack = append(stack, nd)
				return true
			})
		}
		items = append(items, fmt.Sprintf("(%s, %v)", leanBytes(n), tracked > 0 && tracked == copied))
	}
	o.pf("def getterCopies : List (List UInt8 × Bool) := [%s]\n\n", strings.Join(items, ", "))
}

// leanStr renders a Go string as a Lean string literal.
func leanStr(s string) string {
	var b strings.Builder
	b.WriteByte('"')
	for _, r := range s {
		switch {
		case r == '"':
			b.WriteString("\\\"")
		case r == '\\':
			b.WriteString("\\\\")
		case r == '\t':
			b.WriteString(" ")
		case r < 0x20 || r > 0x7e:
			if r <= 0xffff {
				fmt.Fprintf(&b, "\\u%04x", r)
			} else {
				b.WriteByte(0x3f)
			}
		default:
			b.WriteRune(r)
		}
	}
	b.WriteByte('"')
	return b.String()
}

// skeleton prints the statement skeleton of one function: its body as go/printer renders it without
// comments, one trimmed line per entry, debug-log statements removed. Any change to the function's
// control flow, calls, conditions or literals changes this list.
func (p *pkgFiles) skeleton(o *out, name, recv, leanName string) {
	fd := p.funcDecl(name, recv)
	if fd == nil || fd.Body == nil {
		die("skeleton: function %s.%s not found", recv, name)
	}
	var buf bytes.Buffer
	saved := fd.Doc
	fd.Doc = nil
	if err := printer.Fprint(&buf, p.fset, fd); err != nil {
		die("skeleton %s: %v", name, err)
	}
	fd.Doc = saved
	o.pf("def skel_%s : List String := [\n", leanName)
	first := true
	for _, l := range strings.Split(buf.String(), "\n") {
		l = strings.TrimSpace(l)
		if l == "" || strings.HasPrefix(l, "//") || strings.HasPrefix(l, "c.debug.Print") || strings.HasPrefix(l, "defer c.debug.Print") || strings.HasPrefix(l, "client.debug.Print") {
			continue
		}
		if !first {
			o.pf(",\n")
		}
		first = false
		o.pf("  %s", leanStr(l))
	}
	o.pf("]\n\n")
}

func writeIfChanged(path, content string) {
	if old, err := os.ReadFile(path); err == nil && string(old) == content {
		return // unchanged: keep Lake's cache valid
	}
	if err := os.MkdirAll(filepath.Dir(path), 0o755); err != nil {
		die("%v", err)
	}
	if err := os.WriteFile(path, []byte(content), 0o644); err != nil {
		die("%v", err)
	}
}

func main() {
	repo := flag.String("repo", "/repo", "repository root")
	skelPath := flag.String("skel", "", "output Lean file for the function skeletons (default: Skel.lean next to -out)")
	outPath := flag.String("out", "/verif/lean/Girc/Gen/Facts.lean", "output Lean file")
	locksPath := flag.String("locks", "", "output Lean file for the lock-discipline facts (default: LockFacts.lean next to -out)")
	locksOnly := flag.Bool("locks-only", false, "write only the lock-discipline facts (-locks) and exit")
	flag.Parse()

	p := load(*repo)
	if *locksOnly {
		if *locksPath == "" {
			*locksPath = filepath.Join(filepath.Dir(*outPath), "LockFacts.lean")
		}
		lockFacts(p, *repo, *locksPath)
		return
	}
	o := &out{}
	o.pf("/- GENERATED by tools/extract from the Go sources in %s — do not edit.\n   Regenerated on every check run; obligations about these facts live in Girc/Props/*.lean. -/\n", *repo)
	o.pf("namespace Girc.Gen\n\n")

	o.pf("/-! ## constants -/\n")
	p.intConsts(o, []string{"maxTagLength", "saslChunkSize", "maxWordSplitLength", "defaultNickLength",
		"defaultUserLength", "defaultHostLength", "defaultPrefixPadding", "DefaultMaxLineLength",
		"eventSpace", "messagePrefix", "prefixIdent", "prefixHost", "prefixTag", "prefixTagValue",
		"prefixUserTag", "tagSeparator", "ctcpDelim", "delim", "fmtOpenChar", "fmtCloseChar"})
	p.strConsts(o, []string{"capServerTimeFormat", "globChar", "reCode", "reColor", "ModeDefaults", "DefaultPrefixes",
		"OwnerPrefix", "AdminPrefix", "HalfOperatorPrefix", "OperatorPrefix", "VoicePrefix",
		"ModeOwner", "ModeAdmin", "ModeHalfOperator", "ModeOperator", "ModeVoice", "letterBytes"})

	o.pf("/-! ## tables -/\n")
	p.mapLit(o, "fmtColors", "int")
	p.mapLit(o, "fmtCodes", "string")
	p.mapLit(o, "possibleCap", "keys")
	p.strSliceLit(o, "tagDecode")
	p.strSliceLit(o, "tagEncode")

	o.pf("/-! ## byte predicates (if-conditions over one indexed byte, in source order) -/\n")
	p.bytePreds(o, [][2]string{{"IsValidNick", ""}, {"IsValidUser", ""}, {"IsValidChannel", ""}, {"ToRFC1459", ""},
		{"validTag", ""}, {"validTagValue", ""}, {"DecodeCTCP", ""}, {"parseCMD", "CTCP"}, {"IsValidChannelMode", ""}, {"Fmt", ""}})
	p.byteSliceLits(o, "IsValidChannel")

	o.pf("/-! ## snapshot copies -/\n")
	for _, n := range []string{"User", "Channel", "CModes", "UserPerms"} {
		p.structFields(o, n)
		p.copyFacts(o, n)
	}
	p.getterCopies(o, []string{"LookupUser", "LookupChannel", "Users", "Channels"})

	o.pf("/-! ## event literals -/\n")
	p.eventLiterals(o)

	o.pf("/-! ## cmdhandler -/\n")
	ch := load(filepath.Join(*repo, "cmdhandler"))
	ch.strConsts(o, []string{"cmdMatch", "validName"})

	o.pf("end Girc.Gen\n")

	// function skeletons (concurrency-relevant code), in their own module
	sk := &out{}
	sk.pf("/- GENERATED by tools/extract from the Go sources in %s — do not edit.\n   Statement skeletons of the functions the concurrency models (C06 C07 C12) are written against. -/\n", *repo)
	sk.pf("namespace Girc.Gen\n\n")
	for _, f := range [][3]string{
		{"internalConnect", "Client", "internalConnect"}, {"execLoop", "Client", "execLoop"}, {"readLoop", "Client", "readLoop"},
		{"sendLoop", "Client", "sendLoop"}, {"pingLoop", "Client", "pingLoop"}, {"Close", "Client", "Close"}, {"Quit", "Client", "Quit"},
		{"write", "Client", "write"}, {"receive", "Client", "receive"}, {"Send", "Client", "Send"}, {"decode", "ircConn", "decode"},
		{"RunHandlers", "Client", "RunHandlers"}, {"exec", "Caller", "exec"}, {"register", "Caller", "register"},
		{"sregister", "Caller", "sregister"}, {"remove", "Caller", "remove"}, {"Remove", "Caller", "Remove"},
		{"Clear", "Caller", "Clear"}, {"ClearAll", "Caller", "ClearAll"}, {"AddTmp", "Caller", "AddTmp"},
		{"Add", "Caller", "Add"}, {"AddBg", "Caller", "AddBg"}, {"AddHandler", "Caller", "AddHandler"},
		{"cuidToID", "Caller", "cuidToID"}, {"recoverHandlerPanic", "", "recoverHandlerPanic"},
		{"setEcho", "Client", "setEcho"}, {"reset", "state", "state_reset"}, {"Close", "ircConn", "ircConn_Close"}, {"Pong", "Commands", "Cmd_Pong"}, {"Ping", "Commands", "Cmd_Ping"}, {"handlePING", "", "handlePING"},
		// the outgoing path (C03 C16) and the transport-policy plumbing (C10)
		{"rate", "ircConn", "ircConn_rate"}, {"encode", "ircConn", "ircConn_encode"}, {"newConn", "", "newConn"},
		{"reset", "strictTransport", "sts_reset"}, {"expired", "strictTransport", "sts_expired"}, {"enabled", "strictTransport", "sts_enabled"},
		{"server", "Client", "Client_server"}} {
		p.skeleton(sk, f[0], f[1], f[2])
	}
	cg := load(filepath.Join(*repo, "internal/ctxgroup"))
	for _, f := range [][3]string{{"New", "", "ctxgroup_New"}, {"Wait", "Group", "ctxgroup_Wait"}, {"Go", "Group", "ctxgroup_Go"}} {
		cg.skeleton(sk, f[0], f[1], f[2])
	}
	sk.pf("end Girc.Gen\n")
	if *skelPath == "" {
		*skelPath = filepath.Join(filepath.Dir(*outPath), "Skel.lean")
	}
	writeIfChanged(*skelPath, sk.b.String())

	// translated function bodies (Girc/Gen/Funcs.lean), see translate.go
	translateAll(p, *repo, filepath.Join(filepath.Dir(*outPath), "Funcs.lean"))

	// lock-discipline facts (C12), in their own module
	if *locksPath == "" {
		*locksPath = filepath.Join(filepath.Dir(*outPath), "LockFacts.lean")
	}
	lockFacts(p, *repo, *locksPath)

	for _, n := range o.notes {
		fmt.Fprintln(os.Stderr, "extract: note:", n)
	}
	newContent := o.b.String()
	if old, err := os.ReadFile(*outPath); err == nil && string(old) == newContent {
		return // unchanged: keep Lake's cache valid
	}
	if err := os.MkdirAll(filepath.Dir(*outPath), 0o755); err != nil {
		die("%v", err)
	}
	if err := os.WriteFile(*outPath, []byte(newContent), 0o644); err != nil {
		die("%v", err)
	}
}
