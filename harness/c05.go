package main

import (
	"fmt"
	"strings"
)

func init() {
	props["C05"] = runC05
	runners["session"] = sessionRunner
}

// cfgFromIn / cfgToIn: session configs inside replayable input maps.
func cfgFromIn(in map[string]string) SessCfg {
	sc := SessCfg{Nick: in["nick"], User: in["nick"], AllowFlood: in["flood"] != "0", NickCollide: in["collide"], SASL: in["sasl"], SASLUser: in["sasluser"], SASLPass: in["saslpass"],
		DisableTracking: in["notrack"] == "1", DisableSTS: in["nosts"] == "1", DisableSTSFallback: in["nofallback"] == "1", SSL: in["ssl"] == "1", Version: in["version"], MutatingHandlers: in["scribblers"] == "1",
		ServerPass: in["serverpass"], GlobalFormat: in["globalformat"] == "1"}
	if in["webirc"] != "" {
		sc.WebIRC = strings.Split(in["webirc"], "\x00")
	}
	if in["caps"] != "" {
		sc.SupportedCaps = map[string][]string{}
		for _, item := range strings.Split(in["caps"], "\x01") {
			f := strings.Split(item, "\x00")
			sc.SupportedCaps[f[0]] = f[1:]
		}
	}
	return sc
}

func stepsFromIn(in map[string]string) []string {
	var n int
	fmt.Sscan(in["n"], &n)
	var steps []string
	for i := 0; i < n; i++ {
		steps = append(steps, in[fmt.Sprintf("s%d", i)])
	}
	return steps
}

func stepsToIn(in map[string]string, steps []string) {
	in["n"] = fmt.Sprint(len(steps))
	for i, s := range steps {
		in[fmt.Sprintf("s%d", i)] = s
	}
}

// sessionRunner: replayable form of a compared session. in: cfg fields, n, s0..s(n-1), optional "check".
func sessionRunner(c *Ctx, in map[string]string) {
	sc := cfgFromIn(in)
	steps := stepsFromIn(in)
	cmp := c.CompareSession(sc, steps, false, false)
	hin := hexIn(in)
	res := cmp.Res
	if res.Crashed {
		c.R.Violation("session.crash", hin, "process exited: "+firstLine(res.CrashOut), "", "the client process died while processing server input")
		return
	}
	if len(res.Panics) > 0 {
		c.R.Violation("session.panic", hin, strings.Join(res.Panics, "; "), "", "a handler panicked on server input")
	}
	if res.Wedged {
		c.R.Violation("session.wedged", hin, "no PONG / getter blocked", "", "the client stopped processing (PING unanswered or state lock held)")
		return
	}
	for _, d := range cmp.Diffs {
		c.R.Mismatch("session", hin, d, "")
	}
	if cmp.ModelF != "-" {
		c.R.Mismatch("session.modelfault", hin, "", cmp.ModelF)
	}
	// structural invariant of C05 on the implementation's own dumps
	for _, d := range cmp.ImplDump {
		if msg := checkInv(d); msg != "" {
			c.R.Violation("session.inv", hin, msg, "", "tracked state is structurally inconsistent")
		}
	}
	if f, ok := sessionChecks[in["check"]]; ok {
		f(c, in, hin, sc, steps, cmp)
	}
}

// property-specific predicates evaluated on the implementation's observable behaviour
var sessionChecks = map[string]func(c *Ctx, in, hin map[string]string, sc SessCfg, steps []string, cmp *SessCmp){}

func firstLine(s string) string {
	if i := strings.Index(s, "\n"); i >= 0 {
		return s[:i]
	}
	return s
}

// checkInv checks C05's structural invariant on a VerifDumpState dump.
func checkInv(d []string) string {
	type ch struct{ users []string }
	chans := map[string][]string{}
	users := map[string][]string{}
	split1 := func(s string) []string {
		if s == "" {
			return nil
		}
		return strings.Split(s, "\x01")
	}
	for _, l := range d {
		f := strings.Split(l, "\x00")
		switch f[0] {
		case "chan":
			chans[f[1]] = split1(f[4])
		case "user":
			users[f[1]] = split1(f[5])
			if len(split1(f[5])) == 0 {
				return "user " + f[1] + " retained without any channel"
			}
		}
	}
	sortedDupFree := func(l []string) bool {
		for i := 1; i < len(l); i++ {
			if !(l[i-1] < l[i]) {
				return false
			}
		}
		return true
	}
	for c, ul := range chans {
		if !sortedDupFree(ul) {
			return "user list of " + c + " not sorted/duplicate-free: " + fmt.Sprint(ul)
		}
		for _, u := range ul {
			cl, ok := users[u]
			if !ok {
				return "channel " + c + " lists unknown user " + u
			}
			if !contains(cl, c) {
				return "channel " + c + " lists " + u + " but the user does not list the channel"
			}
			if u != lowerRFC(u) {
				return "unfolded nick in list: " + u
			}
		}
	}
	for u, cl := range users {
		if !sortedDupFree(cl) {
			return "channel list of " + u + " not sorted/duplicate-free"
		}
		for _, c := range cl {
			ul, ok := chans[c]
			if !ok {
				return "user " + u + " lists unknown channel " + c
			}
			// (the dump joins list elements with 0x01, so a list holding exactly the empty name — a hostile
			// "NICK :" renames a user to "" — renders like the empty list; that one case is ambiguous, not wrong)
			if !contains(ul, u) && !(u == "" && len(ul) == 0) {
				return "user " + u + " lists " + c + " but the channel does not list the user"
			}
		}
	}
	return ""
}

func contains(l []string, x string) bool {
	for _, y := range l {
		if y == x {
			return true
		}
	}
	return false
}

func lowerRFC(s string) string {
	b := []byte(s)
	for i := range b {
		if b[i] >= 65 && b[i] <= 94 {
			b[i] += 32
		}
	}
	return string(b)
}

var hostileNicks = []string{"me", "ME", "bob", "Bob", "carl", "d[x]", "D{X}", "srv", "a", ""}
var hostileChans = []string{"#a", "#A", "#b", "&c", "#a{", "#A[", "", "x"}

// texts with formatting control codes in every truncated shape (each received line is also formatted for the debug log and Config.Out)
var hostileTexts = []string{"hi", "\x034,", "\x03", "\x0312,", "\x031,1x", "\x02bold\x0f", "a\x03", "\x0399,99", "\x034,x\x03,", "\x1f\x1d\x16\x0f\x02", "\x03\x03\x03", "x\x031", "\x03123,456", "{b}{red}x{c}", "\x01ACTION\x01", "\x01"}

func (r *RNG) hostileLine(nick string) string {
	n := func() string { return r.Pick(hostileNicks) }
	ch := func() string { return r.Pick(hostileChans) }
	src := func() string {
		switch r.Intn(6) {
		case 0:
			return ""
		case 1:
			return ":" + n() + " "
		default:
			return ":" + n() + "!" + r.Pick([]string{"u", "~u"}) + "@" + r.Pick([]string{"h", "host.x"}) + " "
		}
	}
	pfx := r.Pick([]string{"", "@", "+", "@+", "~&%@+", "%"})
	switch r.Intn(30) {
	case 0, 1, 2:
		return src() + "JOIN " + ch() + r.Pick([]string{"", " acct :Real Name", " * :R"})
	case 3, 4:
		return src() + "PART " + ch() + r.Pick([]string{"", " :bye"})
	case 5:
		return src() + "KICK " + ch() + " " + n() + r.Pick([]string{"", " :out"})
	case 6:
		return src() + "QUIT" + r.Pick([]string{"", " :gone"})
	case 7, 8:
		return src() + "NICK " + r.Pick([]string{n(), ":" + n(), ""})
	case 9, 10, 11:
		var names []string
		for k := r.Intn(4); k >= 0; k-- {
			e := pfx + n()
			if r.Chance(30) {
				e += "!u@h"
			}
			names = append(names, e)
		}
		return ":srv 353 " + nick + " = " + ch() + " :" + strings.Join(names, " ")
	case 12, 13:
		return src() + "MODE " + ch() + " " + r.Pick([]string{"+m", "-m", "+o", "-o", "+ov", "+k", "-k", "+l", "+b", "+mk-o", "+q", "+ah"}) + r.Pick([]string{"", " " + n(), " " + n() + " " + n(), " key"})
	case 14:
		return ":srv 324 " + nick + " " + ch() + " " + r.Pick([]string{"+mk key", "+l 5", "+", ""})
	case 15:
		return src() + "TOPIC " + ch() + r.Pick([]string{"", " :new topic"})
	case 16:
		return ":srv 332 " + nick + " " + ch() + " :" + r.Pick(append([]string{"the topic"}, hostileTexts...))
	case 17:
		return ":srv 352 " + nick + " " + ch() + " u h srv " + n() + " H :0 Real"
	case 18:
		return ":srv 354 " + nick + " " + r.Pick([]string{"1", "2"}) + " " + ch() + " u h " + n() + " " + r.Pick([]string{"0", "acct"}) + " :Real"
	case 19:
		return src() + "AWAY" + r.Pick([]string{"", " :brb"})
	case 20:
		return src() + "ACCOUNT " + r.Pick([]string{"*", "acct", ""})
	case 21:
		return src() + "CHGHOST nu nh"
	case 22:
		return "@account=" + r.Pick([]string{"x", "a\\sb", ""}) + " " + src() + r.Pick([]string{"PRIVMSG ", "NOTICE ", "TOPIC "}) + ch() + " :" + r.Pick(hostileTexts)
	case 23:
		return ":srv 005 " + nick + " " + r.Pick([]string{"CHANMODES=beI,k,l,imnpst PREFIX=(qaohv)~&@%+", "NICKLEN=20 LINELEN=1024", "PREFIX=(ov", "CHANMODES=b,k", "NETWORK=X HOSTLEN=abc"}) + " :are supported by this server"
	case 24:
		return ":srv " + r.Pick([]string{"004", "375", "372", "433", "436", "437", "903", "904", "908", "902"}) + " " + nick + r.Pick([]string{"", " a", " a b c", " :x y"})
	case 25:
		return src() + "PRIVMSG " + r.Pick([]string{nick, ch()}) + " :\x01" + r.Pick([]string{"VERSION", "PING 123", "ACTION waves", "FOO", "ping", "SOURCE", "PONG", ""}) + "\x01"
	case 26:
		return src() + "CAP " + nick + " " + r.Pick([]string{"LS", "ACK", "NAK", "NEW", "DEL", "LS *"}) + r.Pick([]string{"", " :multi-prefix sasl", " :foo=bar", " :account-tag away-notify"})
	case 27:
		return "AUTHENTICATE " + r.Pick([]string{"+", "x", ""})
	default:
		// truncated / overlong variants of everything the client reacts to
		cmd := r.Pick([]string{"JOIN", "PART", "KICK", "QUIT", "NICK", "353", "MODE", "324", "352", "354", "TOPIC", "332", "004", "005", "375", "372", "CAP", "CHGHOST", "AWAY", "ACCOUNT", "AUTHENTICATE", "903", "904", "433", "001", "PING", "PONG", "ERRORX"})
		np := r.Intn(10)
		var ps []string
		for k := 0; k < np; k++ {
			ps = append(ps, r.Pick([]string{n(), ch(), "1", "*", "=", "+o", "x"}))
		}
		l := src() + cmd
		if len(ps) > 0 {
			l += " " + strings.Join(ps, " ")
		}
		return l
	}
}

func runC05(c *Ctx) {
	runModeSyntax(c)
	r := c.R
	r.Rule = "hostile histories on a real client (MockConnect over net.Pipe, RecoverFunc recording, worker subprocess so a crash is an observation, barrier PING + getter liveness after every line): " +
		"(i) EXHAUSTIVE registry x 0..9 params x source present/absent x account-tag; (ii) random sequences from small colliding name pools (case variants, NICK onto existing nicks, replies for unknown channels, " +
		"source-less lines, CTCP without source, SASL/CAP out of sequence); each compared line-by-line and state-dump-by-dump with the Lean model, and the implementation's dumps checked against the structural invariant; " +
		"non-trivial = history has >= 3 lines that touch state; distinct = distinct history"
	nick := "me"
	base := []string{"R:srv 001 me :Welcome", "R:me!u@h JOIN #a", "R:srv 353 me = #a :me @bob +Carl"}
	run := func(steps []string, cls string) {
		in := map[string]string{"nick": nick}
		stepsToIn(in, steps)
		c.run("session", in)
		r.Count(strings.Join(steps, "\n"), len(steps) >= 4, cls)
		r.Traces++
	}
	// (i) exhaustive small: every command the client reacts to, too few / too many params, with/without source and account tag
	cmds := []string{"JOIN", "PART", "KICK", "QUIT", "NICK", "353", "MODE", "324", "352", "354", "TOPIC", "332", "004", "005", "375", "372", "PRIVMSG", "NOTICE",
		"CAP", "CHGHOST", "AWAY", "ACCOUNT", "AUTHENTICATE", "903", "902", "904", "905", "906", "908", "433", "436", "437", "001", "PING", "PONG",
		// (everything the log formatter Event.Pretty looks into as well: it runs for every event when Config.Out is set)
		"INVITE", "002", "003", "251", "ERROR", "SETNAME", "BATCH", "TAGMSG", "WALLOPS", "366", "315", "329", "333"}
	for _, cmd := range cmds {
		for np := 0; np <= 9; np++ {
			ps := []string{"me", "#a", "bob", "1", "x", "y", "z", "w", "v"}[:np]
			for _, src := range []string{"", ":bob!b@h ", ":srv "} {
				for _, tag := range []string{"", "@account=acct "} {
					if c.Tier != "thorough" && tag != "" && np%3 != 0 {
						continue
					}
					l := tag + src + cmd
					if np > 0 {
						l += " " + strings.Join(ps, " ")
					}
					steps := append(append([]string{}, base...), "R"+l, "D")
					run(steps, "registry-exhaustive")
				}
			}
		}
	}
	r.Exhaustive = true
	// (ii) random hostile histories
	for i := 0; i < 150*c.Scale; i++ {
		steps := append([]string{}, base...)
		if c.Rng.Chance(20) {
			steps = steps[:1]
		}
		for k := 3 + c.Rng.Intn(12); k > 0; k-- {
			steps = append(steps, "R"+c.Rng.hostileLine(nick))
			if c.Rng.Chance(15) {
				steps = append(steps, "D")
			}
		}
		steps = append(steps, "D")
		run(steps, "hostile-random")
		if i < 2 {
			r.Sample(steps)
		}
	}
	// (i-b) the rarely taken negotiation branch: a connection made shortly after a FAILED transport upgrade (the client then
	// leaves the policy out of its request) must negotiate, register, answer a PING and end on Close like any other
	c.run("stsfailedthenclose", map[string]string{"scenario": "ack, refused redial, plain session with PING, Close"})
	r.Traces++
	// (ii-b) churn: ONE other nick, two channels, the client itself joining and leaving (PART, KICK by an untracked source),
	// the other user speaking, leaving, coming back in the same or another spelling — create/delete/re-create cycles of the
	// same identity, where anything remembered about a deleted object shows
	for i := 0; i < 120*c.Scale; i++ {
		steps := []string{"R:srv 001 me :Welcome"}
		chs := []string{"#a", "#b"}
		who := func() string { return c.Rng.Pick([]string{"bob", "bob", "bob", "Bob", "carl"}) }
		for k := 8 + c.Rng.Intn(14); k > 0; k-- {
			ch := c.Rng.Pick(chs)
			switch c.Rng.Intn(12) {
			case 0, 1:
				steps = append(steps, "R:me!u@h JOIN "+ch, "R:srv 353 me = "+ch+" :me"+c.Rng.Pick([]string{"", " @bob", " bob +carl"}))
			case 2:
				steps = append(steps, "R:me!u@h PART "+ch)
			case 3:
				steps = append(steps, "R:"+c.Rng.Pick([]string{"srv", "chanserv!s@services", "bob!u@h"})+" KICK "+ch+" me :out")
			case 4, 5:
				steps = append(steps, "R:"+who()+"!u@h JOIN "+ch)
			case 6, 7:
				steps = append(steps, "R:"+who()+"!u@h "+c.Rng.Pick([]string{"PRIVMSG", "NOTICE", "TOPIC"})+" "+ch+" :words")
			case 8:
				steps = append(steps, "R:"+who()+"!u@h "+c.Rng.Pick([]string{"PART " + ch, "QUIT :bye", "NICK " + who()}))
			case 9:
				steps = append(steps, "R:srv 353 me = "+ch+" :"+who()+" me")
			case 10:
				steps = append(steps, "R:srv KICK "+ch+" "+who()+" :out")
			default:
				steps = append(steps, "R:"+who()+"!u@h PRIVMSG me :private words")
			}
			if c.Rng.Chance(25) {
				steps = append(steps, "D")
			}
		}
		steps = append(steps, "D", "R:me!u@h PART #a", "R:me!u@h PART #b", "D")
		run(steps, "churn")
	}
	// (iii) directed: NICK between spellings that are / are not the same identity under the RFC1459 fold (ASCII case
	// AND [ ] \ ^ vs { } | ~), for a user in two channels next to another user whose nick collides; then the renamed user leaves
	spell := []string{"d[x]", "D{X}", "d{x}", "D[X]", "a^b", "A~B", "x\\y", "X|Y", "bob", "BOB", "carl"}
	for i, from := range spell {
		for j, to := range spell {
			if c.Tier != "thorough" && (i*len(spell)+j+int(c.R.Seed))%3 != 0 {
				continue
			}
			steps := []string{"R:srv 001 me :Welcome", "R:me!u@h JOIN #a", "R:srv 353 me = #a :me @" + from + " +carl",
				"R:me!u@h JOIN #b", "R:srv 353 me = #b :me " + from + " @BOB",
				"R:" + from + "!u@h NICK " + to, "D",
				"R:" + c.Rng.Pick([]string{to, from, lowerRFC(to)}) + "!u@h " + c.Rng.Pick([]string{"PART #a", "QUIT :bye", "PART #b", "NICK " + from}), "D",
				"R:me!u@h PART #a", "D"}
			run(steps, "rename-spellings")
		}
	}
	// (iii-b) directed: a privilege change naming a user who is tracked but NOT a member of that channel, who then joins it,
	// leaves again by every route, and finally the client leaves the channel
	for _, flag := range []string{"+v", "+o", "+ov", "-o", "+b"} {
		for _, leave := range []string{"QUIT :bye", "PART #a", "NICK bobby", "KICK"} {
			if c.Tier != "thorough" && (len(flag)+len(leave)+int(c.R.Seed))%2 != 0 {
				continue
			}
			steps := []string{"R:srv 001 me :Welcome", "R:me!u@h JOIN #a", "R:srv 353 me = #a :me @carl", "R:me!u@h JOIN #b", "R:srv 353 me = #b :me bob",
				"R:carl!u@h MODE #a " + flag + " bob bob", "D", "R:bob!u@h JOIN #a", "D"}
			if leave == "KICK" {
				steps = append(steps, "R:carl!u@h KICK #a bob :out", "D")
			} else {
				steps = append(steps, "R:bob!u@h "+leave, "D")
			}
			steps = append(steps, "R:bob!u@h PART #b", "D", "R:me!u@h PART #a", "D", "R:me!u@h PART #b", "D")
			run(steps, "mode-nonmember")
		}
	}
	// (iii-c) directed: capability traffic after a completed negotiation (cap-notify NEW/DEL, a second LS, late ACK/NAK)
	for _, tail := range [][]string{
		{"R:srv CAP me NEW :away-notify", "R:srv CAP me ACK :away-notify", "R:srv CAP me DEL :away-notify", "R:srv CAP me NEW :batch extended-join"},
		{"R:srv CAP me LS * :account-tag", "R:srv CAP me LS :chghost", "R:srv CAP me ACK :account-tag chghost", "R:srv CAP me NEW :server-time"},
		{"R:srv CAP me NAK :foo", "R:srv CAP me NEW :multi-prefix", "R:srv CAP me DEL :multi-prefix message-tags", "R:srv CAP me NEW :message-tags=x"},
		{"R:srv CAP me ACK :", "R:srv CAP me NEW :", "R:srv CAP me NEW", "R:srv CAP me DEL", "R:srv CAP me LS"},
	} {
		steps := []string{"R:srv CAP * LS :multi-prefix message-tags", "R:srv CAP * ACK :multi-prefix message-tags", "R:srv 001 me :Welcome", "D"}
		steps = append(steps, tail...)
		steps = append(steps, "D", "R:me!u@h JOIN #a", "D")
		run(steps, "cap-after-negotiation")
	}
	// (iv) directed: malformed ISUPPORT values for the tokens the tracker consumes, then the events that use them
	for _, tok := range []string{"PREFIX=(", "PREFIX=()", "PREFIX=)", "PREFIX=)(", "PREFIX=(o", "PREFIX=(o)", "PREFIX=(ov)@", "PREFIX=(o)@+", "PREFIX=",
		"PREFIX", "PREFIX=((ov))@+", "PREFIX=(ov)@+x", "PREFIX=(qaohv)~&@%+", "PREFIX=@+", "PREFIX=(ov)", "PREFIX=(\x01)\x01",
		"CHANMODES=", "CHANMODES=,", "CHANMODES=,,,", "CHANMODES=b,k,l", "CHANMODES=b,k,l,imn,extra", "CHANMODES=(", "CHANMODES=beI,k,l,imnpst,",
		"CHANMODES=b k", "CHANTYPES=", "CASEMAPPING=ascii", "CASEMAPPING=rfc1459", "CASEMAPPING=", "CASEMAPPING=ascii PREFIX=(ov)@+", "NICKLEN=", "NICKLEN=-1", "NICKLEN=99999999999999999999", "LINELEN=0", "LINELEN=-5", "LINELEN=2", "HOSTLEN=x", "USERLEN=0"} {
		steps := []string{"R:srv 001 me :Welcome", "R:srv 005 me " + tok + " :are supported by this server", "D",
			"R:me!u@h JOIN #n", "D", "R:srv 353 me = #n :me @bob +carl ~dan &eve %fay @+gus d[x] e^f", "D",
			"R:srv MODE #n +ov-v bob carl gus", "R:srv 324 me #n +ntkl key 5", "D", "R:bob!u@h PRIVMSG #n :hi", "D",
			"R:D{X}!u@h PART #n", "D", "R:d[x]!u@h JOIN #N", "R:E~F!u@h NICK e^g", "D", "R:d{x}!u@h QUIT :bye", "D"}
		run(steps, "isupport-malformed")
	}
}
