import Girc.Proofs.InvBase
namespace Girc.Proofs.InvJoin
open Girc Girc.Model Girc.Spec

theorem handleJOIN_inv (cfg : Cfg) (st : St) (e : Event) (h : Inv st) :
    ∃ st' outs, handleJOIN cfg st e = .ok (st', outs) ∧ Inv st' := by
  sorry

theorem handleNAMES_inv (st : St) (e : Event) (h : Inv st) :
    ∃ st', handleNAMES st e = .ok st' ∧ Inv st' := by
  sorry

end Girc.Proofs.InvJoin
