import Girc.Proofs.TransModes2
/-
  Translator equivalence, modes.go: (*Perms).reset / set / setFromMode (pointer receivers: the generated functions
  return the new pointee), Perms.IsAdmin / IsTrusted.
-/
set_option linter.unusedSimpArgs false
namespace Girc.Proofs.Trans
open Girc Girc.Model Girc.Go Girc.Gen

theorem Perms_reset_eq (p : Perms) : Fn.Perms_reset (some p) = .ok (some {}) := by
  cases p; rfl

theorem Perms_reset_nil : Fn.Perms_reset none = .error .nilDeref := rfl

/-- One prefix symbol of `Perms.set`. -/
def permsStep (p : Perms) (b : Byte) : Perms :=
  if b = 0x7E then { p with owner := true }
  else if b = 0x26 then { p with admin := true }
  else if b = 0x40 then { p with op := true }
  else if b = 0x25 then { p with halfop := true }
  else if b = 0x2B then { p with voice := true }
  else p

theorem permsFromPrefix_fold (s : Bytes) : permsFromPrefix s = s.foldl permsStep {} := rfl

theorem prefixSw : ∀ c : UInt8,
    (strOfByte c == Fn.OwnerPrefix) = decide (c = 0x7E) ∧ (strOfByte c == Fn.AdminPrefix) = decide (c = 0x26) ∧
    (strOfByte c == Fn.OperatorPrefix) = decide (c = 0x40) ∧ (strOfByte c == Fn.HalfOperatorPrefix) = decide (c = 0x25) ∧
    (strOfByte c == Fn.VoicePrefix) = decide (c = 0x2B) := by
  decide +kernel

theorem Perms_set_loop1_eq (s : Bytes) : ∀ (fuel n : Nat) (p : Perms),
    n ≤ s.length → s.length - n < fuel →
    Fn.Perms_set_loop1 s fuel (some p) (n : Int) = .ok (.done (some ((s.drop n).foldl permsStep p)))
  | 0, _, _, _, h => by omega
  | fuel + 1, n, p, hn, hf => by
    unfold Fn.Perms_set_loop1
    by_cases hlt : n < s.length
    · obtain ⟨c, hd, hat, _⟩ := atI_step s n hlt
      have hc : decide ((n : Int) < len s) = true := by dec_tac
      have e1 : ((n : Int) + 1) = ((n + 1 : Nat) : Int) := by omega
      obtain ⟨w1, w2, w3, w4, w5⟩ := prefixSw c
      simp only [hc, hat, bind, Except.bind, pure, Except.pure, Bool.not_true, Bool.false_eq_true, if_false,
        w1, w2, w3, w4, w5, deref_some]
      rw [hd, List.foldl_cons]
      have ih : ∀ p', Fn.Perms_set_loop1 s fuel (some p') ((n : Int) + 1) =
          .ok (.done (some ((s.drop (n + 1)).foldl permsStep p'))) := by
        intro p'; rw [e1]; exact Perms_set_loop1_eq s fuel (n + 1) p' (by omega) (by omega)
      by_cases h1 : c = 0x7E
      · have hv : permsStep p c = { p with owner := true } := by simp [permsStep, h1]
        rw [hv]; simp [h1, ih]
      · by_cases h2 : c = 0x26
        · have hv : permsStep p c = { p with admin := true } := by simp [permsStep, h1, h2]
          rw [hv]; simp [h1, h2, ih]
        · by_cases h3 : c = 0x40
          · have hv : permsStep p c = { p with op := true } := by simp [permsStep, h1, h2, h3]
            rw [hv]; simp [h1, h2, h3, ih]
          · by_cases h4 : c = 0x25
            · have hv : permsStep p c = { p with halfop := true } := by simp [permsStep, h1, h2, h3, h4]
              rw [hv]; simp [h1, h2, h3, h4, ih]
            · by_cases h5 : c = 0x2B
              · have hv : permsStep p c = { p with voice := true } := by simp [permsStep, h1, h2, h3, h4, h5]
                rw [hv]; simp [h1, h2, h3, h4, h5, ih]
              · have hv : permsStep p c = p := by simp [permsStep, h1, h2, h3, h4, h5]
                rw [hv]; simp [h1, h2, h3, h4, h5, ih]
    · have hc : decide ((n : Int) < len s) = false := by dec_tac
      have : s.drop n = [] := by simp; omega
      simp [hc, this, pure, Except.pure]

/-- `set(prefix, add)`: with `add = false` the permissions are reset first. -/
theorem Perms_set_go (p : Perms) (s : Bytes) (add : Bool) :
    Fn.Perms_set (some p) s add = .ok (some (s.foldl permsStep (if add then p else {}))) := by
  unfold Fn.Perms_set
  cases add with
  | true =>
    have hl := Perms_set_loop1_eq s (fuelTo 0 (len s)) 0 p (by omega) (by fuel_tac)
    simp only [Int.natCast_zero, List.drop_zero] at hl
    simp [hl, bind, Except.bind, pure, Except.pure]
  | false =>
    have hl := Perms_set_loop1_eq s (fuelTo 0 (len s)) 0 {} (by omega) (by fuel_tac)
    simp only [Int.natCast_zero, List.drop_zero] at hl
    simp [hl, Perms_reset_eq, bind, Except.bind, pure, Except.pure]

theorem Perms_set_eq (p : Perms) (s : Bytes) : Fn.Perms_set (some p) s false = .ok (some (permsFromPrefix s)) := by
  rw [Perms_set_go, permsFromPrefix_fold]; rfl

theorem modeSw : ∀ c : UInt8,
    (strOfByte c == Fn.ModeOwner) = decide (c = 0x71) ∧ (strOfByte c == Fn.ModeAdmin) = decide (c = 0x61) ∧
    (strOfByte c == Fn.ModeOperator) = decide (c = 0x6F) ∧ (strOfByte c == Fn.ModeHalfOperator) = decide (c = 0x68) ∧
    (strOfByte c == Fn.ModeVoice) = decide (c = 0x76) := by
  decide +kernel

theorem Perms_setFromMode_eq (p : Perms) (m : CMode) :
    Fn.Perms_setFromMode (some p) m = .ok (some (p.setFromMode m)) := by
  unfold Fn.Perms_setFromMode Perms.setFromMode
  obtain ⟨w1, w2, w3, w4, w5⟩ := modeSw m.name
  simp only [bind, Except.bind, pure, Except.pure, w1, w2, w3, w4, w5, deref_some]
  by_cases h1 : m.name = 0x71
  · simp [h1]
  · by_cases h2 : m.name = 0x61
    · simp [h1, h2]
    · by_cases h3 : m.name = 0x6F
      · simp [h1, h2, h3]
      · by_cases h4 : m.name = 0x68
        · simp [h1, h2, h3, h4]
        · by_cases h5 : m.name = 0x76
          · simp [h1, h2, h3, h4, h5]
          · simp [h1, h2, h3, h4, h5]

theorem Perms_IsAdmin_eq (p : Perms) : Fn.Perms_IsAdmin p = .ok (p.owner || p.admin || p.op) := by
  unfold Fn.Perms_IsAdmin
  cases p.owner <;> cases p.admin <;> cases p.op <;> rfl

theorem Perms_IsTrusted_eq (p : Perms) :
    Fn.Perms_IsTrusted p = .ok (p.owner || p.admin || p.op || p.halfop || p.voice) := by
  unfold Fn.Perms_IsTrusted
  rw [Perms_IsAdmin_eq]
  cases p.owner <;> cases p.admin <;> cases p.op <;> cases p.halfop <;> cases p.voice <;> rfl

end Girc.Proofs.Trans
