import Girc.Proofs.TransEventBytes
import Girc.Proofs.TransEventHelpers
import Girc.Proofs.TransSlices
import Girc.Model.Split
/-
  Translator equivalence, phase 4: (*Source).Copy, (*Event).Copy (value level) and (*Event).split against the
  model `eventSplit` of Model/Split.lean.  `splitMessage` is a MODEL CALLEE (translate.go `modelCalleeTable`): the
  generated `Fn.Event_split` calls `Girc.Model.splitMessageGo isURL`, so the theorem is "the event side of the
  splitter is the model's, given the model's text splitter" — the C11 correspondence stream compares the text
  splitter itself with Go.

  Value level: a `*Event` is `Option Event`; pointer identity is outside the model.  Where the Go code returns the
  very pointer `e` (`[]*Event{e}`) the generated function returns `[some e]`; where it returns fresh copies, the
  copies are equal VALUES.  `Tags` is an association list: `Copy` rebuilds the map entry by entry, which gives the
  same list back exactly when the keys are unique (the representation invariant of a Go map).
-/
set_option linter.unusedSimpArgs false
namespace Girc.Proofs.Trans
open Girc Girc.Model Girc.Go Girc.Gen

/-! ### (*Source).Copy -/

theorem Source_Copy_nil : Fn.Source_Copy none = .ok none := rfl

theorem Source_Copy_eq (s : Source) : Fn.Source_Copy (some s) = .ok (some s) := by
  cases s; rfl

theorem Source_Copy_opt (s : Option Source) : Fn.Source_Copy s = .ok s := by
  cases s with
  | none => rfl
  | some s => exact Source_Copy_eq s

/-! ### (*Event).Copy -/

/-- What `Copy` builds from the tags: a fresh map filled key by key, in the order the keys are visited. -/
def tagsCopy (m : Tags) : Tags :=
  (AMap.keys m).foldl (fun acc k => AMap.set acc k ((AMap.get? m k).getD [])) []

theorem Event_Copy_loop1_eq (ev : Event) : ∀ (keys : List Bytes) (fuel : Nat) (ne : Event) (t0 : Tags),
    keys.length < fuel → ne.tags = some t0 →
    Fn.Event_Copy_loop1 (some ev) fuel keys (some ne) =
      .ok (.done (some { ne with tags := some (keys.foldl (fun acc k => AMap.set acc k (mapGet ev.tags k)) t0) }))
  | _, 0, _, _, h, _ => by omega
  | [], fuel + 1, ne, t0, _, ht => by
    unfold Fn.Event_Copy_loop1
    simp only [bind, Except.bind, pure, Except.pure, List.foldl_nil]
    cases ne; simp_all
  | k :: ks, fuel + 1, ne, t0, h, ht => by
    unfold Fn.Event_Copy_loop1
    simp only [deref_some, bind, Except.bind, pure, Except.pure, ht, mapSet_some]
    rw [Event_Copy_loop1_eq ev ks fuel _ (AMap.set t0 k (mapGet ev.tags k)) (by simp at h; omega) rfl]
    simp only [List.foldl_cons]

theorem copyA_replicate {α : Type} (z : α) (l : List α) : copyA (List.replicate l.length z) l = l :=
  copyA_full _ _ (by simp)

theorem Event_Copy_nil : Fn.Event_Copy none = .ok none := rfl

/-- Exact value of `Copy`. -/
theorem Event_Copy_go (e : Event) :
    Fn.Event_Copy (some e) = .ok (some { e with tags := e.tags.map tagsCopy }) := by
  unfold Fn.Event_Copy
  simp only [Option.isNone_some, Bool.false_eq_true, if_false, deref_some, bind, Except.bind, pure, Except.pure,
    Source_Copy_opt]
  -- the source
  cases hs : e.source with
  | none =>
    simp only [Option.isSome_none, Bool.false_eq_true, if_false]
    cases hp : e.params with
    | nil =>
      simp only [sliceIsNil, List.isEmpty_nil, Bool.not_true, Bool.false_eq_true, if_false]
      cases ht : e.tags with
      | none =>
        simp only [Option.isSome_none, Bool.false_eq_true, if_false, Option.map_none]
      | some m =>
        simp only [Option.isSome_some, if_true, mapKeys]
        rw [Event_Copy_loop1_eq e (AMap.keys m) _ _ [] (by omega) rfl]
        simp only [Option.map_some, tagsCopy, ht, mapGet]
    | cons p ps =>
      have hm := makeA_len ([] : Bytes) (p :: ps)
      simp only [sliceIsNil, List.isEmpty_cons, Bool.not_false, if_true, hm, copyA_replicate]
      cases ht : e.tags with
      | none =>
        simp only [Option.isSome_none, Bool.false_eq_true, if_false, Option.map_none]
      | some m =>
        simp only [Option.isSome_some, if_true, mapKeys]
        rw [Event_Copy_loop1_eq e (AMap.keys m) _ _ [] (by omega) rfl]
        simp only [Option.map_some, tagsCopy, ht, mapGet]
  | some s =>
    simp only [Option.isSome_some, if_true]
    cases hp : e.params with
    | nil =>
      simp only [sliceIsNil, List.isEmpty_nil, Bool.not_true, Bool.false_eq_true, if_false]
      cases ht : e.tags with
      | none =>
        simp only [Option.isSome_none, Bool.false_eq_true, if_false, Option.map_none]
      | some m =>
        simp only [Option.isSome_some, if_true, mapKeys]
        rw [Event_Copy_loop1_eq e (AMap.keys m) _ _ [] (by omega) rfl]
        simp only [Option.map_some, tagsCopy, ht, mapGet]
    | cons p ps =>
      have hm := makeA_len ([] : Bytes) (p :: ps)
      simp only [sliceIsNil, List.isEmpty_cons, Bool.not_false, if_true, hm, copyA_replicate]
      cases ht : e.tags with
      | none =>
        simp only [Option.isSome_none, Bool.false_eq_true, if_false, Option.map_none]
      | some m =>
        simp only [Option.isSome_some, if_true, mapKeys]
        rw [Event_Copy_loop1_eq e (AMap.keys m) _ _ [] (by omega) rfl]
        simp only [Option.map_some, tagsCopy, ht, mapGet]

/-- Filling a fresh map key by key gives the same association list back when the keys are unique. -/
theorem tagsCopy_aux (m : Tags) : ∀ (rest pre : Tags), m = pre ++ rest → (AMap.keys m).Nodup →
    (AMap.keys rest).foldl (fun acc k => AMap.set acc k ((AMap.get? m k).getD [])) pre = m
  | [], pre, hm, _ => by simp [AMap.keys, hm]
  | (k, v) :: r, pre, hm, hnd => by
    have hnotin : ∀ p ∈ pre, p.1 ≠ k := by
      intro p hp hpk
      rw [hm] at hnd
      simp only [AMap.keys, List.map_append, List.map_cons] at hnd
      have := (List.nodup_append.mp hnd).2.2 p.1 (List.mem_map_of_mem hp) k (by simp)
      exact this hpk
    have hany : pre.any (fun p => p.1 == k) = false := by
      rw [List.any_eq_false]
      intro p hp
      simpa using hnotin p hp
    have hlook : AMap.get? m k = some v := by
      rw [hm]
      unfold AMap.get?
      rw [List.lookup_append]
      have : List.lookup k pre = none := by
        rw [List.lookup_eq_none_iff]
        intro p hp
        have h0 := hnotin p hp
        simp only [bne_iff_ne, ne_eq]
        exact fun h => h0 h.symm
      rw [this, Option.none_or]
      simp [List.lookup]
    simp only [AMap.keys, List.map_cons, List.foldl_cons, hlook, Option.getD_some]
    have hset : AMap.set pre k v = pre ++ [(k, v)] := by
      unfold AMap.set
      simp [hany]
    rw [hset]
    exact tagsCopy_aux m r (pre ++ [(k, v)]) (by simp [hm]) hnd

theorem tagsCopy_id (m : Tags) (h : (AMap.keys m).Nodup) : tagsCopy m = m :=
  tagsCopy_aux m m [] rfl h

/-- The representation invariant of a Go map: the association list has unique keys. -/
def tagsUnique (t : Option Tags) : Prop := ∀ m, t = some m → (AMap.keys m).Nodup

/-- Value level: the copy EQUALS the argument (for a well-formed tag map). -/
theorem Event_Copy_eq (e : Event) (h : tagsUnique e.tags) : Fn.Event_Copy (some e) = .ok (some e) := by
  rw [Event_Copy_go]
  cases ht : e.tags with
  | none => cases e; simp_all
  | some m =>
    have := tagsCopy_id m (h m ht)
    cases e; simp_all

/-! ### (*Event).split -/

theorem set_last {α : Type} (l : List α) (x : α) (h : l ≠ []) : l.set (l.length - 1) x = l.dropLast ++ [x] := by
  induction l with
  | nil => exact absurd rfl h
  | cons a t ih =>
    cases t with
    | nil => rfl
    | cons b t' =>
      have := ih (by simp)
      simp only [List.length_cons, Nat.add_sub_cancel] at this ⊢
      simp only [List.set_cons_succ, List.dropLast_cons_cons, List.cons_append]
      rw [← this]

theorem setA_last {α : Type} (l : List α) (n : Nat) (x : α) (h : l ≠ []) (hn : n = l.length) :
    setA l ((n : Int) - 1) x = .ok (l.dropLast ++ [x]) := by
  have hl : 0 < l.length := List.length_pos_iff.mpr h
  have e : (n : Int) - 1 = ((l.length - 1 : Nat) : Int) := by omega
  rw [e, setA_nat l (l.length - 1) x (by omega), set_last l x h]

/-- The last parameter as the CTCP wrapper the Go code builds. -/
theorem wrap_eq (c : CTCPEvent) (piece : Bytes) :
    strOfByte Fn.ctcpDelim ++ c.command ++ strOfByte Fn.eventSpace ++ piece ++ strOfByte Fn.ctcpDelim =
      [ctcpDelim] ++ c.command ++ [SP] ++ piece ++ [ctcpDelim] := by
  have h1 : strOfByte Fn.ctcpDelim = [ctcpDelim] := by decide
  have h2 : strOfByte Fn.eventSpace = [SP] := by decide
  rw [h1, h2]

theorem Event_split_loop1_eq (e : Event) (hp : e.params ≠ []) (hu : tagsUnique e.tags) (maxLength cmdLen : Int) (text : Bytes)
    (ctcp : Option CTCPEvent) :
    ∀ (pieces : List Bytes) (fuel : Nat) (results : List (Option Event)), pieces.length < fuel →
    Fn.Event_split_loop1 (some e) maxLength (some { e with source := none, params := e.params.dropLast ++ [[]] }) text cmdLen
        ctcp fuel pieces results =
      .ok (.done (results ++ pieces.map fun piece => some { e with params := e.params.dropLast ++
        [match ctcp with
         | some c => [ctcpDelim] ++ c.command ++ [SP] ++ piece ++ [ctcpDelim]
         | none => piece] }))
  | _, 0, _, h => by omega
  | [], fuel + 1, results, _ => by
    unfold Fn.Event_split_loop1
    simp [bind, Except.bind, pure, Except.pure]
  | piece :: ps, fuel + 1, results, h => by
    unfold Fn.Event_split_loop1
    have hcopy := Event_Copy_eq { e with source := none, params := e.params.dropLast ++ [[]] } hu
    have hlen : (e.params.dropLast ++ [([] : Bytes)]).length = e.params.length := by
      have : 0 < e.params.length := List.length_pos_iff.mpr hp
      simp; omega
    have hset : ∀ x : Bytes, setA (e.params.dropLast ++ [([] : Bytes)]) (len e.params - 1) x = .ok (e.params.dropLast ++ [x]) := by
      intro x
      have := setA_last (e.params.dropLast ++ [([] : Bytes)]) e.params.length x (by simp) hlen.symm
      simpa [len] using this
    have ih := Event_split_loop1_eq e hp hu maxLength cmdLen text ctcp ps fuel
    cases ctcp with
    | none =>
      simp only [Option.isSome_none, Bool.false_eq_true, if_false, hcopy, deref_some, bind, Except.bind, pure, Except.pure, hset]
      rw [ih _ (by simp at h; omega)]
      simp [List.append_assoc]
    | some c =>
      simp only [Option.isSome_some, if_true, hcopy, deref_some, bind, Except.bind, pure, Except.pure, hset, wrap_eq]
      rw [ih _ (by simp at h; omega)]
      simp [List.append_assoc]

theorem Event_split_nil (isURL : Bytes → Bool) (m : Int) : Fn.Event_split isURL none m = .error .nilDeref := rfl

/-- `(*Event).split` is the model's `eventSplit` (the returned pointers as values). -/
theorem Event_split_eq (isURL : Bytes → Bool) (e : Event) (hu : tagsUnique e.tags) (maxLength : Int) :
    Fn.Event_split isURL (some e) maxLength = .ok ((eventSplit isURL e maxLength).map some) := by
  unfold Fn.Event_split eventSplit
  have hP : Fn.PRIVMSG = PRIVMSG := rfl
  have hN : Fn.NOTICE = NOTICE := rfl
  have hcopy := Event_Copy_eq e hu
  simp only [deref_some, bind, Except.bind, pure, Except.pure, hP, hN, andE_ok_ok, orE_ok_ok, hcopy, Event_LenOpts_eq,
    Event_Last_eq, eventLast, Event_IsCTCP_eq, isCTCP]
  by_cases h1 : e.params.length < 1
  · have c1 : decide (len e.params < 1) = true := by dec_tac
    have c1' : decide (e.params.length < 1) = true := decide_eq_true h1
    simp only [c1, c1', Bool.true_or, if_true, List.map_cons, List.map_nil]
  · have c1 : decide (len e.params < 1) = false := by dec_tac
    have c1' : decide (e.params.length < 1) = false := decide_eq_false h1
    have hp : e.params ≠ [] := by
      intro h0; rw [h0] at h1; simp at h1
    simp only [c1, c1', Bool.false_or]
    cases hcmd : (e.command != PRIVMSG && e.command != NOTICE) with
    | true => simp only [if_true, List.map_cons, List.map_nil]
    | false =>
      simp only [Bool.false_eq_true, if_false]
      by_cases h2 : (eventLen { e with source := none } : Int) < maxLength
      · simp only [h2, decide_true, if_true, List.map_cons, List.map_nil]
      · simp only [h2, decide_false, Bool.false_eq_true, if_false]
        have hset : setA e.params (len e.params - 1) ([] : Bytes) = .ok (e.params.dropLast ++ [[]]) := by
          have := setA_last e.params e.params.length ([] : Bytes) hp rfl
          simpa [len] using this
        simp only [hset, Event_LenOpts_eq]
        cases hd : decodeCTCP e with
        | none =>
          simp only [Option.isSome_none, Bool.false_eq_true, if_false]
          by_cases h3 : (eventLen { e with source := none, params := e.params.dropLast ++ [[]] } : Int) > maxLength
          · simp only [h3, decide_true, if_true, List.map_cons, List.map_nil]
          · simp only [h3, decide_false, Bool.false_eq_true, if_false]
            have hw : 0 ≤ maxLength - (eventLen { e with source := none, params := e.params.dropLast ++ [[]] } : Int) := by omega
            simp only [splitMessageGo, hw, if_true]
            rw [Event_split_loop1_eq e hp hu _ _ _ none _ _ [] (by omega)]
            simp only [List.nil_append, List.map_map, Function.comp_def]
        | some c =>
          simp only [Option.isSome_some, if_true]
          by_cases ht : e.params.getLastD [] = []
          · have c2 : (e.params.getLastD [] == ([] : Bytes)) = true := by rw [ht]; rfl
            have c3 : (e.params.getLastD []).isEmpty = true := by rw [ht]; rfl
            simp only [c2, c3, if_true, List.map_cons, List.map_nil]
          · have c2 : (e.params.getLastD [] == ([] : Bytes)) = false := by
              cases hh : e.params.getLastD [] with
              | nil => exact absurd hh ht
              | cons => rfl
            have c3 : (e.params.getLastD []).isEmpty = false := by
              cases hh : e.params.getLastD [] with
              | nil => exact absurd hh ht
              | cons => rfl
            simp only [c2, c3, Bool.false_eq_true, if_false, deref_some]
            have hm : maxLength - (len c.command + 4) = maxLength - ((c.command.length + 4 : Nat) : Int) := by
              simp [len]
            rw [hm]
            by_cases h3 : (eventLen { e with source := none, params := e.params.dropLast ++ [[]] } : Int) >
                maxLength - ((c.command.length + 4 : Nat) : Int)
            · simp only [h3, decide_true, if_true, List.map_cons, List.map_nil]
            · simp only [h3, decide_false, Bool.false_eq_true, if_false]
              have hw : 0 ≤ maxLength - ((c.command.length + 4 : Nat) : Int) -
                  (eventLen { e with source := none, params := e.params.dropLast ++ [[]] } : Int) := by omega
              simp only [splitMessageGo, hw, if_true]
              rw [Event_split_loop1_eq e hp hu _ _ _ (some c) _ _ [] (by omega)]
              simp only [List.nil_append, List.map_map, Function.comp_def]

end Girc.Proofs.Trans
