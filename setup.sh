#!/bin/sh
# Builds the framework from files on disk only (offline).
set -e
cd "$(dirname "$0")"
export GOFLAGS=-mod=mod GOPROXY=off GOSUMDB=off GOTOOLCHAIN=local CGO_ENABLED=${CGO_ENABLED:-0}
mkdir -p .bin evidence replays
(cd tools/extract && go build -o ../../.bin/extract . && ../../.bin/extract -repo /repo -out ../../lean/Girc/Gen/Facts.lean)
# all property modules are prebuilt here (in parallel); each check then only re-verifies what changed
PROPS=$(python3 -c "import json;print(' '.join(sorted({'Girc.Props.'+m for p in json.load(open('obligations.json')).values() for m in p.get('modules',[])})))")
(cd lean && lake build Girc driver $PROPS)
(cd harness && go build -tags verif -o ../.bin/corr .)
echo setup-ok
