import Girc.Gen.Funcs
import Girc.Drv.EventOps
import Girc.Drv.PureOps
import Girc.Model.Modes
/-
  Driver ops `gen.<GoName>`: evaluate the GENERATED functions of Girc/Gen/Funcs.lean (the translator's
  output), printing the same canonical format as the op of the corresponding hand-written model
  function, or `panic:<fault>` when the generated code returns an error.
-/
namespace Girc.Drv
open Girc Girc.Model Girc.Gen

def genFault : Fault → String
  | .indexOutOfRange => "panic:index"
  | .sliceBounds => "panic:slice"
  | .nilDeref => "panic:nil"
  | .diverge => "panic:diverge"
  | .nilMap => "panic:nilmap"
  | .unsupported why => "panic:unsupported(" ++ why ++ ")"

def genShow {α : Type} (f : α → String) : Except Fault α → String
  | .ok a => f a
  | .error e => genFault e

def handleGen (op : String) (args : List String) : Option String :=
  match op, args with
  -- format.go                                                        mirrors
  | "gen.ToRFC1459", [a] => do let s ← arg a; pure (genShow hx (Fn.ToRFC1459 s))                -- fold
  | "gen.IsValidNick", [a] => do let s ← arg a; pure (genShow bl (Fn.IsValidNick s))            -- validnick
  | "gen.IsValidUser", [a] => do let s ← arg a; pure (genShow bl (Fn.IsValidUser s))            -- validuser
  | "gen.IsValidChannel", [a] => do let s ← arg a; pure (genShow bl (Fn.IsValidChannel s))      -- validchan
  | "gen.Glob", [a, b] => do let s ← arg a; let p ← arg b; pure (genShow bl (Fn.Glob s p))      -- glob
  -- cap_tags.go
  | "gen.validTag", [a] => do let s ← arg a; pure (genShow bl (Fn.validTag s))                  -- validtag
  | "gen.validTagValue", [a] => do let s ← arg a; pure (genShow bl (Fn.validTagValue s))        -- validtagvalue
  -- modes.go (model ops added below: chanmode / userprefix / parseprefixes)
  | "gen.IsValidChannelMode", [a] => do let s ← arg a; pure (genShow bl (Fn.IsValidChannelMode s))
  | "gen.isValidUserPrefix", [a] => do let s ← arg a; pure (genShow bl (Fn.isValidUserPrefix s))
  | "gen.parsePrefixes", [a] => do
      let s ← arg a
      pure (genShow (fun (r : Bytes × Bytes) => hx r.1 ++ " " ++ hx r.2) (Fn.parsePrefixes s))
  | "chanmode", [a] => do let s ← arg a; pure (bl (isValidChannelMode s))
  | "userprefix", [a] => do let s ← arg a; pure (bl (isValidUserPrefix s))
  | "parseprefixes", [a] => do let s ← arg a; let r := parsePrefixes s; pure (hx r.1 ++ " " ++ hx r.2)
  -- ctcp.go
  | "gen.EncodeCTCPRaw", [c, t] => do let c ← arg c; let t ← arg t; pure (genShow hx (Fn.EncodeCTCPRaw c t))   -- ctcpenc
  | "gen.DecodeCTCP", [t, s, c, p] => do                                                                      -- ctcpdec
      let e ← argEvent t s c p; pure (genShow showCtcp (Fn.DecodeCTCP (some e)))
  | "gen.DecodeCTCP", ["nil"] => pure (genShow showCtcp (Fn.DecodeCTCP none))
  -- event.go
  | "gen.ParseSource", [a] => do let s ← arg a; pure (genShow showSource (Fn.ParseSource s))    -- parsesource
  | "gen.Source.Len", [s] => do                                                                  -- sourcebytes (2nd field)
      let src ← argSource s; pure (genShow toString (Fn.Source_Len src))
  | "gen.Source.writeTo", [s] => do                                                              -- sourcebytes (1st field)
      let src ← argSource s; pure (genShow hx (Fn.Source_writeTo src []))
  | "gen.ParseEvent", [a] => do let s ← arg a; pure (genShow showOptEvent (Fn.ParseEvent s))  -- parse / parsego
  -- cap_tags.go
  | "gen.ParseTags", [a] => do let s ← arg a; pure (genShow showTags (Fn.ParseTags s))          -- parsetags
  | "gen.Tags.Get", [t, k] => do                                                                 -- tagget
      let tg ← argTags t; let k ← arg k
      pure (genShow (fun (r : Bytes × Bool) => if r.2 then hx r.1 else "-") (Fn.Tags_Get tg k))
  | _, _ => none

end Girc.Drv
