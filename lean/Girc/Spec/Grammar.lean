import Girc.Model.Event
/-
  C02 specification: the RFC 1459/2812 message grammar with IRCv3 message tags as a *parse tree*,
  its renderer, and the structure ("meaning") the grammar assigns to it. Written from the RFCs,
  not from the parser.

    message  = [ "@" tags SPACE ] [ ":" prefix SPACE ] command *( 1*SPACE middle ) [ 1*SPACE ":" trailing ] [ [CR] LF ]
    tags     = tag *( ";" tag ) ; tag = key [ "=" escaped-value ]
    prefix   = name [ "!" user ] [ "@" host ]
    command  = 2*letter / 3digit
    middle   = nospcrlfcl *( ":" / nospcrlfcl )     ; non-empty, no NUL CR LF SPACE, not ':'-leading
    trailing = *( ":" / " " / nospcrlfcl )          ; no NUL CR LF
-/
namespace Girc.Spec
open Girc Girc.Model

structure Prefix where
  name : Bytes
  ident : Option Bytes
  host : Option Bytes
  deriving DecidableEq, Repr

structure Line where
  tags : Option (List (Bytes × Option Bytes))   -- key, optional *escaped* value
  pfx : Option Prefix
  command : Bytes
  middles : List (Nat × Bytes)                  -- (extra SPACEs before the token, token): run = n+1
  trailing : Option (Nat × Bytes)               -- (extra SPACEs before the ':', text)
  ending : Nat                                  -- 0 = none, 1 = LF, 2 = CR LF
  deriving Repr

def spaces (n : Nat) : Bytes := List.replicate (n + 1) SP

def renderTag (t : Bytes × Option Bytes) : Bytes :=
  match t.2 with
  | none => t.1
  | some v => t.1 ++ [0x3D] ++ v

def renderPrefix (p : Prefix) : Bytes :=
  p.name ++ (match p.ident with | some i => BANG :: i | none => []) ++
    (match p.host with | some h => AT :: h | none => [])

def renderMiddles : List (Nat × Bytes) → Bytes
  | [] => []
  | (n, tok) :: rest => spaces n ++ tok ++ renderMiddles rest

def render (l : Line) : Bytes :=
  (match l.tags with
   | some ts => AT :: joinWith [0x3B] (ts.map renderTag) ++ [SP]
   | none => []) ++
  (match l.pfx with
   | some p => COLON :: renderPrefix p ++ [SP]
   | none => []) ++
  l.command ++ renderMiddles l.middles ++
  (match l.trailing with
   | some (n, t) => spaces n ++ COLON :: t
   | none => []) ++
  (match l.ending with
   | 0 => []
   | 1 => [LF]
   | _ => [CR, LF])

/-- IRCv3 unescaping of a tag value whose backslashes all start one of the five defined escapes. -/
def unescape : Bytes → Bytes
  | 0x5C :: 0x3A :: r => 0x3B :: unescape r
  | 0x5C :: 0x73 :: r => 0x20 :: unescape r
  | 0x5C :: 0x5C :: r => 0x5C :: unescape r
  | 0x5C :: 0x72 :: r => 0x0D :: unescape r
  | 0x5C :: 0x6E :: r => 0x0A :: unescape r
  | b :: r => b :: unescape r
  | [] => []

/-- The tag map the grammar assigns: key ↦ escaped value, the last duplicate wins. -/
def meaningTags (ts : List (Bytes × Option Bytes)) : Tags :=
  ts.foldl (fun m t => AMap.set m t.1 (t.2.getD [])) []

def meaningSource (p : Prefix) : Source := ⟨p.name, p.ident.getD [], p.host.getD []⟩

/-- The structure the grammar assigns to a line. -/
def meaning (l : Line) : Event :=
  { tags := l.tags.map meaningTags
    source := l.pfx.map meaningSource
    command := toUpperAscii l.command
    params := l.middles.map (·.2) ++ (match l.trailing with | some (_, t) => [t] | none => []) }

/-! ### Well-formedness (decidable) -/

def isAsciiLetter (b : Byte) : Bool := (0x41 ≤ b && b ≤ 0x5A) || (0x61 ≤ b && b ≤ 0x7A)
def isAsciiDigit (b : Byte) : Bool := 0x30 ≤ b && b ≤ 0x39

def wfCommand (c : Bytes) : Bool :=
  (c.length ≥ 2 && c.all isAsciiLetter) || (c.length = 3 && c.all isAsciiDigit)

/-- nospcrlfcl plus ':' : any octet except NUL CR LF SPACE. -/
def midByte (b : Byte) : Bool := b != NUL && b != CR && b != LF && b != SP
def trailByte (b : Byte) : Bool := b != NUL && b != CR && b != LF

def wfMiddle (t : Bytes) : Bool := !t.isEmpty && t.all midByte && t.head? != some COLON

/-- name / user / host: non-empty, no NUL CR LF SPACE '!' '@'. -/
def wfPrefixPart (s : Bytes) : Bool := !s.isEmpty && s.all (fun b => midByte b && b != BANG && b != AT)

def wfPrefix (p : Prefix) : Bool :=
  wfPrefixPart p.name && (p.ident.all wfPrefixPart) && (p.host.all wfPrefixPart)

/-- Every backslash starts one of the five defined escapes (so `unescape` is the IRCv3 meaning). -/
def escapesDefined : Bytes → Bool
  | 0x5C :: c :: r => (c = 0x3A || c = 0x73 || c = 0x5C || c = 0x72 || c = 0x6E) && escapesDefined r
  | [0x5C] => false
  | _ :: r => escapesDefined r
  | [] => true

def wfTagValue (v : Bytes) : Bool :=
  v.all (fun b => b != NUL && b != CR && b != LF && b != SP && b != 0x3B) && escapesDefined v

def wfTag (t : Bytes × Option Bytes) : Bool := validTag t.1 && t.2.all wfTagValue

def wfLine (l : Line) : Bool :=
  (match l.tags with
   | some ts => !ts.isEmpty && ts.all wfTag
   | none => true) &&
  l.pfx.all wfPrefix && wfCommand l.command &&
  l.middles.all (fun m => wfMiddle m.2) && l.middles.length ≤ 15 &&
  (match l.trailing with
   | some (_, t) => t.all trailByte
   | none => true) &&
  l.ending ≤ 2

end Girc.Spec
