import Girc.Model.Run
/-
  C05 specification: the structural invariant of the tracked state, exactly the property's list.
-/
namespace Girc.Spec
open Girc Girc.Model

/-- Strictly increasing in byte order: sorted and duplicate-free. -/
def sortedStrict : List Bytes → Bool
  | [] => true
  | [_] => true
  | a :: b :: rest => bytesLt a b && sortedStrict (b :: rest)

def folded (l : List Bytes) : Bool := l.all (fun n => fold n == n)

structure Inv (st : St) : Prop where
  /-- map keys are unique and are the folded names of what they hold -/
  chanKeys : (AMap.keys st.channels).Nodup
  userKeys : (AMap.keys st.users).Nodup
  chanKey : ∀ k ch, (k, ch) ∈ st.channels → k = fold ch.name
  userKey : ∀ n u, (n, u) ∈ st.users → n = fold u.nick
  /-- (a) a nick listed in a channel exists and lists that channel -/
  chanToUser : ∀ k ch, (k, ch) ∈ st.channels → ∀ n ∈ ch.users, ∃ u, (n, u) ∈ st.users ∧ k ∈ u.chans
  /-- (b) a channel listed for a user exists and lists that user -/
  userToChan : ∀ n u, (n, u) ∈ st.users → ∀ k ∈ u.chans, ∃ ch, (k, ch) ∈ st.channels ∧ n ∈ ch.users
  /-- (c) lists are sorted, duplicate-free and case-folded -/
  chanSorted : ∀ k ch, (k, ch) ∈ st.channels → sortedStrict ch.users = true ∧ folded ch.users = true
  userSorted : ∀ n u, (n, u) ∈ st.users → sortedStrict u.chans = true ∧ folded u.chans = true
  /-- (d) no user without a channel is retained -/
  userHasChan : ∀ n u, (n, u) ∈ st.users → u.chans ≠ []

def nodupKeys : List Bytes → Bool
  | [] => true
  | x :: xs => !xs.contains x && nodupKeys xs

/-- Executable version (for the driver and for non-vacuity examples). -/
def invB (st : St) : Bool :=
  nodupKeys (AMap.keys st.channels) && nodupKeys (AMap.keys st.users) &&
  st.channels.all (fun p => p.1 == fold p.2.name && sortedStrict p.2.users && folded p.2.users &&
    p.2.users.all (fun n => match AMap.get? st.users n with | some u => u.chans.contains p.1 | none => false)) &&
  st.users.all (fun p => p.1 == fold p.2.nick && sortedStrict p.2.chans && folded p.2.chans && !p.2.chans.isEmpty &&
    p.2.chans.all (fun k => match AMap.get? st.channels k with | some ch => ch.users.contains p.1 | none => false))

end Girc.Spec
