import Girc.Proofs.Pure
import Girc.Proofs.ProtocolA
import Girc.Gen.Facts
/- C09 — SASL delivers the exact credential (pure part: chunking, PLAIN, base64). Property theorems only. -/
namespace Girc.Props.C09
open Girc Girc.Model Girc.Spec Girc.Proofs.Pure Girc.Proofs.ProtocolA

theorem gen_chunk_size : Gen.const_saslChunkSize = 400 := by decide

/-- Tie for the logging clause: in the source as it is now, EVERY `Event{…}` literal whose command is PASS,
    WEBIRC or OPER, and every AUTHENTICATE literal whose parameters carry the mechanism response (`auth…`),
    sets `Sensitive: true` — these are the events `no_secret_logged` is about. -/
def credentialBearing (l : List UInt8 × List UInt8 × Bool) : Bool :=
  l.1 = [0x50, 0x41, 0x53, 0x53] || l.1 = [0x57, 0x45, 0x42, 0x49, 0x52, 0x43] || l.1 = [0x4F, 0x50, 0x45, 0x52] ||
  (l.1 = [0x41, 0x55, 0x54, 0x48, 0x45, 0x4E, 0x54, 0x49, 0x43, 0x41, 0x54, 0x45] && (findSub [0x61, 0x75, 0x74, 0x68] l.2.1).isSome)
theorem gen_credentials_sensitive : Gen.eventLiterals.all (fun l => !credentialBearing l || l.2.2) = true := by decide
theorem gen_credentials_present : (Gen.eventLiterals.filter credentialBearing).length = 5 := by decide

/-- base64 loses nothing: the RFC 4648 decoder recovers every input from the encoder's output. -/
theorem b64_roundtrip (x : Bytes) : b64Decode (b64Encode x) = some x := Proofs.Pure.b64_roundtrip x

/-- PLAIN: the response to "+" is base64(user NUL user NUL password), for arbitrary bytes. -/
theorem plain_exact (u p : Bytes) :
    saslPlainEncode u p [PLUS] = b64Encode (u ++ [0x00] ++ u ++ [0x00] ++ p) ∧
    b64Decode (saslPlainEncode u p [PLUS]) = some (u ++ [0x00] ++ u ++ [0x00] ++ p) := by
  constructor
  · simp [saslPlainEncode]
  · simp [saslPlainEncode, b64_roundtrip]

/-- A mechanism that is not invited with "+" gives up (empty response). -/
theorem plain_gives_up (u p : Bytes) (ps : List Bytes) (h : ps ≠ [PLUS]) : saslPlainEncode u p ps = [] := by
  simp [saslPlainEncode, h]

/-- Chunks of at most 400 bytes whose concatenation is exactly the response; a lone "+" follows
    exactly when the last chunk is 400 bytes — for responses of EVERY length. -/
theorem chunks_exact (auth : Bytes) (hne : auth ≠ []) :
    (payloads auth).flatten = auth ∧
    (∀ c ∈ payloads auth, 1 ≤ c.length ∧ c.length ≤ 400) ∧
    (∀ c ∈ (payloads auth).dropLast, c.length = 400) ∧
    (auth.length % 400 = 0 → (saslChunks auth).getLast? = some PLUS ∧ ((payloads auth).getLast?.map List.length) = some 400) ∧
    (auth.length % 400 ≠ 0 → ((saslChunks auth).getLast?.map List.length) = some (auth.length % 400)) :=
  Proofs.Pure.chunks_exact auth hne

/-- The repaired defect (399-byte chunks) on a small instance of the same loop shape is covered by
    `chunks_exact`; concrete witnesses are replayed against the implementation by the harness. -/
example : saslChunks [0x41] = [[0x41]] := by decide

/-! ### Protocol part -/

/-- Once authentication is in progress, CAP END is written only for the success numeric. -/
theorem sasl_end_only_on_success (cfg : Cfg) (cs : CState) (e : Event) (m : SaslCfg) (cs' : CState) (outs : List Out)
    (hs : cfg.sasl = some m) (hc : isSaslCmd e.command = true)
    (h : handleCommand cfg cs e = .ok (cs', outs)) (hend : Out.write capEnd ∈ outs) : e.command = c903 :=
  Proofs.ProtocolA.sasl_end_only_on_success cfg cs e m cs' outs hs hc h hend

/-- Any SASL failure numeric injects a local ERROR and writes nothing. -/
theorem sasl_failure_injects_error (cfg : Cfg) (cs : CState) (e : Event) (m : SaslCfg)
    (hs : cfg.sasl = some m) (ht : cfg.disableTracking = false)
    (hc : e.command = c902 ∨ e.command = c904 ∨ e.command = c905 ∨ e.command = c906 ∨ e.command = c908) :
    handleCommand cfg cs e = .ok (cs, [Out.inject (errorEvent (sClosing ++ e.last))]) :=
  Proofs.ProtocolA.sasl_failure_injects_error cfg cs e m hs ht hc

/-- A mechanism that gives up (empty response) injects a local ERROR and writes nothing. -/
theorem sasl_giveup_injects_error (cfg : Cfg) (cs : CState) (e : Event) (m : SaslCfg)
    (hs : cfg.sasl = some m) (ht : cfg.disableTracking = false) (hc : e.command = cAUTHENTICATE)
    (hg : m.encode cs.saslCalls e.params = []) :
    ∃ cs', handleCommand cfg cs e = .ok (cs', [Out.inject (errorEvent (sClosingSasl ++ m.method ++ sFailed ++ e.last))]) :=
  Proofs.ProtocolA.sasl_giveup_injects_error cfg cs e m hs ht hc hg

/-- Otherwise the response goes out as the chunk sequence of `saslChunks` (see `chunks_exact`). -/
theorem sasl_response_chunked (cfg : Cfg) (cs : CState) (e : Event) (m : SaslCfg)
    (hs : cfg.sasl = some m) (ht : cfg.disableTracking = false) (hc : e.command = cAUTHENTICATE)
    (hg : m.encode cs.saslCalls e.params ≠ []) :
    ∃ cs', handleCommand cfg cs e = .ok (cs',
      (saslChunks (m.encode cs.saslCalls e.params)).map fun c => Out.write { command := cAUTHENTICATE, params := [c] }) :=
  Proofs.ProtocolA.sasl_response_chunked cfg cs e m hs ht hc hg

/-- The injected ERROR ends the connection with `ErrEvent` carrying its text: a failure line makes
    `Connect` return an error instead of registering unauthenticated. -/
theorem sasl_failure_ends_connection (cfg : Cfg) (r : Run) (line : Bytes) (e : Event) (m : SaslCfg)
    (hr : r.ended = .running) (hp : parseEvent line = some e)
    (hs : cfg.sasl = some m) (ht : cfg.disableTracking = false)
    (hc : e.command = c902 ∨ e.command = c904 ∨ e.command = c905 ∨ e.command = c906 ∨ e.command = c908) :
    ∃ r', stepLine cfg r line = .ok r' ∧ r'.ended = .errEvent (sClosing ++ e.last) ∧ r'.written = r.written :=
  Proofs.ProtocolA.sasl_failure_ends_connection cfg r line e m hr hp hs ht hc

/-- Non-interference of the logs in the secret: for a sensitive event nothing derived from the
    parameters reaches either writer, on the normal and on the dropped-event path. -/
theorem no_secret_logged (e : Event) (ps : List Bytes) (dropped echo : Bool) :
    debugLine true dropped e = debugLine true dropped { e with params := ps } ∧
    outLine true echo e = none :=
  Proofs.ProtocolA.no_secret_logged e ps dropped echo

end Girc.Props.C09
