package main

import (
	"bufio"
	"fmt"
	"net"
	"strings"
	"sync"
	"time"

	"github.com/lrstanley/girc"
	"github.com/lrstanley/girc/cmdhandler"
)

// C18 through a real connection and under overlap: the handler registered on a client receives the message as the server
// wrote it (a trailing SPACE is an empty last argument), and a command function that is still running when the next
// message arrives keeps ITS OWN arguments.
func init() {
	runners["cmdwire"] = func(c *Ctx, in map[string]string) {
		hin := hexIn(in)
		ch, _ := cmdhandler.New("!")
		type inv struct {
			args []string
			raw  string
		}
		var mu sync.Mutex
		var invs []inv
		hold := in["hold"] == "1"
		_ = ch.Add(&cmdhandler.Command{Name: "echo", MinArgs: 0, Fn: func(_ *girc.Client, i *cmdhandler.Input) {
			if hold {
				time.Sleep(15 * time.Millisecond) // still busy when the next message arrives; reads its input afterwards
			}
			mu.Lock()
			invs = append(invs, inv{append([]string{}, i.Args...), i.RawArgs})
			mu.Unlock()
		}})
		_ = ch.Add(&cmdhandler.Command{Name: "pair", MinArgs: 2, Fn: func(_ *girc.Client, i *cmdhandler.Input) {
			mu.Lock()
			invs = append(invs, inv{append([]string{"<pair>"}, i.Args...), i.RawArgs})
			mu.Unlock()
		}})
		cl := girc.New(girc.Config{Server: "irc.example.org", Port: 6667, Nick: "bot", User: "bot", Name: "bot", AllowFlood: true})
		if in["tmpfirst"] == "1" {
			// another part of the application waited for a PRIVMSG with a temporary handler that was registered BEFORE the command
			// handler and has run out since: the command handler is still there
			_, tdone := cl.Handlers.AddTmp(girc.PRIVMSG, 20*time.Millisecond, func(_ *girc.Client, _ girc.Event) bool { return false })
			cl.Handlers.AddHandler(girc.PRIVMSG, ch)
			select {
			case <-tdone:
			case <-time.After(2 * time.Second):
			}
			time.Sleep(10 * time.Millisecond)
		} else if in["latelower"] != "1" {
			cl.Handlers.AddHandler(girc.PRIVMSG, ch)
		}
		cli, srv := net.Pipe()
		ret := make(chan error, 1)
		go func() { ret <- cl.MockConnect(cli) }()
		rd := bufio.NewReader(srv)
		pong := make(chan struct{}, 8)
		go func() {
			for {
				l, err := rd.ReadString('\n')
				if strings.HasPrefix(l, "PONG") {
					pong <- struct{}{}
				}
				if err != nil {
					return
				}
			}
		}()
		texts := strings.Split(in["texts"], "\x00")
		srv.SetWriteDeadline(time.Now().Add(3 * time.Second))
		welcome, sender := "bot", "nick"
		if in["renamed"] == "1" {
			// the server names the client bot_; whoever holds "bot" is somebody else and may address commands like anyone
			welcome, sender = "bot_", "bot"
		}
		srv.Write([]byte(":srv 001 " + welcome + " :Welcome\r\n"))
		for i := 0; i < 2000 && cl.GetNick() != welcome; i++ {
			time.Sleep(time.Millisecond)
		}
		if in["latelower"] == "1" {
			// the command handler is registered while the connection is running, after messages have been dispatched already, and
			// under the lower-case spelling of the command (registration is case-insensitive)
			srv.SetWriteDeadline(time.Now().Add(3 * time.Second))
			srv.Write([]byte(":" + sender + "!u@h PRIVMSG #c :small talk before the bot listens\r\nPING :early\r\n"))
			select {
			case <-pong:
			case <-time.After(5 * time.Second):
			}
			cl.Handlers.AddHandler("privmsg", ch)
		}
		for _, t := range texts {
			srv.SetWriteDeadline(time.Now().Add(3 * time.Second))
			srv.Write([]byte(":" + sender + "!u@h PRIVMSG #c :" + t + "\r\n"))
		}
		srv.SetWriteDeadline(time.Now().Add(3 * time.Second))
		srv.Write([]byte("PING :sync\r\n"))
		select {
		case <-pong:
		case <-time.After(20 * time.Second):
		}
		time.Sleep(60 * time.Millisecond) // the command functions run asynchronously
		cl.Close()
		srv.Close()
		select {
		case <-ret:
		case <-time.After(5 * time.Second):
		}
		// expected by the property: prefix + name [+ SPACE + rest], arguments split on single spaces, raw remainder
		want := map[string]int{}
		for _, t := range texts {
			if !strings.HasPrefix(t, "!") {
				continue
			}
			name, raw := t[1:], ""
			if i := strings.IndexByte(name, ' '); i >= 0 {
				name, raw = name[:i], name[i+1:]
			}
			args := []string{}
			if raw != "" {
				args = strings.Split(raw, " ")
			}
			switch {
			case name == "echo":
				want[hxList(args)+"|"+hx(raw)]++
			case name == "pair" && len(args) >= 2:
				want[hxList(append([]string{"<pair>"}, args...))+"|"+hx(raw)]++
			}
		}
		mu.Lock()
		got := map[string]int{}
		for _, iv := range invs {
			got[hxList(iv.args)+"|"+hx(iv.raw)]++
		}
		mu.Unlock()
		if fmt.Sprint(got) != fmt.Sprint(want) {
			c.R.Violation("cmd.wire", hin, fmt.Sprint(got), fmt.Sprint(want), "the command functions did not run exactly once each with the arguments (split on single spaces) and raw remainder of their own message")
		}
		c.R.Count("cmdwire/"+in["texts"]+in["hold"]+in["tmpfirst"]+in["renamed"]+in["latelower"], true, "cmd-wire")
	}
}

func runC18Conn(c *Ctx) {
	c.run("cmdwire", map[string]string{"texts": strings.Join([]string{"!echo a ", "!echo", "!echo  x", "!pair x ", "!pair x", "!echo a b  ", "hello", "!nosuch a"}, "\x00")})
	c.run("cmdwire", map[string]string{"hold": "1", "texts": strings.Join([]string{"!echo one two", "!echo three", "!echo four five six", "!echo"}, "\x00")})
	c.run("cmdwire", map[string]string{"renamed": "1", "texts": strings.Join([]string{"!echo a  b", "!pair x y", "!echo"}, "\x00")})
	c.run("cmdwire", map[string]string{"tmpfirst": "1", "texts": strings.Join([]string{"!echo a b", "!pair x y", "!echo"}, "\x00")})
	c.run("cmdwire", map[string]string{"latelower": "1", "texts": strings.Join([]string{"!echo a  b", "!pair x y", "!echo"}, "\x00")})
	c.R.Traces += 5
}
