import Girc.Proofs.InvBase
/-
  `deleteUser` / `deleteChannel` never fault on a consistent state and keep it consistent.
  The reusable parts are the three abstract preservation lemmas in lookup form
  (`InvL.eraseUser`, `InvL.removeEdge`, `InvL.eraseChannel`) and the two loop specifications
  (`deleteUserLoop_spec`, `deleteChannelLoop_spec`).
-/
namespace Girc.Proofs.InvDelete
open Girc Girc.Model Girc.Spec Girc.Proofs.InvBase

/-! ### Abstract preservation lemmas (lookup form) -/

/-- Removing nick `N` from every channel's user list and from the user map. -/
theorem _root_.Girc.Proofs.InvBase.InvL.eraseUser {cs cs' : AMap Channel} {us : AMap User} (h : InvL cs us) (N : Bytes)
    (hnd : (AMap.keys cs').Nodup)
    (hget : ∀ k, AMap.get? cs' k = (AMap.get? cs k).map (fun ch => { ch with users := ch.users.erase N })) :
    InvL cs' (AMap.erase us N) := by
  have hc : ∀ k ch', AMap.get? cs' k = some ch' →
      ∃ ch, AMap.get? cs k = some ch ∧ ch'.name = ch.name ∧ ch'.users = ch.users.erase N := by
    intro k ch' hk
    rw [hget] at hk
    cases hck : AMap.get? cs k with
    | none => rw [hck] at hk; cases hk
    | some ch => rw [hck] at hk; cases hk; exact ⟨ch, rfl, rfl, rfl⟩
  have hu : ∀ n u, AMap.get? (AMap.erase us N) n = some u → n ≠ N ∧ AMap.get? us n = some u := by
    intro n u hn
    rw [get?_erase] at hn
    by_cases e : n = N
    · rw [if_pos e] at hn; cases hn
    · rw [if_neg e] at hn; exact ⟨e, hn⟩
  exact {
    chanKeys := hnd
    userKeys := keys_erase_nodup h.userKeys N
    chanKey := fun k ch' hk => by
      obtain ⟨ch, hch, e1, _⟩ := hc k ch' hk
      rw [e1]; exact h.chanKey k ch hch
    userKey := fun n u hn => h.userKey n u (hu n u hn).2
    chanToUser := fun k ch' hk n hn => by
      obtain ⟨ch, hch, _, e2⟩ := hc k ch' hk
      rw [e2, mem_erase_of_nodup (h.users_nodup hch)] at hn
      obtain ⟨u, hu', hku⟩ := h.chanToUser k ch hch n hn.2
      exact ⟨u, by rw [get?_erase_ne _ hn.1]; exact hu', hku⟩
    userToChan := fun n u hn k hk => by
      obtain ⟨hne, hn'⟩ := hu n u hn
      obtain ⟨ch, hch, hnc⟩ := h.userToChan n u hn' k hk
      refine ⟨{ ch with users := ch.users.erase N }, by rw [hget, hch]; rfl, ?_⟩
      exact (mem_erase_of_nodup (h.users_nodup hch) N n).mpr ⟨hne, hnc⟩
    chanSorted := fun k ch' hk => by
      obtain ⟨ch, hch, _, e2⟩ := hc k ch' hk
      obtain ⟨hs, hf⟩ := h.chanSorted k ch hch
      rw [e2]; exact ⟨sortedStrict_erase N hs, folded_erase N hf⟩
    userSorted := fun n u hn => h.userSorted n u (hu n u hn).2
    userHasChan := fun n u hn => h.userHasChan n u (hu n u hn).2 }

/-- Removing the single membership edge between user `N` and channel `K` (both exist; the edge need
    not), dropping the user when its channel list becomes empty. -/
theorem _root_.Girc.Proofs.InvBase.InvL.removeEdge {cs : AMap Channel} {us : AMap User} (h : InvL cs us) {N K : Bytes}
    {user user' : User} {channel channel' : Channel}
    (hu : AMap.get? us N = some user) (hc : AMap.get? cs K = some channel)
    (hnick : user'.nick = user.nick) (hchans : user'.chans = user.chans.erase K)
    (hname : channel'.name = channel.name) (husers : channel'.users = channel.users.erase N) :
    InvL (AMap.set cs K channel')
      (if user'.chans.length = 0 then AMap.erase (AMap.set us N user') N else AMap.set us N user') := by
  have hund := h.chans_nodup hu
  have hcnd := h.users_nodup hc
  have getU : ∀ n, AMap.get?
      (if user'.chans.length = 0 then AMap.erase (AMap.set us N user') N else AMap.set us N user') n =
      if n = N then (if user'.chans = [] then none else some user') else AMap.get? us n := by
    intro n
    by_cases hl : user'.chans.length = 0
    · rw [if_pos hl, get?_erase, get?_set]
      by_cases e : n = N
      · rw [if_pos e, if_pos e, if_pos (List.length_eq_zero_iff.mp hl)]
      · rw [if_neg e, if_neg e, if_neg e]
    · rw [if_neg hl, get?_set]
      by_cases e : n = N
      · rw [if_pos e, if_pos e, if_neg (fun e' => hl (List.length_eq_zero_iff.mpr e'))]
      · rw [if_neg e, if_neg e]
  have getC : ∀ k, AMap.get? (AMap.set cs K channel') k = if k = K then some channel' else AMap.get? cs k :=
    fun k => get?_set cs K k channel'
  -- what a surviving user entry looks like
  have hU : ∀ n u, AMap.get?
      (if user'.chans.length = 0 then AMap.erase (AMap.set us N user') N else AMap.set us N user') n = some u →
      (n = N ∧ u = user' ∧ user'.chans ≠ []) ∨ (n ≠ N ∧ AMap.get? us n = some u) := by
    intro n u hn
    rw [getU] at hn
    by_cases e : n = N
    · rw [if_pos e] at hn
      by_cases e' : user'.chans = []
      · rw [if_pos e'] at hn; cases hn
      · rw [if_neg e'] at hn; cases hn; exact Or.inl ⟨e, rfl, e'⟩
    · rw [if_neg e] at hn; exact Or.inr ⟨e, hn⟩
  have hC : ∀ k c, AMap.get? (AMap.set cs K channel') k = some c →
      (k = K ∧ c = channel') ∨ (k ≠ K ∧ AMap.get? cs k = some c) := by
    intro k c hk
    rw [getC] at hk
    by_cases e : k = K
    · rw [if_pos e] at hk; cases hk; exact Or.inl ⟨e, rfl⟩
    · rw [if_neg e] at hk; exact Or.inr ⟨e, hk⟩
  refine {
    chanKeys := keys_set_nodup h.chanKeys K channel'
    userKeys := ?_
    chanKey := ?_
    userKey := ?_
    chanToUser := ?_
    userToChan := ?_
    chanSorted := ?_
    userSorted := ?_
    userHasChan := ?_ }
  · split
    · exact keys_erase_nodup (keys_set_nodup h.userKeys N user') N
    · exact keys_set_nodup h.userKeys N user'
  · intro k c hk
    rcases hC k c hk with ⟨rfl, rfl⟩ | ⟨_, hk'⟩
    · rw [hname]; exact h.chanKey _ _ hc
    · exact h.chanKey k c hk'
  · intro n u hn
    rcases hU n u hn with ⟨rfl, rfl, _⟩ | ⟨_, hn'⟩
    · rw [hnick]; exact h.userKey _ _ hu
    · exact h.userKey n u hn'
  · intro k c hk n hn
    rw [getU]
    rcases hC k c hk with ⟨rfl, rfl⟩ | ⟨hkK, hk'⟩
    · rw [husers, mem_erase_of_nodup hcnd] at hn
      obtain ⟨u, hu', hku⟩ := h.chanToUser _ _ hc n hn.2
      exact ⟨u, by rw [if_neg hn.1]; exact hu', hku⟩
    · obtain ⟨u, hu', hku⟩ := h.chanToUser k c hk' n hn
      by_cases e : n = N
      · subst e
        rw [hu] at hu'; cases hu'
        have hmem : k ∈ user'.chans := by
          rw [hchans]; exact (mem_erase_of_nodup hund K k).mpr ⟨hkK, hku⟩
        have hne : user'.chans ≠ [] := List.ne_nil_of_mem hmem
        exact ⟨user', by rw [if_pos rfl, if_neg hne], hmem⟩
      · exact ⟨u, by rw [if_neg e]; exact hu', hku⟩
  · intro n u hn k hk
    rw [getC]
    rcases hU n u hn with ⟨rfl, rfl, _⟩ | ⟨hnN, hn'⟩
    · rw [hchans, mem_erase_of_nodup hund] at hk
      obtain ⟨c, hc', hnc⟩ := h.userToChan _ _ hu k hk.2
      exact ⟨c, by rw [if_neg hk.1]; exact hc', hnc⟩
    · obtain ⟨c, hc', hnc⟩ := h.userToChan n u hn' k hk
      by_cases e : k = K
      · subst e
        rw [hc] at hc'; cases hc'
        refine ⟨channel', by rw [if_pos rfl], ?_⟩
        rw [husers]; exact (mem_erase_of_nodup hcnd N n).mpr ⟨hnN, hnc⟩
      · exact ⟨c, by rw [if_neg e]; exact hc', hnc⟩
  · intro k c hk
    rcases hC k c hk with ⟨rfl, rfl⟩ | ⟨_, hk'⟩
    · obtain ⟨hs, hf⟩ := h.chanSorted _ _ hc
      rw [husers]; exact ⟨sortedStrict_erase N hs, folded_erase N hf⟩
    · exact h.chanSorted k c hk'
  · intro n u hn
    rcases hU n u hn with ⟨rfl, rfl, _⟩ | ⟨_, hn'⟩
    · obtain ⟨hs, hf⟩ := h.userSorted _ _ hu
      rw [hchans]; exact ⟨sortedStrict_erase K hs, folded_erase K hf⟩
    · exact h.userSorted n u hn'
  · intro n u hn
    rcases hU n u hn with ⟨rfl, rfl, hne⟩ | ⟨_, hn'⟩
    · exact hne
    · exact h.userHasChan n u hn'

/-- Removing channel `K` from the channel map and from every user's channel list, dropping the users
    whose list becomes empty. The new user map is described relationally (other user attributes are
    free to change). -/
theorem _root_.Girc.Proofs.InvBase.InvL.eraseChannel {cs : AMap Channel} {us us' : AMap User} (h : InvL cs us) (K : Bytes)
    (hnd : (AMap.keys us').Nodup)
    (hold : ∀ n u', AMap.get? us' n = some u' →
      ∃ u, AMap.get? us n = some u ∧ u'.nick = u.nick ∧ u'.chans = u.chans.erase K ∧ u'.chans ≠ [])
    (hnew : ∀ n u, AMap.get? us n = some u → u.chans.erase K ≠ [] →
      ∃ u', AMap.get? us' n = some u' ∧ u'.chans = u.chans.erase K) :
    InvL (AMap.erase cs K) us' := by
  have hC : ∀ k c, AMap.get? (AMap.erase cs K) k = some c → k ≠ K ∧ AMap.get? cs k = some c := by
    intro k c hk
    rw [get?_erase] at hk
    by_cases e : k = K
    · rw [if_pos e] at hk; cases hk
    · rw [if_neg e] at hk; exact ⟨e, hk⟩
  exact {
    chanKeys := keys_erase_nodup h.chanKeys K
    userKeys := hnd
    chanKey := fun k c hk => h.chanKey k c (hC k c hk).2
    userKey := fun n u' hn => by
      obtain ⟨u, hu, e1, _, _⟩ := hold n u' hn
      rw [e1]; exact h.userKey n u hu
    chanToUser := fun k c hk n hn => by
      obtain ⟨hkK, hk'⟩ := hC k c hk
      obtain ⟨u, hu, hku⟩ := h.chanToUser k c hk' n hn
      have hmem : k ∈ u.chans.erase K := (mem_erase_of_nodup (h.chans_nodup hu) K k).mpr ⟨hkK, hku⟩
      obtain ⟨u', hu', e2⟩ := hnew n u hu (List.ne_nil_of_mem hmem)
      exact ⟨u', hu', e2 ▸ hmem⟩
    userToChan := fun n u' hn k hk => by
      obtain ⟨u, hu, _, e2, _⟩ := hold n u' hn
      rw [e2, mem_erase_of_nodup (h.chans_nodup hu)] at hk
      obtain ⟨c, hc, hnc⟩ := h.userToChan n u hu k hk.2
      exact ⟨c, by rw [get?_erase_ne _ hk.1]; exact hc, hnc⟩
    chanSorted := fun k c hk => h.chanSorted k c (hC k c hk).2
    userSorted := fun n u' hn => by
      obtain ⟨u, hu, _, e2, _⟩ := hold n u' hn
      obtain ⟨hs, hf⟩ := h.userSorted n u hu
      rw [e2]; exact ⟨sortedStrict_erase K hs, folded_erase K hf⟩
    userHasChan := fun n u' hn => by
      obtain ⟨u, _, _, _, hne⟩ := hold n u' hn
      exact hne }

/-! ### The two loops -/

theorem deleteUserLoop_nil (nick : Bytes) (cs : AMap Channel) : deleteUserLoop nick [] cs = .ok cs := rfl

theorem deleteUserLoop_cons (nick c : Bytes) (rest : List Bytes) (cs : AMap Channel) (ch : Channel)
    (h : AMap.get? cs c = some ch) :
    deleteUserLoop nick (c :: rest) cs = deleteUserLoop nick rest (AMap.set cs c (ch.deleteUser nick)) := by
  rw [deleteUserLoop, h]; rfl

/-- `deleteUserLoop` over a duplicate-free list of existing channels succeeds and applies
    `Channel.deleteUser nick` to exactly the listed channels. -/
theorem deleteUserLoop_spec (nick : Bytes) (l : List Bytes) (cs : AMap Channel)
    (hnd : (AMap.keys cs).Nodup) (hl : l.Nodup) (hex : ∀ c ∈ l, ∃ ch, AMap.get? cs c = some ch) :
    ∃ cs', deleteUserLoop nick l cs = .ok cs' ∧ (AMap.keys cs').Nodup ∧
      ∀ k, AMap.get? cs' k = (AMap.get? cs k).map (fun ch => if k ∈ l then ch.deleteUser nick else ch) := by
  induction l generalizing cs with
  | nil => exact ⟨cs, rfl, hnd, fun k => by simp⟩
  | cons c rest ih =>
    obtain ⟨ch, hch⟩ := hex c List.mem_cons_self
    obtain ⟨hc, hrest⟩ := List.nodup_cons.mp hl
    have hex' : ∀ c' ∈ rest, ∃ ch', AMap.get? (AMap.set cs c (ch.deleteUser nick)) c' = some ch' := by
      intro c' hc'
      have hne : c' ≠ c := fun e => hc (e ▸ hc')
      rw [get?_set_ne _ _ hne]
      exact hex c' (List.mem_cons_of_mem _ hc')
    obtain ⟨cs', hrun, hnd', hget⟩ := ih _ (keys_set_nodup hnd c _) hrest hex'
    refine ⟨cs', by rw [deleteUserLoop_cons _ _ _ _ _ hch]; exact hrun, hnd', ?_⟩
    intro k
    rw [hget, get?_set]
    by_cases e : k = c
    · subst e
      rw [if_pos rfl, hch]
      simp [hc]
    · rw [if_neg e]
      simp [e]

theorem deleteChannelLoop_nil (name : Bytes) (us : AMap User) : deleteChannelLoop name [] us = .ok us := rfl

theorem deleteChannelLoop_cons (name n : Bytes) (rest : List Bytes) (us : AMap User) (u : User)
    (h : AMap.get? us n = some u) :
    deleteChannelLoop name (n :: rest) us =
      deleteChannelLoop name rest
        (if (u.deleteChannel name).chans.length = 0 then AMap.erase (AMap.set us n (u.deleteChannel name)) n
         else AMap.set us n (u.deleteChannel name)) := by
  rw [deleteChannelLoop, h]; rfl

/-- One step of `deleteChannelLoop` on the user map, as a lookup. -/
theorem get?_deleteChannel_step (us : AMap User) (n x : Bytes) (u' : User) :
    AMap.get? (if u'.chans.length = 0 then AMap.erase (AMap.set us n u') n else AMap.set us n u') x =
      if x = n then (if u'.chans = [] then none else some u') else AMap.get? us x := by
  by_cases hl : u'.chans.length = 0
  · rw [if_pos hl, get?_erase, get?_set]
    by_cases e : x = n
    · rw [if_pos e, if_pos e, if_pos (List.length_eq_zero_iff.mp hl)]
    · rw [if_neg e, if_neg e, if_neg e]
  · rw [if_neg hl, get?_set]
    by_cases e : x = n
    · rw [if_pos e, if_pos e, if_neg (fun e' => hl (List.length_eq_zero_iff.mpr e'))]
    · rw [if_neg e, if_neg e]

theorem keys_deleteChannel_step_nodup {us : AMap User} (hnd : (AMap.keys us).Nodup) (n : Bytes) (u' : User) :
    (AMap.keys (if u'.chans.length = 0 then AMap.erase (AMap.set us n u') n else AMap.set us n u')).Nodup := by
  split
  · exact keys_erase_nodup (keys_set_nodup hnd n u') n
  · exact keys_set_nodup hnd n u'

/-- `deleteChannelLoop` over a duplicate-free list of existing users succeeds; exactly the listed users
    get `User.deleteChannel name` applied and are dropped when their channel list becomes empty. -/
theorem deleteChannelLoop_spec (name : Bytes) (l : List Bytes) (us : AMap User)
    (hnd : (AMap.keys us).Nodup) (hl : l.Nodup) (hex : ∀ n ∈ l, ∃ u, AMap.get? us n = some u) :
    ∃ us', deleteChannelLoop name l us = .ok us' ∧ (AMap.keys us').Nodup ∧
      ∀ x, AMap.get? us' x =
        if x ∈ l then
          (AMap.get? us x).bind (fun u =>
            if (u.deleteChannel name).chans = [] then none else some (u.deleteChannel name))
        else AMap.get? us x := by
  induction l generalizing us with
  | nil => exact ⟨us, rfl, hnd, fun x => by simp⟩
  | cons n rest ih =>
    obtain ⟨u, hu⟩ := hex n List.mem_cons_self
    obtain ⟨hn, hrest⟩ := List.nodup_cons.mp hl
    have hex' : ∀ n' ∈ rest, ∃ u', AMap.get?
        (if (u.deleteChannel name).chans.length = 0 then AMap.erase (AMap.set us n (u.deleteChannel name)) n
         else AMap.set us n (u.deleteChannel name)) n' = some u' := by
      intro n' hn'
      have hne : n' ≠ n := fun e => hn (e ▸ hn')
      rw [get?_deleteChannel_step, if_neg hne]
      exact hex n' (List.mem_cons_of_mem _ hn')
    obtain ⟨us', hrun, hnd', hget⟩ := ih _ (keys_deleteChannel_step_nodup hnd n _) hrest hex'
    refine ⟨us', by rw [deleteChannelLoop_cons _ _ _ _ _ hu]; exact hrun, hnd', ?_⟩
    intro x
    rw [hget, get?_deleteChannel_step]
    by_cases e : x = n
    · subst e
      rw [if_neg hn, if_pos rfl, if_pos List.mem_cons_self, hu]
      rfl
    · rw [if_neg e]
      simp [e]

/-! ### The two theorems -/

/-- `deleteUser` never dereferences nil on a consistent state and keeps it consistent. -/
theorem deleteUser_inv (st : St) (chan nick : Bytes) (h : Inv st) :
    ∃ st', st.deleteUser chan nick = .ok st' ∧ Inv st' := by
  have hL := h.toInvL
  unfold St.deleteUser
  cases hu : st.lookupUser nick with
  | none => exact ⟨st, rfl, h⟩
  | some user =>
    have hu' : AMap.get? st.users (fold nick) = some user := hu
    by_cases hchan : chan = []
    · simp only [if_pos hchan]
      obtain ⟨cs', hrun, hnd', hget⟩ := deleteUserLoop_spec nick user.chans st.channels hL.chanKeys
        (hL.chans_nodup hu') (fun c hc => by
          obtain ⟨ch, hch, _⟩ := hL.userToChan _ _ hu' c hc
          exact ⟨ch, hch⟩)
      refine ⟨{ st with channels := cs', users := AMap.erase st.users (fold nick) }, ?_, ?_⟩
      · rw [hrun]; rfl
      · apply inv_with_maps
        apply hL.eraseUser (fold nick) hnd'
        intro k
        rw [hget]
        cases hk : AMap.get? st.channels k with
        | none => rfl
        | some ch =>
          simp only [Option.map_some]
          congr 1
          by_cases hm : k ∈ user.chans
          · rw [if_pos hm]; rfl
          · rw [if_neg hm]
            have hnot : fold nick ∉ ch.users := fun hin => hm ((hL.mem_users_iff_mem_chans hk hu').mp hin)
            rw [List.erase_of_not_mem hnot]
    · simp only [if_neg hchan]
      cases hc : st.lookupChannel chan with
      | none => exact ⟨st, rfl, h⟩
      | some channel =>
        have hc' : AMap.get? st.channels (fold chan) = some channel := hc
        exact ⟨_, rfl, inv_with_maps st (hL.removeEdge hu' hc' rfl rfl rfl rfl)⟩

theorem deleteChannel_inv (st : St) (chan : Bytes) (h : Inv st) :
    ∃ st', st.deleteChannel chan = .ok st' ∧ Inv st' := by
  have hL := h.toInvL
  unfold St.deleteChannel
  simp only []
  cases hc : AMap.get? st.channels (fold chan) with
  | none => exact ⟨st, rfl, h⟩
  | some ch =>
    obtain ⟨us', hrun, hnd', hget⟩ := deleteChannelLoop_spec (fold chan) ch.users st.users hL.userKeys
      (hL.users_nodup hc) (fun n hn => by
        obtain ⟨u, hu, _⟩ := hL.chanToUser _ _ hc n hn
        exact ⟨u, hu⟩)
    have hdc : ∀ u : User, (u.deleteChannel (fold chan)).chans = u.chans.erase (fold chan) := by
      intro u; show u.chans.erase (fold (fold chan)) = _; rw [fold_idem]
    refine ⟨{ st with users := us', channels := AMap.erase st.channels (fold chan) }, ?_, ?_⟩
    · simp only [hrun]; rfl
    · apply inv_of_invL (st := { st with users := us', channels := AMap.erase st.channels (fold chan) })
      apply hL.eraseChannel (fold chan) hnd'
      · intro n u' hn
        rw [hget] at hn
        by_cases hm : n ∈ ch.users
        · rw [if_pos hm] at hn
          cases hu : AMap.get? st.users n with
          | none => rw [hu] at hn; cases hn
          | some u =>
            rw [hu] at hn
            simp only [Option.bind_some] at hn
            by_cases he : (u.deleteChannel (fold chan)).chans = []
            · rw [if_pos he] at hn; cases hn
            · rw [if_neg he] at hn; cases hn
              exact ⟨u, rfl, rfl, hdc u, he⟩
        · rw [if_neg hm] at hn
          have hnot : fold chan ∉ u'.chans := fun hin => hm ((hL.mem_users_iff_mem_chans hc hn).mpr hin)
          refine ⟨u', hn, rfl, ?_, hL.userHasChan n u' hn⟩
          rw [List.erase_of_not_mem hnot]
      · intro n u hu hne
        rw [hget]
        by_cases hm : n ∈ ch.users
        · rw [if_pos hm, hu]
          simp only [Option.bind_some]
          rw [if_neg (by rw [hdc]; exact hne)]
          exact ⟨_, rfl, hdc u⟩
        · rw [if_neg hm]
          have hnot : fold chan ∉ u.chans := fun hin => hm ((hL.mem_users_iff_mem_chans hc hu).mpr hin)
          exact ⟨u, hu, (List.erase_of_not_mem hnot).symm⟩

end Girc.Proofs.InvDelete
