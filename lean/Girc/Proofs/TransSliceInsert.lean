import Girc.Proofs.TransSlices
import Girc.Model.Phase4Helpers
import Girc.Model.Split
/-
  Translator equivalence, phase 4: format.go `sliceInsert` against the one-line model `Model.sliceInsert`, for EVERY
  content of the spare capacity of `input` (`input_spare_`: the elements between len and cap, TRANSLATOR_NOTES §2.16) —
  i.e. both for the in-place branch (`total <= cap(input)`) and for the allocating one.
-/
set_option linter.unusedSimpArgs false
namespace Girc.Proofs.Trans
open Girc Girc.Model Girc.Go Girc.Gen

theorem sliceL_nn (s : List Bytes) (a b : Nat) (h1 : a ≤ b) (h2 : b ≤ s.length) :
    sliceL s (a : Int) (b : Int) = .ok ((s.drop a).take (b - a)) := by
  unfold sliceL
  have c : (0 : Int) ≤ a ∧ (a : Int) ≤ b ∧ (b : Int) ≤ (s.length : Int) := by omega
  have e : ((b : Int) - (a : Int)).toNat = b - a := by omega
  simp only [c, and_self, if_true, Int.toNat_natCast, e]

theorem sliceL_nlen (s : List Bytes) (a : Nat) (h1 : a ≤ s.length) :
    sliceL s (a : Int) (len s) = .ok ((s.drop a).take (s.length - a)) :=
  sliceL_nn s a s.length h1 (Nat.le_refl _)

theorem sliceL_bad (s : List Bytes) (a b : Int) (h : ¬ (0 ≤ a ∧ a ≤ b ∧ b ≤ s.length)) :
    sliceL s a b = .error .sliceBounds := by
  unfold sliceL; simp only [h, if_false]

theorem sliceCapA_nn {α : Type} (s sp : List α) (a b : Nat) (h1 : a ≤ b) (h2 : b ≤ s.length + sp.length) :
    sliceCapA s sp (a : Int) (b : Int) = .ok (((s ++ sp).drop a).take (b - a)) := by
  unfold sliceCapA
  have c : (0 : Int) ≤ a ∧ (a : Int) ≤ b ∧ (b : Int) ≤ ((s.length + sp.length : Nat) : Int) := by omega
  have e : ((b : Int) - (a : Int)).toNat = b - a := by omega
  simp only [c, and_self, if_true, Int.toNat_natCast, e]

theorem sliceCapA_bad {α : Type} (s sp : List α) (a b : Int) (h : ¬ (0 ≤ a ∧ a ≤ b ∧ b ≤ ((s.length + sp.length : Nat) : Int))) :
    sliceCapA s sp a b = .error .sliceBounds := by
  unfold sliceCapA; simp only [h, if_false]

theorem sliceL_ok (s : List Bytes) (a b : Int) (h : 0 ≤ a ∧ a ≤ b ∧ b ≤ s.length) :
    ∃ r, sliceL s a b = .ok r ∧ (r.length : Int) = b - a := by
  refine ⟨(s.drop a.toNat).take (b - a).toNat, by unfold sliceL; simp only [h, and_self, if_true], ?_⟩
  simp only [List.length_take, List.length_drop]
  omega

theorem sliceCapA_ok {α : Type} (s sp : List α) (a b : Int) (h : 0 ≤ a ∧ a ≤ b ∧ b ≤ ((s.length + sp.length : Nat) : Int)) :
    ∃ r, sliceCapA s sp a b = .ok r ∧ (r.length : Int) = b - a := by
  refine ⟨((s ++ sp).drop a.toNat).take (b - a).toNat, by unfold sliceCapA; simp only [h, and_self, if_true], ?_⟩
  simp only [List.length_take, List.length_drop, List.length_append]
  omega

theorem copyA_length {α : Type} (dst src : List α) : (copyA dst src).length = dst.length := by
  unfold copyA
  simp only [List.length_append, List.length_take, List.length_drop]
  omega

theorem copyA_prefix {α : Type} (dst src : List α) (h : src.length ≤ dst.length) :
    copyA dst src = src ++ dst.drop src.length := by
  unfold copyA
  rw [List.take_of_length_le h]

theorem makeA_nat {α : Type} (z : α) (n : Nat) : makeA z (n : Int) = .ok (List.replicate n z) := by
  unfold makeA
  simp

/-- The value both branches compute, on naturals. -/
theorem insert_inplace (L S v : List Bytes) (n : Nat) (hn : n ≤ L.length) (hc : L.length + v.length ≤ L.length + S.length) :
    let o0 := ((L ++ S).drop 0).take (L.length + v.length - 0)
    let o1 := (o0.drop 0).take (n + v.length - 0) ++
      copyA ((o0.drop (n + v.length)).take (o0.length - (n + v.length))) (((L ++ S).drop n).take (L.length - n))
    (o1.drop 0).take (n - 0) ++ copyA ((o1.drop n).take (o1.length - n)) v = L.take n ++ v ++ L.drop n := by
  intro o0 o1
  have hsrc : ((L ++ S).drop n).take (L.length - n) = L.drop n := by
    rw [List.drop_append_of_le_length hn, List.take_append_of_le_length (by simp)]
    exact List.take_of_length_le (by simp)
  have ho0 : o0.length = L.length + v.length := by simp [o0]; omega
  have hd : ((o0.drop (n + v.length)).take (o0.length - (n + v.length))).length = (L.drop n).length := by
    simp [ho0]; omega
  have ho1 : o1 = o0.take (n + v.length) ++ L.drop n := by
    simp only [o1, hsrc, List.drop_zero, Nat.sub_zero]
    rw [copyA_full _ _ hd]
  have hl1 : (o0.take (n + v.length)).length = n + v.length := by simp [ho0]; omega
  have ho1l : o1.length = L.length + v.length := by rw [ho1]; simp [hl1]; omega
  have htk : o1.take n = L.take n := by
    rw [ho1, List.take_append_of_le_length (by omega), List.take_take]
    have : min n (n + v.length) = n := by omega
    rw [this]
    simp only [o0, List.drop_zero, Nat.sub_zero, List.take_take]
    have : min n (L.length + v.length) = n := by omega
    rw [this, List.take_append_of_le_length hn]
  have hdr : (o1.drop n).take (o1.length - n) = o1.drop n := List.take_of_length_le (by simp)
  have hdl : v.length ≤ (o1.drop n).length := by simp [ho1l]; omega
  simp only [List.drop_zero, Nat.sub_zero, htk, hdr]
  rw [copyA_prefix _ _ hdl, List.drop_drop]
  have : o1.drop (n + v.length) = L.drop n := by
    rw [ho1, List.drop_append_of_le_length (by omega), List.drop_of_length_le (by omega)]
    rfl
  rw [this, List.append_assoc]

theorem insert_alloc (L S v : List Bytes) (n : Nat) (hn : n ≤ L.length) :
    let o0 : List Bytes := List.replicate (L.length + v.length) []
    let o1 := copyA o0 (((L ++ S).drop 0).take (n - 0))
    let o2 := (o1.drop 0).take (n - 0) ++ copyA ((o1.drop n).take (o1.length - n)) v
    (o2.drop 0).take (n + v.length - 0) ++
      copyA ((o2.drop (n + v.length)).take (o2.length - (n + v.length))) (((L ++ S).drop n).take (L.length - n)) =
      L.take n ++ v ++ L.drop n := by
  intro o0 o1 o2
  have hsrc : ((L ++ S).drop n).take (L.length - n) = L.drop n := by
    rw [List.drop_append_of_le_length hn, List.take_append_of_le_length (by simp)]
    exact List.take_of_length_le (by simp)
  have hpre : ((L ++ S).drop 0).take (n - 0) = L.take n := by
    simp only [List.drop_zero, Nat.sub_zero]
    exact List.take_append_of_le_length hn
  have ho0 : o0.length = L.length + v.length := by simp [o0]
  have ho1 : o1 = L.take n ++ o0.drop n := by
    simp only [o1, hpre]
    rw [copyA_prefix _ _ (by simp [ho0]; omega)]
    simp [List.length_take, Nat.min_eq_left hn]
  have ho1l : o1.length = L.length + v.length := by rw [ho1]; simp [ho0]; omega
  have htk : o1.take n = L.take n := by
    rw [ho1, List.take_append_of_le_length (by rw [List.length_take]; omega)]
    exact List.take_of_length_le (by rw [List.length_take]; omega)
  have hdr : (o1.drop n).take (o1.length - n) = o1.drop n := List.take_of_length_le (by simp)
  have ho2 : o2 = L.take n ++ v ++ o1.drop (n + v.length) := by
    simp only [o2, List.drop_zero, Nat.sub_zero, htk, hdr]
    rw [copyA_prefix _ _ (by simp [ho1l]; omega), List.drop_drop, List.append_assoc]
  have hpl : (L.take n ++ v).length = n + v.length := by simp; omega
  have ho2l : o2.length = L.length + v.length := by rw [ho2]; simp [ho1l]; omega
  have htk2 : o2.take (n + v.length) = L.take n ++ v := by
    rw [ho2, List.take_append_of_le_length (by omega)]
    exact List.take_of_length_le (by omega)
  have hd : ((o2.drop (n + v.length)).take (o2.length - (n + v.length))).length = (L.drop n).length := by
    simp [ho2l]; omega
  simp only [List.drop_zero, Nat.sub_zero, htk2, hsrc]
  rw [copyA_full _ _ hd]

theorem sliceInsert_eq (spare input : List Bytes) (i : Int) (v : List Bytes) :
    Fn.sliceInsert spare input i v = Model.sliceInsert input i v := by
  unfold Fn.sliceInsert Model.sliceInsert
  simp only [bind, Except.bind, pure, Except.pure]
  by_cases hi : 0 ≤ i ∧ i ≤ (input.length : Int)
  · obtain ⟨n, rfl⟩ := Int.eq_ofNat_of_zero_le hi.1
    have hn : n ≤ input.length := by omega
    simp only [hi, and_self, if_true, Int.toNat_natCast]
    have e0 : (0 : Int) = ((0 : Nat) : Int) := rfl
    have et : len input + len v = ((input.length + v.length : Nat) : Int) := by simp [len]
    have env : (n : Int) + len v = ((n + v.length : Nat) : Int) := by simp [len]
    have eli : len input = ((input.length : Nat) : Int) := rfl
    by_cases hc : input.length + v.length ≤ input.length + spare.length
    · have c : decide (len input + len v ≤ len input + len spare) = true := by dec_tac
      simp only [c, if_true]
      rw [et, env, eli]
      have s0 := sliceCapA_nn input spare 0 (input.length + v.length) (by omega) hc
      rw [e0] at *
      simp only [s0]
      generalize ho0 : List.take (input.length + v.length - 0) (List.drop 0 (input ++ spare)) = o0
      have ho0l : o0.length = input.length + v.length := by rw [← ho0]; simp; omega
      rw [sliceL_nn o0 0 (n + v.length) (by omega) (by omega)]
      rw [sliceL_nlen o0 (n + v.length) (by omega)]
      rw [sliceCapA_nn input spare n input.length hn (by omega)]
      simp only []
      generalize ho1 : List.take (n + v.length - 0) (List.drop 0 o0) ++
        copyA (List.take (o0.length - (n + v.length)) (List.drop (n + v.length) o0))
          (List.take (input.length - n) (List.drop n (input ++ spare))) = o1
      have ho1l : o1.length = input.length + v.length := by
        rw [← ho1]; unfold copyA; simp; omega
      rw [sliceL_nn o1 0 n (by omega) (by omega), sliceL_nlen o1 n (by omega)]
      simp only []
      have := insert_inplace input spare v n hn hc
      simp only [ho0, ho1] at this
      rw [this]
    · have c : decide (len input + len v ≤ len input + len spare) = false := by dec_tac
      simp only [c, Bool.false_eq_true, if_false]
      rw [et, env, eli, makeA_nat]
      simp only []
      rw [e0]
      rw [sliceCapA_nn input spare 0 n (by omega) (by omega)]
      simp only []
      generalize ho1 : copyA (List.replicate (input.length + v.length) ([] : Bytes))
        (List.take (n - 0) (List.drop 0 (input ++ spare))) = o1
      have ho1l : o1.length = input.length + v.length := by
        rw [← ho1]; unfold copyA; simp; omega
      rw [sliceL_nn o1 0 n (by omega) (by omega), sliceL_nlen o1 n (by omega)]
      simp only []
      generalize ho2 : List.take (n - 0) (List.drop 0 o1) ++ copyA (List.take (o1.length - n) (List.drop n o1)) v = o2
      have ho2l : o2.length = input.length + v.length := by
        rw [← ho2]; unfold copyA; simp; omega
      rw [sliceL_nn o2 0 (n + v.length) (by omega) (by omega),
        sliceL_nlen o2 (n + v.length) (by omega),
        sliceCapA_nn input spare n input.length hn (by omega)]
      simp only []
      have := insert_alloc input spare v n hn
      simp only [ho1, ho2] at this
      rw [this]
  · simp only [hi, if_false]
    by_cases hc : input.length + v.length ≤ input.length + spare.length
    · have c : decide (len input + len v ≤ len input + len spare) = true := by dec_tac
      simp only [c, if_true]
      simp only [len] at hi ⊢
      obtain ⟨o0, h0, l0⟩ := sliceCapA_ok input spare 0 ((input.length : Int) + (v.length : Int)) (by omega)
      rw [h0]; simp only []
      by_cases h2 : 0 ≤ i + (v.length : Int) ∧ i + (v.length : Int) ≤ (o0.length : Int)
      · obtain ⟨r1, hr1, _⟩ := sliceL_ok o0 0 (i + (v.length : Int)) ⟨by omega, h2.1, h2.2⟩
        obtain ⟨r2, hr2, _⟩ := sliceL_ok o0 (i + (v.length : Int)) (o0.length : Int) ⟨h2.1, h2.2, by omega⟩
        rw [hr1]; simp only []
        rw [hr2]; simp only []
        rw [sliceCapA_bad input spare i (input.length : Int) (by omega)]
      · rw [sliceL_bad o0 0 (i + (v.length : Int)) (by omega)]
    · have c : decide (len input + len v ≤ len input + len spare) = false := by dec_tac
      simp only [c, Bool.false_eq_true, if_false]
      simp only [len] at hi ⊢
      have et : (input.length : Int) + (v.length : Int) = ((input.length + v.length : Nat) : Int) := by simp
      rw [et, makeA_nat]; simp only []
      by_cases h1 : 0 ≤ i ∧ i ≤ ((input.length + spare.length : Nat) : Int)
      · obtain ⟨r0, hr0, _⟩ := sliceCapA_ok input spare 0 i ⟨by omega, h1.1, h1.2⟩
        rw [hr0]; simp only []
        have l1 := copyA_length (List.replicate (input.length + v.length) ([] : Bytes)) r0
        rw [List.length_replicate] at l1
        generalize copyA (List.replicate (input.length + v.length) ([] : Bytes)) r0 = o1 at l1 ⊢
        by_cases h2 : i ≤ (o1.length : Int)
        · obtain ⟨r1, hr1, lr1⟩ := sliceL_ok o1 0 i ⟨by omega, h1.1, h2⟩
          obtain ⟨r2, hr2, lr2⟩ := sliceL_ok o1 i (o1.length : Int) ⟨h1.1, h2, by omega⟩
          rw [hr1]; simp only []
          rw [hr2]; simp only []
          have l2 := copyA_length r2 v
          have hl : ((r1 ++ copyA r2 v).length : Int) = (o1.length : Int) := by
            rw [List.length_append, l2]; omega
          rw [sliceL_bad (r1 ++ copyA r2 v) 0 (i + (v.length : Int)) (by omega)]
        · rw [sliceL_bad o1 0 i (by omega)]
      · rw [sliceCapA_bad input spare 0 i (by omega)]

/-- The newline pass of `splitMessage` (`words[i] = word[:j]; words = sliceInsert(words, i+1, "", tail)`) has exactly the
    shape of one step of the model's `expandNewlines`: the word at position `i` becomes `head`, "" and `tail`. -/
theorem sliceInsert_newline_step (pre rest : List Bytes) (w head tail : Bytes) :
    Model.sliceInsert ((pre ++ w :: rest).set pre.length head) ((pre.length : Int) + 1) [[], tail] =
      .ok (pre ++ head :: [] :: tail :: rest) := by
  unfold Model.sliceInsert
  have hs : (pre ++ w :: rest).set pre.length head = pre ++ head :: rest := by
    rw [List.set_append_right _ _ (Nat.le_refl _)]
    simp
  have c : (0 : Int) ≤ (pre.length : Int) + 1 ∧ (pre.length : Int) + 1 ≤ ((pre ++ head :: rest).length : Int) := by
    simp only [List.length_append, List.length_cons]; omega
  have e : ((pre.length : Int) + 1).toNat = pre.length + 1 := by omega
  rw [hs]
  simp only [c, and_self, if_true, e]
  have h1 : (pre ++ head :: rest).take (pre.length + 1) = pre ++ [head] := by
    simp [List.take_append, List.take_of_length_le]
  have h2 : (pre ++ head :: rest).drop (pre.length + 1) = rest := by
    simp [List.drop_append]
  rw [h1, h2]
  simp

theorem expandNewlines_step (fuel : Nat) (w : Bytes) (rest : List Bytes) (h : w.any isNL = true) :
    expandNewlines (fuel + 1) (w :: rest) =
      w.takeWhile (fun b => !isNL b) :: [] ::
        expandNewlines fuel (((w.dropWhile (fun b => !isNL b)).dropWhile isNL) :: rest) := by
  simp only [expandNewlines, h, if_true]

end Girc.Proofs.Trans
