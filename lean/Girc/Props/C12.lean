import Girc.Proofs.Locks
import Girc.Gen.LockFacts
import Girc.Spec.LockPolicy
/- C12 — the client is free of data races and deadlocks under concurrent use. Property theorems only.
   Two layers: (1) on an abstract machine of threads, reader/writer locks and guarded resources, the
   lockset discipline implies race freedom and ranked acquisition implies deadlock freedom — for any
   number of threads, any programs, any schedule; (2) the discipline is checked on lock facts
   REGENERATED from the Go source on every run (tools/extract/lockfacts.go: a path-sensitive,
   interprocedural lockset walk of every function). What ties the Go program to the abstract machine
   (the extractor's abstraction, the Go memory model, channel- and WaitGroup-based ordering) is
   trusted and named in DESIGN.md; the race-detector stress run is the search for a concrete schedule. -/
namespace Girc.Props.C12
open Girc Girc.Model.Locks Girc.Spec.LockPolicy

/-! ### the abstract machine -/

theorem lockset_sound (guard : Res → LockId) (progs : List (List Op))
    (hd : ∀ p ∈ progs, covered guard [] p = true) (c : Cfg) (h : Reach progs c) : ¬ Race c :=
  Proofs.Locks.lockset_sound guard progs hd c h

theorem order_sound (rank : LockId → Nat) (progs : List (List Op))
    (ho : ∀ p ∈ progs, ordered rank [] p = true) (c : Cfg) (h : Reach progs c) : ¬ Deadlocked c :=
  Proofs.Locks.order_sound rank progs ho c h

/-- Without the disciplines the machine does race and does deadlock (the theorems are not vacuous). -/
theorem undisciplined_deadlocks :
    ∃ c, Reach [[.acq 0 true, .acq 1 true], [.acq 1 true, .acq 0 true]] c ∧ Deadlocked c :=
  Proofs.Locks.opposite_orders_deadlock

/-! ### the discipline holds of the source (facts regenerated on every run) -/

/-- Every access to a guarded resource, on every path from every root (exported API, handlers,
    goroutines, loops), happens under its guard — exclusively for writes — except the listed accesses
    ordered by goroutine creation / `group.Wait()`. -/
theorem facts_covered :
    ∀ u ∈ Gen.Lock.unguarded, (u.1, u.2.1, u.2.2.2.1) ∈ allowUnguarded := by decide

/-- Locks are acquired in rank order (state < Client.mu < ircConn.mu, UserPerms.mu; Caller.mu and
    CTCP.mu are never held while another lock is taken, nor taken while one is held), never
    re-acquired while held, with the one listed exception. -/
theorem facts_ordered :
    ∀ e ∈ Gen.Lock.edges, (e.1, e.2.2.1) ∈ allowEdges ∨ rank e.1 < rank e.2.2.1 := by decide

/-- The one exception to the rank rule is confined: for every exempt edge (a, b), the functions that hold `b` while `a` is
    acquired — i.e. that take the two locks in the opposite order — are exactly the listed ones (code that only runs while
    a connection is up). -/
theorem facts_exception_confined :
    ∀ h ∈ Gen.Lock.edgeHolders, (h.2.1, h.1) ∈ allowEdges → h.2.2 ∈ reverseHolders := by decide

/-- No user code (handlers, callbacks) and no unbounded blocking operation runs while a lock is held,
    except the listed bounded ones. -/
theorem facts_no_callouts_under_lock :
    ∀ c ∈ Gen.Lock.callouts, (c.1, c.2.1, c.2.2.1) ∈ allowCallouts := by decide

/-- Every lock taken on a path is released on that path (no early return with a lock held, no unlock
    of a lock not held, held sets agree at joins), and every call could be resolved. -/
theorem facts_consistent : Gen.Lock.inconsistent = [] ∧ Gen.Lock.unresolved = [] := by decide

/-- The extractor still recognises the locks and the resources. -/
theorem facts_sane :
    (∀ m ∈ minLockSites, ∃ s ∈ Gen.Lock.lockSites, s.1 = m.1 ∧ m.2 ≤ s.2) ∧
    (∀ m ∈ minAccessSites, ∃ s ∈ Gen.Lock.accessSites, s.1 = m.1 ∧ m.2.1 ≤ s.2.1 ∧ m.2.2 ≤ s.2.2) := by decide

end Girc.Props.C12
