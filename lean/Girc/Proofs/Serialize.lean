import Girc.Spec.EventSpec
import Girc.Proofs.Utf8
namespace Girc.Proofs.Serialize
open Girc Girc.Model Girc.Spec

theorem no_crlf (e : Event) : CR ∉ eventBytes e ∧ LF ∉ eventBytes e := by
  sorry

theorem len_ge (e : Event) : (eventBytes e).length ≤ eventLen e := by
  sorry

theorem len_eq (e : Event) (h : cleanEvent e = true) : eventLen e = (eventBytes e).length := by
  sorry

/-- For a single-token command the wire line's command is the event's command, whatever bytes
    (CR, LF, NUL, invalid UTF-8, embedded commands) the parameters contain. The two stated hypotheses:
    source parts and tag keys/values contain no SPACE (tag maps built through `Tags.Set` never do). -/
theorem command_preserved (e : Event) (hc : singleToken e.command = true)
    (hs : ∀ s, e.source = some s → noSpace s.name = true ∧ noSpace s.ident = true ∧ noSpace s.host = true)
    (ht : ∀ t, e.tags = some t → ∀ p ∈ t, noSpace p.1 = true ∧ noSpace p.2 = true) :
    lineCommand (eventBytes e) = e.command := by
  sorry

end Girc.Proofs.Serialize
