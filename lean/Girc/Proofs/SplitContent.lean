import Girc.Proofs.SplitPack
import Girc.Proofs.SplitFits
import Girc.Proofs.SplitSep
import Girc.Proofs.SplitTrim
import Girc.Proofs.SplitNL
/-
  C11: on plain text the words of the pieces refine the words of the text.
-/
set_option linter.unusedSimpArgs false
namespace Girc.Proofs.SplitContent
open Girc Girc.Model Girc.Spec Girc.Proofs.Utf8 Girc.Proofs.RoundtripUtf8 Girc.Proofs.SplitUtf8
open Girc.Proofs.SplitPack Girc.Proofs.SplitWords Girc.Proofs.SplitSep Girc.Proofs.SplitNL Girc.Proofs.SplitFits

theorem pieceWords_append (a b : List Bytes) : pieceWords (a ++ b) = pieceWords a ++ pieceWords b := by
  simp [pieceWords]

theorem pieceWords_single (l : Bytes) : pieceWords [l] = splitWords l := by
  simp [pieceWords]

theorem pieceWords_nil_line (a : List Bytes) : pieceWords (a ++ [[]]) = pieceWords a := by
  rw [pieceWords_append, pieceWords_single, splitWords_nil, List.append_nil]

theorem symbol_ascii : ∀ b : UInt8, symbolBytes.contains b = true → b < 0x80 := by decide +kernel

theorem valid_sepOf (cur : Bytes) : Valid (sepOf cur) := by
  unfold sepOf; split
  · exact Valid.nil
  · exact valid_single SP (by decide)

/-- A line with one more chunk: its words, and its validity. -/
theorem line_append (front : List Bytes) (cur chunk : Bytes) (hne : chunk ≠ []) (hs : sepFree chunk = true) :
    pieceWords (front ++ [cur ++ sepOf cur ++ chunk]) = pieceWords (front ++ [cur]) ++ [chunk] := by
  rw [pieceWords_append, pieceWords_append, pieceWords_single, pieceWords_single]
  unfold sepOf
  rw [splitWords_line_append cur chunk hne hs, List.append_assoc]

theorem valid_line (cur chunk : Bytes) (hc : Valid cur) (hk : Valid chunk) :
    Valid (cur ++ sepOf cur ++ chunk) :=
  (hc.append (valid_sepOf cur)).append hk

theorem sepOf_of_ne (cur : Bytes) (h : cur ≠ []) : sepOf cur = [SP] := by
  cases cur with
  | nil => exact absurd rfl h
  | cons b r => rfl

theorem mem_concat {α : Type} {P : α → Prop} (front : List α) (x : α) (hf : ∀ l ∈ front, P l) (hx : P x) :
    ∀ l ∈ front ++ [x], P l := by
  intro l hl
  rcases List.mem_append.mp hl with hl | hl
  · exact hf l hl
  · simp only [List.mem_singleton] at hl; subst hl; exact hx

/-- Packing one word: the pieces' words gain consecutive non-empty chunks of the word. -/
theorem packWord_content (isURL : Bytes → Bool) (w : Nat) (hw : 4 ≤ w) (fuel : Nat) (front : List Bytes)
    (cur word : Bytes) (hne : word ≠ []) (hsf : sepFree word = true) (hv : Valid word)
    (hf : ∀ l ∈ front, Valid l) (hc : Valid cur)
    (hfuel : 2 * word.length + (if cur.isEmpty then 0 else 1) < fuel) :
    ∃ cs, pieceWords (packWord isURL w [] fuel (front ++ [cur]) word) = pieceWords (front ++ [cur]) ++ cs ∧
      cs.flatten = word ∧ cs ≠ [] ∧ (∀ c ∈ cs, c ≠ []) ∧
      packWord isURL w [] fuel (front ++ [cur]) word ≠ [] ∧
      ∀ l ∈ packWord isURL w [] fuel (front ++ [cur]) word, Valid l := by
  refine packWord_cases isURL w hw
    (fun fuel front cur word r => word ≠ [] → sepFree word = true → Valid word →
      (∀ l ∈ front, Valid l) → Valid cur → 2 * word.length + (if cur.isEmpty then 0 else 1) < fuel →
      ∃ cs, pieceWords r = pieceWords (front ++ [cur]) ++ cs ∧ cs.flatten = word ∧ cs ≠ [] ∧
        (∀ c ∈ cs, c ≠ []) ∧ r ≠ [] ∧ ∀ l ∈ r, Valid l)
    ?_ ?_ ?_ ?_ ?_ ?_ fuel front cur word hne hsf hv hf hc hfuel
  · intro front cur word _ _ _ _ _ h
    omega
  · intro fuel front cur word _ hne hsf hv hf hc _
    exact ⟨[word], line_append front cur word hne hsf, by simp, by simp, by simpa using hne, by simp,
      mem_concat front _ hf (valid_line cur word hc hv)⟩
  · intro fuel front cur word r hce _ ih hne hsf hv hf hc hfuel
    have hie : cur.isEmpty = false := by cases cur <;> simp_all
    obtain ⟨cs, h1, h2, h3, h4, h5, h6⟩ := ih hne hsf hv (mem_concat front cur hf hc) Valid.nil
      (by simp [hie] at hfuel; simp; omega)
    exact ⟨cs, by rw [h1, pieceWords_nil_line], h2, h3, h4, h5, h6⟩
  · intro fuel front cur word j r hce h3 hj hjw _ hsym ih hne hsf hv hf hc hfuel
    have hie : cur.isEmpty = false := by cases cur <;> simp_all
    obtain ⟨b, hb, hbs⟩ := hsym
    have hblt := symbol_ascii b hbs
    have hjl : j < word.length := by omega
    have hbj : word[j] = b := by
      rw [List.getElem?_eq_getElem hjl] at hb; exact Option.some.inj hb
    have hdj : word.drop j = b :: word.drop (j + 1) := by
      rw [List.drop_eq_getElem_cons hjl, hbj]
    have hword : word = word.take j ++ b :: word.drop (j + 1) := by
      rw [← hdj, List.take_append_drop]
    have hv' : Valid (word.take j ++ b :: word.drop (j + 1)) := by rw [← hword]; exact hv
    have hvs := hv'.split_lead (Or.inr ⟨b, _, rfl, Or.inl hblt⟩)
    have hvd : Valid (word.drop (j + 1)) := (valid_single b hblt).drop_prefix _ hvs.2
    have htj : word.take (j + 1) = word.take j ++ [b] := by
      rw [List.take_add_one, List.getElem?_eq_getElem hjl, hbj]; rfl
    have hvt : Valid (word.take (j + 1)) := by
      rw [htj]; exact hvs.1.append (valid_single b hblt)
    have hne1 : word.take (j + 1) ≠ [] := by
      intro h; have := congrArg List.length h
      rw [List.length_take, List.length_nil] at this; omega
    have hne2 : word.drop (j + 1) ≠ [] := by
      intro h; have := congrArg List.length h
      rw [List.length_drop, List.length_nil] at this; omega
    have hline : cur ++ [SP] ++ word.take (j + 1) = cur ++ sepOf cur ++ word.take (j + 1) := by
      rw [sepOf_of_ne cur hce]
    have hlen2 : (word.drop (j + 1)).length = word.length - (j + 1) := by simp
    obtain ⟨cs, h1, h2, h3', h4, h5, h6⟩ := ih hne2 (sepFree_drop _ _ hsf) hvd hf
      (by rw [hline]; exact valid_line cur _ hc hvt)
      (by simp [hie] at hfuel; rw [hlen2]; split <;> omega)
    refine ⟨word.take (j + 1) :: cs, ?_, ?_, by simp, ?_, h5, h6⟩
    · rw [h1, hline, line_append front cur _ hne1 (sepFree_take _ _ hsf)]
      simp
    · rw [List.flatten_cons, h2, List.take_append_drop]
    · intro c hc'
      rcases List.mem_cons.mp hc' with rfl | hc'
      · exact hne1
      · exact h4 c hc'
  · intro fuel front cur word left cut _ _ _ hcut hrest hne hsf hv hf hc _
    have hcv := cutLen_valid word left hv hne
    rw [← hcut] at hcv
    have hl : 0 < word.length := List.length_pos_iff.mpr hne
    have hne1 : word.take cut ≠ [] := by
      intro h; have := congrArg List.length h
      rw [List.length_take, List.length_nil] at this; omega
    refine ⟨[word.take cut], line_append front cur _ hne1 (sepFree_take _ _ hsf), ?_, by simp,
      by simpa using hne1, by simp, mem_concat front _ hf (valid_line cur _ hc hcv.2.2.1)⟩
    have := List.take_append_drop cut word
    rw [hrest, List.append_nil] at this
    simp [this]
  · intro fuel front cur word left cut r _ _ _ hcut hrest ih hne hsf hv hf hc hfuel
    have hcv := cutLen_valid word left hv hne
    rw [← hcut] at hcv
    have hl : 0 < word.length := List.length_pos_iff.mpr hne
    have hne1 : word.take cut ≠ [] := by
      intro h; have := congrArg List.length h
      rw [List.length_take, List.length_nil] at this; omega
    have hlen2 : (word.drop cut).length = word.length - cut := by simp
    obtain ⟨cs, h1, h2, h3', h4, h5, h6⟩ := ih hrest (sepFree_drop _ _ hsf) hcv.2.2.2
      (mem_concat front _ hf (valid_line cur _ hc hcv.2.2.1)) Valid.nil
      (by rw [hlen2]; simp; split at hfuel <;> omega)
    refine ⟨word.take cut :: cs, ?_, ?_, by simp, ?_, h5, h6⟩
    · rw [h1, pieceWords_nil_line, line_append front cur _ hne1 (sepFree_take _ _ hsf)]
      simp
    · rw [List.flatten_cons, h2, List.take_append_drop]
    · intro c hc'
      rcases List.mem_cons.mp hc' with rfl | hc'
      · exact hne1
      · exact h4 c hc'

/-- The word loop: the chunks of the words consumed so far are the words of the lines so far. -/
theorem splitLoop_content (isURL : Bytes → Bool) (w : Nat) (hw : 4 ≤ w) :
    ∀ (words : List Bytes) (out : List Bytes) (chunks : List (List Bytes)),
    (∀ wd ∈ words, hasCodeByte wd = false ∧ sepFree wd = true ∧ Valid wd) → out ≠ [] →
    (∀ l ∈ out, Valid l) → chunks.flatten = pieceWords out →
    (∀ c ∈ chunks, c ≠ [] ∧ ∀ x ∈ c, x ≠ []) →
    ∃ chunks' : List (List Bytes),
      chunks'.flatten = pieceWords (splitLoop isURL w words {} out) ∧
      chunks'.map List.flatten = chunks.map List.flatten ++ words.filter (fun x => !x.isEmpty) ∧
      (∀ c ∈ chunks', c ≠ [] ∧ ∀ x ∈ c, x ≠ []) ∧
      ∀ l ∈ splitLoop isURL w words {} out, Valid l
  | [], out, chunks, _, _, hv, hfl, hch => by
    exact ⟨chunks, by simpa [splitLoop] using hfl, by simp, hch, by simpa [splitLoop] using hv⟩
  | word :: rest, out, chunks, hws, hne, hv, hfl, hch => by
    have hrest : ∀ wd ∈ rest, hasCodeByte wd = false ∧ sepFree wd = true ∧ Valid wd :=
      fun wd h => hws wd (by simp [h])
    rw [splitLoop]
    split
    · rename_i hwe
      have hfilt : (word :: rest).filter (fun x => !x.isEmpty) = rest.filter (fun x => !x.isEmpty) := by
        simp [List.filter_cons, hwe]
      rw [hfilt]
      simp only []
      split
      · exact splitLoop_content isURL w hw rest out chunks hrest hne hv hfl hch
      · exact splitLoop_content isURL w hw rest _ chunks hrest (by simp)
          (mem_concat out _ hv (by rw [fresh_empty]; exact Valid.nil))
          (by rw [fresh_empty, pieceWords_nil_line]; exact hfl) hch
    · rename_i hwe
      have hwne : word ≠ [] := by intro h; subst h; simp at hwe
      obtain ⟨hcode, hsf, hvw⟩ := hws word (by simp)
      simp only [trackWord_plain word hcode, fresh_empty]
      obtain ⟨front, cur, rfl⟩ := exists_concat out hne
      obtain ⟨cs, h1, h2, h3, h4, h5, h6⟩ := packWord_content isURL w hw (2 * word.length + 4) front cur word
        hwne hsf hvw (fun l hl => hv l (by simp [hl])) (hv cur (by simp)) (by split <;> omega)
      obtain ⟨chunks', g1, g2, g3, g4⟩ := splitLoop_content isURL w hw rest _ (chunks ++ [cs]) hrest h5 h6
        (by rw [List.flatten_append, hfl, h1]; simp)
        (mem_concat chunks cs hch ⟨h3, h4⟩)
      refine ⟨chunks', g1, ?_, g3, g4⟩
      rw [g2]
      simp [List.filter_cons, hwe, h2]

theorem pieceWords_filter : ∀ out : List Bytes,
    pieceWords (out.filter (fun l => !l.isEmpty)) = pieceWords out
  | [] => rfl
  | l :: out => by
    have ih := pieceWords_filter out
    cases l with
    | nil =>
      simp only [List.filter_cons, List.isEmpty_nil, Bool.not_true, Bool.false_eq_true, if_false]
      rw [ih]; simp [pieceWords, splitWords_nil]
    | cons b r =>
      simp only [List.filter_cons, List.isEmpty_cons, Bool.not_false, if_true]
      simp only [pieceWords, List.flatMap_cons] at ih ⊢
      rw [ih]

theorem split_content (isURL : Bytes → Bool) (t : Bytes) (w : Nat) (hp : plainText t = true) (hw : 4 ≤ w) :
    Refines (pieceWords (splitMessage isURL t w)) (wordsOf t) := by
  have hin : Valid (toValidUTF8 [0x3F] t) := valid_toValidUTF8 _ (by decide) t
  have htrim := SplitTrim.valid_trimSpace _ hin
  have hgood0 := splitWords_good _ htrim
  have hsum : wsum (splitWords (trimSpace (toValidUTF8 [0x3F] t))) ≤ (toValidUTF8 [0x3F] t).length + 1 := by
    have h1 := splitWords_sum (trimSpace (toValidUTF8 [0x3F] t))
    have h2 := length_trimSpace_le (toValidUTF8 [0x3F] t)
    unfold wsum; omega
  have hfilter := expandNewlines_filter _ _ hsum
  have hgood := expandNewlines_good ((toValidUTF8 [0x3F] t).length + 1) _
    (fun w hw => ⟨(hgood0 w hw).2.1, (hgood0 w hw).2.2⟩)
  have hplain := words_plain t hp ((toValidUTF8 [0x3F] t).length + 1)
  obtain ⟨chunks, g1, g2, g3, g4⟩ := splitLoop_content isURL w hw _ [[]] []
    (fun wd hwd => ⟨hplain wd hwd, hgood wd hwd⟩) (by simp)
    (by intro l hl; simp only [List.mem_singleton] at hl; subst hl; exact Valid.nil)
    (by simp [pieceWords, splitWords_nil]) (by simp)
  refine ⟨chunks, ?_, ?_, g3⟩
  · rw [g2, hfilter, wordsOf_eq]; rfl
  · rw [g1]
    unfold splitMessage
    simp only []
    have hid : ∀ (ls : List Bytes), (∀ l ∈ ls, Valid l) → ls.map (toValidUTF8 [0x3F]) = ls := by
      intro ls hls
      conv => rhs; rw [← List.map_id ls]
      apply List.map_congr_left
      intro l hl
      exact toValidUTF8_of_Valid _ _ (hls l hl)
    rw [hid _ (fun l hl => g4 l (List.mem_filter.mp hl).1), pieceWords_filter]

end Girc.Proofs.SplitContent
