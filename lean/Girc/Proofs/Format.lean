import Girc.Spec.FormatSpec
import Girc.Proofs.FormatFmt
import Girc.Proofs.FormatStrip
import Girc.Proofs.FormatTrim
namespace Girc.Proofs.Format
open Girc Girc.Model Girc.Spec

theorem fmt_compositional (items : List Item) (h : items.all wfItem = true) : fmt (src items) = out items := by
  exact fmtScan_src items h

theorem fmt_id (t : Bytes) (h : braceFree t = true) : fmt t = t := by
  exact fmt_id_aux t h

/-- For EVERY iteration order of the token maps. -/
theorem trimfmt_exact (order : List Bytes) (hperm : order.Perm tokenNames) (items : List Item)
    (h : items.all wfItem = true) :
    trimFmt order (src items) = src (items.filter (fun it => !isLowerToken it)) := by
  exact trimfmt_exact_aux order hperm items h

theorem strip_clean (t : Bytes) : ∀ b ∈ stripRaw t, b ∉ codeBytes := by
  exact strip_clean_aux t

theorem strip_id (t : Bytes) (h : hasCodeByte t = false) : stripRaw t = t := by
  exact strip_id_aux t h

theorem strip_idem (t : Bytes) : stripRaw (stripRaw t) = stripRaw t := by
  exact strip_idem_aux t

theorem strip_fmt (items : List Item) (h : items.all wfItem = true) (hl : literalsCodeFree items = true)
    (hd : noDigitAfterColor items = true) : stripRaw (fmt (src items)) = literals items := by
  exact strip_fmt_aux items h hl hd

end Girc.Proofs.Format
