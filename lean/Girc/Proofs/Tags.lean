import Girc.Model.Tags
import Girc.Spec.EventSpec
import Girc.Spec.Grammar
import Girc.Proofs.TagsAux
namespace Girc.Proofs.Tags
open Girc Girc.Model Girc.Spec
open Girc.Proofs.TagsAux

theorem tagDecode_tagEncode (v : Bytes) : tagDecode (tagEncode v) = v := by
  induction v with
  | nil => simp [tagEncode, tagDecode]
  | cons b v ih =>
    have hcons : tagEncode (b :: v) = tagEnc1 b ++ tagEncode v := by simp [tagEncode]
    rw [hcons]
    rcases tagEnc1_cases b with ⟨h1, h2⟩ | ⟨h1, h2⟩
    · rw [h1]; simp [tagDecode_cons_ne _ _ h2, ih]
    · rw [h1, List.cons_append, List.cons_append, List.nil_append, tagDecode_esc _ _ _ h2, ih]

theorem tagsSet_get (t t' : Tags) (k v : Bytes) (h : tagsSet t k v = some t') :
    tagsGet (some t') k = some v := by
  obtain ⟨_, _, _, rfl⟩ := tagsSet_some t t' k v h
  simp [tagsGet, get?_set, tagDecode_tagEncode]

theorem validTagValue_wireSafe (v : Bytes) (h : validTagValue v = true) : wireSafeValue v = true :=
  validTagValue_wireSafe' v h

theorem wfTags_nil : wfTags [] = true := by
  decide

/-- Everything the tag API builds is well-formed. -/
theorem tagsSet_wf (t t' : Tags) (k v : Bytes) (hw : wfTags t = true) (h : tagsSet t k v = some t') :
    wfTags t' = true :=
  tagsSet_wf' t t' k v hw h

/-- A well-formed map is never truncated by `Tags.Bytes`. -/
theorem tagsBytes_full (t : Tags) (hw : wfTags t = true) (hne : t ≠ []) :
    tagsBytes (some t) = tagsBytesFull t :=
  tagsBytes_full' t hw hne

/-- Parsing the serialised tag section gives back every stored value. -/
theorem parseTags_full (t : Tags) (hw : wfTags t = true) (hne : t ≠ []) (k : Bytes) :
    AMap.get? (parseTags ((tagsBytesFull t).drop 1)) k = AMap.get? t k :=
  parseTags_full' t hw hne k

theorem tagsBytesFull_noSpace (t : Tags) (hw : wfTags t = true) : SP ∉ tagsBytesFull t :=
  tagsBytesFull_noSpace' t hw

theorem tagsBytesFull_length (t : Tags) (hw : wfTags t = true) (hne : t ≠ []) : 2 ≤ (tagsBytesFull t).length :=
  tagsBytesFull_length' t hw hne

/-- On values whose backslashes all start a defined escape, girc's decoder is the IRCv3 unescaping. -/
theorem tagDecode_unescape (v : Bytes) (h : escapesDefined v = true) : tagDecode v = unescape v :=
  tagDecode_unescape' v h

/-- Last duplicate wins. -/
theorem meaningTags_get (ts : List (Bytes × Option Bytes)) (k : Bytes) :
    AMap.get? (meaningTags ts) k = (ts.reverse.find? (fun t => t.1 == k)).map (fun t => t.2.getD []) := by
  unfold meaningTags
  rw [meaningTags_get_aux]
  simp [AMap.get?]

end Girc.Proofs.Tags
