package main

import (
	"fmt"
	"strconv"
	"strings"
	"time"

	"github.com/lrstanley/girc"
)

// C16 timing: a serial, lock-step sender on a real connection; every observed hold is checked against the
// model's delay as a LOWER bound (a slow machine can only make arrivals later), keep-alives against a lenient upper bound.
func rateScenario(c *Ctx, in map[string]string) {
	hin := hexIn(in)
	allowFlood := in["allowflood"] == "1"
	kinds := strings.Split(in["kinds"], ",")
	s := &Session{Cfg: SessCfg{Nick: "me", User: "me", AllowFlood: allowFlood}}
	s.Steps = append(s.Steps, Step{Op: "recv", Arg: ":srv 001 me :Welcome"}, Step{Op: "barrier"})
	if strings.Contains(in["kinds"], "longmsg") {
		// a short line limit, so that the pieces of a split message are cheap (≈ 2 s each instead of ≈ 5 s)
		s.Steps = append(s.Steps, Step{Op: "recv", Arg: ":srv 005 me LINELEN=220 :are supported by this server"}, Step{Op: "barrier"})
	}
	s.Steps = append(s.Steps, Step{Op: "lastarrival"})
	for i, k := range kinds {
		switch k {
		case "longmsg": // splits into several pieces: every piece goes through the limiter
			s.Steps = append(s.Steps, Step{Op: "timedcall", Arg: "Message", Args: []string{"#chan", strings.TrimSpace(strings.Repeat(fmt.Sprintf("long message %d word ", i), 12))}})
		case "msg":
			s.Steps = append(s.Steps, Step{Op: "timedcall", Arg: "Message", Args: []string{"#chan", fmt.Sprintf("message number %d %s", i, strings.Repeat("x", i%7*5))}})
		case "tmplmsg": // built from a template event whose length the application has measured
			s.Steps = append(s.Steps, Step{Op: "timedcall", Arg: "TemplateMessage", Args: []string{"#chan", fmt.Sprintf("%d ", i) + strings.Repeat("template text ", 17)}})
		case "umsg": // multi-byte text: the cost is per BYTE on the wire
			s.Steps = append(s.Steps, Step{Op: "timedcall", Arg: "Message", Args: []string{"#chan", fmt.Sprintf("%d ", i) + strings.Repeat("日本語テキスト", 12)}})
		case "who":
			s.Steps = append(s.Steps, Step{Op: "timedcall", Arg: "Who", Args: []string{fmt.Sprintf("nick%d", i)}})
		case "join":
			s.Steps = append(s.Steps, Step{Op: "timedcall", Arg: "Join", Args: []string{fmt.Sprintf("#c%d", i)}})
		case "notice":
			s.Steps = append(s.Steps, Step{Op: "timedcall", Arg: "Notice", Args: []string{"bob", "hi"}})
		case "ping":
			s.Steps = append(s.Steps, Step{Op: "timedcall", Arg: "Ping", Args: []string{fmt.Sprintf("tok%d", i)}})
		case "pong":
			s.Steps = append(s.Steps, Step{Op: "timedcall", Arg: "Pong", Args: []string{fmt.Sprintf("tok%d", i)}})
		case "idle":
			s.Steps = append(s.Steps, Step{Op: "sleep"}, Step{Op: "sleep"})
		case "longidle": // a quiet connection earns no credit beyond the burst allowance
			s.Steps = append(s.Steps, Step{Op: "sleep", Arg: "2500"})
		case "veryidle": // longer than the 8-second allowance itself
			s.Steps = append(s.Steps, Step{Op: "sleep", Arg: "8600"})
		}
	}
	res := c.RunSession(s)
	if res.Crashed || res.Wedged || len(res.Timings) == 0 {
		c.R.Mismatch("rate.session", hin, fmt.Sprintf("crashed=%v wedged=%v timings=%d", res.Crashed, res.Wedged, len(res.Timings)), "")
		return
	}
	wd := int64(0)
	lastArr := res.Timings[0][2] // ms
	var order []string
	held := 0
	for i, t := range res.Timings[1:] {
		line := res.TimedLines[i+1]
		if t[1] != -3 { // (continuation pieces of a split message are not separate calls)
			order = append(order, strings.SplitN(line, " ", 2)[0])
		}
		call, arr, n := t[0], t[2], int(t[3])
		if arr < 0 {
			c.R.Mismatch("rate.lost", hin, fmt.Sprintf("event %d never arrived", i), "")
			return
		}
		hold := arr - call // ms
		bypass := strings.HasPrefix(line, "PING ") || strings.HasPrefix(line, "PONG ")
		if bypass || allowFlood {
			// keep-alives never pass through the limiter; with AllowFlood nothing does
			if hold > 900 {
				c.R.Violation("rate.bypass_delayed", hin, fmt.Sprintf("%q held %.0f ms", line, hold), "< 900 ms", "a keep-alive (or an event with AllowFlood set) was delayed by the limiter")
			}
			lastArr = arr
			continue
		}
		since := int64((call - lastArr) * 1e6)
		if since < 0 {
			since = 0
		}
		m := strings.Fields(c.L.Call("rate", fmt.Sprint(wd), fmt.Sprint(since), fmt.Sprint(n)))
		nwd, _ := strconv.ParseInt(m[0], 10, 64)
		d, _ := strconv.ParseInt(m[1], 10, 64)
		near := abs64(nwd-8e9) < 60e6
		if d > 0 && !near {
			held++
			if hold < float64(d)/1e6-40 {
				c.R.Violation("rate.not_held", hin, fmt.Sprintf("event %d %q (%d bytes) held %.0f ms", i, line, n, hold), fmt.Sprintf(">= %.0f ms", float64(d)/1e6),
					"the burst allowance is used up but the event was written without being held for its cost (1 s + 10 ms/byte)")
			}
		}
		wd = nwd
		lastArr = arr
	}
	c.R.Dist[fmt.Sprintf("rate.held=%d", held)]++
	// order kept
	want := []string{}
	for _, k := range kinds {
		switch k {
		case "msg", "longmsg", "umsg", "tmplmsg":
			want = append(want, "PRIVMSG")
		case "who":
			want = append(want, "WHO")
		case "join":
			want = append(want, "JOIN")
		case "notice":
			want = append(want, "NOTICE")
		case "ping":
			want = append(want, "PING")
		case "pong":
			want = append(want, "PONG")
		}
	}
	if fmt.Sprint(order) != fmt.Sprint(want) {
		c.R.Violation("rate.order", hin, fmt.Sprint(order), fmt.Sprint(want), "events sent from one goroutine arrived out of order")
	}
}

// joinBurst: lines the client writes ON ITS OWN in answer to server traffic go through the same limiter: a dozen users
// joining at once (a netsplit healing) make the tracker ask WHO for each; those lines must respect the bucket too.
func joinBurst(c *Ctx, in map[string]string) {
	hin := hexIn(in)
	s := &Session{Cfg: SessCfg{Nick: "me", User: "me", AllowFlood: false}}
	s.Steps = append(s.Steps, Step{Op: "recv", Arg: ":srv 001 me :Welcome"}, Step{Op: "barrier"}, Step{Op: "marklines"})
	var n int
	fmt.Sscan(in["joins"], &n)
	for i := 0; i < n; i++ {
		s.Steps = append(s.Steps, Step{Op: "recv", Arg: fmt.Sprintf(":user%d!u@h JOIN #big", i)})
	}
	res := c.RunSession(s2withCollect(s, n))
	if res.Crashed || res.Wedged {
		c.R.Mismatch("rate.joinburst_session", hin, fmt.Sprintf("crashed=%v wedged=%v", res.Crashed, res.Wedged), "")
		return
	}
	type ln struct {
		arr  float64
		size int
		text string
	}
	var lines []ln
	for i, t := range res.Timings {
		if t[1] == -4 && strings.HasPrefix(res.TimedLines[i], "WHO ") {
			lines = append(lines, ln{t[2], int(t[3]), res.TimedLines[i]})
		}
	}
	if len(lines) < n {
		c.R.Mismatch("rate.joinburst_lines", hin, fmt.Sprintf("%d WHO lines for %d joins", len(lines), n), "")
		return
	}
	cost := func(l ln) float64 { return 1000 + 10*float64(l.size) } // ms
	// every window of consecutive lines: cost written <= allowance + elapsed (+ one event and scheduling slack)
	for i := 0; i < len(lines); i++ {
		sum := 0.0
		for j := i + 1; j < len(lines); j++ {
			sum += cost(lines[j])
			if sum > 8000+(lines[j].arr-lines[i].arr)+cost(lines[j])+150 {
				c.R.Violation("rate.window_exceeded", hin, fmt.Sprintf("lines %d..%d: %.0f ms of cost written within %.0f ms", i+1, j, sum, lines[j].arr-lines[i].arr),
					"<= 8000 ms + elapsed", "the client's own WHO queries for a burst of JOINs left faster than the flood limiter allows (allowance 8 s of cost, then one event per its cost)")
				return
			}
		}
	}
	c.R.Count("joinburst/"+in["joins"], true, "timing-joinburst")
}

func s2withCollect(s *Session, n int) *Session {
	s.Steps = append(s.Steps, Step{Op: "collectarrivals", Arg: fmt.Sprint(n)})
	return s
}

// rateReconnect: flood protection is a property of the configuration, not of one connection: after the first connection was
// ended (by Quit, by Close, by the server) the same client connects again and a burst beyond the allowance is held as before.
func rateReconnect(c *Ctx, in map[string]string) {
	hin := hexIn(in)
	cl := girc.New(girc.Config{Server: "irc.example.org", Port: 6667, Nick: "me", User: "me", Name: "me"}) // AllowFlood off
	d1, err := newDispClientFor(cl)
	if err != nil {
		c.R.Mismatch("ratereconnect.setup", hin, err.Error(), "")
		return
	}
	switch in["end"] {
	case "quit":
		cl.Quit("bye")
	case "close":
		cl.Close()
	default:
		d1.srv.Close()
	}
	select {
	case <-d1.ret:
	case <-time.After(5 * time.Second):
		c.R.Mismatch("ratereconnect.setup", hin, "the first connection did not end", "")
		d1.srv.Close()
		return
	}
	d1.srv.Close()
	d2, err := newDispClientFor(cl)
	if err != nil {
		c.R.Mismatch("ratereconnect.setup", hin, "second connection: "+err.Error(), "")
		return
	}
	defer func() { go d2.close() }()
	// four messages of about 300 bytes: 4 s each against an allowance of 8 s: the third is held for about 4 s
	text := strings.Repeat("x", 280)
	t0 := time.Now()
	var third time.Duration
	for i := 0; i < 3; i++ {
		ti := time.Now()
		cl.Cmd.Message("#chan", fmt.Sprintf("%d %s", i, text))
		third = time.Since(ti)
	}
	total := time.Since(t0)
	if third < 2500*time.Millisecond {
		c.R.Violation("rate.not_held_after_reconnect", hin, fmt.Sprintf("third 300-byte message held %d ms (all three: %d ms)", third.Milliseconds(), total.Milliseconds()), ">= 2500 ms (cost 1 s + 10 ms/byte each, allowance 8 s)",
			"on a later connection of the same client (flood protection configured on) a burst beyond the allowance was not held")
	}
	c.R.Count("ratereconnect/"+in["end"], true, "timing-reconnect")
}

func init() {
	runners["ratescenario"] = rateScenario
	runners["joinburst"] = joinBurst
	runners["ratereconnect"] = rateReconnect
}

func runC16Timing(c *Ctx) {
	r := c.R
	scen := []map[string]string{
		{"kinds": "msg,who,join,msg,who,notice,who,umsg,msg,ping,umsg,pong,join,who"},
		{"kinds": "msg,who,longmsg,ping,longmsg"},
		{"kinds": "longidle,msg,msg,msg,msg,msg,msg,msg"},
		{"kinds": "tmplmsg,tmplmsg,tmplmsg,tmplmsg"},
		{"allowflood": "1", "kinds": "msg,who,join,msg,who,notice,who,who,msg,ping,who,who,msg,who,msg,msg"},
	}
	if c.Tier == "thorough" {
		scen = append(scen,
			map[string]string{"kinds": "who,who,who,who,who,who,who,who,who,who,who"},
			map[string]string{"kinds": "veryidle,who,who,who,who,who,who,who,who,who,who,who"},
			map[string]string{"kinds": "msg,msg,msg,msg,msg,msg,msg,idle,msg,msg,ping,msg,msg"},
			map[string]string{"kinds": "join,notice,join,notice,join,notice,join,notice,join,pong,notice,join"})
	}
	c.run("joinburst", map[string]string{"joins": "11"})
	r.Traces++
	ends := []string{"quit", "close", "drop"}
	if c.Tier != "thorough" {
		ends = []string{"quit", []string{"close", "drop"}[int(c.R.Seed)%2]}
	}
	for _, end := range ends {
		c.run("ratereconnect", map[string]string{"end": end})
		r.Traces++
	}
	for _, in := range scen {
		c.run("ratescenario", in)
		r.Count("rate:"+in["kinds"]+in["allowflood"], true, "timing-scenario")
		r.Traces++
	}
}
