import Girc.Proofs.Pure
import Girc.Gen.Facts
/- C09 — SASL delivers the exact credential (pure part: chunking, PLAIN, base64). Property theorems only. -/
namespace Girc.Props.C09
open Girc Girc.Model Girc.Proofs.Pure

theorem gen_chunk_size : Gen.const_saslChunkSize = 400 := by decide

/-- base64 loses nothing: the RFC 4648 decoder recovers every input from the encoder's output. -/
theorem b64_roundtrip (x : Bytes) : b64Decode (b64Encode x) = some x := Proofs.Pure.b64_roundtrip x

/-- PLAIN: the response to "+" is base64(user NUL user NUL password), for arbitrary bytes. -/
theorem plain_exact (u p : Bytes) :
    saslPlainEncode u p [PLUS] = b64Encode (u ++ [0x00] ++ u ++ [0x00] ++ p) ∧
    b64Decode (saslPlainEncode u p [PLUS]) = some (u ++ [0x00] ++ u ++ [0x00] ++ p) := by
  constructor
  · simp [saslPlainEncode]
  · simp [saslPlainEncode, b64_roundtrip]

/-- A mechanism that is not invited with "+" gives up (empty response). -/
theorem plain_gives_up (u p : Bytes) (ps : List Bytes) (h : ps ≠ [PLUS]) : saslPlainEncode u p ps = [] := by
  simp [saslPlainEncode, h]

/-- Chunks of at most 400 bytes whose concatenation is exactly the response; a lone "+" follows
    exactly when the last chunk is 400 bytes — for responses of EVERY length. -/
theorem chunks_exact (auth : Bytes) (hne : auth ≠ []) :
    (payloads auth).flatten = auth ∧
    (∀ c ∈ payloads auth, 1 ≤ c.length ∧ c.length ≤ 400) ∧
    (∀ c ∈ (payloads auth).dropLast, c.length = 400) ∧
    (auth.length % 400 = 0 → (saslChunks auth).getLast? = some PLUS ∧ ((payloads auth).getLast?.map List.length) = some 400) ∧
    (auth.length % 400 ≠ 0 → ((saslChunks auth).getLast?.map List.length) = some (auth.length % 400)) :=
  Proofs.Pure.chunks_exact auth hne

/-- The repaired defect (399-byte chunks) on a small instance of the same loop shape is covered by
    `chunks_exact`; concrete witnesses are replayed against the implementation by the harness. -/
example : saslChunks [0x41] = [[0x41]] := by decide

end Girc.Props.C09
