import Girc.Proofs.Serialize
import Girc.Gen.Skel
import Girc.Spec.Skeletons
/-
  C03 — one event is exactly one wire line. Property theorems only.
-/
namespace Girc.Props.C03
open Girc Girc.Model Girc.Spec

/-- For EVERY event — any bytes in any field — the serialised event contains no CR and no LF. -/
theorem no_crlf (e : Event) : CR ∉ eventBytes e ∧ LF ∉ eventBytes e := Proofs.Serialize.no_crlf e

/-- What `sendLoop`/`encode` put on the wire: the bytes, then CR LF. -/
def wire (e : Event) : Bytes := eventBytes e ++ [CR, LF]

/-- `wire` is what the code in the tree does (regenerated on every run): `sendLoop` hands every event to `encode`, which
    writes `Bytes()`, then the two-byte terminator, then flushes — nothing is cut, padded or merged in between. -/
theorem skel_wire : Gen.skel_sendLoop = Spec.Skel.skel_sendLoop ∧ Gen.skel_ircConn_encode = Spec.Skel.skel_ircConn_encode := by
  decide +kernel

/-- Exactly one line: the only CR/LF bytes of the wire form are the two terminating ones. -/
theorem one_line (e : Event) :
    ∃ body, wire e = body ++ [CR, LF] ∧ CR ∉ body ∧ LF ∉ body :=
  ⟨eventBytes e, rfl, (no_crlf e).1, (no_crlf e).2⟩

theorem command_preserved (e : Event) (hc : singleToken e.command = true)
    (hs : ∀ s, e.source = some s → noSpace s.name = true ∧ noSpace s.ident = true ∧ noSpace s.host = true)
    (ht : ∀ t, e.tags = some t → ∀ p ∈ t, noSpace p.1 = true ∧ noSpace p.2 = true) :
    lineCommand (eventBytes e) = e.command := Proofs.Serialize.command_preserved e hc hs ht

theorem len_ge (e : Event) : (eventBytes e).length ≤ eventLen e := Proofs.Serialize.len_ge e

theorem len_eq (e : Event) (h : cleanEvent e = true) : eventLen e = (eventBytes e).length :=
  Proofs.Serialize.len_eq e h

/-! Non-vacuity / regression witnesses -/
example : eventBytes { command := [0x58], params := [[0x61, 0x0D, 0x0A, 0x51]] } = [0x58, 0x20, 0x61, 0x51] := by decide
example : eventLen { command := [0x58], tags := some [] } = 1 := by decide   -- F3 repaired
example : cleanEvent { command := [0x58], params := [[0xC3, 0xA9]] } = true := by decide

end Girc.Props.C03
