import Girc.Proofs.TransSlices
import Girc.Model.Commands
import Girc.Proofs.TransParseEvent
/-
  Translator equivalence, commands.go: the helpers hand their events to the sinks `cmd.c.Send` / `cmd.c.write`; the
  generated functions return the list of `Out`s in call order (`cmd.c.MaxEventLength()` is the parameter
  `maxEventLength`).  Tied to the corresponding branch of the model's `helperOuts`.
-/
set_option linter.unusedSimpArgs false
namespace Girc.Proofs.Trans
open Girc Girc.Model Girc.Go Girc.Gen

theorem ev_JOIN (ps : List Bytes) : ev "JOIN" ps = { command := Fn.JOIN, params := ps } := by
  have : b "JOIN" = Fn.JOIN := by decide +kernel
  simp [ev, this]
theorem ev_LIST (ps : List Bytes) : ev "LIST" ps = { command := Fn.LIST, params := ps } := by
  have : b "LIST" = Fn.LIST := by decide +kernel
  simp [ev, this]
theorem ev_PART (ps : List Bytes) : ev "PART" ps = { command := Fn.PART, params := ps } := by
  have : b "PART" = Fn.PART := by decide +kernel
  simp [ev, this]
theorem ev_KICK (ps : List Bytes) : ev "KICK" ps = { command := Fn.KICK, params := ps } := by
  have : b "KICK" = Fn.KICK := by decide +kernel
  simp [ev, this]
theorem ev_MODE (ps : List Bytes) : ev "MODE" ps = { command := Fn.MODE, params := ps } := by
  have : b "MODE" = Fn.MODE := by decide +kernel
  simp [ev, this]
theorem ev_INVITE (ps : List Bytes) : ev "INVITE" ps = { command := Fn.INVITE, params := ps } := by
  have : b "INVITE" = Fn.INVITE := by decide +kernel
  simp [ev, this]
theorem ev_AWAY (ps : List Bytes) : ev "AWAY" ps = { command := Fn.AWAY, params := ps } := by
  have : b "AWAY" = Fn.AWAY := by decide +kernel
  simp [ev, this]
theorem ev_WHO (ps : List Bytes) : ev "WHO" ps = { command := Fn.WHO, params := ps } := by
  have : b "WHO" = Fn.WHO := by decide +kernel
  simp [ev, this]
theorem ev_WHOIS (ps : List Bytes) : ev "WHOIS" ps = { command := Fn.WHOIS, params := ps } := by
  have : b "WHOIS" = Fn.WHOIS := by decide +kernel
  simp [ev, this]
theorem ev_PING (ps : List Bytes) : ev "PING" ps = { command := Fn.PING, params := ps } := by
  have : b "PING" = Fn.PING := by decide +kernel
  simp [ev, this]
theorem ev_PONG (ps : List Bytes) : ev "PONG" ps = { command := Fn.PONG, params := ps } := by
  have : b "PONG" = Fn.PONG := by decide +kernel
  simp [ev, this]

/-! ### Join / List: the batching loop -/

theorem Commands_Join_loop1_eq (channels : List Bytes) (max : Int) : ∀ (fuel n : Nat) (outs : List Out) (buffer : Bytes),
    n < channels.length → channels.length - n < fuel →
    Fn.Commands_Join_loop1 channels max fuel outs buffer (n : Int) = .ok (.ret
      (outs ++ (batchChannels max (channels.drop n) buffer).map (fun bch => Out.send (ev "JOIN" [bch]))))
  | 0, _, _, _, _, h => by omega
  | fuel + 1, n, outs, buffer, hlt, hf => by
    unfold Fn.Commands_Join_loop1
    obtain ⟨ch, hd, hat, _⟩ := atL_step channels n hlt
    have hc : decide ((n : Int) < len channels) = true := by dec_tac
    have e1 : ((n : Int) + 1) = ((n + 1 : Nat) : Int) := by omega
    have hbne : (buffer != ([] : Bytes)) = !buffer.isEmpty := by cases buffer <;> rfl
    have hbeq : (buffer == ([] : Bytes)) = buffer.isEmpty := by cases buffer <;> rfl
    have hlen : decide (len ((buffer ++ [0x2C]) ++ ch) > max) = decide (((buffer ++ [0x2C] ++ ch).length : Int) > max) := rfl
    simp only [hc, hat, bind, Except.bind, pure, Except.pure, Bool.not_true, Bool.false_eq_true, if_false, andE_ok_ok,
      hbne, hlen, hbeq]
    rw [hd, batchChannels]
    simp only [ev_JOIN]
    generalize hfl : (!buffer.isEmpty && decide (((buffer ++ [0x2C] ++ ch).length : Int) > max)) = fl
    have hnile : ([] : Bytes).isEmpty = true := rfl
    by_cases hlast : n + 1 = channels.length
    · have hl : ((n : Int) == len channels - 1) = true := by
        have : (n : Int) = len channels - 1 := by simp only [len]; omega
        simp [this]
      have hnil : channels.drop (n + 1) = [] := by simp; omega
      simp only [hl, hnil, batchChannels, if_true]
      cases fl <;> cases hb : buffer.isEmpty <;> simp [hnile]
    · have hl : ((n : Int) == len channels - 1) = false := by
        have : ¬ ((n : Int) = len channels - 1) := by simp only [len]; omega
        simp [this]
      have ih := fun o bf => Commands_Join_loop1_eq channels max fuel (n + 1) o bf (by omega) (by omega)
      simp only [hl, Bool.false_eq_true, if_false, e1, ih, ev_JOIN]
      cases fl <;> cases hb : buffer.isEmpty <;> simp [hnile]

theorem Commands_Join_eq (maxEventLength : Int) (channels : List Bytes) :
    Fn.Commands_Join maxEventLength channels =
      .ok ((joinBatches (maxEventLength - 4 - 1) channels).map fun bch => Out.send (ev "JOIN" [bch])) := by
  unfold Fn.Commands_Join joinBatches
  have hj : len Fn.JOIN = 4 := rfl
  cases channels with
  | nil => rfl
  | cons ch rest =>
    have hl := Commands_Join_loop1_eq (ch :: rest) (maxEventLength - 4 - 1) (fuelTo 0 (len (ch :: rest))) 0 [] []
      (by simp) (by fuel_tac)
    simp only [Int.natCast_zero, List.drop_zero, List.nil_append] at hl
    simp only [hj, hl, bind, Except.bind, pure, Except.pure]

theorem Commands_List_loop1_eq (channels : List Bytes) (max : Int) : ∀ (fuel n : Nat) (outs : List Out) (buffer : Bytes),
    n < channels.length → channels.length - n < fuel →
    Fn.Commands_List_loop1 channels max fuel outs buffer (n : Int) = .ok (.ret
      (outs ++ (batchChannels max (channels.drop n) buffer).map (fun bch => Out.send (ev "LIST" [bch]))))
  | 0, _, _, _, _, h => by omega
  | fuel + 1, n, outs, buffer, hlt, hf => by
    unfold Fn.Commands_List_loop1
    obtain ⟨ch, hd, hat, _⟩ := atL_step channels n hlt
    have hc : decide ((n : Int) < len channels) = true := by dec_tac
    have e1 : ((n : Int) + 1) = ((n + 1 : Nat) : Int) := by omega
    have hbne : (buffer != ([] : Bytes)) = !buffer.isEmpty := by cases buffer <;> rfl
    have hbeq : (buffer == ([] : Bytes)) = buffer.isEmpty := by cases buffer <;> rfl
    have hlen : decide (len ((buffer ++ [0x2C]) ++ ch) > max) = decide (((buffer ++ [0x2C] ++ ch).length : Int) > max) := rfl
    simp only [hc, hat, bind, Except.bind, pure, Except.pure, Bool.not_true, Bool.false_eq_true, if_false, andE_ok_ok,
      hbne, hlen, hbeq]
    rw [hd, batchChannels]
    simp only [ev_LIST]
    generalize hfl : (!buffer.isEmpty && decide (((buffer ++ [0x2C] ++ ch).length : Int) > max)) = fl
    have hnile : ([] : Bytes).isEmpty = true := rfl
    by_cases hlast : n + 1 = channels.length
    · have hl : ((n : Int) == len channels - 1) = true := by
        have : (n : Int) = len channels - 1 := by simp only [len]; omega
        simp [this]
      have hnil : channels.drop (n + 1) = [] := by simp; omega
      simp only [hl, hnil, batchChannels, if_true]
      cases fl <;> cases hb : buffer.isEmpty <;> simp [hnile]
    · have hl : ((n : Int) == len channels - 1) = false := by
        have : ¬ ((n : Int) = len channels - 1) := by simp only [len]; omega
        simp [this]
      have ih := fun o bf => Commands_List_loop1_eq channels max fuel (n + 1) o bf (by omega) (by omega)
      simp only [hl, Bool.false_eq_true, if_false, e1, ih, ev_LIST]
      cases fl <;> cases hb : buffer.isEmpty <;> simp [hnile]

theorem Commands_List_eq (maxEventLength : Int) (channels : List Bytes) :
    Fn.Commands_List maxEventLength channels = .ok
      (if channels.isEmpty then [Out.send (ev "LIST" [])]
       else (joinBatches (maxEventLength - 4 - 1) channels).map fun bch => Out.send (ev "LIST" [bch])) := by
  unfold Fn.Commands_List joinBatches
  have hj : len Fn.JOIN = 4 := rfl
  cases channels with
  | nil => simp [len, ev_LIST, pure, Except.pure, bind, Except.bind]
  | cons ch rest =>
    have hl := Commands_List_loop1_eq (ch :: rest) (maxEventLength - 4 - 1) (fuelTo 0 (len (ch :: rest))) 0 [] []
      (by simp) (by fuel_tac)
    simp only [Int.natCast_zero, List.drop_zero, List.nil_append] at hl
    have h0 : (len (ch :: rest) == 0) = false := by
      have : ¬ (len (ch :: rest) = 0) := by simp only [len, List.length_cons]; omega
      simp [this]
    simp only [hj, hl, h0, bind, Except.bind, pure, Except.pure, Bool.false_eq_true, if_false, List.isEmpty_cons]

/-! ### one event per argument: Part, Invite, Who, Whois -/

theorem Commands_Part_loop1_eq (l : List Bytes) : ∀ (fuel n : Nat) (outs : List Out), n ≤ l.length → l.length - n < fuel →
    Fn.Commands_Part_loop1 l fuel outs (n : Int) = .ok (.done (outs ++ (l.drop n).map fun c => Out.send (ev "PART" [c])))
  | 0, _, _, _, h => by omega
  | fuel + 1, n, outs, hn, hf => by
    unfold Fn.Commands_Part_loop1
    by_cases hlt : n < l.length
    · obtain ⟨c, hd, hat, _⟩ := atL_step l n hlt
      have hc : decide ((n : Int) < len l) = true := by dec_tac
      have e1 : ((n : Int) + 1) = ((n + 1 : Nat) : Int) := by omega
      simp only [hc, hat, bind, Except.bind, pure, Except.pure, Bool.not_true, Bool.false_eq_true, if_false, e1]
      rw [Commands_Part_loop1_eq l fuel (n + 1) _ (by omega) (by omega), hd]
      simp [ev_PART]
    · have hc : decide ((n : Int) < len l) = false := by dec_tac
      have : l.drop n = [] := by simp; omega
      simp [hc, this, pure, Except.pure]

theorem Commands_Part_eq (channels : List Bytes) :
    Fn.Commands_Part channels = .ok (channels.map fun c => Out.send (ev "PART" [c])) := by
  unfold Fn.Commands_Part
  have hl := Commands_Part_loop1_eq channels (fuelTo 0 (len channels)) 0 [] (by omega) (by fuel_tac)
  simp only [Int.natCast_zero, List.drop_zero, List.nil_append] at hl
  simp only [hl, bind, Except.bind, pure, Except.pure]

theorem Commands_Invite_loop1_eq (ch : Bytes) (l : List Bytes) : ∀ (fuel n : Nat) (outs : List Out),
    n ≤ l.length → l.length - n < fuel →
    Fn.Commands_Invite_loop1 ch l fuel outs (n : Int) =
      .ok (.done (outs ++ (l.drop n).map fun u => Out.send (ev "INVITE" [u, ch])))
  | 0, _, _, _, h => by omega
  | fuel + 1, n, outs, hn, hf => by
    unfold Fn.Commands_Invite_loop1
    by_cases hlt : n < l.length
    · obtain ⟨c, hd, hat, _⟩ := atL_step l n hlt
      have hc : decide ((n : Int) < len l) = true := by dec_tac
      have e1 : ((n : Int) + 1) = ((n + 1 : Nat) : Int) := by omega
      simp only [hc, hat, bind, Except.bind, pure, Except.pure, Bool.not_true, Bool.false_eq_true, if_false, e1]
      rw [Commands_Invite_loop1_eq ch l fuel (n + 1) _ (by omega) (by omega), hd]
      simp [ev_INVITE]
    · have hc : decide ((n : Int) < len l) = false := by dec_tac
      have : l.drop n = [] := by simp; omega
      simp [hc, this, pure, Except.pure]

theorem Commands_Invite_eq (channel : Bytes) (users : List Bytes) :
    Fn.Commands_Invite channel users = .ok (users.map fun u => Out.send (ev "INVITE" [u, channel])) := by
  unfold Fn.Commands_Invite
  have hl := Commands_Invite_loop1_eq channel users (fuelTo 0 (len users)) 0 [] (by omega) (by fuel_tac)
  simp only [Int.natCast_zero, List.drop_zero, List.nil_append] at hl
  simp only [hl, bind, Except.bind, pure, Except.pure]

theorem whoFields : b "%tcuhnr,2" = [0x25, 0x74, 0x63, 0x75, 0x68, 0x6E, 0x72, 0x2C, 0x32] := by decide +kernel

theorem Commands_Who_loop1_eq (l : List Bytes) : ∀ (fuel n : Nat) (outs : List Out), n ≤ l.length → l.length - n < fuel →
    Fn.Commands_Who_loop1 l fuel outs (n : Int) =
      .ok (.done (outs ++ (l.drop n).map fun u => Out.send (ev "WHO" [u, b "%tcuhnr,2"])))
  | 0, _, _, _, h => by omega
  | fuel + 1, n, outs, hn, hf => by
    unfold Fn.Commands_Who_loop1
    by_cases hlt : n < l.length
    · obtain ⟨c, hd, hat, _⟩ := atL_step l n hlt
      have hc : decide ((n : Int) < len l) = true := by dec_tac
      have e1 : ((n : Int) + 1) = ((n + 1 : Nat) : Int) := by omega
      simp only [hc, hat, bind, Except.bind, pure, Except.pure, Bool.not_true, Bool.false_eq_true, if_false, e1]
      rw [Commands_Who_loop1_eq l fuel (n + 1) _ (by omega) (by omega), hd]
      simp [ev_WHO, whoFields]
    · have hc : decide ((n : Int) < len l) = false := by dec_tac
      have : l.drop n = [] := by simp; omega
      simp [hc, this, pure, Except.pure]

theorem Commands_Who_eq (users : List Bytes) :
    Fn.Commands_Who users = .ok (users.map fun u => Out.send (ev "WHO" [u, b "%tcuhnr,2"])) := by
  unfold Fn.Commands_Who
  have hl := Commands_Who_loop1_eq users (fuelTo 0 (len users)) 0 [] (by omega) (by fuel_tac)
  simp only [Int.natCast_zero, List.drop_zero, List.nil_append] at hl
  simp only [hl, bind, Except.bind, pure, Except.pure]

theorem Commands_Whois_loop1_eq (l : List Bytes) : ∀ (fuel n : Nat) (outs : List Out), n ≤ l.length → l.length - n < fuel →
    Fn.Commands_Whois_loop1 l fuel outs (n : Int) = .ok (.done (outs ++ (l.drop n).map fun u => Out.send (ev "WHOIS" [u])))
  | 0, _, _, _, h => by omega
  | fuel + 1, n, outs, hn, hf => by
    unfold Fn.Commands_Whois_loop1
    by_cases hlt : n < l.length
    · obtain ⟨c, hd, hat, _⟩ := atL_step l n hlt
      have hc : decide ((n : Int) < len l) = true := by dec_tac
      have e1 : ((n : Int) + 1) = ((n + 1 : Nat) : Int) := by omega
      simp only [hc, hat, bind, Except.bind, pure, Except.pure, Bool.not_true, Bool.false_eq_true, if_false, e1]
      rw [Commands_Whois_loop1_eq l fuel (n + 1) _ (by omega) (by omega), hd]
      simp [ev_WHOIS]
    · have hc : decide ((n : Int) < len l) = false := by dec_tac
      have : l.drop n = [] := by simp; omega
      simp [hc, this, pure, Except.pure]

theorem Commands_Whois_eq (users : List Bytes) :
    Fn.Commands_Whois users = .ok (users.map fun u => Out.send (ev "WHOIS" [u])) := by
  unfold Fn.Commands_Whois
  have hl := Commands_Whois_loop1_eq users (fuelTo 0 (len users)) 0 [] (by omega) (by fuel_tac)
  simp only [Int.natCast_zero, List.drop_zero, List.nil_append] at hl
  simp only [hl, bind, Except.bind, pure, Except.pure]

/-! ### straight-line helpers -/

theorem Commands_Kick_eq (channel user reason : Bytes) : Fn.Commands_Kick channel user reason = .ok
    ((if reason.isEmpty then [] else [Out.send (ev "KICK" [channel, user, reason])]) ++
      [Out.send (ev "KICK" [channel, user])]) := by
  unfold Fn.Commands_Kick
  cases reason <;> simp [ev_KICK, bind, Except.bind, pure, Except.pure]

theorem Commands_Mode_eq (target modes : Bytes) (params : List Bytes) :
    Fn.Commands_Mode target modes params = .ok [Out.send (ev "MODE" ([target, modes] ++ params))] := by
  unfold Fn.Commands_Mode
  simp [ev_MODE, bind, Except.bind, pure, Except.pure]

theorem Commands_Ban_eq (channel mask : Bytes) :
    Fn.Commands_Ban channel mask = .ok [Out.send (ev "MODE" [channel, b "+b", mask])] := by
  unfold Fn.Commands_Ban
  have : b "+b" = [0x2B, 0x62] := by decide +kernel
  simp [Commands_Mode_eq, this, bind, Except.bind, pure, Except.pure]

theorem Commands_Back_eq : Fn.Commands_Back = .ok [Out.send (ev "AWAY" [])] := by
  unfold Fn.Commands_Back
  simp [ev_AWAY, bind, Except.bind, pure, Except.pure]

theorem Commands_Away_eq (reason : Bytes) : Fn.Commands_Away reason = .ok
    (if reason.isEmpty then [Out.send (ev "AWAY" [])] else [Out.send (ev "AWAY" [reason])]) := by
  unfold Fn.Commands_Away
  cases reason <;> simp [Commands_Back_eq, ev_AWAY, bind, Except.bind, pure, Except.pure]

theorem Commands_Ping_eq (id : Bytes) : Fn.Commands_Ping id = .ok [Out.write (ev "PING" [id])] := by
  unfold Fn.Commands_Ping
  simp [ev_PING, bind, Except.bind, pure, Except.pure]

theorem Commands_Pong_eq (id : Bytes) : Fn.Commands_Pong id = .ok [Out.write (ev "PONG" [id])] := by
  unfold Fn.Commands_Pong
  simp [ev_PONG, bind, Except.bind, pure, Except.pure]

/-! ### more straight-line helpers -/

theorem ev_cmd (nm : String) (c : Bytes) (h : b nm = c) (ps : List Bytes) : ev nm ps = { command := c, params := ps } := by
  simp [ev, h]

theorem Commands_Nick_eq (name : Bytes) : Fn.Commands_Nick name = .ok [Out.send (ev "NICK" [name])] := by
  rw [ev_cmd "NICK" Fn.NICK (by decide +kernel)]; rfl
theorem Commands_JoinKey_eq (channel password : Bytes) :
    Fn.Commands_JoinKey channel password = .ok [Out.send (ev "JOIN" [channel, password])] := by
  rw [ev_JOIN]; rfl
theorem Commands_PartMessage_eq (channel message : Bytes) :
    Fn.Commands_PartMessage channel message = .ok [Out.send (ev "PART" [channel, message])] := by
  rw [ev_PART]; rfl
theorem Commands_Message_eq (target message : Bytes) :
    Fn.Commands_Message target message = .ok [Out.send (ev "PRIVMSG" [target, message])] := by
  rw [ev_cmd "PRIVMSG" Fn.PRIVMSG (by decide +kernel)]; rfl
theorem Commands_Notice_eq (target message : Bytes) :
    Fn.Commands_Notice target message = .ok [Out.send (ev "NOTICE" [target, message])] := by
  rw [ev_cmd "NOTICE" Fn.NOTICE (by decide +kernel)]; rfl
theorem Commands_Action_eq (target message : Bytes) :
    Fn.Commands_Action target message = .ok [Out.send (ev "PRIVMSG" [target, [0x01] ++ b "ACTION " ++ message ++ [0x01]])] := by
  have ha : b "ACTION " = [0x41, 0x43, 0x54, 0x49, 0x4F, 0x4E, 0x20] := by decide +kernel
  rw [ev_cmd "PRIVMSG" Fn.PRIVMSG (by decide +kernel), ha]; rfl
theorem Commands_Topic_eq (channel message : Bytes) :
    Fn.Commands_Topic channel message = .ok [Out.send (ev "TOPIC" [channel, message])] := by
  rw [ev_cmd "TOPIC" Fn.TOPIC (by decide +kernel)]; rfl
theorem Commands_Oper_eq (user pass : Bytes) :
    Fn.Commands_Oper user pass = .ok [Out.send (ev "OPER" [user, pass])] := by
  rw [ev_cmd "OPER" Fn.OPER (by decide +kernel)]; rfl
theorem Commands_Unban_eq (channel mask : Bytes) :
    Fn.Commands_Unban channel mask = .ok [Out.send (ev "MODE" [channel, b "-b", mask])] := by
  unfold Fn.Commands_Unban
  have : b "-b" = [0x2D, 0x62] := by decide +kernel
  simp [Commands_Mode_eq, this, bind, Except.bind, pure, Except.pure]

/-! ### SendRaw: every line is parsed and sent, up to the first one that does not parse -/

/-- The model's `helperOuts … "SendRaw"` branch. -/
def sendRawOuts (a : List Bytes) : List Out :=
  ((a.map parseEvent).takeWhile Option.isSome).filterMap (fun o => o.map Out.send)

theorem Commands_SendRaw_loop1_eq (raw : List Bytes) : ∀ (fuel n : Nat) (outs : List Out) (ev0 : Option Event),
    n ≤ raw.length → raw.length - n < fuel →
    ∃ r, Fn.Commands_SendRaw_loop1 raw fuel outs ev0 (n : Int) = .ok r ∧
      (match r with
       | .done (o, _) => o = outs ++ sendRawOuts (raw.drop n) ∧ ((raw.drop n).map parseEvent).all Option.isSome = true
       | .ret (e, o) => e = some GoErr.mk ∧ o = outs ++ sendRawOuts (raw.drop n) ∧
           ((raw.drop n).map parseEvent).all Option.isSome = false)
  | 0, _, _, _, _, h => by omega
  | fuel + 1, n, outs, ev0, hn, hf => by
    unfold Fn.Commands_SendRaw_loop1
    by_cases hlt : n < raw.length
    · obtain ⟨l, hd, hat, _⟩ := atL_step raw n hlt
      have hc : decide ((n : Int) < len raw) = true := by dec_tac
      have e1 : ((n : Int) + 1) = ((n + 1 : Nat) : Int) := by omega
      simp only [hc, hat, ParseEvent_eq, bind, Except.bind, pure, Except.pure, Bool.not_true, Bool.false_eq_true, if_false, e1]
      rw [hd]
      cases hp : parseEvent l with
      | none =>
        refine ⟨_, rfl, ?_⟩
        simp [sendRawOuts, hp, errOf]
      | some e =>
        obtain ⟨r, hr, hprop⟩ := Commands_SendRaw_loop1_eq raw fuel (n + 1) (outs ++ [Out.send e]) (some e) (by omega) (by omega)
        refine ⟨r, ?_, ?_⟩
        · first | exact hr | (rw [e1]; exact hr) | (simp only [e1]; exact hr)
        · cases r with
          | done s => obtain ⟨o, x⟩ := s; simp only [] at hprop ⊢; simp [sendRawOuts, hp, hprop.1, hprop.2] ; simp [sendRawOuts] at hprop; exact hprop.2
          | ret s => obtain ⟨e', o⟩ := s; simp only [] at hprop ⊢; simp [sendRawOuts, hp, hprop.1, hprop.2.1]; simp [sendRawOuts] at hprop; exact hprop.2.2
    · have hc : decide ((n : Int) < len raw) = false := by dec_tac
      have : raw.drop n = [] := by simp; omega
      refine ⟨.done (outs, ev0), ?_, ?_⟩
      · simp [hc, pure, Except.pure]
      · simp [this, sendRawOuts]

/-- `SendRaw`: the events handed to `Send` are the model's, and the error is non-nil exactly when some line does not parse. -/
theorem Commands_SendRaw_eq (raw : List Bytes) :
    Fn.Commands_SendRaw raw = .ok
      (if (raw.map parseEvent).all Option.isSome then none else some GoErr.mk, sendRawOuts raw) := by
  unfold Fn.Commands_SendRaw
  obtain ⟨r, hr, hprop⟩ := Commands_SendRaw_loop1_eq raw (fuelTo 0 (len raw)) 0 [] none (by omega) (by fuel_tac)
  simp only [Int.natCast_zero, List.drop_zero, List.nil_append] at hr hprop
  simp only [hr, bind, Except.bind, pure, Except.pure]
  cases r with
  | done s => obtain ⟨o, x⟩ := s; simp only [] at hprop; simp [hprop.1, hprop.2]
  | ret s => obtain ⟨e', o⟩ := s; simp only [] at hprop; simp [hprop.1, hprop.2.1, hprop.2.2]

end Girc.Proofs.Trans
