import Girc.Base.Bytes
/-
  C07 model: one connection of `Client.internalConnect` as an interleaving transition system.

  Threads: main (internalConnect after the loops are started), execLoop, readLoop, sendLoop, pingLoop,
  any number of user goroutines (Close / Quit / Send) and the peer (sends lines, closes).
  Shared state: the rx / tx queues (bounded, capacity `cap`), the two contexts (the parent context is
  cancelled only by `Close()`; the group context by the parent or by the first loop error), the
  group's first error, execLoop's own result, the socket, `Client.conn`.
  One action = one atomic step at channel/lock granularity. Handlers are opaque terminating actions
  that run inside `execTake`/`execFlush` (assumption: handlers return).
  History variables (`received`, `delivered`, `emitted`, `written`, `reqAtWait`, `parseErrSeen`,
  `pingTimedOut`, `writeFailed`) record what an observer sees; they never influence a step.
  Configuration (`cap`, `pingOff`) is fixed by `begin` and never changed by a step.

  Source anchors: conn.go internalConnect / readLoop / sendLoop / pingLoop / write, client.go execLoop /
  Close / Quit, internal/ctxgroup (first error wins, cancels).
-/
namespace Girc.Model.Life
open Girc

/-- A received event, as far as the lifecycle cares: is it an ERROR, its text, and an identity. -/
structure Ev where
  isError : Bool
  text : Bytes
  id : Nat
  deriving DecidableEq, Repr

inductive Err where
  | errEvent (text : Bytes)   -- `&ErrEvent{Event: e}`
  | io                        -- read or write error (EOF, closed pipe, reset)
  | pingTimeout               -- `ErrTimedOut`
  | parse                     -- `ErrParseEvent`
  deriving DecidableEq, Repr

inductive Loop where
  | running
  | exited (e : Option Err)
  deriving DecidableEq, Repr

def Loop.done : Loop → Bool
  | .running => false
  | .exited _ => true

/-- Where `internalConnect` is after it has started the loops and run the INITIALIZED handlers. -/
inductive MainPc where
  | waiting                         -- in `group.Wait()`
  | closedEv                        -- err == nil: about to run the CLOSED handlers
  | teardown (res : Option Err)     -- `c.stop()`, `connected = false`, `conn.Close()`
  | discEv (res : Option Err)       -- about to run the DISCONNECTED handlers
  | finish (res : Option Err)       -- `c.conn = nil`
  | returned (res : Option Err)
  deriving DecidableEq, Repr

inductive LifeEv where
  | closed | disconnected
  deriving DecidableEq, Repr

inductive OutEv where
  | quit | other (id : Nat)
  deriving DecidableEq, Repr

structure LState where
  cap : Nat := 25
  pingOff : Bool := false         -- configuration: `Config.PingDelay <= 0` (keep-alive pings disabled)
  rx : List Ev := []
  tx : List OutEv := []
  wire : List Ev := []            -- sent by the peer, not yet read
  peerClosed : Bool := false
  exec : Loop := .running
  read : Loop := .running
  send : Loop := .running
  ping : Loop := .running
  main : MainPc := .waiting
  parentCancelled : Bool := false -- the context `c.stop` cancels
  groupCancelled : Bool := false  -- the group's derived context
  groupErr : Option Err := none   -- errOnce
  readExtra : Bool := false       -- readLoop took one more line after the cancellation (the inner select)
  sockClosed : Bool := false
  connNil : Bool := false
  -- history variables
  sent : List Ev := []            -- everything the peer sent on THIS connection
  received : List Ev := []
  delivered : List Ev := []
  emitted : List LifeEv := []
  written : List OutEv := []
  closeRequested : Bool := false  -- Close() was called, or a QUIT was written (sendLoop calls Close())
  reqAtWait : Bool := false       -- the parent context's state when `group.Wait()` returned
  parseErrSeen : Bool := false    -- readLoop hit a malformed line (`ErrParseEvent`); written only by `readParseErr`
  pingTimedOut : Bool := false    -- pingLoop returned `ErrTimedOut`; written only by `pingTimeout`
  writeFailed : Bool := false     -- a socket write in sendLoop failed; written only by `sendFail`
  deriving Repr

inductive Act where
  -- environment
  | userClose | userQuit | userSend (id : Nat)
  | peerSend (e : Ev) | peerClose
  -- library
  | readTake | readEOF | readParseErr | readCancel
  | execTake | execFlush
  | sendTake | sendFail | sendCancel
  | pingTimeout | pingCancel | pingDisabled
  | mainWait | mainClosedEv | mainTeardown | mainDisc | mainFinish
  deriving DecidableEq, Repr

def Act.isLib : Act → Bool
  | .userClose | .userQuit | .userSend _ | .peerSend _ | .peerClose => false
  | _ => true

/-- `errOnce.Do(func() { g.err = err; g.cancel() })` -/
def LState.fail (s : LState) (e : Err) : LState :=
  { s with groupErr := (match s.groupErr with | some x => some x | none => some e), groupCancelled := true }

def firstError : List Ev → Option Err
  | [] => none
  | e :: rest => if e.isError then some (.errEvent e.text) else firstError rest

/-- One step; `none` = the action is not enabled in this state. -/
def step (s : LState) : Act → Option LState
  -- `Close()`: cancels the parent context (and with it the group's)
  | .userClose =>
    if s.connNil then none
    else some { s with parentCancelled := true, groupCancelled := true, closeRequested := true }
  -- `Quit()` / `Send`: `write` queues the event while a connection exists and tx has room
  | .userQuit => if s.connNil || s.tx.length ≥ s.cap then none else some { s with tx := s.tx ++ [.quit] }
  | .userSend id => if s.connNil || s.tx.length ≥ s.cap then none else some { s with tx := s.tx ++ [.other id] }
  | .peerSend e => if s.peerClosed || s.sockClosed then none else some { s with wire := s.wire ++ [e], sent := s.sent ++ [e] }
  | .peerClose => if s.peerClosed then none else some { s with peerClosed := true }
  -- readLoop
  | .readTake =>
    match s.read, s.wire with
    | .running, e :: rest =>
      if s.rx.length ≥ s.cap then none                     -- `receive` blocks (30 s, then drops): not modelled as progress
      else if s.groupCancelled && s.readExtra then none     -- the outer select sees the cancellation
      else some { s with wire := rest, rx := s.rx ++ [e], received := s.received ++ [e],
                         readExtra := s.groupCancelled }
    | _, _ => none
  | .readEOF =>
    match s.read, s.wire with
    | .running, [] =>
      if (s.peerClosed || s.sockClosed) && !(s.groupCancelled && s.readExtra)
      then some { s.fail .io with read := .exited (some .io) } else none
    | _, _ => none
  | .readParseErr =>
    match s.read, s.wire with
    | .running, _ :: rest =>
      if s.groupCancelled && s.readExtra then none
      else some { s.fail .parse with read := .exited (some .parse), wire := rest, parseErrSeen := true }
    | _, _ => none
  | .readCancel =>
    match s.read with
    | .running => if s.groupCancelled then some { s with read := .exited none } else none
    | _ => none
  -- execLoop
  | .execTake =>
    match s.exec, s.rx with
    | .running, e :: rest =>
      let s := { s with rx := rest, delivered := s.delivered ++ [e] }
      if e.isError then some { s.fail (.errEvent e.text) with exec := .exited (some (.errEvent e.text)) }
      else some s
    | _, _ => none
  | .execFlush =>
    match s.exec with
    | .running =>
      if s.groupCancelled then
        let r := firstError s.rx
        let s := { s with rx := [], delivered := s.delivered ++ s.rx, exec := .exited r }
        some (match r with | some e => s.fail e | none => s)
      else none
    | _ => none
  -- sendLoop
  | .sendTake =>
    match s.send, s.tx with
    | .running, o :: rest =>
      -- (a write after the peer closed may still succeed locally; `sendFail` is the other outcome)
      let s := { s with tx := rest, written := s.written ++ [o] }
      if o = .quit then
        some { s with parentCancelled := true, groupCancelled := true, closeRequested := true, send := .exited none }
      else some s
    | _, _ => none
  | .sendFail =>
    match s.send, s.tx with
    | .running, o :: rest =>
      if s.peerClosed || s.sockClosed then
        let s := { s with tx := rest, writeFailed := true }
        if o = .quit then
          -- `if event.Command == QUIT { c.Close(); return nil }` comes before the error test
          some { s with parentCancelled := true, groupCancelled := true, closeRequested := true, send := .exited none }
        else some { s.fail .io with send := .exited (some .io) }
      else none
    | _, _ => none
  | .sendCancel =>
    match s.send with
    | .running => if s.groupCancelled then some { s with send := .exited none } else none
    | _ => none
  -- pingLoop
  | .pingTimeout =>
    match s.ping with
    | .running =>
      -- with pings disabled the loop never gets as far as the ticker
      if s.pingOff then none
      else some { s.fail .pingTimeout with ping := .exited (some .pingTimeout), pingTimedOut := true }
    | _ => none
  | .pingCancel =>
    match s.ping with
    -- the `<-ctx.Done()` arm of the select: only reached when pings are enabled
    | .running => if s.groupCancelled && !s.pingOff then some { s with ping := .exited none } else none
    | _ => none
  -- `if c.Config.PingDelay <= 0 { return nil }`: the loop returns nil at once, on a healthy connection.
  -- `ctxgroup.Go` records an error / cancels only for a non-nil result: nothing else changes.
  | .pingDisabled =>
    match s.ping with
    | .running => if s.pingOff then some { s with ping := .exited none } else none
    | _ => none
  -- internalConnect after the loops have been started
  | .mainWait =>
    match s.main with
    | .waiting =>
      if s.exec.done && s.read.done && s.send.done && s.ping.done then
        -- `err := group.Wait(); if execErr != nil { err = execErr }; if ctx.Err() != nil { err = nil }`
        let err := match s.exec with | .exited (some e) => some e | _ => s.groupErr
        let err := if s.parentCancelled then none else err
        some { s with groupCancelled := true, reqAtWait := s.parentCancelled,
                      main := (match err with | none => .closedEv | some e => .teardown (some e)) }
      else none
    | _ => none
  | .mainClosedEv =>
    match s.main with
    | .closedEv => some { s with emitted := s.emitted ++ [.closed], main := .teardown none }
    | _ => none
  | .mainTeardown =>
    match s.main with
    | .teardown r => some { s with parentCancelled := true, groupCancelled := true, sockClosed := true, main := .discEv r }
    | _ => none
  | .mainDisc =>
    match s.main with
    | .discEv r => some { s with emitted := s.emitted ++ [.disconnected], main := .finish r }
    | _ => none
  | .mainFinish =>
    match s.main with
    | .finish r => some { s with connNil := true, main := .returned r }
    | _ => none

/-- Run a list of actions; `none` as soon as one is not enabled. -/
def run (s : LState) : List Act → Option LState
  | [] => some s
  | a :: rest => match step s a with | some s' => run s' rest | none => none

/-- The start of a connection: the previous connection's queues are emptied (`internalConnect`
    drains rx and tx under the client mutex before starting the loops). -/
def begin (_prevRx : List Ev) (_prevTx : List OutEv) (cap : Nat := 25) (pingOff : Bool := false) : LState :=
  { cap := cap, pingOff := pingOff }

inductive Reach : LState → Prop where
  | init (rx : List Ev) (tx : List OutEv) (cap : Nat) (pingOff : Bool) : Reach (begin rx tx cap pingOff)
  | step {s s' : LState} (a : Act) : Reach s → step s a = some s' → Reach s'

/-- Termination measure: work the library still has to do once the group is cancelled. -/
def mainRank : MainPc → Nat
  | .waiting => 6 | .closedEv => 5 | .teardown none => 4 | .teardown (some _) => 4 | .discEv _ => 3 | .finish _ => 2 | .returned _ => 0

def loopRank : Loop → Nat
  | .running => 1 | .exited _ => 0

def measure (s : LState) : Nat :=
  mainRank s.main +
  (if s.read = .running then 2 + (if s.readExtra then 0 else 2) else 0) +
  (if s.exec = .running then 1 + s.rx.length + (if s.read = .running && !s.readExtra then 1 else 0) else 0) +
  (if s.send = .running then 1 + s.tx.length else 0) +
  loopRank s.ping

end Girc.Model.Life
