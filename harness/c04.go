package main

import (
	"fmt"
	"sort"
	"strings"
)

// ---- C04: a simulated IRC network producing protocol-conformant histories for one client ----

type simUser struct {
	nick, ident, host, account, real string
	chans                            map[string]bool // folded channel names
}

type simNet struct {
	r         *RNG
	me        string
	users     map[string]*simUser // folded nick -> user (everyone on the network, incl. me)
	joined    map[string]string   // folded chan -> spelling, channels I am in
	modes     map[string]map[byte]string
	prefixes  string            // "(qaohv)~&@%+" or "(ov)@+"
	chanmodes string            // CHANMODES announced in 005
	layout    map[string]string // per channel: the CHANMODES in force when the client started tracking it
	extJoin   bool
	uhNames   bool
	out       []string
}

func variant(r *RNG, s string) string {
	if !r.Chance(25) {
		return s
	}
	b := []byte(s)
	for i := range b {
		switch {
		case b[i] >= 'a' && b[i] <= 'z' && r.Bool():
			b[i] -= 32
		case b[i] >= 'A' && b[i] <= 'Z' && r.Bool():
			b[i] += 32
		case b[i] == '[' && r.Bool():
			b[i] = '{'
		case b[i] == '{' && r.Bool():
			b[i] = '['
		case b[i] == '\\' && r.Bool():
			b[i] = '|'
		case b[i] == '|' && r.Bool():
			b[i] = '\\'
		}
	}
	return string(b)
}

func (n *simNet) src(u *simUser) string { return ":" + u.nick + "!" + u.ident + "@" + u.host + " " }

func (n *simNet) emit(f string, a ...interface{}) { n.out = append(n.out, "R"+fmt.Sprintf(f, a...)) }

func (n *simNet) modeLetters() string {
	if strings.Contains(n.prefixes, "q") {
		return "qaohv"
	}
	return "ov"
}

func (n *simNet) symFor(letter byte) string {
	i := strings.IndexByte(n.prefixes, ')')
	letters, syms := n.prefixes[1:i], n.prefixes[i+1:]
	return string(syms[strings.IndexByte(letters, letter)])
}

func (n *simNet) others() []*simUser {
	var l []*simUser
	for k, u := range n.users {
		if k != lowerRFC(n.me) {
			l = append(l, u)
		}
	}
	sort.Slice(l, func(i, j int) bool { return l[i].nick < l[j].nick })
	return l
}

func (n *simNet) sharedWithMe(u *simUser) bool {
	for c := range u.chans {
		if _, ok := n.joined[c]; ok {
			return true
		}
	}
	return false
}

func (n *simNet) membersOf(c string) []*simUser {
	var l []*simUser
	for _, u := range n.users {
		if u.chans[c] {
			l = append(l, u)
		}
	}
	sort.Slice(l, func(i, j int) bool { return l[i].nick < l[j].nick })
	return l
}

func (n *simNet) meUser() *simUser { return n.users[lowerRFC(n.me)] }

func (n *simNet) joinMe(ch string) {
	c := lowerRFC(ch)
	me := n.meUser()
	me.chans[c] = true
	n.joined[c] = ch
	n.modes[c] = map[byte]string{}
	if n.layout == nil {
		n.layout = map[string]string{}
	}
	n.layout[c] = n.chanmodes
	if n.extJoin {
		n.emit("%sJOIN %s %s :%s", n.src(me), ch, orStar(me.account), me.real)
	} else {
		n.emit("%sJOIN %s", n.src(me), ch)
	}
	// some users are already there
	for _, u := range n.others() {
		if n.r.Chance(50) {
			u.chans[c] = true
		}
	}
	if n.r.Chance(70) {
		n.emit(":srv 332 %s %s :topic of %s", n.me, variant(n.r, ch), ch)
	}
	var entries []string
	for _, u := range n.membersOf(c) {
		pfx := ""
		if u != me {
			for _, l := range n.modeLetters() {
				if n.r.Chance(25) {
					pfx += n.symFor(byte(l))
				}
			}
		}
		e := pfx + u.nick
		if n.uhNames {
			e += "!" + u.ident + "@" + u.host
		}
		entries = append(entries, e)
	}
	for len(entries) > 0 {
		k := 1 + n.r.Intn(len(entries))
		n.emit(":srv 353 %s = %s :%s", n.me, variant(n.r, ch), strings.Join(entries[:k], " "))
		entries = entries[k:]
	}
	n.emit(":srv 366 %s %s :End of /NAMES list.", n.me, ch)
	if n.r.Chance(70) {
		flags, args := "+", ""
		if n.r.Bool() {
			flags += "n"
			n.modes[c]['n'] = ""
		}
		if n.r.Bool() {
			flags += "t"
			n.modes[c]['t'] = ""
		}
		if n.r.Chance(30) {
			flags += "k"
			args += " key"
			n.modes[c]['k'] = "key"
		}
		if n.r.Chance(30) {
			flags += "l"
			args += " 25"
			n.modes[c]['l'] = "25"
		}
		n.emit(":srv 324 %s %s %s%s", n.me, ch, flags, args)
	}
	// WHO replies to the client's own query
	for _, u := range n.membersOf(c) {
		if n.r.Chance(60) {
			if n.r.Chance(70) {
				n.emit(":srv 354 %s 1 %s %s %s %s %s :%s", n.me, ch, u.ident, u.host, variant(n.r, u.nick), orZero(u.account), u.real)
			} else {
				n.emit(":srv 352 %s %s %s %s srv %s H :0 %s", n.me, ch, u.ident, u.host, u.nick, u.real)
			}
		}
	}
}

func orStar(s string) string {
	if s == "" {
		return "*"
	}
	return s
}
func orZero(s string) string {
	if s == "" {
		return "0"
	}
	return s
}

func (n *simNet) partLike(u *simUser, c string) {
	delete(u.chans, c)
	if u == n.meUser() {
		delete(n.joined, c)
		delete(n.modes, c)
		// nobody's membership in a channel I left is visible any more; keep the network's own bookkeeping simple:
		for _, o := range n.others() {
			delete(o.chans, c)
		}
	}
}

func (n *simNet) step() {
	r := n.r
	var chans []string
	for c := range n.joined {
		chans = append(chans, c)
	}
	sort.Strings(chans)
	pickChan := func() (string, string) {
		c := chans[r.Intn(len(chans))]
		return c, n.joined[c]
	}
	if r.Chance(3) && n.prefixes == "(ov)@+" {
		// the server announces its supported modes again, changed (a services restart, a rehash): channels tracked from now on
		// use the new classes
		n.chanmodes = r.Pick([]string{"beI,k,l,imnpst", "eIbq,k,flj,CFLMPQScgimnprstuz", "beI,k,,imnpst", "b,k,l,"})
		n.emit(":srv 005 %s CHANMODES=%s :are supported by this server", n.me, n.chanmodes)
		return
	}
	switch r.Intn(16) {
	case 0, 1:
		if len(n.joined) < 3 {
			ch := r.Pick([]string{"#Chan", "#a[b]", "&local", "#x", "#Zed^"})
			if _, in := n.joined[lowerRFC(ch)]; !in {
				n.joinMe(ch)
			}
		}
	case 2, 3:
		if len(chans) == 0 {
			return
		}
		c, ch := pickChan()
		for _, u := range n.others() {
			if !u.chans[c] {
				u.chans[c] = true
				if n.extJoin {
					n.emit("%sJOIN %s %s :%s", n.src(u), variant(r, ch), orStar(u.account), u.real)
				} else {
					n.emit("%sJOIN %s", n.src(u), variant(r, ch))
				}
				if r.Chance(50) {
					n.emit(":srv 354 %s 1 %s %s %s %s %s :%s", n.me, ch, u.ident, u.host, u.nick, orZero(u.account), u.real)
				}
				return
			}
		}
	case 4:
		if len(chans) == 0 {
			return
		}
		c, ch := pickChan()
		m := n.membersOf(c)
		u := m[r.Intn(len(m))]
		n.emit("%sPART %s%s", n.src(u), variant(r, ch), r.Pick([]string{"", " :bye"}))
		n.partLike(u, c)
	case 5:
		if len(chans) == 0 {
			return
		}
		c, ch := pickChan()
		m := n.membersOf(c)
		u := m[r.Intn(len(m))]
		by := m[r.Intn(len(m))]
		n.emit("%sKICK %s %s :out", n.src(by), variant(r, ch), variant(r, u.nick))
		n.partLike(u, c)
	case 6:
		for _, u := range n.others() {
			if n.sharedWithMe(u) && r.Chance(30) {
				n.emit("%sQUIT :gone", n.src(u))
				u.chans = map[string]bool{}
				return
			}
		}
	case 7, 8:
		// nick change of a visible user (or me) to an unused nick, possibly case-only
		var cands []*simUser
		for _, u := range n.users {
			if n.sharedWithMe(u) || u == n.meUser() {
				cands = append(cands, u)
			}
		}
		sort.Slice(cands, func(i, j int) bool { return cands[i].nick < cands[j].nick })
		if len(cands) == 0 {
			return
		}
		u := cands[r.Intn(len(cands))]
		nn := r.Pick([]string{u.nick + "_", "x" + u.nick, strings.ToUpper(u.nick), strings.ToLower(u.nick), u.nick + "[1]", "Guest" + fmt.Sprint(r.Intn(99))})
		if _, taken := n.users[lowerRFC(nn)]; taken && lowerRFC(nn) != lowerRFC(u.nick) {
			return
		}
		ntag := ""
		if u != n.meUser() && r.Chance(30) {
			// account-tag on the NICK message itself, carrying an account the client has not been told about yet (no account-notify):
			// the tag speaks about the SENDER of the message, i.e. the user under the name it had when it sent it
			u.account = "acct" + fmt.Sprint(r.Intn(9))
			ntag = "@account=" + u.account + " "
		}
		n.emit("%s%sNICK %s%s", ntag, n.src(u), r.Pick([]string{"", ":"}), nn)
		delete(n.users, lowerRFC(u.nick))
		if u == n.meUser() || lowerRFC(u.nick) == lowerRFC(n.me) {
			n.me = nn
		}
		u.nick = nn
		n.users[lowerRFC(nn)] = u
	case 9, 10:
		if len(chans) == 0 {
			return
		}
		c, ch := pickChan()
		m := n.membersOf(c)
		by := m[r.Intn(len(m))]
		var flags, args strings.Builder
		sign := byte(0)
		for k := 1 + r.Intn(4); k > 0; k-- {
			add := r.Bool()
			s := byte('-')
			if add {
				s = '+'
			}
			if s != sign {
				flags.WriteByte(s)
				sign = s
			}
			lay := n.chanmodes
			if l, ok := n.layout[c]; ok {
				lay = l // a channel keeps the mode classes it was created with
			}
			cls := strings.Split(lay, ",")
			pick := r.Intn(6)
			// a network may announce an EMPTY class ("beI,k,,imnpst"): nothing to draw from it
			if (pick == 0 && cls[3] == "") || (pick == 2 && cls[2] == "") || (pick == 3 && cls[0] == "") {
				pick = 5
			}
			if pick == 1 && !strings.Contains(cls[1], "k") {
				pick = 5
			}
			switch pick {
			case 0: // D
				l := cls[3][r.Intn(len(cls[3]))]
				flags.WriteByte(l)
				if add {
					n.modes[c][l] = ""
				} else {
					delete(n.modes[c], l)
				}
			case 1: // B (k): always an argument
				flags.WriteByte('k')
				key := r.Pick([]string{"key", "s3cret"})
				args.WriteString(" " + key)
				if add {
					n.modes[c]['k'] = key
				} else {
					delete(n.modes[c], 'k')
				}
			case 2: // C: argument only when set
				l := cls[2][r.Intn(len(cls[2]))]
				flags.WriteByte(l)
				if add {
					lim := fmt.Sprint(5 + r.Intn(50))
					args.WriteString(" " + lim)
					n.modes[c][l] = lim
				} else {
					delete(n.modes[c], l)
				}
			case 3: // A: list mode; the argument is a mask, on some networks a bare nick
				l := cls[0][r.Intn(len(cls[0]))]
				flags.WriteByte(l)
				if r.Chance(30) {
					args.WriteString(" " + m[r.Intn(len(m))].nick)
				} else {
					args.WriteString(" *!*@bad.host")
				}
			default: // privilege
				l := n.modeLetters()[r.Intn(len(n.modeLetters()))]
				t := m[r.Intn(len(m))]
				flags.WriteByte(l)
				args.WriteString(" " + variant(r, t.nick))
			}
		}
		n.emit("%sMODE %s %s%s", n.src(by), variant(r, ch), flags.String(), args.String())
	case 11:
		if len(chans) == 0 {
			return
		}
		c, ch := pickChan()
		m := n.membersOf(c)
		n.emit("%sTOPIC %s :%s", n.src(m[r.Intn(len(m))]), variant(r, ch), r.Pick([]string{"new topic", "", "a : b"}))
	case 12:
		for _, u := range n.others() {
			if n.sharedWithMe(u) && r.Chance(40) {
				switch r.Intn(3) {
				case 0:
					n.emit("%sAWAY%s", n.src(u), r.Pick([]string{"", " :gone fishing"}))
				case 1:
					u.account = r.Pick([]string{"", "acct" + fmt.Sprint(r.Intn(9))})
					n.emit("%sACCOUNT %s", n.src(u), orStar(u.account))
				default:
					oldsrc := n.src(u)
					u.ident, u.host = "n"+u.ident, "new.host"
					n.emit("%sCHGHOST %s %s", oldsrc, u.ident, u.host)
				}
				return
			}
		}
	case 13:
		for _, u := range n.others() {
			if n.sharedWithMe(u) && r.Chance(40) {
				tag := ""
				if u.account != "" {
					tag = "@account=" + u.account + " "
				}
				var tgt string
				if len(chans) > 0 {
					_, tgt = pickChan()
				} else {
					tgt = n.me
				}
				n.emit("%s%sPRIVMSG %s :hello there", tag, n.src(u), tgt)
				return
			}
		}
	case 14:
		for _, u := range n.others() {
			if n.sharedWithMe(u) && r.Chance(40) {
				var tgt string
				for c := range u.chans {
					if s, ok := n.joined[c]; ok {
						tgt = s
					}
				}
				n.emit(":srv 354 %s 1 %s %s %s %s %s :%s", n.me, tgt, u.ident, u.host, variant(r, u.nick), orZero(u.account), u.real)
				return
			}
		}
	default:
		n.emit(":srv 372 %s :- motd line %d", n.me, r.Intn(9))
	}
}

func simHistory(r *RNG, length int) []string {
	n := &simNet{r: r, me: "me", users: map[string]*simUser{}, joined: map[string]string{}, modes: map[string]map[byte]string{}}
	n.users["me"] = &simUser{nick: "me", ident: "~me", host: "my.host", real: "Me Myself", chans: map[string]bool{}}
	for _, nk := range []string{"Bob", "carl", "D[ave]", "eve\\", "Zed^"} {
		u := &simUser{nick: nk, ident: strings.ToLower(nk[:1]) + "id", host: "host." + strings.ToLower(nk[:1]), real: "Real " + nk, chans: map[string]bool{}}
		if r.Bool() {
			u.account = "acct" + strings.ToLower(nk[:1])
		}
		n.users[lowerRFC(nk)] = u
	}
	n.prefixes = r.Pick([]string{"(ov)@+", "(qaohv)~&@%+"})
	n.chanmodes = "beI,k,l,imnpst"
	if n.prefixes == "(ov)@+" && r.Chance(40) {
		n.chanmodes = "eIbq,k,flj,CFLMPQScgimnprstuz" // a network where 'q' is a list mode (quiet), with more class C/D letters
	} else if r.Chance(25) {
		// a class may be empty: the classes are POSITIONAL (A,B,C,D), an empty one must not shift the later ones
		n.chanmodes = r.Pick([]string{"beI,k,,imnpst", "beI,,l,imnpst", ",k,l,imnpst", "b,k,l,"})
	}
	n.extJoin, n.uhNames = r.Bool(), r.Bool()
	if r.Chance(30) {
		n.me = "Me2" // the server renames us on connect
		u := n.users["me"]
		delete(n.users, "me")
		u.nick = "Me2"
		n.users["me2"] = u
	}
	if r.Chance(40) {
		n.emit(":srv NOTICE * :*** Looking up your hostname...")
	}
	n.emit(":srv 001 %s :Welcome", n.me)
	if r.Chance(70) {
		n.emit(":srv 004 %s srv.example.org ircd-9.9 iow beIklimnpst", n.me)
	}
	if n.prefixes != "(ov)@+" || n.chanmodes != "beI,k,l,imnpst" || r.Bool() {
		n.emit(":srv 005 %s PREFIX=%s CHANMODES=%s NICKLEN=%d NETWORK=SimNet :are supported by this server", n.me, n.prefixes, n.chanmodes, 9+r.Intn(30))
	}
	if r.Bool() {
		n.emit(":srv 375 %s :- srv Message of the day -", n.me)
		n.emit(":srv 372 %s :- hello", n.me)
	}
	for i := 0; i < length; i++ {
		n.step()
	}
	return n.out
}

// gettersAgree: what the PUBLIC state API returns (GetNick/…, ChannelList, UserList, Channels, Users, the
// snapshots' fields, Perms.Lookup) must be exactly the tracked state that the hook dump shows (which is what is
// compared with the model and, through it, with the reference).
func gettersAgree(hook, get []string, cfgNick, cfgUser string) string {
	kv := map[string]string{}
	chans := map[string][]string{} // Name -> fields
	users := map[string][]string{} // Nick -> fields
	for _, l := range hook {
		f := strings.Split(l, "\x00")
		switch {
		case f[0] == "chan" && len(f) >= 6:
			chans[f[2]] = f
		case f[0] == "user" && len(f) >= 10:
			users[f[2]] = f
		case len(f) == 1 && strings.Contains(l, "="):
			i := strings.IndexByte(l, '=')
			kv[l[:i]] = l[i+1:]
		}
	}
	nch, nus := 0, 0
	for _, l := range get {
		f := strings.Split(l, "\x00")
		switch {
		case f[0] == "channel" && len(f) == 5:
			nch++
			h, ok := chans[f[1]]
			if !ok {
				return "Channels() returned untracked channel " + f[1]
			}
			if f[2] != h[3] || f[3] != h[4] || f[4] != h[5] {
				return "snapshot of channel " + f[1] + " differs from the tracked channel: " + strings.Join(f[2:], "|") + " vs " + strings.Join(h[3:6], "|")
			}
		case f[0] == "user" && len(f) == 9:
			nus++
			h, ok := users[f[1]]
			if !ok {
				return "Users() returned untracked user " + f[1]
			}
			for i := 2; i <= 7; i++ {
				if f[i] != h[i+1] {
					return fmt.Sprintf("snapshot of user %s differs from the tracked user in field %d: %q vs %q", f[1], i, f[i], h[i+1])
				}
			}
			hp := map[string]string{}
			for _, x := range strings.Split(h[9], "\x01") {
				if i := strings.LastIndexByte(x, '='); i >= 0 {
					hp[x[:i]] = x[i+1:]
				}
			}
			if f[8] != "" {
				for _, x := range strings.Split(f[8], "\x01") {
					i := strings.LastIndexByte(x, '=')
					if i < 0 {
						continue
					}
					want, ok := hp[x[:i]]
					if !ok {
						want = "00000"
					}
					got := x[i+1:]
					if len(got) != 6 || (ok && got[0] != '1') || got[1:] != want {
						return fmt.Sprintf("Perms.Lookup(%q) of user %s = %s, tracked %s (present=%v)", x[:i], f[1], got, want, ok)
					}
				}
			}
		case strings.HasPrefix(l, "nick=") || strings.HasPrefix(l, "ident=") || strings.HasPrefix(l, "host=") || strings.HasPrefix(l, "motd="):
			i := strings.IndexByte(l, '=')
			want := kv[l[:i]]
			// GetNick / GetIdent fall back to the configured values until the server has told the client otherwise
			if want == "" && l[:i] == "nick" {
				want = cfgNick
			}
			if want == "" && l[:i] == "ident" {
				want = cfgUser
			}
			if want != l[i+1:] {
				return fmt.Sprintf("getter %s returns %q, tracked %q", l[:i], l[i+1:], kv[l[:i]])
			}
		case strings.HasPrefix(l, "channels="):
			var names []string
			for n := range chans {
				names = append(names, n)
			}
			got := strings.Split(strings.TrimPrefix(l, "channels="), "\x01")
			if l == "channels=" {
				got = nil
			}
			sort.Strings(names)
			g2 := append([]string(nil), got...)
			sort.Strings(g2)
			if strings.Join(names, "\x01") != strings.Join(g2, "\x01") {
				return fmt.Sprintf("ChannelList() = %q, tracked %q", got, names)
			}
		case strings.HasPrefix(l, "users="):
			var names []string
			for n := range users {
				names = append(names, n)
			}
			got := strings.Split(strings.TrimPrefix(l, "users="), "\x01")
			if l == "users=" {
				got = nil
			}
			sort.Strings(names)
			g2 := append([]string(nil), got...)
			sort.Strings(g2)
			if strings.Join(names, "\x01") != strings.Join(g2, "\x01") {
				return fmt.Sprintf("UserList() = %q, tracked %q", got, names)
			}
		}
	}
	if nch != len(chans) || nus != len(users) {
		return fmt.Sprintf("Channels()/Users() returned %d/%d objects, %d/%d are tracked", nch, nus, len(chans), len(users))
	}
	return ""
}

func init() {
	props["C04"] = runC04
	sessionChecks["c04"] = func(c *Ctx, in, hin map[string]string, sc SessCfg, steps []string, cmp *SessCmp) {
		for i := range cmp.ImplDump {
			if i < len(cmp.Res.Getters) {
				if msg := gettersAgree(cmp.Res.Dumps[i], cmp.Res.Getters[i], sc.Nick, sc.User); msg != "" {
					c.R.Violation("c04.getters", hin, msg, "", "what the public state API returns is not the tracked state")
					break
				}
			}
		}
		resp := c.L.Call("refcmp", encCfg(sc, false, false), hxList(steps))
		if strings.HasPrefix(resp, "nonconformant") {
			why := c.L.Call("confwhy", encCfg(sc, false, false), hxList(steps))
			f := strings.SplitN(why, " ", 2)
			if len(f) == 2 {
				why = f[0] + " " + unhx(f[1])
			}
			c.R.Mismatch("c04.generator_not_conformant", hin, why, "")
			return
		}
		if resp == "1" {
			// the model agrees with the reference on this conformant history; if the implementation's state dumps
			// differ from the model's, the implementation differs from the reference: a concrete failing history
			for _, dd := range cmp.Diffs {
				if strings.HasPrefix(dd, "dump ") {
					c.R.Violation("c04.reference_impl", hin, "the real client's tracked state differs from the reference model after this conformant history: "+dd, "", "after a conformant history the state API shows something other than what the client was told")
					return
				}
			}
		}
		if resp != "1" {
			// the implementation agrees with its model (checked above); the model disagrees with the reference tracker
			if len(cmp.Diffs) == 0 {
				c.R.Violation("c04.reference", hin, "tracked state differs from the reference model: "+resp, "", "after a conformant history the state API shows something other than what the client was told")
			} else {
				c.R.Mismatch("c04.refcmp", hin, resp, "")
			}
		}
	}
}

// hand-written histories that run first (each once exposed a difference)
var c04Corpus = [][]string{
	{ // a list mode whose letter is also a privilege letter elsewhere (solanum's +q quiet) names a present user
		":srv 001 me :Welcome",
		":srv 005 me PREFIX=(ov)@+ CHANMODES=eIbq,k,flj,imnpst :are supported by this server",
		":me!~me@my.host JOIN #c",
		":srv 353 me = #c :me @alice bob",
		":alice!a@h MODE #c +q bob",
		":alice!a@h MODE #c +qv-o alice bob alice",
	},
	{ // mode letters >= 0x80: the state API spells a letter string(byte), i.e. as the two-byte UTF-8 encoding of U+0080..U+00FF
		":srv 001 me :Welcome",
		":srv 005 me PREFIX=(ov)@+ CHANMODES=b,k,l,imnpst :are supported by this server",
		":me!~me@my.host JOIN #c",
		":srv 353 me = #c :me @alice bob",
		":alice!a@h MODE #c +\xe9k\x80 key",
		":alice!a@h MODE #c +m-\x80",
	},
}

func runC04(c *Ctx) {
	runModeSyntax(c)
	// one client over three connections (renamed by the welcome, by NICK, back): it tracks itself correctly on each
	c.run("idreconnect", map[string]string{"scenario": "three connections, own JOIN/PART on each"})
	r := c.R
	r.Rule = "random walks of a simulated network (5 other users, up to 3 channels, RFC1459-case-variant spellings in parameters, nick changes incl. case-only and of the client itself, multi-prefix NAMES with and without userhost-in-names split over several 353 lines, " +
		"extended-join, 352/354 WHO replies, MODE strings mixing +/- over all four CHANMODES classes and PREFIX modes, TOPIC/AWAY/ACCOUNT/CHGHOST/account-tag traffic, 001 renaming the client, 004/005/MOTD): the real client vs its model (lines, dumps) " +
		"and the model vs the reference tracker (observation equality); non-trivial = >= 25 lines; distinct = distinct history"
	for i := 0; i < len(c04Corpus)+120*c.Scale; i++ {
		var steps []string
		if i < len(c04Corpus) {
			for _, l := range c04Corpus[i] {
				steps = append(steps, "R"+l)
			}
		} else {
			steps = simHistory(c.Rng, 10+c.Rng.Intn(60))
			if c.Rng.Chance(30) {
				// IRCv3 decorations the tracker has no business with: lines grouped into a batch (netsplit/netjoin), server-time, msgid
				for j := range steps {
					if j > 0 && c.Rng.Chance(50) && strings.HasPrefix(steps[j], "R:") {
						steps[j] = "R@" + c.Rng.Pick([]string{"batch=nb1", "time=2020-01-02T03:04:05.678Z", "batch=nb1;msgid=abc123", "msgid=x;time=2021-11-12T13:14:15.000Z;batch=r2"}) + " " + steps[j][1:]
					}
				}
			}
		}
		// checked after the welcome has been fully processed: dumps at the end and at a few points in between
		var withDumps []string
		for j, s := range steps {
			withDumps = append(withDumps, s)
			if j > 3 && c.Rng.Chance(8) {
				withDumps = append(withDumps, "D")
			}
		}
		withDumps = append(withDumps, "D")
		in := map[string]string{"nick": "me", "check": "c04"}
		stepsToIn(in, withDumps)
		c.run("session", in)
		r.Count(strings.Join(steps, "\n"), len(steps) >= 25, fmt.Sprintf("len>=%d", len(steps)/20*20))
		r.Traces++
		if i < 1 {
			r.Sample(steps[:min(len(steps), 12)])
		}
	}
	// hostile short histories (the C05 generator): whenever one happens to be conformant, the model must
	// agree with the reference tracker and the simulation relation must hold at every prefix; this is how
	// the conformance predicate itself is kept honest (a clause that is too weak shows up here)
	sc := SessCfg{Nick: "me", User: "me", AllowFlood: true}
	conf := 0
	for i := 0; i < 4000*c.Scale; i++ {
		steps := []string{"R:srv 001 me :Welcome", "R:me!u@h JOIN #a", "R:srv 353 me = #a :me @bob +Carl"}
		for k := 1 + c.Rng.Intn(5); k > 0; k-- {
			steps = append(steps, "R"+c.Rng.hostileLine("me"))
		}
		resp := c.L.Call("refcmp", encCfg(sc, false, false), hxList(steps))
		if resp == "1" {
			conf++
		} else if !strings.HasPrefix(resp, "nonconformant") {
			in := map[string]string{"nick": "me", "check": "c04"}
			stepsToIn(in, append(steps, "D"))
			r.Mismatch("c04.hostile_refcmp", hexIn(in), resp, "")
		}
		r.Count("h:"+strings.Join(steps[3:], "\n"), resp == "1", "hostile:"+strings.SplitN(resp, " ", 2)[0])
	}
	r.Note("hostile histories: %d conformant ones agreed with the reference (relation checked at every prefix)", conf)
}
