import Girc.Spec.Sim
import Girc.Proofs.InvDelete
/-
  C04 proofs, part 4a: the generic "memberships only shrink" lemma.

  `sim_shrink`: if the implementation state `st'` is consistent (`Inv`), has the same scalars as `st`,
  its channels are those of `st` with the user lists cut down to the memberships that are kept, and
  its users are users of `st` with the same attributes (and the same privileges on every kept
  membership), then it is related to `gc { r with chans := C', members := r.members.filter keep }`.
  WHICH users survive need not be characterised: `Inv st'` (no user without a channel, both
  directions of the membership lists) pins that down to "mentioned by a kept membership", which is
  exactly what `gc` keeps.
-/
namespace Girc.Proofs.SimLeave
open Girc Girc.Model Girc.Spec Girc.Proofs.InvBase

/-! ### small library -/

theorem get?_filter_key {β : Type} (m : AMap β) (q : Bytes → Bool) (k : Bytes) :
    AMap.get? (List.filter (fun p => q p.1) m) k = if q k = true then AMap.get? m k else none := by
  induction m with
  | nil => simp [get?_nil]
  | cons p m ih =>
    obtain ⟨a, b⟩ := p
    by_cases hq : q a = true
    · rw [List.filter_cons_of_pos (by exact hq), get?_cons, get?_cons, ih]
      by_cases e : k = a
      · subst e; simp [hq]
      · simp [e]
    · rw [List.filter_cons_of_neg (by exact hq), get?_cons, ih]
      by_cases e : k = a
      · subst e; simp [hq]
      · simp [e]

theorem keys_filter_nodup {β : Type} {m : AMap β} (h : (AMap.keys m).Nodup) (q : Bytes × β → Bool) :
    (AMap.keys (List.filter q m)).Nodup :=
  h.sublist (List.Sublist.map _ List.filter_sublist)

theorem find?_filter_imp {α : Type} (p q : α → Bool) (l : List α) (h : ∀ a, p a = true → q a = true) :
    (l.filter q).find? p = l.find? p := by
  induction l with
  | nil => rfl
  | cons a l ih =>
    by_cases hq : q a = true
    · rw [List.filter_cons_of_pos hq, List.find?_cons, List.find?_cons, ih]
    · have hp : p a = false := by
        cases hpa : p a with
        | false => rfl
        | true => exact absurd (h a hpa) hq
      rw [List.filter_cons_of_neg hq, List.find?_cons, hp, ih]

theorem contains_of_get? {β : Type} {m : AMap β} {k : Bytes} {v : β} (h : AMap.get? m k = some v) :
    AMap.contains m k = true := by
  unfold AMap.contains; rw [h]; rfl

theorem get?_of_contains {β : Type} {m : AMap β} {k : Bytes} (h : AMap.contains m k = true) :
    ∃ v, AMap.get? m k = some v := (contains_iff_get? m k).mp h

/-! ### `gc` -/

theorem gc_users (R : Ref) :
    (Ref.gc R).users = List.filter (fun p => R.members.any (fun m => decide (m.2 = p.1))) R.users := rfl

theorem gc_perms (R : Ref) :
    (Ref.gc R).perms = List.filter (fun p => R.members.contains p.1) R.perms := rfl

theorem get?_gc_users (R : Ref) (n : Bytes) :
    AMap.get? (Ref.gc R).users n =
      if R.members.any (fun m => decide (m.2 = n)) = true then AMap.get? R.users n else none :=
  get?_filter_key R.users (fun n => R.members.any (fun m => decide (m.2 = n))) n

theorem any_of_mem {M : List (Bytes × Bytes)} {k n : Bytes} (h : (k, n) ∈ M) :
    M.any (fun m => decide (m.2 = n)) = true :=
  List.any_eq_true.mpr ⟨(k, n), h, by simp⟩

theorem getPerms_gc (R : Ref) {k n : Bytes} (h : (k, n) ∈ R.members) :
    (Ref.gc R).getPerms k n = R.getPerms k n := by
  unfold Ref.getPerms
  rw [gc_perms, find?_filter_imp]
  intro a ha
  have : a.1 = (k, n) := by simpa using ha
  rw [this]
  exact List.contains_iff_mem.mpr h

/-- Users of the reference state exist exactly when the implementation has them. -/
theorem _root_.Girc.Spec.Sim.user_of_contains {st : St} {r : Ref} (h : Sim st r) {n : Bytes}
    (hk : AMap.contains r.users n = true) : ∃ u, AMap.get? st.users n = some u := by
  obtain ⟨ru, hru⟩ := get?_of_contains hk
  have := h.users n
  rw [hru] at this
  cases hu : AMap.get? st.users n with
  | none => rw [hu] at this; cases this
  | some u => exact ⟨u, rfl⟩

theorem _root_.Girc.Spec.Sim.chan_of_contains {st : St} {r : Ref} (h : Sim st r) {k : Bytes}
    (hk : AMap.contains r.chans k = true) : ∃ ch, AMap.get? st.channels k = some ch := by
  obtain ⟨rc, hrc⟩ := get?_of_contains hk
  have := h.chans k
  rw [hrc] at this
  cases hc : AMap.get? st.channels k with
  | none => rw [hc] at this; cases this
  | some ch => exact ⟨ch, rfl⟩

/-! ### the generic lemma -/

theorem sim_shrink {st st' : St} {r : Ref} (h : Sim st r) (keep : Bytes × Bytes → Bool) (C' : AMap RChan)
    (hinv : Inv st')
    (hnick : st'.nick = st.nick) (hident : st'.ident = st.ident) (hhost : st'.host = st.host)
    (hmotd : st'.motd = st.motd) (hml : st'.maxLineLength = st.maxLineLength)
    (hmp : st'.maxPrefixLength = st.maxPrefixLength) (hopts : st'.serverOptions = st.serverOptions)
    (hC : ∀ k, (AMap.get? st'.channels k).map chanView = AMap.get? C' k)
    (hCnd : (AMap.keys C').Nodup)
    (hCsub : ∀ k, AMap.contains C' k = true → AMap.contains r.chans k = true)
    (hCk : ∀ k n, (k, n) ∈ r.members → keep (k, n) = true → AMap.contains C' k = true)
    (hch : ∀ k ch', AMap.get? st'.channels k = some ch' → ∃ ch, AMap.get? st.channels k = some ch ∧
        ch'.modes = ch.modes ∧ ∀ n, n ∈ ch'.users ↔ (n ∈ ch.users ∧ keep (k, n) = true))
    (hus : ∀ n u', AMap.get? st'.users n = some u' → ∃ u, AMap.get? st.users n = some u ∧
        userView u' = userView u ∧ ∀ k, keep (k, n) = true → AMap.get? u'.perms k = AMap.get? u.perms k) :
    Sim st' (Ref.gc { r with chans := C', members := r.members.filter keep }) := by
  have L' := hinv.toInvL
  -- membership of the new state
  have hmem : ∀ k ch', AMap.get? st'.channels k = some ch' →
      ∀ n, n ∈ ch'.users ↔ (k, n) ∈ r.members.filter keep := by
    intro k ch' hk n
    obtain ⟨ch, hch1, _, hiff⟩ := hch k ch' hk
    rw [hiff, List.mem_filter, h.members k ch hch1 n]
  -- a kept membership names a user the new state has
  have hsome : ∀ k n, (k, n) ∈ r.members.filter keep → ∃ u', AMap.get? st'.users n = some u' := by
    intro k n hkn
    obtain ⟨hm, hkeep⟩ := List.mem_filter.mp hkn
    obtain ⟨rc, hrc⟩ := get?_of_contains (hCk k n hm hkeep)
    have hCk' := hC k
    rw [hrc] at hCk'
    cases hc : AMap.get? st'.channels k with
    | none => rw [hc] at hCk'; cases hCk'
    | some ch' =>
      obtain ⟨u', hu', _⟩ := L'.chanToUser k ch' hc n ((hmem k ch' hc n).mpr hkn)
      exact ⟨u', hu'⟩
  -- a user of the new state is mentioned by a kept membership
  have hany : ∀ n u', AMap.get? st'.users n = some u' →
      (r.members.filter keep).any (fun m => decide (m.2 = n)) = true := by
    intro n u' hu'
    obtain ⟨k, hk⟩ := List.exists_mem_of_ne_nil _ (L'.userHasChan n u' hu')
    obtain ⟨ch', hc', hn⟩ := L'.userToChan n u' hu' k hk
    exact any_of_mem ((hmem k ch' hc' n).mp hn)
  have hgetU : ∀ n, AMap.get? (Ref.gc { r with chans := C', members := r.members.filter keep }).users n =
      if (r.members.filter keep).any (fun m => decide (m.2 = n)) = true then AMap.get? r.users n else none :=
    fun n => get?_gc_users _ n
  have hcontU : ∀ k n, (k, n) ∈ r.members.filter keep →
      AMap.contains (Ref.gc { r with chans := C', members := r.members.filter keep }).users n = true := by
    intro k n hkn
    obtain ⟨u', hu'⟩ := hsome k n hkn
    obtain ⟨u, hu, _, _⟩ := hus n u' hu'
    have hr := h.users n
    rw [hu] at hr
    unfold AMap.contains
    rw [hgetU, if_pos (any_of_mem hkn), ← hr]
    rfl
  exact {
    inv := hinv
    nick := hnick.trans h.nick
    ident := hident.trans h.ident
    host := hhost.trans h.host
    motd := hmotd.trans h.motd
    maxLine := hml.trans h.maxLine
    maxPrefix := hmp.trans h.maxPrefix
    opts := fun k => by rw [hopts]; exact h.opts k
    chans := hC
    chanModesWF := fun k ch' hk => by
      obtain ⟨ch, hch1, hm, _⟩ := hch k ch' hk
      rw [hm]; exact h.chanModesWF k ch hch1
    users := fun n => by
      rw [hgetU]
      cases hu' : AMap.get? st'.users n with
      | some u' =>
        obtain ⟨u, hu, hv, _⟩ := hus n u' hu'
        rw [if_pos (hany n u' hu'), ← h.users n, hu]
        simp only [Option.map_some]
        rw [hv]
      | none =>
        simp only [Option.map_none]
        by_cases ha : (r.members.filter keep).any (fun m => decide (m.2 = n)) = true
        · obtain ⟨⟨k, n'⟩, hm, hn'⟩ := List.any_eq_true.mp ha
          have : n' = n := by simpa using hn'
          subst this
          obtain ⟨u', hu''⟩ := hsome k n' hm
          rw [hu'] at hu''; cases hu''
        · rw [if_neg ha]
    members := hmem
    membersKnown := fun k n hkn => by
      obtain ⟨hm, hkeep⟩ := List.mem_filter.mp hkn
      exact ⟨hCk k n hm hkeep, hcontU k n hkn⟩
    membersNodup := h.membersNodup.sublist List.filter_sublist
    perms := fun k n u' hkn hu' => by
      obtain ⟨hm, hkeep⟩ := List.mem_filter.mp hkn
      obtain ⟨u, hu, _, hp⟩ := hus n u' hu'
      rw [hp k hkeep, h.perms k n u hm hu]
      exact (getPerms_gc { r with chans := C', members := r.members.filter keep } hkn).symm
    permsKnown := fun p hp => by
      rw [gc_perms] at hp
      obtain ⟨_, hc⟩ := List.mem_filter.mp hp
      have hm : (p.1.1, p.1.2) ∈ r.members.filter keep := List.contains_iff_mem.mp hc
      exact hcontU p.1.1 p.1.2 hm
    chanKeysNodup := hCnd
    userKeysNodup := keys_filter_nodup h.userKeysNodup _
    chanKeysNonempty := fun k hk => h.chanKeysNonempty k (hCsub k hk) }

end Girc.Proofs.SimLeave
