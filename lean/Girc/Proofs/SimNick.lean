import Girc.Spec.Sim
import Girc.Proofs.InvHandlers
/-
  C04 proofs, part 5: NICK (the same user under a new key, including case-only changes and the
  client's own nick). `st`/`r` are the states AFTER the account-tag step.
-/
namespace Girc.Proofs.SimNick
open Girc Girc.Model Girc.Spec

theorem sim_NICK {st : St} {r : Ref} (cfg : Cfg) (e : Event) (h : Sim st r)
    (hc : r.conformant cfg e = true) (hcmd : e.command = cNICK) :
    ∃ st', handleNICK st e = .ok st' ∧ Sim st' (r.cmdStep cfg e) := by sorry

end Girc.Proofs.SimNick
