import Girc.Drv.Ops
open Girc.Drv

partial def loop (hin hout : IO.FS.Stream) : IO Unit := do
  let line ← hin.getLine
  if line.isEmpty then return ()
  let line := (line.dropEndWhile (fun c => c = '\n' || c = '\r')).toString
  let out := match line.splitOn "\t" with
    | op :: args => match handle op args with
      | some r => r
      | none => "bad-op"
    | [] => "bad-op"
  hout.putStrLn out
  hout.flush
  loop hin hout

def main : IO Unit := do loop (← IO.getStdin) (← IO.getStdout)
