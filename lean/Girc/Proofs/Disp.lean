import Girc.Model.Dispatch
import Girc.Proofs.DispInv
/-
  C06 proofs: invariants of the dispatch model over ALL reachable states (all interleavings of the
  dispatcher, registrars, handler goroutines, temporary-handler wrappers and deadline goroutines).
-/
namespace Girc.Proofs.Disp
open Girc Girc.Model.Disp

/-- Handler ids are fresh and never reused; the table is part of the registry. -/
theorem ids_fresh {s : DState} (h : Reach s) :
    (∀ e ∈ s.registry, e.id < s.nextId) ∧ (s.registry.map (·.id)).Nodup ∧
    (∀ e ∈ s.table, e ∈ s.registry) ∧ (s.table.map (·.id)).Nodup := by
  have g := (good_of_reach h).ids
  exact ⟨g.reg_lt, g.reg_nodup, g.tab_sub, g.tab_nodup⟩

/-- A handler taken out of the table (Remove, Clear, ClearAll, a temporary handler's own removal, its
    deadline) never comes back. -/
theorem removed_gone {s : DState} (h : Reach s) : ∀ id ∈ s.removed, hasId s.table id = false := by
  exact fun id hid => ((good_of_reach h).ids.rem id hid).2

/-- Event sequence numbers are the positions in the received stream, and the dispatcher works through
    it in order: finished events, then the current one, then the queue. -/
theorem fifo {s : DState} (h : Reach s) :
    s.events.map (·.seq) = List.range s.nextSeq ∧
    s.ended ++ (match s.pc with | .at ev _ _ => [ev.seq] | .idle => []) ++ s.queue.map (·.seq) = s.events.map (·.seq) ∧
    (∀ ev k w, s.pc = .at ev k w → ev ∈ s.events) ∧ (∀ ev ∈ s.queue, ev ∈ s.events) := by
  have g := (good_of_reach h).ev
  refine ⟨g.seqs, ?_, ?_, g.q_mem⟩
  · have := g.fifo
    cases hpc : s.pc <;> simpa [hpc, pcEv] using this
  · intro ev k w hpc
    apply g.cur_mem
    simp [hpc, pcEv]

/-- Routing: whatever is invoked, is a registered handler for that event's command (and the event is
    not an echo) or a wildcard handler. -/
theorem routing {s : DState} (h : Reach s) :
    ∀ i ∈ s.spawned, ∃ e ∈ s.registry, ∃ ev ∈ s.events, e.id = i.id ∧ ev.seq = i.seq ∧ routeOK e ev = true := by
  intro i hi
  obtain ⟨e, hreg, ev, hev, ph, h1, h2, h3, h4, h5, _⟩ := (good_of_reach h).sp.sp_sel i hi
  exact ⟨e, hreg, ev, hev, h1, h2, (phases_cover' e ev).mpr ⟨_, ph, h3, h4, h5⟩⟩

/-- At most once: no handler is spawned twice for the same event. -/
theorem at_most_once {s : DState} (h : Reach s) : (s.spawned.map fun i => (i.id, i.seq)).Nodup := by
  exact (good_of_reach h).sp.sp_nodup

/-- Bodies start only if spawned, finish only if started, each at most once. -/
theorem started_finished {s : DState} (h : Reach s) :
    (∀ i ∈ s.started, i ∈ s.spawned) ∧ (∀ i ∈ s.finished, i ∈ s.started) ∧ s.started.Nodup ∧ s.finished.Nodup ∧
    (∀ i ∈ s.spawned, i ∈ s.pending ∨ i ∈ s.running ∨ i ∈ s.finished) := by
  have g := (good_of_reach h).book
  exact ⟨g.start_sp, g.fin_start, g.start_nodup, g.fin_nodup, g.cover⟩

/-- Every handler that should see an event is selected by exactly the phases of RunHandlers. -/
theorem phases_cover (e : Entry) (ev : Evt) (hc : ev.cmd ≠ star) :
    routeOK e ev = true ↔ ∃ (k : Nat) (ph : Phase), phases[k]? = some ph ∧ ph.sel ev e = true ∧ (ph.skipEcho && ev.echo) = false := by
  have _ := hc
  exact phases_cover' e ev

/-- A snapshot spawns every selected entry of the table as it is at that instant, and nothing else. -/
theorem snaps_spawned {s : DState} (h : Reach s) :
    ∀ seq k t, (seq, k, t) ∈ s.snaps → ∃ ev ∈ s.events, ev.seq = seq ∧ ∃ ph, phases[k]? = some ph ∧
      ∀ e ∈ t, ph.sel ev e = true → (ph.skipEcho && ev.echo) = false → ({ id := e.id, seq := seq, phase := k, bg := ph.bg } : Inv) ∈ s.spawned := by
  exact (good_of_reach h).sp.snap_sp

theorem spawned_from_snaps {s : DState} (h : Reach s) :
    ∀ i ∈ s.spawned, ∃ t, (i.seq, i.phase, t) ∈ s.snaps ∧ hasId t i.id = true := by
  exact (good_of_reach h).sp.sp_snap

/-- When RunHandlers has returned for an event, all four snapshots were taken and every foreground
    handler spawned for it has returned. -/
theorem ended_complete {s : DState} (h : Reach s) :
    ∀ seq ∈ s.ended, (∀ k, k < phases.length → ∃ t, (seq, k, t) ∈ s.snaps) ∧
      (∀ i ∈ s.spawned, i.seq = seq → i.bg = false → i ∈ s.finished) := by
  intro seq hseq
  exact ⟨(good_of_reach h).sp.ended_snaps seq hseq, (good_of_reach h).fg.ended_fin seq hseq⟩

/-- Exactly once: a handler that is in the table at every snapshot of an event's dispatch and should
    see the event has been spawned for it (once, by `at_most_once`) by the time RunHandlers returns, and has
    returned if it is a foreground handler. -/
theorem exactly_once {s : DState} (h : Reach s) (seq : Nat) (hs : seq ∈ s.ended) (ev : Evt) (hev : ev ∈ s.events)
    (hseq : ev.seq = seq) (e : Entry) (hin : ∀ k t, (seq, k, t) ∈ s.snaps → e ∈ t) (hr : routeOK e ev = true) :
    ∃ i ∈ s.spawned, i.id = e.id ∧ i.seq = seq ∧ (e.bg = false → i ∈ s.finished) := by
  have g := good_of_reach h
  obtain ⟨k, ph, hk, hsel, hskip⟩ := (phases_cover' e ev).mp hr
  have hk4 : k < 4 := by
    rcases phases_get hk with ⟨rfl, _⟩ | ⟨rfl, _⟩ | ⟨rfl, _⟩ | ⟨rfl, _⟩ <;> decide
  obtain ⟨t, ht⟩ := g.sp.ended_snaps seq hs k hk4
  obtain ⟨ev', hev', hseq', ph', hk', hall⟩ := g.sp.snap_sp seq k t ht
  have : ev' = ev := g.ev.seq_inj hev' hev (hseq'.trans hseq.symm)
  subst this
  rw [hk] at hk'; cases hk'
  have hi := hall e (hin k t ht) hsel hskip
  refine ⟨_, hi, rfl, rfl, ?_⟩
  intro hbg
  apply g.fg.ended_fin seq hs _ hi rfl
  have : (e.bg == ph.bg) = true := by
    simp only [Phase.sel, Bool.and_eq_true] at hsel; exact hsel.1
  rw [beq_iff_eq] at this
  show ph.bg = false
  rw [← this]; exact hbg

/-- Ordering: outstanding foreground invocations all belong to the event being dispatched and are
    waited for … -/
theorem fg_current {s : DState} (h : Reach s) :
    ∀ i, i ∈ s.pending ∨ i ∈ s.running → i.bg = false → ∃ ev k w, s.pc = .at ev k w ∧ i.seq = ev.seq ∧ i.id ∈ w := by
  intro i hi hbg
  obtain ⟨ev, k, w, h1, h2, h3, _⟩ := (good_of_reach h).fg.out_fg i hi hbg
  exact ⟨ev, k, w, h1, h2, h3⟩

/-- … so when the dispatcher takes the next event, every foreground handler of every earlier event
    has returned: handlers observe the server's order. -/
theorem take_after_fg {s s' : DState} (h : Reach s) (hs : step s .take = some s') :
    ∀ i ∈ s.spawned, i.bg = false → i ∈ s.finished := by
  have g := good_of_reach h
  obtain ⟨ev, rest, hpc, _, _⟩ := step_take hs
  intro i hi hbg
  have hno : ∀ j, j ∈ s.pending ∨ j ∈ s.running → j.bg = true :=
    fun j hj => g.fg.none_out (fun _ _ _ hh => by rw [hpc] at hh; cases hh) hj
  rcases g.book.cover i hi with h1 | h1 | h1
  · rw [hno i (.inl h1)] at hbg; cases hbg
  · rw [hno i (.inr h1)] at hbg; cases hbg
  · exact h1

/-- A snapshot only spawns handlers that are in the table at that instant: anything removed earlier
    (Remove returned, Clear, ClearAll, a temporary handler that returned true and was removed, a passed
    deadline) is never dispatched again. -/
theorem no_spawn_after_removed {s s' : DState} (h : Reach s) (hs : step s .snap = some s') :
    ∀ i ∈ s'.spawned, i ∉ s.spawned → hasId s.table i.id = true ∧ i.id ∉ s.removed := by
  have g := good_of_reach h
  obtain ⟨ev, k, ph, _, _, rfl⟩ := step_snap hs
  intro i hi hni
  rcases List.mem_append.mp hi with hi | hi
  · exact absurd hi hni
  · obtain ⟨e, he, rfl⟩ := List.mem_map.mp hi
    have hid : hasId s.table e.id = true := hasId_eq_true.mpr ⟨e, (mem_snapshot.mp he).1, rfl⟩
    refine ⟨hid, ?_⟩
    intro hrem
    have := (g.ids.rem _ hrem).2
    rw [hid] at this; cases this

/-- `done` channels: closed at most once (no double-close panic), only for temporary handlers, and only
    together with the handler's removal. -/
theorem done_once {s : DState} (h : Reach s) :
    s.doneClosed.Nodup ∧ ∀ id ∈ s.doneClosed, id ∈ s.removed ∧ ∃ e ∈ s.registry, e.id = id ∧ e.tmp = true := by
  have g := (good_of_reach h).ids
  exact ⟨g.done_nodup, g.done_sub⟩

/-- A temporary handler that returned true has its removal pending or done: after its wrapper ran it is
    out of the table. -/
theorem tmp_removed_step (s s' : DState) (id : Nat) (hs : step s (.tmpRemove id) = some s') :
    hasId s'.table id = false := by
  obtain ⟨_, ⟨_, rfl⟩ | ⟨_, rfl⟩⟩ := step_tmpRemove hs
  · assumption
  · exact hasId_eraseId _ _

theorem deadline_removed_step (s s' : DState) (id : Nat) (hs : step s (.deadline id) = some s')
    (ht : ∃ e ∈ s.table, e.id = id ∧ e.tmp = true) :
    hasId s'.table id = false := by
  obtain ⟨e, he, h1, h2⟩ := ht
  rcases step_deadline hs with ⟨hn, _⟩ | ⟨_, _, rfl⟩
  · exfalso
    apply hn
    simp only [Bool.and_eq_true, List.any_eq_true, beq_iff_eq]
    exact ⟨hasId_eq_true.mpr ⟨e, he, h1⟩, e, he, h1, h2⟩
  · exact hasId_eraseId _ _

/-- With a recover function installed a panicking handler never takes the client down … -/
theorem recover_no_crash {s : DState} (h : Reach s) (hr : s.recover = true) : s.crashed = false := by
  exact (good_of_reach h).recov hr

/-- … and the dispatcher can always make progress (handlers terminate): unless there is nothing to
    do, a dispatcher or handler-goroutine step is enabled. -/
theorem progress {s : DState} (h : Reach s) (hc : s.crashed = false) :
    (s.pc = .idle ∧ s.queue = []) ∨
    (∃ a, (a = .take ∨ a = .snap ∨ a = .endEvent ∨ (∃ i, a = .startInv i) ∨ (∃ i, a = .finishInv i .normal)) ∧
      (step s a).isSome = true) := by
  have g := good_of_reach h
  cases hpc : s.pc with
  | idle =>
    cases hq : s.queue with
    | nil => exact .inl ⟨rfl, rfl⟩
    | cons ev rest =>
      refine .inr ⟨.take, .inl rfl, ?_⟩
      simp [step, hpc, hq, hc]
  | «at» ev k w =>
    right
    cases w with
    | nil =>
      by_cases hk : k < 4
      · obtain ⟨ph, hph⟩ := phases_lt hk
        refine ⟨.snap, .inr (.inl rfl), ?_⟩
        simp [step, hpc, hc, hph]
      · refine ⟨.endEvent, .inr (.inr (.inl rfl)), ?_⟩
        have : ¬ k < phases.length := hk
        simp [step, hpc, hc, this]
    | cons id w =>
      obtain ⟨i, hi, _, _⟩ := g.fg.w_out ev k (id :: w) hpc id (List.mem_cons_self ..)
      rcases hi with hi | hi
      · refine ⟨.startInv i, .inr (.inr (.inr (.inl ⟨i, rfl⟩))), ?_⟩
        simp [step, hc, hi]
      · refine ⟨.finishInv i .normal, .inr (.inr (.inr (.inr ⟨i, rfl⟩))), ?_⟩
        simp [step, hc, hi]

/-- Registration is case-insensitive. -/
theorem add_case_insensitive (s : DState) (cmd : Bytes) (bg tmp : Bool) :
    step s (.add cmd bg tmp) = step s (.add (toUpperAscii cmd) bg tmp) := by
  simp only [step, toUpper_idem]

/-- The sequential reading used by the correspondence check: with registrar operations only between
    events, an event reaches exactly the handlers in the table that should see it, each once. -/
theorem dispatchIds_spec (t : List Entry) (ev : Evt) (hc : ev.cmd ≠ star) (id : Nat) :
    id ∈ dispatchIds t ev ↔ ∃ e ∈ t, e.id = id ∧ routeOK e ev = true := by
  have _ := hc
  exact dispatchIds_spec' t ev id

theorem dispatchIds_nodup (t : List Entry) (ev : Evt) (hc : ev.cmd ≠ star) (hn : (t.map (·.id)).Nodup) :
    (dispatchIds t ev).Nodup := by
  exact dispatchIds_nodup' t ev hc hn

end Girc.Proofs.Disp
