package main

import (
	"encoding/json"
	"fmt"
	"os"
)

// `corr -prop probe -replay file.json`-less helper: `corr -prop sess < session.json` prints the result.
func init() {
	props["sess"] = func(c *Ctx) {
		var s Session
		if err := json.NewDecoder(os.Stdin).Decode(&s); err != nil {
			fatal("decode: %v", err)
		}
		r := c.RunSession(&s)
		r.Debug = ""
		b, _ := json.MarshalIndent(r, "", " ")
		fmt.Fprintln(os.Stderr, string(b))
	}
}
