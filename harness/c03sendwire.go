package main

import (
	"bytes"
	"fmt"
	"net"
	"strings"
	"time"

	"github.com/lrstanley/girc"
)

// C03 on the wire: a burst of ARBITRARY events (CR, LF, NUL, invalid UTF-8 in every field and in tag keys/values) handed to
// Send while earlier ones are still queued; the byte stream the server receives is exactly the concatenation, in order, of
// one serialised line + CRLF per event (the serialisation being Event.Bytes of the event — without its tags when the server
// never acknowledged message-tags —, which the same check ties to the proved encoder).
func init() {
	runners["sendwire"] = func(c *Ctx, in map[string]string) {
		hin := hexIn(in)
		rng := NewRNG(uint64(atoiDef(in["seed"], 1)))
		acked := in["acked"] == "1"
		cl := girc.New(girc.Config{Server: "irc.example.org", Port: 6667, Nick: "me", User: "me", Name: "me", AllowFlood: true})
		cli, srv := net.Pipe()
		ret := make(chan error, 1)
		go func() { ret <- cl.MockConnect(cli) }()
		// the server side: everything the client writes, as one byte stream
		var got bytes.Buffer
		chunks := make(chan []byte, 1024)
		go func() {
			buf := make([]byte, 4096)
			for {
				n, err := srv.Read(buf)
				if n > 0 {
					chunks <- append([]byte(nil), buf[:n]...)
				}
				if err != nil {
					close(chunks)
					return
				}
			}
		}()
		waitFor := func(marker string, d time.Duration) bool {
			dl := time.After(d)
			for !bytes.Contains(got.Bytes(), []byte(marker)) {
				select {
				case b, ok := <-chunks:
					if !ok {
						return false
					}
					got.Write(b)
				case <-dl:
					return false
				}
			}
			return true
		}
		write := func(l string) {
			srv.SetWriteDeadline(time.Now().Add(2 * time.Second))
			srv.Write([]byte(l + "\r\n"))
		}
		defer func() {
			cl.Close()
			srv.Close()
			select {
			case <-ret:
			case <-time.After(5 * time.Second):
			}
		}()
		if !waitFor("USER ", 3*time.Second) {
			c.R.Mismatch("sendwire.setup", hin, "registration lines did not arrive", "")
			return
		}
		if acked {
			write(":srv CAP * LS :message-tags")
			if !waitFor("CAP REQ", 3*time.Second) {
				c.R.Mismatch("sendwire.setup", hin, "no CAP REQ", "")
				return
			}
			write(":srv CAP * ACK :message-tags")
		}
		write(":srv 001 me :Welcome")
		write("PING :sync")
		if !waitFor("PONG sync\r\n", 3*time.Second) {
			c.R.Mismatch("sendwire.setup", hin, "no PONG", "")
			return
		}
		got.Reset()
		n := atoiDef(in["n"], 8)
		var want bytes.Buffer
		var evs []*girc.Event
		for i := 0; i < n; i++ {
			e := rng.anyEvent()
			if e.Command == "PRIVMSG" || e.Command == "NOTICE" {
				e.Command = rng.Pick([]string{"TOPIC", "KICK", "FOO"}) // (Send cuts long PRIVMSG/NOTICE texts into several events: C11's subject)
			}
			if e.Command == "" {
				e.Command = "X"
			}
			exp := e.Copy()
			if !acked {
				exp.Tags = nil
			}
			want.Write(exp.Bytes())
			want.WriteString("\r\n")
			evs = append(evs, e)
		}
		want.WriteString("PING end-of-burst\r\n")
		go func() {
			for _, e := range evs {
				cl.Send(e)
			}
			cl.Send(&girc.Event{Command: "PING", Params: []string{"end-of-burst"}})
		}()
		if in["slow"] == "1" {
			time.Sleep(30 * time.Millisecond) // the peer is slow to start reading: the events pile up in the queue
		}
		waitFor("end-of-burst\r\n", 4*time.Second)
		if !bytes.Equal(got.Bytes(), want.Bytes()) {
			var shown []string
			for _, e := range evs {
				shown = append(shown, showEventReadable(e))
			}
			c.R.Violation("c03.send_wire", hin, q(got.String()), q(want.String()),
				"a burst of events handed to Send did not reach the server as one serialised CRLF-terminated line per event, in order: "+strings.Join(shown, " ; "))
		}
		c.R.Count(fmt.Sprint(in), true, "send-wire", fmt.Sprintf("acked=%v", acked))
	}
}

func runC03SendWire(c *Ctx) {
	for i := 0; i < 12*c.Scale; i++ {
		c.run("sendwire", map[string]string{"seed": fmt.Sprint(c.Rng.Intn(1 << 30)), "n": fmt.Sprint(4 + c.Rng.Intn(10)), "acked": fmt.Sprint(i % 2), "slow": fmt.Sprint((i / 2) % 2)})
		c.R.Traces++
	}
}

func atoiDef(s string, d int) int {
	var v int
	if _, err := fmt.Sscan(s, &v); err != nil {
		return d
	}
	return v
}

// The lines the client writes ON ITS OWN at the start of a connection carry configuration strings (server password, WEBIRC
// fields, nick, user, real name): whatever those contain, each is one CRLF-terminated line whose command is the expected one.
func init() {
	runners["preamblewire"] = func(c *Ctx, in map[string]string) {
		hin := hexIn(in)
		cfg := girc.Config{Server: "irc.example.org", Port: 6667, Nick: "me", User: "me", Name: in["name"], ServerPass: in["pass"], AllowFlood: true}
		if in["webirc"] != "" {
			cfg.WebIRC = girc.WebIRC{Password: in["webirc"], Gateway: "gw", Hostname: in["webhost"], Address: "1.2.3.4"}
		}
		cl := girc.New(cfg)
		cli, srv := net.Pipe()
		ret := make(chan error, 1)
		go func() { ret <- cl.MockConnect(cli) }()
		var got bytes.Buffer
		buf := make([]byte, 4096)
		deadline := time.Now().Add(3 * time.Second)
		for !bytes.Contains(got.Bytes(), []byte("USER ")) || !bytes.HasSuffix(got.Bytes(), []byte("\n")) {
			srv.SetReadDeadline(deadline)
			n, err := srv.Read(buf)
			got.Write(buf[:n])
			if err != nil {
				break
			}
		}
		cl.Close()
		srv.Close()
		select {
		case <-ret:
		case <-time.After(5 * time.Second):
		}
		allowed := map[string]bool{"PASS": true, "WEBIRC": true, "CAP": true, "NICK": true, "USER": true}
		for _, l := range strings.SplitAfter(got.String(), "\n") {
			if l == "" {
				continue
			}
			body := strings.TrimSuffix(l, "\r\n")
			cmd := strings.SplitN(body, " ", 2)[0]
			if !strings.HasSuffix(l, "\r\n") || strings.ContainsAny(body, "\r\n") || !allowed[cmd] {
				c.R.Violation("c03.preamble_line", hin, q(got.String()), "PASS/WEBIRC/CAP/NICK/USER lines only, one per event",
					"a registration line built from a configuration string is not exactly one CRLF-terminated line of the expected command: "+q(l))
				break
			}
		}
		c.R.Count("preamblewire/"+fmt.Sprint(in), true, "preamble-wire")
	}
}

func runC03Preamble(c *Ctx) {
	nasty := []string{"hunter2\r\nOPER root toor", "pw\nJOIN #x", "a\rb", "plain", "trailing\r\n", "évil\r\nQUIT"}
	for i, p := range nasty {
		c.run("preamblewire", map[string]string{"pass": p, "name": "Real Name"})
		c.run("preamblewire", map[string]string{"webirc": p, "webhost": nasty[(i+1)%len(nasty)], "name": "Real\r\nNICK other"})
		c.R.Traces += 2
	}
}
