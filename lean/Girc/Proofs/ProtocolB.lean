import Girc.Model.Run
import Girc.Model.Sts
import Girc.Model.Log
import Girc.Spec.EventSpec
import Girc.Proofs.Roundtrip
/-
  Proof obligations over the handler model for C08 (capabilities), C09 (SASL protocol), C10 (STS),
  C14 (reply discipline) and C17 (PING / nick collisions).
-/
namespace Girc.Proofs.ProtocolB
open Girc Girc.Model Girc.Spec

/-! ## C08 capability negotiation -/

def capNames (cfg : Cfg) : List Bytes := AMap.keys (possibleCaps cfg)

/-- What the client could ever request: the built-ins, the configured extras, sasl iff SASL is
    configured, sts iff STS is enabled on a plaintext configuration (and did not just fail). -/
theorem possible_exact (cfg : Cfg) (k : Bytes) :
    AMap.contains (possibleCaps cfg) k = true ↔
      (k ∈ builtinCaps ∨ k ∈ AMap.keys cfg.supportedCaps ∨ (k = sSasl ∧ cfg.sasl.isSome) ∨
       (k = sSts ∧ cfg.disableSTS = false ∧ cfg.ssl = false ∧ ¬(cfg.stsRecentlyFailed = true ∧ cfg.disableSTSFallback = false))) := by
  sorry

/-- The capabilities an LS/NEW line (≥ 3 parameters) advertises. -/
def advertisedBy (e : Event) : List Bytes :=
  if e.params.length ≥ 3 && (e.params[1]? = some cLS || e.params[1]? = some cNEW) then AMap.keys (parseCap e.last) else []

/-- Pending requests are always advertised (on this connection) and supported. -/
def CapInv (cfg : Cfg) (adv : List Bytes) (st : St) : Prop :=
  ∀ k ∈ AMap.keys st.tmpCap, k ∈ adv ∧ AMap.contains (possibleCaps cfg) k = true

theorem capinv_step (cfg : Cfg) (adv : List Bytes) (st : St) (e : Event) (h : CapInv cfg adv st) :
    CapInv cfg (adv ++ advertisedBy e) (handleCAP cfg st e).1 := by
  sorry

/-- Every CAP REQ the client writes lists exactly the pending capabilities (after this event). -/
theorem req_is_pending (cfg : Cfg) (st : St) (e : Event) (x : Bytes) :
    Out.write { command := cCAP, params := [cREQ, x] } ∈ (handleCAP cfg st e).2 →
      x = joinWith [SP] (sortBytes (AMap.keys (handleCAP cfg st e).1.tmpCap)) ∧ (handleCAP cfg st e).1.tmpCap ≠ [] := by
  sorry

/-- A continuation line (`CAP * LS * :caps`, 4 parameters) produces no output. -/
theorem ls_continuation_silent (cfg : Cfg) (st : St) (e : Event) (a b c d : Bytes)
    (hp : e.params = [a, b, c, d]) (hls : b = cLS ∨ b = cNEW) : (handleCAP cfg st e).2 = [] := by
  sorry

/-- The final LS line concludes the round with exactly one REQ or exactly one END. -/
theorem ls_final_concludes (cfg : Cfg) (st : St) (e : Event) (a b c : Bytes)
    (hp : e.params = [a, b, c]) (hls : b = cLS ∨ b = cNEW) :
    (handleCAP cfg st e).2 = [Out.write capEnd] ∨
    ∃ x, (handleCAP cfg st e).2 = [Out.write { command := cCAP, params := [cREQ, x] }] := by
  sorry

theorem nak_concludes (cfg : Cfg) (st : St) (e : Event) (a b : Bytes) (rest : List Bytes)
    (hp : e.params = a :: b :: rest) (hn : b = cNAK) : (handleCAP cfg st e).2 = [Out.write capEnd] := by
  sorry

/-- An ACK yields exactly one of: CAP END, the start of authentication, an STS abort, an STS upgrade. -/
theorem ack_concludes (cfg : Cfg) (st : St) (e : Event) (a b c : Bytes)
    (hp : e.params = [a, b, c]) (hack : b = cACK) :
    (handleCAP cfg st e).2 = [Out.write capEnd] ∨
    (∃ m, cfg.sasl = some m ∧ (handleCAP cfg st e).2 = [Out.write { command := cAUTHENTICATE, params := [m.method] }]) ∨
    (handleCAP cfg st e).2 = [Out.inject { command := cERROR, params := [sStsInvalid] }] ∨
    (handleCAP cfg st e).2 = [Out.close] := by
  sorry

/-- `HasCapability` -/
def hasCapability (connected : Bool) (st : St) (name : Bytes) : Bool :=
  connected && (AMap.keys st.enabledCap).any (fun k => toLowerAscii k = toLowerAscii name)

/-- The enabled set changes only by ACK (adds) and DEL (removes). -/
theorem enabled_transitions (cfg : Cfg) (st : St) (e : Event) :
    (handleCAP cfg st e).1.enabledCap =
      (if e.params.length ≥ 2 && e.params[1]? = some cDEL then
         (parseCap e.last).foldl (fun en p => AMap.erase en p.1) st.enabledCap
       else if e.params.length = 3 && e.params[1]? = some cACK then
         capAck st.tmpCap st.enabledCap (splitOnByte SP e.last)
       else st.enabledCap) := by
  sorry

/-- Tags reach the wire only while message-tags is enabled: without it the wire form of an event
    is byte for byte that of the same event without tags. -/
theorem tags_only_with_message_tags (st : St) (e : Event) (h : AMap.contains st.enabledCap sMessageTags = false) :
    wireEvent st e = eventBytes { e with tags := none } := by
  sorry

/-- … and with it enabled the event is written as it is. -/
theorem tags_kept_with_message_tags (st : St) (e : Event) (h : AMap.contains st.enabledCap sMessageTags = true) :
    wireEvent st e = eventBytes e := by
  sorry

/-- With tracking disabled no CAP line is ever written. -/
theorem tracking_disabled_no_cap (cfg : Cfg) (cs : CState) (e : Event) (time idle : Bytes) (cs' : CState) (outs : List Out)
    (hd : cfg.disableTracking = true) (h : handleEvent cfg cs e time idle = .ok (cs', outs)) :
    ∀ o ∈ outs, ∀ ev, (o = Out.write ev ∨ o = Out.send ev) → ev.command ≠ cCAP ∧ ev.command ≠ cAUTHENTICATE := by
  sorry

/-! ## C10 strict transport security -/

def usablePort (v : CapVal) : Option Int :=
  match capValGet v sPort with
  | some p => match atoi p with
    | some n => if n < 21 || n > 65535 then none else some n
    | none => none
  | none => none

/-- Plaintext + usable port: upgrade, nothing further is written, and the next dial is TLS on that port. -/
theorem upgrade_decision (cfg : Cfg) (sts : Sts) (v : CapVal) (p : Int)
    (htls : cfg.tlsActive = false) (hp : usablePort v = some p) :
    stsOnAck cfg sts v = ({ sts with upgradePort := p, beginUpgrade := true }, .upgrade) ∧
    ∀ cp ssl, planDial cp ssl (stsOnAck cfg sts v).1 = (p, true) := by
  sorry

theorem upgrade_silent (cfg : Cfg) (st : St) (e : Event) (a b c : Bytes) (v : CapVal) (p : Int)
    (hp : e.params = [a, b, c]) (hack : b = cACK) (hd : cfg.disableSTS = false) (htls : cfg.tlsActive = false)
    (hv : AMap.get? (capAck st.tmpCap st.enabledCap (splitOnByte SP c)) sSts = some v) (hport : usablePort v = some p) :
    (handleCAP cfg st e).2 = [Out.close] ∧ (handleCAP cfg st e).1.sts.upgradePort = p ∧
      (handleCAP cfg st e).1.sts.beginUpgrade = true := by
  sorry

/-- Plaintext without a usable port: abort, and the stored policy is untouched (not retained). -/
theorem invalid_policy_not_retained (cfg : Cfg) (sts : Sts) (v : CapVal)
    (htls : cfg.tlsActive = false) (hp : usablePort v = none) :
    stsOnAck cfg sts v = (sts, .abort) := by
  sorry

/-- On TLS the port key is ignored and a duration is required; without it: abort and the
    persistence policy is not recorded. -/
theorem tls_needs_duration (cfg : Cfg) (sts : Sts) (v : CapVal)
    (htls : cfg.tlsActive = true) (hd : capValGet v sDuration = none) :
    (stsOnAck cfg sts v).2 = .abort ∧ (stsOnAck cfg sts v).1.persistenceDuration = sts.persistenceDuration ∧
    (stsOnAck cfg sts v).1.upgradePort = sts.upgradePort := by
  sorry

theorem tls_ignores_port (cfg : Cfg) (sts : Sts) (v : CapVal) (htls : cfg.tlsActive = true) :
    (stsOnAck cfg sts v).1.upgradePort = sts.upgradePort ∧ (stsOnAck cfg sts v).2 ≠ .upgrade := by
  sorry

/-- Once a policy is stored every later dial uses TLS on its port; only an EXPIRED policy with
    fallback allowed is ever dropped, and only by a failed dial. -/
theorem policy_sticks (cp : Int) (ssl : Bool) (s : Sts) (h : s.enabled = true) :
    planDial cp ssl s = (s.upgradePort, true) ∧
    (∀ disableFallback, (onDialFail disableFallback false s) = (s, .stsUpgradeFailed)) ∧
    (∀ expired, (onDialFail true expired s) = (s, .stsUpgradeFailed)) ∧
    (afterCleanEnd s).1.upgradePort = s.upgradePort := by
  sorry

/-- With DisableSTS the policy is never acted on; with DisableSTS or configured SSL it is never requested. -/
theorem sts_disabled (cfg : Cfg) (st : St) (e : Event) (h : cfg.disableSTS = true) :
    (handleCAP cfg st e).1.sts = st.sts ∧ AMap.contains (possibleCaps cfg) sSts = (AMap.contains cfg.supportedCaps sSts) := by
  sorry

theorem sts_not_requested_on_ssl (cfg : Cfg) (h : cfg.ssl = true) :
    AMap.contains (possibleCaps cfg) sSts = AMap.contains cfg.supportedCaps sSts := by
  sorry

end Girc.Proofs.ProtocolB
