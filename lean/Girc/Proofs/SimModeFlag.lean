import Girc.Spec.Sim
/-
  C04 proofs, part 6a: one mode flag. `CModes.parseAux` + `applyOne` (implementation) against
  `Ref.modeFlag` (reference), through the view `fun m => (m.name, m.args)`.
-/
namespace Girc.Proofs.SimMode
open Girc Girc.Model Girc.Spec

/-- One step of `CModes.parseAux` on an ordinary flag: the parsed change and the remaining arguments. -/
def pstep (c : CModes) (add : Bool) (f : Byte) (args : List Bytes) : CMode × List Bytes :=
  match (c.hasArg add f).1, args with
  | true, a :: args' => (⟨add, f, (c.hasArg add f).2, a⟩, args')
  | _, _ => (⟨add, f, (c.hasArg add f).2, []⟩, args)

theorem parseAux_nil (c : CModes) (add : Bool) (args : List Bytes) : c.parseAux [] add args = [] := by
  rw [CModes.parseAux]

theorem parseAux_plus (c : CModes) (rest : Bytes) (add : Bool) (args : List Bytes) :
    c.parseAux (0x2B :: rest) add args = c.parseAux rest true args := by
  rw [CModes.parseAux, if_pos rfl]

theorem parseAux_minus (c : CModes) (rest : Bytes) (add : Bool) (args : List Bytes) :
    c.parseAux (0x2D :: rest) add args = c.parseAux rest false args := by
  rw [CModes.parseAux, if_neg (by decide), if_pos rfl]

theorem parseAux_flag (c : CModes) (f : Byte) (rest : Bytes) (add : Bool) (args : List Bytes)
    (h1 : f ≠ 0x2B) (h2 : f ≠ 0x2D) :
    c.parseAux (f :: rest) add args = (pstep c add f args).1 :: c.parseAux rest add (pstep c add f args).2 := by
  rw [CModes.parseAux, if_neg h1, if_neg h2]
  unfold pstep
  rcases hh : c.hasArg add f with ⟨ha, hs⟩
  cases ha <;> cases args <;> rfl

/-- `hasArg` only looks at the class strings. -/
theorem hasArg_modes (c : CModes) (ms : List CMode) (add : Bool) (f : Byte) :
    CModes.hasArg { c with modes := ms } add f = c.hasArg add f := rfl

theorem parseAux_modes (c : CModes) (ms : List CMode) :
    ∀ (flags : Bytes) (add : Bool) (args : List Bytes),
      CModes.parseAux { c with modes := ms } flags add args = c.parseAux flags add args := by
  intro flags
  induction flags with
  | nil => intro add args; rw [parseAux_nil, parseAux_nil]
  | cons f rest ih =>
    intro add args
    by_cases h1 : f = 0x2B
    · subst h1; rw [parseAux_plus, parseAux_plus, ih]
    · by_cases h2 : f = 0x2D
      · subst h2; rw [parseAux_minus, parseAux_minus, ih]
      · rw [parseAux_flag _ _ _ _ _ h1 h2, parseAux_flag _ _ _ _ _ h1 h2, ih]
        rfl

/-! ### the reference's per-flag function in named pieces -/

def rset (f : Byte) (ms : List (Byte × Bytes)) (a : Bytes) : List (Byte × Bytes) :=
  if ms.any (·.1 = f) then ms.map (fun m => if m.1 = f then (f, a) else m) else ms ++ [(f, a)]

def runset (f : Byte) (ms : List (Byte × Bytes)) : List (Byte × Bytes) := ms.filter (·.1 != f)

def takeArg (args : List Bytes) : Bytes × List Bytes := match args with | a :: rest => (a, rest) | [] => ([], [])

theorem modeFlag_def (ch : RChan) (add : Bool) (f : Byte) (args : List Bytes) :
    Ref.modeFlag ch add f args =
      if ch.chanmodes.isEmpty then ((if add then rset f ch.modes [] else runset f ch.modes), args, none)
      else if (splitN4 ch.chanmodes).1.contains f then (ch.modes, (takeArg args).2, none)
      else if (splitN4 ch.chanmodes).2.1.contains f then
        ((if add then rset f ch.modes (takeArg args).1 else runset f ch.modes), (takeArg args).2, none)
      else if (splitN4 ch.chanmodes).2.2.1.contains f then
        (if add then (rset f ch.modes (takeArg args).1, (takeArg args).2, none) else (runset f ch.modes, args, none))
      else if ch.prefixModes.contains f then (ch.modes, (takeArg args).2, some (f, (takeArg args).1, add))
      else ((if add then rset f ch.modes [] else runset f ch.modes), args, none) := rfl

abbrev mview : CMode → Byte × Bytes := fun m => (m.name, m.args)

theorem view_set (ms : List CMode) (f : Byte) (a : Bytes) :
    (applyOne ms ⟨true, f, true, a⟩).map mview = rset f (ms.map mview) a := by
  unfold applyOne rset
  simp only [Bool.not_true, Bool.false_eq_true, if_false, if_true, List.any_map]
  have hany : (ms.any fun x => decide (x.name = f)) = ms.any ((fun x : Byte × Bytes => decide (x.1 = f)) ∘ mview) := rfl
  rw [← hany]
  split
  · rw [List.map_map, List.map_map]
    apply List.map_congr_left
    intro x _
    simp only [Function.comp]
    split <;> rfl
  · rw [List.map_append]; rfl

theorem view_unset (ms : List CMode) (f : Byte) (a : Bytes) :
    (applyOne ms ⟨false, f, true, a⟩).map mview = runset f (ms.map mview) := by
  unfold applyOne runset
  simp only [Bool.not_true, Bool.false_eq_true, if_false]
  rw [List.filter_map]
  rfl

theorem applyOne_skip (ms : List CMode) (add : Bool) (f : Byte) (a : Bytes) :
    applyOne ms ⟨add, f, false, a⟩ = ms := by
  unfold applyOne; rfl

/-- `applyOne` keeps the mode list well-formed when the change is a parsed one. -/
theorem applyOne_wf (ms : List CMode) (m : CMode) (h : ∀ x ∈ ms, x.add = true ∧ x.setting = true) :
    ∀ x ∈ applyOne ms m, x.add = true ∧ x.setting = true := by
  unfold applyOne
  split
  · exact h
  · next hs =>
    have hs' : m.setting = true := by simpa using hs
    split
    · next ha =>
      split
      · intro x hx
        obtain ⟨y, hy, rfl⟩ := List.mem_map.mp hx
        split
        · exact ⟨ha, hs'⟩
        · exact h y hy
      · intro x hx
        rcases List.mem_append.mp hx with hx | hx
        · exact h x hx
        · rw [List.mem_singleton] at hx; subst hx; exact ⟨ha, hs'⟩
    · intro x hx
      exact h x (List.mem_filter.mp hx).1

/-- The per-flag correspondence. -/
theorem modeFlag_eq (ch : Channel) (hwf : modesWF ch.modes) (add : Bool) (f : Byte) (args : List Bytes) :
    Ref.modeFlag (chanView ch) add f args =
      ((applyOne ch.modes.modes (pstep ch.modes add f args).1).map mview, (pstep ch.modes add f args).2,
        if (pstep ch.modes add f args).1.setting || ch.modes.listArgs.contains f then none
        else some (f, (pstep ch.modes add f args).1.args, add)) := by
  obtain ⟨_, hcls⟩ := hwf
  rw [modeFlag_def]
  have hcm : (chanView ch).chanmodes = ch.modes.raw := rfl
  have hpm : (chanView ch).prefixModes = ch.modes.prefixes := rfl
  have hms : (chanView ch).modes = ch.modes.modes.map mview := rfl
  rw [hcm, hpm, hms, ← hcls]
  dsimp only
  generalize ch.modes.modes = ms
  unfold pstep CModes.hasArg
  by_cases hraw : ch.modes.raw.isEmpty = true
  · have hl : ch.modes.raw.length < 1 := by
      cases hr : ch.modes.raw with
      | nil => simp
      | cons a b => rw [hr] at hraw; simp at hraw
    rw [if_pos hraw]
    simp only [if_pos hl]
    cases add
    · simp [view_unset]
    · simp [view_set]
  · have hl : ¬ ch.modes.raw.length < 1 := by
      cases hr : ch.modes.raw with
      | nil => rw [hr] at hraw; simp at hraw
      | cons a b => simp
    rw [if_neg hraw]
    simp only [if_neg hl]
    by_cases hA : ch.modes.listArgs.contains f = true
    · simp only [if_pos hA]
      have hAm : f ∈ ch.modes.listArgs := by simpa using hA
      cases args <;> simp [takeArg, applyOne_skip, hAm]
    · simp only [if_neg hA]
      by_cases hB : ch.modes.argsM.contains f = true
      · simp only [if_pos hB]
        cases add <;> cases args <;> simp [takeArg, view_set, view_unset]
      · simp only [if_neg hB]
        by_cases hC : ch.modes.setArgs.contains f = true
        · simp only [if_pos hC]
          cases add <;> cases args <;> simp [takeArg, view_set, view_unset]
        · simp only [if_neg hC]
          by_cases hP : ch.modes.prefixes.contains f = true
          · simp only [if_pos hP]
            have hAm : f ∉ ch.modes.listArgs := by simpa using hA
            cases args <;> simp [takeArg, applyOne_skip, hAm]
          · simp only [if_neg hP]
            cases add <;> simp [view_set, view_unset]

end Girc.Proofs.SimMode
