import Girc.Proofs.SplitSep
import Girc.Proofs.SplitJoin
/-
  The newline pass of the splitter: its non-empty words are exactly the CR/LF-separated pieces of the
  words, and they stay separator-free and valid.
-/
set_option linter.unusedSimpArgs false
namespace Girc.Proofs.SplitNL
open Girc Girc.Model Girc.Spec Girc.Proofs.Utf8 Girc.Proofs.RoundtripUtf8 Girc.Proofs.SplitUtf8
open Girc.Proofs.SplitSep Girc.Proofs.SplitJoin

def cr2lf (b : Byte) : Byte := if b = 0x0D then 0x0A else b

/-- The CR/LF-separated non-empty pieces of a word (as in `wordsOf`). -/
def nlSplit (w : Bytes) : List Bytes :=
  (splitOnByte 0x0A (w.map fun b => if b = 0x0D then 0x0A else b)).filter (fun x => !x.isEmpty)

theorem wordsOf_eq (t : Bytes) :
    wordsOf t = (splitWords (trimSpace (toValidUTF8 [0x3F] t))).flatMap nlSplit := rfl

theorem isNL_iff (b : Byte) : isNL b = true ↔ b = 0x0A ∨ b = 0x0D := by simp [isNL]

theorem nlSplit_noNL (w : Bytes) (h : w.any isNL = false) : nlSplit w = if w.isEmpty then [] else [w] := by
  have hall : ∀ x ∈ w, ¬ isNL x = true := List.any_eq_false.mp h
  have hmap : (w.map fun b => if b = 0x0D then (0x0A : Byte) else b) = w := by
    conv => rhs; rw [← List.map_id w]
    apply List.map_congr_left
    intro a ha
    have := hall a ha
    rw [isNL_iff] at this
    simp only [not_or] at this
    simp [this.2]
  have hnot : (0x0A : Byte) ∉ w := by
    intro hm
    exact hall _ hm (by decide)
  unfold nlSplit
  rw [hmap, splitOnByte_of_not_mem _ _ hnot]
  cases w <;> simp

theorem nlSplit_cons_NL (b : Byte) (w : Bytes) (hb : isNL b = true) : nlSplit (b :: w) = nlSplit w := by
  unfold nlSplit
  have : (if b = 0x0D then (0x0A : Byte) else b) = 0x0A := by
    rcases (isNL_iff b).mp hb with rfl | rfl <;> decide
  simp only [List.map_cons, this, splitOnByte_cons_eq]
  simp

theorem nlSplit_dropWhile : ∀ w : Bytes, nlSplit (w.dropWhile isNL) = nlSplit w
  | [] => rfl
  | b :: w => by
    rw [List.dropWhile_cons]
    split
    · rename_i hb
      rw [nlSplit_dropWhile w, nlSplit_cons_NL b w hb]
    · rfl

theorem nlSplit_append_NL (hd : Bytes) (b : Byte) (w2 : Bytes) (hh : hd.any isNL = false)
    (hb : isNL b = true) :
    nlSplit (hd ++ b :: w2) = (if hd.isEmpty then [] else [hd]) ++ nlSplit w2 := by
  have h1 := nlSplit_noNL hd hh
  unfold nlSplit at h1 ⊢
  have : (if b = 0x0D then (0x0A : Byte) else b) = 0x0A := by
    rcases (isNL_iff b).mp hb with rfl | rfl <;> decide
  simp only [List.map_append, List.map_cons, this, splitOnByte_append_sep, List.filter_append, h1]

theorem span_NL : ∀ (w : Bytes), w.any isNL = true → ∃ b w2, isNL b = true ∧
    w.dropWhile (fun b => !isNL b) = b :: w2 ∧ (w.takeWhile (fun b => !isNL b)).any isNL = false ∧
    w = w.takeWhile (fun b => !isNL b) ++ b :: w2
  | [], h => by simp at h
  | x :: w, h => by
    by_cases hx : isNL x = true
    · refine ⟨x, w, hx, ?_, ?_, ?_⟩ <;> simp [List.dropWhile_cons, List.takeWhile_cons, hx]
    · have hw : w.any isNL = true := by simpa [hx] using h
      obtain ⟨b, w2, hb, hd, ht, hw'⟩ := span_NL w hw
      refine ⟨b, w2, hb, ?_, ?_, ?_⟩
      · simp [List.dropWhile_cons, hx, hd]
      · simp only [List.takeWhile_cons, hx]
        simpa [hx] using ht
      · simp only [List.takeWhile_cons, hx]
        simp only [Bool.not_eq_true] at hx
        simp only [hx, Bool.not_false, if_true, List.cons_append]
        rw [← hw']

def wsum (ws : List Bytes) : Nat := (ws.map (fun wd => wd.length + 1)).sum

theorem wsum_cons (w : Bytes) (ws : List Bytes) : wsum (w :: ws) = w.length + 1 + wsum ws := by
  simp [wsum]

theorem expandNewlines_filter : ∀ (fuel : Nat) (ws : List Bytes), wsum ws ≤ fuel →
    (expandNewlines fuel ws).filter (fun x => !x.isEmpty) = ws.flatMap nlSplit
  | 0, ws, h => by
    cases ws with
    | nil => rfl
    | cons w ws => rw [wsum_cons] at h; omega
  | _ + 1, [], _ => rfl
  | fuel + 1, w :: rest, h => by
    rw [wsum_cons] at h
    simp only [expandNewlines]
    split
    · rename_i hnl
      obtain ⟨b, w2, hb, hd, ht, hw⟩ := span_NL w hnl
      have hlen : w.length = (w.takeWhile (fun b => !isNL b)).length + 1 + w2.length := by
        conv => lhs; rw [hw]
        simp; omega
      have hdl : ((b :: w2).dropWhile isNL).length ≤ w2.length := by
        rw [List.dropWhile_cons_of_pos hb]
        exact (List.dropWhile_sublist _).length_le
      rw [hd]
      have ih := expandNewlines_filter fuel (((b :: w2).dropWhile isNL) :: rest)
        (by rw [wsum_cons]; omega)
      rw [List.filter_cons, List.filter_cons, ih, List.flatMap_cons, List.flatMap_cons,
        nlSplit_dropWhile, nlSplit_cons_NL b w2 hb]
      conv => rhs; rw [hw, nlSplit_append_NL _ b w2 ht hb]
      cases (w.takeWhile (fun b => !isNL b)) <;> simp
    · rename_i hnl
      simp only [Bool.not_eq_true] at hnl
      have ih := expandNewlines_filter fuel rest (by omega)
      rw [List.filter_cons, ih, List.flatMap_cons, nlSplit_noNL w hnl]
      cases w <;> simp

theorem valid_NL_run (a : Bytes) (h : a.all isNL = true) : Valid a := by
  apply valid_ascii
  rw [List.all_eq_true] at h ⊢
  intro x hx
  rcases (isNL_iff x).mp (h x hx) with rfl | rfl <;> decide

theorem expandNewlines_good : ∀ (fuel : Nat) (ws : List Bytes),
    (∀ w ∈ ws, sepFree w = true ∧ Valid w) →
    ∀ wd ∈ expandNewlines fuel ws, sepFree wd = true ∧ Valid wd
  | 0, ws, h => by simpa [expandNewlines] using h
  | _ + 1, [], _ => by simp [expandNewlines]
  | fuel + 1, w :: rest, h => by
    have hw := h w (by simp)
    have hrest : ∀ w ∈ rest, sepFree w = true ∧ Valid w := fun x hx => h x (by simp [hx])
    simp only [expandNewlines]
    split
    · rename_i hnl
      obtain ⟨b, w2, hb, hd, ht, hwe⟩ := span_NL w hnl
      have hblt : b < 0x80 := by rcases (isNL_iff b).mp hb with rfl | rfl <;> decide
      have hsf : sepFree (w.takeWhile (fun b => !isNL b) ++ b :: w2) = true := by rw [← hwe]; exact hw.1
      have hv : Valid (w.takeWhile (fun b => !isNL b) ++ b :: w2) := by rw [← hwe]; exact hw.2
      have hv2 := hv.split_lead (Or.inr ⟨b, w2, rfl, Or.inl hblt⟩)
      have hsplit : (b :: w2).takeWhile isNL ++ (b :: w2).dropWhile isNL = b :: w2 :=
        List.takeWhile_append_dropWhile
      have htail : sepFree ((b :: w2).dropWhile isNL) = true ∧ Valid ((b :: w2).dropWhile isNL) := by
        constructor
        · apply sepFree_append_right ((b :: w2).takeWhile isNL)
          rw [hsplit]
          exact sepFree_append_right _ _ hsf
        · apply (valid_NL_run _ List.all_takeWhile).drop_prefix
          rw [hsplit]
          exact hv2.2
      rw [hd]
      intro wd hwd
      rcases List.mem_cons.mp hwd with rfl | hwd
      · exact ⟨sepFree_append_left _ _ hsf, hv2.1⟩
      · rcases List.mem_cons.mp hwd with rfl | hwd
        · exact ⟨rfl, Valid.nil⟩
        · apply expandNewlines_good fuel _ _ wd hwd
          intro x hx
          rcases List.mem_cons.mp hx with rfl | hx
          · exact htail
          · exact hrest x hx
    · intro wd hwd
      rcases List.mem_cons.mp hwd with rfl | hwd
      · exact hw
      · exact expandNewlines_good fuel rest hrest wd hwd

end Girc.Proofs.SplitNL
