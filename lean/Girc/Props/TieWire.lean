import Girc.Proofs.TransTags
import Girc.Proofs.TransParseTags
import Girc.Proofs.TransSource
import Girc.Proofs.TransParseEvent
import Girc.Proofs.TransTagsBytes
import Girc.Proofs.TransEventBytes
import Girc.Proofs.TransEventHelpers
import Girc.Proofs.TransPhase4B
import Girc.Proofs.TransSplit
/-
  Tie (TieWire): the function bodies regenerated from the Go source on every run (Girc/Gen/Funcs.lean, written by
  tools/extract/translate.go) equal the hand-written models the property theorems of C01, C02 and C03 are about, for ALL inputs.
  Only restatements of theorems proved in Girc/Proofs/Trans*.lean, each with a non-vacuity example that evaluates the
  generated function on a literal. An edit of the Go function changes Funcs.lean and the equivalence stops building.
-/
namespace Girc.Props.TieWire
open Girc Girc.Model Girc.Gen

/-! ### cap_tags.go -/

theorem tie_validTag : ∀ s : Bytes, Fn.validTag s = .ok (validTag s) := Proofs.Trans.validTag_eq
example : Fn.validTag [0x2B, 0x61, 0x2F, 0x62] = .ok true := by rfl
example : Fn.validTag [0x2B] = .ok false := by rfl

theorem tie_validTagValue : ∀ s : Bytes, Fn.validTagValue s = .ok (validTagValue s) := Proofs.Trans.validTagValue_eq
example : Fn.validTagValue [0x61, 0x5C, 0x73] = .ok true := by rfl
example : Fn.validTagValue [0x61, 0x3B] = .ok false := by rfl

theorem tie_ParseTags : ∀ raw : Bytes, Fn.ParseTags raw = .ok (some (parseTags raw)) := Proofs.Trans.ParseTags_eq
-- "@a=b;+c;=x"
example : Fn.ParseTags [0x40, 0x61, 0x3D, 0x62, 0x3B, 0x2B, 0x63, 0x3B, 0x3D, 0x78] =
    .ok (some [([0x61], [0x62]), ([0x2B, 0x63], [])]) := by rfl

/-- `Tags.Get` returns `(value, ok)`; the model returns `Option`. -/
theorem tie_Tags_Get : ∀ (t : Option Tags) (key : Bytes),
    Fn.Tags_Get t key = .ok (match tagsGet t key with
                             | some v => (v, true)
                             | none => ([], false)) := Proofs.Trans.Tags_Get_eq
-- {"a": `x\sy\`}.Get("a") = "x y\" (trailing backslash kept)
example : Fn.Tags_Get (some [([0x61], [0x78, 0x5C, 0x73, 0x79, 0x5C])]) [0x61] = .ok ([0x78, 0x20, 0x79, 0x5C], true) := by rfl
example : Fn.Tags_Get none [0x61] = .ok ([], false) := by rfl

/-! ### event.go -/

theorem tie_ParseSource : ∀ raw : Bytes, Fn.ParseSource raw = .ok (some (parseSource raw)) := Proofs.Trans.ParseSource_eq
-- "n!u@h"
example : Fn.ParseSource [0x6E, 0x21, 0x75, 0x40, 0x68] = .ok (some ⟨[0x6E], [0x75], [0x68]⟩) := by rfl

theorem tie_Source_Len : ∀ s : Source, Fn.Source_Len (some s) = .ok (sourceLen s : Int) := Proofs.Trans.Source_Len_eq
theorem tie_Source_Len_nil : Fn.Source_Len none = .error .nilDeref := Proofs.Trans.Source_Len_nil
example : Fn.Source_Len (some ⟨[0x6E], [0x75], [0x68]⟩) = .ok 5 := by rfl

theorem tie_Source_writeTo : ∀ (s : Source) (buf : Bytes), Fn.Source_writeTo (some s) buf = .ok (buf ++ sourceBytes s) :=
  Proofs.Trans.Source_writeTo_eq
theorem tie_Source_writeTo_nil : ∀ buf : Bytes, Fn.Source_writeTo none buf = .error .nilDeref := Proofs.Trans.Source_writeTo_nil
example : Fn.Source_writeTo (some ⟨[0x6E], [0x75], [0x68]⟩) [0x3A] = .ok [0x3A, 0x6E, 0x21, 0x75, 0x40, 0x68] := by rfl

theorem tie_Source_Bytes : ∀ s : Source, Fn.Source_Bytes (some s) = .ok (sourceBytes s) := Proofs.Trans.Source_Bytes_eq
theorem tie_Source_Bytes_nil : Fn.Source_Bytes none = .error .nilDeref := Proofs.Trans.Source_Bytes_nil
theorem tie_Source_String : ∀ s : Source, Fn.Source_String (some s) = .ok (sourceBytes s) := Proofs.Trans.Source_String_eq
theorem tie_Source_String_nil : Fn.Source_String none = .error .nilDeref := Proofs.Trans.Source_String_nil
example : Fn.Source_Bytes (some ⟨[0x6E], [0x75], [0x68]⟩) = .ok [0x6E, 0x21, 0x75, 0x40, 0x68] := by rfl
example : Fn.Source_String (some ⟨[0x6E], [], [0x68]⟩) = .ok [0x6E, 0x40, 0x68] := by rfl

/-- `ParseEvent` (the server-time block writes only `Event.Timestamp`, outside the model, and is erased by the
    translator): the regenerated parser never panics and equals the list-functional `parseEvent`. -/
theorem tie_ParseEvent : ∀ raw : Bytes, Fn.ParseEvent raw = .ok (parseEvent raw) := Proofs.Trans.ParseEvent_eq
-- "@a=b :n!u@h PRIVMSG #c :hi there\r\n"
example : Fn.ParseEvent [0x40, 0x61, 0x3D, 0x62, 0x20, 0x3A, 0x6E, 0x21, 0x75, 0x40, 0x68, 0x20, 0x50, 0x52, 0x49, 0x56, 0x4D, 0x53,
    0x47, 0x20, 0x23, 0x63, 0x20, 0x3A, 0x68, 0x69, 0x20, 0x74, 0x68, 0x65, 0x72, 0x65, 0x0D, 0x0A] =
    .ok (some { tags := some [([0x61], [0x62])], source := some ⟨[0x6E], [0x75], [0x68]⟩,
                command := [0x50, 0x52, 0x49, 0x56, 0x4D, 0x53, 0x47],
                params := [[0x23, 0x63], [0x68, 0x69, 0x20, 0x74, 0x68, 0x65, 0x72, 0x65]] }) := by rfl
example : Fn.ParseEvent [0x3A, 0x20, 0x78] = .ok none := by rfl

/-! ### cap_tags.go, serialiser side

`Tags.Bytes` ranges over the map (`for tagName := range t`, order unspecified in Go) and sorts the keys with
`sort.Strings` (trusted table entry ↦ `sortStrings = sortBytes`).  The translation visits the keys in the order of the
association list that represents the map; `tie_Tags_Bytes` holds for every list, and `tie_Tags_Bytes_order` says the
result is the same for every permutation of the entries, i.e. for every order Go may pick. -/

theorem tie_Tags_Bytes : ∀ t : Option Tags, Fn.Tags_Bytes t = .ok (tagsBytes t) := Proofs.Trans.Tags_Bytes_eq
theorem tie_Tags_Bytes_order : ∀ {t t' : Tags}, t.Perm t' → (AMap.keys t).Nodup →
    Fn.Tags_Bytes (some t) = Fn.Tags_Bytes (some t') := Proofs.Trans.Tags_Bytes_order
-- {"b": "", "a": "1"} in either order ↦ "@a=1;b"
example : Fn.Tags_Bytes (some [([0x62], []), ([0x61], [0x31])]) = .ok [0x40, 0x61, 0x3D, 0x31, 0x3B, 0x62] := by rfl
example : Fn.Tags_Bytes (some [([0x61], [0x31]), ([0x62], [])]) = .ok [0x40, 0x61, 0x3D, 0x31, 0x3B, 0x62] := by rfl
example : Fn.Tags_Bytes none = .ok [] := by rfl

theorem tie_Tags_Len : ∀ t : Option Tags, Fn.Tags_Len t = .ok (tagsLen t : Int) := Proofs.Trans.Tags_Len_eq
example : Fn.Tags_Len (some [([0x62], []), ([0x61], [0x31])]) = .ok 6 := by rfl

/-- `Tags.writeTo(w io.Writer)` with `w` a `*bytes.Buffer` (a buffer is its contents; `Write` returns `len, nil`):
    results `(n, err)` and the buffer afterwards. -/
theorem tie_Tags_writeTo : ∀ (t : Option Tags) (w : Bytes),
    Fn.Tags_writeTo t w = .ok (((tagsWrite t).length : Int), none, w ++ tagsWrite t) := Proofs.Trans.Tags_writeTo_eq
example : Fn.Tags_writeTo (some [([0x61], [0x31])]) [0x78] = .ok (5, none, [0x78, 0x40, 0x61, 0x3D, 0x31, 0x20]) := by rfl
example : Fn.Tags_writeTo (some []) [0x78] = .ok (0, none, [0x78]) := by rfl

/-- `Tags.Set(key, value) error`: results = (error (nil = `none`; the message text is abstracted), the caller's map
    afterwards). -/
theorem tie_Tags_Set : ∀ (m : Tags) (key value : Bytes),
    Fn.Tags_Set (some m) key value = .ok (match tagsSet m key value with
                                          | some m' => (none, some m')
                                          | none => (some Go.GoErr.mk, some m)) := Proofs.Trans.Tags_Set_eq
/-- On a nil map the receiver is re-bound to a fresh map: the caller's map stays nil. -/
theorem tie_Tags_Set_nil : ∀ key value : Bytes,
    Fn.Tags_Set none key value = .ok (if (tagsSet [] key value).isSome then none else some Go.GoErr.mk, none) :=
  Proofs.Trans.Tags_Set_nil
-- Set("a", "x y") stores `x\sy`; Set("a b", …) is an error and leaves the map alone
example : Fn.Tags_Set (some []) [0x61] [0x78, 0x20, 0x79] = .ok (none, some [([0x61], [0x78, 0x5C, 0x73, 0x79])]) := by rfl
example : Fn.Tags_Set (some []) [0x61, 0x20, 0x62] [0x78] = .ok (some Go.GoErr.mk, some []) := by rfl
example : Fn.Tags_Set none [0x61] [0x78] = .ok (none, none) := by rfl

/-! ### event.go, serialiser side -/

theorem tie_Event_LenOpts : ∀ (e : Event) (includeTags : Bool), Fn.Event_LenOpts (some e) includeTags = .ok (eventLen e : Int) :=
  Proofs.Trans.Event_LenOpts_eq
theorem tie_Event_LenOpts_nil : ∀ b : Bool, Fn.Event_LenOpts none b = .error .nilDeref := Proofs.Trans.Event_LenOpts_nil
theorem tie_Event_Len : ∀ e : Event, Fn.Event_Len (some e) = .ok (eventLen e : Int) := Proofs.Trans.Event_Len_eq
theorem tie_Event_Len_nil : Fn.Event_Len none = .error .nilDeref := Proofs.Trans.Event_Len_nil
theorem tie_Event_Bytes : ∀ e : Event, Fn.Event_Bytes (some e) = .ok (eventBytes e) := Proofs.Trans.Event_Bytes_eq
theorem tie_Event_Bytes_nil : Fn.Event_Bytes none = .error .nilDeref := Proofs.Trans.Event_Bytes_nil
-- @a=1 :n!u@h PRIVMSG #c :hi\nthere  (the LF is stripped)
example : Fn.Event_Bytes (some { tags := some [([0x61], [0x31])], source := some ⟨[0x6E], [0x75], [0x68]⟩, command := [0x50, 0x52, 0x49, 0x56, 0x4D, 0x53, 0x47], params := [[0x23, 0x63], [0x68, 0x69, 0x0A, 0x20, 0x74]] }) =
    .ok [0x40, 0x61, 0x3D, 0x31, 0x20, 0x3A, 0x6E, 0x21, 0x75, 0x40, 0x68, 0x20, 0x50, 0x52, 0x49, 0x56, 0x4D, 0x53, 0x47,
         0x20, 0x23, 0x63, 0x20, 0x3A, 0x68, 0x69, 0x20, 0x74] := by rfl
example : Fn.Event_Len (some { tags := some [([0x61], [0x31])], source := some ⟨[0x6E], [0x75], [0x68]⟩, command := [0x50, 0x52, 0x49, 0x56, 0x4D, 0x53, 0x47], params := [[0x23, 0x63], [0x68, 0x69, 0x0A, 0x20, 0x74]] }) =
    .ok 29 := by rfl

/-! ### event.go, query helpers (models in Model/EventHelpers.lean) -/

theorem tie_Event_Last : ∀ e : Event, Fn.Event_Last (some e) = .ok (eventLast e) := Proofs.Trans.Event_Last_eq
theorem tie_Event_Last_nil : Fn.Event_Last none = .error .nilDeref := Proofs.Trans.Event_Last_nil
example : Fn.Event_Last (some { command := [0x58], params := [[0x61], [0x62]] }) = .ok [0x62] := by rfl
example : Fn.Event_Last (some { command := [0x58], params := [] }) = .ok [] := by rfl

theorem tie_Source_ID : ∀ s : Source, Fn.Source_ID (some s) = .ok (sourceID s) := Proofs.Trans.Source_ID_eq
theorem tie_Source_ID_nil : Fn.Source_ID none = .error .nilDeref := Proofs.Trans.Source_ID_nil
theorem tie_Source_Equals : ∀ a b : Option Source, Fn.Source_Equals a b = .ok (sourceEq a b) := Proofs.Trans.Source_Equals_eq
example : Fn.Source_Equals (some ⟨[0x4E, 0x5B], [0x75], [0x68]⟩) (some ⟨[0x6E, 0x7B], [0x75], [0x68]⟩) = .ok true := by rfl
example : Fn.Source_Equals none (some ⟨[0x6E], [], []⟩) = .ok false := by rfl
example : Fn.Source_Equals none none = .ok true := by rfl

theorem tie_Source_IsHostmask : ∀ s : Source, Fn.Source_IsHostmask (some s) = .ok (isHostmask s) :=
  Proofs.Trans.Source_IsHostmask_eq
theorem tie_Source_IsHostmask_nil : Fn.Source_IsHostmask none = .error .nilDeref := Proofs.Trans.Source_IsHostmask_nil
theorem tie_Source_IsServer : ∀ s : Source, Fn.Source_IsServer (some s) = .ok (isServer s) := Proofs.Trans.Source_IsServer_eq
theorem tie_Source_IsServer_nil : Fn.Source_IsServer none = .error .nilDeref := Proofs.Trans.Source_IsServer_nil
example : Fn.Source_IsHostmask (some ⟨[0x6E], [0x75], [0x68]⟩) = .ok true := by rfl
example : Fn.Source_IsServer (some ⟨[0x6E], [], []⟩) = .ok true := by rfl

theorem tie_Event_IsFromChannel : ∀ e : Event, Fn.Event_IsFromChannel (some e) = .ok (isFromChannel e) :=
  Proofs.Trans.Event_IsFromChannel_eq
theorem tie_Event_IsFromChannel_nil : Fn.Event_IsFromChannel none = .error .nilDeref := Proofs.Trans.Event_IsFromChannel_nil
theorem tie_Event_IsFromUser : ∀ e : Event, Fn.Event_IsFromUser (some e) = .ok (isFromUser e) :=
  Proofs.Trans.Event_IsFromUser_eq
theorem tie_Event_IsFromUser_nil : Fn.Event_IsFromUser none = .error .nilDeref := Proofs.Trans.Event_IsFromUser_nil
example : Fn.Event_IsFromChannel (some { source := some ⟨[0x6E], [], []⟩, command := PRIVMSG, params := [[0x23, 0x63], [0x78]] }) =
    .ok true := by rfl
example : Fn.Event_IsFromUser (some { source := some ⟨[0x6E], [], []⟩, command := PRIVMSG, params := [[0x23, 0x63], [0x78]] }) =
    .ok false := by rfl

/-! ### phase 4: the remaining value-level helpers of cap_tags.go and event.go (models: Model/Phase4Helpers.lean) -/

theorem tie_Tags_Count : ∀ t : Option Tags, Fn.Tags_Count t = .ok (tagsCount t) := Proofs.Trans.Tags_Count_eq
example : Fn.Tags_Count none = .ok 0 := by rfl
example : Fn.Tags_Count (some [([0x61], [0x78]), ([0x62], [])]) = .ok 2 := by rfl

/-- `Tags.Keys`: the keys in the order the map is ranged over (= the order of the representing list) … -/
theorem tie_Tags_Keys : ∀ t : Option Tags, Fn.Tags_Keys t = .ok (Go.mapKeys t) := Proofs.Trans.Tags_Keys_eq
/-- … so two representations of the same map give permutations of the same keys ("unsorted" in the Go doc comment). -/
theorem tie_Tags_Keys_order : ∀ m m' : Tags, List.Perm m m' →
    ∃ ks ks', Fn.Tags_Keys (some m) = .ok ks ∧ Fn.Tags_Keys (some m') = .ok ks' ∧ List.Perm ks ks' :=
  Proofs.Trans.Tags_Keys_perm
example : Fn.Tags_Keys (some [([0x62], [0x78]), ([0x61], [])]) = .ok [[0x62], [0x61]] := by rfl
example : Fn.Tags_Keys none = .ok [] := by rfl

/-- `Tags.Equals` compares the `account` tag only. -/
theorem tie_Tags_Equals : ∀ t tt : Option Tags, Fn.Tags_Equals t tt = .ok (tagsEquals t tt) := Proofs.Trans.Tags_Equals_eq
-- {"account": "a", "x": "1"} equals {"account": "a"}; a nil map equals a map without the tag
example : Fn.Tags_Equals (some [([0x61, 0x63, 0x63, 0x6F, 0x75, 0x6E, 0x74], [0x61]), ([0x78], [0x31])])
    (some [([0x61, 0x63, 0x63, 0x6F, 0x75, 0x6E, 0x74], [0x61])]) = .ok true := by rfl
example : Fn.Tags_Equals none (some [([0x78], [0x31])]) = .ok true := by rfl

/-- `Tags.Remove`: (was the key there?, the caller's map afterwards). -/
theorem tie_Tags_Remove : ∀ (t : Option Tags) (key : Bytes), Fn.Tags_Remove t key = .ok (tagsRemove t key) :=
  Proofs.Trans.Tags_Remove_eq
example : Fn.Tags_Remove (some [([0x61], [0x78]), ([0x62], [])]) [0x61] = .ok (true, some [([0x62], [])]) := by rfl
example : Fn.Tags_Remove (some [([0x61], [0x78])]) [0x62] = .ok (false, some [([0x61], [0x78])]) := by rfl
example : Fn.Tags_Remove none [0x62] = .ok (false, none) := by rfl

/-- `(*Event).Equals`; the Go code has no nil guard: a nil receiver or argument panics. -/
theorem tie_Event_Equals : ∀ e ev : Event, Fn.Event_Equals (some e) (some ev) = .ok (eventEquals e ev) :=
  Proofs.Trans.Event_Equals_eq
theorem tie_Event_Equals_nil_left : ∀ x : Option Event, Fn.Event_Equals none x = .error .nilDeref :=
  Proofs.Trans.Event_Equals_nil_left
theorem tie_Event_Equals_nil_right : ∀ e : Event, Fn.Event_Equals (some e) none = .error .nilDeref :=
  Proofs.Trans.Event_Equals_nil_right
example : Fn.Event_Equals (some { command := PRIVMSG, params := [[0x23, 0x63], [0x78]] })
    (some { command := PRIVMSG, params := [[0x23, 0x63], [0x78]], tags := some [([0x78], [0x31])] }) = .ok true := by rfl
example : Fn.Event_Equals (some { command := PRIVMSG, params := [[0x23, 0x63], [0x78]] })
    (some { command := PRIVMSG, params := [[0x23, 0x63], [0x79]] }) = .ok false := by rfl

theorem tie_Event_String : ∀ e : Event, Fn.Event_String (some e) = .ok (eventBytes e) := Proofs.Trans.Event_String_eq
theorem tie_Event_String_nil : Fn.Event_String none = .error .nilDeref := Proofs.Trans.Event_String_nil
example : Fn.Event_String (some { command := [0x50, 0x49, 0x4E, 0x47], params := [[0x78]] }) =
    .ok [0x50, 0x49, 0x4E, 0x47, 0x20, 0x78] := by rfl

/-- `(*Source).Copy` and `(*Event).Copy` at VALUE level: the copy equals the argument, nil ⇒ nil.  (That the copy shares no
    memory with the original is C13's subject, not the value model's.)  The hypothesis on the tags is the representation
    invariant of a Go map; `tie_Event_Copy_go` is the exact value for every association list. -/
theorem tie_Source_Copy : ∀ s : Option Source, Fn.Source_Copy s = .ok s := Proofs.Trans.Source_Copy_opt
theorem tie_Event_Copy : ∀ e : Event, (∀ m, e.tags = some m → (AMap.keys m).Nodup) → Fn.Event_Copy (some e) = .ok (some e) :=
  Proofs.Trans.Event_Copy_eq
theorem tie_Event_Copy_go : ∀ e : Event,
    Fn.Event_Copy (some e) = .ok (some { e with tags := e.tags.map Proofs.Trans.tagsCopy }) := Proofs.Trans.Event_Copy_go
theorem tie_Event_Copy_nil : Fn.Event_Copy none = .ok none := Proofs.Trans.Event_Copy_nil
example : Fn.Event_Copy (some { tags := some [([0x61], [0x78])], source := some ⟨[0x6E], [0x75], [0x68]⟩, command := PRIVMSG, params := [[0x23, 0x63], [0x78]] }) =
    .ok (some { tags := some [([0x61], [0x78])], source := some ⟨[0x6E], [0x75], [0x68]⟩, command := PRIVMSG, params := [[0x23, 0x63], [0x78]] }) := by rfl
example : Fn.Source_Copy (some ⟨[0x6E], [0x75], [0x68]⟩) = .ok (some ⟨[0x6E], [0x75], [0x68]⟩) := by rfl

end Girc.Props.TieWire
