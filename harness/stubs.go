package main

func runC16Timing(c *Ctx) {} // replaced by the timing harness
