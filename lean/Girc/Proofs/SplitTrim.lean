import Girc.Proofs.SplitSep
/-
  `strings.TrimSpace` on valid UTF-8 removes whole runes: the result is valid.
-/
namespace Girc.Proofs.SplitTrim
open Girc Girc.Model Girc.Spec Girc.Proofs.Utf8 Girc.Proofs.RoundtripUtf8 Girc.Proofs.SplitUtf8

theorem e280 : ∀ c : UInt8, ((0x80 ≤ c && c ≤ 0x8A) || c = 0xA8 || c = 0xA9 || c = 0xAF) = true →
    isCont c = true := by
  decide +kernel

/-- A white-space rune at the head is a complete encoding. -/
theorem spaceRuneLen_width (s : Bytes) (h : spaceRuneLen s ≠ 0) : utf8Width s = some (spaceRuneLen s) := by
  unfold spaceRuneLen at h ⊢
  split at h <;> try (simp [utf8Width, isCont]; done)
  · split at h
    · rename_i hc
      simp only [hc, if_true]
      have := e280 _ hc
      simp [utf8Width, this]
    · simp at h
  · simp at h

theorem spaceRuneLen_lead (x : Byte) (r : Bytes) (h : spaceRuneLen (x :: r) ≠ 0) : isLead x := by
  unfold spaceRuneLen at h
  split at h <;> first
    | (rename_i heq; simp only [List.cons.injEq] at heq; rw [heq.1]; unfold isLead; decide)
    | simp at h

theorem valid_trimLeftSpace : ∀ (n : Nat) (s : Bytes), Valid s → Valid (trimLeftSpace n s)
  | 0, _, h => h
  | n + 1, s, h => by
    simp only [trimLeftSpace]
    split
    · exact h
    · rename_i hk
      apply valid_trimLeftSpace n
      have hw := spaceRuneLen_width s hk
      have hne : s ≠ [] := by intro e; subst e; simp [spaceRuneLen] at hk
      obtain ⟨w, hw', hv⟩ := h.uncons hne
      rw [hw] at hw'
      cases hw'
      exact hv

theorem spaceRuneLenEnd_cut (s : Bytes) (h : spaceRuneLenEnd s ≠ 0) :
    ∃ pre x r, s = pre ++ x :: r ∧ isLead x ∧ pre.length = s.length - spaceRuneLenEnd s := by
  rcases hrev : s.reverse with _ | ⟨c, _ | ⟨b, _ | ⟨a, rest⟩⟩⟩
  · simp [spaceRuneLenEnd, hrev] at h
  · have hs : s = [c] := by
      have := congrArg List.reverse hrev; simpa using this
    simp only [spaceRuneLenEnd, hrev] at h ⊢
    split at h
    · rename_i h1
      simp only [h1, if_true]
      exact ⟨[], c, [], by rw [hs]; simp, spaceRuneLen_lead c _ (by rw [h1]; simp), by rw [hs]; simp⟩
    · simp at h
  · have hs : s = [b, c] := by
      have := congrArg List.reverse hrev; simpa using this
    simp only [spaceRuneLenEnd, hrev] at h ⊢
    split at h
    · rename_i h2
      simp only [h2, if_true]
      exact ⟨[], b, [c], by rw [hs]; simp, spaceRuneLen_lead b _ (by rw [h2]; simp), by rw [hs]; simp⟩
    · rename_i h2
      simp only [h2, if_false]
      split at h
      · rename_i h1
        simp only [h1, if_true]
        exact ⟨[b], c, [], by rw [hs]; simp, spaceRuneLen_lead c _ (by rw [h1]; simp), by rw [hs]; simp⟩
      · simp at h
  · have hs : s = rest.reverse ++ [a, b, c] := by
      have := congrArg List.reverse hrev; simpa using this
    simp only [spaceRuneLenEnd, hrev] at h ⊢
    split at h
    · rename_i h3
      simp only [h3, if_true]
      exact ⟨rest.reverse, a, [b, c], hs, spaceRuneLen_lead a _ (by rw [h3]; simp), by rw [hs]; simp⟩
    · rename_i h3
      simp only [h3, if_false]
      split at h
      · rename_i h2
        simp only [h2, if_true]
        exact ⟨rest.reverse ++ [a], b, [c], by rw [hs]; simp, spaceRuneLen_lead b _ (by rw [h2]; simp),
          by rw [hs]; simp⟩
      · rename_i h2
        simp only [h2, if_false]
        split at h
        · rename_i h1
          simp only [h1, if_true]
          exact ⟨rest.reverse ++ [a, b], c, [], by rw [hs]; simp, spaceRuneLen_lead c _ (by rw [h1]; simp),
            by rw [hs]; simp⟩
        · simp at h

theorem valid_trimRightSpace : ∀ (n : Nat) (s : Bytes), Valid s → Valid (trimRightSpace n s)
  | 0, _, h => h
  | n + 1, s, h => by
    simp only [trimRightSpace]
    split
    · exact h
    · rename_i hk
      apply valid_trimRightSpace n
      obtain ⟨pre, x, r, hs, hx, hlen⟩ := spaceRuneLenEnd_cut s hk
      have : s.take (s.length - spaceRuneLenEnd s) = pre := by
        rw [← hlen]; conv => lhs; rw [hs]
        simp
      rw [this]
      exact h.cut_lead pre x r hs hx

theorem valid_trimSpace (s : Bytes) (h : Valid s) : Valid (trimSpace s) :=
  valid_trimRightSpace _ _ (valid_trimLeftSpace _ _ h)

end Girc.Proofs.SplitTrim
