import Girc.Model.Dispatch
namespace Girc.Proofs.Disp
open Girc Girc.Model.Disp

theorem upper1_idem (b : Byte) : upper1 (upper1 b) = upper1 b := by
  unfold upper1
  split
  · rename_i h
    simp only [Bool.and_eq_true, decide_eq_true_eq] at h
    have h1 := UInt8.le_iff_toNat_le.mp h.1
    have h2 := UInt8.le_iff_toNat_le.mp h.2
    have : ¬ ((0x61 : UInt8) ≤ b - 0x20 ∧ b - 0x20 ≤ 0x7A) := by
      intro ⟨h3, _⟩
      have h3 := UInt8.le_iff_toNat_le.mp h3
      rw [UInt8.toNat_sub] at h3
      simp at h1 h2 h3
      omega
    simp [this]
  · rename_i h
    simp

theorem toUpper_idem (c : Bytes) : toUpperAscii (toUpperAscii c) = toUpperAscii c := by
  simp [toUpperAscii, upper1_idem]

theorem nodup_map_inj {α β} {f : α → β} : ∀ {l : List α}, (l.map f).Nodup → ∀ {a b}, a ∈ l → b ∈ l → f a = f b → a = b
  | [], _, _, _, ha, _, _ => by cases ha
  | x :: l, h, a, b, ha, hb, hab => by
    simp only [List.map_cons, List.nodup_cons, List.mem_map, not_exists, not_and] at h
    rcases List.mem_cons.mp ha with ha' | ha' <;> rcases List.mem_cons.mp hb with hb' | hb'
    · rw [ha', hb']
    · subst ha'; exact absurd hab.symm (h.1 b hb')
    · subst hb'; exact absurd hab (h.1 a ha')
    · exact nodup_map_inj h.2 ha' hb' hab

theorem nodup_map_filter {α β} {f : α → β} {l : List α} (p : α → Bool) (h : (l.map f).Nodup) : ((l.filter p).map f).Nodup :=
  List.Nodup.sublist (List.Sublist.map f List.filter_sublist) h

theorem phases_get {k : Nat} {ph : Phase} (h : phases[k]? = some ph) :
    (k = 0 ∧ ph = ⟨true, true, false⟩) ∨ (k = 1 ∧ ph = ⟨false, true, true⟩) ∨
    (k = 2 ∧ ph = ⟨true, false, false⟩) ∨ (k = 3 ∧ ph = ⟨false, false, true⟩) := by
  unfold phases at h
  match k, h with
  | 0, h => simp at h; simp [h]
  | 1, h => simp at h; simp [h]
  | 2, h => simp at h; simp [h]
  | 3, h => simp at h; simp [h]
  | k + 4, h => simp at h

theorem phases_lt {k : Nat} (h : k < 4) : ∃ ph, phases[k]? = some ph := by
  match k, h with
  | 0, _ => exact ⟨_, rfl⟩
  | 1, _ => exact ⟨_, rfl⟩
  | 2, _ => exact ⟨_, rfl⟩
  | 3, _ => exact ⟨_, rfl⟩

theorem phases_cover' (e : Entry) (ev : Evt) :
    routeOK e ev = true ↔ ∃ (k : Nat) (ph : Phase), phases[k]? = some ph ∧ ph.sel ev e = true ∧ (ph.skipEcho && ev.echo) = false := by
  constructor
  · intro h
    simp only [routeOK, Bool.or_eq_true, Bool.and_eq_true, beq_iff_eq, Bool.not_eq_true'] at h
    rcases h with h | ⟨h1, h2⟩
    · cases hb : e.bg
      · exact ⟨2, _, rfl, by simp [Phase.sel, hb, h], by simp⟩
      · exact ⟨0, _, rfl, by simp [Phase.sel, hb, h], by simp⟩
    · cases hb : e.bg
      · exact ⟨3, _, rfl, by simp [Phase.sel, hb, h1], by simp [h2]⟩
      · exact ⟨1, _, rfl, by simp [Phase.sel, hb, h1], by simp [h2]⟩
  · rintro ⟨k, ph, hk, hsel, hskip⟩
    rcases phases_get hk with ⟨_, rfl⟩ | ⟨_, rfl⟩ | ⟨_, rfl⟩ | ⟨_, rfl⟩ <;>
      simp [Phase.sel] at hsel hskip <;> simp [routeOK, hsel, hskip]

/-- an entry is selected by at most one phase of an event whose command is not `*` -/
theorem sel_unique {e : Entry} {ev : Evt} (hc : ev.cmd ≠ star) {k1 k2 : Nat} {p1 p2 : Phase}
    (h1 : phases[k1]? = some p1) (h2 : phases[k2]? = some p2)
    (s1 : p1.sel ev e = true) (s2 : p2.sel ev e = true) : k1 = k2 := by
  rcases phases_get h1 with ⟨rfl, rfl⟩ | ⟨rfl, rfl⟩ | ⟨rfl, rfl⟩ | ⟨rfl, rfl⟩ <;>
  rcases phases_get h2 with ⟨rfl, rfl⟩ | ⟨rfl, rfl⟩ | ⟨rfl, rfl⟩ | ⟨rfl, rfl⟩ <;>
  simp [Phase.sel] at s1 s2 <;> first | rfl | (exfalso; simp_all)


theorem mem_snapshot {t : List Entry} {ev : Evt} {ph : Phase} {e : Entry} :
    e ∈ snapshot t ev ph ↔ e ∈ t ∧ ph.sel ev e = true ∧ (ph.skipEcho && ev.echo) = false := by
  unfold snapshot
  split
  · rename_i h; simp [h]
  · rename_i h; simp [List.mem_filter, h]

theorem snapshot_ids_nodup {t : List Entry} (ev : Evt) (ph : Phase) (h : (t.map (·.id)).Nodup) :
    ((snapshot t ev ph).map (·.id)).Nodup := by
  unfold snapshot
  split
  · simp
  · exact nodup_map_filter _ h

theorem mem_dispatch {t : List Entry} {ev : Evt} {e : Entry} :
    e ∈ (phases.flatMap fun ph => snapshot t ev ph) ↔ e ∈ t ∧ routeOK e ev = true := by
  rw [phases_cover', List.mem_flatMap]
  constructor
  · rintro ⟨ph, hph, he⟩
    rw [mem_snapshot] at he
    obtain ⟨k, hk⟩ := List.getElem?_of_mem hph
    exact ⟨he.1, k, ph, hk, he.2⟩
  · rintro ⟨het, k, ph, hk, hsel⟩
    exact ⟨ph, List.mem_of_getElem? hk, mem_snapshot.mpr ⟨het, hsel⟩⟩

theorem dispatchIds_spec' (t : List Entry) (ev : Evt) (id : Nat) :
    id ∈ dispatchIds t ev ↔ ∃ e ∈ t, e.id = id ∧ routeOK e ev = true := by
  unfold dispatchIds
  rw [List.mem_map]
  constructor
  · rintro ⟨e, he, rfl⟩
    rw [mem_dispatch] at he
    exact ⟨e, he.1, rfl, he.2⟩
  · rintro ⟨e, he, rfl, hr⟩
    exact ⟨e, mem_dispatch.mpr ⟨he, hr⟩, rfl⟩

theorem dispatchIds_nodup' (t : List Entry) (ev : Evt) (hc : ev.cmd ≠ star) (hn : (t.map (·.id)).Nodup) :
    (dispatchIds t ev).Nodup := by
  have key : ∀ (k1 k2 : Nat) (p1 p2 : Phase), phases[k1]? = some p1 → phases[k2]? = some p2 → k1 ≠ k2 →
      ∀ a ∈ (snapshot t ev p1).map (·.id), ∀ b ∈ (snapshot t ev p2).map (·.id), a ≠ b := by
    intro k1 k2 p1 p2 h1 h2 hne a ha b hb hab
    obtain ⟨e1, he1, rfl⟩ := List.mem_map.mp ha
    obtain ⟨e2, he2, h⟩ := List.mem_map.mp hb
    rw [mem_snapshot] at he1 he2
    have : e2 = e1 := nodup_map_inj hn he2.1 he1.1 (h.trans hab.symm)
    subst this
    exact hne (sel_unique hc h1 h2 he1.2.1 he2.2.1)
  have n := fun ph => snapshot_ids_nodup (t := t) ev ph hn
  unfold dispatchIds phases
  simp only [List.flatMap_cons, List.flatMap_nil, List.append_nil, List.map_append, List.nodup_append, List.mem_append]
  refine ⟨n _, ⟨n _, ⟨n _, n _, ?_⟩, ?_⟩, ?_⟩
  · exact key 2 3 _ _ rfl rfl (by decide)
  · rintro a ha b (hb | hb)
    · exact key 1 2 _ _ rfl rfl (by decide) a ha b hb
    · exact key 1 3 _ _ rfl rfl (by decide) a ha b hb
  · rintro a ha b (hb | hb | hb)
    · exact key 0 1 _ _ rfl rfl (by decide) a ha b hb
    · exact key 0 2 _ _ rfl rfl (by decide) a ha b hb
    · exact key 0 3 _ _ rfl rfl (by decide) a ha b hb

theorem hasId_eq_true {t : List Entry} {id : Nat} : hasId t id = true ↔ ∃ e ∈ t, e.id = id := by
  simp [hasId]

theorem hasId_eq_false {t : List Entry} {id : Nat} : hasId t id = false ↔ ∀ e ∈ t, e.id ≠ id := by
  simp [hasId]

theorem mem_eraseId {t : List Entry} {id : Nat} {e : Entry} : e ∈ eraseId t id ↔ e ∈ t ∧ e.id ≠ id := by
  simp [eraseId]

theorem hasId_eraseId (t : List Entry) (id : Nat) : hasId (eraseId t id) id = false := by
  rw [hasId_eq_false]; intro e he; exact (mem_eraseId.mp he).2


theorem step_add {s s' : DState} {cmd : Bytes} {bg tmp : Bool} (hs : step s (.add cmd bg tmp) = some s') :
    s' = { s with table := s.table ++ [⟨s.nextId, toUpperAscii cmd, bg || tmp, tmp⟩],
                  registry := s.registry ++ [⟨s.nextId, toUpperAscii cmd, bg || tmp, tmp⟩],
                  nextId := s.nextId + 1 } := by
  simp only [step] at hs
  split at hs
  · cases hs
  · cases hs; rfl

theorem step_remove {s s' : DState} {id : Nat} (hs : step s (.remove id) = some s') :
    s' = s ∨ (hasId s.table id = true ∧ s' = { s with table := eraseId s.table id, removed := s.removed ++ [id] }) := by
  simp only [step] at hs
  split at hs
  · cases hs
  · split at hs
    · cases hs; exact .inr ⟨‹_›, rfl⟩
    · cases hs; exact .inl rfl

theorem step_clear {s s' : DState} {cmd : Bytes} (hs : step s (.clear cmd) = some s') :
    s' = { s with table := s.table.filter (·.cmd != toUpperAscii cmd),
                  removed := s.removed ++ (s.table.filter (·.cmd == toUpperAscii cmd)).map (·.id) } := by
  simp only [step] at hs
  split at hs
  · cases hs
  · cases hs; rfl

theorem step_clearAll {s s' : DState} (hs : step s .clearAll = some s') :
    s' = { s with table := [], removed := s.removed ++ s.table.map (·.id) } := by
  simp only [step] at hs
  split at hs
  · cases hs
  · cases hs; rfl

theorem step_recv {s s' : DState} {cmd : Bytes} {echo : Bool} (hs : step s (.recv cmd echo) = some s') :
    cmd ≠ star ∧ s' = { s with queue := s.queue ++ [⟨s.nextSeq, cmd, echo⟩], events := s.events ++ [⟨s.nextSeq, cmd, echo⟩],
                                  nextSeq := s.nextSeq + 1 } := by
  simp only [step] at hs
  split at hs
  · cases hs
  · rename_i h
    cases hs
    simp only [Bool.or_eq_true, beq_iff_eq, not_or] at h
    exact ⟨h.2, rfl⟩

theorem step_take {s s' : DState} (hs : step s .take = some s') :
    ∃ ev rest, s.pc = .idle ∧ s.queue = ev :: rest ∧ s' = { s with pc := .at ev 0 [], queue := rest } := by
  simp only [step] at hs
  split at hs
  · split at hs
    · cases hs
    · cases hs; exact ⟨_, _, ‹_›, ‹_›, rfl⟩
  · cases hs

theorem step_snap {s s' : DState} (hs : step s .snap = some s') :
    ∃ ev k ph, s.pc = .at ev k [] ∧ phases[k]? = some ph ∧
      s' = { s with pending := s.pending ++ (snapshot s.table ev ph).map fun e => ({ id := e.id, seq := ev.seq, phase := k, bg := ph.bg } : Inv),
                    spawned := s.spawned ++ (snapshot s.table ev ph).map fun e => ({ id := e.id, seq := ev.seq, phase := k, bg := ph.bg } : Inv),
                    snaps := s.snaps ++ [(ev.seq, k, s.table)],
                    pc := .at ev (k + 1) (if ph.bg then [] else ((snapshot s.table ev ph).map fun e => ({ id := e.id, seq := ev.seq, phase := k, bg := ph.bg } : Inv)).map (·.id)) } := by
  simp only [step] at hs
  split at hs
  · split at hs
    · cases hs
    · split at hs
      · cases hs
      · cases hs; exact ⟨_, _, _, ‹_›, ‹_›, rfl⟩
  · cases hs

theorem step_endEvent {s s' : DState} (hs : step s .endEvent = some s') :
    ∃ ev k, s.pc = .at ev k [] ∧ 4 ≤ k ∧ s' = { s with pc := .idle, ended := s.ended ++ [ev.seq] } := by
  simp only [step] at hs
  split at hs
  · split at hs
    · cases hs
    · rename_i h
      cases hs
      simp only [Bool.or_eq_true, decide_eq_true_eq, not_or, Nat.not_lt] at h
      exact ⟨_, _, ‹_›, h.2, rfl⟩
  · cases hs

theorem step_startInv {s s' : DState} {i : Inv} (hs : step s (.startInv i) = some s') :
    s.crashed = false ∧ i ∈ s.pending ∧
      s' = { s with pending := s.pending.erase i, running := s.running ++ [i], started := s.started ++ [i] } := by
  simp only [step] at hs
  split at hs
  · cases hs
  · rename_i h
    cases hs
    simp only [Bool.or_eq_true, Bool.not_eq_true', not_or, Bool.not_eq_false, List.contains_iff_mem, Bool.not_eq_true] at h
    exact ⟨h.1, h.2, rfl⟩

def pcFinish (pc : Pc) (i : Inv) : Pc :=
  if i.bg then pc else match pc with | .at ev k w => .at ev k (w.erase i.id) | .idle => .idle

set_option linter.unusedSimpArgs false in
theorem step_finishInv {s s' : DState} {i : Inv} {r : Res} (hs : step s (.finishInv i r) = some s') :
    i ∈ s.running ∧ (r = .wantRemove → ∃ e ∈ s.registry, e.id = i.id ∧ e.tmp = true) ∧
      s' = { s with running := s.running.erase i, finished := s.finished ++ [i], pc := pcFinish s.pc i,
                    tmpWant := if r = .wantRemove then s.tmpWant ++ [i.id] else s.tmpWant,
                    crashed := if r = .panic ∧ s.recover = false then true else s.crashed } := by
  simp only [step] at hs
  split at hs
  · cases hs
  · rename_i h
    simp only [Bool.or_eq_true, Bool.not_eq_true', not_or, Bool.not_eq_false, List.contains_iff_mem, Bool.not_eq_true] at h
    split at hs
    · cases hs
    · rename_i h2
      refine ⟨h.2, ?_, ?_⟩
      · intro hr
        subst hr
        simpa using h2
      · cases r <;> cases hb : i.bg <;> cases hpc : s.pc <;> cases hrec : s.recover <;>
          simp [hb, hpc, hrec, pcFinish] at hs ⊢ <;> subst hs <;> simp [hpc, hrec]

theorem step_tmpRemove {s s' : DState} {id : Nat} (hs : step s (.tmpRemove id) = some s') :
    id ∈ s.tmpWant ∧ ((hasId s.table id = false ∧ s' = { s with tmpWant := s.tmpWant.erase id }) ∨
     (hasId s.table id = true ∧ s' = { s with tmpWant := s.tmpWant.erase id, table := eraseId s.table id, removed := s.removed ++ [id], doneClosed := s.doneClosed ++ [id] })) := by
  simp only [step] at hs
  split at hs
  · cases hs
  · rename_i h
    simp only [Bool.or_eq_true, Bool.not_eq_true', not_or, Bool.not_eq_false, List.contains_iff_mem, Bool.not_eq_true] at h
    split at hs
    · cases hs; exact ⟨h.2, .inr ⟨‹_›, rfl⟩⟩
    · rename_i h3; cases hs; exact ⟨h.2, .inl ⟨Bool.eq_false_iff.mpr h3, rfl⟩⟩

theorem step_deadline {s s' : DState} {id : Nat} (hs : step s (.deadline id) = some s') :
    (¬ (hasId s.table id && (s.table.any fun e => e.id == id && e.tmp)) = true ∧ s' = s) ∨
    (hasId s.table id = true ∧ (∃ e ∈ s.table, e.id = id ∧ e.tmp = true) ∧
      s' = { s with table := eraseId s.table id, removed := s.removed ++ [id], doneClosed := s.doneClosed ++ [id] }) := by
  simp only [step] at hs
  split at hs
  · cases hs
  · split at hs
    · rename_i h
      cases hs
      simp only [Bool.and_eq_true, List.any_eq_true, beq_iff_eq] at h
      exact .inr ⟨h.1, h.2, rfl⟩
    · cases hs; exact .inl ⟨‹_›, rfl⟩


end Girc.Proofs.Disp
