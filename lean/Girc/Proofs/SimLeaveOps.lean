import Girc.Proofs.SimLeaveCore
/-
  C04 proofs, part 4b: the three state mutators against the three reference operations.
    `St.deleteUser [] nick`      ~  `Ref.dropUser (fold nick)`
    `St.deleteUser chan nick`    ~  `Ref.dropMember (fold chan) (fold nick)`   (chan ≠ "")
    `St.deleteChannel chan`      ~  `Ref.dropChan (fold chan)`
-/
namespace Girc.Proofs.SimLeave
open Girc Girc.Model Girc.Spec Girc.Proofs.InvBase Girc.Proofs.InvDelete

/-! ### `deleteUser "" nick` -/

/-- The result of `deleteUser "" nick` on a consistent state, explicitly. -/
theorem deleteUser_nil_eq {st : St} (h : Inv st) (nick : Bytes) {user : User}
    (hu : AMap.get? st.users (fold nick) = some user) :
    ∃ cs', st.deleteUser [] nick = .ok { st with channels := cs', users := AMap.erase st.users (fold nick) } ∧
      (AMap.keys cs').Nodup ∧
      ∀ k, AMap.get? cs' k =
        (AMap.get? st.channels k).map (fun ch => { ch with users := ch.users.erase (fold nick) }) := by
  have hL := h.toInvL
  obtain ⟨cs', hrun, hnd', hget⟩ := deleteUserLoop_spec nick user.chans st.channels hL.chanKeys
    (hL.chans_nodup hu) (fun c hc => by
      obtain ⟨ch, hch, _⟩ := hL.userToChan _ _ hu c hc
      exact ⟨ch, hch⟩)
  refine ⟨cs', ?_, hnd', ?_⟩
  · unfold St.deleteUser
    rw [show st.lookupUser nick = some user from hu]
    simp only [if_pos]
    rw [hrun]; rfl
  · intro k
    rw [hget]
    cases hk : AMap.get? st.channels k with
    | none => rfl
    | some ch =>
      simp only [Option.map_some]
      congr 1
      by_cases hm : k ∈ user.chans
      · rw [if_pos hm]; rfl
      · rw [if_neg hm]
        have hnot : fold nick ∉ ch.users := fun hin => hm ((hL.mem_users_iff_mem_chans hk hu).mp hin)
        rw [List.erase_of_not_mem hnot]

theorem sim_dropUser {st : St} {r : Ref} (h : Sim st r) (nick : Bytes)
    (hk : AMap.contains r.users (fold nick) = true) :
    ∃ st', st.deleteUser [] nick = .ok st' ∧ Sim st' (r.dropUser (fold nick)) := by
  obtain ⟨user, hu⟩ := h.user_of_contains hk
  have hL := h.inv.toInvL
  obtain ⟨cs', hrun, hnd', hget⟩ := deleteUser_nil_eq h.inv nick hu
  refine ⟨_, hrun, ?_⟩
  have hinv : Inv { st with channels := cs', users := AMap.erase st.users (fold nick) } :=
    inv_with_maps st (hL.eraseUser (fold nick) hnd' hget)
  refine sim_shrink h (fun m => m.2 != fold nick) r.chans hinv rfl rfl rfl rfl rfl rfl rfl ?_
    h.chanKeysNodup (fun _ hk => hk) ?_ ?_ ?_
  · intro k
    show (AMap.get? cs' k).map chanView = _
    rw [hget, ← h.chans k]
    cases AMap.get? st.channels k <;> rfl
  · intro k n hm _
    exact (h.membersKnown k n hm).1
  · intro k ch' hk'
    have hk'' : AMap.get? cs' k = some ch' := hk'
    rw [hget] at hk''
    cases hc : AMap.get? st.channels k with
    | none => rw [hc] at hk''; cases hk''
    | some ch =>
      rw [hc] at hk''
      simp only [Option.map_some, Option.some.injEq] at hk''
      subst hk''
      refine ⟨ch, rfl, rfl, fun n => ?_⟩
      show n ∈ ch.users.erase (fold nick) ↔ _
      rw [mem_erase_of_nodup (hL.users_nodup hc)]
      simp [and_comm]
  · intro n u' hn
    have hn' : AMap.get? (AMap.erase st.users (fold nick)) n = some u' := hn
    rw [get?_erase] at hn'
    by_cases e : n = fold nick
    · rw [if_pos e] at hn'; cases hn'
    · rw [if_neg e] at hn'; exact ⟨u', hn', rfl, fun _ _ => rfl⟩

/-! ### `deleteUser chan nick` -/

theorem sim_dropMember {st : St} {r : Ref} (h : Sim st r) (chan nick : Bytes) (hne : chan ≠ [])
    (hm : (fold chan, fold nick) ∈ r.members) :
    ∃ st', st.deleteUser chan nick = .ok st' ∧ Sim st' (r.dropMember (fold chan) (fold nick)) := by
  obtain ⟨hkc, hku⟩ := h.membersKnown _ _ hm
  obtain ⟨user, hu⟩ := h.user_of_contains hku
  obtain ⟨channel, hc⟩ := h.chan_of_contains hkc
  have hL := h.inv.toInvL
  have hrun : st.deleteUser chan nick = .ok { st with
      users := (if (user.deleteChannel chan).chans.length = 0
        then AMap.erase (AMap.set st.users (fold nick) (user.deleteChannel chan)) (fold nick)
        else AMap.set st.users (fold nick) (user.deleteChannel chan)),
      channels := AMap.set st.channels (fold chan) (channel.deleteUser nick) } := by
    unfold St.deleteUser
    rw [show st.lookupUser nick = some user from hu]
    simp only [if_neg hne]
    rw [show st.lookupChannel chan = some channel from hc]
  refine ⟨_, hrun, ?_⟩
  have hinv : Inv { st with
      users := (if (user.deleteChannel chan).chans.length = 0
        then AMap.erase (AMap.set st.users (fold nick) (user.deleteChannel chan)) (fold nick)
        else AMap.set st.users (fold nick) (user.deleteChannel chan)),
      channels := AMap.set st.channels (fold chan) (channel.deleteUser nick) } :=
    inv_with_maps st (hL.removeEdge hu hc rfl rfl rfl rfl)
  refine sim_shrink h (fun m => m != (fold chan, fold nick)) r.chans hinv rfl rfl rfl rfl rfl rfl rfl ?_
    h.chanKeysNodup (fun _ hk => hk) ?_ ?_ ?_
  · intro k
    show (AMap.get? (AMap.set st.channels (fold chan) (channel.deleteUser nick)) k).map chanView = _
    rw [get?_set, ← h.chans k]
    by_cases e : k = fold chan
    · subst e; rw [if_pos rfl, hc]; rfl
    · rw [if_neg e]
  · intro k n hm' _
    exact (h.membersKnown k n hm').1
  · intro k ch' hk'
    have hk'' : AMap.get? (AMap.set st.channels (fold chan) (channel.deleteUser nick)) k = some ch' := hk'
    rw [get?_set] at hk''
    by_cases e : k = fold chan
    · subst e
      rw [if_pos rfl] at hk''
      cases hk''
      refine ⟨channel, hc, rfl, fun n => ?_⟩
      show n ∈ channel.users.erase (fold nick) ↔ _
      rw [mem_erase_of_nodup (hL.users_nodup hc)]
      simp [and_comm]
    · rw [if_neg e] at hk''
      refine ⟨ch', hk'', rfl, fun n => ?_⟩
      simp [e]
  · intro n u' hn
    have hn' : AMap.get? (if (user.deleteChannel chan).chans.length = 0
        then AMap.erase (AMap.set st.users (fold nick) (user.deleteChannel chan)) (fold nick)
        else AMap.set st.users (fold nick) (user.deleteChannel chan)) n = some u' := hn
    rw [get?_deleteChannel_step] at hn'
    by_cases e : n = fold nick
    · subst e
      rw [if_pos rfl] at hn'
      by_cases e' : (user.deleteChannel chan).chans = []
      · rw [if_pos e'] at hn'; cases hn'
      · rw [if_neg e'] at hn'
        cases hn'
        refine ⟨user, hu, rfl, fun k hkeep => ?_⟩
        have hkc' : k ≠ fold chan := by
          intro e''; subst e''; simp at hkeep
        show AMap.get? (AMap.erase user.perms (fold chan)) k = _
        rw [get?_erase_ne _ hkc']
    · rw [if_neg e] at hn'
      exact ⟨u', hn', rfl, fun _ _ => rfl⟩

/-! ### `deleteChannel chan` -/

theorem sim_dropChan {st : St} {r : Ref} (h : Sim st r) (chan : Bytes)
    (hk : AMap.contains r.chans (fold chan) = true) :
    ∃ st', st.deleteChannel chan = .ok st' ∧ Sim st' (r.dropChan (fold chan)) := by
  obtain ⟨ch, hc⟩ := h.chan_of_contains hk
  have hL := h.inv.toInvL
  obtain ⟨us', hloop, _, hget⟩ := deleteChannelLoop_spec (fold chan) ch.users st.users hL.userKeys
    (hL.users_nodup hc) (fun n hn => by
      obtain ⟨u, hu, _⟩ := hL.chanToUser _ _ hc n hn
      exact ⟨u, hu⟩)
  have hrun : st.deleteChannel chan =
      .ok { st with users := us', channels := AMap.erase st.channels (fold chan) } := by
    unfold St.deleteChannel
    simp only []
    rw [hc]
    simp only [hloop]
    rfl
  obtain ⟨st'', hrun'', hinv⟩ := deleteChannel_inv st chan h.inv
  rw [hrun] at hrun''
  cases hrun''
  refine ⟨_, hrun, ?_⟩
  refine sim_shrink h (fun m => m.1 != fold chan) (AMap.erase r.chans (fold chan)) hinv
    rfl rfl rfl rfl rfl rfl rfl ?_ (keys_erase_nodup h.chanKeysNodup _) ?_ ?_ ?_ ?_
  · intro k
    show (AMap.get? (AMap.erase st.channels (fold chan)) k).map chanView = _
    rw [get?_erase, get?_erase]
    by_cases e : k = fold chan
    · rw [if_pos e, if_pos e]; rfl
    · rw [if_neg e, if_neg e]; exact h.chans k
  · intro k hk'
    unfold AMap.contains at hk' ⊢
    rw [get?_erase] at hk'
    by_cases e : k = fold chan
    · rw [if_pos e] at hk'; cases hk'
    · rw [if_neg e] at hk'; exact hk'
  · intro k n hm hkeep
    have e : k ≠ fold chan := by simpa using hkeep
    unfold AMap.contains
    rw [get?_erase_ne _ e]
    exact (h.membersKnown k n hm).1
  · intro k ch' hk'
    have hk'' : AMap.get? (AMap.erase st.channels (fold chan)) k = some ch' := hk'
    rw [get?_erase] at hk''
    by_cases e : k = fold chan
    · rw [if_pos e] at hk''; cases hk''
    · rw [if_neg e] at hk''
      refine ⟨ch', hk'', rfl, fun n => ?_⟩
      simp [e]
  · intro x u' hx
    have hx' : AMap.get? us' x = some u' := hx
    rw [hget] at hx'
    by_cases hm : x ∈ ch.users
    · rw [if_pos hm] at hx'
      cases hu : AMap.get? st.users x with
      | none => rw [hu] at hx'; cases hx'
      | some u =>
        rw [hu] at hx'
        simp only [Option.bind_some] at hx'
        by_cases he : (u.deleteChannel (fold chan)).chans = []
        · rw [if_pos he] at hx'; cases hx'
        · rw [if_neg he] at hx'
          cases hx'
          refine ⟨u, rfl, rfl, fun k hkeep => ?_⟩
          have e : k ≠ fold chan := by simpa using hkeep
          show AMap.get? (AMap.erase u.perms (fold (fold chan))) k = _
          rw [fold_idem, get?_erase_ne _ e]
    · rw [if_neg hm] at hx'
      exact ⟨u', hx', rfl, fun _ _ => rfl⟩

end Girc.Proofs.SimLeave
