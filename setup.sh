#!/bin/sh
# Builds the framework from files on disk only (offline).
set -e
cd "$(dirname "$0")"
export GOFLAGS=-mod=mod GOPROXY=off GOSUMDB=off GOTOOLCHAIN=local CGO_ENABLED=${CGO_ENABLED:-0}
mkdir -p .bin evidence replays
(cd tools/extract && go build -o ../../.bin/extract . && ../../.bin/extract -repo /repo -out ../../lean/Girc/Gen/Facts.lean)
(cd lean && lake build Girc driver)
(cd harness && go build -tags verif -o ../.bin/corr .)
echo setup-ok
