import Girc.Proofs.TransModes
/-
  Tie (TieModes): the function bodies regenerated from the Go source on every run (Girc/Gen/Funcs.lean, written by
  tools/extract/translate.go) equal the hand-written models the property theorems of C04 and C05 are about, for ALL inputs.
  Only restatements of theorems proved in Girc/Proofs/Trans*.lean, each with a non-vacuity example that evaluates the
  generated function on a literal. An edit of the Go function changes Funcs.lean and the equivalence stops building.
-/
namespace Girc.Props.TieModes
open Girc Girc.Model Girc.Gen

/-! ### modes.go -/

theorem tie_IsValidChannelMode : ∀ s : Bytes, Fn.IsValidChannelMode s = .ok (isValidChannelMode s) :=
  Proofs.Trans.IsValidChannelMode_eq
example : Fn.IsValidChannelMode [0x62, 0x2C, 0x6B] = .ok true := by rfl
example : Fn.IsValidChannelMode [0x62, 0x31] = .ok false := by rfl

theorem tie_isValidUserPrefix : ∀ s : Bytes, Fn.isValidUserPrefix s = .ok (isValidUserPrefix s) :=
  Proofs.Trans.isValidUserPrefix_eq
example : Fn.isValidUserPrefix [0x28, 0x6F, 0x76, 0x29, 0x40, 0x2B] = .ok true := by rfl
example : Fn.isValidUserPrefix [0x28, 0x6F, 0x76, 0x29, 0x40] = .ok false := by rfl

theorem tie_parsePrefixes : ∀ s : Bytes, Fn.parsePrefixes s = .ok (parsePrefixes s) := Proofs.Trans.parsePrefixes_eq
example : Fn.parsePrefixes [0x28, 0x6F, 0x76, 0x29, 0x40, 0x2B] = .ok ([0x6F, 0x76], [0x40, 0x2B]) := by rfl

end Girc.Props.TieModes
