import Girc.Proofs.InvBase
/-
  Core of the JOIN / NAMES preservation proofs: joining a (possibly new) user to an existing
  channel, stated on the two maps in lookup form (`InvL`), plus the specifications of
  `Channel.addUser`, `User.addChannel`, `createChannel`, `createUser`.
-/
namespace Girc.Proofs.InvJoin
open Girc Girc.Model Girc.Spec Girc.Proofs.InvBase

/-! ### `Channel.addUser` / `User.addChannel` -/

theorem addUser_name (c : Channel) (x : Bytes) : (c.addUser x).name = c.name := by
  unfold Channel.addUser; split <;> rfl

theorem addUser_mem (c : Channel) (x y : Bytes) :
    y ∈ (c.addUser x).users ↔ y = fold x ∨ y ∈ c.users := by
  unfold Channel.addUser Channel.userIn
  split
  · rename_i hc
    have hm : fold x ∈ c.users := (list_contains_iff_mem _ _).mp hc
    constructor
    · exact Or.inr
    · rintro (rfl | h)
      · exact hm
      · exact h
  · exact mem_appendSort c.users (fold x) y

theorem addUser_sorted (c : Channel) (x : Bytes)
    (h : sortedStrict c.users = true ∧ folded c.users = true) :
    sortedStrict (c.addUser x).users = true ∧ folded (c.addUser x).users = true := by
  unfold Channel.addUser Channel.userIn
  split
  · exact h
  · rename_i hc
    have hm : fold x ∉ c.users := fun hm => hc ((list_contains_iff_mem _ _).mpr hm)
    exact ⟨sortedStrict_appendSort h.1 hm, folded_appendSort_fold x h.2⟩

theorem addChannel_nick (u : User) (x : Bytes) : (u.addChannel x).nick = u.nick := by
  unfold User.addChannel; split <;> rfl

theorem addChannel_mem (u : User) (x y : Bytes) :
    y ∈ (u.addChannel x).chans ↔ y = fold x ∨ y ∈ u.chans := by
  unfold User.addChannel User.inChannel
  split
  · rename_i hc
    have hm : fold x ∈ u.chans := (list_contains_iff_mem _ _).mp hc
    constructor
    · exact Or.inr
    · rintro (rfl | h)
      · exact hm
      · exact h
  · exact mem_appendSort u.chans (fold x) y

theorem addChannel_sorted (u : User) (x : Bytes)
    (h : sortedStrict u.chans = true ∧ folded u.chans = true) :
    sortedStrict (u.addChannel x).chans = true ∧ folded (u.addChannel x).chans = true := by
  unfold User.addChannel User.inChannel
  split
  · exact h
  · rename_i hc
    have hm : fold x ∉ u.chans := fun hm => hc ((list_contains_iff_mem _ _).mpr hm)
    exact ⟨sortedStrict_appendSort h.1 hm, folded_appendSort_fold x h.2⟩

/-! ### The core lemma -/

/-- Join a (possibly new) user `n` to an existing channel `k`: the final maps satisfy `InvL`.
    `u` is the user record before the join: either the stored one, or a fresh one (no stored
    user under `n`) with an empty channel list. `ch'` / `u'` are the records after the join,
    described by their name/nick and the membership + ordering of their lists. -/
theorem invL_join_core {cs : AMap Channel} {us : AMap User} (h : InvL cs us)
    {k n : Bytes} {ch ch' : Channel} {u u' : User}
    (hc : AMap.get? cs k = some ch)
    (hu : AMap.get? us n = some u ∨ (AMap.get? us n = none ∧ u.chans = []))
    (hn : n = fold u'.nick)
    (hname : ch'.name = ch.name)
    (hcm : ∀ x, x ∈ ch'.users ↔ x = n ∨ x ∈ ch.users)
    (hcs : sortedStrict ch'.users = true ∧ folded ch'.users = true)
    (hum : ∀ x, x ∈ u'.chans ↔ x = k ∨ x ∈ u.chans)
    (hus : sortedStrict u'.chans = true ∧ folded u'.chans = true) :
    InvL (AMap.set cs k ch') (AMap.set us n u') := by
  -- a stored user under `n` is `u`
  have hstored : ∀ w, AMap.get? us n = some w → w = u := by
    intro w hw
    rcases hu with hu | ⟨hu, _⟩
    · rw [hu] at hw; cases hw; rfl
    · rw [hu] at hw; cases hw
  -- if `u` lists a channel, it is the stored user
  have hlisted : ∀ j, j ∈ u.chans → AMap.get? us n = some u := by
    intro j hj
    rcases hu with hu | ⟨_, he⟩
    · exact hu
    · rw [he] at hj; cases hj
  refine {
    chanKeys := keys_set_nodup h.chanKeys k ch'
    userKeys := keys_set_nodup h.userKeys n u'
    chanKey := ?_, userKey := ?_, chanToUser := ?_, userToChan := ?_
    chanSorted := ?_, userSorted := ?_, userHasChan := ?_ }
  · -- chanKey
    intro x v hx
    rw [get?_set] at hx
    by_cases e : x = k
    · rw [if_pos e] at hx; cases hx; subst e
      rw [hname]; exact h.chanKey x ch hc
    · rw [if_neg e] at hx; exact h.chanKey x v hx
  · -- userKey
    intro x v hx
    rw [get?_set] at hx
    by_cases e : x = n
    · rw [if_pos e] at hx; cases hx; rw [e]; exact hn
    · rw [if_neg e] at hx; exact h.userKey x v hx
  · -- chanToUser
    intro x v hx m hm
    rw [get?_set] at hx
    by_cases em : m = n
    · -- the joining user
      subst em
      refine ⟨u', get?_set_self us m u', ?_⟩
      by_cases e : x = k
      · exact (hum x).mpr (Or.inl e)
      · rw [if_neg e] at hx
        obtain ⟨w, hw, hxw⟩ := h.chanToUser x v hx m hm
        have := hstored w hw; subst this
        exact (hum x).mpr (Or.inr hxw)
    · -- another user: untouched
      rw [get?_set_ne us u' em]
      by_cases e : x = k
      · rw [if_pos e] at hx; cases hx; subst e
        rcases (hcm m).mp hm with e' | hm'
        · exact absurd e' em
        · exact h.chanToUser x ch hc m hm'
      · rw [if_neg e] at hx
        exact h.chanToUser x v hx m hm
  · -- userToChan
    intro x v hx j hj
    rw [get?_set] at hx
    by_cases ej : j = k
    · -- the joined channel
      subst ej
      refine ⟨ch', get?_set_self cs j ch', ?_⟩
      by_cases e : x = n
      · exact (hcm x).mpr (Or.inl e)
      · rw [if_neg e] at hx
        obtain ⟨c, hc', hxc⟩ := h.userToChan x v hx j hj
        rw [hc] at hc'; cases hc'
        exact (hcm x).mpr (Or.inr hxc)
    · -- another channel: untouched
      rw [get?_set_ne cs ch' ej]
      by_cases e : x = n
      · rw [if_pos e] at hx; cases hx; subst e
        rcases (hum j).mp hj with e' | hj'
        · exact absurd e' ej
        · exact h.userToChan x u (hlisted j hj') j hj'
      · rw [if_neg e] at hx
        exact h.userToChan x v hx j hj
  · -- chanSorted
    intro x v hx
    rw [get?_set] at hx
    by_cases e : x = k
    · rw [if_pos e] at hx; cases hx; exact hcs
    · rw [if_neg e] at hx; exact h.chanSorted x v hx
  · -- userSorted
    intro x v hx
    rw [get?_set] at hx
    by_cases e : x = n
    · rw [if_pos e] at hx; cases hx; exact hus
    · rw [if_neg e] at hx; exact h.userSorted x v hx
  · -- userHasChan
    intro x v hx
    rw [get?_set] at hx
    by_cases e : x = n
    · rw [if_pos e] at hx; cases hx
      intro he
      have : k ∈ u'.chans := (hum k).mpr (Or.inl rfl)
      rw [he] at this; cases this
    · rw [if_neg e] at hx; exact h.userHasChan x v hx

/-- The instance used by both handlers: `ch.addUser a` with `fold a = n`, `u.addChannel b` with
    `fold b = k`, then arbitrary attribute changes of the user (same nick, same channel list). -/
theorem invL_join_add {cs : AMap Channel} {us : AMap User} (h : InvL cs us)
    {k n a b : Bytes} {ch : Channel} {u u' : User}
    (hc : AMap.get? cs k = some ch)
    (hu : AMap.get? us n = some u ∨ (AMap.get? us n = none ∧ u.chans = []))
    (hn : n = fold u.nick) (ha : fold a = n) (hb : fold b = k)
    (hnick : u'.nick = (u.addChannel b).nick) (hchans : u'.chans = (u.addChannel b).chans) :
    InvL (AMap.set cs k (ch.addUser a)) (AMap.set us n u') := by
  have husorted : sortedStrict u.chans = true ∧ folded u.chans = true := by
    rcases hu with hu | ⟨_, he⟩
    · exact h.userSorted n u hu
    · rw [he]; exact ⟨rfl, rfl⟩
  refine invL_join_core h hc hu ?_ (addUser_name ch a) ?_ (addUser_sorted ch a (h.chanSorted k ch hc)) ?_ ?_
  · rw [hnick, addChannel_nick]; exact hn
  · intro x; rw [addUser_mem, ha]
  · intro x; rw [hchans, addChannel_mem, hb]
  · rw [hchans]; exact addChannel_sorted u b husorted

/-! ### `createChannel` / `createUser` -/

/-- Adding a fresh, empty channel under its folded name. -/
theorem invL_newChannel {cs : AMap Channel} {us : AMap User} (h : InvL cs us)
    {k : Bytes} {c : Channel} (hk : AMap.get? cs k = none) (hname : k = fold c.name) (hus : c.users = []) :
    InvL (AMap.set cs k c) us := by
  refine {
    chanKeys := keys_set_nodup h.chanKeys k c
    userKeys := h.userKeys
    chanKey := ?_, userKey := h.userKey, chanToUser := ?_, userToChan := ?_
    chanSorted := ?_, userSorted := h.userSorted, userHasChan := h.userHasChan }
  · intro x v hx
    rw [get?_set] at hx
    by_cases e : x = k
    · rw [if_pos e] at hx; cases hx; rw [e]; exact hname
    · rw [if_neg e] at hx; exact h.chanKey x v hx
  · intro x v hx m hm
    rw [get?_set] at hx
    by_cases e : x = k
    · rw [if_pos e] at hx; cases hx; rw [hus] at hm; cases hm
    · rw [if_neg e] at hx; exact h.chanToUser x v hx m hm
  · intro x v hx j hj
    obtain ⟨c', hc', hxc⟩ := h.userToChan x v hx j hj
    have ej : j ≠ k := by intro e; rw [e, hk] at hc'; cases hc'
    exact ⟨c', by rw [get?_set_ne cs c ej]; exact hc', hxc⟩
  · intro x v hx
    rw [get?_set] at hx
    by_cases e : x = k
    · rw [if_pos e] at hx; cases hx; rw [hus]; exact ⟨rfl, rfl⟩
    · rw [if_neg e] at hx; exact h.chanSorted x v hx

theorem createChannel_users (st : St) (name : Bytes) : (st.createChannel name).1.users = st.users := by
  unfold St.createChannel; split <;> rfl

theorem createChannel_channels_of_none (st : St) (name : Bytes) (hn : st.lookupChannel name = none) :
    ∃ c : Channel, c.name = name ∧ c.users = [] ∧
      (st.createChannel name).1.channels = AMap.set st.channels (fold name) c := by
  unfold St.createChannel
  have : AMap.contains st.channels (fold name) = false := (contains_eq_false_iff _ _).mpr hn
  rw [this]
  exact ⟨_, rfl, rfl, rfl⟩

theorem createUser_channels (st : St) (src : Source) : (st.createUser src).1.channels = st.channels := by
  unfold St.createUser; split <;> rfl

theorem createUser_users_of_none (st : St) (src : Source) (hn : st.lookupUser src.name = none) :
    ∃ u : User, u.nick = src.name ∧ u.chans = [] ∧
      (st.createUser src).1.users = AMap.set st.users (fold src.name) u := by
  unfold St.createUser
  have : AMap.contains st.users (fold src.name) = false := (contains_eq_false_iff _ _).mpr hn
  rw [this]
  exact ⟨_, rfl, rfl, rfl⟩

theorem createUser_of_some (st : St) (src : Source) {u : User} (hs : st.lookupUser src.name = some u) :
    (st.createUser src).1 = st := by
  unfold St.createUser
  have : AMap.contains st.users (fold src.name) = true := (contains_iff_get? _ _).mpr ⟨u, hs⟩
  rw [this]; rfl

/-- Setting the same key twice keeps only the second value (as far as lookups and keys go, the
    first `set` only matters for the key's position). -/
theorem get?_set_set {β : Type} (m : AMap β) (k : Bytes) (v w : β) (x : Bytes) :
    AMap.get? (AMap.set (AMap.set m k v) k w) x = AMap.get? (AMap.set m k w) x := by
  rw [get?_set, get?_set, get?_set]
  by_cases e : x = k
  · rw [if_pos e, if_pos e]
  · rw [if_neg e, if_neg e, if_neg e]

end Girc.Proofs.InvJoin
