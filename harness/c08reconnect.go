package main

import (
	"bufio"
	"fmt"
	"net"
	"sort"
	"strings"
	"time"

	"github.com/lrstanley/girc"
)

// C08 across connections of ONE client: whatever the previous negotiation left unfinished (a REQ never answered, a NAK,
// a multi-line LS cut short, or a completed round), on the next connection the client requests only what THIS server
// advertised and reports only what THIS server acknowledged.
func init() {
	runners["capreconnect"] = func(c *Ctx, in map[string]string) {
		hin := hexIn(in)
		cl := girc.New(girc.Config{Server: "irc.example.org", Port: 6667, Nick: "me", User: "me", Name: "me", AllowFlood: true})
		rounds := strings.Split(in["rounds"], "|") // each: "<how>;<advertised caps>"
		for ri, round := range rounds {
			f := strings.SplitN(round, ";", 2)
			how, adv := f[0], f[1]
			advSet := map[string]bool{}
			for _, t := range strings.Fields(adv) {
				advSet[strings.SplitN(t, "=", 2)[0]] = true
			}
			cli, srv := net.Pipe()
			ret := make(chan error, 1)
			go func() { ret <- cl.MockConnect(cli) }()
			rd := bufio.NewReader(srv)
			write := func(l string) {
				srv.SetWriteDeadline(time.Now().Add(2 * time.Second))
				srv.Write([]byte(l + "\r\n"))
			}
			var reqs []string
			var tagged string
			acked := map[string]bool{}
			deadline := time.Now().Add(4 * time.Second)
			done := false
			for !done && time.Now().Before(deadline) {
				srv.SetReadDeadline(time.Now().Add(1500 * time.Millisecond))
				l, err := rd.ReadString('\n')
				if err != nil {
					break
				}
				l = strings.TrimRight(l, "\r\n")
				switch {
				case strings.HasPrefix(l, "CAP LS"):
					if how == "partial" {
						write(":srv CAP * LS * :" + adv) // a continuation line, and then the link drops
						time.Sleep(20 * time.Millisecond)
						done = true
					} else {
						write(":srv CAP * LS :" + adv)
					}
				case strings.HasPrefix(l, "CAP REQ :"):
					toks := strings.Fields(strings.TrimPrefix(l, "CAP REQ :"))
					reqs = append(reqs, toks...)
					switch how {
					case "drop":
						done = true
					case "nak":
						write(":srv CAP * NAK :" + strings.Join(toks, " "))
					default: // "ack"
						write(":srv CAP * ACK :" + strings.Join(toks, " "))
						for _, t := range toks {
							acked[t] = true
						}
					}
				case l == "CAP END":
					write(":srv 001 me :Welcome")
					write("PING :sync")
				case strings.HasPrefix(l, "PONG sync"):
					// registered: the application sends an event that carries client tags
					cl.Cmd.SendRaw("@+example/round=" + fmt.Sprint(ri) + " PRIVMSG #c :tagged on connection " + fmt.Sprint(ri))
					write("PING :after")
				case strings.Contains(l, "PRIVMSG #c :tagged on connection"):
					tagged = l
				case strings.HasPrefix(l, "PONG"):
					done = true
				}
			}
			if tagged != "" && strings.HasPrefix(tagged, "@") != acked["message-tags"] {
				c.R.Violation("c08.tags_on_wire_reconnect", hin, fmt.Sprintf("connection %d: %q", ri, tagged), fmt.Sprintf("message-tags acknowledged on this connection: %v", acked["message-tags"]),
					"message tags go on the wire exactly when message-tags was acknowledged on THIS connection")
			}
			// judge this round on the real client's own lines and getters
			for _, t := range reqs {
				if !advSet[t] {
					c.R.Violation("c08.req_not_advertised_reconnect", hin, fmt.Sprintf("connection %d requested %q", ri, t), adv,
						"the client requested a capability this server did not advertise (left over from the previous connection of the same client)")
				}
			}
			if how == "ack" {
				var wrong []string
				for _, k := range append(append([]string{}, builtinCapsGo...), "sasl", "sts") {
					if cl.HasCapability(k) != acked[k] {
						wrong = append(wrong, k)
					}
				}
				sort.Strings(wrong)
				if len(wrong) > 0 {
					c.R.Violation("c08.hascap_reconnect", hin, fmt.Sprintf("connection %d: HasCapability wrong for %v", ri, wrong), fmt.Sprint(acked),
						"HasCapability must report exactly the capabilities acknowledged on this connection")
				}
			}
			srv.Close()
			cl.Close()
			select {
			case <-ret:
			case <-time.After(6 * time.Second):
				c.R.Mismatch("capreconnect.no_return", hin, "Connect did not return", "")
				return
			}
		}
		c.R.Count("capreconnect/"+in["rounds"], true, "cap-reconnect")
	}
}

// C08, "message tags are put on the wire only while message-tags is enabled": the decision belongs to the moment a line is
// WRITTEN. A tagged event waits in the send queue behind a blocked write while the server deletes the capability; when the
// write side drains, the queued line must go out without its tags.
func init() {
	runners["tagsqueue"] = func(c *Ctx, in map[string]string) {
		hin := hexIn(in)
		cl := girc.New(girc.Config{Server: "irc.example.org", Port: 6667, Nick: "me", User: "me", Name: "me", AllowFlood: true})
		cli, srv := net.Pipe()
		ret := make(chan error, 1)
		go func() { ret <- cl.MockConnect(cli) }()
		rd := bufio.NewReader(srv)
		write := func(l string) {
			srv.SetWriteDeadline(time.Now().Add(2 * time.Second))
			srv.Write([]byte(l + "\r\n"))
		}
		readUntil := func(prefix string) bool {
			for {
				srv.SetReadDeadline(time.Now().Add(3 * time.Second))
				l, err := rd.ReadString('\n')
				if err != nil {
					return false
				}
				if strings.HasPrefix(l, prefix) {
					return true
				}
			}
		}
		defer func() {
			cl.Close()
			srv.Close()
			select {
			case <-ret:
			case <-time.After(5 * time.Second):
			}
		}()
		if !readUntil("CAP LS") {
			c.R.Mismatch("tagsqueue.setup", hin, "no CAP LS", "")
			return
		}
		write(":srv CAP * LS :message-tags multi-prefix")
		if !readUntil("CAP REQ") {
			c.R.Mismatch("tagsqueue.setup", hin, "no CAP REQ", "")
			return
		}
		write(":srv CAP * ACK :message-tags multi-prefix")
		if !readUntil("CAP END") {
			c.R.Mismatch("tagsqueue.setup", hin, "no CAP END", "")
			return
		}
		write(":srv 001 me :Welcome")
		write("PING :s1")
		if !readUntil("PONG") {
			c.R.Mismatch("tagsqueue.setup", hin, "no PONG", "")
			return
		}
		// the peer stops reading: the first tagged line blocks in the socket write, the second waits in the queue
		_ = cl.Cmd.SendRaw("@+a=b PRIVMSG #c :first (being written while the capability is still enabled)")
		time.Sleep(20 * time.Millisecond)
		_ = cl.Cmd.SendRaw("@+a=b PRIVMSG #c :second (queued)")
		write(":srv CAP me DEL :message-tags")
		for i := 0; i < 2000 && cl.HasCapability("message-tags"); i++ {
			time.Sleep(time.Millisecond)
		}
		if cl.HasCapability("message-tags") {
			c.R.Mismatch("tagsqueue.del_not_processed", hin, "HasCapability(message-tags) still true 2 s after CAP DEL", "")
			return
		}
		_ = cl.Cmd.SendRaw("@+a=b PRIVMSG #c :third (sent after the deletion)")
		var seen []string
		for len(seen) < 3 {
			srv.SetReadDeadline(time.Now().Add(3 * time.Second))
			l, err := rd.ReadString('\n')
			if err != nil {
				break
			}
			l = strings.TrimRight(l, "\r\n")
			if strings.Contains(l, "PRIVMSG #c") {
				seen = append(seen, l)
			}
		}
		for i, l := range seen {
			if i >= 1 && strings.HasPrefix(l, "@") {
				c.R.Violation("c08.tags_after_del_queued", hin, l, strings.TrimPrefix(l[strings.Index(l, " ")+1:], ""),
					"a line written after message-tags had been deleted (HasCapability already false) still carries tags")
			}
		}
		if len(seen) < 3 {
			c.R.Mismatch("tagsqueue.lines", hin, fmt.Sprint(seen), "three PRIVMSG lines")
		}
		c.R.Count("tagsqueue", true, "tags-queue")
	}
}

// C08 with a Config.SupportedCaps map that the application re-uses for several clients (a Config template): what one
// client's configuration adds to its supported set (sasl, sts) must not leak into the other's, and the application's map
// must come back unchanged.
func init() {
	runners["capsharedconfig"] = func(c *Ctx, in map[string]string) {
		hin := hexIn(in)
		shared := map[string][]string{"example.org/custom": nil}
		negotiate := func(cfg girc.Config, adv string) (reqs []string, ok bool) {
			cl := girc.New(cfg)
			cli, srv := net.Pipe()
			ret := make(chan error, 1)
			go func() { ret <- cl.MockConnect(cli) }()
			rd := bufio.NewReader(srv)
			defer func() {
				cl.Close()
				srv.Close()
				select {
				case <-ret:
				case <-time.After(5 * time.Second):
				}
			}()
			for {
				srv.SetReadDeadline(time.Now().Add(3 * time.Second))
				l, err := rd.ReadString('\n')
				if err != nil {
					return reqs, false
				}
				l = strings.TrimRight(l, "\r\n")
				switch {
				case strings.HasPrefix(l, "CAP LS"):
					srv.SetWriteDeadline(time.Now().Add(2 * time.Second))
					srv.Write([]byte(":srv CAP * LS :" + adv + "\r\n"))
				case strings.HasPrefix(l, "CAP REQ :"):
					return strings.Fields(strings.TrimPrefix(l, "CAP REQ :")), true
				case l == "CAP END":
					return nil, true
				}
			}
		}
		adv := "multi-prefix sasl=PLAIN sts=port=6697 example.org/custom"
		first := girc.Config{Server: "irc.example.org", Port: 6667, Nick: "a", User: "a", Name: "a", AllowFlood: true, SupportedCaps: shared,
			SASL: &girc.SASLPlain{User: "u", Pass: "p"}}
		second := girc.Config{Server: "irc.example.org", Port: 6667, Nick: "b", User: "b", Name: "b", AllowFlood: true, SupportedCaps: shared, DisableSTS: true}
		r1, ok1 := negotiate(first, adv)
		r2, ok2 := negotiate(second, adv)
		if !ok1 || !ok2 {
			c.R.Mismatch("capsharedconfig.session", hin, fmt.Sprintf("ok1=%v ok2=%v", ok1, ok2), "")
			return
		}
		sort.Strings(r1)
		sort.Strings(r2)
		for _, t := range r2 {
			if t == "sasl" || t == "sts" {
				c.R.Violation("c08.req_not_configured", hin, fmt.Sprintf("second client (no SASL, DisableSTS) requested %v (first client: %v)", r2, r1), "no sasl, no sts",
					"the client requests only capabilities it supports by default or by ITS configuration (sasl only with SASL configured, sts only with STS enabled)")
				break
			}
		}
		c.R.Count("capsharedconfig", true, "cap-shared-config")
	}
}
