package main

import (
	"fmt"
	"sort"
	"strings"
	"unicode/utf8"

	"github.com/lrstanley/girc"
)

// ---- protocol encodings of events (must match Girc/Drv/EventOps.lean) ----

func encTags(t girc.Tags) string {
	if t == nil {
		return "-"
	}
	keys := make([]string, 0, len(t))
	for k := range t {
		keys = append(keys, k)
	}
	sort.Strings(keys)
	flat := make([]string, 0, 2*len(keys))
	for _, k := range keys {
		flat = append(flat, k, t[k])
	}
	return hxList(flat)
}

func encSource(s *girc.Source) string {
	if s == nil {
		return "-"
	}
	return hxList([]string{s.Name, s.Ident, s.Host})
}

func isASCII(s string) bool {
	for i := 0; i < len(s); i++ {
		if s[i] >= 0x80 {
			return false
		}
	}
	return true
}

func showCmd(c string) string {
	if !isASCII(c) {
		return "~"
	}
	return hx(c)
}

func showEvent(e *girc.Event) string {
	if e == nil {
		return "nil"
	}
	return fmt.Sprintf("tags=%s src=%s cmd=%s params=%s", encTags(e.Tags), encSource(e.Source), showCmd(e.Command), hxList(e.Params))
}

func evArgs(e *girc.Event) []string {
	return []string{encTags(e.Tags), encSource(e.Source), hx(e.Command), hxList(e.Params)}
}

// evIn / evFromIn: events inside replayable input maps.
func evIn(e *girc.Event) map[string]string {
	in := map[string]string{"cmd": e.Command, "nparams": fmt.Sprint(len(e.Params))}
	for i, p := range e.Params {
		in[fmt.Sprintf("p%d", i)] = p
	}
	if e.Source != nil {
		in["src"] = "1"
		in["src.name"], in["src.ident"], in["src.host"] = e.Source.Name, e.Source.Ident, e.Source.Host
	}
	if e.Tags != nil {
		keys := make([]string, 0, len(e.Tags))
		for k := range e.Tags {
			keys = append(keys, k)
		}
		sort.Strings(keys)
		in["ntags"] = fmt.Sprint(len(keys))
		for i, k := range keys {
			in[fmt.Sprintf("tk%d", i)] = k
			in[fmt.Sprintf("tv%d", i)] = e.Tags[k]
		}
	}
	return in
}

func evFromIn(in map[string]string) *girc.Event {
	e := &girc.Event{Command: in["cmd"]}
	var n int
	fmt.Sscan(in["nparams"], &n)
	for i := 0; i < n; i++ {
		e.Params = append(e.Params, in[fmt.Sprintf("p%d", i)])
	}
	if in["src"] == "1" {
		e.Source = &girc.Source{Name: in["src.name"], Ident: in["src.ident"], Host: in["src.host"]}
	}
	if nt, ok := in["ntags"]; ok {
		e.Tags = girc.Tags{}
		var k int
		fmt.Sscan(nt, &k)
		for i := 0; i < k; i++ {
			e.Tags[in[fmt.Sprintf("tk%d", i)]] = in[fmt.Sprintf("tv%d", i)]
		}
	}
	return e
}

// safely runs f, mapping a panic to a small enum.
func safely(f func() string) (out string) {
	defer func() {
		if r := recover(); r != nil {
			s := fmt.Sprint(r)
			switch {
			case strings.Contains(s, "index out of range"):
				out = "panic:index"
			case strings.Contains(s, "slice bounds out of range"):
				out = "panic:slice"
			case strings.Contains(s, "nil pointer"):
				out = "panic:nil"
			default:
				out = "panic:other:" + s
			}
		}
	}()
	return f()
}

// ---- generators ----

var fieldAlpha = []string{"a", "b", "Z", "0", ":", "!", "@", ";", "=", "\\", " ", "\t", " ", "\u0085", "é", "ϗ", "\U0001F600", "#", "*", ",", "~", "+", "-", "_", "\x01", "\x7f"}

// validText: valid UTF-8 without CR/LF/NUL; withSpace controls whether SPACE may occur.
func (r *RNG) validText(maxRunes int, withSpace bool) string {
	n := r.Intn(maxRunes + 1)
	var b strings.Builder
	for i := 0; i < n; i++ {
		s := fieldAlpha[r.Intn(len(fieldAlpha))]
		if s == " " && !withSpace {
			s = "_"
		}
		b.WriteString(s)
	}
	return b.String()
}

func (r *RNG) middle() string {
	for {
		s := r.validText(6, false)
		if s != "" && s[0] != ':' {
			return s
		}
	}
}

func (r *RNG) srcPart() string {
	for {
		s := r.validText(5, false)
		s = strings.NewReplacer("!", "", "@", "").Replace(s)
		if s != "" {
			return s
		}
	}
}

func (r *RNG) command() string {
	switch r.Intn(4) {
	case 0:
		return r.Pick([]string{"PRIVMSG", "NOTICE", "JOIN", "PING", "MODE", "001", "353", "CAP", "AUTHENTICATE"})
	case 1:
		return r.From("0123456789", 3)
	default:
		return r.From("ABCDEFGHIJKLMNOPQRSTUVWXYZ", 2+r.Intn(6))
	}
}

func (r *RNG) tagKey() string {
	k := r.From("abcXYZ019-._/", 1+r.Intn(6))
	if r.Chance(20) {
		k = "+" + k
	}
	return k
}

// tagValue: what a caller passes to Tags.Set (decoded form); printable ASCII plus the escapables.
func (r *RNG) tagValue() string {
	n := r.Intn(8)
	var b strings.Builder
	for i := 0; i < n; i++ {
		b.WriteString(r.Pick([]string{"a", "B", "0", ";", " ", "\\", "\r", "\n", "=", ":", "s", "n", "r", "~", "!", "\\s", "\\:", "é", "\xe9", "\xc3", "\xe2\x82", "日"}))
	}
	return b.String()
}

// wfEvent builds an event that is well-formed by construction (C01's domain).
func (r *RNG) wfEvent() *girc.Event {
	e := &girc.Event{Command: r.command()}
	np := r.Intn(5)
	if r.Chance(5) {
		np = 5 + r.Intn(11)
	}
	for i := 0; i < np; i++ {
		if i == np-1 {
			switch r.Intn(5) {
			case 0:
				e.Params = append(e.Params, "")
			case 1:
				e.Params = append(e.Params, ":"+r.validText(6, true))
			case 2:
				e.Params = append(e.Params, r.validText(10, true))
			case 3:
				e.Params = append(e.Params, r.validText(4, true)+" :"+r.validText(4, true))
			default:
				e.Params = append(e.Params, r.middle())
			}
		} else {
			e.Params = append(e.Params, r.middle())
		}
	}
	if r.Chance(60) {
		e.Source = &girc.Source{Name: r.srcPart()}
		if r.Bool() {
			e.Source.Ident = r.srcPart()
		}
		if r.Bool() {
			e.Source.Host = r.srcPart()
		}
	}
	if r.Chance(50) {
		e.Tags = girc.Tags{}
		nt := r.Intn(4)
		for i := 0; i < nt; i++ {
			_ = e.Tags.Set(r.tagKey(), r.tagValue())
		}
	}
	return e
}

// anyEvent: arbitrary field contents including CR, LF, NUL and invalid UTF-8 (C03's domain).
func (r *RNG) anyEvent() *girc.Event {
	nasty := func() string {
		n := r.Intn(6)
		var b strings.Builder
		for i := 0; i < n; i++ {
			b.WriteString(r.Pick([]string{"a", " ", "\r", "\n", "\r\n", "\x00", ":", "\xff", "\xc3", "é", "\xe2\x82", "QUIT", " :", "@", "!", "x"}))
		}
		return b.String()
	}
	e := &girc.Event{Command: r.Pick([]string{"PRIVMSG", "NOTICE", "X", "", "A B", "JOIN\r\nQUIT"})}
	if r.Chance(20) {
		e.Command = nasty()
	}
	np := r.Intn(4)
	for i := 0; i < np; i++ {
		e.Params = append(e.Params, nasty())
	}
	if r.Chance(40) {
		e.Source = &girc.Source{Name: nasty(), Ident: nasty(), Host: nasty()}
	}
	switch r.Intn(4) {
	case 0:
		e.Tags = girc.Tags{}
	case 1:
		e.Tags = girc.Tags{}
		for i := r.Intn(3); i >= 0; i-- {
			e.Tags[r.Pick([]string{"a", "b", "k/x", "+c", nasty()})] = nasty()
		}
	}
	return e
}

func validFields(e *girc.Event) bool {
	ok := func(s string) bool { return utf8.ValidString(s) && !strings.ContainsAny(s, "\r\n") }
	if !ok(e.Command) {
		return false
	}
	for _, p := range e.Params {
		if !ok(p) {
			return false
		}
	}
	if e.Source != nil && !(ok(e.Source.Name) && ok(e.Source.Ident) && ok(e.Source.Host)) {
		return false
	}
	for k, v := range e.Tags {
		if !ok(k) || !ok(v) {
			return false
		}
	}
	return true
}
