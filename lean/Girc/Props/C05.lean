import Girc.Proofs.InvHandlers
/- C05 — no server input can crash, wedge or structurally corrupt the client. Property theorems only. -/
namespace Girc.Props.C05
open Girc Girc.Model Girc.Spec

/-- The freshly reset state is consistent. -/
theorem inv_init : Inv ({} : St) := Proofs.InvBase.inv_init

/-- One event: every Go index expression and pointer dereference in the built-in handlers is a
    checked operation of the model (`Fault`), so "returns `.ok`" is "does not panic". -/
theorem no_fault_inv (cfg : Cfg) (cs : CState) (e : Event) (time idle : Bytes) (h : Inv cs.st) :
    ∃ cs' outs, handleEvent cfg cs e time idle = .ok (cs', outs) ∧ Inv cs'.st :=
  Proofs.InvHandlers.handleEvent_inv cfg cs e time idle h

/-- Every sequence of lines a server may send, from the initial state. -/
theorem history_no_fault_inv (cfg : Cfg) (lines : List Bytes) :
    ∃ r, runLines cfg {} lines = .ok r ∧ Inv r.cs.st :=
  Proofs.InvHandlers.runLines_inv cfg {} lines inv_init

theorem ping_answered (cfg : Cfg) (cs : CState) (e : Event) (time idle : Bytes) (hp : e.command = cPING) :
    ∃ cs', handleEvent cfg cs e time idle = .ok (cs', [Out.write { command := cPONG, params := [e.last] }]) :=
  Proofs.InvHandlers.ping_answered cfg cs e time idle hp

/-- The executable invariant check used on the implementation's state dumps is the invariant. -/
theorem invB_iff (st : St) : invB st = true ↔ Inv st := Proofs.InvBase.invB_iff st

end Girc.Props.C05
