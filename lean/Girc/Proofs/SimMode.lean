import Girc.Spec.Sim
import Girc.Proofs.InvHandlers
/-
  C04 proofs, part 6: MODE / RPL_CHANNELMODEIS. The implementation parses the whole flag string
  against the channel's CHANMODES classes, applies the settings, then walks the parsed list again
  for privilege changes; the reference folds one flag at a time. `st`/`r` are the states AFTER the
  account-tag step.
-/
namespace Girc.Proofs.SimMode
open Girc Girc.Model Girc.Spec

theorem sim_MODE {st : St} {r : Ref} (cfg : Cfg) (e : Event) (h : Sim st r)
    (hcmd : e.command = cMODE ∨ e.command = c324) :
    ∃ st', handleMODE st e = .ok st' ∧ Sim st' (r.cmdStep cfg e) := by sorry

end Girc.Proofs.SimMode
