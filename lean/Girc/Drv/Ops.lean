import Girc.Drv.Proto
import Girc.Drv.EventOps
import Girc.Drv.PureOps
import Girc.Drv.RunOps
import Girc.Drv.ConcOps
import Girc.Drv.GenOps
import Girc.Drv.GenOps3
import Girc.Drv.GenOps4
import Girc.Drv.StsOps
import Girc.Model.Names
import Girc.Model.Glob
import Girc.Spec.NameSpec
import Girc.Spec.GlobSpec
namespace Girc.Drv
open Girc Girc.Model

/-- One request → one response line. `none` = malformed request (never defaulted). -/
def handleBasic (op : String) (args : List String) : Option String :=
  match op, args with
  | "ping", [] => some "pong"
  | "validnick", [a] => do let s ← arg a; pure (bl (isValidNick s))
  | "validuser", [a] => do let s ← arg a; pure (bl (isValidUser s))
  | "validchan", [a] => do let s ← arg a; pure (bl (isValidChannel s))
  | "fold", [a] => do let s ← arg a; pure (hx (fold s))
  | "glob", [a, b] => do let s ← arg a; let p ← arg b; pure (bl (glob s p))
  | "spec.validnick", [a] => do let s ← arg a; pure (bl (Spec.validNickB s))
  | "spec.validuser", [a] => do let s ← arg a; pure (bl (Spec.validUserB s))
  | "spec.validchan", [a] => do let s ← arg a; pure (bl (Spec.validChannelB s))
  | "spec.fold", [a] => do let s ← arg a; pure (hx (s.map Spec.fold1))
  | "spec.glob", [a, b] => do let s ← arg a; let p ← arg b; pure (bl (Spec.wmatch p s))
  | _, _ => none

def handle (op : String) (args : List String) : Option String :=
  (handleBasic op args) <|> (handleEvent op args) <|> (handlePure op args) <|> (handleRun op args) <|> (handleConc op args) <|> (handleGen op args) <|> (handleGen3 op args) <|> (handleGen4 op args) <|> (handleSts op args)

end Girc.Drv
