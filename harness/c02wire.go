package main

import (
	"bufio"
	"fmt"
	"net"
	"strings"
	"sync"
	"time"

	"github.com/lrstanley/girc"
)

// C02, the wire path: "every line read from the socket goes through ParseEvent". What a wildcard handler is handed must be
// exactly ParseEvent(line) for every line the server wrote — long IRCv3 lines (tags up to 8191 bytes + 512), lines ending in
// SPACE, TAB, a lone CR — and the parser must be a FUNCTION of the line (no state carried from one line to the next).
func init() {
	runners["wireparse"] = func(c *Ctx, in map[string]string) {
		hin := hexIn(in)
		var n int
		fmt.Sscan(in["n"], &n)
		var lines []string
		for i := 0; i < n; i++ {
			lines = append(lines, in[fmt.Sprintf("l%d", i)])
		}
		cl := girc.New(girc.Config{Server: "irc.example.org", Port: 6667, Nick: "me", User: "me", Name: "me", AllowFlood: true})
		cl.DisableTracking() // the lines are arbitrary; only the read path is under test
		var mu sync.Mutex
		var got []string
		cl.Handlers.Add(girc.ALL_EVENTS, func(_ *girc.Client, e girc.Event) {
			if strings.HasPrefix(e.Command, "CLIENT_") || e.Command == "PING" {
				return
			}
			mu.Lock()
			got = append(got, showEvent(&e))
			mu.Unlock()
		})
		cli, srv := net.Pipe()
		ret := make(chan error, 1)
		go func() { ret <- cl.MockConnect(cli) }()
		rd := bufio.NewReader(srv)
		pong := make(chan struct{}, 4)
		go func() {
			for {
				l, err := rd.ReadString('\n')
				if strings.HasPrefix(l, "PONG") {
					pong <- struct{}{}
				}
				if err != nil {
					return
				}
			}
		}()
		for _, l := range lines {
			srv.SetWriteDeadline(time.Now().Add(3 * time.Second))
			if _, err := srv.Write([]byte(l + "\r\n")); err != nil {
				break
			}
			if in["paced"] == "1" {
				// one line at a time: the next line is only sent when the handlers of this one have returned
				srv.SetWriteDeadline(time.Now().Add(3 * time.Second))
				srv.Write([]byte("PING :pace\r\n"))
				select {
				case <-pong:
				case <-time.After(20 * time.Second):
				}
			}
		}
		srv.SetWriteDeadline(time.Now().Add(3 * time.Second))
		srv.Write([]byte("PING :sync\r\n"))
		select {
		case <-pong:
		case <-ret:
		case <-time.After(20 * time.Second):
		}
		cl.Close()
		srv.Close()
		select {
		case <-ret:
		case <-time.After(5 * time.Second):
		}
		var want []string
		for _, l := range lines {
			e := girc.ParseEvent(l)
			if e == nil {
				break // the client disconnects with ErrParseEvent
			}
			// the reference is the proved parser (Lean `parseEvent`, equal to the grammar's meaning on grammatical lines), not a
			// second call of the implementation — which could be wrong in the same way if it keeps state between calls
			m := c.L.Call("parse", hx(l))
			want = append(want, m)
			if m != showEvent(e) {
				c.R.Mismatch("parse", map[string]string{"raw": hx(l)}, showEvent(e), m)
			}
		}
		mu.Lock()
		defer mu.Unlock()
		if strings.Join(got, "\n") != strings.Join(want, "\n") {
			i := firstDiffIdx(got, want)
			g, w := "<nothing>", "<nothing>"
			if i < len(got) {
				g = got[i]
			}
			if i < len(want) {
				w = want[i]
			}
			c.R.Violation("wire.parse", hin, fmt.Sprintf("event %d: %s", i, g), w, "what the handlers were handed differs from the parse of the line the server wrote")
		}
		c.R.Count("wireparse/"+in["paced"]+fmt.Sprint(len(lines))+in["l0"], true, "wire-parse")
	}

	// the parser is a function of the line: parsing other lines in between must not change the result
	runners["parsepair"] = func(c *Ctx, in map[string]string) {
		a, b := in["a"], in["b"]
		first := safely(func() string { return showEvent(girc.ParseEvent(b)) })
		_ = safely(func() string { return showEvent(girc.ParseEvent(a)) })
		second := safely(func() string { return showEvent(girc.ParseEvent(b)) })
		if first != second {
			c.R.Violation("parse.stateful", hexIn(in), second, first, "ParseEvent(b) changed after ParseEvent(a): the parser carries state from one line to the next")
		}
		if m := c.L.Call("parse", hx(b)); m != second {
			c.R.Mismatch("parse", map[string]string{"raw": hx(b)}, second, m)
		}
	}
}

func runC02Wire(c *Ctx) {
	long := func(n int) string { return strings.Repeat("x", n) }
	sets := [][]string{
		{":srv NOTICE * :hello", ":a!b@c PRIVMSG #c :trailing space ", ":a!b@c PRIVMSG #c :two  ", "PRIVMSG #c :tab\t", ":a!b@c PRIVMSG #c :!echo a ", ":a!b@c TOPIC #c :"},
		{"@time=2024-02-03T04:05:06.789Z;+k=" + long(4200) + " :a!b@c PRIVMSG #c :after a long tag section", ":a!b@c PRIVMSG #c :next"},
		{"@+a=" + long(4000) + ";+b=" + long(4000) + " :n!u@h PRIVMSG #chan :" + long(400), ":n!u@h NOTICE me :tail"},
		{":n!u@h PRIVMSG #c :" + long(4090), ":n!u@h PRIVMSG #c :" + long(4096), ":n!u@h PRIVMSG #c :" + long(5000) + " end", ":n!u@h PRIVMSG #c :short"},
		{":nick!user PRIVMSG #c :no host", ":nick@host PRIVMSG #c :no ident", ":server.example.org NOTICE me :plain", ":n!u@h PRIVMSG #c :full", ":nick!user QUIT", ":nick@host JOIN #c"},
		{"@account=alice;time=2024-02-03T04:05:06.789Z :a!b@c PRIVMSG #c :tagged", ":a!b@c PRIVMSG #c :untagged right after", "@+x=y :srv NOTICE me :tagged again", "PING-LIKE untagged", ":a!b@c NOTICE me :untagged"},
		{":dan!~d@h NICK Dan", ":Dan!~d@h PRIVMSG #c :same identity, other spelling", ":DAN!~D@H PRIVMSG #c :and another", ":dan!~d@h PRIVMSG #c :back"},
	}
	for _, ls := range sets {
		in := map[string]string{"n": fmt.Sprint(len(ls))}
		for i, l := range ls {
			in[fmt.Sprintf("l%d", i)] = l
		}
		c.run("wireparse", in)
		in2 := map[string]string{"paced": "1"}
		for k, v := range in {
			in2[k] = v
		}
		c.run("wireparse", in2)
		c.R.Traces += 2
	}
	// neighbouring lines whose prefixes / tags / commands differ only in letter case or in one byte
	variants := []string{":dan!~d@h", ":Dan!~d@h", ":DAN!~D@H", ":dan!~d@H", ":d[x]!u@h", ":D{X}!u@h", "@a=b :dan!~d@h", "@A=b :dan!~d@h", "@a=B :Dan!~d@h", ":srv.example.org", ":SRV.example.org"}
	for _, pa := range variants {
		for _, pb := range variants {
			c.run("parsepair", map[string]string{"a": pa + " PRIVMSG #c :one", "b": pb + " privmsg #C :two"})
			c.R.Count("parsepair/"+pa+"/"+pb, pa != pb, "parse-pair")
		}
	}
}
