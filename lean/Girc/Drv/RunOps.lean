import Girc.Drv.PureOps
import Girc.Model.Run
import Girc.Model.Sts
import Girc.Spec.RefTracker
import Girc.Spec.Sim
namespace Girc.Drv
open Girc Girc.Model

def flag (fl : Bytes) (i : Nat) : Bool := fl[i]? = some 0x31

/-- cfg = [nick, user, saslKind, saslA, saslB, supportedCaps, flags, version, runtimeVersion, collideKind, collideArg, clientName] -/
def argCfg (s : String) : Option Cfg := do
  match ← argList s with
  | [nick, user, saslKind, saslA, saslB, caps, fl, version, rtv, ck, ca, cname] =>
    let sasl : Option SaslCfg :=
      if saslKind = str "plain" then some ⟨str "PLAIN", fun _ ps => saslPlainEncode saslA saslB ps⟩
      else if saslKind = str "external" then some ⟨str "EXTERNAL", fun _ ps => saslExternalEncode saslA ps⟩
      else if saslKind = str "custom" then
        let rs := if saslB.isEmpty then [] else splitOnByte 0x00 saslB
        some ⟨str "CUSTOM", fun i _ => rs.getD i []⟩
      else none
    let sc : AMap (List Bytes) := if caps.isEmpty then [] else
      (splitOnByte 0x01 caps).map fun item => match splitOnByte 0x00 item with
        | k :: vs => (k, vs)
        | [] => ([], [])
    let nc := if ck = str "suffix" then NickCollide.suffix ca else if ck = str "empty" then .empty
      else if ck = str "fixed" then .fixed ca else .none
    pure { nick := nick, user := user, sasl := sasl, supportedCaps := sc,
           disableSTS := flag fl 0, disableSTSFallback := flag fl 1, ssl := flag fl 2, tlsActive := flag fl 3,
           stsRecentlyFailed := flag fl 4, disableTracking := flag fl 5, globalFormat := flag fl 6,
           version := version, runtimeVersion := rtv, nickCollide := nc, clientName := cname }
  | _ => none

def showEnded : Ended → String
  | .running => "running" | .closed => "closed" | .parseError => "parseerror"
  | .errEvent t => "errevent:" ++ hx t

/-- run cfg steps : steps are byte strings: 'R' line | 'D' (dump).
    Output: `W=[wire lines] D=[dump;dump] E=<ended> F=<fault|->` -/
def runSteps (cfg : Cfg) (isURL : Bytes → Bool) : List Bytes → Run → List (List Bytes) → Except Fault (Run × List (List Bytes))
  | [], r, ds => .ok (r, ds.reverse)
  | s :: rest, r, ds =>
    match s with
    | 0x52 :: line => do let r ← stepLine cfg r line isURL; runSteps cfg isURL rest r ds
    | 0x44 :: _ => runSteps cfg isURL rest r (dumpState r.cs.st :: ds)
    | 0x43 :: call =>
      match splitOnByte 0x00 call with
      | name :: args => runSteps cfg isURL rest (stepCall cfg isURL r name args) ds
      | [] => runSteps cfg isURL rest r ds
    | _ => runSteps cfg isURL rest r ds

/-- The same, also producing the WIRE form of everything written: sendLoop renders an event when it
    takes it from the queue, i.e. with the capabilities enabled after the step that wrote it (the
    harness puts a barrier after every step). -/
def runStepsWire (cfg : Cfg) (isURL : Bytes → Bool) : List Bytes → Run → List Bytes → Except Fault (Run × List Bytes)
  | [], r, w => .ok (r, w)
  | s :: rest, r, w => do
    let (r', _) ← runSteps cfg isURL [s] r []
    let fresh := (r'.written.drop r.written.length).map (wireEvent r'.cs.st)
    runStepsWire cfg isURL rest r' (w ++ fresh)

def handleRun (op : String) (args : List String) : Option String :=
  match op, args with
  | "run", [c, steps, bad] => do
    let cfg ← argCfg c
    let steps ← argList steps
    let bad ← argList bad
    match runSteps cfg (fun w => !bad.contains w) steps {} [], runStepsWire cfg (fun w => !bad.contains w) steps {} [] with
    | .ok (r, ds), .ok (_, w) =>
      pure s!"W={listHx w} D={";".intercalate (ds.map listHx)} E={showEnded r.ended} F=-"
    | .error f, _ => pure s!"W=[] D= E=fault F={showFault f}"
    | _, .error f => pure s!"W=[] D= E=fault F={showFault f}"
  | "splitmsg", [t, w, bad] => do
    let t ← arg t; let w ← w.toNat?; let bad ← argList bad
    pure (listHx (splitMessage (fun x => !bad.contains x) t w))
  | "evsplit", [tg, sr, c, p, ml, bad] => do
    let e ← argEvent tg sr c p; let ml ← ml.toInt?; let bad ← argList bad
    pure (";".intercalate ((eventSplit (fun x => !bad.contains x) e ml).map showEvent))
  | "maxlen", [c, steps] => do
    let cfg ← argCfg c
    let steps ← argList steps
    match runSteps cfg (fun _ => true) steps {} [] with
    | .ok (r, _) => pure (toString (maxEventLength cfg r.cs.st))
    | .error f => pure (showFault f)
  | "sts.onack", [tls, port, dur, advert] => do
    -- stored policy (port, duration), connection kind, advertised value "k=v,k=v" -> new policy + action
    let port ← port.toInt?; let dur ← dur.toInt?
    let adv ← arg advert
    let v : CapVal := (AMap.get? (parseCap (sSts ++ [0x3D] ++ adv)) sSts).getD none
    let v := if adv.isEmpty then none else v
    let cfg : Cfg := { nick := [], tlsActive := tls = "1" }
    let (s, act) := stsOnAck cfg { upgradePort := port, persistenceDuration := dur } v
    pure s!"{s.upgradePort} {s.persistenceDuration} {bl s.preload} {bl s.beginUpgrade} {match act with | .continue_ => "continue" | .abort => "abort" | .upgrade => "upgrade"}"
  | "sts.plan", [cp, ssl, port] => do
    let cp ← cp.toInt?; let port ← port.toInt?
    let (p, t) := planDial cp (ssl = "1") { upgradePort := port }
    pure s!"{p} {bl t}"
  | "sts.dialfail", [nofb, expired, port, dur] => do
    let port ← port.toInt?; let dur ← dur.toInt?
    let (s, e) := onDialFail (nofb = "1") (expired = "1") { upgradePort := port, persistenceDuration := dur }
    pure s!"{s.upgradePort} {s.persistenceDuration} {match e with | .plain => "plain" | .stsUpgradeFailed => "sts"}"
  | "refcmp", [c, steps] => do
    -- the implementation model and the reference tracker on the same history: do the observations agree?
    let cfg ← argCfg c
    let steps ← argList steps
    let lines := steps.filterMap fun s => match s with | 0x52 :: l => some l | _ => none
    let events := lines.filterMap parseEvent
    match runSteps cfg (fun _ => true) (lines.map (0x52 :: ·)) {} [] with
    | .ok (r, _) =>
      let o1 := Spec.observe r.cs.st
      let o2 := Spec.Ref.observe (Spec.Ref.run cfg events)
      let conf := Spec.conformantHistory cfg {} events && events.length = lines.length && events.all (fun e => e.command ≠ cERROR)
      if !conf && o1 = o2 then pure "nonconformant-agree"
      else if !conf then pure "nonconformant"
      else if o1 = o2 then
        -- also test the simulation relation used in the proofs on every prefix of the history
        let rec goSim (cs : CState) (rf : Spec.Ref) (es : List Event) (i : Nat) : String :=
          match Spec.simWhy cs.st rf with
          | some w => s!"0 sim:{w}@{i}"
          | none => match es with
            | [] => "1"
            | e :: rest => match Model.handleEvent cfg cs e [] [] with
              | .ok (cs', _) => goSim cs' (rf.step cfg e) rest (i + 1)
              | .error _ => s!"0 sim:fault@{i}"
        pure (goSim {} {} events 0)
      else
        let part := if o1.nick ≠ o2.nick then "nick" else if o1.ident ≠ o2.ident || o1.host ≠ o2.host then "identhost"
          else if o1.channels.map (·.1) ≠ o2.channels.map (·.1) then "channel-set"
          else if o1.users.map (·.1) ≠ o2.users.map (·.1) then "user-set"
          else if o1.channels ≠ o2.channels then "channels:" ++ toString (repr ((o1.channels.zip o2.channels).filter (fun p => p.1 ≠ p.2) |>.head?))
          else if o1.users ≠ o2.users then "users:" ++ toString (repr ((o1.users.zip o2.users).filter (fun p => p.1 ≠ p.2) |>.head?))
          else if o1.options ≠ o2.options then "options" else if o1.motd ≠ o2.motd then "motd" else "maxlen"
        pure ("0 " ++ (part.replace "\n" " ").replace "\t" " ")
    | .error f => pure ("fault " ++ showFault f)
  | "confwhy", [c, steps] => do
    let cfg ← argCfg c
    let steps ← argList steps
    let events := (steps.filterMap fun s => match s with | 0x52 :: l => some l | _ => none).filterMap parseEvent
    let rec go (r : Spec.Ref) (es : List Event) (i : Nat) : String :=
      match es with
      | [] => "all-conformant"
      | e :: rest => if r.conformant cfg e then go (r.step cfg e) rest (i + 1) else s!"{i} {hx (eventBytes e)}"
    pure (go {} events 0)
  | "srceq", [a, b] => do
    match ← argSource a, ← argSource b with
    | some x, some y => pure (bl (sourceEquals x y))
    | _, _ => none
  | "parsecap", [a] => do
    let s ← arg a
    let m := parseCap s
    pure (listHx ((sortedKeys m).map fun k => k ++ [0x3D] ++
      (match (AMap.get? m k).getD none with
       | none => str "nil"
       | some vm => j1 ((sortedKeys vm).map fun o => o ++ [0x3A] ++ (AMap.get? vm o).getD []))))
  | _, _ => none

end Girc.Drv
