import Girc.Proofs.InvDelete
namespace Girc.Proofs.InvRename
open Girc Girc.Model Girc.Spec

/-- NICK, including onto a nickname that is already tracked, a case-only change, and an empty or
    otherwise odd new nickname. -/
theorem renameUser_inv (st : St) (from_ to : Bytes) (h : Inv st) :
    ∃ st', st.renameUser from_ to = .ok st' ∧ Inv st' := by
  sorry

end Girc.Proofs.InvRename
