import Girc.Base.Bytes
/-
  C19 specification. `Matches input pat`: with `pat` split at '*' into literal pieces
  p₀ … pₙ, the input is p₀ ++ g₁ ++ p₁ ++ … ++ gₙ ++ pₙ for some (possibly empty) gaps gᵢ.
  (Pieces in order, non-overlapping; p₀ is a prefix, pₙ a suffix; a leading/trailing '*'
  makes p₀/pₙ empty.)
-/
namespace Girc.Spec

def star : Byte := 0x2A

/-- The literal pieces of a pattern (always at least one). -/
def pieces (pat : Bytes) : List Bytes := splitOnByte star pat

/-- `s` = p₀ ++ g₁ ++ p₁ ++ … for the given pieces. -/
def MatchesPieces : List Bytes → Bytes → Prop
  | [], _ => False
  | [p], s => s = p
  | p :: q :: ps, s => ∃ g rest, s = p ++ g ++ rest ∧ MatchesPieces (q :: ps) rest

def Matches (input pat : Bytes) : Prop := MatchesPieces (pieces pat) input

/-- Executable reference matcher (textbook wildcard semantics, by recursion on the pattern):
    a literal byte must match the next input byte, '*' matches any suffix split. -/
def anySuffix (f : Bytes → Bool) : Bytes → Bool
  | [] => f []
  | c :: cs => f (c :: cs) || anySuffix f cs

def wmatch : Bytes → Bytes → Bool
  | [], s => s.isEmpty
  | p :: ps, s =>
    if p = star then anySuffix (wmatch ps) s
    else match s with
      | [] => false
      | c :: cs => c = p && wmatch ps cs

end Girc.Spec
