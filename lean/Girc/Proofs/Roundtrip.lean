import Girc.Spec.EventSpec
import Girc.Spec.Grammar
import Girc.Proofs.Tags
import Girc.Proofs.Utf8
import Girc.Proofs.ParseRender
namespace Girc.Proofs.Roundtrip
open Girc Girc.Model Girc.Spec

theorem roundtrip_event (e : Event) (h : WFEvent e = true) :
    ∃ e', parseEvent (eventBytes e) = some e' ∧ EventEquiv e' e := by
  sorry

/-- Fields of a grammatical line are valid UTF-8 (C01's quantifier) and its tag section fits. -/
def lineClean (l : Line) : Bool :=
  validUTF8 (render l) && (match l.tags with
    | some ts => (tagsBytesFull (meaningTags ts)).length ≤ maxTagLength
    | none => true)

theorem roundtrip_line (l : Line) (h : wfLine l = true) (hc : lineClean l = true) :
    ∃ e₁ e₂, parseEvent (render l) = some e₁ ∧ parseEvent (eventBytes e₁) = some e₂ ∧ EventEquiv e₂ e₁ := by
  sorry

end Girc.Proofs.Roundtrip
