import Girc.Proofs.TransModes
import Girc.Proofs.TransModes2
/-
  Tie (TieModes): the function bodies regenerated from the Go source on every run (Girc/Gen/Funcs.lean, written by
  tools/extract/translate.go) equal the hand-written models the property theorems of C04 and C05 are about, for ALL inputs.
  Only restatements of theorems proved in Girc/Proofs/Trans*.lean, each with a non-vacuity example that evaluates the
  generated function on a literal. An edit of the Go function changes Funcs.lean and the equivalence stops building.
-/
namespace Girc.Props.TieModes
open Girc Girc.Model Girc.Gen

/-! ### modes.go -/

theorem tie_IsValidChannelMode : ∀ s : Bytes, Fn.IsValidChannelMode s = .ok (isValidChannelMode s) :=
  Proofs.Trans.IsValidChannelMode_eq
example : Fn.IsValidChannelMode [0x62, 0x2C, 0x6B] = .ok true := by rfl
example : Fn.IsValidChannelMode [0x62, 0x31] = .ok false := by rfl

theorem tie_isValidUserPrefix : ∀ s : Bytes, Fn.isValidUserPrefix s = .ok (isValidUserPrefix s) :=
  Proofs.Trans.isValidUserPrefix_eq
example : Fn.isValidUserPrefix [0x28, 0x6F, 0x76, 0x29, 0x40, 0x2B] = .ok true := by rfl
example : Fn.isValidUserPrefix [0x28, 0x6F, 0x76, 0x29, 0x40] = .ok false := by rfl

theorem tie_parsePrefixes : ∀ s : Bytes, Fn.parsePrefixes s = .ok (parsePrefixes s) := Proofs.Trans.parsePrefixes_eq
example : Fn.parsePrefixes [0x28, 0x6F, 0x76, 0x29, 0x40, 0x2B] = .ok ([0x6F, 0x76], [0x40, 0x2B]) := by rfl

/-- `(*CModes).hasArg(set, mode)` = `(hasArgs, isSetting)`. -/
theorem tie_CModes_hasArg : ∀ (c : CModes) (set : Bool) (mode : Byte),
    Fn.CModes_hasArg (some c) set mode = .ok (c.hasArg set mode) := Proofs.Trans.CModes_hasArg_eq
theorem tie_CModes_hasArg_nil : ∀ (set : Bool) (mode : Byte), Fn.CModes_hasArg none set mode = .error .nilDeref :=
  Proofs.Trans.CModes_hasArg_nil
-- CHANMODES=b,k,l,imnpst PREFIX=(ov)@+ : "+l" takes an argument when set, "-l" does not
example : Fn.CModes_hasArg (some (newCModes [0x62, 0x2C, 0x6B, 0x2C, 0x6C, 0x2C, 0x69] [0x6F, 0x76])) true 0x6C =
    .ok (true, true) := by rfl
example : Fn.CModes_hasArg (some (newCModes [0x62, 0x2C, 0x6B, 0x2C, 0x6C, 0x2C, 0x69] [0x6F, 0x76])) false 0x6C =
    .ok (false, true) := by rfl

/-- `parseUserPrefix`: what the Go code computes.  NOTE: on an input that consists of prefix symbols only (no nick)
    the named result `modes` has been accumulated and is returned next to `success = false`; the hand-written model
    `parseUserPrefix` returns `([], [], false)` there — the two agree whenever `success = true` and always on
    `(nick, success)` (the callers test `success` first). -/
theorem tie_parseUserPrefix_go : ∀ raw : Bytes,
    Fn.parseUserPrefix raw = .ok
      (if (raw.dropWhile isPrefixSym).isEmpty then (raw.takeWhile isPrefixSym, [], false)
       else (raw.takeWhile isPrefixSym, raw.dropWhile isPrefixSym, true)) := Proofs.Trans.parseUserPrefix_go
theorem tie_parseUserPrefix : ∀ raw : Bytes, (raw.dropWhile isPrefixSym).isEmpty = false →
    Fn.parseUserPrefix raw = .ok (parseUserPrefix raw) := Proofs.Trans.parseUserPrefix_agrees
theorem tie_parseUserPrefix_nick_success : ∀ raw : Bytes,
    (Fn.parseUserPrefix raw).map (fun r => (r.2.1, r.2.2)) = .ok ((parseUserPrefix raw).2.1, (parseUserPrefix raw).2.2) :=
  Proofs.Trans.parseUserPrefix_nick_success
-- "@+nick"
example : Fn.parseUserPrefix [0x40, 0x2B, 0x6E] = .ok ([0x40, 0x2B], [0x6E], true) := by rfl
-- "@+": Go returns ("@+", "", false), the model ("", "", false)
example : Fn.parseUserPrefix [0x40, 0x2B] = .ok ([0x40, 0x2B], [], false) := by rfl
example : parseUserPrefix [0x40, 0x2B] = ([], [], false) := by rfl

end Girc.Props.TieModes
