import Girc.Spec.Sim
import Girc.Proofs.InvHandlers
/-
  C04 proofs, part 3: messages that add members (JOIN, NAMES).
  In every statement `st`/`r` are the states AFTER the account-tag step.
-/
namespace Girc.Proofs.SimJoin
open Girc Girc.Model Girc.Spec

theorem sim_JOIN {st : St} {r : Ref} (cfg : Cfg) (e : Event) (h : Sim st r)
    (hc : r.conformant cfg e = true) (hcmd : e.command = cJOIN) :
    ∃ st' outs, handleJOIN cfg st e = .ok (st', outs) ∧ Sim st' (r.cmdStep cfg e) := by sorry

theorem sim_NAMES {st : St} {r : Ref} (cfg : Cfg) (e : Event) (h : Sim st r)
    (hc : r.conformant cfg e = true) (hcmd : e.command = c353) :
    ∃ st', handleNAMES st e = .ok st' ∧ Sim st' (r.cmdStep cfg e) := by sorry

end Girc.Proofs.SimJoin
