import Girc.Model.StsTime
import Girc.Proofs.ProtocolB
/- Proofs about the timed STS policy model (`Girc/Model/StsTime.lean`), property C10. -/
namespace Girc.Proofs.StsTime
open Girc Girc.Model Girc.Proofs.ProtocolB

/-! ## `since` / `expiredAt` arithmetic -/

theorem maxDuration_eq : maxDuration = 9223372036854775807 := rfl
theorem minDuration_eq : minDuration = -9223372036854775808 := rfl

theorem since_cases (now t : Int) :
    (now - t > maxDuration ∧ since now t = maxDuration) ∨ (now - t < minDuration ∧ since now t = minDuration) ∨
    (minDuration ≤ now - t ∧ now - t ≤ maxDuration ∧ since now t = now - t) := by
  unfold since
  have := maxDuration_eq; have := minDuration_eq
  by_cases h1 : now - t > maxDuration
  · simp [h1]
  · by_cases h2 : now - t < minDuration
    · simp [h1, h2]
    · simp [h1, h2]; omega

theorem since_of_range (now t : Int) (h1 : minDuration ≤ now - t) (h2 : now - t ≤ maxDuration) :
    since now t = now - t := by
  have := maxDuration_eq; have := minDuration_eq
  rcases since_cases now t with ⟨_, h⟩ | ⟨_, h⟩ | ⟨_, _, h⟩ <;> omega

theorem since_nonneg (now t : Int) (h : t ≤ now) : 0 ≤ since now t := by
  have := maxDuration_eq; have := minDuration_eq
  rcases since_cases now t with ⟨_, h⟩ | ⟨_, h⟩ | ⟨_, _, h⟩ <;> omega

theorem since_le (now t : Int) (h : t ≤ now) : since now t ≤ now - t := by
  have := maxDuration_eq; have := minDuration_eq
  rcases since_cases now t with ⟨_, h⟩ | ⟨_, h⟩ | ⟨_, _, h⟩ <;> omega

theorem since_sat (now t : Int) (h : t ≤ now) :
    since now t = if now - t ≤ maxDuration then now - t else maxDuration := by
  have := maxDuration_eq; have := minDuration_eq
  rcases since_cases now t with ⟨h1, h⟩ | ⟨h1, h⟩ | ⟨h0, h1, h⟩
  · rw [h, if_neg (by omega)]
  · omega
  · rw [h, if_pos h1]

theorem wholeSeconds_nonneg (d : Int) (h : 0 ≤ d) : wholeSeconds d = d / 1000000000 := by
  simp only [wholeSeconds, nsPerSec]
  exact Int.tdiv_eq_ediv_of_nonneg h

theorem expiredAt_iff (now : Int) (s : TSts) :
    expiredAt now s = true ↔ wholeSeconds (since now s.received) > s.persistenceDuration := by
  simp [expiredAt]

/-- For `received ≤ now` (the difference not saturated, i.e. below ≈ 292 years): the policy is expired exactly when
    the whole seconds elapsed exceed the duration. -/
theorem expired_iff (now : Int) (s : TSts) (h1 : s.received ≤ now) (h2 : now - s.received ≤ maxDuration) :
    expiredAt now s = true ↔ (now - s.received) / 1000000000 > s.persistenceDuration := by
  rw [expiredAt_iff, since_of_range now s.received (by have := minDuration_eq; omega) h2,
    wholeSeconds_nonneg _ (by omega)]

/-- The same including saturation of `time.Since`. -/
theorem expired_iff_sat (now : Int) (s : TSts) (h1 : s.received ≤ now) :
    expiredAt now s = true ↔
      (if now - s.received ≤ maxDuration then now - s.received else maxDuration) / 1000000000 > s.persistenceDuration := by
  rw [expiredAt_iff, wholeSeconds_nonneg _ (since_nonneg _ _ h1), since_sat _ _ h1]

/-- Not expired during the whole window `[received, received + (duration+1) s)` (empty unless `duration ≥ 0`). -/
theorem not_expired_within (now : Int) (s : TSts) (h1 : s.received ≤ now)
    (h2 : now < s.received + (s.persistenceDuration + 1) * 1000000000) : expiredAt now s = false := by
  have h3 := since_nonneg now s.received h1
  have h4 := since_le now s.received h1
  have : ¬ (expiredAt now s = true) := by
    rw [expiredAt_iff, wholeSeconds_nonneg _ h3]
    omega
  simpa using this

/-- Expired from `received + (duration+1) s` on (for durations the saturated clock can exceed). -/
theorem expired_from (now : Int) (s : TSts) (hd : s.persistenceDuration < 9223372036)
    (h2 : s.received + (s.persistenceDuration + 1) * 1000000000 ≤ now) (h1 : s.received ≤ now) : expiredAt now s = true := by
  rw [expired_iff_sat now s h1]
  have := maxDuration_eq
  by_cases h : now - s.received ≤ maxDuration
  · rw [if_pos h]; omega
  · rw [if_neg h]; omega

/-- A reset policy (`persistenceDuration = -1`) is expired at every instant not before `received`; in particular a
    policy whose `persistenceReceived` is still the zero time. -/
theorem reset_expired (now : Int) (s : TSts) (hd : s.persistenceDuration = -1) (h1 : s.received ≤ now) :
    expiredAt now s = true := by
  rw [expiredAt_iff, wholeSeconds_nonneg _ (since_nonneg _ _ h1), hd]
  have := since_nonneg now s.received h1
  omega

/-! ## Consistency with the untimed model -/

theorem tstep_dialFail_toSts (s : TSts) (now : Int) (dfb : Bool) :
    (tstep s (.dialFail now dfb)).1.toSts = (onDialFail dfb (expiredAt now s) s.toSts).1 := by
  simp only [tstep, tstepG, onDialFail]

theorem tstep_dialFail_error (s : TSts) (now : Int) (dfb : Bool) :
    (tstep s (.dialFail now dfb)).2.dialError = some (onDialFail dfb (expiredAt now s) s.toSts).2 := by
  simp only [tstep, tstepG, onDialFail]
  cases s.toSts.enabled <;> cases (expiredAt now s && !dfb) <;> rfl

/-- The outcome of a failed dial distinguishes "dropped" from "kept": -/
theorem tstep_dialFail_outcome (s : TSts) (now : Int) (dfb : Bool) :
    (tstep s (.dialFail now dfb)).2 =
      if s.enabled then (if expiredAt now s && !dfb then .stsFallback else .stsUpgradeFailed) else .plainError := rfl

theorem tstep_dialFail_clock (s : TSts) (now : Int) (dfb : Bool) :
    (tstep s (.dialFail now dfb)).1.received = s.received ∧
    (tstep s (.dialFail now dfb)).1.lastFailed = if expiredAt now s && !dfb then some now else s.lastFailed := ⟨rfl, rfl⟩

theorem tstep_cleanEnd_toSts (s : TSts) (now : Int) :
    (tstep s (.cleanEnd now)).1.toSts = (afterCleanEnd s.toSts).1 ∧
    ((tstep s (.cleanEnd now)).2 = .upgradeRedial ↔ (afterCleanEnd s.toSts).2 = true) := by
  simp only [tstep, tstepG, afterCleanEnd]
  cases hb : s.beginUpgrade <;> cases he : s.toSts.enabled <;> simp

/-- The re-basing itself: what `afterCleanEnd` does not show. -/
theorem tstep_cleanEnd_received (s : TSts) (now : Int) :
    (tstep s (.cleanEnd now)).1.received = if !s.beginUpgrade && s.enabled then now else s.received := by
  simp only [tstep, tstepG]
  cases hb : s.beginUpgrade <;> cases he : s.toSts.enabled <;> simp

theorem tstepNoRebase_cleanEnd_received (s : TSts) (now : Int) :
    (tstepNoRebase s (.cleanEnd now)).1.received = s.received := by
  simp only [tstepNoRebase, tstepG]
  cases hb : s.beginUpgrade <;> simp

/-- The two step functions differ on `cleanEnd` only. -/
theorem tstepNoRebase_eq (s : TSts) (e : TEv) (h : ∀ now, e ≠ .cleanEnd now) : tstepNoRebase s e = tstep s e := by
  cases e with
  | cleanEnd now => exact absurd rfl (h now)
  | ackTls now d => cases d <;> rfl
  | ackPlain now p => cases p <;> rfl
  | errorEnd now => rfl
  | dialFail now dfb => rfl

theorem tstep_errorEnd (s : TSts) (now : Int) : tstep s (.errorEnd now) = (s, .nothing) := rfl

theorem usablePort_usable (v : CapVal) (p : Int) (h : usablePort v = some p) : portUsable p = true := by
  unfold usablePort at h
  split at h
  · split at h
    · split at h
      · cases h
      · rename_i n _ hn
        injection h with h; subst h
        simpa [portUsable] using hn
    · cases h
  · cases h

/-- handleCAP's STS block on a plaintext connection is `ackPlain` with the parsed port. -/
theorem tstep_ackPlain_stsOnAck (cfg : Cfg) (s : TSts) (v : CapVal) (now : Int) (htls : cfg.tlsActive = false) :
    (stsOnAck cfg s.toSts v).1 = (tstep s (.ackPlain now (usablePort v))).1.toSts ∧
    ((stsOnAck cfg s.toSts v).2 = .upgrade ↔ (tstep s (.ackPlain now (usablePort v))).2 = .upgradeInit) ∧
    ((stsOnAck cfg s.toSts v).2 = .abort ↔ (tstep s (.ackPlain now (usablePort v))).2 = .abort) := by
  cases hp : usablePort v with
  | none =>
    rw [invalid_policy_not_retained cfg s.toSts v htls hp]
    simp [tstep, tstepG]
  | some p =>
    rw [(upgrade_decision cfg s.toSts v p htls hp).1]
    simp [tstep, tstepG, usablePort_usable v p hp]

/-- handleCAP's STS block on a TLS connection is `ackTls` with the parsed duration (the preload key aside). -/
theorem tstep_ackTls_stsOnAck (cfg : Cfg) (s : TSts) (v : CapVal) (now : Int) (htls : cfg.tlsActive = true) :
    let r := stsOnAck cfg s.toSts v
    let t := tstep s (.ackTls now ((capValGet v sDuration).map fun d => (atoi d).getD 0))
    r.1.upgradePort = t.1.upgradePort ∧ r.1.persistenceDuration = t.1.persistenceDuration ∧
    r.1.beginUpgrade = t.1.beginUpgrade ∧ (r.2 = .abort ↔ t.2 = .abort) ∧ (r.2 = .continue_ ↔ t.2 = .nothing) := by
  unfold stsOnAck
  simp only [htls]
  cases capValGet v sPreload <;> cases capValGet v sDuration <;> simp [tstep, tstepG]

/-! ## Theorems -/

/-- After a clean disconnection at `t`, an enabled policy with duration `d ≥ 0` survives every failed dial during
    `[t, t + (d+1) s)`, whatever `received` was before (however long the connection had lasted). -/
theorem rebase_keeps_policy (s : TSts) (t now : Int) (dfb : Bool) (he : s.enabled = true) (hb : s.beginUpgrade = false)
    (h1 : t ≤ now) (h2 : now < t + (s.persistenceDuration + 1) * 1000000000) :
    (tstep s (.cleanEnd t)).1 = { s with received := t } ∧
    tstep (tstep s (.cleanEnd t)).1 (.dialFail now dfb) = ((tstep s (.cleanEnd t)).1, .stsUpgradeFailed) := by
  have he' : s.toSts.enabled = true := he
  have hs : (tstep s (.cleanEnd t)).1 = { s with received := t } := by
    simp [tstep, tstepG, hb, he']
  refine ⟨hs, ?_⟩
  rw [hs]
  have hx : expiredAt now { s with received := t } = false :=
    not_expired_within now { s with received := t } h1 h2
  have he2 : ({ s with received := t } : TSts).toSts.enabled = true := he
  simp [tstep, tstepG, hx, he2]

/-- One step under the hypothesis of `never_downgraded`. -/
theorem step_kept (s : TSts) (e : TEv) (es : List TEv) (he : s.enabled = true) (hb : s.beginUpgrade = false)
    (hok : lifetimeOk s.received s.persistenceDuration (e :: es) = true) :
    (tstep s e).1.enabled = true ∧ (tstep s e).1.upgradePort = s.upgradePort ∧ (tstep s e).1.beginUpgrade = false ∧
    lifetimeOk (tstep s e).1.received (tstep s e).1.persistenceDuration es = true ∧
    ((tstep s e).2 = .nothing ∨ (tstep s e).2 = .abort ∨ (tstep s e).2 = .stsUpgradeFailed) ∧
    (∀ now fb, e = .dialFail now fb → (tstep s e).2 = .stsUpgradeFailed) := by
  have he' : s.toSts.enabled = true := he
  cases e with
  | ackTls now d =>
    cases d with
    | none => exact ⟨he, rfl, hb, by simpa [lifetimeOk, tstep, tstepG] using hok, by simp [tstep, tstepG], by simp⟩
    | some d => exact ⟨he, rfl, hb, by simpa [lifetimeOk, tstep, tstepG] using hok, by simp [tstep, tstepG], by simp⟩
  | ackPlain now p => simp [lifetimeOk] at hok
  | cleanEnd now =>
    have hs : (tstep s (.cleanEnd now)) = ({ s with received := now }, .nothing) := by
      simp [tstep, tstepG, hb, he']
    rw [hs]
    exact ⟨he, rfl, hb, by simpa [lifetimeOk] using hok, by simp, by simp⟩
  | errorEnd now => exact ⟨he, rfl, hb, by simpa [lifetimeOk, tstep, tstepG] using hok, by simp [tstep, tstepG], by simp⟩
  | dialFail now dfb =>
    simp only [lifetimeOk, Bool.and_eq_true] at hok
    have hdrop : (expiredAt now s && !dfb) = false := by
      have h := hok.1
      cases hd : dfb
      · rw [hd] at h
        simp only [Bool.false_or] at h
        simp only [expiredAt]
        simpa using h
      · simp
    have hs : tstep s (.dialFail now dfb) = (s, .stsUpgradeFailed) := by
      simp [tstep, tstepG, hdrop, he']
    rw [hs]
    exact ⟨he, rfl, hb, hok.2, by simp, by simp⟩

theorem planDial_enabled (cp : Int) (ssl : Bool) (s : TSts) (h : s.enabled = true) :
    planDial cp ssl s.toSts = (s.upgradePort, true) := by
  have h' : s.toSts.enabled = true := h
  simp [planDial, h']

/-- History level: an enabled policy is never downgraded along any history satisfying `lifetimeOk`. -/
theorem never_downgraded (es : List TEv) : ∀ (s : TSts), s.enabled = true → s.beginUpgrade = false →
    lifetimeOk s.received s.persistenceDuration es = true →
    ∀ x ∈ ttrace s es,
      x.2.1.enabled = true ∧ x.2.1.upgradePort = s.upgradePort ∧
      (∀ cp ssl, planDial cp ssl x.2.1.toSts = (s.upgradePort, true)) ∧
      (∀ now fb, x.1 = .dialFail now fb → x.2.2 = .stsUpgradeFailed) ∧
      (x.2.2 = .nothing ∨ x.2.2 = .abort ∨ x.2.2 = .stsUpgradeFailed) := by
  induction es with
  | nil => intro s _ _ _ x hx; simp [ttrace, ttraceG] at hx
  | cons e es ih =>
    intro s he hb hok x hx
    obtain ⟨h1, h2, h3, h4, h5, h6⟩ := step_kept s e es he hb hok
    simp only [ttrace, ttraceG, List.mem_cons] at hx
    rcases hx with rfl | hx
    · refine ⟨h1, h2, ?_, h6, h5⟩
      intro cp ssl
      have := planDial_enabled cp ssl (tstep s e).1 h1
      rw [h2] at this
      exact this
    · have := ih (tstep s e).1 h1 h3 h4 x hx
      rw [h2] at this
      exact this

/-- …and so is the final state. -/
theorem never_downgraded_final (es : List TEv) : ∀ (s : TSts), s.enabled = true → s.beginUpgrade = false →
    lifetimeOk s.received s.persistenceDuration es = true →
    (trun s es).enabled = true ∧ (trun s es).upgradePort = s.upgradePort ∧
    ∀ cp ssl, planDial cp ssl (trun s es).toSts = (s.upgradePort, true) := by
  induction es with
  | nil =>
    intro s he _ _
    exact ⟨he, rfl, fun cp ssl => planDial_enabled cp ssl s he⟩
  | cons e es ih =>
    intro s he hb hok
    obtain ⟨h1, h2, h3, h4, _, _⟩ := step_kept s e es he hb hok
    have := ih (tstep s e).1 h1 h3 h4
    rw [h2] at this
    exact this

/-- The only way an enabled policy becomes disabled in one step: a failed dial while expired with fallback allowed.
    Then `lastFailed` is set and the next dial is the configured address, TLS only if configured. -/
theorem only_expired_fallback_drops (s : TSts) (e : TEv) (he : s.enabled = true)
    (hdis : (tstep s e).1.enabled = false) :
    ∃ now, e = .dialFail now false ∧ expiredAt now s = true ∧ (tstep s e).2 = .stsFallback ∧
      (tstep s e).1.lastFailed = some now ∧ (tstep s e).1.toSts = s.toSts.reset ∧
      ∀ cp ssl, planDial cp ssl (tstep s e).1.toSts = (cp, ssl) := by
  have he' : s.toSts.enabled = true := he
  cases e with
  | ackTls now d =>
    cases d with
    | none => simp only [tstep, tstepG] at hdis; rw [he] at hdis; cases hdis
    | some d =>
      have : (tstep s (.ackTls now (some d))).1.enabled = s.enabled := rfl
      rw [this, he] at hdis; cases hdis
  | ackPlain now p =>
    cases p with
    | none => simp only [tstep, tstepG] at hdis; rw [he] at hdis; cases hdis
    | some p =>
      simp only [tstep, tstepG] at hdis
      split at hdis
      · rename_i hp
        simp [portUsable] at hp
        simp [Sts.enabled] at hdis
        omega
      · rw [he] at hdis; cases hdis
  | cleanEnd now =>
    have : (tstep s (.cleanEnd now)).1.enabled = s.enabled := by
      simp only [tstep, tstepG]
      split
      · rfl
      · split <;> rfl
    rw [this, he] at hdis; cases hdis
  | errorEnd now => simp only [tstep, tstepG] at hdis; rw [he] at hdis; cases hdis
  | dialFail now dfb =>
    cases hdrop : (expiredAt now s && !dfb) with
    | false =>
      have : (tstep s (.dialFail now dfb)).1 = s := by simp [tstep, tstepG, hdrop]
      rw [this, he] at hdis; cases hdis
    | true =>
      simp only [Bool.and_eq_true, Bool.not_eq_true'] at hdrop
      obtain ⟨hx, hf⟩ := hdrop
      subst hf
      refine ⟨now, rfl, hx, ?_, ?_, ?_, ?_⟩
      · simp [tstep, tstepG, hx, he']
      · simp [tstep, tstepG, hx]
      · simp [tstep, tstepG, hx]
      · intro cp ssl
        simp [tstep, tstepG, hx, planDial, Sts.reset, Sts.enabled]

/-- Conversely that event does drop it. -/
theorem expired_fallback_drops (s : TSts) (now : Int) (he : s.enabled = true) (hx : expiredAt now s = true) :
    (tstep s (.dialFail now false)).1.enabled = false ∧ (tstep s (.dialFail now false)).2 = .stsFallback := by
  have he' : s.toSts.enabled = true := he
  constructor
  · simp [tstep, tstepG, hx, Sts.reset, Sts.enabled]
  · simp [tstep, tstepG, hx, he']

/-- Aborted acknowledgements leave the stored policy (port, duration, clocks) exactly as it was. -/
theorem abort_not_retained (s : TSts) (now : Int) :
    tstep s (.ackPlain now none) = (s, .abort) ∧ tstep s (.ackTls now none) = (s, .abort) ∧
    ∀ p, portUsable p = false → tstep s (.ackPlain now (some p)) = (s, .abort) := by
  refine ⟨rfl, rfl, ?_⟩
  intro p hp
  simp [tstep, tstepG, hp]

/-- The first upgrade: a fresh client (reset policy) told to upgrade redials at the clean end WITHOUT re-basing; if that
    TLS dial fails and fallback is allowed the policy is dropped again (it never had a lifetime), with fallback
    disabled it is kept. -/
theorem first_upgrade_dial_fails (s : TSts) (p t0 t1 t2 : Int) (hp : portUsable p = true)
    (hd : s.persistenceDuration = -1) (h : s.received ≤ t2) :
    let s1 := (tstep s (.ackPlain t0 (some p))).1
    let s2 := (tstep s1 (.cleanEnd t1))
    s2.2 = .upgradeRedial ∧ s2.1.received = s.received ∧ (∀ cp ssl, planDial cp ssl s2.1.toSts = (p, true)) ∧
    (tstep s2.1 (.dialFail t2 false)).2 = .stsFallback ∧ (tstep s2.1 (.dialFail t2 false)).1.enabled = false ∧
    tstep s2.1 (.dialFail t2 true) = (s2.1, .stsUpgradeFailed) := by
  have hp' : 0 < p := by simp [portUsable] at hp; omega
  have hs2 : tstep (tstep s (.ackPlain t0 (some p))).1 (.cleanEnd t1) =
      ({ s with upgradePort := p, beginUpgrade := false }, .upgradeRedial) := by
    simp [tstep, tstepG, hp]
  intro s1 s2
  have hs2' : s2 = ({ s with upgradePort := p, beginUpgrade := false }, .upgradeRedial) := hs2
  rw [hs2']
  have hx : expiredAt t2 ({ s with upgradePort := p, beginUpgrade := false } : TSts) = true :=
    reset_expired t2 _ hd h
  have hen : ({ s with upgradePort := p, beginUpgrade := false } : TSts).toSts.enabled = true := by
    simp [Sts.enabled, hp']
  refine ⟨rfl, rfl, ?_, ?_, ?_, ?_⟩
  · intro cp ssl
    simp [planDial, Sts.enabled, hp']
  · simp [tstep, tstepG, hx, hen]
  · simp [tstep, tstepG, hx, Sts.reset, Sts.enabled]
  · simp [tstep, tstepG, hen]

/-! ## `lastFailed` -/

/-- `lastFailed` changes only when a failed dial resets the policy. -/
theorem lastFailed_changes_only_on_drop (s : TSts) (e : TEv) (h : (tstep s e).1.lastFailed ≠ s.lastFailed) :
    ∃ now, e = .dialFail now false ∧ expiredAt now s = true ∧ (tstep s e).1.lastFailed = some now := by
  cases e with
  | ackTls now d => cases d <;> exact absurd rfl h
  | ackPlain now p =>
    cases p with
    | none => exact absurd rfl h
    | some p =>
      simp only [tstep, tstepG] at h
      split at h <;> exact absurd rfl h
  | cleanEnd now =>
    simp only [tstep, tstepG] at h
    split at h
    · exact absurd rfl h
    · split at h <;> exact absurd rfl h
  | errorEnd now => exact absurd rfl h
  | dialFail now dfb =>
    cases hdrop : (expiredAt now s && !dfb) with
    | false =>
      have : (tstep s (.dialFail now dfb)).1 = s := by simp [tstep, tstepG, hdrop]
      rw [this] at h; exact absurd rfl h
    | true =>
      simp only [Bool.and_eq_true, Bool.not_eq_true'] at hdrop
      obtain ⟨hx, hf⟩ := hdrop
      subst hf
      exact ⟨now, rfl, hx, by simp [tstep, tstepG, hx]⟩

/-- `stsRequestedAt` is `possibleCapList`'s decision: with `Cfg.stsRecentlyFailed` read from the clock, `sts` is among the
    capabilities the client may request iff `stsRequestedAt` (or the user listed it in `SupportedCaps`). -/
theorem stsRequestedAt_possibleCaps (cfg : Cfg) (now : Int) (s : TSts)
    (h : cfg.stsRecentlyFailed = recentlyFailedAt now s) :
    AMap.contains (possibleCaps cfg) sSts = true ↔
      (sSts ∈ AMap.keys cfg.supportedCaps ∨ stsRequestedAt now cfg.disableSTS cfg.ssl cfg.disableSTSFallback s = true) := by
  rw [possible_exact]
  have h1 : sSts ∉ builtinCaps := by decide
  have h2 : sSts ≠ sSasl := by decide
  rw [h]
  simp only [stsRequestedAt]
  cases cfg.disableSTS <;> cases cfg.ssl <;> cases recentlyFailedAt now s <;> cases cfg.disableSTSFallback <;>
    simp [h1, h2]

/-- For five minutes after a drop at `t` the client does not ask for `sts` (unless fallback is disabled). -/
theorem no_sts_request_after_drop (s : TSts) (t now : Int) (hx : expiredAt t s = true)
    (h1 : t ≤ now) (h2 : now < t + 300 * 1000000000) (dsts ssl : Bool) :
    stsRequestedAt now dsts ssl false (tstep s (.dialFail t false)).1 = false ∧
    stsRequestedAt now false false true (tstep s (.dialFail t false)).1 = true := by
  have hl : (tstep s (.dialFail t false)).1.lastFailed = some t := by simp [tstep, tstepG, hx]
  have hs : since now t = now - t :=
    since_of_range now t (by have := minDuration_eq; omega) (by have := maxDuration_eq; omega)
  have hr : recentlyFailedAt now (tstep s (.dialFail t false)).1 = true := by
    simp only [recentlyFailedAt, hl, hs, nsPerSec]
    simp
    omega
  simp [stsRequestedAt, hr]

/-- This holds for a client that never had a policy too: with fallback allowed (the default) ANY failed dial of a client
    whose policy is in the reset state stamps `lastFailed`, so its next connection within five minutes negotiates no STS. -/
theorem plain_dial_failure_stamps_lastFailed (s : TSts) (now : Int) (hd : s.persistenceDuration = -1)
    (he : s.enabled = false) (h : s.received ≤ now) :
    (tstep s (.dialFail now false)).2 = .plainError ∧ (tstep s (.dialFail now false)).1.lastFailed = some now := by
  have hx := reset_expired now s hd h
  have he' : s.toSts.enabled = false := he
  simp [tstep, tstepG, hx, he']

end Girc.Proofs.StsTime
