import Girc.Proofs.TransSaslRate
/-
  Tie (TieSasl, C09): the SASL encoders of cap_sasl.go regenerated from the Go source equal the models of Model/Sasl.lean for
  ALL inputs.  `base64.StdEncoding.EncodeToString` is a TRUSTED stdlib table entry (`b64Encode`, Girc/Base/GoSem.lean; C09
  proves it loses nothing against the reference decoder).
-/
namespace Girc.Props.TieSasl
open Girc Girc.Model Girc.Gen

theorem tie_SASLPlain_Encode : ∀ (s : SASLPlain) (params : List Bytes),
    Fn.SASLPlain_Encode (some s) params = .ok (saslPlainEncode s.user s.pass params) := Proofs.Trans.SASLPlain_Encode_eq
theorem tie_SASLExternal_Encode : ∀ (s : SASLExternal) (params : List Bytes),
    Fn.SASLExternal_Encode (some s) params = .ok (saslExternalEncode s.identity params) := Proofs.Trans.SASLExternal_Encode_eq
-- user "a", pass "b", challenge "+": base64("a\0a\0b") = "YQBhAGI="
example : (Fn.SASLPlain_Encode (some { user := [0x61], pass := [0x62] }) [[0x2B]]).toOption =
    some [0x59, 0x51, 0x42, 0x68, 0x41, 0x47, 0x49, 0x3D] := by decide +kernel
example : Fn.SASLPlain_Encode (some { user := [0x61], pass := [0x62] }) [] = .ok [] := by rfl
example : Fn.SASLExternal_Encode (some { identity := [] }) [[0x2B]] = .ok [0x2B] := by rfl
example : Fn.SASLExternal_Encode (some { identity := [0x69] }) [[0x2B]] = .ok [0x69] := by rfl

/-- The AUTHENTICATE chunk loop of `handleSASL` (the TAIL of the handler, from its `for` statement on, with `auth` — the
    mechanism's answer, computed by the untranslated first part — as a parameter; calls of the sink `c.write` are collected
    in call order): exactly the `Out`s of the last branch of the model's `handleSASL`, i.e. `saslChunks auth`. -/
theorem tie_handleSASL_chunks : ∀ auth : Bytes, Fn.handleSASL_chunks auth =
    .ok ((saslChunks auth).map fun c => Out.write { command := cAUTHENTICATE, params := [c] }) :=
  Proofs.Trans.handleSASL_chunks_model

def outParams : List Out → List (List Bytes)
  | [] => []
  | .write e :: r => e.params :: outParams r
  | _ :: r => outParams r
-- 401 bytes: one chunk of 400 and one of 1; exactly 400 bytes: the chunk and the "+" acknowledgement
example : (Fn.handleSASL_chunks (List.replicate 401 0x41)).toOption.map (fun os => (outParams os).map (·.map List.length)) =
    some [[400], [1]] := by decide +kernel
example : (Fn.handleSASL_chunks (List.replicate 400 0x41)).toOption.map (fun os => (outParams os).map (·.map List.length)) =
    some [[400], [1]] := by decide +kernel
example : (Fn.handleSASL_chunks (List.replicate 400 0x41)).toOption.map (fun os => (outParams os).getLast?) =
    some (some [[0x2B]]) := by decide +kernel

end Girc.Props.TieSasl
