package main

func runC03Helpers(c *Ctx) {} // replaced once the client harness (shape 2) exists
