package main

import (
	"bytes"
	"encoding/base64"
	"fmt"
	"regexp"
	"strconv"
	"strings"
	"sync"
	"time"
	"unicode/utf8"

	"github.com/lrstanley/girc"
	"github.com/lrstanley/girc/cmdhandler"
)

func showCtcp(c *girc.CTCPEvent) string {
	if c == nil {
		return "nil"
	}
	return fmt.Sprintf("cmd=%s text=%s reply=%s src=%s", hx(c.Command), hx(c.Text), bl(c.Reply), encSource(c.Source))
}

var sevenCodes = "\x02\x1d\x0f\x03\x16\x1f\x01"

func init() {
	props["C14"] = runC14
	props["C20"] = runC20
	props["C09"] = runC09
	props["C16"] = runC16
	props["C18"] = runC18
	props["stdlib"] = runStdlib

	runners["ctcpdec"] = func(c *Ctx, in map[string]string) {
		e := evFromIn(in)
		out := safely(func() string { return showCtcp(girc.DecodeCTCP(e)) })
		if m := c.L.Call("ctcpdec", evArgs(e)...); m != out {
			c.R.Mismatch("ctcpdec", hexIn(in), out, m)
		}
		c.genCheck("ctcpdec", hexIn(in), out, evArgs(e)...)
		if strings.HasPrefix(out, "panic") {
			c.R.Violation("ctcpdec.panic", hexIn(in), out, "", "DecodeCTCP panicked")
			return
		}
		// the answer is a function of the event as it is NOW: the same Event value decoded again after its command was switched
		// between PRIVMSG and NOTICE (or its source replaced, a by-value copy taken) decodes like a fresh event with those fields
		if e.Command == "PRIVMSG" || e.Command == "NOTICE" {
			flip := map[string]string{"PRIVMSG": "NOTICE", "NOTICE": "PRIVMSG"}[e.Command]
			e.Command = flip
			e.Source = &girc.Source{Name: "someoneelse", Ident: "o", Host: "elsewhere"}
			cp := *e
			fresh := &girc.Event{Command: flip, Params: append([]string{}, e.Params...), Source: &girc.Source{Name: "someoneelse", Ident: "o", Host: "elsewhere"}}
			want := safely(func() string { return showCtcp(girc.DecodeCTCP(fresh)) })
			again := safely(func() string { return showCtcp(girc.DecodeCTCP(e)) })
			viaCopy := safely(func() string { return showCtcp(girc.DecodeCTCP(&cp)) })
			if again != want || viaCopy != want {
				c.R.Violation("c14.decode_remembers", hexIn(in), "again="+again+" copy="+viaCopy, want,
					"DecodeCTCP of an Event that was decoded before and then changed differs from DecodeCTCP of a fresh Event with the same fields (reply iff NOTICE, origin = the event's source)")
			}
		}
	}
	// encode then decode: same command and text, reply iff NOTICE
	runners["ctcprt"] = func(c *Ctx, in map[string]string) {
		cmd, text, kind := in["cmd"], in["text"], in["kind"]
		enc := girc.EncodeCTCPRaw(cmd, text)
		if m := c.L.Call("ctcpenc", hx(cmd), hx(text)); m != hx(enc) {
			c.R.Mismatch("ctcpenc", hexIn(in), hx(enc), m)
		}
		c.genCheck("ctcpenc", hexIn(in), hx(enc), hx(cmd), hx(text))
		e := &girc.Event{Command: kind, Params: []string{"#t", enc}, Source: &girc.Source{Name: "n"}}
		c.run("ctcpdec", evIn(e))
		valid := cmd != ""
		for i := 0; i < len(cmd); i++ {
			if !(cmd[i] >= 'A' && cmd[i] <= 'Z' || cmd[i] >= '0' && cmd[i] <= '9') {
				valid = false
			}
		}
		d := girc.DecodeCTCP(e)
		if valid {
			if d == nil || d.Command != cmd || d.Text != text || d.Reply != (kind == "NOTICE") {
				c.R.Violation("ctcp.roundtrip", hexIn(in), showCtcp(d), fmt.Sprintf("cmd=%s text=%s reply=%v", hx(cmd), hx(text), kind == "NOTICE"), "decode(encode(cmd,text)) differs")
			}
		} else if d != nil && cmd != "" && !strings.Contains(cmd, " ") {
			c.R.Violation("ctcp.invalidcmd", hexIn(in), showCtcp(d), "nil", "a command with a byte outside A-Z/0-9 decoded as CTCP")
		}
	}

	runners["fmt"] = func(c *Ctx, in map[string]string) {
		c.compare("fmt", in, c.twice("fmt", in, func() string { return hx(girc.Fmt(in["s"])) }), "fmt", "", hx(in["s"]))
	}
	runners["stripraw"] = func(c *Ctx, in map[string]string) {
		s := in["s"]
		out := unhx(c.twice("stripraw", in, func() string { return hx(girc.StripRaw(s)) }))
		c.compare("stripraw", in, hx(out), "stripraw", "", hx(s))
		if strings.ContainsAny(out, sevenCodes) {
			c.R.Violation("strip.clean", hexIn(in), hx(out), "", "StripRaw output contains a formatting control byte")
		}
		if !strings.ContainsAny(s, sevenCodes) && out != s {
			c.R.Violation("strip.id", hexIn(in), hx(out), hx(s), "StripRaw changed a string without control bytes")
		}
		if girc.StripRaw(out) != out {
			c.R.Violation("strip.idem", hexIn(in), hx(girc.StripRaw(out)), hx(out), "StripRaw is not idempotent")
		}
	}
	runners["trimfmt"] = func(c *Ctx, in map[string]string) {
		s := in["s"]
		out := girc.TrimFmt(s)
		m := strings.Split(c.L.Call("trimfmt", hx(s)), " ")
		// Go iterates its maps in random order; the model is evaluated for two opposite orders
		if hx(out) != m[0] && hx(out) != m[1] {
			c.R.Mismatch("trimfmt", hexIn(in), hx(out), m[0]+"|"+m[1])
		}
	}
	// items: text built from literal pieces and tokens; checks the compositional laws on the implementation
	runners["fmtitems"] = func(c *Ctx, in map[string]string) {
		var n int
		fmt.Sscan(in["n"], &n)
		var src, out, lits, trimmed strings.Builder
		okStrip := true
		prev03 := false
		for i := 0; i < n; i++ {
			kind, a, b := in[fmt.Sprintf("k%d", i)], in[fmt.Sprintf("a%d", i)], in[fmt.Sprintf("b%d", i)]
			var o string
			switch kind {
			case "lit":
				src.WriteString(a)
				trimmed.WriteString(a)
				lits.WriteString(a)
				o = a
				if strings.ContainsAny(a, sevenCodes) {
					okStrip = false
				}
			case "name":
				src.WriteString("{" + a + "}")
				o = tokenOut(strings.ToLower(a))
				if a != strings.ToLower(a) {
					trimmed.WriteString("{" + a + "}")
				}
			case "pair":
				src.WriteString("{" + a + "," + b + "}")
				trimmed.WriteString("{" + a + "," + b + "}")
				o = tokenOut(strings.ToLower(a)) + "," + tokenOut(strings.ToLower(b))[1:]
			}
			if prev03 && o != "" && (o[0] >= '0' && o[0] <= '9' || o[0] == ',') {
				okStrip = false
			}
			if o != "" {
				prev03 = kind != "lit" && o[0] == 3
			}
			out.WriteString(o)
		}
		hin := hexIn(in)
		s := src.String()
		c.run("fmt", map[string]string{"s": s})
		c.run("trimfmt", map[string]string{"s": s})
		c.run("stripraw", map[string]string{"s": girc.Fmt(s)})
		if got := girc.Fmt(s); got != out.String() {
			c.R.Violation("fmt.compositional", hin, hx(got), hx(out.String()), "Fmt(src) differs from the documented sequences; src="+q(s))
		}
		if got := girc.TrimFmt(s); got != trimmed.String() {
			c.R.Violation("trimfmt.exact", hin, hx(got), hx(trimmed.String()), "TrimFmt did not remove exactly the lower-case {name} tokens; src="+q(s))
		}
		if okStrip {
			if got := girc.StripRaw(girc.Fmt(s)); got != lits.String() {
				c.R.Violation("strip.fmt", hin, hx(got), hx(lits.String()), "StripRaw(Fmt(t)) is not the concatenation of the literal pieces; src="+q(s))
			}
		}
	}

	runners["chunks"] = func(c *Ctx, in map[string]string) {
		// model of the chunk loop vs the specification on every length (the implementation's loop is
		// exercised through a real connection in the protocol part of C09)
		auth := in["auth"]
		m := c.L.Call("chunks", hx(auth))
		c.genCheck("chunks", hexIn(in), m, hx(auth)) // (the regenerated chunk loop of handleSASL against the model's chunking)
		var parts []string
		for _, h := range strings.Split(strings.Trim(m, "[]"), ",") {
			parts = append(parts, unhx(h))
		}
		pay := parts
		if len(auth)%400 == 0 {
			if parts[len(parts)-1] != "+" {
				c.R.Mismatch("chunks.plus", hexIn(in), "", m)
			}
			pay = parts[:len(parts)-1]
		}
		if strings.Join(pay, "") != auth {
			c.R.Mismatch("chunks.concat", hexIn(in), "", m)
		}
	}
	runners["plain"] = func(c *Ctx, in map[string]string) {
		u, p := in["user"], in["pass"]
		var ps []string
		if in["params"] != "" {
			ps = strings.Split(in["params"], "\x00")
		}
		impl := (&girc.SASLPlain{User: u, Pass: p}).Encode(ps)
		if m := c.L.Call("plain", hx(u), hx(p), hxList(ps)); m != hx(impl) {
			c.R.Mismatch("plain", hexIn(in), hx(impl), m)
		}
		c.genCheck("plain", hexIn(in), hx(impl), hx(u), hx(p), hxList(ps))
		if len(ps) == 1 && ps[0] == "+" {
			want := base64.StdEncoding.EncodeToString([]byte(u + "\x00" + u + "\x00" + p))
			if impl != want {
				c.R.Violation("plain.exact", hexIn(in), hx(impl), hx(want), "PLAIN response is not base64(user NUL user NUL pass)")
			}
		} else if impl != "" {
			c.R.Violation("plain.giveup", hexIn(in), hx(impl), "", "PLAIN answered something other than the '+' invitation")
		}
		ext := (&girc.SASLExternal{Identity: u}).Encode(ps)
		if m := c.L.Call("external", hx(u), hxList(ps)); m != hx(ext) {
			c.R.Mismatch("external", hexIn(in), hx(ext), m)
		}
		c.genCheck("external", hexIn(in), hx(ext), hx(u), hxList(ps))
	}
	runners["b64"] = func(c *Ctx, in map[string]string) {
		s := in["s"]
		enc := base64.StdEncoding.EncodeToString([]byte(s))
		if m := c.L.Call("b64", hx(s)); m != hx(enc) {
			c.R.Mismatch("b64", hexIn(in), hx(enc), m)
		}
		if m := c.L.Call("b64dec", hx(enc)); m != hx(s) {
			c.R.Mismatch("b64dec", hexIn(in), hx(s), m)
		}
	}

	// rateseq: several events passed to the limiter back to back on ONE connection (no socket write in between, so
	// lastWrite lags): elapsed time must be credited once, not on every call
	runners["rateseq"] = func(c *Ctx, in map[string]string) {
		hin := hexIn(in)
		var wd, since int64
		fmt.Sscan(in["wd"], &wd)
		fmt.Sscan(in["since"], &since)
		var sizes []int
		for _, f := range strings.Split(in["sizes"], ",") {
			n, _ := strconv.Atoi(f)
			sizes = append(sizes, n)
		}
		delays, fwd := girc.VerifRateSeq(time.Duration(wd), time.Duration(since), sizes)
		m := strings.Fields(c.L.Call("rateseq", in["wd"], in["since"], in["sizes"]))
		if len(m) != len(sizes)+1 {
			fatal("rateseq: bad model answer %v", m)
		}
		mwd, _ := strconv.ParseInt(m[0], 10, 64)
		// the property on the implementation: with nothing written and no time passing, once the outstanding cost exceeds
		// 8 s every further event is held for its cost — so at most the allowance (8 s + what the idle period drained) passes
		var passed int64
		acc := wd
		nearEdge := false
		for i, n := range sizes {
			cost := int64(time.Second) + int64(n)*int64(10*time.Millisecond)
			acc += cost
			if i == 0 {
				acc -= since // the idle period is credited once, on the first call
			}
			if acc < 0 {
				acc = 0
			}
			if abs64(acc-8*int64(time.Second)) < int64(5*time.Millisecond) {
				nearEdge = true
			}
			if delays[i] == 0 {
				passed += cost
			} else if !nearEdge && int64(delays[i]) != cost {
				c.R.Violation("rate.delay_exact", hin, fmt.Sprint(int64(delays[i])), fmt.Sprintf("0 or %d", cost), "the delay is neither zero nor the event's cost (1s + 10ms/byte)")
			}
			if !nearEdge && acc > 8*int64(time.Second) && delays[i] == 0 {
				c.R.Violation("rate.burst_not_held", hin, fmt.Sprintf("event %d of %v passed undelayed; delays=%v", i, sizes, delays), fmt.Sprintf("held %d ns", cost),
					"events handed over faster than they are written: the burst allowance (8 s of cost) is used up, yet a further event was not held for its cost")
				break
			}
		}
		if !nearEdge {
			for i := range sizes {
				if md, _ := strconv.ParseInt(m[i+1], 10, 64); int64(delays[i]) != md {
					c.R.Mismatch("rateseq.delay", hin, fmt.Sprint(delays), strings.Join(m[1:], " "))
					break
				}
			}
			if abs64(int64(fwd)-mwd) > int64(5*time.Millisecond) {
				c.R.Mismatch("rateseq.writeDelay", hin, fmt.Sprint(int64(fwd)), m[0])
			}
		}
		_ = passed
	}
	runners["rate"] = func(c *Ctx, in map[string]string) {
		wd, _ := strconv.ParseInt(in["wd"], 10, 64)
		since, _ := strconv.ParseInt(in["since"], 10, 64)
		chars, _ := strconv.Atoi(in["chars"])
		d, nwd := girc.VerifRate(time.Duration(wd), time.Duration(since), chars)
		m := strings.Split(c.L.Call("rate", in["wd"], in["since"], in["chars"]), " ")
		// the regenerated body of ircConn.rate on the same call (now = since, last write at 0, nothing due)
		if g := strings.Fields(c.L.Call("gen.ircConn.rate", in["since"], "0", "0", in["wd"], in["chars"])); len(g) != 3 || g[0] != m[0] || g[1] != m[1] {
			c.R.Mismatch("translated.ircConn.rate", hexIn(in), strings.Join(m, " "), strings.Join(g, " "))
		}
		c.R.Dist["translated.ircConn.rate"]++
		mwd, _ := strconv.ParseInt(m[0], 10, 64)
		md, _ := strconv.ParseInt(m[1], 10, 64)
		// the real function reads the clock: `since` is observed with a jitter of a few microseconds
		const jitter = int64(5 * time.Millisecond)
		cost := int64(time.Second) + int64(chars)*int64(time.Second)/100
		nearThreshold := abs64(mwd-8*int64(time.Second)) <= jitter
		if abs64(int64(nwd)-mwd) > jitter {
			c.R.Mismatch("rate.writeDelay", hexIn(in), fmt.Sprint(int64(nwd)), m[0])
		}
		if int64(d) != md && !nearThreshold {
			c.R.Mismatch("rate.delay", hexIn(in), fmt.Sprint(int64(d)), m[1])
		}
		if int64(d) != 0 && int64(d) != cost {
			c.R.Violation("rate.delay_exact", hexIn(in), fmt.Sprint(int64(d)), fmt.Sprintf("0 or %d", cost), "the delay is neither zero nor the event's cost (1s + 10ms/byte)")
		}
		if int64(nwd) > 8*int64(time.Second) && int64(d) < cost {
			c.R.Violation("rate.held", hexIn(in), fmt.Sprint(int64(d)), fmt.Sprint(cost), "allowance exceeded but the event is not held for its cost")
		}
	}

	runners["cmdexec"] = cmdExecRunner
}

func abs64(x int64) int64 {
	if x < 0 {
		return -x
	}
	return x
}

var colorNum = map[string]int{"white": 0, "black": 1, "blue": 2, "navy": 2, "green": 3, "red": 4, "brown": 5, "maroon": 5, "purple": 6, "gold": 7, "olive": 7, "orange": 7, "yellow": 8, "lightgreen": 9, "lime": 9, "teal": 10, "cyan": 11, "lightblue": 12, "royal": 12, "fuchsia": 13, "lightpurple": 13, "pink": 13, "gray": 14, "grey": 14, "lightgrey": 15, "silver": 15}
var codeByte = map[string]string{"bold": "\x02", "b": "\x02", "italic": "\x1d", "i": "\x1d", "reset": "\x0f", "r": "\x0f", "clear": "\x03", "c": "\x03", "reverse": "\x16", "underline": "\x1f", "ul": "\x1f", "ctcp": "\x01"}

// tokenOut: the documented control sequence (independent table, mirrors Spec/FormatTables.lean).
func tokenOut(name string) string {
	if n, ok := colorNum[name]; ok {
		return fmt.Sprintf("\x03%02d", n)
	}
	return codeByte[name]
}

func randCase(r *RNG, s string) string {
	b := []byte(s)
	for i := range b {
		if r.Chance(30) {
			b[i] = byte(strings.ToUpper(string(b[i]))[0])
		}
	}
	return string(b)
}

func runC14(c *Ctx) {
	r := c.R
	r.Rule = "codec: EXHAUSTIVE commands over {A,Z,0,9,a,' ',\\x01} up to length 3 x text classes x PRIVMSG/NOTICE (encode->decode), " +
		"plus random PRIVMSG/NOTICE/other events with near-miss delimiters, lower-case and malformed tags, 1-3 params; " +
		"non-trivial = last param contains 0x01; distinct = distinct event"
	texts := []string{"", "x", "a b", " lead", "trail ", "\x01", "a\x01b", "é ü", "\xff"}
	alpha := "AZ09a \x01"
	cur := []string{""}
	for l := 0; l < 3; l++ {
		var next []string
		for _, w := range cur {
			for j := 0; j < len(alpha); j++ {
				cmd := w + string(alpha[j])
				next = append(next, cmd)
				for _, t := range texts {
					for _, k := range []string{"PRIVMSG", "NOTICE"} {
						c.run("ctcprt", map[string]string{"cmd": cmd, "text": t, "kind": k})
						r.Count(cmd+"\x00"+t+k, true, "codec-exhaustive")
					}
				}
			}
		}
		cur = next
	}
	r.Exhaustive = true
	pieces := []string{"\x01", "\x01", "ACTION", "PING", "ping", "VERSION", " ", "x", "1", "Ab", "\x01\x01", "é", "É", "ΡΙΝG", "ＡＢ", "٣", "Ω1"}
	// a command is made of the BYTES A-Z and 0-9: upper-case letters and digits outside ASCII (validly encoded) are not command characters
	for _, up := range []string{"É", "Α", "Ρ", "Ａ", "Ω", "Ж", "٣", "３", "𝟗", "Ǆ", "ǅ"} {
		for _, body := range []string{up + "CHO hi", "PING" + up, up, "P" + up + "NG 1", up + up} {
			for _, k := range []string{"PRIVMSG", "NOTICE"} {
				e := &girc.Event{Command: k, Params: []string{"me", "\x01" + body + "\x01"}, Source: &girc.Source{Name: "n", Ident: "u", Host: "h"}}
				c.run("ctcpdec", evIn(e))
				if d := girc.DecodeCTCP(e); d != nil {
					c.R.Violation("c14.non_ascii_command", hexIn(evIn(e)), showCtcp(d), "not CTCP", "a text whose command part contains a character outside A-Z/0-9 was decoded as CTCP")
				}
				r.Count(fmt.Sprint(evArgs(e)), true, "decode-nonascii-upper")
			}
		}
	}
	for i := 0; i < 4000*c.Scale; i++ {
		var p strings.Builder
		for k := c.Rng.Intn(5); k >= 0; k-- {
			p.WriteString(c.Rng.Pick(pieces))
		}
		e := &girc.Event{Command: c.Rng.Pick([]string{"PRIVMSG", "NOTICE", "PRIVMSG", "JOIN", "privmsg"})}
		switch c.Rng.Intn(6) {
		case 0:
			e.Params = []string{p.String()}
		case 1:
			e.Params = []string{"a", "b", p.String()}
		default:
			e.Params = []string{c.Rng.Pick([]string{"#c", "me"}), p.String()}
		}
		if c.Rng.Bool() {
			e.Source = &girc.Source{Name: "n", Ident: "u", Host: "h"}
		}
		c.run("ctcpdec", evIn(e))
		r.Count(fmt.Sprint(evArgs(e)), strings.Contains(p.String(), "\x01"), "decode-random")
		if i < 3 {
			r.Sample(map[string]string{"event": showEventReadable(e), "decoded": showCtcp(girc.DecodeCTCP(e))})
		}
	}
	runC14Replies(c)
	runC14Repeats(c)
}

func runC20(c *Ctx) {
	runC20Global(c)
	r := c.R
	// the token table is a constant of the package: it reads the same after the library has split and formatted long
	// messages (in this process) as in a fresh one; everything below runs after this
	for _, text := range []string{strings.Repeat("{b}word{b} {red}colour{c} \x01 ", 60), strings.Repeat("x", 900)} {
		long := &girc.Event{Command: "PRIVMSG", Params: []string{"#c", girc.Fmt(text)}}
		_ = girc.VerifEventSplit(long, 300)
	}
	r.Rule = "random item lists over EVERY colour and code name in random letter case, fg/bg pairs, literals with digits, commas, control bytes, " +
		"unknown {tokens} and unmatched braces (Fmt on arbitrary text must agree byte for byte with the model); arbitrary strings for the StripRaw laws " +
		"incl. all \\x03 + up to 5 bytes over {0,1,2,9,',',x} exhaustively; non-trivial = contains a brace or a control byte; distinct = distinct string"
	var names []string
	for k := range colorNum {
		names = append(names, k)
	}
	var cnames []string
	for k := range codeByte {
		cnames = append(cnames, k)
	}
	sortStrings(names)
	sortStrings(cnames)
	// Fmt must be a FUNCTION of its argument: half of the colours are first seen inside a {fg,bg} pair (as foreground or as
	// background) and only afterwards on their own, the other half the other way round (a memoised rendering shows here)
	for i, fg := range names {
		if (i+int(c.R.Seed))%2 == 0 {
			bg := names[(i*5+3)%len(names)]
			c.run("fmtitems", map[string]string{"n": "2", "k0": "pair", "a0": fg, "b0": bg, "k1": "lit", "a1": "z"})
			c.run("fmtitems", map[string]string{"n": "2", "k0": "pair", "a0": strings.ToUpper(bg), "b0": fg, "k1": "lit", "a1": "z"})
			c.run("fmtitems", map[string]string{"n": "3", "k0": "lit", "a0": "x", "k1": "name", "a1": fg, "k2": "lit", "a2": "y"})
			r.Count("pair-first:"+fg, true, "pair-before-single")
		}
	}
	// every name once, in three spellings
	for _, n := range append(append([]string{}, names...), cnames...) {
		for _, sp := range []string{n, strings.ToUpper(n), strings.Title(n)} {
			in := map[string]string{"n": "3", "k0": "lit", "a0": "x", "k1": "name", "a1": sp, "k2": "lit", "a2": "y"}
			c.run("fmtitems", in)
			r.Count("name:"+sp, true, "every-name")
		}
	}
	for _, fg := range names {
		bg := names[(len(fg)*7)%len(names)]
		in := map[string]string{"n": "2", "k0": "pair", "a0": fg, "b0": bg, "k1": "lit", "a1": "z"}
		c.run("fmtitems", in)
		r.Count("pair:"+fg+bg, true, "every-pair-fg")
	}
	lits := []string{"", "Hello ", "World", "5", ",", "1,2", "a{", "12:30", "x\x02y", "é", " ", "04", ",05", "abc def"}
	for i := 0; i < 3000*c.Scale; i++ {
		n := 1 + c.Rng.Intn(6)
		in := map[string]string{"n": fmt.Sprint(n)}
		for j := 0; j < n; j++ {
			switch c.Rng.Intn(4) {
			case 0, 1:
				l := c.Rng.Pick(lits)
				l = strings.NewReplacer("{", "", "}", "").Replace(l)
				in[fmt.Sprintf("k%d", j)], in[fmt.Sprintf("a%d", j)] = "lit", l
			case 2:
				nm := c.Rng.Pick(names)
				if c.Rng.Bool() {
					nm = c.Rng.Pick(cnames)
				}
				in[fmt.Sprintf("k%d", j)], in[fmt.Sprintf("a%d", j)] = "name", randCase(c.Rng, nm)
			default:
				in[fmt.Sprintf("k%d", j)] = "pair"
				in[fmt.Sprintf("a%d", j)], in[fmt.Sprintf("b%d", j)] = randCase(c.Rng, c.Rng.Pick(names)), randCase(c.Rng, c.Rng.Pick(names))
			}
		}
		c.run("fmtitems", in)
		r.Count(fmt.Sprint(in), true, "items-random")
		if i < 2 {
			r.Sample(in)
		}
	}
	// arbitrary text for Fmt / TrimFmt (unknown tokens, unmatched braces, nested braces)
	frag := []string{"{", "}", "{red}", "{RED,blue}", "{b}", "{foo}", "{red,}", "{,red}", "{red,blue,green}", "{r{b}ed}", "{re d}", "a", ",", "{c}5", "{1}", "{{b}}", "}{", "{b,red}", "{red,b}", "é", "{é}"}
	for i := 0; i < 4000*c.Scale; i++ {
		var b strings.Builder
		for k := c.Rng.Intn(6); k >= 0; k-- {
			b.WriteString(c.Rng.Pick(frag))
		}
		s := b.String()
		c.run("fmt", map[string]string{"s": s})
		c.run("trimfmt", map[string]string{"s": s})
		r.Count("t:"+s, strings.ContainsAny(s, "{}"), "fmt-arbitrary")
	}
	// StripRaw: exhaustive after \x03, then random
	alpha := "0129,x\x03"
	cur := []string{""}
	for l := 0; l < 5; l++ {
		var next []string
		for _, w := range cur {
			for j := 0; j < len(alpha); j++ {
				s := w + string(alpha[j])
				next = append(next, s)
				c.run("stripraw", map[string]string{"s": "a\x03" + s + "z"})
				r.Count("s:"+s, true, "strip-exhaustive")
			}
		}
		cur = next
	}
	r.Exhaustive = true
	sfrag := []string{"\x03", "\x0304", "\x031,2", "\x0399,99", "\x03,", "\x02", "\x0f", "\x1d", "\x16", "\x1f", "\x01", "1", ",", "a", "é", "\xff", "\x033", "0"}
	for i := 0; i < 4000*c.Scale; i++ {
		var b strings.Builder
		for k := c.Rng.Intn(7); k >= 0; k-- {
			b.WriteString(c.Rng.Pick(sfrag))
		}
		c.run("stripraw", map[string]string{"s": b.String()})
		r.Count("s:"+b.String(), strings.ContainsAny(b.String(), sevenCodes), "strip-random")
	}
}

func sortStrings(s []string) {
	for i := 1; i < len(s); i++ {
		for j := i; j > 0 && s[j] < s[j-1]; j-- {
			s[j], s[j-1] = s[j-1], s[j]
		}
	}
}

func runC09(c *Ctx) {
	r := c.R
	r.Rule = "pure part: chunk loop model vs specification for EVERY response length 1..1300 (thorough: 1..4100); PLAIN/EXTERNAL encoders with arbitrary-byte credentials " +
		"(lengths straddling the base64 400/800-byte boundaries) and every parameter shape; protocol part: see the session runs; non-trivial = length >= 399 or non-ASCII credential; distinct = distinct input"
	max := 1300
	if c.Tier == "thorough" {
		max = 4100
	}
	for n := 1; n <= max; n++ {
		c.run("chunks", map[string]string{"auth": strings.Repeat("A", n-1) + "Z"})
		r.Count(fmt.Sprint("len", n), n >= 399, "chunk-lengths")
	}
	r.Exhaustive = true
	for i := 0; i < 600*c.Scale; i++ {
		u := c.Rng.RawBytes(c.Rng.Intn(12))
		p := c.Rng.RawBytes(c.Rng.Intn(40))
		switch c.Rng.Intn(5) {
		case 0:
			p = c.Rng.RawBytes(280 + c.Rng.Intn(30)) // base64 around 400
		case 1:
			p = c.Rng.RawBytes(580 + c.Rng.Intn(30)) // around 800
		}
		params := c.Rng.Pick([]string{"+", "+", "+", "", "x", "+\x00+", "PLAIN"})
		c.run("plain", map[string]string{"user": u, "pass": p, "params": params})
		c.run("b64", map[string]string{"s": p})
		r.Count(u+"\x00"+p+params, len(p) > 250 || !utf8.ValidString(p), "plain")
	}
	runC09Protocol(c)
}

func runC16(c *Ctx) {
	r := c.R
	r.Rule = "arithmetic: the real ircConn.rate (hook sets writeDelay/lastWrite, reads writeDelay back) vs the model on random and boundary (writeDelay, since, size) triples, " +
		"exact away from the 8 s threshold (clock jitter tolerated within 5 ms); timing: a serial lock-step sender on a real connection (PRIVMSG/WHO/JOIN/NOTICE mixed with PING/PONG, AllowFlood on and off): every observed hold >= the model's delay (lower bound only), keep-alives and AllowFlood never held, order kept; non-trivial = writeDelay+cost within 2 s of the threshold or since > 0; distinct = distinct triple"
	sec := int64(time.Second)
	for i := 0; i < 3000*c.Scale; i++ {
		wd := int64(c.Rng.Intn(12)) * sec
		if c.Rng.Bool() {
			wd += int64(c.Rng.Intn(1000)) * int64(time.Millisecond)
		}
		since := int64(0)
		switch c.Rng.Intn(4) {
		case 0:
			since = int64(c.Rng.Intn(3000)) * int64(time.Millisecond)
		case 1:
			since = int64(c.Rng.Intn(20)) * sec
		}
		chars := c.Rng.Intn(512)
		in := map[string]string{"wd": fmt.Sprint(wd), "since": fmt.Sprint(since), "chars": fmt.Sprint(chars)}
		c.run("rate", in)
		cost := sec + int64(chars)*sec/100
		r.Count(fmt.Sprint(in), abs64(wd+cost-since-8*sec) < 2*sec || since > 0, "rate")
		if i < 3 {
			r.Sample(in)
		}
	}
	// bursts handed over faster than sendLoop writes them (lastWrite lags), after idle periods of every length
	for i := 0; i < 300*c.Scale; i++ {
		wd := int64(c.Rng.Intn(12)) * sec
		since := int64(c.Rng.Intn(12000)) * int64(time.Millisecond)
		var sizes []string
		for k := 2 + c.Rng.Intn(14); k > 0; k-- {
			sizes = append(sizes, fmt.Sprint(c.Rng.Intn(400)))
		}
		in := map[string]string{"wd": fmt.Sprint(wd), "since": fmt.Sprint(since), "sizes": strings.Join(sizes, ",")}
		c.run("rateseq", in)
		r.Count(fmt.Sprint(in), len(sizes) >= 6, "rate-burst")
	}
	runC16Timing(c)
}

// ---- C18 ----

type cmdSpec struct {
	name    string
	aliases []string
	minArgs int
	help    string
}

type logBuf struct {
	mu sync.Mutex
	b  bytes.Buffer
}

func (l *logBuf) Write(p []byte) (int, error) {
	l.mu.Lock()
	defer l.mu.Unlock()
	return l.b.Write(p)
}
func (l *logBuf) String() string {
	l.mu.Lock()
	defer l.mu.Unlock()
	return l.b.String()
}

func cmdExecRunner(c *Ctx, in map[string]string) {
	hin := hexIn(in)
	pfx := in["prefix"]
	var n int
	fmt.Sscan(in["ncmds"], &n)
	ch, err := cmdhandler.New(pfx)
	if err != nil {
		c.R.Violation("cmd.new", hin, err.Error(), "", "cmdhandler.New rejected a prefix")
		return
	}
	type inv struct {
		id   int
		args []string
		raw  string
	}
	invoked := make(chan inv, 16)
	var flat []string
	var addRes []string
	for i := 0; i < n; i++ {
		name := in[fmt.Sprintf("c%d.name", i)]
		var aliases []string
		if a := in[fmt.Sprintf("c%d.aliases", i)]; a != "" {
			aliases = strings.Split(a, "\x00")
		}
		minArgs, _ := strconv.Atoi(in[fmt.Sprintf("c%d.min", i)])
		help := in[fmt.Sprintf("c%d.help", i)]
		id := i
		flat = append(flat, name, strings.Join(aliases, "\x00"), fmt.Sprint(minArgs), map[bool]string{true: "1", false: "0"}[help != ""])
		err := ch.Add(&cmdhandler.Command{Name: name, Aliases: append([]string{}, aliases...), MinArgs: minArgs, Help: help,
			Fn: func(cl *girc.Client, input *cmdhandler.Input) {
				invoked <- inv{id, input.Args, input.RawArgs}
			}})
		switch {
		case err == nil:
			addRes = append(addRes, "ok")
		case strings.Contains(err.Error(), "invalid command name"):
			addRes = append(addRes, "invalid")
		case strings.Contains(err.Error(), "command already registered"):
			addRes = append(addRes, "dupname")
		case strings.Contains(err.Error(), "alias already registered"):
			addRes = append(addRes, "dupalias")
		default:
			addRes = append(addRes, "err:"+err.Error())
		}
	}
	// "registering an invalid or duplicate name is rejected": an Add that returned nil must not have named anything an
	// earlier successfully registered command already answers to
	taken := map[string]int{}
	for i := 0; i < n; i++ {
		if addRes[i] != "ok" {
			continue
		}
		names := []string{strings.ToLower(in[fmt.Sprintf("c%d.name", i)])}
		if a := in[fmt.Sprintf("c%d.aliases", i)]; a != "" {
			for _, al := range strings.Split(a, "\x00") {
				names = append(names, strings.ToLower(al))
			}
		}
		for _, nm := range names {
			if j, ok := taken[nm]; ok && j != i {
				c.R.Violation("cmd.duplicate_accepted", hin, fmt.Sprintf("Add #%d returned nil although %q is already registered by #%d", i, nm, j), "an error",
					"registering a duplicate name or alias must be rejected")
			}
		}
		for _, nm := range names {
			taken[nm] = i
		}
	}
	e := evFromIn(in)
	log := &logBuf{}
	client := girc.New(girc.Config{Server: "x", Port: 1, Nick: "bot", User: "bot", Debug: log, AllowFlood: true})
	model := c.L.Call("cmdexec", hx(pfx), hxList(flat), encTags(e.Tags), encSource(e.Source), hx(e.Command), hxList(e.Params))
	before := len(log.String())
	res := safely(func() string { ch.Execute(client, *e); return "" })
	var action string
	wait := 2 * time.Millisecond
	if strings.Contains(model, "| invoke") {
		wait = 2 * time.Second
	}
	select {
	case iv := <-invoked:
		action = fmt.Sprintf("invoke %d %s %s", iv.id, hxList(iv.args), hx(iv.raw))
		select {
		case <-invoked:
			c.R.Violation("cmd.once", hin, "invoked twice", "", "a command function ran more than once for one message")
		case <-time.After(2 * time.Millisecond):
		}
	case <-time.After(wait):
		out := log.String()[before:]
		switch {
		case res != "":
			action = res
		case strings.Contains(out, "not enough arguments supplied"):
			i := strings.Index(out, "supplied for ")
			rest := out[i+len("supplied for "):]
			rest = strings.TrimLeft(rest, "\x02\"")
			// name is printed with %q inside bold markers; StripRaw removed the bold bytes in the log
			j := strings.IndexAny(rest, "\"")
			action = "usage " + hx(rest[:j])
		case strings.Contains(out, "to optionally get more info"):
			action = "help 0"
		case strings.Contains(out, "unknown command"):
			action = "help 1"
		case strings.Contains(out, "there is no help documentation"):
			action = "help 2"
		case strings.Contains(out, "PRIVMSG"):
			action = "help 3"
		default:
			action = "none"
		}
	}
	impl := strings.Join(addRes, " ") + " | " + action
	if impl != model {
		c.R.Mismatch("cmdexec", hin, impl, model)
	}
	// the property itself, evaluated on the implementation: for an addressed registered command the function runs with the
	// arguments split on SINGLE spaces and the raw remainder iff at least MinArgs are present, else a usage reply
	// "no other message invokes any function": a text that is not prefix + name [+ SPACE + rest] (or no PRIVMSG,
	// or no source) does nothing at all
	if !strings.Contains(e.Last(), "\n") {
		addressed := false
		if e.Source != nil && e.Command == "PRIVMSG" && strings.HasPrefix(e.Last(), pfx) {
			nm := e.Last()[len(pfx):]
			if i := strings.IndexByte(nm, ' '); i >= 0 {
				nm = nm[:i]
			}
			addressed = len(nm) >= 1 && len(nm) <= 20 && strings.Trim(nm, "abcdefghijklmnopqrstuvwxyz0123456789-_") == ""
		}
		if !addressed && action != "none" {
			c.R.Violation("cmd.unaddressed", hin, action, "none", "a message that does not address a command (prefix + name, then the end or a SPACE) must not invoke anything")
		}
	}
	if e.Source != nil && e.Command == "PRIVMSG" && strings.HasPrefix(e.Last(), pfx) {
		rest := e.Last()[len(pfx):]
		name, raw := rest, ""
		hasArgs := false
		if i := strings.IndexByte(rest, ' '); i >= 0 {
			name, raw, hasArgs = rest[:i], rest[i+1:], true
		}
		_ = hasArgs
		validName := len(name) >= 1 && len(name) <= 20 && strings.Trim(name, "abcdefghijklmnopqrstuvwxyz0123456789-_") == ""
		if validName && name != "help" && !strings.Contains(raw, "\n") {
			// which registered command (by the Add results) owns this name?
			// the owner of a name is the FIRST command that listed it; when that registration succeeded, no later (accepted or
			// rejected) registration may take the name away from it
			owner, minArgs := -1, 0
			firstLister := -1
			for i := 0; i < n; i++ {
				nm := strings.ToLower(in[fmt.Sprintf("c%d.name", i)])
				names := []string{nm}
				if a := in[fmt.Sprintf("c%d.aliases", i)]; a != "" {
					for _, al := range strings.Split(a, "\x00") {
						names = append(names, strings.ToLower(al))
					}
				}
				for _, x := range names {
					if x == name && firstLister < 0 {
						firstLister = i
						if addRes[i] == "ok" {
							owner = i
							minArgs, _ = strconv.Atoi(in[fmt.Sprintf("c%d.min", i)])
						}
					}
				}
			}
			if owner >= 0 {
				want := []string{}
				if raw != "" {
					want = strings.Split(raw, " ")
				}
				var expect string
				if len(want) < minArgs {
					expect = "usage " + hx(name)
				} else {
					expect = fmt.Sprintf("invoke %d %s %s", owner, hxList(want), hx(raw))
				}
				if action != expect {
					c.R.Violation("cmd.addressed", hin, action, expect, "an addressed registered command was not handled as the property states (function with single-space-split args / usage reply)")
				}
			}
		}
	}
}

func runC18(c *Ctx) {
	runC18Conn(c)
	r := c.R
	r.Rule = "real cmdhandler.CmdHandler with recording functions and an unconnected client whose Debug writer captures replies: prefixes incl. regex metacharacters and the empty prefix, " +
		"command/alias sets incl. invalid, upper-case and duplicate names, texts = prefix+name+args with near misses (other prefix, unknown/upper-case/over-long name, double spaces, newline, " +
		"no source, NOTICE); non-trivial = text starts with the prefix; distinct = distinct (prefix, table, event)"
	prefixes := []string{"!", ".", "", "$^", "(a|b)", "[x]", "\\", "*+?", "!!", "é", "a.b", "^"}
	names := []string{"say", "echo", "a", "x-y_z", "help", "abcdefghijklmnopqrst", "abcdefghijklmnopqrstu", "Say", "bad name", "", "9", "é"}
	for i := 0; i < 2500*c.Scale; i++ {
		pfx := c.Rng.Pick(prefixes)
		in := map[string]string{"prefix": pfx}
		n := 1 + c.Rng.Intn(3)
		in["ncmds"] = fmt.Sprint(n)
		var regd []string
		for j := 0; j < n; j++ {
			nm := c.Rng.Pick(names)
			in[fmt.Sprintf("c%d.name", j)] = nm
			var al []string
			for k := c.Rng.Intn(3); k > 0; k-- {
				al = append(al, c.Rng.Pick(names))
			}
			in[fmt.Sprintf("c%d.aliases", j)] = strings.Join(al, "\x00")
			in[fmt.Sprintf("c%d.min", j)] = fmt.Sprint(c.Rng.Intn(4) - 1)
			if c.Rng.Bool() {
				in[fmt.Sprintf("c%d.help", j)] = "does things"
			}
			regd = append(regd, nm)
			regd = append(regd, al...)
		}
		name := c.Rng.Pick(regd)
		if c.Rng.Chance(25) {
			name = c.Rng.Pick(names)
		}
		if c.Rng.Chance(10) {
			name = "help"
		}
		// (incl. a name directly followed by something that is neither a name character nor a SPACE)
		args := c.Rng.Pick([]string{"", " a", " a b", " a  b", "  a", " ", " a\nb", " say", " x y z", "a", "?", ", you there", "\tx", "!", "X y", ".", "\n", "\x00 a",
			" a ", "  ", " a b ", " a  ", "   ", " a b  ", "  a ", " \t"}) // (trailing and repeated SPACEs: empty arguments count)
		p := pfx
		if c.Rng.Chance(15) {
			p = c.Rng.Pick(prefixes)
		}
		text := p + name + args
		if c.Rng.Chance(5) {
			text = " " + text
		}
		e := &girc.Event{Command: "PRIVMSG", Params: []string{c.Rng.Pick([]string{"#chan", "bot"}), text}, Source: &girc.Source{Name: "nick", Ident: "u", Host: "h"}}
		if c.Rng.Chance(8) {
			e.Source = nil
		}
		if c.Rng.Chance(8) {
			e.Command = c.Rng.Pick([]string{"NOTICE", "JOIN", "privmsg"})
		}
		for k, v := range evIn(e) {
			in[k] = v
		}
		c.run("cmdexec", in)
		r.Count(fmt.Sprint(in), strings.HasPrefix(text, pfx), "cmdexec")
		if i < 3 {
			r.Sample(map[string]string{"prefix": q(pfx), "text": q(text), "registered": fmt.Sprint(regd)})
		}
	}
	// regexp vs hand matcher on the prefix/name boundary: exhaustive short texts, against Go's regexp compiled
	// from the same pattern string the package uses (its source text is a regenerated fact, Gen.str_cmdMatch).
	for _, pfx := range []string{"!", ".", "", "$(", "a"} {
		re := regexp.MustCompile(fmt.Sprintf(`^%s([a-z0-9-_]{1,20})(?: (.*))?$`, regexp.QuoteMeta(pfx)))
		alpha := "a-_ A\n!.$("
		cur := []string{""}
		depth := 4
		if c.Tier == "thorough" {
			depth = 5
		}
		for l := 0; l < depth; l++ {
			var next []string
			for _, w := range cur {
				for j := 0; j < len(alpha); j++ {
					t := w + string(alpha[j])
					next = append(next, t)
					want := "nomatch"
					if m := re.FindStringSubmatch(t); len(m) == 3 {
						want = hx(m[1]) + " " + hx(m[2])
					}
					if got := c.L.Call("cmdmatch", hx(pfx), hx(t)); got != want {
						r.Mismatch("cmdmatch", map[string]string{"prefix": hx(pfx), "text": hx(t)}, want, got)
					}
					r.Count(pfx+"\x00"+t, true, "regex-exhaustive")
				}
			}
			cur = next
		}
		long := pfx + strings.Repeat("a", 20)
		for _, t := range []string{long, long + "a", long + " x", long + "a x", pfx + "a \xff\xfe", pfx + "a " + strings.Repeat(" ", 3)} {
			want := "nomatch"
			if m := re.FindStringSubmatch(t); len(m) == 3 {
				want = hx(m[1]) + " " + hx(m[2])
			}
			if got := c.L.Call("cmdmatch", hx(pfx), hx(t)); got != want {
				r.Mismatch("cmdmatch", map[string]string{"prefix": hx(pfx), "text": hx(t)}, want, got)
			}
			r.Count(pfx+"\x00"+t, true, "regex-boundary")
		}
	}
	r.Exhaustive = true
}

func runStdlib(c *Ctx) {
	r := c.R
	r.Rule = "stdlib models vs the real functions: utf8.ValidString, strings.ToValidUTF8, utf8.RuneCountInString, strconv.Atoi, FieldsFunc(SPACE), base64; random and boundary inputs"
	frag := []string{"a", " ", "\xc3", "\xa9", "\xe2\x82\xac", "\xe2\x82", "\xf0\x9f\x98\x80", "\xf0\x9f", "\xed\xa0\x80", "\xc0\x80", "\xf4\x90\x80\x80", "\xff", "\x80", "é", "\xe0\x80\x80", "\xe0\xa0\x80", "\xf4\x8f\xbf\xbf", "\xef\xbf\xbd"}
	for i := 0; i < 4000*c.Scale; i++ {
		var b strings.Builder
		for k := c.Rng.Intn(6); k >= 0; k-- {
			b.WriteString(c.Rng.Pick(frag))
		}
		s := b.String()
		if i%3 == 0 {
			s = c.Rng.RawBytes(c.Rng.Intn(8))
		}
		if m := c.L.Call("validutf8", hx(s)); m != bl(utf8.ValidString(s)) {
			r.Mismatch("validutf8", map[string]string{"s": hx(s)}, bl(utf8.ValidString(s)), m)
		}
		for _, rep := range []string{"", "?"} {
			if m := c.L.Call("tovalidutf8", hx(rep), hx(s)); m != hx(strings.ToValidUTF8(s, rep)) {
				r.Mismatch("tovalidutf8", map[string]string{"s": hx(s), "rep": hx(rep)}, hx(strings.ToValidUTF8(s, rep)), m)
			}
		}
		if m := c.L.Call("runecount", hx(s)); m != fmt.Sprint(utf8.RuneCountInString(s)) {
			r.Mismatch("runecount", map[string]string{"s": hx(s)}, fmt.Sprint(utf8.RuneCountInString(s)), m)
		}
		f := strings.FieldsFunc(s, func(r rune) bool { return r == ' ' })
		if m := c.L.Call("fieldssp", hx(s)); m != hxList(f) {
			r.Mismatch("fieldssp", map[string]string{"s": hx(s)}, hxList(f), m)
		}
		r.Count("u:"+s, !utf8.ValidString(s), "utf8")
	}
	nums := []string{"", "0", "15", "21", "-1", "+5", "65535", "65536", "9223372036854775807", "9223372036854775808", "-9223372036854775808", "-9223372036854775809", "1_0", " 1", "1 ", "0x10", "007", "+", "-", "1e3", "١"}
	for _, s := range nums {
		want := "err"
		if n, err := strconv.Atoi(s); err == nil {
			want = fmt.Sprint(n)
		}
		if m := c.L.Call("atoi", hx(s)); m != want {
			r.Mismatch("atoi", map[string]string{"s": hx(s)}, want, m)
		}
		r.Count("n:"+s, true, "atoi")
	}
	for i := 0; i < 500*c.Scale; i++ {
		s := c.Rng.From("0123456789+-_ ", c.Rng.Intn(22))
		want := "err"
		if n, err := strconv.Atoi(s); err == nil {
			want = fmt.Sprint(n)
		}
		if m := c.L.Call("atoi", hx(s)); m != want {
			r.Mismatch("atoi", map[string]string{"s": hx(s)}, want, m)
		}
		r.Count("n:"+s, true, "atoi")
	}
}
