import Girc.Proofs.TransCtcp
/-
  Tie (TieCtcp): the function bodies regenerated from the Go source on every run (Girc/Gen/Funcs.lean, written by
  tools/extract/translate.go) equal the hand-written models the property theorems of C14 are about, for ALL inputs.
  Only restatements of theorems proved in Girc/Proofs/Trans*.lean, each with a non-vacuity example that evaluates the
  generated function on a literal. An edit of the Go function changes Funcs.lean and the equivalence stops building.
-/
namespace Girc.Props.TieCtcp
open Girc Girc.Model Girc.Gen

/-! ### ctcp.go -/

theorem tie_EncodeCTCPRaw : ∀ cmd text : Bytes, Fn.EncodeCTCPRaw cmd text = .ok (encodeCTCPRaw cmd text) :=
  Proofs.Trans.EncodeCTCPRaw_eq
example : Fn.EncodeCTCPRaw [0x50, 0x49] [0x78] = .ok [0x01, 0x50, 0x49, 0x20, 0x78, 0x01] := by rfl

theorem tie_DecodeCTCP : ∀ e : Event, Fn.DecodeCTCP (some e) = .ok (decodeCTCP e) := Proofs.Trans.DecodeCTCP_eq
theorem tie_DecodeCTCP_nil : Fn.DecodeCTCP none = .ok none := Proofs.Trans.DecodeCTCP_nil
-- PRIVMSG x :\x01PING 1\x01
example : Fn.DecodeCTCP (some { command := PRIVMSG, params := [[0x78], [0x01, 0x50, 0x49, 0x4E, 0x47, 0x20, 0x31, 0x01]] }) =
    .ok (some { source := none, command := [0x50, 0x49, 0x4E, 0x47], text := [0x31], reply := false }) := by rfl

end Girc.Props.TieCtcp
